import PPLV.Lattice.ProofsGridOpsCon3

/-!
# `Grid` stage 3, congruence-side mutators, part 4: `set_empty`, the state "only the congruences are up to date",
# `add_congruence_no_check` (Grid_nonpublic.cc:688)
-/
namespace PPLV.Lattice.GO
open PPLV.Lattice PPLV.Lattice.Red

/-! ### `set_empty()` -/

theorem cn_single_zeroDimFalse : CSys.single zeroDimFalse = { dim := 0, rows := [{ e := [1], m := 0 }] } := by decide

theorem cn_falseCSys_dim (n : Nat) : (falseCSys n).dim = n := cn_CSys_setSpaceDim_dim _ n

theorem cn_setEmpty_spaceDim (g : Grid) : (setEmpty g).spaceDim = g.spaceDim := rfl
theorem cn_setEmpty_st (g : Grid) : (setEmpty g).st = Status.setEmpty := rfl

theorem cn_setEmpty_sem (g : Grid) : (setEmpty g).sem = ∅ := by
  unfold Grid.sem; rw [cn_setEmpty_st]; rfl

/-- `set_empty()` establishes the invariant whatever the state was -/
theorem cn_setEmpty_inv (g : Grid) : GridInv (setEmpty g) where
  emp := fun _ => ⟨rfl, rfl, rfl, cn_falseCSys_dim _, rfl⟩
  zdim := fun h => by rw [cn_setEmpty_st] at h; cases h
  hi0 := fun h => by rw [cn_setEmpty_st] at h; cases h
  some := fun h => by rw [cn_setEmpty_st] at h; cases h
  cminUp := fun h => by rw [cn_setEmpty_st] at h; cases h
  gminUp := fun h => by rw [cn_setEmpty_st] at h; cases h
  cwf := fun h => by rw [cn_setEmpty_st] at h; cases h
  gwf := fun h => by rw [cn_setEmpty_st] at h; cases h
  agree := fun h => by rw [cn_setEmpty_st] at h; cases h
  cmin := fun h => by rw [cn_setEmpty_st] at h; cases h
  cminConv := fun h => by rw [cn_setEmpty_st] at h; cases h
  gmin := fun h => by rw [cn_setEmpty_st] at h; cases h
  gminConv := fun h => by rw [cn_setEmpty_st] at h; cases h

/-! ### what a state denotes -/

theorem cn_sem_empty (g : Grid) (h : g.st.empty = true) : g.sem = ∅ := by
  unfold Grid.sem; rw [if_pos h]

theorem cn_sem_zdim (g : Grid) (h : g.st.empty = false) (h0 : g.spaceDim = 0) : g.sem = spaceSet 0 := by
  unfold Grid.sem; rw [if_neg (by rw [h]; simp), if_pos h0]; rfl

/-- up-to-date congruences describe the grid -/
theorem cn_sem_of_cUp (g : Grid) (hI : GridInv g) (h : g.st.empty = false) (hpos : 0 < g.spaceDim) (hc : g.st.cUp = true) :
    g.sem = consSet g.spaceDim g.con := by
  unfold Grid.sem
  rw [if_neg (by rw [h]; simp), if_neg (by omega)]
  split
  · rename_i hg; exact (hI.agree h hpos hc hg).symm
  · rfl

theorem cn_hom_supp (n : Nat) (rows : List GRow) (v : Pt) (h : Hom n rows v) (i : Nat) (hi : n + 1 ≤ i) : v i = 0 := by
  have hvec : ∀ r : GRow, (r.hvec n).toFun i = 0 := fun r =>
    toFun_of_length_le _ _ (by unfold GRow.hvec ratRow; simp; omega)
  unfold Hom GDir at h
  induction h with
  | zero => rfl
  | param k hq _ ih =>
    obtain ⟨q0, hq0, rfl⟩ := List.mem_map.mp hq
    unfold pcVecs at hq0
    obtain ⟨r, _, rfl⟩ := List.mem_map.mp hq0
    simp [ih, hvec r]
  | line c hl _ ih =>
    obtain ⟨l0, hl0, rfl⟩ := List.mem_map.mp hl
    unfold lineVecs at hl0
    obtain ⟨r, _, rfl⟩ := List.mem_map.mp hl0
    simp [ih, hvec r]

theorem cn_gensSet_supp (n : Nat) (rows : List GRow) (hD : 0 < firstPointDiv rows) : gensSet n rows ⊆ spaceSet n := by
  intro x hx i hi
  have := cn_hom_supp n rows _ hx (i + 1) (by omega)
  simp only [homog] at this
  have hD' : ((firstPointDiv rows : Int) : ℚ) ≠ 0 := by exact_mod_cast hD.ne'
  exact (mul_eq_zero.mp this).resolve_left hD'

/-- the points of a grid lie in its space -/
theorem cn_sem_subset_space (g : Grid) (hI : GridInv g) : g.sem ⊆ spaceSet g.spaceDim := by
  by_cases he : g.st.empty = true
  · rw [cn_sem_empty g he]; exact Set.empty_subset _
  · have he : g.st.empty = false := by simpa using he
    by_cases h0 : g.spaceDim = 0
    · rw [cn_sem_zdim g he h0, h0]
    · have hpos : 0 < g.spaceDim := by omega
      by_cases hc : g.st.cUp = true
      · rw [cn_sem_of_cUp g hI he hpos hc]; exact cn_consSet_subset_space _ _
      · have hg : g.st.gUp = true := (hI.some he hpos).resolve_left hc
        unfold Grid.sem
        rw [if_neg (by rw [he]; simp), if_neg h0, if_pos hg]
        obtain ⟨_, _, hgn⟩ := hI.gwf he hpos hg
        exact cn_gensSet_supp g.spaceDim g.gen hgn.pos

/-- the state the congruence-side mutators leave: only the congruences are up to date, not minimized -/
theorem cn_inv_of_conOnly (r : Grid) (hpos : 0 < r.spaceDim) (he : r.st.empty = false) (hc : r.st.cUp = true)
    (hg : r.st.gUp = false) (hcm : r.st.cMin = false) (hgm : r.st.gMin = false) (hhi : r.st.hi = 0)
    (hcd : r.conDim = r.spaceDim) (hw : CWf r.spaceDim r.con) : GridInv r ∧ r.sem = consSet r.spaceDim r.con := by
  refine ⟨?_, ?_⟩
  · exact {
      emp := fun h => by rw [he] at h; cases h
      zdim := fun _ h0 => by omega
      hi0 := fun _ => hhi
      some := fun _ _ => Or.inl hc
      cminUp := fun h => by rw [hcm] at h; cases h
      gminUp := fun h => by rw [hgm] at h; cases h
      cwf := fun _ _ _ => ⟨hcd, hw⟩
      gwf := fun _ _ h => by rw [hg] at h; cases h
      agree := fun _ _ _ h => by rw [hg] at h; cases h
      cmin := fun _ _ h => by rw [hcm] at h; cases h
      cminConv := fun _ _ h => by rw [hcm] at h; cases h
      gmin := fun _ _ h => by rw [hgm] at h; cases h
      gminConv := fun _ _ h => by rw [hgm] at h; cases h }
  · unfold Grid.sem
    rw [if_neg (by rw [he]; simp), if_neg (by omega), if_neg (by rw [hg]; simp)]

/-- `if (!congruences_are_up_to_date()) update_congruences()` -/
theorem cn_ensureCon (hUC : UpdateCongruencesSpec) (g : Grid) (hI : GridInv g) (he : g.st.empty = false)
    (hpos : 0 < g.spaceDim) :
    let g1 := if !g.congruencesAreUpToDate then updateCongruences g else g
    GridInv g1 ∧ g1.sem = g.sem ∧ g1.spaceDim = g.spaceDim ∧ g1.st.empty = false ∧ g1.st.cUp = true := by
  intro g1
  by_cases hc : g.st.cUp = true
  · have : g1 = g := by simp [g1, Grid.congruencesAreUpToDate, hc]
    rw [this]; exact ⟨hI, rfl, rfl, he, hc⟩
  · have hg : g.st.gUp = true := (hI.some he hpos).resolve_left hc
    have : g1 = updateCongruences g := by simp [g1, Grid.congruencesAreUpToDate, hc]
    rw [this]
    obtain ⟨h1, h2, h3, h4, _, _, h7, _⟩ := hUC g hI he hpos hg (by simpa using hc)
    exact ⟨h1, h2, h3, h4, h7⟩

/-! ### rows of dimension 0 -/

theorem cn_row_dim0 (cg : CRow) (hd : cg.spaceDim ≤ 0) (he : cg.e ≠ []) : cg.e = [Red.get cg.e 0] := by
  unfold CRow.spaceDim at hd
  cases h : cg.e with
  | nil => exact absurd h he
  | cons a l =>
    rw [h] at hd
    have : l = [] := List.eq_nil_of_length_eq_zero (by simpa using hd)
    rw [this]; rfl

theorem cn_tmod_eq_zero_iff (c m : Int) : Int.tmod c m = 0 ↔ ∃ t : Int, c = t * m := by
  constructor
  · intro h
    have := Int.tmod_add_mul_tdiv c m
    exact ⟨Int.tdiv c m, by rw [h] at this; linarith [mul_comm m (Int.tdiv c m)]⟩
  · rintro ⟨t, rfl⟩; exact Int.mul_tmod_left t m

/-- a constant row `c ≡ 0 (mod m)` holds everywhere or nowhere -/
theorem cn_rsem_const (c m : Int) (x : Pt) : rsem { e := [c], m := m } x ↔ ∃ t : Int, c = t * m := by
  unfold rsem
  rw [evalRow_const [c] x (fun i hi => get_of_length_le _ _ (by simp only [List.length_singleton]; omega))]
  simp only [get_cons_zero]
  constructor
  · rintro ⟨t, ht⟩; exact ⟨t, by exact_mod_cast ht⟩
  · rintro ⟨t, ht⟩; exact ⟨t, by exact_mod_cast ht⟩

theorem cn_const_flag (c m : Int) : (if m = 0 then c == 0 else Int.tmod c m == 0) = true ↔ ∃ t : Int, c = t * m := by
  by_cases hm : m = 0
  · subst hm; simp
  · rw [if_neg hm, beq_iff_eq, cn_tmod_eq_zero_iff]

/-- a row of dimension 0 is tautological (`is_tautological`) iff it holds, and then it holds everywhere -/
theorem cn_isTautological_dim0 (cg : CRow) (hd : cg.spaceDim ≤ 0) (he : cg.e ≠ []) :
    (cg.isTautological = true ↔ CRow.set cg = Set.univ) ∧ (cg.isTautological = false ↔ CRow.set cg = ∅) ∧
      (cg.isInconsistent = !cg.isTautological) := by
  have hrow := cn_row_dim0 cg hd he
  have hall : allZ cg.e 1 cg.e.length = true := by rw [hrow]; simp [allZ]
  have hset : ∀ x, x ∈ CRow.set cg ↔ ∃ t : Int, Red.get cg.e 0 = t * cg.m := by
    intro x
    rw [cn_mem_set]
    have : cg = { e := [Red.get cg.e 0], m := cg.m } := by cases cg; simp only at hrow ⊢; rw [← hrow]
    rw [this]; exact cn_rsem_const _ _ x
  have hflag := cn_const_flag (Red.get cg.e 0) cg.m
  have htaut : cg.isTautological = true ↔ ∃ t : Int, Red.get cg.e 0 = t * cg.m := by
    unfold CRow.isTautological; rw [hall, Bool.and_true]; exact hflag
  refine ⟨?_, ?_, ?_⟩
  · rw [htaut]
    constructor
    · intro h; ext x; simp [hset x, h]
    · intro h; have : (fun _ => (0 : ℚ)) ∈ CRow.set cg := by rw [h]; trivial
      exact (hset _).mp this
  · rw [← Bool.not_eq_true, htaut]
    constructor
    · intro h; ext x; simp [hset x, h]
    · intro h hex
      have : (fun _ => (0 : ℚ)) ∈ CRow.set cg := (hset _).mpr hex
      rw [h] at this; exact this
  · unfold CRow.isInconsistent CRow.isTautological
    rw [hall, Bool.and_true, Bool.and_true]
    by_cases hm : cg.m = 0
    · simp [hm, bne]
    · simp [hm, bne]

/-! ### `add_congruence_no_check(cg)` -/

/-- Grid_nonpublic.cc:688 `add_congruence_no_check(cg)` on a grid that is not marked empty: the grid is cut by the
    congruence (dimension 0: `is_inconsistent` decides; otherwise `update_congruences` if needed, `insert`, and only
    the congruences stay up to date) -/
theorem cn_addCongruenceNoCheck (hUC : UpdateCongruencesSpec) (g : Grid) (cg : CRow) (hI : GridInv g)
    (hne : g.st.empty = false) (hd : cg.spaceDim ≤ g.spaceDim) (hm : 0 ≤ cg.m) (he : cg.e ≠ []) :
    GridInv (addCongruenceNoCheck g cg) ∧ (addCongruenceNoCheck g cg).sem = g.sem ∩ CRow.set cg ∧
      (addCongruenceNoCheck g cg).spaceDim = g.spaceDim := by
  unfold addCongruenceNoCheck
  by_cases h0 : g.spaceDim = 0
  · rw [if_pos h0]
    obtain ⟨ht, hf, hinc⟩ := cn_isTautological_dim0 cg (by omega) he
    by_cases htaut : cg.isTautological = true
    · have : (if (cg.isInconsistent) = true then setEmpty g else g) = g := by rw [hinc, htaut]; rfl
      rw [this]
      exact ⟨hI, by rw [ht.mp htaut, Set.inter_univ], rfl⟩
    · have htf : cg.isTautological = false := by simpa using htaut
      have : (if (cg.isInconsistent) = true then setEmpty g else g) = setEmpty g := by rw [hinc, htf]; rfl
      rw [this]
      exact ⟨cn_setEmpty_inv g, by rw [cn_setEmpty_sem, hf.mp htf, Set.inter_empty], rfl⟩
  · rw [if_neg h0]
    have hpos : 0 < g.spaceDim := by omega
    obtain ⟨hI1, hs1, hd1, he1, hc1⟩ := cn_ensureCon hUC g hI hne hpos
    generalize (if !g.congruencesAreUpToDate then updateCongruences g else g) = g1 at hI1 hs1 hd1 he1 hc1 ⊢
    have hpos1 : 0 < g1.spaceDim := by omega
    obtain ⟨hcd1, hw1⟩ := hI1.cwf he1 hpos1 hc1
    have hdc : cg.spaceDim ≤ g1.cs.dim := by show cg.spaceDim ≤ g1.conDim; omega
    have hw1' : CWf g1.cs.dim g1.cs.rows := by show CWf g1.conDim g1.con; rw [hcd1]; exact hw1
    have hdim := cn_insert_dim g1.cs cg hdc
    have hcons := cn_insert_consSet g1.cs cg hdc hm
    have hcwf := cn_insert_CWf g1.cs cg hw1' hdc hm he
    have hcsd : g1.cs.dim = g1.spaceDim := hcd1
    rw [hcsd] at hcons hcwf hdim
    have := cn_inv_of_conOnly
      ((((g1.withCs (g1.cs.insert cg)).clearCongruencesMinimized).setCongruencesUpToDate).clearGeneratorsUpToDate)
      hpos1 he1 rfl rfl rfl rfl (hI1.hi0 he1) hdim hcwf
    refine ⟨this.1, ?_, hd1⟩
    rw [this.2]
    show consSet g1.spaceDim (g1.cs.insert cg).rows = _
    rw [hcons, ← hs1, cn_sem_of_cUp g1 hI1 he1 hpos1 hc1]; rfl

/-- a small state with up-to-date congruences only: `x ≡ 0 (mod 2)` in dimension 1 -/
def cn_exGrid : Grid :=
  { spaceDim := 1, st := { cUp := true }, conDim := 1, con := [{ e := [0, 1], m := 2 }], genDim := 1, gen := [], dk := [] }

theorem cn_exGrid_inv : GridInv cn_exGrid :=
  (cn_inv_of_conOnly cn_exGrid (by decide) rfl rfl rfl rfl rfl rfl rfl (by unfold CWf; decide)).1

example : GridInv cn_exGrid ∧ cn_exGrid.st.empty = false ∧ (CRow.mk [1, 3] 6).spaceDim ≤ cn_exGrid.spaceDim ∧
    (addCongruenceNoCheck cn_exGrid ⟨[1, 3], 6⟩).con = [{ e := [0, 1], m := 2 }, { e := [1, 3], m := 6 }] :=
  ⟨cn_exGrid_inv, rfl, by decide, by decide⟩

end PPLV.Lattice.GO
