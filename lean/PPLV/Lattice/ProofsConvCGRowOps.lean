import PPLV.Lattice.ProofsConvCGBase

/-!
# `Grid::conversion` (congruences → generators): what the two inner loops of one `dim` do to the rows

* `cgDivPhase_spec`: the loop of `multiply_grid` + exact division of column `dim` (Grid_conversion.cc:439-452);
* `cgColPhase_spec`: the loop over `dim_fol` subtracting multiples of column `dim` (Grid_conversion.cc:463-490).
-/
namespace PPLV.Lattice.Red

/-- entry `k` of generator row `i` -/
def gEnt (T : List GRow) (i k : Nat) : Int := get (rowAt T i).e k

/-! ### the column phase -/

def gSubOp (s : Int) (dim f : Nat) (g : GRow) : GRow := { g with e := g.e.set f (get g.e f - s * get g.e dim) }

theorem cgSubRow_eq (s : Int) (dim f : Nat) : cgSubRow s dim f = fun d i => d.set i (gSubOp s dim f (rowAt d i)) := rfl

def cgColStep (source : List CRow) (dk : List Nat) (dim destIndex : Nat) (s : Nat × List GRow) (dimFol : Nat) :
    Nat × List GRow :=
  if kind dk dimFol ≠ CON_VIRTUAL then
    let tsi := s.1 - 1
    let sourceDim := get (rowAt source tsi).e dim
    (tsi, (dimsDown destIndex).foldl (cgSubRow sourceDim dim dimFol) s.2)
  else s

/-- the rows after the column phase -/
structure GColSpec (source : List CRow) (dk : List Nat) (dims dim K : Nat) (T T2 : List GRow) : Prop where
  len : T2.length = T.length
  line : ∀ i, i < T.length → (rowAt T2 i).line = (rowAt T i).line
  elen : ∀ i, i < T.length → (rowAt T2 i).e.length = (rowAt T i).e.length
  ent : ∀ i, i < T.length → ∀ k, gEnt T2 i k =
    if i < K ∧ dim < k ∧ k < dims ∧ nlB dk k = true then gEnt T i k - cEnt source (pos dk dims k) dim * gEnt T i dim
    else gEnt T i k

theorem cgColPhase_spec (source : List CRow) (dk : List Nat) (dims dim K : Nat) (T : List GRow) (hd : dim < dims)
    (hrows : ∀ i, i < T.length → (rowAt T i).e.length = dims + 1) :
    GColSpec source dk dims dim K T
      ((List.range' (dim + 1) (dims - (dim + 1))).foldl (cgColStep source dk dim K) (nl dk dims - nl dk (dim + 1), T)).2 := by
  have key := cg_foldl_range'_inv (cgColStep source dk dim K)
    (fun f s => s.1 = nl dk dims - nl dk f ∧ s.2.length = T.length ∧
      (∀ i, i < T.length → (rowAt s.2 i).line = (rowAt T i).line) ∧
      (∀ i, i < T.length → (rowAt s.2 i).e.length = (rowAt T i).e.length) ∧
      ∀ i, i < T.length → ∀ k, gEnt s.2 i k =
        if i < K ∧ dim < k ∧ k < f ∧ nlB dk k = true then gEnt T i k - cEnt source (pos dk dims k) dim * gEnt T i dim
        else gEnt T i k) (dims - (dim + 1)) (dim + 1) (nl dk dims - nl dk (dim + 1), T) ?_ ?_
  · rw [show dim + 1 + (dims - (dim + 1)) = dims by omega] at key
    obtain ⟨_, h2, h3, h4, h5⟩ := key
    exact ⟨h2, h3, h4, h5⟩
  · refine ⟨rfl, rfl, fun _ _ => rfl, fun _ _ => rfl, fun i _ k => ?_⟩
    rw [if_neg (by omega)]
  · rintro f s hf1 hf2 ⟨h1, h2, h3, h4, h5⟩
    have hfd : f < dims := by omega
    have hm := cntBelow_mono (nlB dk) (show f + 1 ≤ dims from hfd)
    unfold cgColStep
    by_cases hv : kind dk f = CON_VIRTUAL
    · have hvb : nlB dk f = false := by simp [nlB, hv, CON_VIRTUAL, LINE]
      have e1 := cntBelow_succ_neg (nlB dk) f hvb
      simp only [hv, ne_eq, not_true_eq_false, if_false]
      refine ⟨by simp only [nl] at *; omega, h2, h3, h4, fun i hi k => ?_⟩
      rw [h5 i hi k]
      by_cases hkp : k = f
      · subst hkp; simp [hvb]
      · by_cases hc : i < K ∧ dim < k ∧ k < f ∧ nlB dk k = true
        · rw [if_pos hc, if_pos ⟨hc.1, hc.2.1, by omega, hc.2.2.2⟩]
        · rw [if_neg hc, if_neg (fun h => hc ⟨h.1, h.2.1, by omega, h.2.2.2⟩)]
    · have hvb : nlB dk f = true := by simpa [nlB, CON_VIRTUAL, LINE] using hv
      have e1 := cntBelow_succ_pos (nlB dk) f hvb
      have hsi : s.1 - 1 = pos dk dims f := by simp only [pos, nl] at *; omega
      simp only [hv, ne_eq, not_false_eq_true, if_true]
      rw [hsi, cgSubRow_eq]
      obtain ⟨f1, f2⟩ := cg_foldl_rowop (gSubOp (get (rowAt source (pos dk dims f)).e dim) dim f) K s.2
      refine ⟨rfl, by rw [f1, h2], fun i hi => ?_, fun i hi => ?_, fun i hi k => ?_⟩
      · rw [f2 i]; split
        · exact h3 i hi
        · exact h3 i hi
      · rw [f2 i]; split
        · simp only [gSubOp, List.length_set]; exact h4 i hi
        · exact h4 i hi
      · simp only [gEnt]
        rw [f2 i]
        have hlen : f < (rowAt s.2 i).e.length := by rw [h4 i hi, hrows i hi]; omega
        by_cases hiK : i < K
        · rw [if_pos ⟨hiK, by omega⟩]
          simp only [gSubOp]
          rw [get_set]
          by_cases hkp : k = f
          · subst hkp
            rw [if_pos ⟨rfl, hlen⟩, if_pos ⟨hiK, by omega, by omega, hvb⟩]
            have a1 := h5 i hi k
            have a2 := h5 i hi dim
            rw [if_neg (by omega)] at a1 a2
            simp only [gEnt] at a1 a2
            rw [a1, a2]; rfl
          · rw [if_neg (by omega)]
            have a1 := h5 i hi k
            simp only [gEnt] at a1
            rw [a1]
            by_cases hc : i < K ∧ dim < k ∧ k < f ∧ nlB dk k = true
            · rw [if_pos hc, if_pos ⟨hc.1, hc.2.1, by omega, hc.2.2.2⟩]
            · rw [if_neg hc, if_neg (fun h => hc ⟨h.1, h.2.1, by omega, h.2.2.2⟩)]
        · rw [if_neg (by omega)]
          have a1 := h5 i hi k
          simp only [gEnt] at a1
          rw [a1, if_neg (by omega), if_neg (by omega)]

/-! ### `multiply_grid` -/

/-- `g'` is `g` scaled by `f` -/
structure GScaled (g g' : GRow) (f : Int) : Prop where
  line : g'.line = g.line
  elen : g'.e.length = g.e.length
  get : ∀ k, get g'.e k = get g.e k * f

theorem GScaled.refl (g : GRow) : GScaled g g 1 := ⟨rfl, rfl, fun k => by simp⟩
theorem GScaled.mulAll (g : GRow) (f : Int) : GScaled g { g with e := mulAll g.e f } f :=
  ⟨rfl, by simp, fun k => get_mulAll g.e f k⟩

theorem multiplyGridGen_spec (mult : Int) (hm : 0 < mult) (T : List GRow) (r N : Nat) (hN : T.length ≤ N) :
    (multiplyGridGen mult T r N).length = T.length ∧
    ∃ g : Int, 0 < g ∧ ∀ i, i < T.length → ∃ gi : Int, 0 < gi ∧ ((rowAt T i).line = false → gi = g) ∧
      (i = r → gi = mult) ∧ GScaled (rowAt T i) (rowAt (multiplyGridGen mult T r N) i) gi := by
  unfold multiplyGridGen
  by_cases h1 : mult = 1
  · rw [if_pos h1]
    exact ⟨rfl, 1, by omega, fun i _ => ⟨1, by omega, fun _ => rfl, fun _ => h1.symm, GScaled.refl _⟩⟩
  · simp only [h1, if_false]
    by_cases hp : (rowAt T r).isLine = true
    · simp only [hp, if_true]
      refine ⟨by simp, 1, by omega, fun i hi => ?_⟩
      rw [rowAt_set]
      by_cases hir : i = r
      · subst hir
        rw [if_pos ⟨rfl, hi⟩]
        refine ⟨mult, hm, fun h => ?_, fun _ => rfl, GScaled.mulAll _ _⟩
        simp only [GRow.isLine] at hp
        rw [hp] at h; exact absurd h (by simp)
      · rw [if_neg (fun h => hir h.1)]
        exact ⟨1, by omega, fun _ => rfl, fun h => absurd h hir, GScaled.refl _⟩
    · simp only [hp, Bool.false_eq_true, if_false]
      refine ⟨by simp, mult, hm, fun i hi => ?_⟩
      rw [rowAt_mapIdx T _ i hi]
      by_cases hpi : (rowAt T i).line = false
      · have : (rowAt T i).isParameterOrPoint = true := by simp [GRow.isParameterOrPoint, hpi]
        rw [if_pos ⟨by omega, this⟩]
        exact ⟨mult, hm, fun _ => rfl, fun _ => rfl, GScaled.mulAll _ _⟩
      · have : ¬ (rowAt T i).isParameterOrPoint = true := by
          simp only [GRow.isParameterOrPoint]; simpa using hpi
        rw [if_neg (fun h => this h.2)]
        refine ⟨1, by omega, fun h => absurd h hpi, fun h => ?_, GScaled.refl _⟩
        subst h
        simp only [GRow.isLine] at hp
        exact absurd (by simpa using hp) hpi

/-! ### the division phase -/

/-- rows `lo ≤ i < K` have been treated -/
structure GDivSpec (a : Int) (e lo K : Nat) (T T1 : List GRow) : Prop where
  len : T1.length = T.length
  ex : ∃ f : Int, 0 < f ∧ ∀ i, i < T.length → ∃ fi : Int, 0 < fi ∧ ((rowAt T i).line = false → fi = f) ∧
    (rowAt T1 i).line = (rowAt T i).line ∧ (rowAt T1 i).e.length = (rowAt T i).e.length ∧
    (∀ k, (k ≠ e ∨ ¬(lo ≤ i ∧ i < K)) → gEnt T1 i k = gEnt T i k * fi) ∧
    (lo ≤ i → i < K → gEnt T1 i e * a = gEnt T i e * fi)

theorem cgExactMul (x a : Int) (ha : 0 < a) :
    0 < a / gcdI x a ∧ (x * (a / gcdI x a)) / a * a = x * (a / gcdI x a) := by
  have hg : 0 < gcdI x a := by
    simp only [gcdI]; exact_mod_cast Int.gcd_pos_of_ne_zero_right x (by omega)
  obtain ⟨x', hx⟩ := Int.gcd_dvd_left x a
  obtain ⟨a', ha'⟩ := Int.gcd_dvd_right x a
  have hq : a / gcdI x a = a' := by
    simp only [gcdI]
    exact Int.ediv_eq_of_eq_mul_right (by simp only [gcdI] at hg; omega) ha'
  rw [hq]
  have ha'pos : 0 < a' := by
    simp only [gcdI] at hg
    by_contra hc
    have : a' ≤ 0 := by omega
    have := Int.mul_nonpos_of_nonneg_of_nonpos (Int.le_of_lt hg) this
    omega
  refine ⟨ha'pos, ?_⟩
  apply Int.ediv_mul_cancel
  refine ⟨x', ?_⟩
  have e1 : x * a' = ((Int.gcd x a : Int) * x') * a' := by rw [← hx]
  have e2 : a * x' = ((Int.gcd x a : Int) * a') * x' := by rw [← ha']
  rw [e1, e2]; ring

theorem cgDivPhase_spec (a : Int) (ha : 0 < a) (e K N : Nat) (T : List GRow) (hN : T.length = N) (hK : K ≤ N) :
    GDivSpec a e 0 K T ((dimsDown K).foldl (cgDivideRow a e N) T) := by
  refine foldl_dimsDown_inv (cgDivideRow a e N) (fun lo cur => GDivSpec a e lo K T cur) K T ?_ ?_
  · refine ⟨rfl, 1, by omega, fun i _ => ⟨1, by omega, fun _ => rfl, rfl, rfl, fun k _ => by simp, fun h1 h2 => by omega⟩⟩
  · rintro r cur hr ⟨hl, f, hf, hrow⟩
    unfold cgDivideRow
    obtain ⟨hmpos, hexact⟩ := cgExactMul (get (rowAt cur r).e e) a ha
    obtain ⟨ml, g, hg, hmul⟩ := multiplyGridGen_spec _ hmpos cur r N (by omega)
    refine ⟨by simp [ml, hl], f * g, Int.mul_pos hf hg, fun i hi => ?_⟩
    obtain ⟨fi, hfi, c1, c2, c3, c4, c5⟩ := hrow i hi
    obtain ⟨gi, hgi, d1, d2, d3⟩ := hmul i (by omega)
    refine ⟨fi * gi, Int.mul_pos hfi hgi, fun hp => ?_, ?_, ?_, ?_, ?_⟩
    · have hpc : (rowAt cur i).line = false := by rw [c2]; exact hp
      rw [c1 hp, d1 hpc]
    · rw [rowAt_set]
      by_cases hir : i = r
      · subst hir
        rw [if_pos ⟨rfl, by rw [ml]; omega⟩]
        simp only []
        rw [d3.line, c2]
      · rw [if_neg (fun h => hir h.1), d3.line, c2]
    · rw [rowAt_set]
      by_cases hir : i = r
      · subst hir
        rw [if_pos ⟨rfl, by rw [ml]; omega⟩]
        simp only [length_exactDivAssign]
        rw [d3.elen, c3]
      · rw [if_neg (fun h => hir h.1), d3.elen, c3]
    · intro k hk
      simp only [gEnt]
      rw [rowAt_set]
      by_cases hir : i = r
      · subst hir
        rw [if_pos ⟨rfl, by rw [ml]; omega⟩]
        simp only []
        rw [get_exactDivAssign]
        have hke : k ≠ e := by
          rcases hk with h | h
          · exact h
          · exact absurd ⟨Nat.le_refl _, hr⟩ h
        rw [if_neg (by omega), d3.get k]
        have := c4 k (Or.inl hke)
        simp only [gEnt] at this
        rw [this]; ring
      · rw [if_neg (fun h => hir h.1), d3.get k]
        have := c4 k (by
          rcases hk with h | h
          · exact Or.inl h
          · exact Or.inr (by omega))
        simp only [gEnt] at this
        rw [this]; ring
    · intro h1 h2
      simp only [gEnt]
      rw [rowAt_set]
      by_cases hir : i = r
      · subst hir
        rw [if_pos ⟨rfl, by rw [ml]; omega⟩]
        simp only []
        rw [get_exactDivAssign, if_pos ⟨Nat.le_refl _, by omega⟩, d3.get e, d2 rfl, hexact]
        have := c4 e (Or.inr (by omega))
        simp only [gEnt] at this
        rw [this]; ring
      · rw [if_neg (fun h => hir h.1), d3.get e]
        have := c5 (by omega) h2
        simp only [gEnt] at this
        calc get (rowAt cur i).e e * gi * a = (get (rowAt cur i).e e * a) * gi := by ring
          _ = (get (rowAt T i).e e * fi) * gi := by rw [this]
          _ = get (rowAt T i).e e * (fi * gi) := by ring

end PPLV.Lattice.Red
