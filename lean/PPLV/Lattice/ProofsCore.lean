import PPLV.Lattice.ProofsVec
import PPLV.Lattice.ProofsArith

/-!
# K2: `intersectCon` computes the intersection with a congruence; `consToGens`
-/
set_option linter.unusedSimpArgs false
namespace PPLV.Lattice
open List

theorem cg_sem_iff (c : Cg) (x : Pt) : c.sem x ↔ Abs.SatCg (alphaOf c.a) c.b c.f x := Iff.rfl

/-! ### unimodular step -/

theorem combine_spec (a q1 q2 : Vec) (h1 : dot a q1 ≠ 0) (L : List Pt) :
    let uv := combine q1 q2 (dot a q1) (dot a q2)
    dot a uv.1 ≠ 0 ∧ dot a uv.2 = 0 ∧
    Abs.Dir [uv.1.toFun, uv.2.toFun] L q1.toFun ∧ Abs.Dir [uv.1.toFun, uv.2.toFun] L q2.toFun ∧
    Abs.Dir [q1.toFun, q2.toFun] L uv.1.toFun ∧ Abs.Dir [q1.toFun, q2.toFun] L uv.2.toFun := by
  intro uv
  obtain ⟨hu, hv, hdet⟩ := combineCoef_spec (dot a q1) (dot a q2) h1
  set k := combineCoef (dot a q1) (dot a q2) with hk
  have eu : uv.1.toFun = (k.1 : Rat) • q1.toFun + (k.2.1 : Rat) • q2.toFun := by
    simp [uv, combine, toFun_vadd, toFun_vsmul, ← hk]
  have ev : uv.2.toFun = (k.2.2.1 : Rat) • q1.toFun + (k.2.2.2 : Rat) • q2.toFun := by
    simp [uv, combine, toFun_vadd, toFun_vsmul, ← hk]
  have du : dot a uv.1 = (k.1 : Rat) * dot a q1 + (k.2.1 : Rat) * dot a q2 := by
    rw [dot_eq_dotF, eu, dotF_add, dotF_smul, dotF_smul, ← dot_eq_dotF, ← dot_eq_dotF]
  have dv : dot a uv.2 = (k.2.2.1 : Rat) * dot a q1 + (k.2.2.2 : Rat) * dot a q2 := by
    rw [dot_eq_dotF, ev, dotF_add, dotF_smul, dotF_smul, ← dot_eq_dotF, ← dot_eq_dotF]
  refine ⟨by rw [du]; exact hu, by rw [dv]; exact hv, ?_, ?_, ?_, ?_⟩
  · -- q1 = d u - t v
    have : q1.toFun = (0 + ((k.2.2.2 : Int) : Rat) • uv.1.toFun) + ((-k.2.1 : Int) : Rat) • uv.2.toFun := by
      rw [eu, ev]; push_cast
      have e1 : q1.toFun = ((k.2.2.2 : Rat) * k.1 - k.2.1 * k.2.2.1) • q1.toFun := by rw [hdet, one_smul]
      conv_lhs => rw [e1]
      module
    rw [this]
    exact Abs.Dir.param _ (by simp) (Abs.Dir.param _ (by simp) Abs.Dir.zero)
  · -- q2 = -c u + s v
    have : q2.toFun = (0 + ((-k.2.2.1 : Int) : Rat) • uv.1.toFun) + ((k.1 : Int) : Rat) • uv.2.toFun := by
      rw [eu, ev]; push_cast
      have e1 : q2.toFun = ((k.2.2.2 : Rat) * k.1 - k.2.1 * k.2.2.1) • q2.toFun := by rw [hdet, one_smul]
      conv_lhs => rw [e1]
      module
    rw [this]
    exact Abs.Dir.param _ (by simp) (Abs.Dir.param _ (by simp) Abs.Dir.zero)
  · have : uv.1.toFun = (0 + (k.1 : Rat) • q1.toFun) + (k.2.1 : Rat) • q2.toFun := by rw [eu]; module
    rw [this]
    exact Abs.Dir.param _ (by simp) (Abs.Dir.param _ (by simp) Abs.Dir.zero)
  · have : uv.2.toFun = (0 + (k.2.2.1 : Rat) • q1.toFun) + (k.2.2.2 : Rat) • q2.toFun := by rw [ev]; module
    rw [this]
    exact Abs.Dir.param _ (by simp) (Abs.Dir.param _ (by simp) Abs.Dir.zero)

/-! ### reduction of the parameters -/

theorem reduceParams_spec (a : Vec) (qs : List Vec) (L : List Vec) :
    (∀ v, GDir qs L v ↔ GDir ((reduceParams a qs).1.toList ++ (reduceParams a qs).2) L v) ∧
    (∀ q ∈ (reduceParams a qs).2, dot a q = 0) ∧
    (∀ q, (reduceParams a qs).1 = some q → dot a q ≠ 0) := by
  induction qs with
  | nil => simp [reduceParams]
  | cons q qs ih =>
    obtain ⟨ih1, ih2, ih3⟩ := ih
    -- lifting the induction hypothesis under an extra parameter
    have lift : ∀ (X Y : List Vec), (∀ v, GDir qs L v → GDir X L v) → (∀ r ∈ X, r = q ∨ r ∈ Y ∨ GDir Y L r.toFun) →
        True := fun _ _ _ _ => trivial
    clear lift
    by_cases hq : dot a q = 0
    · simp only [reduceParams, hq, if_true]
      refine ⟨?_, ?_, ih3⟩
      · intro v
        constructor
        · intro h
          refine Abs.Dir.mono ?_ ?_ h
          · intro r hr
            simp only [List.map_cons, List.mem_cons] at hr
            rcases hr with rfl | hr
            · exact Abs.Dir.of_param (by simp)
            · have : GDir qs L r := Abs.Dir.of_param hr
              exact Abs.Dir.mono_subset (by intro z hz; simp only [List.map_append, List.mem_append, List.map_cons, List.mem_cons, List.map_nil, List.not_mem_nil] at hz ⊢; tauto) (fun _ h => h) ((ih1 r).mp this)
          · intro l hl c; exact Abs.Dir.of_line c hl
        · intro h
          refine Abs.Dir.mono ?_ ?_ h
          · intro r hr
            simp only [List.map_append, List.map_cons, List.mem_append, List.mem_cons] at hr
            rcases hr with hr | rfl | hr
            · have : GDir ((reduceParams a qs).1.toList ++ (reduceParams a qs).2) L r :=
                Abs.Dir.of_param (by simp only [List.map_append, List.mem_append]; exact Or.inl hr)
              exact Abs.Dir.mono_subset (by intro z hz; simp only [List.map_append, List.mem_append, List.map_cons, List.mem_cons, List.map_nil, List.not_mem_nil] at hz ⊢; tauto) (fun _ h => h) ((ih1 r).mpr this)
            · exact Abs.Dir.of_param (by simp)
            · have : GDir ((reduceParams a qs).1.toList ++ (reduceParams a qs).2) L r :=
                Abs.Dir.of_param (by simp only [List.map_append, List.mem_append]; exact Or.inr hr)
              exact Abs.Dir.mono_subset (by intro z hz; simp only [List.map_append, List.mem_append, List.map_cons, List.mem_cons, List.map_nil, List.not_mem_nil] at hz ⊢; tauto) (fun _ h => h) ((ih1 r).mpr this)
          · intro l hl c; exact Abs.Dir.of_line c hl
      · intro r hr
        rcases List.mem_cons.mp hr with rfl | hr
        · exact hq
        · exact ih2 r hr
    · cases hcar : (reduceParams a qs).1 with
      | none =>
        simp only [reduceParams, hq, if_false, hcar]
        rw [hcar] at ih1
        refine ⟨?_, ih2, ?_⟩
        · intro v
          simp only [Option.toList_none, Option.toList_some, List.nil_append, List.singleton_append] at ih1 ⊢
          constructor
          · intro h
            refine Abs.Dir.mono ?_ ?_ h
            · intro r hr
              simp only [List.map_cons, List.mem_cons] at hr
              rcases hr with rfl | hr
              · exact Abs.Dir.of_param (by simp)
              · have : GDir qs L r := Abs.Dir.of_param hr
                exact Abs.Dir.mono_subset (by intro z hz; simp only [List.map_append, List.mem_append, List.map_cons, List.mem_cons, List.map_nil, List.not_mem_nil] at hz ⊢; tauto) (fun _ h => h) ((ih1 r).mp this)
            · intro l hl c; exact Abs.Dir.of_line c hl
          · intro h
            refine Abs.Dir.mono ?_ ?_ h
            · intro r hr
              simp only [List.map_cons, List.mem_cons] at hr
              rcases hr with rfl | hr
              · exact Abs.Dir.of_param (by simp)
              · have : GDir (reduceParams a qs).2 L r := Abs.Dir.of_param hr
                exact Abs.Dir.mono_subset (by intro z hz; simp only [List.map_append, List.mem_append, List.map_cons, List.mem_cons, List.map_nil, List.not_mem_nil] at hz ⊢; tauto) (fun _ h => h) ((ih1 r).mpr this)
            · intro l hl c; exact Abs.Dir.of_line c hl
        · intro r hr; simp only [Option.some.injEq] at hr; subst hr; exact hq
      | some q1 =>
        simp only [reduceParams, hq, if_false, hcar]
        rw [hcar] at ih1
        have hq1 : dot a q1 ≠ 0 := ih3 q1 hcar
        obtain ⟨cu, cv, d1, d2, d3, d4⟩ := combine_spec a q1 q hq1 (L.map Vec.toFun)
        set uv := combine q1 q (dot a q1) (dot a q) with huv
        refine ⟨?_, ?_, ?_⟩
        · intro v
          simp only [Option.toList_some, List.singleton_append] at ih1 ⊢
          constructor
          · intro h
            refine Abs.Dir.mono ?_ ?_ h
            · intro r hr
              simp only [List.map_cons, List.mem_cons] at hr
              rcases hr with rfl | hr
              · exact Abs.Dir.mono_subset (by intro z hz; simp only [List.map_append, List.mem_append, List.map_cons, List.mem_cons, List.map_nil, List.not_mem_nil] at hz ⊢; tauto) (fun _ h => h) d2
              · have : GDir qs L r := Abs.Dir.of_param hr
                have h2 := (ih1 r).mp this
                refine Abs.Dir.mono ?_ ?_ h2
                · intro z hz
                  simp only [List.map_cons, List.mem_cons] at hz
                  rcases hz with rfl | hz
                  · exact Abs.Dir.mono_subset (by intro z hz; simp only [List.map_append, List.mem_append, List.map_cons, List.mem_cons, List.map_nil, List.not_mem_nil] at hz ⊢; tauto) (fun _ h => h) d1
                  · exact Abs.Dir.of_param (by simp only [List.map_cons, List.mem_cons]; tauto)
                · intro l hl c; exact Abs.Dir.of_line c hl
            · intro l hl c; exact Abs.Dir.of_line c hl
          · intro h
            -- generators of the new system are directions of `q1 :: q :: ker`, which are directions of `q :: qs`
            have step1 : GDir (q1 :: q :: (reduceParams a qs).2) L v := by
              refine Abs.Dir.mono ?_ ?_ h
              · intro r hr
                simp only [List.map_cons, List.mem_cons] at hr
                rcases hr with rfl | rfl | hr
                · exact Abs.Dir.mono_subset (by intro z hz; simp only [List.map_append, List.mem_append, List.map_cons, List.mem_cons, List.map_nil, List.not_mem_nil] at hz ⊢; tauto) (fun _ h => h) d3
                · exact Abs.Dir.mono_subset (by intro z hz; simp only [List.map_append, List.mem_append, List.map_cons, List.mem_cons, List.map_nil, List.not_mem_nil] at hz ⊢; tauto) (fun _ h => h) d4
                · exact Abs.Dir.of_param (by simp only [List.map_cons, List.mem_cons]; tauto)
              · intro l hl c; exact Abs.Dir.of_line c hl
            refine Abs.Dir.mono ?_ ?_ step1
            · intro r hr
              simp only [List.map_cons, List.mem_cons] at hr
              rcases hr with rfl | rfl | hr
              · have : GDir (q1 :: (reduceParams a qs).2) L (Vec.toFun q1) := Abs.Dir.of_param (by simp)
                exact Abs.Dir.mono_subset (by intro z hz; simp only [List.map_append, List.mem_append, List.map_cons, List.mem_cons, List.map_nil, List.not_mem_nil] at hz ⊢; tauto) (fun _ h => h) ((ih1 _).mpr this)
              · exact Abs.Dir.of_param (by simp)
              · have : GDir (q1 :: (reduceParams a qs).2) L r :=
                  Abs.Dir.of_param (by simp only [List.map_cons, List.mem_cons]; tauto)
                exact Abs.Dir.mono_subset (by intro z hz; simp only [List.map_append, List.mem_append, List.map_cons, List.mem_cons, List.map_nil, List.not_mem_nil] at hz ⊢; tauto) (fun _ h => h) ((ih1 _).mpr this)
            · intro l hl c; exact Abs.Dir.of_line c hl
        · intro r hr
          rcases List.mem_cons.mp hr with rfl | hr
          · exact cv
          · exact ih2 r hr
        · intro r hr; simp only [Option.some.injEq] at hr; subst hr; exact cu

/-! ### line case -/

theorem find_some_spec {α : Type} (p : α → Bool) (l : List α) (x : α) (h : l.find? p = some x) :
    x ∈ l ∧ p x = true := ⟨List.mem_of_find?_eq_some h, List.find?_some h⟩

theorem lineCase_spec (g : Gens) (c : Cg) (l0 : Vec) (hl0 : l0 ∈ g.lines) (hβ : dot c.a l0 ≠ 0) (x : Pt) :
    (lineCase g c l0 (dot c.a l0)).Mem x ↔ g.Mem x ∧ c.sem x := by
  have hβ' : alphaOf c.a l0.toFun ≠ 0 := by rw [alphaOf_toFun]; exact hβ
  rw [cg_sem_iff, mem_iff_abs g,
    ← Abs.lineCase_spec (alphaOf c.a) c.b c.f l0.toFun hβ' (toAbs g) (List.mem_map_of_mem hl0) x]
  -- the executable result and the abstract one differ by zero vectors only
  have hproj : ∀ v : Vec, (projLin c.a l0 (dot c.a l0) v).toFun = Abs.projLin (alphaOf c.a) l0.toFun v.toFun := by
    intro v
    simp [projLin, Abs.projLin, toFun_vsub, toFun_vsmul, ← dot_eq_dotF]
  rw [mem_iff_abs, Abs.mem_iff_dir, Abs.mem_iff_dir]
  have hpt : (toAbs (lineCase g c l0 (dot c.a l0))).pt = (Abs.lineCase (alphaOf c.a) c.b c.f l0.toFun (toAbs g)).pt := by
    simp [toAbs, lineCase, Abs.lineCase, Abs.projAff, toFun_vsub, toFun_vsmul, ← dot_eq_dotF]
  rw [hpt]
  have hd := gdir_dropZero (g.params.map (projLin c.a l0 (dot c.a l0)) ++ (if c.f = 0 then [] else [vsmul (c.f / dot c.a l0) l0]))
    (g.lines.map (projLin c.a l0 (dot c.a l0)))
  have e1 : (toAbs (lineCase g c l0 (dot c.a l0))).params = (dropZero (g.params.map (projLin c.a l0 (dot c.a l0)) ++ (if c.f = 0 then [] else [vsmul (c.f / dot c.a l0) l0]))).map Vec.toFun := rfl
  have e2 : (toAbs (lineCase g c l0 (dot c.a l0))).lines = (dropZero (g.lines.map (projLin c.a l0 (dot c.a l0)))).map Vec.toFun := rfl
  rw [e1, e2]
  have hd' := hd (x - (Abs.lineCase (alphaOf c.a) c.b c.f l0.toFun (toAbs g)).pt)
  unfold GDir at hd'
  rw [hd']
  have e3 : (g.params.map (projLin c.a l0 (dot c.a l0)) ++ (if c.f = 0 then [] else [vsmul (c.f / dot c.a l0) l0])).map Vec.toFun
      = (Abs.lineCase (alphaOf c.a) c.b c.f l0.toFun (toAbs g)).params := by
    simp only [Abs.lineCase, toAbs, List.map_append, List.map_map]
    congr 1
    · apply List.map_congr_left; intro v _; exact hproj v
    · split <;> simp [toFun_vsmul, ← dot_eq_dotF]
  have e4 : (g.lines.map (projLin c.a l0 (dot c.a l0))).map Vec.toFun
      = (Abs.lineCase (alphaOf c.a) c.b c.f l0.toFun (toAbs g)).lines := by
    simp only [Abs.lineCase, toAbs, List.map_map]
    apply List.map_congr_left; intro v _; exact hproj v
  rw [e3, e4]

/-! ### parameter case -/

theorem paramCase_spec (g : Gens) (c : Cg) (hlines : ∀ l ∈ g.lines, dot c.a l = 0) (x : Pt) :
    Gen.sem (paramCase g c) x ↔ g.Mem x ∧ c.sem x := by
  obtain ⟨r1, r2, r3⟩ := reduceParams_spec c.a g.params g.lines
  have hL : ∀ l ∈ g.lines.map Vec.toFun, alphaOf c.a l = 0 := by
    intro l hl; obtain ⟨w, hw, rfl⟩ := List.mem_map.mp hl; rw [alphaOf_toFun]; exact hlines w hw
  have hK : ∀ r ∈ (reduceParams c.a g.params).2.map Vec.toFun, alphaOf c.a r = 0 := by
    intro l hl; obtain ⟨w, hw, rfl⟩ := List.mem_map.mp hl; rw [alphaOf_toFun]; exact r2 w hw
  -- g with reduced parameters
  have hg' : g.Mem x ↔ Gens.Mem { g with params := (reduceParams c.a g.params).1.toList ++ (reduceParams c.a g.params).2 } x :=
    mem_congr_dir g { g with params := (reduceParams c.a g.params).1.toList ++ (reduceParams c.a g.params).2 } rfl r1 x
  unfold paramCase
  simp only
  cases hcar : (reduceParams c.a g.params).1 with
  | none =>
    have hsplit : reduceParams c.a g.params = (none, (reduceParams c.a g.params).2) := by
      rw [← hcar]
    rw [hsplit]
    simp only
    rw [hcar] at hg'
    simp only [Option.toList_none, List.nil_append] at hg'
    -- α is constant on the grid
    have hconst : ∀ y, Gens.Mem { g with params := (reduceParams c.a g.params).2 } y →
        dotF c.a y + c.b = dot c.a g.pt + c.b := by
      intro y hy
      rw [mem_iff_gdir] at hy
      have := Abs.alpha_dir_zero (alphaOf c.a) _ _ hL hK hy
      simp only [map_sub, alphaOf_apply] at this
      rw [dot_eq_dotF]; linarith
    by_cases hin : inModZ (dot c.a g.pt + c.b) c.f = true
    · simp only [hin, if_true, Gen.sem]
      rw [hg']
      constructor
      · intro h
        refine ⟨h, ?_⟩
        obtain ⟨t, ht⟩ := (inModZ_iff _ _).mp hin
        exact ⟨t, by rw [hconst x h]; exact ht⟩
      · exact fun h => h.1
    · simp only [hin, Gen.sem]
      constructor
      · exact False.elim
      · rintro ⟨h1, t, ht⟩
        apply hin
        rw [inModZ_iff]
        exact ⟨t, by rw [← hconst x (hg'.mp h1)]; exact ht⟩
  | some qs =>
    have hsplit : reduceParams c.a g.params = (some qs, (reduceParams c.a g.params).2) := by
      rw [← hcar]
    rw [hsplit]
    simp only
    rw [hcar] at hg'
    simp only [Option.toList_some, List.singleton_append] at hg'
    have hrs : dot c.a qs ≠ 0 := r3 qs hcar
    set ker := (reduceParams c.a g.params).2 with hker
    cases hsol : solveCg (dot c.a g.pt + c.b) (dot c.a qs) c.f with
    | none =>
      simp only [Gen.sem]
      constructor
      · exact False.elim
      · rintro ⟨h1, t, ht⟩
        have h1' := hg'.mp h1
        rw [mem_iff_gdir] at h1'
        obtain ⟨k, hk⟩ := Abs.alpha_dir_one (alphaOf c.a) qs.toFun (ker.map Vec.toFun) _ hL hK h1'
        simp only [map_sub, alphaOf_apply, ← dot_eq_dotF] at hk
        refine solveCg_none _ _ _ hrs hsol k ⟨t, ?_⟩
        rw [← ht]; linarith
    | some km =>
      obtain ⟨k0, m⟩ := km
      obtain ⟨⟨T0, hT0⟩, ⟨T1, hT1⟩, hmin⟩ := solveCg_some _ _ _ hrs k0 m hsol
      simp only [Gen.sem]
      have key := Abs.reducedCase_spec (alphaOf c.a) c.b c.f g.pt.toFun qs.toFun (ker.map Vec.toFun)
        (g.lines.map Vec.toFun) k0 m hL hK
        ⟨T0, by simp only [map_add, map_smul, alphaOf_apply, smul_eq_mul, ← dot_eq_dotF]; rw [← hT0]; ring⟩
        ⟨T1, by simp only [alphaOf_apply, ← dot_eq_dotF]; exact hT1⟩
        (by intro k ⟨T, hT⟩; exact hmin k ⟨T, by simpa only [alphaOf_apply, ← dot_eq_dotF] using hT⟩) x
      rw [hg', cg_sem_iff, mem_iff_abs { g with params := qs :: ker }]
      have e0 : toAbs { g with params := qs :: ker } = ⟨g.pt.toFun, qs.toFun :: ker.map Vec.toFun, g.lines.map Vec.toFun⟩ := rfl
      rw [e0, ← key]
      rw [mem_iff_abs, Abs.mem_iff_dir, Abs.mem_iff_dir]
      simp only [toAbs, toFun_vaxpy]
      by_cases hm0 : m = 0
      · simp only [hm0, if_true]
        constructor
        · exact Abs.Dir.mono_subset (by intro z hz; simp only [List.map_append, List.mem_append, List.map_cons, List.mem_cons, List.map_nil, List.not_mem_nil] at hz ⊢; tauto) (fun _ h => h)
        · refine Abs.Dir.mono_subset0 ?_ (fun l h => Or.inr h)
          intro q hq
          simp only [List.mem_cons] at hq
          rcases hq with rfl | hq
          · left; simp
          · right; exact hq
      · simp only [hm0, if_false, List.map_cons, toFun_vsmul]

/-! ### the core theorem -/

theorem intersectCon_sem (G : GridGens) (c : Cg) (x : Pt) :
    Gen.sem (intersectCon G c) x ↔ Gen.sem G x ∧ c.sem x := by
  cases G with
  | empty => simp [intersectCon, Gen.sem]
  | gens g =>
    simp only [intersectCon]
    cases hf : g.lines.find? (fun l => dot c.a l != 0) with
    | some l0 =>
      obtain ⟨h1, h2⟩ := find_some_spec _ _ _ hf
      simp only [bne_iff_ne, ne_eq] at h2
      exact lineCase_spec g c l0 h1 h2 x
    | none =>
      simp only
      refine paramCase_spec g c ?_ x
      intro l hl
      have := List.find?_eq_none.mp hf l hl
      simpa using this

theorem intersectCons_sem (G : GridGens) (cs : List Cg) (x : Pt) :
    Gen.sem (intersectCons G cs) x ↔ Gen.sem G x ∧ ∀ c ∈ cs, c.sem x := by
  induction cs generalizing G with
  | nil => simp [intersectCons]
  | cons c cs ih =>
    simp only [intersectCons, List.foldl_cons] at ih ⊢
    rw [ih, intersectCon_sem]
    simp only [List.mem_cons, forall_eq_or_imp]
    tauto

/-! ### the universe and `consToGens` -/

theorem univ_sem (n : Nat) (x : Pt) : Gen.sem (univ n) x ↔ Supp n x := by
  simp only [univ, Gen.sem]
  constructor
  · intro h
    refine mem_supp _ n ?_ x h
    simp only [Gens.maxLen, List.length_nil, maxLenL, List.foldr_nil]
    have : ∀ m, List.foldr (fun (v : Vec) k => max v.length k) 0 ((List.range m).map unit) ≤ m := by
      intro m
      induction m with
      | zero => simp
      | succ m ih =>
        rw [List.range_succ, List.map_append, List.foldr_append]
        simp only [List.map_cons, List.map_nil, List.foldr_cons, List.foldr_nil, length_unit]
        have mono : ∀ (X : List Vec) (a b : Nat), a ≤ b → List.foldr (fun (v : Vec) k => max v.length k) a X ≤
            max b (List.foldr (fun (v : Vec) k => max v.length k) 0 X) := by
          intro X
          induction X with
          | nil => intro a b h; simp; omega
          | cons y X ihX =>
            intro a b h
            simp only [List.foldr_cons]
            have := ihX a b h
            omega
        have := mono ((List.range m).map unit) (max (m+1) 0) (m+1) (by simp)
        omega
    have := this n
    omega
  · intro h
    -- x = Σ_{i<n} x i • e_i, built by induction on a prefix
    have build : ∀ m, m ≤ n → Gens.Mem { pt := [], params := [], lines := (List.range n).map unit }
        (fun i => if i < m then x i else 0) := by
      intro m
      induction m with
      | zero =>
        intro _
        have : (fun i => if i < 0 then x i else 0) = Vec.toFun [] := by funext i; simp
        rw [this]; exact Gens.Mem.pt
      | succ m ih =>
        intro hm
        have h1 := ih (by omega)
        have : (fun i => if i < m + 1 then x i else 0) = Pt.axpy (fun i => if i < m then x i else 0) (x m) (unit m).toFun := by
          funext i
          simp only [Pt.axpy, toFun_unit]
          by_cases h1 : i < m
          · have : i ≠ m := by omega
            simp [h1, this, show i < m + 1 by omega]
          · by_cases h2 : i = m
            · simp [h2]
            · simp [h1, h2, show ¬ i < m + 1 by omega]
        rw [this]
        exact Gens.Mem.line (x m) (List.mem_map.mpr ⟨m, List.mem_range.mpr (by omega), rfl⟩) h1
    have := build n (le_refl n)
    have e : (fun i => if i < n then x i else 0) = x := by
      funext i
      by_cases hi : i < n
      · simp [hi]
      · simp [hi, h i (by omega)]
    rwa [e] at this

theorem consToGens_sem (n : Nat) (cs : List Cg) (x : Pt) :
    Gen.sem (consToGens n cs) x ↔ CgSys.sem n cs x := by
  simp only [consToGens, intersectCons_sem, univ_sem, CgSys.sem]

end PPLV.Lattice
