import PPLV.Lattice.ProofsGridOpsLazy25

/-!
# Adding dimensions — part 26: the congruence side of `add_space_dimensions_and_project` with MINIMIZED congruences
# (`add_unit_rows_and_space_dimensions`): the triangular form for the resized `dim_kinds` (new dimensions `EQUALITY`) and
# `CgKindsOK`; `add_space_dimensions_and_project` on every state
-/
namespace PPLV.Lattice.GO
open PPLV.Lattice PPLV.Lattice.Red

/-- the converse of `lowerTriangular_spec` -/
theorem lz_lowerTriangular_of_csrc (n : Nat) (T : List CRow) (dk : List Nat) (hT : CSrcOK (n + 1) T dk) :
    lowerTriangular n T dk = true := by
  rw [gc_lowerTriangular_eq]
  have hle : ¬ T.length > n + 1 := by
    rw [hT.len]; have := cntBelow_le (nlB dk) (n + 1); simp only [nl]; omega
  rw [if_neg hle]
  have key := foldl_dimsDown_inv (gcLtStep n T dk)
    (fun d st => st.2 = true ∧ st.1 = nl dk (n + 1) - nl dk d) (n + 1) (0, true) ⟨rfl, by simp⟩ ?_
  · obtain ⟨k1, k2⟩ := key
    simp only [k1, k2, hT.len, Bool.true_and, beq_iff_eq]
    simp [nl, cntBelow]
  · rintro d st hd ⟨h1, h2⟩
    have hm := cntBelow_mono (nlB dk) (show d + 1 ≤ n + 1 from hd)
    unfold gcLtStep
    simp only [h1, Bool.not_true, Bool.false_eq_true, if_false]
    by_cases hl : kind dk d = CON_VIRTUAL
    · have hlb : nlB dk d = false := by simp [nlB, hl, CON_VIRTUAL, LINE]
      have e1 := cntBelow_succ_neg (nlB dk) d hlb
      rw [if_pos hl]
      exact ⟨h1, by simp only [nl] at *; omega⟩
    · have hlb : nlB dk d = true := by simpa [nlB, CON_VIRTUAL, LINE] using hl
      have e1 := cntBelow_succ_pos (nlB dk) d hlb
      rw [if_neg hl]
      have hpos : st.1 = pos dk (n + 1) d := by rw [h2]; rfl
      have hd' := hT.diag d hd hlb
      have hz' := hT.zeros d hd hlb
      rw [← hpos] at hd' hz'
      simp only [cEnt] at hd' hz'
      have hdiag : ¬ get (rowAt T st.1).e d ≤ 0 := by omega
      have hz : allZeroes (rowAt T st.1).e (d + 1) (n + 1) = true :=
        (allZeroes_iff _ _ _).mpr (fun i h1 h2 => hz' i (by omega) h2)
      simp only [hdiag, if_false, hz, Bool.not_true, Bool.false_eq_true]
      exact ⟨trivial, by simp only [nl] at *; omega⟩

section
variable (n m : Nat) (dk : List Nat) (hdk : dk.length = n + 1)
include hdk

theorem lz_nlB_old (val i : Nat) (hi : i < n + 1) : nlB (resizeKindsWith dk (n + m + 1) val) i = nlB dk i := by
  unfold nlB; rw [lz_kind_old n m dk hdk val i hi]

theorem lz_nlB_newEq (i : Nat) (hi : n + 1 ≤ i) (hi2 : i < n + m + 1) :
    nlB (resizeKindsWith dk (n + m + 1) EQUALITY) i = true := by
  unfold nlB; rw [lz_kind_new n m dk hdk EQUALITY i hi hi2]; decide

theorem lz_nl_eq (k : Nat) (hk : k ≤ n + m + 1) :
    nl (resizeKindsWith dk (n + m + 1) EQUALITY) k = nl dk (min k (n + 1)) + (k - (n + 1)) := by
  unfold nl
  induction k with
  | zero => simp [cntBelow]
  | succ k ih =>
    by_cases hkn : k < n + 1
    · rw [show min (k + 1) (n + 1) = k + 1 by omega]
      simp only [cntBelow]
      rw [ih (by omega), show min k (n + 1) = k by omega, lz_nlB_old n m dk hdk EQUALITY k hkn]
      omega
    · rw [cntBelow_succ_pos _ k (lz_nlB_newEq n m dk hdk k (by omega) (by omega)), ih (by omega),
        show min k (n + 1) = n + 1 by omega, show min (k + 1) (n + 1) = n + 1 by omega]
      omega

theorem lz_pos_eq_old (d : Nat) (hd : d < n + 1) :
    pos (resizeKindsWith dk (n + m + 1) EQUALITY) (n + m + 1) d = m + pos dk (n + 1) d := by
  have hmono := cntBelow_mono (nlB dk) (show d + 1 ≤ n + 1 by omega)
  unfold pos
  rw [lz_nl_eq n m dk hdk _ (le_refl _), lz_nl_eq n m dk hdk _ (by omega),
    show min (n + m + 1) (n + 1) = n + 1 by omega, show min (d + 1) (n + 1) = d + 1 by omega]
  simp only [nl] at *
  omega

theorem lz_pos_eq_new (i : Nat) (hi : i < m) :
    pos (resizeKindsWith dk (n + m + 1) EQUALITY) (n + m + 1) (n + 1 + i) = m - i - 1 := by
  unfold pos
  rw [lz_nl_eq n m dk hdk _ (le_refl _), lz_nl_eq n m dk hdk _ (by omega),
    show min (n + m + 1) (n + 1) = n + 1 by omega, show min (n + 1 + i + 1) (n + 1) = n + 1 by omega]
  omega

end

/-- the rows of `add_unit_rows_and_space_dimensions(m)` -/
def lz_unitRows (n m : Nat) (rows : List CRow) : List CRow :=
  (List.range m).map (fun row => cn_unitRow (n + m) (n + m - row - 1)) ++ rows.map (·.setSpaceDim (n + m))

theorem lz_unitRow_get (dim j i : Nat) (hj : j < dim) : get (cn_unitRow dim j).e i = if i = j + 1 then 1 else 0 := by
  unfold cn_unitRow
  show get ((List.replicate (dim + 1) 0).set (j + 1) 1) i = _
  rw [get_set, List.length_replicate, get_replicate_zero]
  by_cases h : i = j + 1
  · rw [if_pos ⟨h, by omega⟩, if_pos h]
  · rw [if_neg (fun hh => h hh.1), if_neg h]

theorem lz_unitRows_new (n m : Nat) (rows : List CRow) (i : Nat) (hi : i < m) :
    rowAt (lz_unitRows n m rows) (m - i - 1) = cn_unitRow (n + m) (n + i) := by
  unfold lz_unitRows
  rw [lz_rowAt_append_left _ _ _ (by simp; omega)]
  have : m - i - 1 < m := by omega
  simp only [rowAt, List.getD_eq_getElem?_getD, List.getElem?_map, List.getElem?_range this, Option.map_some,
    Option.getD_some]
  congr 1; omega

theorem lz_unitRows_old (n m : Nat) (rows : List CRow) (j : Nat) (hj : j < rows.length) :
    rowAt (lz_unitRows n m rows) (m + j) = (rowAt rows j).setSpaceDim (n + m) := by
  unfold lz_unitRows
  have := lz_rowAt_append_right ((List.range m).map (fun row => cn_unitRow (n + m) (n + m - row - 1)))
    (rows.map (·.setSpaceDim (n + m))) j
  rw [List.length_map, List.length_range] at this
  rw [this, gc_rowAt_map _ _ _ hj]

/-- **the triangular form after `add_unit_rows_and_space_dimensions`** -/
theorem lz_csrc_unitRows (n m : Nat) (rows : List CRow) (dk : List Nat) (hw : CWf n rows) (hdk : dk.length = n + 1)
    (h : lowerTriangular n rows dk = true) :
    CSrcOK (n + m + 1) (lz_unitRows n m rows) (resizeKindsWith dk (n + m + 1) EQUALITY) := by
  have hc := lowerTriangular_spec n rows dk h
  have hpadget : ∀ j, j < rows.length → ∀ k, get ((rowAt rows j).setSpaceDim (n + m)).e k =
      if k < n + 1 then get (rowAt rows j).e k else 0 := by
    intro j hj k
    show get (resizeRow _ _) k = _
    rw [cn_get_resizeRow]
    by_cases hk : k < n + 1
    · rw [if_pos (by omega), if_pos hk]
    · rw [if_neg hk]
      split
      · exact get_of_length_le _ _ (by rw [(hw _ (rowAt_mem rows j hj)).1]; omega)
      · rfl
  refine ⟨?_, fun d hd hl => ?_, fun d hd hl k hk hk2 => ?_⟩
  · rw [lz_nl_eq n m dk hdk _ (le_refl _), show min (n + m + 1) (n + 1) = n + 1 by omega, ← hc.len]
    simp [lz_unitRows]; omega
  · by_cases hdo : d < n + 1
    · have hl' : nlB dk d = true := by rw [← lz_nlB_old n m dk hdk EQUALITY d hdo]; exact hl
      have hj := pos_lt dk (n + 1) d hdo hl'
      rw [← hc.len] at hj
      simp only [cEnt]
      rw [lz_pos_eq_old n m dk hdk d hdo, lz_unitRows_old n m rows _ hj, hpadget _ hj, if_pos hdo]
      exact hc.diag d hdo hl'
    · obtain ⟨i, rfl⟩ : ∃ i, d = n + 1 + i := ⟨d - (n + 1), by omega⟩
      simp only [cEnt]
      rw [lz_pos_eq_new n m dk hdk i (by omega), lz_unitRows_new n m rows i (by omega),
        lz_unitRow_get _ _ _ (by omega), if_pos (by omega)]
      decide
  · by_cases hdo : d < n + 1
    · have hl' : nlB dk d = true := by rw [← lz_nlB_old n m dk hdk EQUALITY d hdo]; exact hl
      have hj := pos_lt dk (n + 1) d hdo hl'
      rw [← hc.len] at hj
      simp only [cEnt]
      rw [lz_pos_eq_old n m dk hdk d hdo, lz_unitRows_old n m rows _ hj, hpadget _ hj]
      split
      · rename_i hkn; exact hc.zeros d hdo hl' k hk hkn
      · rfl
    · obtain ⟨i, rfl⟩ : ∃ i, d = n + 1 + i := ⟨d - (n + 1), by omega⟩
      simp only [cEnt]
      rw [lz_pos_eq_new n m dk hdk i (by omega), lz_unitRows_new n m rows i (by omega),
        lz_unitRow_get _ _ _ (by omega), if_neg (by omega)]

theorem lz_lowerTriangular_unitRows (n m : Nat) (rows : List CRow) (dk : List Nat) (hw : CWf n rows)
    (hdk : dk.length = n + 1) (h : lowerTriangular n rows dk = true) :
    lowerTriangular (n + m) (lz_unitRows n m rows) (resizeKindsWith dk (n + m + 1) EQUALITY) = true :=
  lz_lowerTriangular_of_csrc (n + m) _ _ (lz_csrc_unitRows n m rows dk hw hdk h)

/-- the moduli agree with the kinds after `add_unit_rows_and_space_dimensions` -/
theorem lz_CgKindsOK_unitRows (n m : Nat) (rows : List CRow) (dk : List Nat) (hdk : dk.length = n + 1)
    (h : lowerTriangular n rows dk = true) (hk0 : kind dk 0 = PROPER_CONGRUENCE) (hkm : CgKindsOK n rows dk) :
    CgKindsOK (n + m) (lz_unitRows n m rows) (resizeKindsWith dk (n + m + 1) EQUALITY) := by
  have hc := lowerTriangular_spec n rows dk h
  obtain ⟨M, h1, h2⟩ := hkm
  have hl0 : nlB dk 0 = true := by rw [nlB_iff, hk0]; decide
  have hlen : 0 < rows.length := by
    rw [hc.len]; have := pos_lt dk (n + 1) 0 (by omega) hl0; omega
  refine ⟨M, fun d hd => ?_, ?_⟩
  · by_cases hdo : d < n + 1
    · rw [lz_kind_old n m dk hdk EQUALITY d hdo]
      rcases h1 d hdo with hv | ⟨he, hm0⟩ | ⟨hp, hmM⟩
      · exact Or.inl hv
      · have hl' : nlB dk d = true := by rw [nlB_iff, he]; decide
        have hj := pos_lt dk (n + 1) d hdo hl'
        rw [← hc.len] at hj
        right; left
        rw [lz_pos_eq_old n m dk hdk d hdo, lz_unitRows_old n m rows _ hj]
        exact ⟨he, hm0⟩
      · have hl' : nlB dk d = true := by rw [nlB_iff, hp]; decide
        have hj := pos_lt dk (n + 1) d hdo hl'
        rw [← hc.len] at hj
        right; right
        rw [lz_pos_eq_old n m dk hdk d hdo, lz_unitRows_old n m rows _ hj]
        exact ⟨hp, hmM⟩
    · obtain ⟨i, rfl⟩ : ∃ i, d = n + 1 + i := ⟨d - (n + 1), by omega⟩
      right; left
      rw [lz_kind_new n m dk hdk EQUALITY _ (by omega) hd, lz_pos_eq_new n m dk hdk i (by omega),
        lz_unitRows_new n m rows i (by omega)]
      exact ⟨rfl, rfl⟩
  · have hL : (lz_unitRows n m rows).length - 1 = m + (rows.length - 1) := by
      simp [lz_unitRows]; omega
    rw [hL, lz_unitRows_old n m rows _ (by omega)]
    show get (resizeRow _ _) 0 = M
    rw [cn_get_resizeRow, if_pos (by omega)]; exact h2

/-- **`add_space_dimensions_and_project(m)`**, `m > 0`, positive dimension, not marked empty: EVERY state, no hypothesis -/
theorem project_pos_full (g : Grid) (m : Nat) (hI : GridInv g) (hm : 0 < m) (he : g.st.empty = false)
    (hpos : 0 < g.spaceDim) :
    GridInv (addSpaceDimensionsAndProject g m) ∧ (addSpaceDimensionsAndProject g m).sem = g.sem ∧
      (addSpaceDimensionsAndProject g m).spaceDim = g.spaceDim + m := by
  refine addSpaceDimensionsAndProject_partial g m hI hm he hpos (fun hcm => ?_)
  have hc := hI.cminUp hcm
  obtain ⟨hcd, hcw⟩ := hI.cwf he hpos hc
  obtain ⟨hlen, htri, hk0⟩ := hI.cmin he hpos hcm
  have hrows : (g.cs.addUnitRowsAndSpaceDimensions m).rows = lz_unitRows g.spaceDim m g.con := by
    have := (cn_addUnitRows_eq g.cs m hm).2
    have hcsd : g.cs.dim = g.spaceDim := hcd
    rw [hcsd] at this
    exact this
  rw [hrows]
  exact ⟨lz_lowerTriangular_unitRows g.spaceDim m g.con g.dk hcw hlen htri,
    fun hg => lz_CgKindsOK_unitRows g.spaceDim m g.con g.dk hlen htri hk0 (hI.cminConv he hpos hcm hg)⟩

/-- **`add_space_dimensions_and_project(m)`** on every invariant state of positive dimension or marked empty (in dimension
    0 on a non-empty grid the library answers the universe, `cn_project_zdim` / KF-C05-9) -/
theorem addSpaceDimensionsAndProject_full (g : Grid) (m : Nat) (hI : GridInv g) (h0 : g.st.empty = true ∨ 0 < g.spaceDim) :
    GridInv (addSpaceDimensionsAndProject g m) ∧ (addSpaceDimensionsAndProject g m).sem = g.sem ∧
      (addSpaceDimensionsAndProject g m).spaceDim = g.spaceDim + m := by
  by_cases hm : m = 0
  · subst hm; rw [cn_project_zero]; exact ⟨hI, rfl, rfl⟩
  have hm' : 0 < m := by omega
  cases he : g.st.empty
  · rcases h0 with h | h
    · rw [he] at h; cases h
    · exact project_pos_full g m hI hm' he h
  · exact cn_project_empty g m hm' he

/-- `x ≡ 1 (mod 2)`, minimized congruences only, projected into dimension 2: the equality `y = 0` comes first -/
example :
    let g : Grid := Grid.mk 1 { cUp := true, cMin := true } 1 [⟨[1, 1], 2⟩, ⟨[2, 0], 2⟩] 1 [] [0, 0]
    invB g = true ∧ (addSpaceDimensionsAndProject g 1).con = [⟨[0, 0, 1], 0⟩, ⟨[1, 1, 0], 2⟩, ⟨[2, 0, 0], 2⟩] ∧
      (addSpaceDimensionsAndProject g 1).dk = [0, 0, 2] ∧ invB (addSpaceDimensionsAndProject g 1) = true := by decide +kernel

end PPLV.Lattice.GO
