import PPLV.Lattice.ProofsGridOpsCon3

/-!
# `Grid` stage 3, congruence side, part 12: `Congruence::affine_preimage` (Congruence.cc:123),
# `Congruence_System::affine_preimage` (Congruence_System.cc:330), `conAffinePreimagePos`

The transformed row holds at `x` iff the row holds at `x` with coordinate `v` replaced by `(⟨e,x⟩ + e₀)/den`.
-/
namespace PPLV.Lattice.GO
open PPLV.Lattice PPLV.Lattice.Red

/-- `x` with coordinate `v` replaced by `q` -/
def cn_upd (x : Pt) (v : Nat) (q : ℚ) : Pt := fun i => if i = v then q else x i

theorem cn_upd_supp (n v : Nat) (x : Pt) (q : ℚ) (hv : v < n) (hx : Supp n x) : Supp n (cn_upd x v q) := by
  intro i hi; unfold cn_upd; rw [if_neg (by omega)]; exact hx i hi

/-- the preimage of `S` under `x_v := (⟨e,x⟩ + e₀)/den`, in the `n`-space -/
def cn_preSet (n v : Nat) (e : LinExpr) (den : Int) (S : Set Pt) : Set Pt :=
  {x | Supp n x ∧ cn_upd x v (evalRow e x / (den : ℚ)) ∈ S}

/-! ### the value of a row at an updated point, of a row with one entry replaced -/

theorem cn_dotF_upd (a : Row) (y : Pt) (k : Nat) (w : ℚ) :
    dotF (ratRow a) (fun i => if i = k then w else y i) = dotF (ratRow a) y + (Red.get a k : ℚ) * (w - y k) := by
  induction a generalizing y k with
  | nil => simp [ratRow, Red.get]
  | cons c a ih =>
    simp only [ratRow, List.map_cons, dotF_cons] at ih ⊢
    cases k with
    | zero =>
      have : Pt.tail (fun i => if i = 0 then w else y i) = y.tail := by funext i; simp [Pt.tail]
      rw [this, get_cons_zero]; simp; ring
    | succ k =>
      have : Pt.tail (fun i => if i = k + 1 then w else y i) = fun i => if i = k then w else y.tail i := by
        funext i; simp [Pt.tail]
      rw [this, ih y.tail k, get_cons_succ]; simp [Pt.tail]; ring

theorem cn_ext1_upd (x : Pt) (v : Nat) (q : ℚ) : ext1 (cn_upd x v q) = fun i => if i = v + 1 then q else ext1 x i := by
  funext i
  cases i with
  | zero => simp [ext1]
  | succ i => simp [ext1, cn_upd]

theorem cn_evalRow_upd (e : Row) (x : Pt) (v : Nat) (q : ℚ) :
    evalRow e (cn_upd x v q) = evalRow e x + (Red.get e (v + 1) : ℚ) * (q - x v) := by
  unfold evalRow; rw [cn_ext1_upd, cn_dotF_upd]; rfl

theorem cn_dotF_set (a : Row) (y : Pt) (k : Nat) (w : Int) (hk : k < a.length) :
    dotF (ratRow (a.set k w)) y = dotF (ratRow a) y + ((w : ℚ) - (Red.get a k : ℚ)) * y k := by
  induction a generalizing y k with
  | nil => simp at hk
  | cons c a ih =>
    cases k with
    | zero => simp only [List.set_cons_zero, ratRow, List.map_cons, dotF_cons, get_cons_zero]; ring
    | succ k =>
      simp only [List.set_cons_succ, ratRow, List.map_cons, dotF_cons, get_cons_succ] at ih ⊢
      rw [ih y.tail k (by simpa using hk)]; simp [Pt.tail]; ring

theorem cn_evalRow_set (e : Row) (x : Pt) (v : Nat) (w : Int) (hk : v + 1 < e.length) :
    evalRow (e.set (v + 1) w) x = evalRow e x + ((w : ℚ) - (Red.get e (v + 1) : ℚ)) * x v := by
  unfold evalRow; rw [cn_dotF_set _ _ _ _ hk]; rfl

/-! ### `Congruence::affine_preimage` -/

theorem cn_scale_get (r : CRow) (f : Int) (i : Nat) : Red.get (r.scale f).e i = Red.get r.e i * f := by
  unfold CRow.scale; split
  · rename_i h; rw [h, mul_one]
  · exact get_mulAll _ _ _

theorem cn_scale_length (r : CRow) (f : Int) : (r.scale f).e.length = r.e.length := by
  unfold CRow.scale; split
  · rfl
  · simp [mulAll, tab]

theorem cn_scale_m (r : CRow) (f : Int) : (r.scale f).m = r.m * f := by
  unfold CRow.scale; split
  · rename_i h; rw [h, mul_one]
  · rfl

theorem cn_coeff_eq (e : LinExpr) (v : Nat) : e.coeff v = Red.get e (v + 1) := by
  unfold LinExpr.coeff; split
  · rfl
  · exact (get_of_length_le e _ (by omega)).symm

/-- the two branches of `Congruence::affine_preimage` store the same row -/
theorem cn_affinePreimage_eq (r : CRow) (v : Nat) (e : LinExpr) (den : Int) (hc : Red.get r.e (v + 1) ≠ 0) :
    r.affinePreimage v e den =
      { e := (tab (r.scale den).e fun i => if i < e.length then Red.get (r.scale den).e i + Red.get r.e (v + 1) * Red.get e i
                else Red.get (r.scale den).e i).set (v + 1) (Red.get r.e (v + 1) * Red.get e (v + 1)),
        m := r.m * den } := by
  unfold CRow.affinePreimage
  simp only [if_neg hc, cn_coeff_eq]
  split
  · rename_i h
    have h0 : Red.get e (v + 1) = 0 := by
      rcases h with h | h
      · exact get_of_length_le e _ (by unfold LinExpr.spaceDim at h; omega)
      · exact h
    rw [h0, mul_zero, cn_scale_m]
  · rw [cn_scale_m]

theorem cn_affinePreimage_length (r : CRow) (v : Nat) (e : LinExpr) (den : Int) :
    (r.affinePreimage v e den).e.length = r.e.length := by
  by_cases hc : Red.get r.e (v + 1) = 0
  · unfold CRow.affinePreimage; simp only [if_pos hc]
  · rw [cn_affinePreimage_eq r v e den hc]; simp [tab, cn_scale_length]

theorem cn_affinePreimage_m_nonneg (r : CRow) (v : Nat) (e : LinExpr) (den : Int) (hd : 0 < den) (hm : 0 ≤ r.m) :
    0 ≤ (r.affinePreimage v e den).m := by
  by_cases hc : Red.get r.e (v + 1) = 0
  · unfold CRow.affinePreimage; simp only [if_pos hc]; exact hm
  · rw [cn_affinePreimage_eq r v e den hc]; exact Int.mul_nonneg hm hd.le

/-- the value of the transformed row: `den` times the value of the row at the updated point -/
theorem cn_affinePreimage_eval (r : CRow) (v : Nat) (e : LinExpr) (den : Int) (hd : den ≠ 0) (hl : e.length ≤ r.e.length)
    (hc : Red.get r.e (v + 1) ≠ 0) (x : Pt) :
    evalRow (r.affinePreimage v e den).e x = (den : ℚ) * evalRow r.e (cn_upd x v (evalRow e x / (den : ℚ))) := by
  have hvl : v + 1 < r.e.length := by
    by_contra h; exact hc (get_of_length_le _ _ (by omega))
  have hd' : (den : ℚ) ≠ 0 := by exact_mod_cast hd
  rw [cn_affinePreimage_eq r v e den hc]
  simp only
  set e1 := tab (r.scale den).e fun i => if i < e.length then Red.get (r.scale den).e i + Red.get r.e (v + 1) * Red.get e i
                else Red.get (r.scale den).e i with he1
  have hl1 : e1.length = r.e.length := by simp [he1, tab, cn_scale_length]
  have hget : ∀ i, Red.get e1 i = den * Red.get r.e i + Red.get r.e (v + 1) * Red.get (resizeRow e r.e.length) i := by
    intro i
    rw [he1, get_tab, cn_scale_length, cn_get_resizeRow]
    by_cases hi : i < r.e.length
    · rw [if_pos hi, if_pos hi, cn_scale_get]
      by_cases hie : i < e.length
      · rw [if_pos hie]; ring
      · rw [if_neg hie, get_of_length_le e i (by omega)]; ring
    · rw [if_neg hi, if_neg hi, get_of_length_le r.e i (by omega)]; ring
  have hE1 : evalRow e1 x = (den : ℚ) * evalRow r.e x + (Red.get r.e (v + 1) : ℚ) * evalRow e x := by
    rw [evalRow_lin e1 r.e (resizeRow e r.e.length) den (Red.get r.e (v + 1)) x hl1 (cn_resizeRow_length _ _) hget,
      cn_evalRow_resize_pad e r.e.length hl x]
  rw [cn_evalRow_set e1 x v _ (by omega), hE1, hget (v + 1), cn_get_resizeRow, if_pos hvl, cn_evalRow_upd]
  push_cast
  field_simp
  ring

/-- `Congruence::affine_preimage(v, e, den)`: the row holds at `x` iff the original holds at the updated point -/
theorem cn_rsem_affinePreimage (r : CRow) (v : Nat) (e : LinExpr) (den : Int) (hd : den ≠ 0) (hl : e.length ≤ r.e.length)
    (x : Pt) : rsem (r.affinePreimage v e den) x ↔ rsem r (cn_upd x v (evalRow e x / (den : ℚ))) := by
  by_cases hc : Red.get r.e (v + 1) = 0
  · have : r.affinePreimage v e den = r := by unfold CRow.affinePreimage; simp only [if_pos hc]
    rw [this]; unfold rsem
    rw [cn_evalRow_upd, hc]; simp
  · have hd' : (den : ℚ) ≠ 0 := by exact_mod_cast hd
    have hm : (r.affinePreimage v e den).m = r.m * den := by rw [cn_affinePreimage_eq r v e den hc]
    unfold rsem
    rw [cn_affinePreimage_eval r v e den hd hl hc x, hm]
    constructor
    · rintro ⟨t, ht⟩
      refine ⟨t, ?_⟩
      have : (den : ℚ) * evalRow r.e (cn_upd x v (evalRow e x / (den : ℚ))) = (den : ℚ) * ((t : ℚ) * (r.m : ℚ)) := by
        rw [ht]; push_cast; ring
      exact mul_left_cancel₀ hd' this
    · rintro ⟨t, ht⟩; exact ⟨t, by rw [ht]; push_cast; ring⟩

theorem cn_affinePreimage_set (r : CRow) (v : Nat) (e : LinExpr) (den : Int) (hd : den ≠ 0) (hl : e.length ≤ r.e.length) :
    CRow.set (r.affinePreimage v e den) = {x | cn_upd x v (evalRow e x / (den : ℚ)) ∈ CRow.set r} := by
  ext x; simp only [cn_mem_set, Set.mem_ofPred_eq]; exact cn_rsem_affinePreimage r v e den hd hl x

example : ({ e := [1, 2, 3], m := 5 } : CRow).affinePreimage 0 [4, 0, 1] 2 = { e := [10, 0, 8], m := 10 } ∧
    ({ e := [1, 2, 3], m := 5 } : CRow).affinePreimage 0 [4, 3, 1] 2 = { e := [10, 6, 8], m := 10 } := by decide

/-! ### systems -/

theorem cn_CSys_affinePreimage_dim (s : CSys) (v : Nat) (e : LinExpr) (den : Int) : (s.affinePreimage v e den).dim = s.dim := rfl

theorem cn_CSys_affinePreimage_CWf (s : CSys) (v : Nat) (e : LinExpr) (den : Int) (hd : 0 < den) (hw : CWf s.dim s.rows) :
    CWf s.dim (s.affinePreimage v e den).rows := by
  intro r' hr'
  obtain ⟨r, hr, rfl⟩ := List.mem_map.mp hr'
  exact ⟨by rw [cn_affinePreimage_length]; exact (hw r hr).1, cn_affinePreimage_m_nonneg r v e den hd (hw r hr).2⟩

/-- `Congruence_System::affine_preimage(v, e, den)`: the solutions are the preimage -/
theorem cn_CSys_affinePreimage_consSet (s : CSys) (v : Nat) (e : LinExpr) (den : Int) (hd : den ≠ 0) (hv : v < s.dim)
    (he : e.spaceDim ≤ s.dim) (hw : CWf s.dim s.rows) :
    consSet s.dim (s.affinePreimage v e den).rows = cn_preSet s.dim v e den (consSet s.dim s.rows) := by
  ext x
  simp only [cn_mem_consSet, cn_preSet, Set.mem_ofPred_eq, CSys.affinePreimage, List.mem_map, forall_exists_index, and_imp,
    forall_apply_eq_imp_iff₂, cn_mem_set]
  have hl : ∀ r ∈ s.rows, e.length ≤ r.e.length := fun r hr => by
    rw [(hw r hr).1]; unfold LinExpr.spaceDim at he; omega
  constructor
  · rintro ⟨hx, hall⟩
    exact ⟨hx, cn_upd_supp _ _ _ _ hv hx, fun r hr => (cn_rsem_affinePreimage r v e den hd (hl r hr) x).mp (hall r hr)⟩
  · rintro ⟨hx, _, hall⟩
    exact ⟨hx, fun r hr => (cn_rsem_affinePreimage r v e den hd (hl r hr) x).mpr (hall r hr)⟩

/-! ### `conAffinePreimagePos` -/

theorem cn_negExpr_length (e : LinExpr) : (negExpr e).length = e.length := by simp [negExpr]
theorem cn_negExpr_spaceDim (e : LinExpr) : (negExpr e).spaceDim = e.spaceDim := by
  unfold LinExpr.spaceDim; rw [cn_negExpr_length]
theorem cn_negExpr_eval (e : LinExpr) (x : Pt) : evalRow (negExpr e) x = - evalRow e x := cn_evalRow_neg e x

theorem cn_preSet_neg (n v : Nat) (e : LinExpr) (den : Int) (S : Set Pt) :
    cn_preSet n v (negExpr e) (-den) S = cn_preSet n v e den S := by
  unfold cn_preSet; simp only [cn_negExpr_eval]; push_cast; simp only [neg_div_neg_eq]

theorem cn_conAffinePreimagePos_dim (s : CSys) (v : Nat) (e : LinExpr) (den : Int) :
    (conAffinePreimagePos s v e den).dim = s.dim := by unfold conAffinePreimagePos; split <;> rfl

theorem cn_conAffinePreimagePos_CWf (s : CSys) (v : Nat) (e : LinExpr) (den : Int) (hd : den ≠ 0) (hw : CWf s.dim s.rows) :
    CWf s.dim (conAffinePreimagePos s v e den).rows := by
  unfold conAffinePreimagePos; split
  · rename_i h; exact cn_CSys_affinePreimage_CWf s v e den h hw
  · exact cn_CSys_affinePreimage_CWf s v _ (-den) (by omega) hw

/-- `con_sys.affine_preimage(var, ±expr, ±denominator)`: the solutions are the preimage, for either sign of `den` -/
theorem cn_conAffinePreimagePos_consSet (s : CSys) (v : Nat) (e : LinExpr) (den : Int) (hd : den ≠ 0) (hv : v < s.dim)
    (he : e.spaceDim ≤ s.dim) (hw : CWf s.dim s.rows) :
    consSet s.dim (conAffinePreimagePos s v e den).rows = cn_preSet s.dim v e den (consSet s.dim s.rows) := by
  unfold conAffinePreimagePos; split
  · exact cn_CSys_affinePreimage_consSet s v e den hd hv he hw
  · rw [cn_CSys_affinePreimage_consSet s v (negExpr e) (-den) (by omega) hv (by rw [cn_negExpr_spaceDim]; exact he) hw,
      cn_preSet_neg]

example : (conAffinePreimagePos ⟨2, [{ e := [1, 2, 3], m := 5 }]⟩ 0 [4, 3, 1] (-2)).rows = [{ e := [-6, -6, 4], m := 10 }] := by
  decide

end PPLV.Lattice.GO
