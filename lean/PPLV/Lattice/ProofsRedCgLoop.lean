import PPLV.Lattice.ProofsRedCgTail

/-!
# `Grid::simplify(Congruence_System&, Dimension_Kinds&)`: the whole function

* `simplifyCgs_preserves`: the solution set is kept when `false` is returned; the system has no solution
  when `true` is returned;
* `simplifyCgs_triangular`: when `false` is returned the result is in the lower triangular form (`Final`).
-/
namespace PPLV.Lattice.Red

/-! ### the loop over the dimensions -/

theorem foldl_range_rev_inv {σ : Type} (f : σ → Nat → σ) (Q : Nat → σ → Prop) :
    ∀ (m : Nat) (st : σ), Q m st → (∀ d st, d < m → Q (d + 1) st → Q d (f st d)) →
      Q 0 ((List.range m).reverse.foldl f st) := by
  intro m
  induction m with
  | zero => intro st h _; simpa using h
  | succ m ih =>
    intro st h hstep
    rw [List.range_succ, List.reverse_append, List.reverse_singleton, List.singleton_append, List.foldl_cons]
    exact ih (f st m) (hstep m st (by omega) h) (fun d st hd hQ => hstep d st (by omega) hQ)

/-- the state after the loop over the dimensions -/
def cgsLoopState (n : Nat) (rowsN : List CRow) (dk0 : List Nat) : CSt :=
  ((List.range (n + 1)).reverse).foldl (simplifyCgDim rowsN.length) { rows := rowsN, dk := dk0, pivotIndex := 0 }

theorem simplifyCgs_loop (n : Nat) (rows : List CRow) (dk0 : List Nat) (hwf : RWf n rows)
    (hmod : ∃ M, SameMod rows M) (hdk : dk0.length = n + 1) :
    ∃ p, Inv n (cgsLoopState n rows dk0).rows (cgsLoopState n rows dk0).dk p (cgsLoopState n rows dk0).pivotIndex 0 ∧
      (cgsLoopState n rows dk0).rows.length = rows.length ∧
      ∀ x, Sol (cgsLoopState n rows dk0).rows x ↔ Sol rows x := by
  unfold cgsLoopState
  apply foldl_range_rev_inv (simplifyCgDim rows.length)
    (fun d (st : CSt) => ∃ p, Inv n st.rows st.dk p st.pivotIndex d ∧ st.rows.length = rows.length ∧
      ∀ x, Sol st.rows x ↔ Sol rows x) (n + 1)
  · refine ⟨fun _ => 0, ⟨hwf, hdk, hmod, Nat.zero_le _, fun i hi => absurd hi (Nat.not_lt_zero _), ?_,
      ⟨fun i hi => absurd hi (Nat.not_lt_zero _), fun i i' _ h2 => absurd h2 (Nat.not_lt_zero _),
       fun j h1 h2 => by omega⟩⟩, rfl, fun x => Iff.rfl⟩
    intro i _ hi j hj
    exact get_of_length_le _ j (by rw [(hwf i hi).1]; exact hj)
  · intro d st hd ⟨p, hI, hL, hS⟩
    obtain ⟨rows', dk', k'⟩ := st
    simp only [] at hI hL hS
    rw [← hL]
    obtain ⟨p', h1, h2, h3⟩ := simplifyCgDim_inv hI hd
    exact ⟨p', h1, by rw [h2], fun x => (h3 x).trans (hS x)⟩

/-! ### after the loop -/

/-- the part of the function after the loop over the dimensions -/
def cgsFinish (n numRows : Nat) (st : CSt) : List CRow × List Nat × Bool :=
  if st.pivotIndex > 0 then
    let rows1 := st.rows.take st.pivotIndex
    let lastRow := rowAt rows1 (rows1.length - 1)
    if kind st.dk 0 = PROPER_CONGRUENCE ∧ Int.tmod (get lastRow.e 0) lastRow.m = 0 then
      simplifyCgsTail n rows1 st.dk
    else if kind st.dk 0 = PROPER_CONGRUENCE ∨ kind st.dk 0 = EQUALITY then
      let falseRow : CRow := { e := lastRow.e.set 0 1, m := 0 }
      ([falseRow], [EQUALITY], true)
    else simplifyCgsTail n rows1 st.dk
  else
    let dk1 := st.dk.set 0 PROPER_CONGRUENCE
    if numRows = 0 then
      ([integralityRow n 1], dk1, false)
    else
      let rows1 := st.rows.take 1
      let last := rowAt rows1 (rows1.length - 1)
      simplifyCgsTail n (rows1.set (rows1.length - 1) { last with m := 1 }) dk1

theorem simplifyCgs_eq (n : Nat) (rows : List CRow) (dk : List Nat) :
    simplifyCgs n rows dk = cgsFinish n (normalizeModuli rows).length
      (cgsLoopState n (normalizeModuli rows) (if dk.length ≠ n + 1 then resizeKinds dk (n + 1) else dk)) := rfl

theorem inv_take {n : Nat} {rows : List CRow} {dk : List Nat} {p : Nat → Nat} {k : Nat} (h : Inv n rows dk p k 0) :
    Inv n (rows.take k) dk p (rows.take k).length 0 ∧ (rows.take k).length = k ∧
      ∀ x, Sol (rows.take k) x ↔ Sol rows x := by
  have hkle := h.kle
  have hlen : (rows.take k).length = k := by rw [List.length_take]; omega
  refine ⟨?_, hlen, fun x => Sol_take rows k x (fun i h1 h2 j => h.rest i h1 h2 j (Nat.zero_le _))⟩
  obtain ⟨M, hM⟩ := h.mod
  rw [hlen]
  refine ⟨?_, h.dklen, ⟨M, hM.1, ?_⟩, by omega, ?_, ?_, h.kinv⟩
  · intro i hi
    rw [hlen] at hi
    rw [rowAt_take _ _ _ hi]; exact h.wf i (by omega)
  · intro i hi
    rw [hlen] at hi
    rw [rowAt_take _ _ _ hi]; exact hM.2 i (by omega)
  · intro i hi
    rw [rowAt_take _ _ _ hi]; exact h.piv i hi
  · intro i h1 h2; omega

theorem cgsFinish_spec {n : Nat} {st : CSt} {p : Nat → Nat} (h : Inv n st.rows st.dk p st.pivotIndex 0) :
    ((cgsFinish n st.rows.length st).2.2 = false →
        Final n (cgsFinish n st.rows.length st).1 (cgsFinish n st.rows.length st).2.1 ∧
        ∀ x, Sol (cgsFinish n st.rows.length st).1 x ↔ Sol st.rows x) ∧
      ((cgsFinish n st.rows.length st).2.2 = true → ∀ x, ¬ Sol st.rows x) := by
  obtain ⟨rows, dk, k⟩ := st
  simp only [] at h
  show ((cgsFinish n rows.length ⟨rows, dk, k⟩).2.2 = false →
        Final n (cgsFinish n rows.length ⟨rows, dk, k⟩).1 (cgsFinish n rows.length ⟨rows, dk, k⟩).2.1 ∧
        ∀ x, Sol (cgsFinish n rows.length ⟨rows, dk, k⟩).1 x ↔ Sol rows x) ∧
      ((cgsFinish n rows.length ⟨rows, dk, k⟩).2.2 = true → ∀ x, ¬ Sol rows x)
  unfold cgsFinish
  simp only []
  by_cases hk : k > 0
  · rw [if_pos hk]
    obtain ⟨hI1, hlen1, hS1⟩ := inv_take h
    obtain ⟨rows1, hrows1⟩ : ∃ rows1, rows1 = rows.take k := ⟨_, rfl⟩
    rw [← hrows1] at hI1 hlen1 hS1 ⊢
    -- the last row when `dim_kinds[0]` is not virtual
    have hlast : kind dk 0 ≠ CON_VIRTUAL →
        PivRow (rowAt rows1 (rows1.length - 1)) (kind dk 0) 0 ∧
        ∀ x, evalRow (rowAt rows1 (rows1.length - 1)).e x = (get (rowAt rows1 (rows1.length - 1)).e 0 : ℚ) := by
      intro hnv
      obtain ⟨hpos, hp0⟩ := hI1.kinv.last0 (by omega) hnv
      have := hI1.piv (rows1.length - 1) (by omega)
      rw [hp0] at this
      exact ⟨this, fun x => evalRow_const _ x this.zero⟩
    by_cases c1 : kind dk 0 = PROPER_CONGRUENCE ∧
        Int.tmod (get (rowAt rows1 (rows1.length - 1)).e 0) (rowAt rows1 (rows1.length - 1)).m = 0
    · rw [if_pos c1]
      have hnv : kind dk 0 ≠ CON_VIRTUAL := by rw [c1.1]; simp [PROPER_CONGRUENCE, CON_VIRTUAL]
      obtain ⟨hF, hfl, hS⟩ := simplifyCgsTail_spec hI1 (fun _ => ⟨c1.1, fun x => by
        obtain ⟨t, ht⟩ := Int.dvd_iff_tmod_eq_zero.mpr c1.2
        refine ⟨t, ?_⟩
        rw [(hlast hnv).2 x, ht]; push_cast; ring⟩)
      refine ⟨fun _ => ⟨hF, fun x => (hS x).trans (hS1 x)⟩, fun ht => ?_⟩
      rw [hfl] at ht; exact absurd ht (by simp)
    · rw [if_neg c1]
      by_cases c2 : kind dk 0 = PROPER_CONGRUENCE ∨ kind dk 0 = EQUALITY
      · rw [if_pos c2]
        refine ⟨fun hf => absurd hf (by simp), fun _ x hsol => ?_⟩
        have hnv : kind dk 0 ≠ CON_VIRTUAL := by
          rcases c2 with e | e <;> rw [e] <;> simp [PROPER_CONGRUENCE, EQUALITY, CON_VIRTUAL]
        obtain ⟨hpr, hev⟩ := hlast hnv
        have hpos1 : 0 < rows1.length := by omega
        obtain ⟨t, ht⟩ := (hS1 x).mpr hsol (rows1.length - 1) (by omega)
        rw [hev x] at ht
        rcases hpr.kindok with ⟨hm0, hke⟩ | ⟨hmp, hkp⟩
        · rw [hm0] at ht
          have : (get (rowAt rows1 (rows1.length - 1)).e 0 : ℚ) = 0 := by rw [ht]; simp
          have h0 : get (rowAt rows1 (rows1.length - 1)).e 0 = 0 := by exact_mod_cast this
          have := hpr.pos; omega
        · have hz : get (rowAt rows1 (rows1.length - 1)).e 0 = t * (rowAt rows1 (rows1.length - 1)).m := by
            exact_mod_cast ht
          exact c1 ⟨hkp, Int.dvd_iff_tmod_eq_zero.mp ⟨t, by rw [hz]; ring⟩⟩
      · rw [if_neg c2]
        have hcv : kind dk 0 = CON_VIRTUAL := by
          by_contra hnv
          rcases (hlast hnv).1.kindok with ⟨_, hke⟩ | ⟨_, hkp⟩
          · exact c2 (Or.inr hke)
          · exact c2 (Or.inl hkp)
        obtain ⟨hF, hfl, hS⟩ := simplifyCgsTail_spec hI1 (fun hnv => absurd hcv hnv)
        refine ⟨fun _ => ⟨hF, fun x => (hS x).trans (hS1 x)⟩, fun ht => ?_⟩
        rw [hfl] at ht; exact absurd ht (by simp)
  · rw [if_neg hk]
    have hk0 : k = 0 := by omega
    subst hk0
    have hdkl : 0 < dk.length := by rw [h.dklen]; omega
    have hzero : ∀ i, i < rows.length → ∀ j, get (rowAt rows i).e j = 0 :=
      fun i hi j => h.rest i (Nat.zero_le _) hi j (Nat.zero_le _)
    have hall : ∀ x, Sol rows x := fun x i hi => rsem_zero_row _ x (hzero i hi)
    have hK1 : KInv (dk.set 0 PROPER_CONGRUENCE) p 0 1 (n + 1) := by
      apply (h.kinv.drop (fun i hi => by omega)).congr_dk
      intro j hj; rw [kind_set, if_neg (by omega)]
    have hkind0 : kind (dk.set 0 PROPER_CONGRUENCE) 0 = PROPER_CONGRUENCE := by
      rw [kind_set, if_pos ⟨rfl, hdkl⟩]
    by_cases hn : rows.length = 0
    · rw [if_pos hn]
      refine ⟨fun _ => ⟨⟨pPush p 0 0, 1, ⟨?_, by simpa using h.dklen, ⟨1, by norm_num, ?_⟩, le_refl _, ?_, ?_, ?_⟩,
        by norm_num, rfl, hkind0⟩, fun x => ⟨fun _ => hall x, fun _ i hi => ?_⟩⟩, fun ht => absurd ht (by simp)⟩
      · intro i hi
        have : i = 0 := by simpa using hi
        subst this
        exact ⟨length_integralityRow n 1, by show (0 : Int) ≤ 1; norm_num⟩
      · intro i hi
        have : i = 0 := by simpa using hi
        subst this
        right; rfl
      · intro i hi
        have : i = 0 := by simpa using hi
        subst this
        rw [pPush_self]
        exact pivRow_integralityRow n 1 _ (by norm_num) hkind0
      · intro i h1 h2; omega
      · exact (h.kinv.drop (fun i hi => by omega)).push (by omega) hdkl PROPER_CONGRUENCE
          (by simp [PROPER_CONGRUENCE, CON_VIRTUAL])
      · have : i = 0 := by simpa using hi
        subst this
        exact rsem_integralityRow n 1 x
    · rw [if_neg hn]
      have hpos : 0 < rows.length := by omega
      have hB : (rows.take 1).set ((rows.take 1).length - 1)
          { rowAt (rows.take 1) ((rows.take 1).length - 1) with m := 1 } = [⟨(rowAt rows 0).e, 1⟩] := by
        cases rows with
        | nil => simp at hpos
        | cons r rs => simp [rowAt]
      rw [hB]
      have hr0 := h.wf 0 hpos
      obtain ⟨hP, hS⟩ := tail_pc (n := n) (rows := [⟨(rowAt rows 0).e, 1⟩]) (dk := dk.set 0 PROPER_CONGRUENCE) (p := p)
        (by
          intro i hi
          have : i = 0 := by simpa using hi
          subst this
          exact ⟨hr0.1, by show (0 : Int) ≤ 1; norm_num⟩)
        (by simpa using h.dklen)
        ⟨1, by norm_num, by
          intro i hi
          have : i = 0 := by simpa using hi
          subst this
          right; rfl⟩
        (by simp) (fun i hi => by simp at hi) (by simpa using hK1) hkind0
        (by show (0 : Int) < 1; norm_num)
        (fun j _ => hzero 0 hpos j)
        (fun x => rsem_zero_row _ x (hzero 0 hpos))
      obtain ⟨hF, hS2⟩ := tail_finish hP
      rw [simplifyCgsTail_eq]
      refine ⟨fun _ => ⟨hF, fun x => ⟨fun _ => hall x, fun _ => ?_⟩⟩, fun ht => absurd ht (by simp)⟩
      exact (hS2 x).mpr ((hS x).mpr (fun i hi => by
        have : i = 0 := by simpa using hi
        subst this
        exact rsem_zero_row _ x (hzero 0 hpos)))

/-! ### the whole function -/

theorem simplifyCgs_spec (n : Nat) (rows : List CRow) (dk : List Nat) (hwf : CWf n rows) :
    ((simplifyCgs n rows dk).2.2 = false →
        Final n (simplifyCgs n rows dk).1 (simplifyCgs n rows dk).2.1 ∧
        ∀ x, Sol (simplifyCgs n rows dk).1 x ↔ Sol rows x) ∧
      ((simplifyCgs n rows dk).2.2 = true → ∀ x, ¬ Sol rows x) := by
  obtain ⟨hN1, hN2, hN3, hN4⟩ := normalizeModuli_spec n rows (RWf_of_CWf n rows hwf)
  have hdk : (if dk.length ≠ n + 1 then resizeKinds dk (n + 1) else dk).length = n + 1 := by
    split
    · simp only [resizeKinds, List.length_append, List.length_take, List.length_replicate]; omega
    · omega
  obtain ⟨p, hI, hL, hS⟩ := simplifyCgs_loop n (normalizeModuli rows) _ hN2 hN3 hdk
  rw [simplifyCgs_eq, ← hL]
  obtain ⟨h1, h2⟩ := cgsFinish_spec hI
  exact ⟨fun hf => ⟨(h1 hf).1, fun x => ((h1 hf).2 x).trans ((hS x).trans (hN4 x))⟩,
    fun ht x hsol => h2 ht x ((hS x).mpr ((hN4 x).mpr hsol))⟩

/-- **`Grid::simplify(Congruence_System&, Dimension_Kinds&)` keeps the grid**: when it returns `false`
    the new system has the points of the old one, when it returns `true` the old system has no point. -/
theorem simplifyCgs_preserves (n : Nat) (rows : List CRow) (dk : List Nat) (hwf : CWf n rows) :
    let r := simplifyCgs n rows dk
    (r.2.2 = false → ∀ x, cgsSem n r.1 x ↔ cgsSem n rows x) ∧ (r.2.2 = true → ∀ x, ¬ cgsSem n rows x) := by
  intro r
  obtain ⟨h1, h2⟩ := simplifyCgs_spec n rows dk hwf
  refine ⟨fun hf x => ?_, fun ht x hx => ?_⟩
  · rw [cgsSem_iff, cgsSem_iff, (h1 hf).2 x]
  · exact h2 ht x ((cgsSem_iff n rows x).mp hx).2

/-- when `false` is returned the system is in the lower triangular form described by `dim_kinds`: every
    row is the pivot row of a non-virtual dimension (positive there, zero after it, its kind recorded in
    `dim_kinds`), in descending order of the dimensions; the last row is the integrality congruence
    `m ≡ 0 (mod m)` and `dim_kinds[0] = PROPER_CONGRUENCE` -/
theorem simplifyCgs_triangular (n : Nat) (rows : List CRow) (dk : List Nat) (hwf : CWf n rows) :
    let r := simplifyCgs n rows dk
    r.2.2 = false → Final n r.1 r.2.1 := by
  intro r hf
  exact ((simplifyCgs_spec n rows dk hwf).1 hf).1

/-! ### examples -/

/-- `x ≡ 1 (mod 2)`, `x + y = 0`, `y ≡ 0 (mod 3)` -/
def exRows : List CRow := [⟨[-1, 1, 0], 2⟩, ⟨[0, 1, 1], 0⟩, ⟨[0, 0, 1], 3⟩]

example : CWf 2 exRows := by
  intro r hr
  simp only [exRows, List.mem_cons, List.not_mem_nil, or_false] at hr
  rcases hr with rfl | rfl | rfl <;> exact ⟨rfl, by decide⟩

example : (simplifyCgs 2 exRows []).2.2 = false := by decide +kernel

example : ∀ x, cgsSem 2 (simplifyCgs 2 exRows []).1 x ↔ cgsSem 2 exRows x :=
  (simplifyCgs_preserves 2 exRows [] (by
    intro r hr
    simp only [exRows, List.mem_cons, List.not_mem_nil, or_false] at hr
    rcases hr with rfl | rfl | rfl <;> exact ⟨rfl, by decide⟩)).1 (by decide +kernel)

example : Final 2 (simplifyCgs 2 exRows []).1 (simplifyCgs 2 exRows []).2.1 :=
  simplifyCgs_triangular 2 exRows [] (by
    intro r hr
    simp only [exRows, List.mem_cons, List.not_mem_nil, or_false] at hr
    rcases hr with rfl | rfl | rfl <;> exact ⟨rfl, by decide⟩) (by decide +kernel)

/-- `x = 0`, `x = 1` has no solution: the flag is `true` -/
example : ∀ x, ¬ cgsSem 1 [⟨[0, 1], 0⟩, ⟨[-1, 1], 0⟩] x :=
  (simplifyCgs_preserves 1 [⟨[0, 1], 0⟩, ⟨[-1, 1], 0⟩] [] (by
    intro r hr
    simp only [List.mem_cons, List.not_mem_nil, or_false] at hr
    rcases hr with rfl | rfl <;> exact ⟨rfl, by decide⟩)).2 (by decide +kernel)

end PPLV.Lattice.Red
