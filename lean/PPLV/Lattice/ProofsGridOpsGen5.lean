import PPLV.Lattice.ProofsGridOpsGen4

/-!
# Generator side of the `Grid` object, part 5 — one more row (`gn_set_append_*`), appended normalised systems, and
# the state whose only description is an up-to-date generator system (`gn_inv_gens`)
-/
namespace PPLV.Lattice.GO
open PPLV.Lattice PPLV.Lattice.Red

theorem gn_mem_append_left {rows rows' : List GRow} {x : Pt} (h : gn_Mem rows x) : gn_Mem (rows ++ rows') x :=
  gn_mem_mono (fun _ hr => List.mem_append_left _ hr) h
theorem gn_mem_append_right {rows rows' : List GRow} {x : Pt} (h : gn_Mem rows' x) : gn_Mem (rows ++ rows') x :=
  gn_mem_mono (fun _ hr => List.mem_append_right _ hr) h

/-! ### one more row -/

/-- a line is added: `{x + c • l}` -/
theorem gn_set_append_line (rows : List GRow) (l : GRow) (hl : l.line = true) :
    gn_set (rows ++ [l]) = {y | ∃ x ∈ gn_set rows, ∃ c : ℚ, y = x + c • gn_vecOf l} := by
  apply Set.Subset.antisymm
  · refine gn_mem_least ?_ ?_ ?_ ?_
    · rintro _ ⟨x1, h1, c1, rfl⟩ _ ⟨x2, h2, c2, rfl⟩ _ ⟨x3, h3, c3, rfl⟩ k
      exact ⟨_, gn_mem_affine k h1 h2 h3, c1 + k * (c2 - c3), by module⟩
    · intro r hr p
      rcases List.mem_append.mp hr with hr | hr
      · exact ⟨_, gn_mem_pt hr p, 0, by simp⟩
      · rw [List.mem_singleton.mp hr] at p; simp [gn_isPt, hl] at p
    · intro r hr p _ ⟨x, hx, c, e⟩ k
      rcases List.mem_append.mp hr with hr | hr
      · exact ⟨_, gn_mem_par_step hr p hx k, c, by rw [e]; module⟩
      · rw [List.mem_singleton.mp hr] at p; simp [gn_isPar, hl] at p
    · intro r hr p _ ⟨x, hx, c, e⟩ c'
      rcases List.mem_append.mp hr with hr | hr
      · exact ⟨_, gn_mem_line_step hr p hx c', c, by rw [e]; module⟩
      · rw [List.mem_singleton.mp hr]; exact ⟨x, hx, c + c', by rw [e]; module⟩
  · rintro _ ⟨x, hx, c, rfl⟩
    exact gn_mem_line_step (List.mem_append_right _ (List.mem_singleton.mpr rfl)) hl (gn_mem_append_left hx) c

/-- a parameter is added: `{x + k • q}` -/
theorem gn_set_append_par (rows : List GRow) (q : GRow) (hq : gn_isPar q = true) :
    gn_set (rows ++ [q]) = {y | ∃ x ∈ gn_set rows, ∃ k : Int, y = x + (k : ℚ) • gn_vecOf q} := by
  obtain ⟨hql, hq0⟩ := (gn_isPar_iff q).mp hq
  apply Set.Subset.antisymm
  · refine gn_mem_least ?_ ?_ ?_ ?_
    · rintro _ ⟨x1, h1, c1, rfl⟩ _ ⟨x2, h2, c2, rfl⟩ _ ⟨x3, h3, c3, rfl⟩ k
      exact ⟨_, gn_mem_affine k h1 h2 h3, c1 + k * (c2 - c3), by push_cast; module⟩
    · intro r hr p
      rcases List.mem_append.mp hr with hr | hr
      · exact ⟨_, gn_mem_pt hr p, 0, by simp⟩
      · rw [List.mem_singleton.mp hr] at p; simp [gn_isPt, hq0] at p
    · intro r hr p _ ⟨x, hx, c, e⟩ k
      rcases List.mem_append.mp hr with hr | hr
      · exact ⟨_, gn_mem_par_step hr p hx k, c, by rw [e]; module⟩
      · rw [List.mem_singleton.mp hr]; exact ⟨x, hx, c + k, by rw [e]; push_cast; module⟩
    · intro r hr p _ ⟨x, hx, c, e⟩ c'
      rcases List.mem_append.mp hr with hr | hr
      · exact ⟨_, gn_mem_line_step hr p hx c', c, by rw [e]; module⟩
      · rw [List.mem_singleton.mp hr] at p; rw [hql] at p; cases p
  · rintro _ ⟨x, hx, k, rfl⟩
    exact gn_mem_par_step (List.mem_append_right _ (List.mem_singleton.mpr rfl)) hq (gn_mem_append_left hx) k

/-- a point is added to a non-empty grid: `{a + k • (p - a₀)}` for any `a₀` of the grid -/
theorem gn_set_append_pt (rows : List GRow) (p : GRow) (hp : gn_isPt p = true) {a0 : Pt} (ha0 : a0 ∈ gn_set rows) :
    gn_set (rows ++ [p]) = {y | ∃ a ∈ gn_set rows, ∃ k : Int, y = a + (k : ℚ) • (gn_vecOf p - a0)} := by
  obtain ⟨hpl, hp0⟩ := (gn_isPt_iff p).mp hp
  apply Set.Subset.antisymm
  · refine gn_mem_least ?_ ?_ ?_ ?_
    · rintro _ ⟨x1, h1, c1, rfl⟩ _ ⟨x2, h2, c2, rfl⟩ _ ⟨x3, h3, c3, rfl⟩ k
      exact ⟨_, gn_mem_affine k h1 h2 h3, c1 + k * (c2 - c3), by push_cast; module⟩
    · intro r hr pr
      rcases List.mem_append.mp hr with hr | hr
      · exact ⟨_, gn_mem_pt hr pr, 0, by simp⟩
      · rw [List.mem_singleton.mp hr]; exact ⟨a0, ha0, 1, by simp⟩
    · intro r hr pr _ ⟨x, hx, c, e⟩ k
      rcases List.mem_append.mp hr with hr | hr
      · exact ⟨_, gn_mem_par_step hr pr hx k, c, by rw [e]; module⟩
      · rw [List.mem_singleton.mp hr] at pr; simp [gn_isPar, hp0] at pr
    · intro r hr pr _ ⟨x, hx, c, e⟩ c'
      rcases List.mem_append.mp hr with hr | hr
      · exact ⟨_, gn_mem_line_step hr pr hx c', c, by rw [e]; module⟩
      · rw [List.mem_singleton.mp hr] at pr; rw [hpl] at pr; cases pr
  · rintro _ ⟨a, ha, k, rfl⟩
    exact gn_mem_affine k (gn_mem_append_left ha)
      (gn_mem_pt (List.mem_append_right _ (List.mem_singleton.mpr rfl)) hp) (gn_mem_append_left ha0)

/-- a single point -/
theorem gn_set_single_pt (p : GRow) (hp : gn_isPt p = true) : gn_set [p] = {gn_vecOf p} := by
  apply Set.Subset.antisymm
  · refine gn_mem_least ?_ ?_ ?_ ?_
    · rintro _ h1 _ h2 _ h3 k
      rw [Set.mem_singleton_iff] at *
      subst h1 h2 h3; simp
    · intro r hr _; rw [List.mem_singleton.mp hr]; rfl
    · intro r hr pr; rw [List.mem_singleton.mp hr] at pr
      simp [gn_isPar, ((gn_isPt_iff p).mp hp).2, ((gn_isPt_iff p).mp hp).1] at pr
    · intro r hr pr; rw [List.mem_singleton.mp hr, ((gn_isPt_iff p).mp hp).1] at pr; cases pr
  · intro x hx
    rw [Set.mem_singleton_iff.mp hx]
    exact gn_mem_pt (List.mem_singleton.mpr rfl) hp

/-! ### normalised systems: one more row, two systems appended -/

theorem gn_gnorm_append {n : Nat} {D : Int} {rows rows' : List GRow} (h : GNorm n D rows)
    (hc : ∀ r ∈ rows', r.line = false → get r.e 0 = 0 ∨ get r.e 0 = D)
    (hp : ∀ r ∈ rows', r.line = false → get r.e 0 = 0 → get r.e (n + 1) = D)
    (hl : ∀ r ∈ rows', r.line = true → get r.e 0 = 0) : GNorm n D (rows ++ rows') := by
  refine ⟨h.pos, ?_, ?_, ?_, ?_⟩
  · obtain ⟨r, hr, a, b⟩ := h.pt; exact ⟨r, List.mem_append_left _ hr, a, b⟩
  · intro r hr; rcases List.mem_append.mp hr with hr | hr
    · exact h.col0 r hr
    · exact hc r hr
  · intro r hr; rcases List.mem_append.mp hr with hr | hr
    · exact h.par r hr
    · exact hp r hr
  · intro r hr; rcases List.mem_append.mp hr with hr | hr
    · exact h.lin r hr
    · exact hl r hr

theorem gn_gnorm_append_gnorm {n : Nat} {D : Int} {rows rows' : List GRow} (h : GNorm n D rows) (h' : GNorm n D rows') :
    GNorm n D (rows ++ rows') := gn_gnorm_append h h'.col0 h'.par h'.lin

theorem gn_gwf_append {n : Nat} {rows rows' : List GRow} (h : GWf n rows) (h' : GWf n rows') : GWf n (rows ++ rows') := by
  intro r hr; rcases List.mem_append.mp hr with hr | hr
  · exact h r hr
  · exact h' r hr

/-! ### the state that is described by its generators only -/

/-- a non-empty state of positive dimension whose generator system is up to date, well formed and normalised, and
    whose congruences are out of date, satisfies the class invariant and denotes the grid generated by the rows -/
theorem gn_inv_gens {g : Grid} (hn : 0 < g.spaceDim) (he : g.st.empty = false) (hcu : g.st.cUp = false)
    (hgu : g.st.gUp = true) (hcm : g.st.cMin = false) (hgm : g.st.gMin = false) (hhi : g.st.hi = 0)
    (hgd : g.genDim = g.spaceDim) (hw : GWf g.spaceDim g.gen) {D : Int} (hN : GNorm g.spaceDim D g.gen) :
    GridInv g ∧ g.sem = gn_set g.gen := by
  have hne : g.spaceDim ≠ 0 := by omega
  refine ⟨⟨?_, ?_, ?_, ?_, ?_, ?_, ?_, ?_, ?_, ?_, ?_, ?_, ?_⟩, ?_⟩
  · intro h; rw [he] at h; cases h
  · intro _ h; exact absurd h hne
  · intro _; exact hhi
  · intro _ _; exact Or.inr hgu
  · intro h; rw [hcm] at h; cases h
  · intro h; rw [hgm] at h; cases h
  · intro _ _ h; rw [hcu] at h; cases h
  · intro _ _ _; exact ⟨hgd, hw, by rw [gn_firstPointDiv hN]; exact hN⟩
  · intro _ _ h; rw [hcu] at h; cases h
  · intro _ _ h; rw [hcm] at h; cases h
  · intro _ _ h; rw [hcm] at h; cases h
  · intro _ _ h; rw [hgm] at h; cases h
  · intro _ _ h; rw [hgm] at h; cases h
  · unfold Grid.sem
    rw [he, if_neg (by simp), if_neg hne, hgu, if_pos rfl]
    exact gn_bridge hN hw

/-- the generators of a state that keeps them up to date -/
theorem gn_sem_of_gUp {g : Grid} (hI : GridInv g) (hn : 0 < g.spaceDim) (he : g.st.empty = false) (hgu : g.st.gUp = true) :
    g.genDim = g.spaceDim ∧ GWf g.spaceDim g.gen ∧ GNorm g.spaceDim (firstPointDiv g.gen) g.gen ∧
      g.sem = gn_set g.gen := by
  obtain ⟨a, b, c⟩ := hI.gwf he hn hgu
  refine ⟨a, b, c, ?_⟩
  have hne : g.spaceDim ≠ 0 := by omega
  unfold Grid.sem
  rw [he, if_neg (by simp), if_neg hne, hgu, if_pos rfl]
  exact gn_bridge c b

/-- a state marked empty denotes nothing -/
theorem gn_sem_of_empty {g : Grid} (he : g.st.empty = true) : g.sem = ∅ := by
  unfold Grid.sem; rw [he, if_pos rfl]

end PPLV.Lattice.GO
