import PPLV.Lattice.ProofsGridOpsGen20

/-!
# Generator side of the `Grid` object, part 21 — `Grid::relation_with(const Grid_Generator&)` (Grid_public.cc:578)
-/
namespace PPLV.Lattice.GO
open PPLV.Lattice PPLV.Lattice.Red

theorem gn_dotUpto_congr (c g g' : Row) : ∀ k : Nat, (∀ i, i < k → get g i = get g' i) → dotUpto c g k = dotUpto c g' k
  | 0, _ => rfl
  | k + 1, h => by
    simp only [dotUpto]
    rw [gn_dotUpto_congr c g g' k (fun i hi => h i (by omega)), h k (by omega)]

theorem gn_dotUpto_zero_tail (c g : Row) (m : Nat) : ∀ k : Nat, m ≤ k → (∀ i, m ≤ i → i < k → get g i = 0) →
    dotUpto c g k = dotUpto c g m
  | 0, hk, _ => by have : m = 0 := by omega
                   rw [this]
  | k + 1, hk, h => by
    rcases Nat.eq_or_lt_of_le hk with e | hlt
    · rw [e]
    · simp only [dotUpto]
      rw [gn_dotUpto_zero_tail c g m k (by omega) (fun i h1 h2 => h i h1 (by omega)), h k (by omega) (by omega)]
      simp

/-- `satisfies_all_congruences` does not see the padding of `set_space_dimension` -/
theorem gn_satisfiesAll_resize (s : CSys) {x : GRow} (hx : gn_RowOK x) {n : Nat} (hd : x.spaceDim ≤ n) :
    s.satisfiesAll (x.setSpaceDim n) = s.satisfiesAll x := by
  obtain ⟨r1, r2, r3, r4, _⟩ := gn_row_resized hx hd
  have hsp : ∀ cg : CRow,
      ((List.range ((x.setSpaceDim n).spaceDim + 1)).map fun i => get (x.setSpaceDim n).e i * get cg.e i).foldl (· + ·) 0
      = ((List.range (x.spaceDim + 1)).map fun i => get x.e i * get cg.e i).foldl (· + ·) 0 := by
    intro cg
    rw [gn_spg_eq, gn_spg_eq, gn_spaceDim_of_len r2]
    rcases Nat.eq_or_lt_of_le hd with e | hlt
    · rw [← e, gn_setSpaceDim_id (by rw [hx.len])]
    · have hg := gn_get_setSpaceDim_pad hx.len hlt
      rw [gn_dotUpto_zero_tail cg.e _ (x.spaceDim + 1) (n + 1) (by omega) (fun i h1 h2 => by
        rw [hg, if_neg (by omega), if_neg (by omega)])]
      exact gn_dotUpto_congr _ _ _ _ (fun i hi => by rw [hg, if_pos (by omega)])
  unfold CSys.satisfiesAll
  simp only [hsp, r1, r4]

/-- `subsumes`: the grid contains the point / absorbs the parameter / absorbs the line -/
def gn_Subsumes (S : Set Pt) (x : GRow) : Prop :=
  if x.line = true then S.Nonempty ∧ ∀ a ∈ S, ∀ q : ℚ, a + q • gn_vecOf x ∈ S
  else if get x.e 0 = 0 then S.Nonempty ∧ ∀ a ∈ S, ∀ k : Int, a + (k : ℚ) • gn_vecOf x ∈ S
  else gn_vecOf x ∈ S

/-- **`satisfies_all_congruences(g)` on a non-empty solution set decides `subsumes`** -/
theorem gn_satisfiesAll_subsumes {n : Nat} (s : CSys) (hc : CWf n s.rows) (hne : (consSet n s.rows).Nonempty)
    (x : GRow) (hx : gn_RowOK x) (hd : x.spaceDim ≤ n) :
    s.satisfiesAll x = true ↔ gn_Subsumes (consSet n s.rows) x := by
  obtain ⟨r1, r2, r3, r4, r5, r6, r7⟩ := gn_row_resized hx hd
  rw [← gn_satisfiesAll_resize s hx hd,
    gn_satisfiesAll_iff (n := n) (D := (x.setSpaceDim n).divisor) s _ r2 (fun _ => rfl)]
  have hsupp : Supp n (gn_vecOf x) := by rw [← r5]; exact gn_vecOf_supp r2
  unfold gn_Subsumes
  cases hl : x.line with
  | true =>
    rw [if_pos rfl]
    have hl' : (x.setSpaceDim n).line = true := by rw [r1]; exact hl
    have h0 : get (x.setSpaceDim n).e 0 = 0 := by rw [r3]; exact hx.lin hl
    rw [← gn_absorb_line_iff hne _ hsupp, ← r5]
    constructor
    · intro h
      exact ⟨hne, fun c hc' => (gn_cert_line _ c (hc c hc').1 _ r2 hl' h0).mp (h c hc')⟩
    · intro h c hc'
      exact (gn_cert_line _ c (hc c hc').1 _ r2 hl' h0).mpr (h.2 c hc')
  | false =>
    rw [if_neg (by simp)]
    have hl' : (x.setSpaceDim n).line = false := by rw [r1]; exact hl
    by_cases h0 : get x.e 0 = 0
    · rw [if_pos h0]
      have hp : gn_isPar (x.setSpaceDim n) = true := (gn_isPar_iff _).mpr ⟨hl', by rw [r3]; exact h0⟩
      have hdv : (x.setSpaceDim n).divisor ≠ 0 := by rw [r4]; exact ne_of_gt (hx.div hl)
      rw [← gn_absorb_par_iff hne _ hsupp, ← r5]
      constructor
      · intro h
        exact ⟨hne, fun c hc' => (gn_cert_par c (hc c hc').1 _ r2 hp hdv).mp (h c hc')⟩
      · intro h c hc'
        exact (gn_cert_par c (hc c hc').1 _ r2 hp hdv).mpr (h.2 c hc')
    · rw [if_neg h0]
      have h0' : get (x.setSpaceDim n).e 0 ≠ 0 := by rw [r3]; exact h0
      have hp : gn_isPt (x.setSpaceDim n) = true := (gn_isPt_iff _).mpr ⟨hl', h0'⟩
      rw [divisor_point _ h0', cn_mem_consSet, ← r5]
      constructor
      · intro h
        exact ⟨by rw [r5]; exact hsupp, fun c hc' => (gn_cert_pt c (hc c hc').1 _ r2 hp).mp (h c hc')⟩
      · intro h c hc'
        exact (gn_cert_pt c (hc c hc').1 _ r2 hp).mpr (h.2 c hc')

/-- **`Grid::relation_with(const Grid_Generator&)`** for a well-formed generator that fits the space: the invariant and the
    denotation are kept and the answer is `subsumes` -/
theorem gn_relationWithGen (g : Grid) (hI : GridInv g) (x : GRow) (hx : gn_RowOK x) (hd : x.spaceDim ≤ g.spaceDim) :
    GridInv (relationWithGen g x).1 ∧ (relationWithGen g x).1.sem = g.sem ∧
    (relationWithGen g x).1.spaceDim = g.spaceDim ∧
    ∃ b, (relationWithGen g x).2 = some b ∧ (b = true ↔ gn_Subsumes g.sem x) := by
  unfold relationWithGen
  rw [if_neg (by omega)]
  cases he : g.markedEmpty with
  | true =>
    rw [if_pos rfl]
    refine ⟨hI, rfl, rfl, false, rfl, ⟨fun h => (by cases h), fun h => ?_⟩⟩
    exfalso
    rw [gn_sem_of_empty (g := g) he] at h
    unfold gn_Subsumes at h
    split_ifs at h
    · exact Set.not_nonempty_empty h.1
    · exact Set.not_nonempty_empty h.1
    · exact h
  | false =>
  rw [if_neg (by simp)]
  by_cases h0 : g.spaceDim = 0
  · rw [if_pos h0]
    refine ⟨hI, rfl, rfl, true, rfl, ⟨fun _ => ?_, fun _ => rfl⟩⟩
    have hv : gn_vecOf x = 0 := by
      funext i; unfold gn_vecOf; rw [if_neg (by omega)]; rfl
    have hz : (0 : Pt) ∈ {y : Pt | Supp 0 y} := fun _ _ => rfl
    rw [gn_sem_dim0 (g := g) he h0]
    unfold gn_Subsumes
    rw [hv]
    split_ifs
    · exact ⟨⟨0, hz⟩, fun a ha q => by simpa using ha⟩
    · exact ⟨⟨0, hz⟩, fun a ha k => by simpa using ha⟩
    · exact hz
  · rw [if_neg h0]
    simp only []
    have hn : 0 < g.spaceDim := by omega
    obtain ⟨a, b, c, d, e, f⟩ := isEmpty_spec g hI
    cases h2 : (isEmpty g).2 with
    | true =>
      rw [if_pos rfl]
      refine ⟨a, b, c, false, rfl, ⟨fun h => (by cases h), fun h => ?_⟩⟩
      exfalso
      rw [d.mp h2] at h
      unfold gn_Subsumes at h
      split_ifs at h
      · exact Set.not_nonempty_empty h.1
      · exact Set.not_nonempty_empty h.1
      · exact h
    | false =>
      rw [if_neg (by simp)]
      show GridInv (gn_incY (isEmpty g).1) ∧ (gn_incY (isEmpty g).1).sem = g.sem ∧
        (gn_incY (isEmpty g).1).spaceDim = g.spaceDim ∧
        ∃ b, some ((gn_incY (isEmpty g).1).cs.satisfiesAll x) = some b ∧ (b = true ↔ gn_Subsumes g.sem x)
      have he1 := f h2
      have hn1 : 0 < (isEmpty g).1.spaceDim := by rw [c]; exact hn
      obtain ⟨a', b', c', d', e'⟩ := gn_incY_spec updateCongruences_spec (isEmpty g).1 a he1 hn1
      obtain ⟨_, q, s'⟩ := gn_sem_of_cUp a' (by rw [c']; exact hn1) d' e'
      refine ⟨a', by rw [← b]; exact b', by rw [← c]; exact c', _, rfl, ?_⟩
      have hsem : g.sem = consSet (gn_incY (isEmpty g).1).spaceDim (gn_incY (isEmpty g).1).con := by
        rw [← s', b', b]
      have hne : g.sem.Nonempty := by
        rw [Set.nonempty_iff_ne_empty]; intro h; rw [d.mpr h] at h2; cases h2
      rw [hsem] at hne ⊢
      exact gn_satisfiesAll_subsumes (gn_incY (isEmpty g).1).cs q hne x hx (by rw [c', c]; exact hd)

/-- the hypotheses are satisfiable: the grid `{0}` of the line and the point `1/2` -/
example : ∃ (g : Grid) (x : GRow), GridInv g ∧ gn_RowOK x ∧ x.spaceDim ≤ g.spaceDim :=
  ⟨{ spaceDim := 1, st := { gUp := true }, conDim := 1, con := [], genDim := 1, gen := [⟨false, [1, 0, 0]⟩], dk := [] },
   ⟨false, [2, 1, 0]⟩,
   (gn_inv_gens (D := 1) (by decide) rfl rfl rfl rfl rfl rfl rfl (by intro r hr; rw [List.mem_singleton.mp hr]; rfl)
      ⟨by decide, ⟨_, List.mem_singleton.mpr rfl, rfl, rfl⟩, by decide, by decide, by decide⟩).1,
   ⟨rfl, fun _ => (by decide), fun h => (by cases h)⟩, by decide⟩

end PPLV.Lattice.GO
