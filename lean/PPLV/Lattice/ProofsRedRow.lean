import PPLV.Lattice.RedSem
import PPLV.Lattice.ProofsArith
import Mathlib.Tactic.Linarith
import Mathlib.Tactic.Ring
import Mathlib.Tactic.SplitIfs

/-!
# Row primitives of the `Grid::simplify` / `Grid::conversion` model: entry-wise characterisations
-/
namespace PPLV.Lattice.Red

theorem get_of_length_le (r : Row) (i : Nat) (h : r.length ≤ i) : get r i = 0 := by
  simp [get, List.getElem?_eq_none h]

@[simp] theorem length_tab (r : Row) (f : Nat → Int) : (tab r f).length = r.length := by simp [tab]

theorem get_tab (r : Row) (f : Nat → Int) (i : Nat) : get (tab r f) i = if i < r.length then f i else 0 := by
  unfold get tab
  by_cases h : i < r.length
  · simp [h]
  · simp [h]

@[simp] theorem length_linearCombine (x y : Row) (c1 c2 : Int) (s e : Nat) :
    (linearCombine x y c1 c2 s e).length = x.length := by simp [linearCombine]
@[simp] theorem length_negate (x : Row) (s e : Nat) : (negate x s e).length = x.length := by simp [negate]
@[simp] theorem length_mulAssign (x : Row) (c : Int) (s e : Nat) : (mulAssign x c s e).length = x.length := by
  simp [mulAssign]
@[simp] theorem length_exactDivAssign (x : Row) (c : Int) (s e : Nat) : (exactDivAssign x c s e).length = x.length := by
  simp [exactDivAssign]
@[simp] theorem length_mulAll (x : Row) (c : Int) : (mulAll x c).length = x.length := by simp [mulAll]
@[simp] theorem length_subExpr (x y : Row) : (subExpr x y).length = x.length := by simp [subExpr]
@[simp] theorem length_subMulAssign (x : Row) (c : Int) (y : Row) : (subMulAssign x c y).length = x.length := by
  simp [subMulAssign]

theorem get_linearCombine (x y : Row) (c1 c2 : Int) (s e i : Nat) :
    get (linearCombine x y c1 c2 s e) i =
      if i < x.length ∧ s ≤ i ∧ i < e then c1 * get x i + c2 * get y i else get x i := by
  rw [linearCombine, get_tab]
  by_cases h : i < x.length
  · by_cases h2 : s ≤ i ∧ i < e <;> simp [h, h2]
  · simp [h, get_of_length_le x i (by omega)]

theorem get_negate (x : Row) (s e i : Nat) :
    get (negate x s e) i = if s ≤ i ∧ i < e then - get x i else get x i := by
  rw [negate, get_tab]
  by_cases h : i < x.length
  · simp [h]
  · simp [h, get_of_length_le x i (by omega)]

theorem get_mulAssign (x : Row) (c : Int) (s e i : Nat) :
    get (mulAssign x c s e) i = if s ≤ i ∧ i < e then get x i * c else get x i := by
  rw [mulAssign, get_tab]
  by_cases h : i < x.length
  · simp [h]
  · simp [h, get_of_length_le x i (by omega)]

theorem get_exactDivAssign (x : Row) (c : Int) (s e i : Nat) :
    get (exactDivAssign x c s e) i = if s ≤ i ∧ i < e then get x i / c else get x i := by
  rw [exactDivAssign, get_tab]
  by_cases h : i < x.length
  · simp [h]
  · simp [h, get_of_length_le x i (by omega)]

theorem get_mulAll (x : Row) (c : Int) (i : Nat) : get (mulAll x c) i = get x i * c := by
  rw [mulAll, get_tab]
  by_cases h : i < x.length
  · simp [h]
  · simp [h, get_of_length_le x i (by omega)]

theorem get_subExpr (x y : Row) (i : Nat) :
    get (subExpr x y) i = if i < x.length then get x i - get y i else 0 := by
  rw [subExpr, get_tab]

theorem get_subMulAssign (x : Row) (c : Int) (y : Row) (i : Nat) :
    get (subMulAssign x c y) i = if i < x.length then get x i - c * get y i else 0 := by
  rw [subMulAssign, get_tab]

theorem get_set (x : Row) (j : Nat) (v : Int) (i : Nat) :
    get (x.set j v) i = if i = j ∧ j < x.length then v else get x i := by
  unfold get
  by_cases h : i = j
  · subst h
    by_cases h2 : i < x.length
    · simp [h2]
    · simp [h2, List.getElem?_eq_none (Nat.le_of_not_lt h2)]
  · have : j ≠ i := fun e => h e.symm
    simp [h, List.getElem?_set_ne this]

/-- two rows of the same size with the same entries are equal -/
theorem row_ext (x y : Row) (hl : x.length = y.length) (h : ∀ i, i < x.length → get x i = get y i) : x = y := by
  apply List.ext_getElem hl
  intro i h1 h2
  have := h i h1
  simpa [get, h1, h2] using this

/-! ### rows of a system -/

theorem rowAt_eq_getElem {R : Type} [Inhabited R] (rows : List R) (i : Nat) (h : i < rows.length) :
    rowAt rows i = rows[i] := by simp [rowAt, h]

theorem rowAt_mem {R : Type} [Inhabited R] (rows : List R) (i : Nat) (h : i < rows.length) : rowAt rows i ∈ rows := by
  rw [rowAt_eq_getElem rows i h]; exact List.getElem_mem h

theorem rowAt_set {R : Type} [Inhabited R] (rows : List R) (j : Nat) (r : R) (i : Nat) :
    rowAt (rows.set j r) i = if i = j ∧ j < rows.length then r else rowAt rows i := by
  unfold rowAt
  by_cases h : i = j
  · subst h
    by_cases h2 : i < rows.length
    · simp [h2]
    · simp [h2, List.getElem?_eq_none (Nat.le_of_not_lt h2)]
  · have : j ≠ i := fun e => h e.symm
    simp [h, List.getElem?_set_ne this]

@[simp] theorem length_swapRows {R : Type} [Inhabited R] (rows : List R) (i j : Nat) :
    (swapRows rows i j).length = rows.length := by simp [swapRows]

theorem rowAt_swapRows {R : Type} [Inhabited R] (rows : List R) (i j k : Nat) (hi : i < rows.length) (hj : j < rows.length) :
    rowAt (swapRows rows i j) k = if k = j then rowAt rows i else if k = i then rowAt rows j else rowAt rows k := by
  unfold swapRows
  rw [rowAt_set, rowAt_set]
  by_cases h1 : k = j
  · simp [h1, hj]
  · by_cases h2 : k = i
    · subst h2; simp [h1, hi]
    · simp [h1, h2]

/-- a swap permutes the rows: membership is unchanged -/
theorem mem_swapRows {R : Type} [Inhabited R] (rows : List R) (i j : Nat) (hi : i < rows.length) (hj : j < rows.length) (r : R) :
    r ∈ swapRows rows i j ↔ r ∈ rows := by
  constructor
  · intro h
    obtain ⟨k, hk, rfl⟩ := List.getElem_of_mem h
    rw [length_swapRows] at hk
    have := rowAt_swapRows rows i j k hi hj
    rw [rowAt_eq_getElem _ _ (by simpa using hk)] at this
    rw [this]
    split
    · exact rowAt_mem rows i hi
    · split
      · exact rowAt_mem rows j hj
      · exact rowAt_mem rows k hk
  · intro h
    obtain ⟨k, hk, rfl⟩ := List.getElem_of_mem h
    -- the row at position k moves to position σ k
    let k' := if k = i then j else if k = j then i else k
    have hk' : k' < rows.length := by
      simp only [k']; split
      · exact hj
      · split
        · exact hi
        · exact hk
    have e : rowAt (swapRows rows i j) k' = rows[k] := by
      rw [rowAt_swapRows rows i j k' hi hj, ← rowAt_eq_getElem rows k hk]
      simp only [k']
      by_cases h1 : k = i
      · subst h1
        by_cases h2 : j = k
        · subst h2; simp
        · simp [h2]
      · by_cases h2 : k = j
        · subst h2
          have h3 : ¬ i = k := fun e => h1 e.symm
          simp [h1, h3]
        · simp [h1, h2]
    rw [← e]
    exact rowAt_mem _ _ (by simpa using hk')

/-! ### `gcdext` -/

/-- every `s ≡ s1·sgn(g0) (mod |b|/g)` completes to a Bézout pair (`g0 = s1 a + t1 b` divides `a` and `b`) -/
theorem bezout_norm (a b s1 t1 : Int) (hb : b ≠ 0) (hd1 : (s1 * a + t1 * b) ∣ a) (hd2 : (s1 * a + t1 * b) ∣ b)
    (s k : Int) (hs : s = s1 * (s1 * a + t1 * b).sign - k * ((b.natAbs : Int) / (Int.gcd a b : Int))) :
    s * a + (((Int.gcd a b : Int) - s * a) / b) * b = (Int.gcd a b : Int) := by
  obtain ⟨g0, hg0⟩ : ∃ g0, g0 = s1 * a + t1 * b := ⟨_, rfl⟩
  rw [← hg0] at hd1 hd2 hs
  obtain ⟨g, hg⟩ : ∃ g : Int, g = (Int.gcd a b : Int) := ⟨_, rfl⟩
  rw [← hg] at hs ⊢
  have h1 : g0 ∣ g := by
    rw [hg, Int.gcd_eq_gcd_ab]
    exact Int.dvd_add (Dvd.dvd.mul_right hd1 _) (Dvd.dvd.mul_right hd2 _)
  have h2 : g ∣ g0 := by
    rw [hg, hg0]
    exact Int.dvd_add (Dvd.dvd.mul_left (Int.gcd_dvd_left a b) _) (Dvd.dvd.mul_left (Int.gcd_dvd_right a b) _)
  have hgnn : 0 ≤ g := by rw [hg]; exact Int.natCast_nonneg _
  have hsign : g0.sign * g0 = g := by
    rw [Int.sign_mul_self_eq_natAbs]
    have := Int.natAbs_dvd_natAbs.mpr h1
    have h3 := Int.natAbs_dvd_natAbs.mpr h2
    have e := Nat.dvd_antisymm this h3
    rw [e]; exact Int.natAbs_of_nonneg hgnn
  set m : Int := (b.natAbs : Int) / g with hm
  have hbm : (b.natAbs : Int) = m * g := by
    rw [hm]; exact (Int.ediv_mul_cancel (by
      rw [hg]; exact Int.natCast_dvd_natCast.mpr (Int.gcd_dvd_natAbs_right a b))).symm
  obtain ⟨a', ha'⟩ : g ∣ a := by rw [hg]; exact Int.gcd_dvd_left a b
  have e0 : (s1 * g0.sign) * a + (t1 * g0.sign) * b = g := by
    have : (s1 * g0.sign) * a + (t1 * g0.sign) * b = g0.sign * (s1 * a + t1 * b) := by ring
    rw [this, ← hg0, hsign]
  have hdiv : b ∣ g - s * a := by
    have e1 : g - s * a = (t1 * g0.sign) * b + k * a' * (m * g) := by
      rw [hs]; nth_rewrite 1 [← e0]; rw [ha']; ring
    rw [e1, ← hbm]
    exact Int.dvd_add (Dvd.intro_left _ rfl) (Dvd.dvd.mul_left (Int.dvd_natAbs.mpr (dvd_refl b)) _)
  rw [Int.ediv_mul_cancel hdiv]; ring

/-- the Bézout identity of the model of `mpz_gcdext` -/
theorem gcdext_spec (a b : Int) (hb : b ≠ 0) :
    (gcdext a b).1 = (Int.gcd a b : Int) ∧ (gcdext a b).2.1 * a + (gcdext a b).2.2 * b = (Int.gcd a b : Int) := by
  obtain ⟨hd1, hd2⟩ := xgcd_dvd a b
  refine ⟨rfl, ?_⟩
  have key : ∀ s : Int, (∃ k : Int, s = (xgcd a b).1 * ((xgcd a b).1 * a + (xgcd a b).2 * b).sign
        - k * ((b.natAbs : Int) / (Int.gcd a b : Int))) →
      s * a + (((Int.gcd a b : Int) - s * a) / b) * b = (Int.gcd a b : Int) := by
    rintro s ⟨k, hk⟩
    exact bezout_norm a b _ _ hb hd1 hd2 s k hk
  have ite_key : ∀ (P : Prop) [Decidable P] (x y : Int) (f : Int → Prop), f x → f y → f (if P then x else y) := by
    intro P _ x y f hx hy; split <;> assumption
  exact ite_key _ _ _ (fun s => s * a + (((Int.gcd a b : Int) - s * a) / b) * b = (Int.gcd a b : Int))
    (key _ ⟨(xgcd a b).1 * ((xgcd a b).1 * a + (xgcd a b).2 * b).sign / ((b.natAbs : Int) / (Int.gcd a b : Int)) + 1,
      by simp only [gcdI]; rw [Int.emod_def]; ring⟩)
    (key _ ⟨(xgcd a b).1 * ((xgcd a b).1 * a + (xgcd a b).2 * b).sign / ((b.natAbs : Int) / (Int.gcd a b : Int)),
      by simp only [gcdI]; rw [Int.emod_def]; ring⟩)

end PPLV.Lattice.Red
