import PPLV.Lattice.ProofsGridOpsLazy4

/-!
# The `Grid` object, lazy machinery — part 5: `is_empty()`, `minimize()`, `generators_are_up_to_date() || update_generators()`
-/
namespace PPLV.Lattice.GO
open PPLV.Lattice PPLV.Lattice.Red

theorem lz_not_nonempty_of_empty {g : Grid} (h : g.st.empty = true) : ¬ (g.sem).Nonempty := by
  rw [lz_sem_of_empty h]; exact Set.not_nonempty_empty

theorem lz_ne_empty_of_nonempty {s : Set Pt} (h : s.Nonempty) : ¬ s = ∅ := by
  intro h'; rw [h'] at h; exact Set.not_nonempty_empty h

/-- `generators_are_up_to_date() || update_generators()` -/
theorem ensureGenerators_spec : EnsureGeneratorsSpec := by
  intro g hI he hpos
  show GridInv (ensureGenerators g).1 ∧ _
  cases hg : g.st.gUp
  · have hU : ensureGenerators g = updateGenerators g := by
      simp [ensureGenerators, Grid.generatorsAreUpToDate, hg]
    have hc : g.st.cUp = true := by
      rcases hI.some he hpos with h | h
      · exact h
      · rw [hg] at h; exact absurd h (by decide)
    obtain ⟨h1, h2, h3, h4, h5, h6⟩ := updateGenerators_spec g hI he hpos hc hg
    rw [hU]
    exact ⟨h1, h2, h3, h4, fun h => ⟨(h5 h).1, (h5 h).2.1⟩, h6⟩
  · have hU : ensureGenerators g = (g, true) := by
      simp [ensureGenerators, Grid.generatorsAreUpToDate, hg]
    rw [hU]
    exact ⟨hI, rfl, rfl, by simp [lz_nonempty_of_gUp hI he hpos hg], fun _ => ⟨he, hg⟩, fun h => by simp at h⟩

/-- **`is_empty()`** (Grid_public.cc:776) -/
theorem isEmpty_spec : IsEmptySpec := by
  intro g hI
  show GridInv (isEmpty g).1 ∧ _
  cases he : g.st.empty
  swap
  · have hU : isEmpty g = (g, true) := by simp [isEmpty, Grid.markedEmpty, he]
    rw [hU]
    exact ⟨hI, rfl, rfl, by simp [lz_sem_of_empty he], fun _ => he, fun h => by simp at h⟩
  have hret : (g.sem).Nonempty → isEmpty g = (g, false) →
      GridInv (isEmpty g).1 ∧ (isEmpty g).1.sem = g.sem ∧ (isEmpty g).1.spaceDim = g.spaceDim ∧
      ((isEmpty g).2 = true ↔ g.sem = ∅) ∧ ((isEmpty g).2 = true → (isEmpty g).1.st.empty = true) ∧
      ((isEmpty g).2 = false → (isEmpty g).1.st.empty = false) := by
    intro hne hU
    rw [hU]
    exact ⟨hI, rfl, rfl, by simp [lz_ne_empty_of_nonempty hne], fun h => by simp at h, fun _ => he⟩
  by_cases h0 : g.spaceDim = 0
  · refine hret (lz_nonempty_of_zdim he h0) ?_
    simp only [isEmpty, Grid.markedEmpty, he, h0]
    simp
  have hpos : 0 < g.spaceDim := by omega
  cases hg : g.st.gUp
  swap
  · refine hret (lz_nonempty_of_gUp hI he hpos hg) ?_
    simp [isEmpty, Grid.markedEmpty, he, Grid.generatorsAreUpToDate, hg]
  have hc : g.st.cUp = true := by
    rcases hI.some he hpos with h | h
    · exact h
    · rw [hg] at h; exact absurd h (by decide)
  obtain ⟨hcd, hcwf⟩ := hI.cwf he hpos hc
  cases hcm : g.st.cMin
  swap
  · refine hret (lz_nonempty_of_cMin hI he hpos hcm hg) ?_
    simp [isEmpty, Grid.markedEmpty, he, Grid.generatorsAreUpToDate, hg, h0, Grid.congruencesAreMinimized, hcm]
  have hgm : g.st.gMin = false := by
    cases h : g.st.gMin
    · rfl
    · have := hI.gminUp h; rw [hg] at this; exact absurd this (by decide)
  have hU : isEmpty g = if (simplifyConSys g).2 = true then (setEmpty (simplifyConSys g).1, true)
      else ((simplifyConSys g).1.setCongruencesMinimized, false) := by
    simp [isEmpty, Grid.markedEmpty, he, Grid.generatorsAreUpToDate, hg, h0, Grid.congruencesAreMinimized, hcm]
  cases hf : (simplifyConSys g).2
  · obtain ⟨h1, h2, h3, h4, _⟩ := lz_simplifyConSys_post g hI he hpos hc hf
      (fun h => by rw [hgm] at h; exact absurd h (by decide))
    rw [hU, hf]
    exact ⟨h1, h2, h4, by simp [lz_ne_empty_of_nonempty h3], fun h => by simp at h, fun _ => he⟩
  · have hemp := (lz_simplifyConSys_flag g hI he hpos hc).mp hf
    rw [hU, hf]
    exact ⟨lz_setEmpty_inv _, by rw [if_pos rfl, lz_setEmpty_sem, hemp], rfl, by simp [hemp], fun _ => rfl,
      fun h => by simp at h⟩

/-- **`minimize()`** (Grid_nonpublic.cc:546); the two cases where `simplify` runs on one description while the other
    one is flagged minimized use the duality facts `DkCompatG` / `DkCompatC` (`ProofsGridOpsLazy4.lean`): what is missing
    is exactly their proof -/
theorem minimize_spec_partial (hG : DkCompatG) (hC : DkCompatC) : MinimizeSpec := by
  intro g hI
  show GridInv (minimize g).1 ∧ _
  cases he : g.st.empty
  swap
  · have hU : minimize g = (g, false) := by simp [minimize, Grid.markedEmpty, he]
    rw [hU]
    exact ⟨hI, rfl, rfl, by simp [lz_not_nonempty_of_empty he], fun _ => he, fun h => by simp at h⟩
  by_cases h0 : g.spaceDim = 0
  · have hU : minimize g = (g, true) := by simp [minimize, Grid.markedEmpty, he, h0]
    rw [hU]
    exact ⟨hI, rfl, rfl, by simp [lz_nonempty_of_zdim he h0], fun h => by simp at h, fun _ h => by omega⟩
  have hpos : 0 < g.spaceDim := by omega
  cases hc : g.st.cUp
  · -- only the generators
    have hg : g.st.gUp = true := by
      rcases hI.some he hpos with h | h
      · rw [hc] at h; exact absurd h (by decide)
      · exact h
    have hcm : g.st.cMin = false := by
      cases h : g.st.cMin
      · rfl
      · have := hI.cminUp h; rw [hc] at this; exact absurd this (by decide)
    have hU : minimize g = (updateCongruences g, true) := by
      simp [minimize, Grid.markedEmpty, he, h0, Grid.congruencesAreMinimized, hcm, Grid.congruencesAreUpToDate, hc]
    obtain ⟨h1, h2, h3, h4, h5, h6, h7, h8⟩ := updateCongruences_spec g hI he hpos hg hc
    rw [hU]
    exact ⟨h1, h2, h3, by simp [lz_nonempty_of_gUp hI he hpos hg], fun h => by simp at h, fun _ _ => ⟨h4, h6, h8⟩⟩
  cases hg : g.st.gUp
  · -- only the congruences
    have hgm : g.st.gMin = false := by
      cases h : g.st.gMin
      · rfl
      · have := hI.gminUp h; rw [hg] at this; exact absurd this (by decide)
    have hU : minimize g = updateGenerators g := by
      simp [minimize, Grid.markedEmpty, he, h0, Grid.generatorsAreMinimized, hgm, Grid.congruencesAreUpToDate, hc,
        Grid.generatorsAreUpToDate, hg]
    obtain ⟨h1, h2, h3, h4, h5, h6⟩ := updateGenerators_spec g hI he hpos hc hg
    rw [hU]
    exact ⟨h1, h2, h3, h4, h6, fun h _ => ⟨(h5 h).1, (h5 h).2.2.1, (h5 h).2.2.2.2⟩⟩
  -- both up to date
  have hne := lz_nonempty_of_gUp hI he hpos hg
  obtain ⟨hcd, hcwf⟩ := hI.cwf he hpos hc
  obtain ⟨hgd, hgwf, hgn⟩ := hI.gwf he hpos hg
  have hag := hI.agree he hpos hc hg
  cases hcm : g.st.cMin
  swap
  · cases hgm : g.st.gMin
    swap
    · have hU : minimize g = (g, true) := by
        simp [minimize, Grid.markedEmpty, he, h0, Grid.generatorsAreMinimized, hgm, Grid.congruencesAreMinimized, hcm]
      rw [hU]
      exact ⟨hI, rfl, rfl, by simp [hne], fun h => by simp at h, fun _ _ => ⟨he, hgm, hcm⟩⟩
    · -- congruences minimized: `simplify(gen_sys, dim_kinds)`
      obtain ⟨hdk, hlt, hk0⟩ := hI.cmin he hpos hcm
      obtain ⟨k1, k2, k3, k4, k5, k6, k7, k8⟩ := lz_simplifyGen_post g hI he hpos hg
        (fun _ => hG g.spaceDim g.con g.dk g.gen g.dk _ hpos hcwf hdk hlt hk0 hgwf hgn hag)
      have hU : minimize g = ((simplifyGenSys g).setGeneratorsMinimized, true) := by
        simp [minimize, Grid.markedEmpty, he, h0, Grid.generatorsAreMinimized, hgm, Grid.congruencesAreMinimized, hcm,
          Grid.congruencesAreUpToDate, hc, Grid.generatorsAreUpToDate, hg]
      rw [hU]
      exact ⟨k1, k2, k3, by simp [hne], fun h => by simp at h, fun _ _ => ⟨k4, k6, by rw [k8, hcm]⟩⟩
  · -- congruences not minimized: `simplify(con_sys, dim_kinds)`, its flag is not looked at
    have hf : (simplifyConSys g).2 = false := by
      cases h : (simplifyConSys g).2
      · rfl
      · exact absurd ((lz_simplifyConSys_flag g hI he hpos hc).mp h) (lz_ne_empty_of_nonempty hne)
    have hfc : (simplifyCgs g.spaceDim g.con g.dk).2.2 = false := by
      rw [lz_simplifyConSys_eq g hcd] at hf; exact hf
    have hst : (simplifyConSys g).1.st = g.st := rfl
    cases hgm : g.st.gMin
    · -- then `simplify(gen_sys, dim_kinds)`
      obtain ⟨j1, j2, _, e2, e1, e6, e4, e3, e5⟩ := lz_simplifyConSys_post g hI he hpos hc hf
        (fun h => by rw [hgm] at h; exact absurd h (by decide))
      generalize hg1 : (simplifyConSys g).1.setCongruencesMinimized = g1 at j1 j2 e1 e2 e3 e4 e5 e6
      rw [hg] at e3
      rw [hgm] at e5
      have hpos1 : 0 < g1.spaceDim := by omega
      obtain ⟨hdk, hlt, hk0⟩ := j1.cmin e1 hpos1 e4
      obtain ⟨_, hcwf1⟩ := j1.cwf e1 hpos1 (j1.cminUp e4)
      obtain ⟨_, hgwf1, hgn1⟩ := j1.gwf e1 hpos1 e3
      obtain ⟨k1, k2, k3, k4, k5, k6, k7, k8⟩ := lz_simplifyGen_post g1 j1 e1 hpos1 e3
        (fun _ => hG g1.spaceDim g1.con g1.dk g1.gen g1.dk _ hpos1 hcwf1 hdk hlt hk0 hgwf1 hgn1
          (j1.agree e1 hpos1 (j1.cminUp e4) e3))
      have hU : minimize g = ((simplifyGenSys g1).setGeneratorsMinimized, true) := by
        rw [← hg1]
        simp [minimize, Grid.markedEmpty, he, h0, Grid.generatorsAreMinimized, hgm, Grid.congruencesAreMinimized, hcm,
          Grid.congruencesAreUpToDate, hc, Grid.generatorsAreUpToDate, hg, Grid.setCongruencesMinimized, hst]
      rw [hU]
      exact ⟨k1, by rw [k2, j2], by rw [k3, e2], by simp [hne], fun h => by simp at h,
        fun _ _ => ⟨k4, k6, by rw [k8, e4]⟩⟩
    · -- generators minimized already
      obtain ⟨hdk, hut, hk0⟩ := hI.gmin he hpos hgm
      obtain ⟨j1, j2, _, e2, e1, e6, e4, e3, e5⟩ := lz_simplifyConSys_post g hI he hpos hc hf
        (fun _ => by
          rw [lz_simplifyConSys_eq g hcd]
          exact hC g.spaceDim g.con g.dk g.gen g.dk _ hpos hcwf hfc hgwf hgn hdk hut hk0 hag)
      have hU : minimize g = ((simplifyConSys g).1.setCongruencesMinimized, true) := by
        simp [minimize, Grid.markedEmpty, he, h0, Grid.generatorsAreMinimized, hgm, Grid.congruencesAreMinimized, hcm,
          Grid.congruencesAreUpToDate, hc, Grid.generatorsAreUpToDate, hg, Grid.setCongruencesMinimized, hst]
      rw [hU]
      exact ⟨j1, j2, e2, by simp [hne], fun h => by simp at h, fun _ _ => ⟨e1, by rw [e5, hgm], e4⟩⟩

/-- `minimize()` on the states where only one description is up to date, or both are minimized already: no duality
    fact needed -/
theorem minimize_spec_oneSided (g : Grid) (hI : GridInv g)
    (h1 : ¬ (g.st.cUp = true ∧ g.st.gUp = true ∧ (g.st.cMin = false ∨ g.st.gMin = false))) :
    GridInv (minimize g).1 ∧ (minimize g).1.sem = g.sem ∧ (minimize g).1.spaceDim = g.spaceDim ∧
    ((minimize g).2 = true ↔ (g.sem).Nonempty) ∧ ((minimize g).2 = false → (minimize g).1.st.empty = true) ∧
    ((minimize g).2 = true → 0 < g.spaceDim → (minimize g).1.st.empty = false ∧ (minimize g).1.st.gMin = true ∧
      (minimize g).1.st.cMin = true) := by
  cases he : g.st.empty
  swap
  · have hU : minimize g = (g, false) := by simp [minimize, Grid.markedEmpty, he]
    rw [hU]
    exact ⟨hI, rfl, rfl, by simp [lz_not_nonempty_of_empty he], fun _ => he, fun h => by simp at h⟩
  by_cases h0 : g.spaceDim = 0
  · have hU : minimize g = (g, true) := by simp [minimize, Grid.markedEmpty, he, h0]
    rw [hU]
    exact ⟨hI, rfl, rfl, by simp [lz_nonempty_of_zdim he h0], fun h => by simp at h, fun _ h => by omega⟩
  have hpos : 0 < g.spaceDim := by omega
  cases hc : g.st.cUp
  · have hg : g.st.gUp = true := by
      rcases hI.some he hpos with h | h
      · rw [hc] at h; exact absurd h (by decide)
      · exact h
    have hcm : g.st.cMin = false := by
      cases h : g.st.cMin
      · rfl
      · have := hI.cminUp h; rw [hc] at this; exact absurd this (by decide)
    have hU : minimize g = (updateCongruences g, true) := by
      simp [minimize, Grid.markedEmpty, he, h0, Grid.congruencesAreMinimized, hcm, Grid.congruencesAreUpToDate, hc]
    obtain ⟨k1, k2, k3, k4, k5, k6, k7, k8⟩ := updateCongruences_spec g hI he hpos hg hc
    rw [hU]
    exact ⟨k1, k2, k3, by simp [lz_nonempty_of_gUp hI he hpos hg], fun h => by simp at h, fun _ _ => ⟨k4, k6, k8⟩⟩
  cases hg : g.st.gUp
  · have hgm : g.st.gMin = false := by
      cases h : g.st.gMin
      · rfl
      · have := hI.gminUp h; rw [hg] at this; exact absurd this (by decide)
    have hU : minimize g = updateGenerators g := by
      simp [minimize, Grid.markedEmpty, he, h0, Grid.generatorsAreMinimized, hgm, Grid.congruencesAreUpToDate, hc,
        Grid.generatorsAreUpToDate, hg]
    obtain ⟨k1, k2, k3, k4, k5, k6⟩ := updateGenerators_spec g hI he hpos hc hg
    rw [hU]
    exact ⟨k1, k2, k3, k4, k6, fun h _ => ⟨(k5 h).1, (k5 h).2.2.1, (k5 h).2.2.2.2⟩⟩
  have hcm : g.st.cMin = true := by
    cases h : g.st.cMin
    · exact absurd ⟨hc, hg, Or.inl h⟩ h1
    · rfl
  have hgm : g.st.gMin = true := by
    cases h : g.st.gMin
    · exact absurd ⟨hc, hg, Or.inr h⟩ h1
    · rfl
  have hU : minimize g = (g, true) := by
    simp [minimize, Grid.markedEmpty, he, h0, Grid.generatorsAreMinimized, hgm, Grid.congruencesAreMinimized, hcm]
  rw [hU]
  exact ⟨hI, rfl, rfl, by simp [lz_nonempty_of_gUp hI he hpos hg], fun h => by simp at h, fun _ _ => ⟨he, hgm, hcm⟩⟩

/-- `minimize()` on `x ≡ 1 (mod 2)` given by congruences only: the generators are computed -/
example :
    let g : Grid := Grid.mk 1 { cUp := true } 1 [⟨[-1, 1], 2⟩] 1 [] []
    invB g = true ∧ (minimize g).2 = true ∧ (minimize g).1.gen = [⟨false, [1, 1, 0]⟩, ⟨false, [0, 2, 1]⟩] := by
  decide +kernel

/-- `is_empty()` on `x = 0 ∧ x = 1` -/
example :
    let g : Grid := Grid.mk 1 { cUp := true } 1 [⟨[0, 1], 0⟩, ⟨[-1, 1], 0⟩] 1 [] []
    invB g = true ∧ (isEmpty g).2 = true ∧ (isEmpty g).1.st = Status.setEmpty := by decide +kernel

end PPLV.Lattice.GO
