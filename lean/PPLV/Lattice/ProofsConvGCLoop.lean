import PPLV.Lattice.ProofsConvGCStep

/-!
# `Grid::conversion` (generators → congruences): the main loop, `set_modulus`, the final products
-/
namespace PPLV.Lattice.Red

section
variable (source : List GRow) (dk : List Nat) (dims : Nat)

structure GInv (d : Nat) (st : GCSt) : Prop where
  si : st.sourceIndex = nv dk d
  di : st.destIndex = nl dk dims - nl dk d
  len : st.dest.length = nl dk dims
  rows : ∃ L : Int, 0 < L ∧ ∀ q, q < dims → nlB dk q = true →
    RowInv source dk dims d L q (rowAt st.dest (pos dk dims q))

def gcDimA (N : Nat) (st : GCSt) (dim : Nat) : List CRow × Nat :=
  if kind dk dim ≠ GEN_VIRTUAL then
    ((dimsDown st.destIndex).foldl (gcDivideRow (get (rowAt source (st.sourceIndex - 1)).e dim) dim N) st.dest,
      st.sourceIndex - 1)
  else (st.dest, st.sourceIndex)

def gcDimK (st : GCSt) (dim : Nat) : Nat := if kind dk dim ≠ LINE then st.destIndex + 1 else st.destIndex

theorem gcDim_eq (N : Nat) (st : GCSt) (dim : Nat) :
    gcDim source dk N st dim =
      { dest := ((dimsDown dim).foldl (gcColStep source dk dim (gcDimK dk st dim))
          ((gcDimA source dk N st dim).2, (gcDimA source dk N st dim).1)).2,
        sourceIndex := (gcDimA source dk N st dim).2,
        destIndex := gcDimK dk st dim } := rfl

theorem gcDimA_spec (hs : SrcOK dims source dk) (e : Nat) (he : e < dims) (st : GCSt)
    (h : GInv source dk dims (e + 1) st) :
    (gcDimA source dk (nl dk dims) st e).2 = nv dk e ∧
      PhaseA dk e st.destIndex (sEnt source (nv dk e) e) st.dest (gcDimA source dk (nl dk dims) st e).1 := by
  obtain ⟨hsi, hdi, hlen, _⟩ := h
  unfold gcDimA
  by_cases hv : kind dk e = GEN_VIRTUAL
  · have hvb : nvB dk e = false := by simp [nvB, hv]
    have e1 := cntBelow_succ_neg (nvB dk) e hvb
    simp only [hv, ne_eq, not_true_eq_false, if_false]
    refine ⟨by simp only [nv] at *; omega, rfl, 1, by omega, fun i _ => ?_⟩
    refine ⟨1, by omega, fun _ => rfl, by simp, rfl, fun k _ => by simp, fun _ hc => ?_, fun _ => by simp⟩
    rw [hvb] at hc; exact absurd hc (by simp)
  · have hvb : nvB dk e = true := by simp [nvB, hv]
    have e1 := cntBelow_succ_pos (nvB dk) e hvb
    have hsi' : st.sourceIndex - 1 = nv dk e := by simp only [nv] at *; omega
    simp only [hv, ne_eq, not_false_eq_true, if_true]
    rw [hsi']
    refine ⟨rfl, ?_⟩
    have ha := hs.diag e he hvb
    obtain ⟨d1, f, hf, d2⟩ := divPhase_spec (sEnt source (nv dk e) e) ha e st.destIndex (nl dk dims) st.dest hlen
      (by rw [hdi]; omega)
    refine ⟨d1, f, hf, fun i hi => ?_⟩
    obtain ⟨fi, hfi, c1, c2, c3, c4, c5⟩ := d2 i hi
    refine ⟨fi, hfi, c1, c2, c3, fun k hk => c4 k (Or.inl hk), fun h1 _ => c5 (Nat.zero_le _) h1, fun hc => ?_⟩
    exact c4 e (Or.inr (fun h => hc ⟨h.2, hvb⟩))

theorem gcDimK_spec (e : Nat) (he : e < dims) (st : GCSt) (hdi : st.destIndex = nl dk dims - nl dk (e + 1)) :
    gcDimK dk st e = nl dk dims - nl dk e := by
  have hm := cntBelow_mono (nlB dk) (show e + 1 ≤ dims from he)
  unfold gcDimK
  by_cases hl : kind dk e = LINE
  · have hlb : nlB dk e = false := by simp [nlB, hl]
    have e1 := cntBelow_succ_neg (nlB dk) e hlb
    simp only [hl, ne_eq, not_true_eq_false, if_false]
    simp only [nl] at *; omega
  · have hlb : nlB dk e = true := by simp [nlB, hl]
    have e1 := cntBelow_succ_pos (nlB dk) e hlb
    simp only [hl, ne_eq, not_false_eq_true, if_true]
    simp only [nl] at *; omega

/-- one turn of the conversion loop keeps the invariant -/
theorem gcDim_inv (hs : SrcOK dims source dk) (e : Nat) (he : e < dims) (st : GCSt)
    (h : GInv source dk dims (e + 1) st) : GInv source dk dims e (gcDim source dk (nl dk dims) st e) := by
  obtain ⟨hA2, hA⟩ := gcDimA_spec source dk dims hs e he st h
  obtain ⟨hsi, hdi, hlen, L, hL, hrows⟩ := h
  have hK' := gcDimK_spec dk dims e he st hdi
  have hrowlen : ∀ i, i < st.dest.length → (rowAt st.dest i).e.length = dims := by
    intro i hi
    obtain ⟨q, hq, hql, rfl⟩ := pos_surj dk dims i (by omega)
    exact (hrows q hq hql).len
  have hrowlen1 : ∀ i, i < (gcDimA source dk (nl dk dims) st e).1.length →
      (rowAt (gcDimA source dk (nl dk dims) st e).1 i).e.length = dims := by
    intro i hi
    rw [hA.len] at hi
    obtain ⟨f, _, hf⟩ := hA.ex
    obtain ⟨fi, _, _, _, c3, _⟩ := hf i hi
    rw [c3]; exact hrowlen i hi
  rw [gcDim_eq, hA2]
  obtain ⟨hc1, hC⟩ := colPhase_spec source dk dims e (gcDimK dk st e) (gcDimA source dk (nl dk dims) st e).1 he hrowlen1
  refine ⟨rfl, hK', ?_, ?_⟩
  · exact hC.len.trans (hA.len.trans hlen)
  · exact step_rows source dk dims hs e he st.dest _ _ st.destIndex (gcDimK dk st e) hdi hK' hlen L hL hrows hA hC

end

/-! ### the whole loop -/

/-- the state after the conversion loop -/
def gcLoop (n : Nat) (source : List GRow) (dk : List Nat) : GCSt :=
  (dimsDown (n + 1)).foldl (gcDim source dk (gcCount source dk (n + 1)).2.1)
    { dest := gcInit source dk (n + 1) (gcCount source dk (n + 1)).2.2, sourceIndex := source.length, destIndex := 0 }

theorem conversionGensToCgs_eq (n : Nat) (source : List GRow) (dk : List Nat) :
    conversionGensToCgs n source dk =
      gcReduce dk (n + 1) (gcSetModulus (gcLoop n source dk).dest (gcCount source dk (n + 1)).2.1) := rfl

theorem nlB_nvB_param (dk : List Nat) (dims : Nat) (hk : ∀ d, d < dims → kind dk d ≤ 2) (q : Nat) (hq : q < dims)
    (hl : nlB dk q = true) : (nvB dk q = true ↔ kind dk q = PARAMETER) ∧ (nvB dk q = false ↔ kind dk q = GEN_VIRTUAL) := by
  have h2 := hk q hq
  have hne : kind dk q ≠ 1 := by simpa [nlB, LINE] using hl
  constructor
  · simp only [nvB, GEN_VIRTUAL, PARAMETER, bne_iff_ne, ne_eq]; omega
  · simp only [nvB, GEN_VIRTUAL, bne_eq_false_iff_eq]

theorem gcLoop_inv (n : Nat) (source : List GRow) (dk : List Nat) (hs : SrcOK (n + 1) source dk)
    (hk : ∀ d, d < n + 1 → kind dk d ≤ 2) : GInv source dk (n + 1) 0 (gcLoop n source dk) := by
  obtain ⟨c1, c2, c3⟩ := gcCount_spec source dk (n + 1) hs hk
  obtain ⟨i1, i2⟩ := gcInit_spec source dk (n + 1) (gcCount source dk (n + 1)).2.2 hs hk
  unfold gcLoop
  rw [c1]
  refine foldl_dimsDown_inv (gcDim source dk (nl dk (n + 1))) (fun d st => GInv source dk (n + 1) d st) (n + 1) _ ?_ ?_
  · refine ⟨hs.len, by simp, i1, (gcCount source dk (n + 1)).2.2, c2, fun q hq hql => ?_⟩
    obtain ⟨k1, k2⟩ := nlB_nvB_param dk (n + 1) hk q hq hql
    obtain ⟨u1, u2⟩ := i2 q hq hql
    by_cases hv : nvB dk q = true
    · obtain ⟨m1, m2, m3⟩ := u2 (k1.mp hv)
      have hdiv := c3 q hq (k1.mp hv)
      have hSpos := hs.diag q hq hv
      have hquot : 0 < (gcCount source dk (n + 1)).2.2 / sEnt source (nv dk q) q := by
        have e := Int.ediv_mul_cancel hdiv
        by_contra hc
        have h1 : (gcCount source dk (n + 1)).2.2 / sEnt source (nv dk q) q ≤ 0 := by omega
        have := Int.mul_nonpos_of_nonpos_of_nonneg h1 (Int.le_of_lt hSpos)
        omega
      refine ⟨m2, fun h => by rw [hv] at h; exact absurd h (by simp), fun _ => by rw [m1]; decide, fun k hk' => ?_, ?_, ?_⟩
      · rw [m3 k, if_neg (by omega)]
      · rw [m3 q, if_pos rfl]; exact hquot
      · refine ⟨(gcCount source dk (n + 1)).2.2, c2, fun _ => rfl, fun h => by omega, fun _ => ⟨fun k hk' => ?_, fun _ => ?_, fun h => ?_⟩⟩
        · rw [m3 k, if_neg hk']
        · rw [m3 q, if_pos rfl]
          exact Int.ediv_mul_cancel (c3 q hq (k1.mp hv))
        · rw [hv] at h; exact absurd h (by simp)
    · have hv' : nvB dk q = false := by simpa using hv
      obtain ⟨m1, m2, m3⟩ := u1 (k2.mp hv')
      refine ⟨m2, fun _ => m1, fun h => absurd h hv, fun k hk' => ?_, ?_, ?_⟩
      · rw [m3 k, if_neg (by omega)]
      · rw [m3 q, if_pos rfl]; decide
      · refine ⟨1, by omega, fun h => absurd h hv, fun h => by omega, fun _ => ⟨fun k hk' => ?_, fun h => absurd h hv, fun _ => ?_⟩⟩
        · rw [m3 k, if_neg hk']
        · rw [m3 q, if_pos rfl]
  · intro d st hd h
    exact gcDim_inv source dk (n + 1) hs d hd st h

/-! ### the final rows -/

/-- a row before the final reduction: `M` the common modulus, `L` the common diagonal product -/
structure DiagRow (source : List GRow) (dk : List Nat) (dims : Nat) (M L : Int) (q : Nat) (c : CRow) : Prop where
  len : c.e.length = dims
  mv : nvB dk q = false → c.m = 0
  mp : nvB dk q = true → c.m = M
  tri : ∀ k, q < k → get c.e k = 0
  diag : 0 < get c.e q
  prod : ∀ p, p < dims → nvB dk p = true →
    dotUpto c.e (rowAt source (nv dk p)).e dims = if p = q then L else 0

structure DiagOK (source : List GRow) (dk : List Nat) (dims : Nat) (M L : Int) (T : List CRow) : Prop where
  len : T.length = nl dk dims
  rows : ∀ q, q < dims → nlB dk q = true → DiagRow source dk dims M L q (rowAt T (pos dk dims q))

/-- a row of the result: `M` the common modulus, `L` the common product -/
structure FinRow (source : List GRow) (dk : List Nat) (dims : Nat) (M L : Int) (q : Nat) (c : CRow) : Prop where
  len : c.e.length = dims
  mv : nvB dk q = false → c.m = 0
  mp : nvB dk q = true → c.m = M
  tri : ∀ k, q < k → get c.e k = 0
  diag : 0 < get c.e q
  prod : ∀ p, p < dims → nvB dk p = true →
    (kind dk p = LINE → dotUpto c.e (rowAt source (nv dk p)).e dims = 0) ∧
    (nvB dk q = false → dotUpto c.e (rowAt source (nv dk p)).e dims = 0) ∧
    L ∣ dotUpto c.e (rowAt source (nv dk p)).e dims

structure FinalOK (source : List GRow) (dk : List Nat) (dims : Nat) (M L : Int) (T : List CRow) : Prop where
  len : T.length = nl dk dims
  rows : ∀ q, q < dims → nlB dk q = true → FinRow source dk dims M L q (rowAt T (pos dk dims q))

theorem DiagRow.fin {source : List GRow} {dk : List Nat} {dims : Nat} {M L : Int} {q : Nat} {c : CRow}
    (hql : nlB dk q = true) (R : DiagRow source dk dims M L q c) : FinRow source dk dims M L q c := by
  refine ⟨R.len, R.mv, R.mp, R.tri, R.diag, fun p hp hpv => ?_⟩
  rw [R.prod p hp hpv]
  refine ⟨fun hline => ?_, fun hqv => ?_, ?_⟩
  · rw [if_neg]
    intro hpq; subst hpq
    simp [nlB, hline] at hql
  · rw [if_neg]
    intro hpq; subst hpq
    rw [hpv] at hqv; exact absurd hqv (by simp)
  · by_cases hpq : p = q
    · rw [if_pos hpq]
    · rw [if_neg hpq]; exact Int.dvd_zero _

theorem DiagOK.fin {source : List GRow} {dk : List Nat} {dims : Nat} {M L : Int} {T : List CRow}
    (h : DiagOK source dk dims M L T) : FinalOK source dk dims M L T :=
  ⟨h.len, fun q hq hql => (h.rows q hq hql).fin hql⟩

/-- after `set_modulus`: the matrix of products is `L` times the identity, `M·D = L` with `D = source[0][0]` -/
theorem gcSetModulus_diag (n : Nat) (source : List GRow) (dk : List Nat) (hs : SrcOK (n + 1) source dk)
    (hk : ∀ d, d < n + 1 → kind dk d ≤ 2) (h0 : kind dk 0 = PARAMETER) :
    ∃ M L : Int, 0 < M ∧ M * sEnt source 0 0 = L ∧
      DiagOK source dk (n + 1) M L (gcSetModulus (gcLoop n source dk).dest (gcCount source dk (n + 1)).2.1) := by
  obtain ⟨c1, _, _⟩ := gcCount_spec source dk (n + 1) hs hk
  obtain ⟨_, _, hlen, L, hL, hrows⟩ := gcLoop_inv n source dk hs hk
  rw [c1]
  have hl0 : nlB dk 0 = true := by simp [nlB, h0, PARAMETER, LINE]
  have hv0 : nvB dk 0 = true := by simp [nvB, h0, PARAMETER, GEN_VIRTUAL]
  have hpos0 : pos dk (n + 1) 0 = nl dk (n + 1) - 1 := by
    have := cntBelow_succ_pos (nlB dk) 0 hl0
    simp only [pos, nl] at *
    rw [this]; simp [cntBelow]
  -- the last row
  have R0 := hrows 0 (by omega) hl0
  obtain ⟨lam, hlam, hlamL, hQ, _⟩ := R0.ex
  have hprod := hQ (Nat.le_refl _) 0 (by omega) hv0
  have hD := hs.diag 0 (by omega) hv0
  have hnv0 : nv dk 0 = 0 := rfl
  rw [hnv0] at hD
  have hM : get (rowAt (gcLoop n source dk).dest (nl dk (n + 1) - 1)).e 0 * sEnt source 0 0 = L := by
    rw [← hpos0, ← hlamL hv0]
    simp only [Qd, if_true, Nat.lt_irrefl, if_false] at hprod
    have z := dotUpto_zero_from (rowAt (gcLoop n source dk).dest (pos dk (n + 1) 0)).e (rowAt source (nv dk 0)).e 1 (n + 1)
      (fun k hk' _ => R0.tri k (by omega)) (by omega)
    rw [z] at hprod
    simp only [dotUpto, hnv0] at hprod
    simp only [sEnt]
    linear_combination hprod
  have hMpos : 0 < get (rowAt (gcLoop n source dk).dest (nl dk (n + 1) - 1)).e 0 := by
    rw [← hpos0]; exact R0.diag
  refine ⟨_, L, hMpos, hM, ?_, fun q hq hql => ?_⟩
  · simp [gcSetModulus, hlen]
  · have R := hrows q hq hql
    have hi : pos dk (n + 1) q < (gcLoop n source dk).dest.length := by rw [hlen]; exact pos_lt dk (n + 1) q hq hql
    unfold gcSetModulus
    rw [gc_rowAt_map _ _ _ hi]
    obtain ⟨lam', hlam', hlamL', hQ', _⟩ := R.ex
    have hprods : ∀ p, p < n + 1 → nvB dk p = true →
        dotUpto (rowAt (gcLoop n source dk).dest (pos dk (n + 1) q)).e (rowAt source (nv dk p)).e (n + 1) =
          if p = q then L else 0 := by
      intro p hp hpv
      have := hQ' (Nat.zero_le _) p hp hpv
      unfold Qd at this
      rw [if_neg (Nat.not_lt_zero _)] at this
      have z : dotUpto (rowAt (gcLoop n source dk).dest (pos dk (n + 1) q)).e (rowAt source (nv dk p)).e 0 = 0 := rfl
      by_cases hpq : p = q
      · subst hpq
        rw [if_pos rfl] at this ⊢
        rw [← hlamL' hpv]
        linear_combination this + z
      · rw [if_neg hpq] at this ⊢
        linear_combination this + z
    have hfin : ∀ m' : Int, (nvB dk q = false → m' = 0) → (nvB dk q = true → m' = get (rowAt (gcLoop n source dk).dest (nl dk (n + 1) - 1)).e 0) →
        DiagRow source dk (n + 1) (get (rowAt (gcLoop n source dk).dest (nl dk (n + 1) - 1)).e 0) L q
          { (rowAt (gcLoop n source dk).dest (pos dk (n + 1) q)) with m := m' } := by
      intro m' hm1 hm2
      exact ⟨R.len, hm1, hm2, R.tri, R.diag, hprods⟩
    by_cases hv : nvB dk q = true
    · have : (rowAt (gcLoop n source dk).dest (pos dk (n + 1) q)).isProperCongruence = true := by
        simp [CRow.isProperCongruence, R.mp hv]
      simp only [this, if_true]
      exact hfin _ (fun h => by rw [hv] at h; exact absurd h (by simp)) (fun _ => rfl)
    · have hv' : nvB dk q = false := by simpa using hv
      have : (rowAt (gcLoop n source dk).dest (pos dk (n + 1) q)).isProperCongruence = false := by
        simp [CRow.isProperCongruence, R.mv hv']
      simp only [this, Bool.false_eq_true, if_false]
      have := hfin (rowAt (gcLoop n source dk).dest (pos dk (n + 1) q)).m (fun _ => R.mv hv') (fun h => absurd h hv)
      exact this

theorem gcSetModulus_final (n : Nat) (source : List GRow) (dk : List Nat) (hs : SrcOK (n + 1) source dk)
    (hk : ∀ d, d < n + 1 → kind dk d ≤ 2) (h0 : kind dk 0 = PARAMETER) :
    ∃ M L : Int, 0 < M ∧ M * sEnt source 0 0 = L ∧
      FinalOK source dk (n + 1) M L (gcSetModulus (gcLoop n source dk).dest (gcCount source dk (n + 1)).2.1) := by
  obtain ⟨M, L, h1, h2, h3⟩ := gcSetModulus_diag n source dk hs hk h0
  exact ⟨M, L, h1, h2, h3.fin⟩

end PPLV.Lattice.Red
