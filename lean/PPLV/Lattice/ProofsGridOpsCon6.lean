import PPLV.Lattice.ProofsGridOpsCon5

/-!
# `Grid` stage 3, congruence-side mutators, part 6: a `Constraint` argument — `add_constraint_no_check`,
# `add_constraint`, `refine_no_check`, `refine_with_constraint`

An equality goes through `add_congruence_no_check`.  Of an inequality the grid only uses the two flags the library
computes (`is_inconsistent()`, `is_tautological()`); the statements take their truthfulness as hypotheses
(`cn_ConOK`): `inconsistent` ⇒ no point satisfies the constraint, `tautological` ⇒ every point of the grid does.
-/
namespace PPLV.Lattice.GO
open PPLV.Lattice PPLV.Lattice.Red

/-- the points that satisfy a constraint: `⟨e,x⟩ + b = 0`, `≥ 0` or `> 0` -/
def cn_conSet (c : Con) : Set Pt :=
  {x | if c.kind = 0 then evalRow c.e x = 0 else if c.kind = 2 then 0 < evalRow c.e x else 0 ≤ evalRow c.e x}

/-- what the statements need of a constraint argument: it fits the space, its flags are truthful (on `S`) -/
def cn_ConOK (n : Nat) (S : Set Pt) (c : Con) : Prop :=
  c.spaceDim ≤ n ∧ c.e ≠ [] ∧ (c.inconsistent = true → cn_conSet c = ∅) ∧ (c.tautological = true → S ⊆ cn_conSet c)

theorem cn_ConOK_mono (n : Nat) (S S' : Set Pt) (c : Con) (h : S' ⊆ S) (hc : cn_ConOK n S c) : cn_ConOK n S' c :=
  ⟨hc.1, hc.2.1, hc.2.2.1, fun ht => h.trans (hc.2.2.2 ht)⟩

/-- an inequality that is neither inconsistent nor tautological: `add_constraint` throws, `refine_with_constraint`
    ignores it -/
def cn_hardIneq (c : Con) : Bool := !c.isEquality && !c.inconsistent && !c.tautological

theorem cn_toCg_set (c : Con) (h : c.isEquality = true) : CRow.set c.toCg = cn_conSet c := by
  have hk : c.kind = 0 := by simpa [Con.isEquality] using h
  ext x
  rw [cn_mem_set]
  unfold rsem Con.toCg cn_conSet
  simp only [Set.mem_ofPred_eq, if_pos hk, Int.cast_zero, mul_zero, exists_const]

/-- Grid_nonpublic.cc:716 `add_constraint_no_check(c)` on a grid that is not marked empty -/
theorem cn_addConstraintNoCheck (hUC : UpdateCongruencesSpec) (g : Grid) (c : Con) (hI : GridInv g)
    (hne : g.st.empty = false) (hc : cn_ConOK g.spaceDim g.sem c) :
    ((addConstraintNoCheck g c).thrown = true ↔ cn_hardIneq c = true) ∧
    ((addConstraintNoCheck g c).thrown = true → (addConstraintNoCheck g c).g = g) ∧
    GridInv (addConstraintNoCheck g c).g ∧ (addConstraintNoCheck g c).g.spaceDim = g.spaceDim ∧
    ((addConstraintNoCheck g c).thrown = false → (addConstraintNoCheck g c).g.sem = g.sem ∩ cn_conSet c) := by
  obtain ⟨hd, he, hinc, htaut⟩ := hc
  unfold addConstraintNoCheck cn_hardIneq
  by_cases heq : c.isEquality = true
  · have hb : (!c.isEquality) = false := by rw [heq]; rfl
    rw [if_neg (by rw [hb]; exact Bool.false_ne_true)]
    have := cn_addCongruenceNoCheck hUC g c.toCg hI hne hd (le_refl _) he
    rw [cn_toCg_set c heq] at this
    exact ⟨⟨(fun h => by cases h), (fun h => by rw [hb] at h; simp at h)⟩, (fun h => by cases h), this.1, this.2.2,
      fun _ => this.2.1⟩
  · have heq' : c.isEquality = false := by simpa using heq
    rw [heq']
    simp only [Bool.not_false, if_true, Bool.true_and]
    by_cases hi : c.inconsistent = true
    · rw [if_pos hi, hi]
      refine ⟨⟨(fun h => by cases h), (fun h => by simp at h)⟩, (fun h => by cases h), cn_setEmpty_inv g, rfl, fun _ => ?_⟩
      rw [cn_setEmpty_sem, hinc hi, Set.inter_empty]
    · have hi' : c.inconsistent = false := by simpa using hi
      rw [if_neg hi, hi']
      by_cases ht : c.tautological = true
      · rw [if_pos ht, ht]
        refine ⟨⟨(fun h => by cases h), (fun h => by simp at h)⟩, (fun h => by cases h), hI, rfl, fun _ => ?_⟩
        rw [Set.inter_eq_left.mpr (htaut ht)]
      · have ht' : c.tautological = false := by simpa using ht
        rw [if_neg ht, ht']
        exact ⟨⟨fun _ => rfl, fun _ => rfl⟩, fun _ => rfl, hI, rfl, (fun h => by cases h)⟩

theorem cn_hardIneq_eq (c : Con) : cn_hardIneq c = c.isHardInequality := rfl

/-- Grid_inlines.hh `add_constraint(c)` (after 680f35a): throws on a dimension mismatch and on a non-trivial inequality,
    whether or not the receiver is marked empty; the object is then unchanged -/
theorem cn_addConstraint (hUC : UpdateCongruencesSpec) (g : Grid) (c : Con) (hI : GridInv g)
    (hc : c.spaceDim ≤ g.spaceDim → cn_ConOK g.spaceDim g.sem c) :
    ((addConstraint g c).thrown = true ↔ (g.spaceDim < c.spaceDim ∨ cn_hardIneq c = true)) ∧
    ((addConstraint g c).thrown = true → (addConstraint g c).g = g) ∧
    (g.st.empty = true → (addConstraint g c).g = g) ∧
    GridInv (addConstraint g c).g ∧ (addConstraint g c).g.spaceDim = g.spaceDim ∧
    ((addConstraint g c).thrown = false → (addConstraint g c).g.sem = g.sem ∩ cn_conSet c) := by
  unfold addConstraint
  by_cases hd : g.spaceDim < c.spaceDim
  · rw [if_pos hd]
    exact ⟨⟨fun _ => Or.inl hd, fun _ => rfl⟩, fun _ => rfl, fun _ => rfl, hI, rfl, (fun h => by cases h)⟩
  · rw [if_neg hd]
    by_cases hemp : g.st.empty = true
    · have : (!g.markedEmpty) = false := by simp [Grid.markedEmpty, hemp]
      rw [this, if_neg Bool.false_ne_true]
      by_cases hh : c.isHardInequality = true
      · rw [if_pos hh]
        exact ⟨⟨fun _ => Or.inr hh, fun _ => rfl⟩, fun _ => rfl, fun _ => rfl, hI, rfl, (fun h => by cases h)⟩
      · rw [if_neg hh]
        refine ⟨⟨(fun h => by cases h), ?_⟩, fun _ => rfl, fun _ => rfl, hI, rfl, fun _ => ?_⟩
        · rintro (h | h)
          · exact absurd h hd
          · exact absurd h hh
        · rw [cn_sem_empty g hemp, Set.empty_inter]
    · have hne : g.st.empty = false := by simpa using hemp
      have : (!g.markedEmpty) = true := by simp [Grid.markedEmpty, hne]
      rw [this, if_pos rfl]
      obtain ⟨h1, h2, h3, h4, h5⟩ := cn_addConstraintNoCheck hUC g c hI hne (hc (by omega))
      refine ⟨⟨fun h => Or.inr (h1.mp h), ?_⟩, h2, fun h => absurd h hemp, h3, h4, h5⟩
      rintro (h | h)
      · exact absurd h hd
      · exact h1.mpr h

/-- the constraints `refine_with_constraint` takes into account -/
def cn_eff (c : Con) : Bool := c.isEquality || c.inconsistent

/-- Grid_nonpublic.cc:739 `refine_no_check(c)` on a grid that is not marked empty: an equality or an inconsistent
    inequality cuts the grid, any other inequality is ignored -/
theorem cn_refineNoCheck (hUC : UpdateCongruencesSpec) (g : Grid) (c : Con) (hI : GridInv g)
    (hne : g.st.empty = false) (hc : cn_ConOK g.spaceDim g.sem c) :
    GridInv (refineNoCheck g c) ∧ (refineNoCheck g c).spaceDim = g.spaceDim ∧
    (cn_eff c = true → (refineNoCheck g c).sem = g.sem ∩ cn_conSet c) ∧
    (cn_eff c = false → refineNoCheck g c = g) ∧
    (c.tautological = true → (refineNoCheck g c).sem = g.sem ∩ cn_conSet c) := by
  obtain ⟨hd, he, hinc, htaut⟩ := hc
  unfold refineNoCheck cn_eff
  by_cases heq : c.isEquality = true
  · rw [if_pos heq, heq]
    have := cn_addCongruenceNoCheck hUC g c.toCg hI hne hd (le_refl _) he
    rw [cn_toCg_set c heq] at this
    exact ⟨this.1, this.2.2, fun _ => this.2.1, (fun h => by simp at h), fun _ => this.2.1⟩
  · have heq' : c.isEquality = false := by simpa using heq
    rw [if_neg heq, heq']
    by_cases hi : c.inconsistent = true
    · rw [if_pos hi, hi]
      have hs : (setEmpty g).sem = g.sem ∩ cn_conSet c := by rw [cn_setEmpty_sem, hinc hi, Set.inter_empty]
      exact ⟨cn_setEmpty_inv g, rfl, fun _ => hs, (fun h => by simp at h), fun _ => hs⟩
    · have hi' : c.inconsistent = false := by simpa using hi
      rw [if_neg hi, hi']
      exact ⟨hI, rfl, (fun h => by simp at h), fun _ => rfl,
        fun ht => by rw [Set.inter_eq_left.mpr (htaut ht)]⟩

/-- Grid_public.cc:1448 `refine_with_constraint(c)`: throws exactly on a dimension mismatch -/
theorem cn_refineWithConstraint (hUC : UpdateCongruencesSpec) (g : Grid) (c : Con) (hI : GridInv g)
    (hc : c.spaceDim ≤ g.spaceDim → cn_ConOK g.spaceDim g.sem c) :
    ((refineWithConstraint g c).thrown = true ↔ g.spaceDim < c.spaceDim) ∧
    ((refineWithConstraint g c).thrown = true → (refineWithConstraint g c).g = g) ∧
    (g.st.empty = true → (refineWithConstraint g c).g = g) ∧
    GridInv (refineWithConstraint g c).g ∧ (refineWithConstraint g c).g.spaceDim = g.spaceDim ∧
    ((refineWithConstraint g c).thrown = false → cn_eff c = true ∨ c.tautological = true →
      (refineWithConstraint g c).g.sem = g.sem ∩ cn_conSet c) ∧
    (cn_eff c = false → (refineWithConstraint g c).g = g) := by
  unfold refineWithConstraint
  by_cases hd : g.spaceDim < c.spaceDim
  · rw [if_pos hd]
    exact ⟨⟨fun _ => hd, fun _ => rfl⟩, fun _ => rfl, fun _ => rfl, hI, rfl, (fun h => by cases h), fun _ => rfl⟩
  · rw [if_neg hd]
    by_cases hemp : g.st.empty = true
    · have : g.markedEmpty = true := hemp
      rw [if_pos this]
      refine ⟨⟨(fun h => by cases h), fun h => absurd h hd⟩, fun _ => rfl, fun _ => rfl, hI, rfl, fun _ _ => ?_,
        fun _ => rfl⟩
      rw [cn_sem_empty g hemp, Set.empty_inter]
    · have hne : g.st.empty = false := by simpa using hemp
      have : ¬ (g.markedEmpty = true) := hemp
      rw [if_neg this]
      obtain ⟨h1, h2, h3, h4, h5⟩ := cn_refineNoCheck hUC g c hI hne (hc (by omega))
      exact ⟨⟨(fun h => by cases h), fun h => absurd h hd⟩, (fun h => by cases h), fun h => absurd h hemp, h1, h2,
        fun _ h => h.elim h3 h5, h4⟩

/-- `x = 1` added to `x ≡ 0 (mod 2)`: not thrown; `x ≥ 0` with truthful flags: thrown -/
example : cn_ConOK 1 cn_exGrid.sem ⟨0, false, false, [-1, 1]⟩ ∧ cn_ConOK 1 cn_exGrid.sem ⟨1, false, false, [0, 1]⟩ ∧
    (addConstraint cn_exGrid ⟨0, false, false, [-1, 1]⟩).thrown = false ∧
    (addConstraint cn_exGrid ⟨1, false, false, [0, 1]⟩).thrown = true ∧
    (refineWithConstraint cn_exGrid ⟨1, false, false, [0, 1]⟩).thrown = false := by
  refine ⟨⟨by decide, by decide, (fun h => by cases h), (fun h => by cases h)⟩,
    ⟨by decide, by decide, (fun h => by cases h), (fun h => by cases h)⟩, by decide, by decide, by decide⟩

end PPLV.Lattice.GO
