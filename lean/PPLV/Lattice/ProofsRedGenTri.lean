import PPLV.Lattice.ProofsRedGenLoop

/-!
# The output of `Grid::simplify(Grid_Generator_System&)` passes `upper_triangular` (Grid_conversion.cc:75)

`Tri` (Prop level, `ProofsRedGenRR.lean`) implies the Boolean check `upperTriangular` of `Convert.lean`.
Concrete instances at the end.
-/
namespace PPLV.Lattice.Red
open PPLV.Lattice

theorem allZeroes_of (x : Row) (s e : Nat) (h : ∀ i, s ≤ i → i < e → get x i = 0) : allZeroes x s e = true := by
  unfold allZeroes
  rw [List.all_eq_true]
  intro i _
  by_cases hc : s ≤ i ∧ i < e
  · simp [hc, h i hc.1 hc.2]
  · simp [hc]

/-- the loop of `upper_triangular`, started at row count `p` with the dimensions `d-1, …, 0` to go -/
def utFold (sys : List GRow) (dk : List Nat) (d p : Nat) : Nat × Bool :=
  (dimsDown d).foldl (fun (st : Nat × Bool) dim =>
      if !st.2 then st
      else if kind dk dim = GEN_VIRTUAL then st
      else if st.1 = 0 then (0, false)
      else
        let gen := rowAt sys (st.1 - 1)
        if get gen.e dim ≤ 0 then (st.1 - 1, false)
        else if !allZeroes gen.e 0 dim then (st.1 - 1, false)
        else (st.1 - 1, true)) (p, true)

theorem upperTriangular_eq (n : Nat) (sys : List GRow) (dk : List Nat) :
    upperTriangular n sys dk =
      if sys.length > n + 1 then false
      else ((utFold sys dk (n + 1) sys.length).2 && (utFold sys dk (n + 1) sys.length).1 == 0) := rfl

theorem dimsDown_succ (d : Nat) : dimsDown (d + 1) = d :: dimsDown d := by
  simp [dimsDown, List.range_succ]

theorem utFold_of_tri {sys : List GRow} {dk : List Nat} : ∀ d p, Tri dk sys d p → utFold sys dk d p = (0, true) := by
  intro d
  induction d with
  | zero =>
    intro p h
    have : p = 0 := h
    rw [this]; rfl
  | succ d ih =>
    intro p h
    unfold utFold
    rw [dimsDown_succ, List.foldl_cons]
    by_cases hv : kind dk d = GEN_VIRTUAL
    · have e := ih p ((Tri_virt hv).mp h)
      unfold utFold at e
      simpa [hv] using e
    · obtain ⟨hp, ⟨_, k2, k3⟩, ht⟩ := (Tri_real hv).mp h
      have e := ih (p - 1) ht
      unfold utFold at e
      have hp' : p ≠ 0 := by omega
      have hz : allZeroes (rowAt sys (p - 1)).e 0 d = true := allZeroes_of _ _ _ (fun i _ hi => k3 i hi)
      have hpos : ¬ get (rowAt sys (p - 1)).e d ≤ 0 := by omega
      simpa [hv, hp', hz, hpos] using e

/-- the Boolean `upper_triangular` check follows from the Prop-level triangular form -/
theorem upperTriangular_of_tri (n : Nat) (sys : List GRow) (dk : List Nat) (h : Tri dk sys (n + 1) sys.length) :
    upperTriangular n sys dk = true := by
  rw [upperTriangular_eq, if_neg (by have := Tri_le _ _ h; omega), utFold_of_tri _ _ h]
  rfl

/-- **the output of `Grid::simplify` passes `upper_triangular`** -/
theorem simplifyGens_triangular (n : Nat) (rows : List GRow) (dk : List Nat) (hwf : GWf n rows) :
    upperTriangular n (simplifyGens n rows dk).1 (simplifyGens n rows dk).2 = true :=
  upperTriangular_of_tri n _ _ (simplifyGens_tri n rows dk hwf)

/-! ### concrete instances -/

/-- the point `(1/2, 0)`, the line `(1, 1)` and the parameter `(3/2, 0)` (divisor 2) in dimension 2 -/
def exGRows : List GRow :=
  [{ line := false, e := [2, 1, 0, 0] }, { line := true, e := [0, 1, 1, 0] }, { line := false, e := [0, 3, 0, 2] }]

theorem exRows_wf : GWf 2 exGRows := by
  intro r hr
  simp only [exGRows, List.mem_cons, List.not_mem_nil, or_false] at hr
  rcases hr with rfl | rfl | rfl <;> rfl

/-- what the model computes on the instance: the line is used to clear column 1 of the point and of the parameter -/
example : simplifyGens 2 exGRows [] =
    ([{ line := false, e := [2, 0, -1, 0] }, { line := true, e := [0, 1, 1, 0] }, { line := false, e := [0, 0, 3, 2] }],
      [PARAMETER, LINE, PARAMETER]) := by decide

example : ∃ k : Int, 0 < k ∧ ∀ v, Hom 2 exGRows v ↔ Hom 2 (simplifyGens 2 exGRows []).1 ((k : Rat) • v) :=
  simplifyGens_preserves 2 exGRows [] exRows_wf

example : upperTriangular 2 (simplifyGens 2 exGRows []).1 (simplifyGens 2 exGRows []).2 = true :=
  simplifyGens_triangular 2 exGRows [] exRows_wf

example : Tri (simplifyGens 2 exGRows []).2 (simplifyGens 2 exGRows []).1 3 (simplifyGens 2 exGRows []).1.length :=
  simplifyGens_tri 2 exGRows [] exRows_wf

/-- a one-dimensional instance in which `reduce_parameter_with_line` scales (pivot entry 2, row entry 3) -/
def exRows1 : List GRow :=
  [{ line := false, e := [1, 0, 0] }, { line := true, e := [0, 2, 0] }, { line := false, e := [0, 3, 1] }]

theorem exRows1_wf : GWf 1 exRows1 := by
  intro r hr
  simp only [exRows1, List.mem_cons, List.not_mem_nil, or_false] at hr
  rcases hr with rfl | rfl | rfl <;> rfl

/-- the point is scaled by 2, the parameter `3` is absorbed by the line and its zero row is clipped -/
example : simplifyGens 1 exRows1 [] =
    ([{ line := false, e := [2, 0, 0] }, { line := true, e := [0, 2, 0] }], [PARAMETER, LINE]) := by decide

example : ∃ k : Int, 0 < k ∧ ∀ v, Hom 1 exRows1 v ↔ Hom 1 (simplifyGens 1 exRows1 []).1 ((k : Rat) • v) :=
  simplifyGens_preserves 1 exRows1 [] exRows1_wf

example : upperTriangular 1 (simplifyGens 1 exRows1 []).1 (simplifyGens 1 exRows1 []).2 = true :=
  simplifyGens_triangular 1 exRows1 [] exRows1_wf

/-- a step lemma on the same instance: `reduce_parameter_with_line(rows[2], rows[1], 1, rows, 3)` (general
    branch, multiplier 2) -/
example : HomSim 1 exRows1 (reduceParameterWithLine exRows1 2 1 1 (1 + 1 + 1)) :=
  reduceParameterWithLine_homSim (n := 1) (p := 1) (dim := 1) (ri := 2) (by decide) (by decide) (by decide)
    (by decide) (wfI_of_gwf exRows1_wf)
    (by
      intro i h1 h2 c hc
      have hc0 : c = 0 := by omega
      subst hc0
      have h3 : i < 3 := h2
      have : i = 1 ∨ i = 2 := by omega
      rcases this with rfl | rfl <;> rfl)
    (by decide) (by decide) (by decide) (by decide)

end PPLV.Lattice.Red
