import PPLV.Lattice.ProofsGridOpsGen5

/-!
# Generator side of the `Grid` object, part 6 — `Grid::unconstrain(var)`, `Grid::unconstrain(vars)` (Grid_public.cc:1473, :1495)

`hEG : EnsureGeneratorsSpec` (the lazy machinery, proved by the `lz_` worker) is an explicit hypothesis.
-/
namespace PPLV.Lattice.GO
open PPLV.Lattice PPLV.Lattice.Red

/-- `marked_empty() || !(generators_are_up_to_date() || update_generators())` as the generator-side mutators start:
    the state afterwards and "the grid is not empty" -/
def gn_ens (g : Grid) : Grid × Bool := if g.markedEmpty then (g, false) else ensureGenerators g

theorem gn_ens_spec (hEG : EnsureGeneratorsSpec) (g : Grid) (hI : GridInv g) (hn : 0 < g.spaceDim) :
    GridInv (gn_ens g).1 ∧ (gn_ens g).1.sem = g.sem ∧ (gn_ens g).1.spaceDim = g.spaceDim ∧
    ((gn_ens g).2 = true ↔ (g.sem).Nonempty) ∧
    ((gn_ens g).2 = true → (gn_ens g).1.st.empty = false ∧ (gn_ens g).1.st.gUp = true) ∧
    ((gn_ens g).2 = false → (gn_ens g).1.st.empty = true) := by
  unfold gn_ens
  cases he : g.markedEmpty with
  | true =>
    have he' : g.st.empty = true := he
    rw [if_pos rfl]
    refine ⟨hI, rfl, rfl, ?_, ?_, fun _ => he'⟩
    · rw [gn_sem_of_empty he']; simp
    · intro h; cases h
  | false =>
    have he' : g.st.empty = false := he
    rw [if_neg (by simp)]
    exact hEG g hI he' hn

/-- the non-empty outcome of `gn_ens`: an up-to-date, well-formed, normalised generator system for the same grid -/
theorem gn_ens_true (hEG : EnsureGeneratorsSpec) (g : Grid) (hI : GridInv g) (hn : 0 < g.spaceDim)
    (h2 : (gn_ens g).2 = true) :
    GridInv (gn_ens g).1 ∧ (gn_ens g).1.spaceDim = g.spaceDim ∧ (gn_ens g).1.st.empty = false ∧
    (gn_ens g).1.st.gUp = true ∧ (gn_ens g).1.st.hi = 0 ∧ (gn_ens g).1.genDim = g.spaceDim ∧
    GWf g.spaceDim (gn_ens g).1.gen ∧ GNorm g.spaceDim (firstPointDiv (gn_ens g).1.gen) (gn_ens g).1.gen ∧
    gn_set (gn_ens g).1.gen = g.sem := by
  obtain ⟨a, b, c, _, e, _⟩ := gn_ens_spec hEG g hI hn
  obtain ⟨e1, e2⟩ := e h2
  obtain ⟨p, q, r, s⟩ := gn_sem_of_gUp a (by rw [c]; exact hn) e1 e2
  rw [c] at p q r
  exact ⟨a, c, e1, e2, a.hi0 e1, p, q, r, by rw [← s, b]⟩

/-- the empty outcome -/
theorem gn_ens_false (hEG : EnsureGeneratorsSpec) (g : Grid) (hI : GridInv g) (hn : 0 < g.spaceDim)
    (h2 : (gn_ens g).2 = false) :
    GridInv (gn_ens g).1 ∧ (gn_ens g).1.spaceDim = g.spaceDim ∧ (gn_ens g).1.st.empty = true ∧
      (gn_ens g).1.sem = ∅ ∧ g.sem = ∅ := by
  obtain ⟨a, b, c, d, _, f⟩ := gn_ens_spec hEG g hI hn
  have hg : g.sem = ∅ := by
    rw [← Set.not_nonempty_iff_eq_empty, ← d, h2]; simp
  exact ⟨a, c, f h2, by rw [b, hg], hg⟩

/-! ### `unconstrain(var)` -/

theorem gn_unconstrainVar_eq (g : Grid) (v : Nat) (hv : v < g.spaceDim) : unconstrainVar g v =
    if (gn_ens g).2 = false then { g := (gn_ens g).1 }
    else { g := (((gn_ens g).1.withGs ((gn_ens g).1.gs.sysInsert (gridLineVar v))).clearCongruencesUpToDate).clearGeneratorsMinimized } := by
  unfold unconstrainVar
  rw [if_neg (by omega)]
  show (if (!(gn_ens g).2) = true then _ else _) = _
  cases (gn_ens g).2 <;> rfl

/-- the line `grid_line(Variable(v))` resized to dimension `n` -/
theorem gn_lineVar_sem {v n : Nat} (hv : v < n) :
    ((gridLineVar v).setSpaceDim n).line = true ∧ ((gridLineVar v).setSpaceDim n).e.length = n + 2 ∧
      get ((gridLineVar v).setSpaceDim n).e 0 = 0 ∧ gn_vecOf ((gridLineVar v).setSpaceDim n) = (unit v).toFun := by
  obtain ⟨a, b, c, _, d⟩ := gn_setSpaceDim_sem (gn_gridLineVar_len v) (show v + 1 ≤ n by omega)
  refine ⟨by rw [a]; rfl, b, by rw [c, gn_gridLineVar_get]; simp, by rw [d, gn_gridLineVar_vecOf]⟩

/-- **`Grid::unconstrain(var)`**: the invariant is kept, nothing is thrown, the result is the cylinder over the grid in
    direction `var`; an empty grid stays empty (`g.sem = ∅` makes the right-hand side empty) -/
theorem gn_unconstrainVar (hEG : EnsureGeneratorsSpec) (g : Grid) (hI : GridInv g) (v : Nat) (hv : v < g.spaceDim) :
    GridInv (unconstrainVar g v).g ∧ (unconstrainVar g v).thrown = false ∧
    (unconstrainVar g v).g.spaceDim = g.spaceDim ∧
    (unconstrainVar g v).g.sem = {y | ∃ x ∈ g.sem, ∃ c : ℚ, y = x + c • (unit v).toFun} := by
  have hn : 0 < g.spaceDim := by omega
  rw [gn_unconstrainVar_eq g v hv]
  cases h2 : (gn_ens g).2 with
  | false =>
    obtain ⟨a, b, _, d, e⟩ := gn_ens_false hEG g hI hn h2
    rw [if_pos rfl]
    refine ⟨a, rfl, b, ?_⟩
    show (gn_ens g).1.sem = _
    rw [d, e]; ext y; simp
  | true =>
    obtain ⟨a, b, c, d, e, f, hw, hN, hs⟩ := gn_ens_true hEG g hI hn h2
    rw [if_neg (by simp)]
    have hins : (gn_ens g).1.gs.sysInsert (gridLineVar v) =
        { dim := (gn_ens g).1.genDim, rows := (gn_ens g).1.gen ++ [(gridLineVar v).setSpaceDim g.spaceDim] } := by
      rw [gn_sysInsert _ _ (by
        show (gridLineVar v).spaceDim ≤ (gn_ens g).1.genDim
        rw [f, gn_spaceDim_of_len (gn_gridLineVar_len v)]; omega)]
      show GSys.mk (gn_ens g).1.genDim ((gn_ens g).1.gen ++ [(gridLineVar v).setSpaceDim (gn_ens g).1.genDim]) = _
      rw [f]
    rw [hins]
    obtain ⟨l1, l2, l3, l4⟩ := gn_lineVar_sem hv
    have hN' : GNorm g.spaceDim (firstPointDiv (gn_ens g).1.gen)
        ((gn_ens g).1.gen ++ [(gridLineVar v).setSpaceDim g.spaceDim]) := by
      refine gn_gnorm_append hN ?_ ?_ ?_
      · intro r hr hl; rw [List.mem_singleton.mp hr, l1] at hl; cases hl
      · intro r hr hl; rw [List.mem_singleton.mp hr, l1] at hl; cases hl
      · intro r hr _; rw [List.mem_singleton.mp hr]; exact l3
    have hw' : GWf g.spaceDim ((gn_ens g).1.gen ++ [(gridLineVar v).setSpaceDim g.spaceDim]) :=
      gn_gwf_append hw (fun r hr => by rw [List.mem_singleton.mp hr]; exact l2)
    have key := gn_inv_gens
      (g := ((((gn_ens g).1.withGs
          { dim := (gn_ens g).1.genDim, rows := (gn_ens g).1.gen ++ [(gridLineVar v).setSpaceDim g.spaceDim] }
          ).clearCongruencesUpToDate).clearGeneratorsMinimized))
      (by show 0 < (gn_ens g).1.spaceDim; rw [b]; exact hn) c rfl d rfl rfl e
      (by show (gn_ens g).1.genDim = (gn_ens g).1.spaceDim; rw [f, b])
      (by show GWf (gn_ens g).1.spaceDim _; rw [b]; exact hw')
      (D := firstPointDiv (gn_ens g).1.gen) (by show GNorm (gn_ens g).1.spaceDim _ _; rw [b]; exact hN')
    refine ⟨key.1, rfl, b, ?_⟩
    rw [key.2]
    show gn_set ((gn_ens g).1.gen ++ [(gridLineVar v).setSpaceDim g.spaceDim]) = _
    rw [gn_set_append_line _ _ l1, l4, hs]

/-- the hypotheses are satisfiable: a one-dimensional grid held by its generators (the point 0), `v = 0` -/
example : GridInv
    { spaceDim := 1, st := { gUp := true }, conDim := 1, con := [], genDim := 1, gen := [⟨false, [1, 0, 0]⟩], dk := [] } ∧
    (0 : Nat) < 1 :=
  ⟨(gn_inv_gens (D := 1) (by decide) rfl rfl rfl rfl rfl rfl rfl
      (by intro r hr; rw [List.mem_singleton.mp hr]; rfl)
      ⟨by decide, ⟨_, List.mem_singleton.mpr rfl, rfl, rfl⟩, by decide, by decide, by decide⟩).1, by decide⟩

/-! ### `unconstrain(vars)` -/

/-- the cylinder over `S` in the directions `vars` (one variable after the other) -/
def gn_cyl (S : Set Pt) (vars : List Nat) : Set Pt :=
  vars.foldl (fun S v => {y | ∃ x ∈ S, ∃ c : ℚ, y = x + c • (unit v).toFun}) S

theorem gn_cyl_empty : ∀ vars : List Nat, gn_cyl ∅ vars = ∅
  | [] => rfl
  | v :: vs => by
    show gn_cyl {y | ∃ x ∈ (∅ : Set Pt), ∃ c : ℚ, y = x + c • (unit v).toFun} vs = ∅
    have : {y | ∃ x ∈ (∅ : Set Pt), ∃ c : ℚ, y = x + c • (unit v).toFun} = (∅ : Set Pt) := by ext y; simp
    rw [this]; exact gn_cyl_empty vs

theorem gn_foldl_max_le {n : Nat} : ∀ (vars : List Nat) (m : Nat), m ≤ n → (∀ v ∈ vars, v < n) →
    vars.foldl (fun m v => max m (v + 1)) m ≤ n
  | [], m, hm, _ => hm
  | v :: vs, m, hm, h => by
    rw [List.foldl_cons]
    refine gn_foldl_max_le vs _ ?_ (fun w hw => h w (List.mem_cons_of_mem _ hw))
    have := h v (by simp); omega

theorem gn_foldl_lineVars {n : Nat} {D : Int} : ∀ (vars : List Nat) (rows : List GRow), (∀ v ∈ vars, v < n) →
    GWf n rows → GNorm n D rows →
    ∃ rows', vars.foldl (fun s v => s.sysInsert (gridLineVar v)) (GSys.mk n rows) = GSys.mk n rows' ∧
      GWf n rows' ∧ GNorm n D rows' ∧ gn_set rows' = gn_cyl (gn_set rows) vars
  | [], rows, _, hw, hN => ⟨rows, rfl, hw, hN, rfl⟩
  | v :: vs, rows, h, hw, hN => by
    have hv := h v (by simp)
    obtain ⟨l1, l2, l3, l4⟩ := gn_lineVar_sem hv
    have hN' : GNorm n D (rows ++ [(gridLineVar v).setSpaceDim n]) := by
      refine gn_gnorm_append hN ?_ ?_ ?_
      · intro r hr hl; rw [List.mem_singleton.mp hr, l1] at hl; cases hl
      · intro r hr hl; rw [List.mem_singleton.mp hr, l1] at hl; cases hl
      · intro r hr _; rw [List.mem_singleton.mp hr]; exact l3
    have hw' : GWf n (rows ++ [(gridLineVar v).setSpaceDim n]) :=
      gn_gwf_append hw (fun r hr => by rw [List.mem_singleton.mp hr]; exact l2)
    obtain ⟨rows', e, a, b, c⟩ := gn_foldl_lineVars vs _ (fun w hw => h w (List.mem_cons_of_mem _ hw)) hw' hN'
    refine ⟨rows', ?_, a, b, ?_⟩
    · rw [List.foldl_cons, gn_sysInsert _ _ (by
        show (gridLineVar v).spaceDim ≤ n
        rw [gn_spaceDim_of_len (gn_gridLineVar_len v)]; omega)]
      exact e
    · rw [c, gn_set_append_line _ _ l1, l4]; rfl

/-- **`Grid::unconstrain(vars)`** for variables of the space: the cylinder over the grid in the directions `vars` -/
theorem gn_unconstrainSet (hEG : EnsureGeneratorsSpec) (g : Grid) (hI : GridInv g) (vars : List Nat)
    (hv : ∀ v ∈ vars, v < g.spaceDim) :
    GridInv (unconstrainSet g vars).g ∧ (unconstrainSet g vars).thrown = false ∧
    (unconstrainSet g vars).g.spaceDim = g.spaceDim ∧ (unconstrainSet g vars).g.sem = gn_cyl g.sem vars := by
  cases vars with
  | nil => exact ⟨hI, rfl, rfl, rfl⟩
  | cons v0 vs =>
  have hn : 0 < g.spaceDim := by have := hv v0 (by simp); omega
  have e : unconstrainSet g (v0 :: vs) =
      if (gn_ens g).2 = false then { g := (gn_ens g).1 }
      else { g := (((gn_ens g).1.withGs ((v0 :: vs).foldl (fun s v => s.sysInsert (gridLineVar v))
              (gn_ens g).1.gs)).clearGeneratorsMinimized).clearCongruencesUpToDate } := by
    unfold unconstrainSet
    rw [if_neg (by simp), if_neg (by have := gn_foldl_max_le (v0 :: vs) 0 (Nat.zero_le _) hv; omega)]
    show (if (!(gn_ens g).2) = true then _ else _) = _
    cases (gn_ens g).2 <;> rfl
  rw [e]
  cases h2 : (gn_ens g).2 with
  | false =>
    obtain ⟨a, b, _, d, e'⟩ := gn_ens_false hEG g hI hn h2
    rw [if_pos rfl]
    refine ⟨a, rfl, b, ?_⟩
    show (gn_ens g).1.sem = _
    rw [d, e', gn_cyl_empty]
  | true =>
    obtain ⟨a, b, c, d, e', f, hw, hN, hs⟩ := gn_ens_true hEG g hI hn h2
    rw [if_neg (by simp)]
    obtain ⟨rows', e1, a1, b1, c1⟩ := gn_foldl_lineVars (v0 :: vs) _ hv hw hN
    have hgs : (gn_ens g).1.gs = GSys.mk g.spaceDim (gn_ens g).1.gen := by
      show GSys.mk (gn_ens g).1.genDim (gn_ens g).1.gen = _
      rw [f]
    rw [hgs, e1]
    have key := gn_inv_gens
      (g := ((((gn_ens g).1.withGs (GSys.mk g.spaceDim rows')).clearGeneratorsMinimized).clearCongruencesUpToDate))
      (by show 0 < (gn_ens g).1.spaceDim; rw [b]; exact hn) c rfl d rfl rfl e'
      (by show g.spaceDim = (gn_ens g).1.spaceDim; rw [b])
      (by show GWf (gn_ens g).1.spaceDim rows'; rw [b]; exact a1)
      (D := firstPointDiv (gn_ens g).1.gen) (by show GNorm (gn_ens g).1.spaceDim _ rows'; rw [b]; exact b1)
    refine ⟨key.1, rfl, b, ?_⟩
    rw [key.2]
    show gn_set rows' = _
    rw [c1, hs]

end PPLV.Lattice.GO
