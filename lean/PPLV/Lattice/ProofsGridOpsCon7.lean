import PPLV.Lattice.ProofsGridOpsCon6

/-!
# `Grid` stage 3, congruence-side mutators, part 7: `add_constraints(cs)`, `refine_with_constraints(cs)` — the loops
-/
namespace PPLV.Lattice.GO
open PPLV.Lattice PPLV.Lattice.Red

/-- the points that satisfy every constraint of a list -/
def cn_consSetL (cs : List Con) : Set Pt := {x | ∀ c ∈ cs, x ∈ cn_conSet c}

theorem cn_consSetL_nil : cn_consSetL [] = Set.univ := by ext x; simp [cn_consSetL]
theorem cn_consSetL_cons (c : Con) (cs : List Con) : cn_consSetL (c :: cs) = cn_conSet c ∩ cn_consSetL cs := by
  ext x; simp [cn_consSetL]

theorem cn_addConstraintsLoop_cons (g : Grid) (c : Con) (cs : List Con) :
    addConstraintsLoop g (c :: cs) =
      if (addConstraintNoCheck g c).thrown = true then addConstraintNoCheck g c
      else if (addConstraintNoCheck g c).g.markedEmpty = true then addConstraintNoCheck g c
      else addConstraintsLoop (addConstraintNoCheck g c).g cs := rfl

/-- (before 7218b6b the call applied the prefix and then threw; now `add_constraints` validates the whole system first, so
    the throwing branch of the loop is unreachable from it)
    the loop of `add_constraints` on a grid that is not marked empty: without a throw the grid is cut by every
    constraint (the loop stops early on a grid that became empty); a throw happens at the first non-trivial inequality
    `c`, and the object has then been cut by the constraints before `c` -/
theorem cn_addConstraintsLoop (hUC : UpdateCongruencesSpec) (cs : List Con) :
    ∀ g : Grid, GridInv g → g.st.empty = false → (∀ c ∈ cs, cn_ConOK g.spaceDim g.sem c) →
    GridInv (addConstraintsLoop g cs).g ∧ (addConstraintsLoop g cs).g.spaceDim = g.spaceDim ∧
    ((addConstraintsLoop g cs).thrown = false → (addConstraintsLoop g cs).g.sem = g.sem ∩ cn_consSetL cs) ∧
    ((addConstraintsLoop g cs).thrown = true → ∃ pre c post, cs = pre ++ c :: post ∧ cn_hardIneq c = true ∧
        (addConstraintsLoop g cs).g.sem = g.sem ∩ cn_consSetL pre) ∧
    ((∀ c ∈ cs, cn_hardIneq c = false) → (addConstraintsLoop g cs).thrown = false) := by
  induction cs with
  | nil =>
    intro g hI _ _
    exact ⟨hI, rfl, fun _ => by rw [cn_consSetL_nil, Set.inter_univ]; rfl, (fun h => by cases h), fun _ => rfl⟩
  | cons c cs ih =>
    intro g hI hne hok
    obtain ⟨h1, h2, h3, h4, h5⟩ := cn_addConstraintNoCheck hUC g c hI hne (hok c (List.mem_cons_self ..))
    rw [cn_addConstraintsLoop_cons]
    by_cases hthr : (addConstraintNoCheck g c).thrown = true
    · rw [if_pos hthr]
      refine ⟨h3, h4, (fun h => by rw [hthr] at h; cases h), fun _ => ⟨[], c, cs, rfl, h1.mp hthr, ?_⟩, fun hall => ?_⟩
      · rw [h2 hthr, cn_consSetL_nil, Set.inter_univ]
      · have := hall c (List.mem_cons_self ..)
        rw [h1.mp hthr] at this; cases this
    · have hnt : (addConstraintNoCheck g c).thrown = false := by simpa using hthr
      have hsem := h5 hnt
      rw [if_neg hthr]
      by_cases hme : (addConstraintNoCheck g c).g.markedEmpty = true
      · rw [if_pos hme]
        refine ⟨h3, h4, fun _ => ?_, (fun h => by rw [hnt] at h; cases h), fun _ => hnt⟩
        have he0 : (addConstraintNoCheck g c).g.sem = ∅ := cn_sem_empty _ hme
        rw [he0, cn_consSetL_cons, ← Set.inter_assoc, ← hsem, he0, Set.empty_inter]
      · rw [if_neg hme]
        have hne1 : (addConstraintNoCheck g c).g.st.empty = false := by simpa [Grid.markedEmpty] using hme
        have hsub : (addConstraintNoCheck g c).g.sem ⊆ g.sem := by rw [hsem]; exact Set.inter_subset_left
        obtain ⟨i1, i2, i3, i4, i5⟩ := ih (addConstraintNoCheck g c).g h3 hne1 (fun c' hc' => by
          rw [h4]; exact cn_ConOK_mono _ _ _ _ hsub (hok c' (List.mem_cons_of_mem _ hc')))
        refine ⟨i1, i2.trans h4, fun h => ?_, fun h => ?_, fun hall => i5 (fun c' hc' => hall c' (List.mem_cons_of_mem _ hc'))⟩
        · rw [i3 h, hsem, cn_consSetL_cons, Set.inter_assoc]
        · obtain ⟨pre, c', post, hcs, hh, hs⟩ := i4 h
          exact ⟨c :: pre, c', post, by rw [hcs]; rfl, hh, by rw [hs, hsem, cn_consSetL_cons, Set.inter_assoc]⟩

/-- `add_constraint_no_check` throws exactly on a non-trivial inequality (control flow only) -/
theorem cn_noCheck_thrown_iff (g : Grid) (c : Con) : (addConstraintNoCheck g c).thrown = true ↔ cn_hardIneq c = true := by
  unfold addConstraintNoCheck cn_hardIneq
  cases c.isEquality <;> cases c.inconsistent <;> cases c.tautological <;> simp

theorem cn_loop_not_thrown (cs : List Con) (h : ∀ c ∈ cs, cn_hardIneq c = false) :
    ∀ g : Grid, (addConstraintsLoop g cs).thrown = false := by
  induction cs with
  | nil => intro g; rfl
  | cons c cs ih =>
    intro g
    rw [cn_addConstraintsLoop_cons]
    have hnt : ¬ (addConstraintNoCheck g c).thrown = true := fun ht => by
      have := (cn_noCheck_thrown_iff g c).mp ht
      rw [h c (List.mem_cons_self ..)] at this; cases this
    rw [if_neg hnt]
    split
    · simpa using hnt
    · exact ih (fun c' hc' => h c' (List.mem_cons_of_mem _ hc')) _

theorem cn_any_hard_iff (cs : List Con) : cs.any Con.isHardInequality = true ↔ ∃ c ∈ cs, cn_hardIneq c = true := by
  rw [List.any_eq_true]; rfl

/-- Grid_public.cc:1266 `add_constraints(cs)` (after 7218b6b): a rejected call leaves the object unchanged — a fact about
    the control flow only -/
theorem cn_addConstraints_rejected_unchanged (g : Grid) (csDim : Nat) (cs : List Con)
    (h : (addConstraints g csDim cs).thrown = true) : (addConstraints g csDim cs).g = g := by
  unfold addConstraints at h ⊢
  by_cases hd : g.spaceDim < csDim
  · rw [if_pos hd]
  · rw [if_neg hd] at h ⊢
    by_cases hh : cs.any Con.isHardInequality = true
    · rw [if_pos hh]
    · rw [if_neg hh] at h ⊢
      by_cases hm : g.markedEmpty = true
      · rw [if_pos hm]
      · rw [if_neg hm] at h
        have hall : ∀ c ∈ cs, cn_hardIneq c = false := fun c hc => by
          by_contra hc'
          exact hh ((cn_any_hard_iff cs).mpr ⟨c, hc, by simpa using hc'⟩)
        rw [cn_loop_not_thrown cs hall g] at h; cases h

/-- Grid_public.cc:1266 `add_constraints(cs)` (after 7218b6b): throws exactly on a dimension mismatch or when the system
    holds a non-trivial inequality, and then the object is unchanged; otherwise the grid is cut by every constraint -/
theorem cn_addConstraints (hUC : UpdateCongruencesSpec) (g : Grid) (csDim : Nat) (cs : List Con) (hI : GridInv g)
    (hok : csDim ≤ g.spaceDim → ∀ c ∈ cs, cn_ConOK g.spaceDim g.sem c) :
    ((addConstraints g csDim cs).thrown = true ↔ (g.spaceDim < csDim ∨ ∃ c ∈ cs, cn_hardIneq c = true)) ∧
    ((addConstraints g csDim cs).thrown = true → (addConstraints g csDim cs).g = g) ∧
    (g.st.empty = true → (addConstraints g csDim cs).g = g) ∧
    GridInv (addConstraints g csDim cs).g ∧ (addConstraints g csDim cs).g.spaceDim = g.spaceDim ∧
    ((addConstraints g csDim cs).thrown = false → (addConstraints g csDim cs).g.sem = g.sem ∩ cn_consSetL cs) := by
  refine ⟨?_, cn_addConstraints_rejected_unchanged g csDim cs, ?_⟩
  · unfold addConstraints
    by_cases hd : g.spaceDim < csDim
    · rw [if_pos hd]; exact ⟨fun _ => Or.inl hd, fun _ => rfl⟩
    · rw [if_neg hd]
      by_cases hh : cs.any Con.isHardInequality = true
      · rw [if_pos hh]; exact ⟨fun _ => Or.inr ((cn_any_hard_iff cs).mp hh), fun _ => rfl⟩
      · rw [if_neg hh]
        have hall : ∀ c ∈ cs, cn_hardIneq c = false := fun c hc => by
          by_contra hc'
          exact hh ((cn_any_hard_iff cs).mpr ⟨c, hc, by simpa using hc'⟩)
        have hnot : ¬ (g.spaceDim < csDim ∨ ∃ c ∈ cs, cn_hardIneq c = true) := by
          rintro (h | ⟨c, hc, h⟩)
          · exact hd h
          · rw [hall c hc] at h; cases h
        by_cases hm : g.markedEmpty = true
        · rw [if_pos hm]; exact ⟨(fun h => by cases h), fun h => absurd h hnot⟩
        · rw [if_neg hm, cn_loop_not_thrown cs hall g]; exact ⟨(fun h => by cases h), fun h => absurd h hnot⟩
  · unfold addConstraints
    by_cases hd : g.spaceDim < csDim
    · rw [if_pos hd]; exact ⟨fun _ => rfl, hI, rfl, (fun h => by cases h)⟩
    · rw [if_neg hd]
      by_cases hh : cs.any Con.isHardInequality = true
      · rw [if_pos hh]; exact ⟨fun _ => rfl, hI, rfl, (fun h => by cases h)⟩
      · rw [if_neg hh]
        by_cases hemp : g.st.empty = true
        · rw [if_pos (show g.markedEmpty = true from hemp)]
          refine ⟨fun _ => rfl, hI, rfl, fun _ => ?_⟩
          rw [cn_sem_empty g hemp, Set.empty_inter]
        · have hne : g.st.empty = false := by simpa using hemp
          rw [if_neg (show ¬ (g.markedEmpty = true) from hemp)]
          obtain ⟨h1, h2, h3, _, _⟩ := cn_addConstraintsLoop hUC cs g hI hne (hok (by omega))
          exact ⟨fun h => absurd h hemp, h1, h2, h3⟩

/-! ### `refine_with_constraints` -/

theorem cn_refineLoop_cons (g : Grid) (c : Con) (cs : List Con) :
    refineWithConstraintsLoop g (c :: cs) =
      if g.markedEmpty = true then g else refineWithConstraintsLoop (refineNoCheck g c) cs := rfl

/-- the loop of `refine_with_constraints`: the grid is cut by the equalities and the inconsistent inequalities, the
    other inequalities are ignored -/
theorem cn_refineLoop (hUC : UpdateCongruencesSpec) (cs : List Con) :
    ∀ g : Grid, GridInv g → (∀ c ∈ cs, cn_ConOK g.spaceDim g.sem c) →
    GridInv (refineWithConstraintsLoop g cs) ∧ (refineWithConstraintsLoop g cs).spaceDim = g.spaceDim ∧
    (refineWithConstraintsLoop g cs).sem = g.sem ∩ cn_consSetL (cs.filter cn_eff) := by
  induction cs with
  | nil =>
    intro g hI _
    exact ⟨hI, rfl, by rw [List.filter_nil, cn_consSetL_nil, Set.inter_univ]; rfl⟩
  | cons c cs ih =>
    intro g hI hok
    rw [cn_refineLoop_cons]
    by_cases hemp : g.st.empty = true
    · have : g.markedEmpty = true := hemp
      rw [if_pos this]
      exact ⟨hI, rfl, by rw [cn_sem_empty g hemp, Set.empty_inter]⟩
    · have hne : g.st.empty = false := by simpa using hemp
      have : ¬ (g.markedEmpty = true) := hemp
      rw [if_neg this]
      obtain ⟨h1, h2, h3, h4, _⟩ := cn_refineNoCheck hUC g c hI hne (hok c (List.mem_cons_self ..))
      have hsub : (refineNoCheck g c).sem ⊆ g.sem := by
        by_cases he : cn_eff c = true
        · rw [h3 he]; exact Set.inter_subset_left
        · rw [h4 (by simpa using he)]
      obtain ⟨i1, i2, i3⟩ := ih (refineNoCheck g c) h1 (fun c' hc' => by
        rw [h2]; exact cn_ConOK_mono _ _ _ _ hsub (hok c' (List.mem_cons_of_mem _ hc')))
      refine ⟨i1, i2.trans h2, ?_⟩
      rw [i3]
      by_cases he : cn_eff c = true
      · rw [List.filter_cons_of_pos he, cn_consSetL_cons, h3 he, Set.inter_assoc]
      · rw [List.filter_cons_of_neg he, h4 (by simpa using he)]

/-- constraints whose set contains `S` can be dropped from an intersection with `S` -/
theorem cn_consSetL_filter (S : Set Pt) (cs : List Con) (p : Con → Bool)
    (h : ∀ c ∈ cs, p c = false → S ⊆ cn_conSet c) : S ∩ cn_consSetL (cs.filter p) = S ∩ cn_consSetL cs := by
  ext x
  simp only [Set.mem_inter_iff, cn_consSetL, Set.mem_ofPred_eq, List.mem_filter, and_imp]
  constructor
  · rintro ⟨hx, hall⟩
    refine ⟨hx, fun c hc => ?_⟩
    by_cases hp : p c = true
    · exact hall c hc hp
    · exact h c hc (by simpa using hp) hx
  · rintro ⟨hx, hall⟩; exact ⟨hx, fun c hc _ => hall c hc⟩

/-- Grid_public.cc:1460 `refine_with_constraints(cs)`: throws exactly on a dimension mismatch; the grid is cut by the
    equalities and the inconsistent inequalities — by all of `cs` when every other inequality is tautological -/
theorem cn_refineWithConstraints (hUC : UpdateCongruencesSpec) (g : Grid) (csDim : Nat) (cs : List Con) (hI : GridInv g)
    (hok : csDim ≤ g.spaceDim → ∀ c ∈ cs, cn_ConOK g.spaceDim g.sem c) :
    ((refineWithConstraints g csDim cs).thrown = true ↔ g.spaceDim < csDim) ∧
    ((refineWithConstraints g csDim cs).thrown = true → (refineWithConstraints g csDim cs).g = g) ∧
    GridInv (refineWithConstraints g csDim cs).g ∧ (refineWithConstraints g csDim cs).g.spaceDim = g.spaceDim ∧
    ((refineWithConstraints g csDim cs).thrown = false →
      (refineWithConstraints g csDim cs).g.sem = g.sem ∩ cn_consSetL (cs.filter cn_eff) ∧
      ((∀ c ∈ cs, cn_eff c = false → c.tautological = true) →
        (refineWithConstraints g csDim cs).g.sem = g.sem ∩ cn_consSetL cs)) := by
  unfold refineWithConstraints
  by_cases hd : g.spaceDim < csDim
  · rw [if_pos hd]
    exact ⟨⟨fun _ => hd, fun _ => rfl⟩, fun _ => rfl, hI, rfl, (fun h => by cases h)⟩
  · rw [if_neg hd]
    have hok' := hok (by omega)
    obtain ⟨h1, h2, h3⟩ := cn_refineLoop hUC cs g hI hok'
    refine ⟨⟨(fun h => by cases h), fun h => absurd h hd⟩, (fun h => by cases h), h1, h2, fun _ => ⟨h3, fun ht => ?_⟩⟩
    rw [h3]
    exact cn_consSetL_filter g.sem cs cn_eff (fun c hc he => (hok' c hc).2.2.2 (ht c hc he))

example : (addConstraints cn_exGrid 1 [⟨0, false, false, [-2, 1]⟩, ⟨1, false, true, [1]⟩]).thrown = false ∧
    (addConstraints cn_exGrid 1 [⟨1, false, false, [0, 1]⟩, ⟨0, false, false, [-1, 1]⟩]).thrown = true ∧
    (refineWithConstraints cn_exGrid 1 [⟨1, false, false, [0, 1]⟩, ⟨0, false, false, [-2, 1]⟩]).g.con =
      [{ e := [0, 1], m := 2 }, { e := [-2, 1], m := 0 }] := by decide

end PPLV.Lattice.GO
