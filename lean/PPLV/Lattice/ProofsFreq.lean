import PPLV.Lattice.ProofsOps

/-!
# K2: `frequency` — the values of a linear expression on a grid
-/
set_option linter.unusedSimpArgs false
namespace PPLV.Lattice
open List

/-- `r` is a value of `⟨e,x⟩ + b` on the grid -/
def IsValue (G : GridGens) (e : Vec) (b : Rat) (r : Rat) : Prop := ∃ x, Gen.sem G x ∧ r = dotF e x + b

/-! ### gcd of two rationals -/

theorem ratGcd_spec (r1 r2 : Rat) :
    0 ≤ ratGcd r1 r2 ∧ (∃ s t : Int, ratGcd r1 r2 = s * r1 + t * r2) ∧
    (∃ A : Int, r1 = A * ratGcd r1 r2) ∧ (∃ B : Int, r2 = B * ratGcd r1 r2) := by
  unfold ratGcd
  by_cases h1 : r1 = 0
  · simp only [h1, if_true]
    by_cases hn : r2 < 0
    · simp only [hn, if_true]
      exact ⟨by linarith, ⟨0, -1, by push_cast; ring⟩, ⟨0, by simp⟩, ⟨-1, by push_cast; ring⟩⟩
    · simp only [hn, if_false]
      exact ⟨by linarith, ⟨0, 1, by push_cast; ring⟩, ⟨0, by simp⟩, ⟨1, by push_cast; ring⟩⟩
  · simp only [h1, if_false]
    by_cases h2 : r2 = 0
    · simp only [h2, if_true]
      by_cases hn : r1 < 0
      · simp only [hn, if_true]
        exact ⟨by linarith, ⟨-1, 0, by push_cast; ring⟩, ⟨-1, by push_cast; ring⟩, ⟨0, by simp⟩⟩
      · simp only [hn, if_false]
        exact ⟨by linarith, ⟨1, 0, by push_cast; ring⟩, ⟨1, by push_cast; ring⟩, ⟨0, by simp⟩⟩
    · simp only [h2, if_false]
      obtain ⟨hu, hv, hdet⟩ := combineCoef_spec r1 r2 h1
      set k := combineCoef r1 r2
      set g := (k.1 : Rat) * r1 + (k.2.1 : Rat) * r2 with hg
      -- r1 = d g, r2 = -c g
      have e1 : r1 = (k.2.2.2 : Rat) * g := by
        rw [hg]; linear_combination (-r1) * hdet - (k.2.1 : Rat) * hv
      have e2 : r2 = (-(k.2.2.1 : Rat)) * g := by
        rw [hg]; linear_combination (-r2) * hdet + (k.1 : Rat) * hv
      by_cases hn : g < 0
      · simp only [hn, if_true]
        refine ⟨by linarith, ⟨-k.1, -k.2.1, by push_cast; rw [hg]; ring⟩, ⟨-k.2.2.2, ?_⟩, ⟨k.2.2.1, ?_⟩⟩
        · push_cast; linear_combination e1
        · push_cast; linear_combination e2
      · simp only [hn, if_false]
        refine ⟨by linarith, ⟨k.1, k.2.1, rfl⟩, ⟨k.2.2.2, e1⟩, ⟨-k.2.2.1, ?_⟩⟩
        push_cast; exact e2

/-- the gcd of a list of rationals, as the fold used by `frequency` -/
theorem foldGcd_spec (rs : List Rat) (acc : Rat) (hacc : 0 ≤ acc) :
    let F := rs.foldl ratGcd acc
    0 ≤ F ∧ (∃ A : Int, acc = A * F) ∧ (∀ r ∈ rs, ∃ A : Int, r = A * F) ∧
    (∃ (c0 : Int) (cs : List Int), cs.length = rs.length ∧
      F = c0 * acc + ((List.zipWith (fun (c : Int) (r : Rat) => (c : Rat) * r) cs rs).sum)) := by
  induction rs generalizing acc with
  | nil =>
    intro F
    refine ⟨hacc, ⟨1, by simp [F]⟩, by simp, ⟨1, [], rfl, by simp [F]⟩⟩
  | cons r rs ih =>
    intro F
    obtain ⟨g0, ⟨s, t, hst⟩, ⟨A, hA⟩, ⟨B, hB⟩⟩ := ratGcd_spec acc r
    have := ih (ratGcd acc r) g0
    simp only at this
    obtain ⟨hF, ⟨A', hA'⟩, hall, ⟨c0, cs, hlen, hsum⟩⟩ := this
    have hFdef : F = rs.foldl ratGcd (ratGcd acc r) := rfl
    rw [← hFdef] at hF hA' hall hsum
    refine ⟨hF, ⟨A * A', ?_⟩, ?_, ⟨c0 * s, (c0 * t) :: cs, by simp [hlen], ?_⟩⟩
    · push_cast; rw [hA]; rw [hA']; ring_nf
    · intro x hx
      rcases List.mem_cons.mp hx with rfl | hx
      · exact ⟨B * A', by push_cast; rw [hB]; rw [hA']; ring_nf⟩
      · exact hall x hx
    · rw [hsum, hst]
      simp only [List.zipWith_cons_cons, List.sum_cons]
      push_cast; ring

/-! ### floor -/

theorem ratFloor_spec (q : Rat) : (ratFloor q : Rat) ≤ q ∧ q < (ratFloor q : Rat) + 1 := by
  unfold ratFloor
  have hd : (0 : Int) < (q.den : Int) := by exact_mod_cast q.den_pos
  have hdq : (0 : Rat) < (q.den : Rat) := by exact_mod_cast q.den_pos
  have h1 := Int.emod_nonneg q.num (ne_of_gt hd)
  have h2 := Int.emod_lt_of_pos q.num hd
  have h3 : q.num = (q.den : Int) * (q.num / (q.den : Int)) + q.num % (q.den : Int) := (Int.mul_ediv_add_emod q.num q.den).symm
  have hq : q = (q.num : Rat) / (q.den : Rat) := (Rat.num_div_den q).symm
  have h3q : (q.num : Rat) = (q.den : Rat) * ((q.num / (q.den : Int) : Int) : Rat) + ((q.num % (q.den : Int) : Int) : Rat) := by
    exact_mod_cast h3
  have h1q : (0 : Rat) ≤ ((q.num % (q.den : Int) : Int) : Rat) := by exact_mod_cast h1
  have h2q : ((q.num % (q.den : Int) : Int) : Rat) < (q.den : Rat) := by exact_mod_cast h2
  have hmul : q * (q.den : Rat) = (q.num : Rat) := Rat.mul_den_eq_num q
  constructor
  · have : ((q.num / (q.den : Int) : Int) : Rat) * (q.den : Rat) ≤ q * (q.den : Rat) := by
      rw [hmul, h3q]; nlinarith
    exact le_of_mul_le_mul_right this hdq
  · have : q * (q.den : Rat) < (((q.num / (q.den : Int) : Int) : Rat) + 1) * (q.den : Rat) := by
      rw [hmul, h3q]; nlinarith
    exact lt_of_mul_lt_mul_right this (le_of_lt hdq)

/-! ### values on a grid whose lines do not move the expression -/

section
variable (g : Gens) (e : Vec) (b : Rat)

theorem value_form (hl : ∀ l ∈ g.lines, dot e l = 0) (F : Rat) (hF : ∀ q ∈ g.params, ∃ A : Int, dot e q = A * F)
    (x : Pt) (hx : g.Mem x) : ∃ t : Int, dotF e x + b = dot e g.pt + b + t * F := by
  induction hx with
  | pt => exact ⟨0, by rw [dot_eq_dotF]; simp⟩
  | @param z q k hq _ ih =>
    obtain ⟨t, ht⟩ := ih
    obtain ⟨A, hA⟩ := hF q hq
    refine ⟨t + k * A, ?_⟩
    rw [axpy_eq, dotF_add, dotF_smul, ← dot_eq_dotF, hA]
    push_cast; linarith
  | @line z l d hl' _ ih =>
    obtain ⟨t, ht⟩ := ih
    refine ⟨t, ?_⟩
    rw [axpy_eq, dotF_add, dotF_smul, ← dot_eq_dotF, hl l hl']
    linarith

theorem comb_mem (qs : List Vec) (hsub : ∀ q ∈ qs, q ∈ g.params) (cs : List Int) (x : Pt) (hx : g.Mem x) :
    ∃ y, g.Mem y ∧ dotF e y = dotF e x + (List.zipWith (fun (c : Int) (q : Vec) => (c : Rat) * dot e q) cs qs).sum := by
  induction qs generalizing cs x with
  | nil => exact ⟨x, hx, by simp⟩
  | cons q qs ih =>
    cases cs with
    | nil => exact ⟨x, hx, by simp⟩
    | cons c cs =>
      have hq : q ∈ g.params := hsub q (List.mem_cons_self)
      obtain ⟨y, hy, hy2⟩ := ih (fun r hr => hsub r (List.mem_cons_of_mem _ hr)) cs (x.axpy c q.toFun)
        (Gens.Mem.param c hq hx)
      refine ⟨y, hy, ?_⟩
      rw [hy2, axpy_eq, dotF_add, dotF_smul, ← dot_eq_dotF]
      simp only [List.zipWith_cons_cons, List.sum_cons]; ring

end

/-! ### the specification of `frequency` -/

theorem freqOf_spec (g : Gens) (e : Vec) :
    0 ≤ freqOf g e ∧ (∀ q ∈ g.params, ∃ A : Int, dot e q = A * freqOf g e) ∧
    (∃ cs : List Int, freqOf g e = (List.zipWith (fun (c : Int) (q : Vec) => (c : Rat) * dot e q) cs g.params).sum) := by
  obtain ⟨hF0, _, hall, ⟨c0, cs, _, hsum⟩⟩ := foldGcd_spec (g.params.map (dot e)) 0 (le_refl 0)
  refine ⟨hF0, fun q hq => hall _ (List.mem_map_of_mem hq), ⟨cs, ?_⟩⟩
  unfold freqOf
  rw [hsum, List.zipWith_map_right]; simp

theorem frequency_none_iff (G : GridGens) (e : Vec) (b : Rat) :
    frequency G e b = none ↔ (¬ ∃ x, Gen.sem G x) ∨ (∀ r : Rat, IsValue G e b r) := by
  cases G with
  | empty => simp [frequency, Gen.sem]
  | gens g =>
    simp only [frequency, Gen.sem]
    by_cases hany : g.lines.any (fun l => dot e l != 0) = true
    · simp only [hany, if_true, true_iff]
      right
      intro r
      obtain ⟨l, hl, hβ⟩ := List.any_eq_true.mp hany
      simp only [bne_iff_ne, ne_eq] at hβ
      refine ⟨g.pt.toFun.axpy ((r - (dot e g.pt + b)) / dot e l) l.toFun, Gens.Mem.line _ hl Gens.Mem.pt, ?_⟩
      rw [axpy_eq, dotF_add, dotF_smul, ← dot_eq_dotF, ← dot_eq_dotF]
      field_simp; ring
    · simp only [hany, if_false, reduceCtorEq, false_iff]
      have hl : ∀ l ∈ g.lines, dot e l = 0 := by
        intro l hl
        by_contra hne
        exact hany (List.any_eq_true.mpr ⟨l, hl, by simpa using hne⟩)
      obtain ⟨hF0, hFq, _⟩ := freqOf_spec g e
      rintro (h | h)
      · exact h ⟨_, Gens.Mem.pt⟩
      · by_cases hF : freqOf g e = 0
        · obtain ⟨x, hx, hv⟩ := h (dot e g.pt + b + 1)
          obtain ⟨t, ht⟩ := value_form g e b hl _ hFq x hx
          rw [hF] at ht; linarith
        · obtain ⟨x, hx, hv⟩ := h (dot e g.pt + b + freqOf g e / 2)
          obtain ⟨t, ht⟩ := value_form g e b hl _ hFq x hx
          have : (2 : Rat) * t * freqOf g e = 1 * freqOf g e := by linarith
          have h2 : (2 : Rat) * t = 1 := mul_right_cancel₀ hF this
          have h3 : (2 : Int) * t = 1 := by exact_mod_cast h2
          omega

/-- the values are exactly `r0 + F ℤ` -/
theorem values_eq (g : Gens) (e : Vec) (b : Rat) (hl : ∀ l ∈ g.lines, dot e l = 0) (r : Rat) :
    IsValue (.gens g) e b r ↔ ∃ t : Int, r = dot e g.pt + b + t * freqOf g e := by
  obtain ⟨hF0, hFq, ⟨cs, hcs⟩⟩ := freqOf_spec g e
  constructor
  · rintro ⟨x, hx, rfl⟩
    exact value_form g e b hl _ hFq x hx
  · rintro ⟨t, rfl⟩
    obtain ⟨y, hy, hy2⟩ := comb_mem g e g.params (fun _ h => h) (cs.map (t * ·)) g.pt.toFun Gens.Mem.pt
    refine ⟨y, hy, ?_⟩
    rw [hy2, ← dot_eq_dotF, hcs]
    have : ∀ (cs : List Int) (qs : List Vec),
        (List.zipWith (fun (c : Int) (q : Vec) => (c : Rat) * dot e q) (cs.map (t * ·)) qs).sum
          = t * (List.zipWith (fun (c : Int) (q : Vec) => (c : Rat) * dot e q) cs qs).sum := by
      intro cs
      induction cs with
      | nil => intro qs; simp
      | cons c cs ih =>
        intro qs
        cases qs with
        | nil => simp
        | cons q qs =>
          simp only [List.map_cons, List.zipWith_cons_cons, List.sum_cons, ih]
          push_cast; ring
    rw [this]; ring

theorem leastAbs_spec (r0 f : Rat) (hf : 0 < f) (v : Rat) :
    v ∈ leastAbs r0 f ↔ (∃ t : Int, v = r0 + t * f) ∧ ∀ t : Int, |v| ≤ |r0 + t * f| := by
  obtain ⟨hk1, hk2⟩ := ratFloor_spec (r0 / f)
  set k := ratFloor (r0 / f) with hk
  have hlo0 : 0 ≤ r0 - (k : Rat) * f := by
    have : (k : Rat) * f ≤ r0 / f * f := mul_le_mul_of_nonneg_right hk1 (le_of_lt hf)
    rw [div_mul_cancel₀ _ (ne_of_gt hf)] at this; linarith
  have hlo1 : r0 - (k : Rat) * f < f := by
    have : r0 / f * f < ((k : Rat) + 1) * f := mul_lt_mul_of_pos_right hk2 hf
    rw [div_mul_cancel₀ _ (ne_of_gt hf)] at this; linarith
  -- every member of the class is ≥ lo or ≤ hi
  have hclass : ∀ t : Int, r0 - (k : Rat) * f ≤ r0 + t * f ∨ r0 + t * f ≤ r0 - (k : Rat) * f - f := by
    intro t
    by_cases h : (0 : Int) ≤ t + k
    · left
      have : (0 : Rat) ≤ ((t + k : Int) : Rat) := by exact_mod_cast h
      push_cast at this
      nlinarith
    · right
      have : t + k ≤ -1 := by omega
      have : ((t + k : Int) : Rat) ≤ -1 := by exact_mod_cast this
      push_cast at this
      nlinarith
  have hbound : ∀ t : Int, min (r0 - (k : Rat) * f) (-(r0 - (k : Rat) * f - f)) ≤ |r0 + t * f| := by
    intro t
    rcases hclass t with h | h
    · exact le_trans (min_le_left _ _) (le_trans h (le_abs_self _))
    · exact le_trans (min_le_right _ _) (by
        have : -(r0 + t * f) ≤ |r0 + t * f| := neg_le_abs _
        linarith)
  have habs_lo : |r0 - (k : Rat) * f| = r0 - (k : Rat) * f := abs_of_nonneg hlo0
  have habs_hi : |r0 - (k : Rat) * f - f| = -(r0 - (k : Rat) * f - f) := abs_of_neg (by linarith)
  have mem_lo : ∃ t : Int, r0 - (k : Rat) * f = r0 + t * f := ⟨-k, by push_cast; ring⟩
  have mem_hi : ∃ t : Int, r0 - (k : Rat) * f - f = r0 + t * f := ⟨-k - 1, by push_cast; ring⟩
  have at_lo := (⟨-k, by push_cast; ring⟩ : ∃ t : Int, r0 + t * f = r0 - (k : Rat) * f)
  have at_hi := (⟨-k - 1, by push_cast; ring⟩ : ∃ t : Int, r0 + t * f = r0 - (k : Rat) * f - f)
  unfold leastAbs
  simp only [← hk]
  constructor
  · intro hv
    split at hv
    · rename_i hlt
      simp only [List.mem_singleton] at hv; subst hv
      refine ⟨mem_lo, fun t => ?_⟩
      rw [habs_lo]
      exact le_trans (by rw [min_eq_left (le_of_lt hlt)]) (hbound t)
    · rename_i hnlt
      split at hv
      · rename_i hlt
        simp only [List.mem_singleton] at hv; subst hv
        refine ⟨mem_hi, fun t => ?_⟩
        rw [habs_hi]
        exact le_trans (by rw [min_eq_right (le_of_lt hlt)]) (hbound t)
      · rename_i hnlt2
        have heq : r0 - (k : Rat) * f = -(r0 - (k : Rat) * f - f) := le_antisymm (not_lt.mp hnlt2) (not_lt.mp hnlt)
        simp only [List.mem_cons, List.mem_singleton, List.not_mem_nil, or_false] at hv
        rcases hv with rfl | rfl
        · refine ⟨mem_lo, fun t => ?_⟩
          rw [habs_lo]
          exact le_trans (by rw [min_eq_left (le_of_eq heq)]) (hbound t)
        · refine ⟨mem_hi, fun t => ?_⟩
          rw [habs_hi]
          exact le_trans (by rw [min_eq_right (le_of_eq heq.symm)]) (hbound t)
  · rintro ⟨⟨t, rfl⟩, hmin⟩
    obtain ⟨t1, ht1⟩ := at_lo
    obtain ⟨t2, ht2⟩ := at_hi
    have m1 := hmin t1
    have m2 := hmin t2
    rw [ht1, habs_lo] at m1
    rw [ht2, habs_hi] at m2
    rcases hclass t with h | h
    · -- v ≥ lo ≥ 0, |v| ≤ lo: v = lo
      have hv0 : 0 ≤ r0 + t * f := le_trans hlo0 h
      rw [abs_of_nonneg hv0] at m1 m2
      have hveq : r0 + (t : Rat) * f = r0 - (k : Rat) * f := le_antisymm m1 h
      rw [hveq]
      split
      · simp
      · split
        · rename_i h1 h2; exfalso; rw [hveq] at m2; linarith
        · simp
    · have hv0 : r0 + t * f < 0 := by linarith
      rw [abs_of_neg hv0] at m1 m2
      have hveq : r0 + (t : Rat) * f = r0 - (k : Rat) * f - f := le_antisymm h (by linarith)
      rw [hveq]
      split
      · rename_i h1; exfalso; rw [hveq] at m1; linarith
      · split
        · simp
        · simp

/-- `frequency` computes the greatest modulus and the values of least magnitude -/
theorem frequency_some (G : GridGens) (e : Vec) (b : Rat) (f : Rat) (vals : List Rat)
    (h : frequency G e b = some (f, vals)) :
    0 ≤ f ∧
    (∀ r r', IsValue G e b r → IsValue G e b r' → ∃ t : Int, r - r' = t * f) ∧
    (∃ r r', IsValue G e b r ∧ IsValue G e b r' ∧ r - r' = f) ∧
    (∀ v, v ∈ vals ↔ IsValue G e b v ∧ ∀ r, IsValue G e b r → |v| ≤ |r|) := by
  cases G with
  | empty => simp [frequency] at h
  | gens g =>
    simp only [frequency] at h
    by_cases hany : g.lines.any (fun l => dot e l != 0) = true
    · simp [hany] at h
    · simp only [hany, Bool.false_eq_true, if_false, Option.some.injEq, Prod.mk.injEq] at h
      have hf := h.1
      have hvals := h.2
      have hl : ∀ l ∈ g.lines, dot e l = 0 := by
        intro l hl
        by_contra hne
        exact hany (List.any_eq_true.mpr ⟨l, hl, by simpa using hne⟩)
      obtain ⟨hF0, _, _⟩ := freqOf_spec g e
      have hv := values_eq g e b hl
      rw [hf] at hv hF0 hvals
      refine ⟨hF0, ?_, ?_, ?_⟩
      · intro r r' hr hr'
        obtain ⟨t, rfl⟩ := (hv r).mp hr
        obtain ⟨t', rfl⟩ := (hv r').mp hr'
        exact ⟨t - t', by push_cast; ring⟩
      · exact ⟨dot e g.pt + b + f, dot e g.pt + b, (hv _).mpr ⟨1, by push_cast; ring⟩, (hv _).mpr ⟨0, by push_cast; ring⟩, by ring⟩
      · intro v
        by_cases hf0 : f = 0
        · simp only [hf0, if_true] at hvals
          rw [← hvals, List.mem_singleton]
          constructor
          · rintro rfl
            refine ⟨(hv _).mpr ⟨0, by simp⟩, fun r hr => ?_⟩
            obtain ⟨t, rfl⟩ := (hv r).mp hr
            rw [hf0]; simp
          · rintro ⟨hv1, _⟩
            obtain ⟨t, rfl⟩ := (hv v).mp hv1
            rw [hf0]; simp
        · simp only [hf0, if_false] at hvals
          have hfpos : 0 < f := lt_of_le_of_ne hF0 (Ne.symm hf0)
          rw [← hvals, leastAbs_spec _ _ hfpos]
          constructor
          · rintro ⟨⟨t, rfl⟩, hmin⟩
            refine ⟨(hv _).mpr ⟨t, rfl⟩, fun r hr => ?_⟩
            obtain ⟨t', rfl⟩ := (hv r).mp hr
            exact hmin t'
          · rintro ⟨hv1, hmin⟩
            refine ⟨(hv v).mp hv1, fun t => hmin _ ((hv _).mpr ⟨t, rfl⟩)⟩

end PPLV.Lattice
