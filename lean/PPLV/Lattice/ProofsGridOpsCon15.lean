import PPLV.Lattice.ProofsGridOpsCon13
import PPLV.Lattice.ProofsGridOpsCon14

/-!
# `Grid` stage 3, congruence side, part 15: `add_space_dimensions_and_embed(m)` (Grid_chdims.cc:71),
# `add_space_dimensions_and_project(m)` (Grid_chdims.cc:148)

Cases: `m = 0`; marked empty; dimension 0 (the universe constructor — `cn_ConstructUnivSpec`, another family); only the
congruences up to date (hypothesis-free when they are not minimized; with minimized congruences the triangular form of
the resized `dim_kinds` is the explicit hypothesis of the `_partial` theorems).  In the model a point is a valuation
that is zero outside the space, so "the new coordinates are 0" (project) is the SAME point set in a larger space.
-/
namespace PPLV.Lattice.GO
open PPLV.Lattice PPLV.Lattice.Red

/-- `Grid(m, UNIVERSE)` for `m > 0` (the constructors belong to another family) -/
def cn_ConstructUnivSpec : Prop :=
  ∀ m, 0 < m → GridInv (constructDeg m true) ∧ (constructDeg m true).sem = spaceSet m ∧ (constructDeg m true).spaceDim = m

/-- a state whose congruences only are up to date, possibly minimized -/
theorem cn_inv_of_con (r : Grid) (hpos : 0 < r.spaceDim) (he : r.st.empty = false) (hc : r.st.cUp = true)
    (hg : r.st.gUp = false) (hgm : r.st.gMin = false) (hhi : r.st.hi = 0)
    (hcd : r.conDim = r.spaceDim) (hw : CWf r.spaceDim r.con)
    (hcmin : r.st.cMin = true → r.dk.length = r.spaceDim + 1 ∧ lowerTriangular r.spaceDim r.con r.dk = true ∧
      kind r.dk 0 = PROPER_CONGRUENCE ∧ CgKindsOK r.spaceDim r.con r.dk) :
    GridInv r ∧ r.sem = consSet r.spaceDim r.con := by
  refine ⟨?_, ?_⟩
  · exact {
      emp := fun h => by rw [he] at h; cases h
      zdim := fun _ h0 => by omega
      hi0 := fun _ => hhi
      some := fun _ _ => Or.inl hc
      cminUp := fun _ => hc
      gminUp := fun h => by rw [hgm] at h; cases h
      cwf := fun _ _ _ => ⟨hcd, hw⟩
      gwf := fun _ _ h => by rw [hg] at h; cases h
      agree := fun _ _ _ h => by rw [hg] at h; cases h
      cmin := fun _ _ h => ⟨(hcmin h).1, (hcmin h).2.1, (hcmin h).2.2.1⟩
      cminConv := fun _ _ h _ => (hcmin h).2.2.2
      gmin := fun _ _ h => by rw [hgm] at h; cases h
      gminConv := fun _ _ h => by rw [hgm] at h; cases h }
  · unfold Grid.sem
    rw [if_neg (by rw [he]; simp), if_neg (by omega), if_neg (by rw [hg]; simp)]

theorem cn_embedSet_zero (n : Nat) (S : Set Pt) (hS : S ⊆ spaceSet n) : cn_embedSet n 0 S = S := by
  ext y
  simp only [cn_embedSet, Set.mem_ofPred_eq, Nat.add_zero]
  constructor
  · rintro ⟨hy, h⟩; rwa [cn_fst_of_supp n y hy] at h
  · intro h; have hy : Supp n y := hS h; exact ⟨hy, by rwa [cn_fst_of_supp n y hy]⟩

/-! ### embed -/

theorem cn_embed_zero (g : Grid) (hI : GridInv g) :
    addSpaceDimensionsAndEmbed g 0 = g ∧ cn_embedSet g.spaceDim 0 g.sem = g.sem :=
  ⟨by unfold addSpaceDimensionsAndEmbed; rw [if_pos rfl], cn_embedSet_zero _ _ (cn_sem_subset_space g hI)⟩

theorem cn_embed_empty (g : Grid) (m : Nat) (hm : 0 < m) (he : g.st.empty = true) :
    GridInv (addSpaceDimensionsAndEmbed g m) ∧
      (addSpaceDimensionsAndEmbed g m).sem = cn_embedSet g.spaceDim m g.sem ∧
      (addSpaceDimensionsAndEmbed g m).spaceDim = g.spaceDim + m := by
  unfold addSpaceDimensionsAndEmbed
  rw [if_neg (by omega), if_pos (show g.markedEmpty = true from he)]
  exact ⟨cn_setEmpty_inv _, by rw [cn_setEmpty_sem, cn_sem_empty g he, cn_embedSet_empty], rfl⟩

theorem cn_embed_zdim (hU : cn_ConstructUnivSpec) (g : Grid) (m : Nat) (hm : 0 < m) (he : g.st.empty = false)
    (h0 : g.spaceDim = 0) :
    GridInv (addSpaceDimensionsAndEmbed g m) ∧
      (addSpaceDimensionsAndEmbed g m).sem = cn_embedSet g.spaceDim m g.sem ∧
      (addSpaceDimensionsAndEmbed g m).spaceDim = g.spaceDim + m := by
  unfold addSpaceDimensionsAndEmbed
  rw [if_neg (by omega), if_neg (show ¬ (g.markedEmpty = true) by simpa [Grid.markedEmpty] using he), if_pos h0]
  obtain ⟨a, b, c⟩ := hU m hm
  exact ⟨a, by rw [b, cn_sem_zdim g he h0, h0, cn_embedSet_space], by rw [c, h0, Nat.zero_add]⟩

/-- the result of `add_space_dimensions_and_embed` when only the congruences are up to date -/
def cn_embedCon (g : Grid) (m : Nat) : Grid :=
  { spaceDim := g.spaceDim + m, st := g.st, conDim := (g.cs.setSpaceDim (g.conDim + m)).dim,
    con := (g.cs.setSpaceDim (g.conDim + m)).rows, genDim := g.genDim, gen := g.gen,
    dk := if g.congruencesAreMinimized then resizeKindsWith g.dk ((g.cs.setSpaceDim (g.conDim + m)).dim + 1) CON_VIRTUAL
          else g.dk }

theorem cn_embed_eq_con (g : Grid) (m : Nat) (hm : 0 < m) (he : g.st.empty = false) (hpos : 0 < g.spaceDim)
    (hc : g.st.cUp = true) (hg : g.st.gUp = false) : addSpaceDimensionsAndEmbed g m = cn_embedCon g m := by
  unfold addSpaceDimensionsAndEmbed
  rw [if_neg (by omega), if_neg (show ¬ (g.markedEmpty = true) by simpa [Grid.markedEmpty] using he),
    if_neg (by omega)]
  dsimp only
  rw [if_pos (show g.congruencesAreUpToDate = true from hc),
    if_neg (show ¬ (g.generatorsAreUpToDate = true) by simpa [Grid.generatorsAreUpToDate] using hg)]
  rfl

/-- embed, congruences only.  `hTri`: with minimized congruences, the padded rows are in the triangular form of the
    resized `dim_kinds` (new dimensions `CON_VIRTUAL`) — not proved here -/
theorem cn_embed_con_partial (g : Grid) (m : Nat) (hI : GridInv g) (hm : 0 < m) (he : g.st.empty = false)
    (hpos : 0 < g.spaceDim) (hc : g.st.cUp = true) (hg : g.st.gUp = false)
    (hTri : g.st.cMin = true →
      lowerTriangular (g.spaceDim + m) (g.con.map (·.setSpaceDim (g.spaceDim + m)))
        (resizeKindsWith g.dk (g.spaceDim + m + 1) CON_VIRTUAL) = true ∧
      CgKindsOK (g.spaceDim + m) (g.con.map (·.setSpaceDim (g.spaceDim + m)))
        (resizeKindsWith g.dk (g.spaceDim + m + 1) CON_VIRTUAL)) :
    GridInv (addSpaceDimensionsAndEmbed g m) ∧
      (addSpaceDimensionsAndEmbed g m).sem = cn_embedSet g.spaceDim m g.sem ∧
      (addSpaceDimensionsAndEmbed g m).spaceDim = g.spaceDim + m := by
  rw [cn_embed_eq_con g m hm he hpos hc hg]
  obtain ⟨hcd, hw⟩ := hI.cwf he hpos hc
  have hcsd : g.cs.dim = g.spaceDim := hcd
  have hcd' : g.conDim = g.spaceDim := hcd
  have hw' : CWf g.cs.dim g.cs.rows := by rw [hcsd]; exact hw
  have hgm : g.st.gMin = false := by
    by_contra h; have := hI.gminUp (by simpa using h); rw [hg] at this; cases this
  have hdim : (g.cs.setSpaceDim (g.conDim + m)).dim = g.spaceDim + m := by rw [cn_CSys_setSpaceDim_dim, hcd']
  have hrows : (g.cs.setSpaceDim (g.conDim + m)).rows = g.con.map (·.setSpaceDim (g.spaceDim + m)) := by
    rw [hcd', cn_CSys_setSpaceDim_rows g.cs _ (by rw [hcsd]; omega)]; rfl
  have hcwf : CWf (g.spaceDim + m) (g.cs.setSpaceDim (g.conDim + m)).rows := by
    rw [hcd']; exact cn_CSys_setSpaceDim_CWf g.cs _ hw'
  have hcons : consSet (g.spaceDim + m) (g.cs.setSpaceDim (g.conDim + m)).rows = cn_embedSet g.spaceDim m g.sem := by
    have := cn_CSys_embed_consSet g.cs m hm hw'
    rw [hcsd] at this
    rw [hcd', this, cn_sem_of_cUp g hI he hpos hc]; rfl
  have := cn_inv_of_con (cn_embedCon g m) (show 0 < g.spaceDim + m by omega) he hc hg hgm (hI.hi0 he) hdim hcwf
    (fun hcm => by
      have hdk : (cn_embedCon g m).dk = resizeKindsWith g.dk (g.spaceDim + m + 1) CON_VIRTUAL := by
        show (if g.congruencesAreMinimized = true then _ else _) = _
        rw [if_pos (show g.congruencesAreMinimized = true from hcm), hdim]
      have hlen := (hI.cmin he hpos hcm).1
      rw [hdk]
      show _ ∧ lowerTriangular (g.spaceDim + m) (g.cs.setSpaceDim (g.conDim + m)).rows _ = true ∧ _ ∧
        CgKindsOK (g.spaceDim + m) (g.cs.setSpaceDim (g.conDim + m)).rows _
      rw [hrows]
      refine ⟨cn_resizeKindsWith_length _ _ _, (hTri hcm).1, ?_, (hTri hcm).2⟩
      rw [cn_resizeKindsWith_kind _ _ _ _ (by omega) (by omega)]
      exact (hI.cmin he hpos hcm).2.2)
  exact ⟨this.1, by rw [this.2]; exact hcons, rfl⟩

/-- embed, congruences only and not minimized: hypothesis-free -/
theorem cn_embed_con (g : Grid) (m : Nat) (hI : GridInv g) (hm : 0 < m) (he : g.st.empty = false)
    (hpos : 0 < g.spaceDim) (hc : g.st.cUp = true) (hg : g.st.gUp = false) (hcm : g.st.cMin = false) :
    GridInv (addSpaceDimensionsAndEmbed g m) ∧
      (addSpaceDimensionsAndEmbed g m).sem = cn_embedSet g.spaceDim m g.sem ∧
      (addSpaceDimensionsAndEmbed g m).spaceDim = g.spaceDim + m :=
  cn_embed_con_partial g m hI hm he hpos hc hg (fun h => by rw [hcm] at h; cases h)

example : (addSpaceDimensionsAndEmbed cn_exGrid 2).con = [{ e := [0, 1, 0, 0], m := 2 }] ∧
    (addSpaceDimensionsAndEmbed cn_exGrid 2).spaceDim = 3 := by decide

/-! ### project -/

theorem cn_project_zero (g : Grid) : addSpaceDimensionsAndProject g 0 = g := by
  unfold addSpaceDimensionsAndProject; rw [if_pos rfl]

theorem cn_project_empty (g : Grid) (m : Nat) (hm : 0 < m) (he : g.st.empty = true) :
    GridInv (addSpaceDimensionsAndProject g m) ∧ (addSpaceDimensionsAndProject g m).sem = g.sem ∧
      (addSpaceDimensionsAndProject g m).spaceDim = g.spaceDim + m := by
  unfold addSpaceDimensionsAndProject
  rw [if_neg (by omega), if_pos (show g.markedEmpty = true from he)]
  exact ⟨cn_setEmpty_inv _, by rw [cn_setEmpty_sem, cn_sem_empty g he], rfl⟩

/-- project in dimension 0, what the MODEL (and the library, KF-C05-9) does: the universe of dimension `m` -/
theorem cn_project_zdim (hU : cn_ConstructUnivSpec) (g : Grid) (m : Nat) (hm : 0 < m) (he : g.st.empty = false)
    (h0 : g.spaceDim = 0) :
    GridInv (addSpaceDimensionsAndProject g m) ∧ (addSpaceDimensionsAndProject g m).sem = spaceSet m ∧
      (addSpaceDimensionsAndProject g m).spaceDim = g.spaceDim + m := by
  unfold addSpaceDimensionsAndProject
  rw [if_neg (by omega), if_neg (show ¬ (g.markedEmpty = true) by simpa [Grid.markedEmpty] using he), if_pos h0]
  obtain ⟨a, b, c⟩ := hU m hm
  exact ⟨a, b, by rw [c, h0, Nat.zero_add]⟩

/-- … which is NOT the documented result (the origin only): the point `(1, 0, …)` belongs to it -/
theorem cn_project_zero_dim_fails (hU : cn_ConstructUnivSpec) (g : Grid) (m : Nat) (hm : 0 < m) (he : g.st.empty = false)
    (h0 : g.spaceDim = 0) : (addSpaceDimensionsAndProject g m).sem ≠ g.sem := by
  rw [(cn_project_zdim hU g m hm he h0).2.1, cn_sem_zdim g he h0]
  intro h
  have h1 : (fun i => if i = 0 then (1 : ℚ) else 0) ∈ spaceSet m := by
    intro i hi; simp; omega
  rw [h] at h1
  have := h1 0 (le_refl _)
  simp at this

/-- the result of `add_space_dimensions_and_project` when only the congruences are up to date -/
def cn_projectCon (g : Grid) (m : Nat) : Grid :=
  { spaceDim := g.spaceDim + m, st := g.st, conDim := (g.cs.addUnitRowsAndSpaceDimensions m).dim,
    con := (g.cs.addUnitRowsAndSpaceDimensions m).rows, genDim := g.genDim, gen := g.gen,
    dk := if g.congruencesAreMinimized then
            resizeKindsWith g.dk ((g.cs.addUnitRowsAndSpaceDimensions m).dim + 1) EQUALITY else g.dk }

theorem cn_project_eq_con (g : Grid) (m : Nat) (hm : 0 < m) (he : g.st.empty = false) (hpos : 0 < g.spaceDim)
    (hc : g.st.cUp = true) (hg : g.st.gUp = false) : addSpaceDimensionsAndProject g m = cn_projectCon g m := by
  unfold addSpaceDimensionsAndProject
  rw [if_neg (by omega), if_neg (show ¬ (g.markedEmpty = true) by simpa [Grid.markedEmpty] using he),
    if_neg (by omega)]
  dsimp only
  rw [if_pos (show g.congruencesAreUpToDate = true from hc),
    if_neg (show ¬ (g.generatorsAreUpToDate = true) by simpa [Grid.generatorsAreUpToDate] using hg)]
  rfl

/-- project, congruences only: the same points in the larger space.  `hTri`: with minimized congruences, the new system
    (unit rows first) is in the triangular form of the resized `dim_kinds` (new dimensions `EQUALITY`) — not proved here -/
theorem cn_project_con_partial (g : Grid) (m : Nat) (hI : GridInv g) (hm : 0 < m) (he : g.st.empty = false)
    (hpos : 0 < g.spaceDim) (hc : g.st.cUp = true) (hg : g.st.gUp = false)
    (hTri : g.st.cMin = true →
      lowerTriangular (g.spaceDim + m) (g.cs.addUnitRowsAndSpaceDimensions m).rows
        (resizeKindsWith g.dk (g.spaceDim + m + 1) EQUALITY) = true ∧
      CgKindsOK (g.spaceDim + m) (g.cs.addUnitRowsAndSpaceDimensions m).rows
        (resizeKindsWith g.dk (g.spaceDim + m + 1) EQUALITY)) :
    GridInv (addSpaceDimensionsAndProject g m) ∧ (addSpaceDimensionsAndProject g m).sem = g.sem ∧
      (addSpaceDimensionsAndProject g m).spaceDim = g.spaceDim + m := by
  rw [cn_project_eq_con g m hm he hpos hc hg]
  obtain ⟨hcd, hw⟩ := hI.cwf he hpos hc
  have hcsd : g.cs.dim = g.spaceDim := hcd
  have hw' : CWf g.cs.dim g.cs.rows := by rw [hcsd]; exact hw
  have hgm : g.st.gMin = false := by
    by_contra h; have := hI.gminUp (by simpa using h); rw [hg] at this; cases this
  have hdim : (g.cs.addUnitRowsAndSpaceDimensions m).dim = g.spaceDim + m := by
    rw [(cn_addUnitRows_eq g.cs m hm).1, hcsd]
  have hcwf : CWf (g.spaceDim + m) (g.cs.addUnitRowsAndSpaceDimensions m).rows := by
    have := cn_addUnitRows_CWf g.cs m hm hw'; rwa [hcsd] at this
  have hcons : consSet (g.spaceDim + m) (g.cs.addUnitRowsAndSpaceDimensions m).rows = g.sem := by
    have := cn_addUnitRows_consSet g.cs m hm hw'
    rw [hcsd] at this
    rw [this, cn_sem_of_cUp g hI he hpos hc]; rfl
  have := cn_inv_of_con (cn_projectCon g m) (show 0 < g.spaceDim + m by omega) he hc hg hgm (hI.hi0 he) hdim hcwf
    (fun hcm => by
      have hdk : (cn_projectCon g m).dk = resizeKindsWith g.dk (g.spaceDim + m + 1) EQUALITY := by
        show (if g.congruencesAreMinimized = true then _ else _) = _
        rw [if_pos (show g.congruencesAreMinimized = true from hcm), hdim]
      have hlen := (hI.cmin he hpos hcm).1
      rw [hdk]
      refine ⟨cn_resizeKindsWith_length _ _ _, (hTri hcm).1, ?_, (hTri hcm).2⟩
      rw [cn_resizeKindsWith_kind _ _ _ _ (by omega) (by omega)]
      exact (hI.cmin he hpos hcm).2.2)
  exact ⟨this.1, by rw [this.2]; exact hcons, rfl⟩

/-- project, congruences only and not minimized: hypothesis-free -/
theorem cn_project_con (g : Grid) (m : Nat) (hI : GridInv g) (hm : 0 < m) (he : g.st.empty = false)
    (hpos : 0 < g.spaceDim) (hc : g.st.cUp = true) (hg : g.st.gUp = false) (hcm : g.st.cMin = false) :
    GridInv (addSpaceDimensionsAndProject g m) ∧ (addSpaceDimensionsAndProject g m).sem = g.sem ∧
      (addSpaceDimensionsAndProject g m).spaceDim = g.spaceDim + m :=
  cn_project_con_partial g m hI hm he hpos hc hg (fun h => by rw [hcm] at h; cases h)

example : (addSpaceDimensionsAndProject cn_exGrid 1).con = [{ e := [0, 0, 1], m := 0 }, { e := [0, 1, 0], m := 2 }] := by
  decide

end PPLV.Lattice.GO
