import PPLV.Lattice.ProofsGridOpsGen6
import PPLV.Lattice.ProofsGridOpsLazy3
import Mathlib.Algebra.BigOperators.Group.Finset.Basic
import Mathlib.Algebra.BigOperators.Ring.Finset

/-!
# `Grid` stage 3, part 21: linear expressions on generator systems — `Scalar_Products::homogeneous_assign` (`spHom`) is the
# divisor times the homogeneous part of the expression at the vector of the row; a minimized generator system is one
# point followed by parameters and lines; `bounds_no_check` (Grid_nonpublic.cc:309) decides whether the expression is
# constant on the grid
-/
namespace PPLV.Lattice.GO
open PPLV.Lattice PPLV.Lattice.Red

/-- the homogeneous part of a linear expression as a functional -/
def cn_lam (e : LinExpr) (v : Pt) : ℚ := dotF (ratRow e).tail v

theorem cn_evalRow_lam (e : LinExpr) (x : Pt) : evalRow e x = cn_lam e x + (Red.get e 0 : ℚ) := evalRow_eq e x

theorem cn_lam_add (e : LinExpr) (v w : Pt) : cn_lam e (v + w) = cn_lam e v + cn_lam e w := dotF_add _ _ _
theorem cn_lam_smul (e : LinExpr) (c : ℚ) (v : Pt) : cn_lam e (c • v) = c * cn_lam e v := dotF_smul _ _ _
theorem cn_lam_zero (e : LinExpr) : cn_lam e 0 = 0 := by
  have := cn_lam_smul e 0 0; simpa using this
theorem cn_lam_sub (e : LinExpr) (v w : Pt) : cn_lam e (v - w) = cn_lam e v - cn_lam e w := by
  have h1 : v - w = v + (-1 : ℚ) • w := by module
  rw [h1, cn_lam_add, cn_lam_smul]; ring

theorem cn_ratRow_tail (e : Row) : (ratRow e).tail = ratRow e.tail := by
  unfold ratRow; rw [List.map_tail]

theorem cn_get_tail (e : Row) (k : Nat) : Red.get e.tail k = Red.get e (k + 1) := by
  cases e with
  | nil => simp [Red.get]
  | cons a t => rfl

theorem cn_lam_sum (e : LinExpr) (v : Pt) :
    cn_lam e v = ∑ k ∈ Finset.range (e.length - 1), (Red.get e (k + 1) : ℚ) * v k := by
  unfold cn_lam
  rw [cn_ratRow_tail, dotF_ratRow, List.length_tail]
  exact Finset.sum_congr rfl (fun k _ => by rw [cn_get_tail])

theorem cn_foldl_add_eq (l : List Int) (a : Int) : l.foldl (· + ·) a = a + l.sum := by
  induction l generalizing a with
  | nil => simp
  | cons b l ih => rw [List.foldl_cons, ih, List.sum_cons]; ring

theorem cn_spHom_cast (e y : Row) :
    ((spHom e y : Int) : ℚ) = ∑ k ∈ Finset.range (e.length - 1), (Red.get e (k + 1) : ℚ) * (Red.get y (k + 1) : ℚ) := by
  unfold spHom
  rw [cn_foldl_add_eq, zero_add, List.range'_eq_map_range, List.map_map]
  generalize e.length - 1 = m
  induction m with
  | zero => simp
  | succ m ih =>
    rw [List.range_succ, List.map_append, List.sum_append, Finset.sum_range_succ]
    push_cast at ih ⊢
    rw [ih]
    simp [Function.comp, Nat.add_comm]

/-- the denominator `gn_vecOf` divides by -/
def cn_den (r : GRow) : Int := if r.line then 1 else r.divisor

/-- `spHom e r.e = cn_den r · λ_e(vector of r)` -/
theorem cn_spHom_vecOf (e : LinExpr) (r : GRow) (n : Nat) (hlen : r.e.length = n + 2) (he : e.length ≤ n + 1)
    (hd : cn_den r ≠ 0) : ((spHom e r.e : Int) : ℚ) = (cn_den r : ℚ) * cn_lam e (gn_vecOf r) := by
  rw [cn_spHom_cast, cn_lam_sum, Finset.mul_sum]
  apply Finset.sum_congr rfl
  intro k hk
  have hk' : k < n := by have := Finset.mem_range.mp hk; omega
  have hd' : (cn_den r : ℚ) ≠ 0 := by exact_mod_cast hd
  unfold gn_vecOf
  rw [gn_spaceDim_of_len hlen, if_pos hk']
  unfold cn_den at hd' ⊢
  split
  · simp
  · rename_i hl
    have hd2 : (r.divisor : ℚ) ≠ 0 := by simpa [hl] using hd'
    field_simp

/-! ### a minimized generator system: one point, then parameters and lines -/

theorem cn_min_shape {n : Nat} {D : Int} {gen : List GRow} {dk : List Nat} (hN : GNorm n D gen)
    (hut : upperTriangular n gen dk = true) (h0 : kind dk 0 = PARAMETER) :
    ∃ p rest, gen = p :: rest ∧ p.line = false ∧ Red.get p.e 0 = D ∧ ∀ r ∈ rest, Red.get r.e 0 = 0 := by
  have hs := upperTriangular_spec n gen dk hut
  have hnv0 : nvB dk 0 = true := by rw [nvB_iff, h0]; decide
  have hz : nv dk 0 = 0 := rfl
  have hd0 := hs.diag 0 (by omega) hnv0
  rw [hz] at hd0
  obtain ⟨r0, hr0, _, _⟩ := hN.pt
  cases hg : gen with
  | nil => rw [hg] at hr0; cases hr0
  | cons p rest =>
    have hp : rowAt gen 0 = p := by rw [hg]; rfl
    have hpm : p ∈ gen := by rw [hg]; exact List.mem_cons_self ..
    unfold sEnt at hd0
    rw [hp] at hd0
    have hpl : p.line = false := by
      by_contra h
      have := hN.lin p hpm (by simpa using h)
      omega
    refine ⟨p, rest, rfl, hpl, ?_, ?_⟩
    · rcases hN.col0 p hpm hpl with h | h
      · omega
      · exact h
    · intro r hr
      obtain ⟨i, hi, hri⟩ := List.getElem_of_mem hr
      have hlen : i + 1 < gen.length := by rw [hg]; simpa using hi
      have hrow : rowAt gen (i + 1) = r := by
        rw [rowAt_eq_getElem _ _ hlen]; simp only [hg, List.getElem_cons_succ]; exact hri
      have hl := hs.len
      obtain ⟨q, hq, hqv, hqi⟩ := cntBelow_surj (nvB dk) (n + 1) (i + 1) (by unfold nv at hl; omega)
      have hq0 : q ≠ 0 := by
        intro h; subst h; simp [cntBelow] at hqi
      have := hs.zeros q hq hqv 0 (by omega)
      unfold sEnt nv at this
      rw [hqi, hrow] at this
      exact this

/-! ### `bounds_no_check` -/

theorem cn_boundsNoCheck_iff (g : Grid) (e : LinExpr) :
    boundsNoCheck g e = true ↔ ∀ r ∈ g.gen, Red.get r.e 0 = 0 → spHom e r.e = 0 := by
  unfold boundsNoCheck
  rw [List.all_reverse, List.all_eq_true]
  constructor
  · intro h r hr h0
    have := h r hr
    simp only [GRow.isLineOrParameter, h0, beq_self_eq_true, Bool.true_and, Bool.not_eq_true', decide_eq_false_iff_not,
      ne_eq, not_not] at this
    exact this
  · intro h r hr
    by_cases h0 : Red.get r.e 0 = 0
    · simp [GRow.isLineOrParameter, h0, h r hr h0]
    · simp [GRow.isLineOrParameter, h0]

/-- the expression is constant on `S` -/
def cn_Const (e : LinExpr) (S : Set Pt) : Prop := ∀ x ∈ S, ∀ y ∈ S, evalRow e x = evalRow e y

theorem cn_den_pos {n : Nat} {D : Int} {rows : List GRow} (hN : GNorm n D rows) (hw : GWf n rows) (r : GRow) (hr : r ∈ rows) :
    0 < cn_den r := by
  unfold cn_den
  by_cases hl : r.line = true
  · rw [if_pos hl]; decide
  · rw [if_neg hl]
    rw [gn_divisor_of_gnorm_aux hN hw hr (by simpa using hl)]; exact hN.pos
where
  gn_divisor_of_gnorm_aux {n : Nat} {D : Int} {rows : List GRow} (hN : GNorm n D rows) (hw : GWf n rows) {r : GRow}
      (hr : r ∈ rows) (hl : r.line = false) : r.divisor = D := by
    rcases hN.col0 r hr hl with h | h
    · rw [divisor_param n r (hw r hr) h]; exact hN.par r hr hl h
    · rw [divisor_point r (by rw [h]; exact ne_of_gt hN.pos)]; exact h

/-- on a system "one point, then parameters and lines": the expression is constant on the grid iff it vanishes on every
    parameter and line -/
theorem cn_const_iff {n : Nat} {D : Int} {p : GRow} {rest : List GRow} (e : LinExpr) (hN : GNorm n D (p :: rest))
    (hw : GWf n (p :: rest)) (hp : p.line = false) (hpD : Red.get p.e 0 = D) (hrest : ∀ r ∈ rest, Red.get r.e 0 = 0) :
    cn_Const e (gn_set (p :: rest)) ↔ ∀ r ∈ rest, cn_lam e (gn_vecOf r) = 0 := by
  have hpt : gn_isPt p = true := (gn_isPt_iff p).mpr ⟨hp, by rw [hpD]; exact ne_of_gt hN.pos⟩
  have hpm : gn_Mem (p :: rest) (gn_vecOf p) := gn_mem_pt (List.mem_cons_self ..) hpt
  have honly : ∀ r ∈ p :: rest, gn_isPt r = true → r = p := by
    intro r hr hrp
    rcases List.mem_cons.mp hr with h | h
    · exact h
    · exact absurd (hrest r h) ((gn_isPt_iff r).mp hrp).2
  constructor
  · intro hc r hr
    have hrm : r ∈ p :: rest := List.mem_cons_of_mem _ hr
    have hx : gn_Mem (p :: rest) (gn_vecOf p + gn_vecOf r) := by
      by_cases hl : r.line = true
      · have := gn_dir_line hrm hl 1; rw [one_smul] at this; exact gn_mem_add_dir hpm this
      · exact gn_mem_add_dir hpm (gn_dir_par hrm ((gn_isPar_iff r).mpr ⟨by simpa using hl, hrest r hr⟩))
    have := hc _ hx _ hpm
    rw [cn_evalRow_lam, cn_evalRow_lam, cn_lam_add] at this
    linarith
  · intro h x hx y hy
    have hdir : ∀ v, gn_Dir (p :: rest) v → cn_lam e v = 0 := by
      intro v hv
      refine gn_dir_le (S := fun v => cn_lam e v = 0) (cn_lam_zero e) ?_ ?_ ?_ ?_ ?_ hv
      · intro v w h1 h2; rw [cn_lam_add, h1, h2, add_zero]
      · intro k v h1; rw [cn_lam_smul, h1, mul_zero]
      · intro r1 m1 p1 r2 m2 p2; rw [honly r1 m1 p1, honly r2 m2 p2, sub_self, cn_lam_zero]
      · intro r m pr
        rcases List.mem_cons.mp m with hh | hh
        · subst hh; rw [(gn_isPar_iff _).mp pr |>.2] at hpD; exact absurd hpD.symm (ne_of_gt hN.pos)
        · exact h r hh
      · intro r m hl c
        rcases List.mem_cons.mp m with hh | hh
        · subst hh; rw [hp] at hl; cases hl
        · rw [cn_lam_smul, h r hh, mul_zero]
    have := hdir _ (gn_mem_sub hx hy)
    rw [cn_lam_sub] at this
    rw [cn_evalRow_lam, cn_evalRow_lam]; linarith

/-- `bounds_no_check` on a minimized generator system decides constancy -/
theorem cn_boundsNoCheck_const (g : Grid) (e : LinExpr) {D : Int} {dk : List Nat} (hw : GWf g.spaceDim g.gen)
    (hN : GNorm g.spaceDim D g.gen) (hut : upperTriangular g.spaceDim g.gen dk = true) (h0 : kind dk 0 = PARAMETER)
    (he : e.spaceDim ≤ g.spaceDim) : boundsNoCheck g e = true ↔ cn_Const e (gn_set g.gen) := by
  obtain ⟨p, rest, hg, hp, hpD, hrest⟩ := cn_min_shape hN hut h0
  rw [cn_boundsNoCheck_iff, hg]
  rw [hg] at hw hN
  rw [cn_const_iff e hN hw hp hpD hrest]
  have hel : e.length ≤ g.spaceDim + 1 := by unfold LinExpr.spaceDim at he; omega
  have key : ∀ r ∈ p :: rest, (spHom e r.e = 0 ↔ cn_lam e (gn_vecOf r) = 0) := by
    intro r hr
    have hd := cn_den_pos hN hw r hr
    have := cn_spHom_vecOf e r g.spaceDim (hw r hr) hel (ne_of_gt hd)
    constructor
    · intro hs
      rw [hs] at this
      have hd' : (cn_den r : ℚ) ≠ 0 := by exact_mod_cast (ne_of_gt hd)
      exact (mul_eq_zero.mp this.symm).resolve_left hd'
    · intro hl
      rw [hl, mul_zero] at this
      exact_mod_cast this
  constructor
  · intro h r hr
    exact (key r (List.mem_cons_of_mem _ hr)).mp (h r (List.mem_cons_of_mem _ hr) (hrest r hr))
  · intro h r hr h0'
    rcases List.mem_cons.mp hr with hh | hh
    · subst hh; rw [hpD] at h0'; exact absurd h0' (ne_of_gt hN.pos)
    · exact (key r hr).mpr (h r hh)

end PPLV.Lattice.GO
