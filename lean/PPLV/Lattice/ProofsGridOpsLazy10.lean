import PPLV.Lattice.ProofsGridOpsLazy4
import PPLV.Lattice.ProofsGridOpsLazy9

/-!
# The shared `dim_kinds` — part 10: `DkCompatG`

A congruence system in lower triangular form and a generator system in upper triangular form (with the agreement of
kinds and line flags that `simplify` establishes) of ONE grid have the same `LINE = CON_VIRTUAL` dimensions: `d` is one
iff the line space of the grid has a vector whose first non-zero coordinate is `d`.
-/
namespace PPLV.Lattice.GO
open PPLV.Lattice PPLV.Lattice.Red

theorem lz_homog_line (D : ℚ) (x0 W : Pt) (hW0 : W 0 = 0) (a : ℚ) :
    homog D (fun i => x0 i + a * W (i + 1)) = homog D x0 + (a * D) • W := by
  funext i
  cases i with
  | zero => simp [homog, hW0]
  | succ i => simp [homog]; ring

/-- the pivot value of a linear form that vanishes after column `d` on a vector that vanishes before column `d` -/
theorem lz_alpha_pivot (c : Row) (W : Pt) (d n : Nat) (hl : c.length = n + 1) (hd : d < n + 1)
    (hc : ∀ k, d < k → k < n + 1 → get c k = 0) (hW : ∀ k, k < d → W k = 0) :
    alphaOf (ratRow c) W = (get c d : ℚ) * W d := by
  refine alphaOf_single c W d (by omega) (fun k hk => ?_) hW
  by_cases h : k < n + 1
  · exact hc k hk h
  · exact get_of_length_le c k (by omega)

/-- `⟨c, W⟩` as a sum over the pivot prefix when `c` vanishes after column `q` -/
theorem lz_alpha_prefix (c : Row) (W : Pt) (q n : Nat) (hl : c.length = n + 1) (hq : q < n + 1)
    (hc : ∀ k, q < k → k < n + 1 → get c k = 0) :
    alphaOf (ratRow c) W = ∑ k ∈ Finset.range (q + 1), (get c k : ℚ) * W k := by
  rw [alphaOf_apply, dotF_ratRow, hl]
  symm
  apply Finset.sum_subset
  · intro k hk
    have := Finset.mem_range.mp hk
    exact Finset.mem_range.mpr (by omega)
  · intro k hk hnk
    have h1 := Finset.mem_range.mp hk
    have h2 : ¬ k < q + 1 := fun h => hnk (Finset.mem_range.mpr h)
    rw [hc k (by omega) h1]; simp

/-- the heart: the `CON_VIRTUAL` dimensions of the congruences are the `LINE` dimensions of the generators -/
theorem lz_line_kinds (n : Nat) (con : List CRow) (dkc : List Nat) (gen : List GRow) (dkg : List Nat) (D : Int)
    (hcwf : CWf n con) (hlt : lowerTriangular n con dkc = true) (hk0c : kind dkc 0 = PROPER_CONGRUENCE)
    (hgwf : GWf n gen) (hN : GNorm n D gen) (hut : upperTriangular n gen dkg = true) (hdkg : dkg.length = n + 1)
    (hk0g : kind dkg 0 = PARAMETER) (hcv : ConvG n gen dkg) (hag : consSet n con = gensSet n gen) :
    ∀ d, d < n + 1 → (kind dkc d = CON_VIRTUAL ↔ kind dkg d = LINE) := by
  intro d hd
  obtain ⟨hk, hla, hpa⟩ := hcv
  have hc := lowerTriangular_spec n con dkc hlt
  have hs := upperTriangular_spec n gen dkg hut
  have hD : (D : ℚ) ≠ 0 := by exact_mod_cast (ne_of_gt hN.pos)
  -- a point of the grid
  obtain ⟨x0, hx0⟩ := lz_gensSet_nonempty hN
  have hx0c : x0 ∈ consSet n con := by rw [hag]; exact hx0
  rw [lz_gensSet_eq hN] at hx0
  have hx0h : Hom n gen (homog (D : ℚ) x0) := hx0
  obtain ⟨hsupp0, hsol0⟩ := (cgsSem_iff n con x0).mp hx0c
  -- membership of the points of a line through `x0`
  have hmem : ∀ (W : Pt), W 0 = 0 → (∀ a : ℚ, Hom n gen (a • W)) → ∀ a : ℚ,
      (fun i => x0 i + a * W (i + 1)) ∈ consSet n con := by
    intro W hW0 hW a
    rw [hag, lz_gensSet_eq hN]
    show Hom n gen _
    rw [lz_homog_line (D : ℚ) x0 W hW0 a]
    exact hom_add hx0h (hW _)
  by_cases hd0 : d = 0
  · subst hd0
    rw [hk0c, hk0g]
    constructor <;> intro h <;> exact absurd h (by decide)
  constructor
  · -- a non-pivot dimension of the congruences: back substitution gives a line direction
    intro hcv
    by_contra hnl
    have hnlg : nlB dkg d = true := (nlB_iff dkg d).mpr hnl
    have hnlc : nlB dkc d = false := by
      cases h : nlB dkc d
      · rfl
      · exact absurd hcv ((nlB_iff dkc d).mp h)
    -- the congruences computed from the generators
    have hlt' := conversionGensToCgs_triangular n gen dkg hut hdkg hk0g hk
    have hc' := lowerTriangular_spec n _ dkg hlt'
    have hcwf' := lz_conversionGens_cwf n gen dkg hut hdkg hk0g hk
    have hag' : consSet n (conversionGensToCgs n gen dkg) = consSet n con := by
      rw [hag, lz_gensSet_eq hN]
      ext x
      simp only [consSet, Set.mem_ofPred_eq]
      rw [conversionGensToCgs_exact _ _ _ hgwf hut hdkg hk0g hk hla hpa x, lz_row0_div hN hut hdkg hk0g hk hla]
    -- the direction
    let r : ℕ → ℕ → ℚ := fun q k => ((get (rowAt con (pos dkc (n + 1) q)).e k : Int) : ℚ)
    let P : ℕ → Bool := fun q => nlB dkc q && decide (q < n + 1)
    let W : Pt := fun k => if k ≤ n then lzV r P d k else 0
    have hW0 : W 0 = 0 := by
      show (if 0 ≤ n then lzV r P d 0 else 0) = 0
      rw [if_pos (Nat.zero_le n), lzV_lt r P d 0 (by omega)]
    have hWlt : ∀ k, k < d → W k = 0 := by
      intro k hk'
      show (if k ≤ n then lzV r P d k else 0) = 0
      split
      · exact lzV_lt r P d k hk'
      · rfl
    have hWd : W d = 1 := by
      show (if d ≤ n then lzV r P d d else 0) = 1
      rw [if_pos (by omega), lzV_self]
    -- every congruence vanishes on it
    have hzero : ∀ i, i < con.length → alphaOf (ratRow (rowAt con i).e) W = 0 := by
      intro i hi
      rw [hc.len] at hi
      obtain ⟨q, hq, hql, rfl⟩ := pos_surj dkc (n + 1) i hi
      have hlen : (rowAt con (pos dkc (n + 1) q)).e.length = n + 1 :=
        (hcwf _ (rowAt_mem con _ (by rw [hc.len]; exact hi))).1
      rw [lz_alpha_prefix _ W q n hlen hq (fun k h1 h2 => hc.zeros q hq hql k h1 h2)]
      have e : ∑ k ∈ Finset.range (q + 1), ((get (rowAt con (pos dkc (n + 1) q)).e k : Int) : ℚ) * W k =
          ∑ k ∈ Finset.range (q + 1), r q k * lzV r P d k := by
        apply Finset.sum_congr rfl
        intro k hk'
        have : k ≤ n := by have := Finset.mem_range.mp hk'; omega
        show _ * (if k ≤ n then lzV r P d k else 0) = _
        rw [if_pos this]
      rw [e]
      rcases Nat.lt_trichotomy q d with h | h | h
      · exact lzV_sum_lt r P d q h
      · subst h; rw [hnlc] at hql; exact absurd hql (by decide)
      · refine lzV_sum r P d q h (by simp [P, hql, hq]) ?_
        have := hc.diag q hq hql
        simp only [cEnt] at this
        show ((get (rowAt con (pos dkc (n + 1) q)).e q : Int) : ℚ) ≠ 0
        exact_mod_cast (ne_of_gt this)
    -- so the whole line through `x0` is in the grid
    have hline : ∀ a : ℚ, (fun i => x0 i + a * W (i + 1)) ∈ consSet n con := by
      intro a
      show cgsSem n con _
      rw [cgsSem_iff]
      refine ⟨fun i hi => ?_, fun i hi => ?_⟩
      · have : ¬ i + 1 ≤ n := by omega
        show x0 i + a * (if i + 1 ≤ n then lzV r P d (i + 1) else 0) = 0
        rw [hsupp0 i hi, if_neg this]; ring
      · obtain ⟨t, ht⟩ := hsol0 i hi
        refine ⟨t, ?_⟩
        rw [lz_evalRow_line _ x0 W hW0 a, hzero i hi, ht]; ring
    -- but the pivot row of dimension `d` of the computed congruences sees it
    have hposlt : pos dkg (n + 1) d < (conversionGensToCgs n gen dkg).length := by
      rw [hc'.len]; exact pos_lt dkg (n + 1) d hd hnlg
    have hlen' := (hcwf' _ (rowAt_mem _ _ hposlt)).1
    have hsep := lz_sep (rowAt (conversionGensToCgs n gen dkg) (pos dkg (n + 1) d)) x0 W hW0 (fun a => by
      have := hline a
      rw [← hag'] at this
      exact ((cgsSem_iff n _ _).mp this).2 _ hposlt)
    rw [lz_alpha_pivot _ W d n hlen' hd (fun k h1 h2 => hc'.zeros d hd hnlg k h1 h2) hWlt, hWd, mul_one] at hsep
    have hdiag := hc'.diag d hd hnlg
    simp only [cEnt] at hdiag
    have : (get (rowAt (conversionGensToCgs n gen dkg) (pos dkg (n + 1) d)).e d : Int) = 0 := by exact_mod_cast hsep
    omega
  · -- a line of the generators is not seen by any congruence
    intro hline
    by_contra hncv
    have hnlc : nlB dkc d = true := (nlB_iff dkc d).mpr hncv
    have hnvg : nvB dkg d = true := by rw [nvB_iff, hline]; decide
    have hilt : nv dkg d < gen.length := by rw [hs.len]; exact cntBelow_lt (nvB dkg) hd hnvg
    have hℓmem := rowAt_mem gen _ hilt
    have hdiagg := hs.diag d hd hnvg
    have hzerog := hs.zeros d hd hnvg
    simp only [sEnt] at hdiagg hzerog
    have hℓline : (rowAt gen (nv dkg d)).line = true := by
      cases hl : (rowAt gen (nv dkg d)).line
      · have := hpa _ hℓmem hl d hd hzerog (by omega)
        rw [hline] at this; exact absurd this (by decide)
      · rfl
    let W : Pt := hv n (rowAt gen (nv dkg d))
    have hW0 : W 0 = 0 := by
      show hv n _ 0 = 0
      rw [hv_apply, if_pos (Nat.zero_le n), hzerog 0 (by omega)]; simp
    have hWlt : ∀ k, k < d → W k = 0 := by
      intro k hk'
      show hv n _ k = 0
      rw [hv_apply]
      split
      · rw [hzerog k hk']; simp
      · rfl
    have hWd : W d = ((get (rowAt gen (nv dkg d)).e d : Int) : ℚ) := by
      show hv n _ d = _
      rw [hv_apply, if_pos (by omega)]
    have hposlt : pos dkc (n + 1) d < con.length := by rw [hc.len]; exact pos_lt dkc (n + 1) d hd hnlc
    have hlen := (hcwf _ (rowAt_mem _ _ hposlt)).1
    have hsep := lz_sep (rowAt con (pos dkc (n + 1) d)) x0 W hW0 (fun a => by
      have := hmem W hW0 (fun b => hom_of_mem_line hℓmem hℓline b) a
      exact ((cgsSem_iff n _ _).mp this).2 _ hposlt)
    rw [lz_alpha_pivot _ W d n hlen hd (fun k h1 h2 => hc.zeros d hd hnlc k h1 h2) hWlt, hWd] at hsep
    have hdiag := hc.diag d hd hnlc
    simp only [cEnt] at hdiag
    have h1 : (get (rowAt con (pos dkc (n + 1) d)).e d : Int) * get (rowAt gen (nv dkg d)).e d = 0 := by
      exact_mod_cast hsep
    rcases Int.mul_eq_zero.mp h1 with h | h <;> omega

/-- **`DkCompatG`** -/
theorem dkCompatG : DkCompatG := by
  intro n con dkc gen dk0 D hn hcwf _ hlt hk0 hgwf hN hag
  obtain ⟨hs, ⟨D', hN'⟩, hw', hut, hdk, hk0g, hcv⟩ := lz_simplifyGens_facts dk0 hgwf hN
  have key := lz_line_kinds n con dkc _ _ D' hcwf hlt hk0 hw' hN' hut hdk hk0g hcv (by rw [hs]; exact hag)
  rw [← lz_lowerTriangular_congr n con dkc _ (fun d hd => key d hd)]
  exact hlt

end PPLV.Lattice.GO
