import PPLV.Lattice.Model
/-!
# `Grid::simplify` — code-shaped model of /repo/src/Grid_simplify.cc (no Mathlib)

Rows are the raw `Linear_Expression` rows of the library (`expr.get(i)`, index 0 = inhomogeneous
term, index `i ≥ 1` = coefficient of `Variable(i-1)`):

* a grid generator row (`GRow`) of an `n`-dimensional system has `n + 2` entries; entry 0 is the
  divisor of a point (0 for parameters and lines), entry `n + 1` is the *parameter divisor* column;
  `line` is the `is_line_or_equality` flag of the row;
* a congruence row (`CRow`) has `n + 1` entries and a modulus `m` (`m = 0`: equality).

`dim_kinds` is a `List Nat` with the values of `enum Dimension_Kind` (Grid_defs.hh:1985):
`PARAMETER = PROPER_CONGRUENCE = 0`, `LINE = CON_VIRTUAL = 1`, `GEN_VIRTUAL = EQUALITY = 2`.

Every function is named after the C++ function it transliterates; loops are folds over the index
ranges the C++ loops run through.  Theorems: `PPLV/Lattice/ProofsRed*.lean`, `PPLV/Props/C05Reduce.lean`.
-/
namespace PPLV.Lattice.Red

abbrev Row := List Int

/-! ### `Linear_Expression` primitives (raw indices) -/

/-- `expr.get(i)` -/
def get (r : Row) (i : Nat) : Int := r.getD i 0

/-- a row of the same size, entry `i` being `f i` -/
def tab (r : Row) (f : Nat → Int) : Row := (List.range r.length).map f

/-- `x.linear_combine(y, c1, c2, start, end)` / `linear_combine_lax`: `x[i] := c1*x[i] + c2*y[i]`, `start ≤ i < end` -/
def linearCombine (x y : Row) (c1 c2 : Int) (s e : Nat) : Row :=
  tab x fun i => if s ≤ i ∧ i < e then c1 * get x i + c2 * get y i else get x i

/-- `expr.negate(first, last)` -/
def negate (x : Row) (s e : Nat) : Row :=
  tab x fun i => if s ≤ i ∧ i < e then - get x i else get x i

/-- `expr.mul_assign(c, start, end)` -/
def mulAssign (x : Row) (c : Int) (s e : Nat) : Row :=
  tab x fun i => if s ≤ i ∧ i < e then get x i * c else get x i

/-- `expr.exact_div_assign(c, start, end)` (the divisions are exact where the code uses it) -/
def exactDivAssign (x : Row) (c : Int) (s e : Nat) : Row :=
  tab x fun i => if s ≤ i ∧ i < e then get x i / c else get x i

/-- `expr *= c` -/
def mulAll (x : Row) (c : Int) : Row := tab x fun i => get x i * c

/-- `x -= y` (rows of equal size) -/
def subExpr (x y : Row) : Row := tab x fun i => get x i - get y i

/-- `sub_mul_assign(x, c, y)`: `x -= c * y` -/
def subMulAssign (x : Row) (c : Int) (y : Row) : Row := tab x fun i => get x i - c * get y i

/-- `expr.all_zeroes(start, end)` -/
def allZeroes (x : Row) (s e : Nat) : Bool := (List.range x.length).all fun i => !(s ≤ i ∧ i < e) || get x i == 0

/-! ### coefficient arithmetic -/

/-- `gcd_assign` (non-negative) -/
def gcdI (a b : Int) : Int := (Int.gcd a b : Int)
/-- `lcm_assign` (non-negative) -/
def lcmI (a b : Int) : Int := (Int.lcm a b : Int)

/-- `gcdext_assign(g, s, t, a, b)` = `mpz_gcdext`: `g = gcd(a,b) = s*a + t*b`; GMP documents which pair it
    returns: `|s| < |b|/(2g)` (and then `t = (g - s a)/b`), with the tie `|b| = 2g` broken as `s = sgn a`
    (the case `|a| = |b|`, `s = 0, t = sgn b`, is an instance).  Any Bézout pair `s0` is reduced into that
    range modulo `|b|/g`. -/
def gcdext (a b : Int) : Int × Int × Int :=
  let g : Int := gcdI a b
  let st := xgcd a b
  let g0 := st.1 * a + st.2 * b          -- `± g`
  let s0 := st.1 * g0.sign
  let m : Int := (b.natAbs : Int) / g
  let r := s0 % m
  let s := if 2 * r > m ∨ (2 * r = m ∧ a < 0) then r - m else r
  (g, s, (g - s * a) / b)

/-! ### dimension kinds (Grid_defs.hh:1985) -/

def PARAMETER : Nat := 0
def LINE : Nat := 1
def GEN_VIRTUAL : Nat := 2
def PROPER_CONGRUENCE : Nat := 0
def CON_VIRTUAL : Nat := 1
def EQUALITY : Nat := 2

/-- `dim_kinds[i]` -/
def kind (dk : List Nat) (i : Nat) : Nat := dk.getD i 0

/-- `dim_kinds.resize(n)` (new entries are value-initialised: `PARAMETER`) -/
def resizeKinds (dk : List Nat) (n : Nat) : List Nat := dk.take n ++ List.replicate (n - dk.length) 0

/-! ### rows -/

structure GRow where
  line : Bool
  e : Row
deriving Repr, Inhabited, DecidableEq, BEq

structure CRow where
  e : Row
  m : Int
deriving Repr, Inhabited, DecidableEq, BEq

/-- what the templates `reduce_pc_with_pc<R>` and `reduce_reduced<M>` use of a row: its `expr` -/
class HasExpr (R : Type) where
  expr : R → Row
  setExpr : R → Row → R

instance : HasExpr GRow := ⟨GRow.e, fun r e => { r with e := e }⟩
instance : HasExpr CRow := ⟨CRow.e, fun r e => { r with e := e }⟩

def GRow.isLine (r : GRow) : Bool := r.line
def GRow.isParameterOrPoint (r : GRow) : Bool := !r.line
/-- `is_line_or_parameter()`: the inhomogeneous term is zero (Grid_Generator_inlines.hh:215) -/
def GRow.isLineOrParameter (r : GRow) : Bool := get r.e 0 == 0
def CRow.isEquality (r : CRow) : Bool := r.m == 0
def CRow.isProperCongruence (r : CRow) : Bool := r.m > 0

/-- `Grid_Generator::set_divisor(d)` (Grid_Generator_inlines.hh:230): the last column of a parameter,
    the inhomogeneous term of a point -/
def GRow.setDivisor (r : GRow) (d : Int) : GRow :=
  if r.isLineOrParameter then { r with e := r.e.set (r.e.length - 1) d } else { r with e := r.e.set 0 d }

/-- `Congruence::scale(factor)` (Congruence.cc:103) -/
def CRow.scale (r : CRow) (f : Int) : CRow :=
  if f = 1 then r else { e := mulAll r.e f, m := r.m * f }

/-- `rows[i]` -/
def rowAt {R : Type} [Inhabited R] (rows : List R) (i : Nat) : R := rows.getD i default

/-- `swap(rows[i], rows[j])` -/
def swapRows {R : Type} [Inhabited R] (rows : List R) (i j : Nat) : List R :=
  (rows.set i (rowAt rows j)).set j (rowAt rows i)

/-! ### the `reduce_*` steps -/

/-- Grid_simplify.cc:31 `reduce_line_with_line(row, pivot, column)`; returns the new `row`.
    `pivot.expr.space_dimension()` is the index of the parameter divisor column = `pivot.e.length - 1`. -/
def reduceLineWithLine (row pivot : GRow) (column : Nat) : GRow :=
  let pivotColumn := get pivot.e column
  let rowColumn := get row.e column
  let g := gcdI pivotColumn rowColumn
  let reducedPivotCol := pivotColumn / g
  let reducedRowCol := -(rowColumn / g)
  { row with e := linearCombine row.e pivot.e reducedPivotCol reducedRowCol column (pivot.e.length - 1) }

/-- Grid_simplify.cc:58 `reduce_equality_with_equality(row, pivot, column)`; returns the new `row` -/
def reduceEqualityWithEquality (row pivot : CRow) (column : Nat) : CRow :=
  let pivotColumn := get pivot.e column
  let rowColumn := get row.e column
  let g := gcdI pivotColumn rowColumn
  let reducedPivotCol := pivotColumn / g
  let reducedRowCol := -(rowColumn / g)
  { row with e := linearCombine row.e pivot.e reducedPivotCol reducedRowCol 0 (column + 1) }

/-- Grid_simplify.cc:88 `reduce_pc_with_pc<R>(row, pivot, column, start, end)`; returns `(row, pivot)` -/
def reducePcWithPc {R : Type} [HasExpr R] (row pivot : R) (column s e : Nat) : R × R :=
  let rowE := HasExpr.expr row
  let pivotE := HasExpr.expr pivot
  let pivotColumn := get pivotE column
  let rowColumn := get rowE column
  let gst := gcdext pivotColumn rowColumn
  let gcd := gst.1
  let reducedPivotCol := pivotColumn / gcd
  let reducedRowCol := rowColumn / gcd
  let oldPivotE := pivotE
  let pivotE' := linearCombine pivotE rowE gst.2.1 gst.2.2 s e
  let rowE' := linearCombine rowE oldPivotE reducedPivotCol (-reducedRowCol) s e
  (HasExpr.setExpr row rowE', HasExpr.setExpr pivot pivotE')

/-- Grid_simplify.cc:129 `reduce_parameter_with_line(row, pivot, column, rows, total_num_columns)`
    with `row = rows[ri]`, `pivot = rows[pi]`; every parameter-or-point row may be scaled -/
def reduceParameterWithLine (rows : List GRow) (ri pi column totalNumColumns : Nat) : List GRow :=
  let row := rowAt rows ri
  let pivot := rowAt rows pi
  let pivotColumn := get pivot.e column
  let rowColumn := get row.e column
  let numColumns := totalNumColumns - 1
  if rowColumn = pivotColumn then
    rows.set ri { row with e := linearCombine row.e pivot.e 1 (-1) 0 numColumns }
  else
    let g := gcdI pivotColumn rowColumn
    let reducedPivotCol0 := pivotColumn / g
    let reducedRowCol0 := rowColumn / g
    let reducedPivotCol := if reducedPivotCol0 < 0 then -reducedPivotCol0 else reducedPivotCol0
    let reducedRowCol := if reducedPivotCol0 < 0 then -reducedRowCol0 else reducedRowCol0
    -- all parameters and points are multiplied (not the last coefficient)
    let rows1 := rows.map fun gen =>
      if gen.isParameterOrPoint then { gen with e := mulAssign gen.e reducedPivotCol 0 numColumns } else gen
    let row1 := rowAt rows1 ri
    rows1.set ri { row1 with e := linearCombine row1.e pivot.e 1 (-reducedRowCol) column numColumns }

/-- Grid_simplify.cc:190 `reduce_congruence_with_equality(row, pivot, column, sys)` with `row = sys[ri]`,
    `pivot = sys[pi]`; every proper congruence may be scaled -/
def reduceCongruenceWithEquality (sys : List CRow) (ri pi column : Nat) : List CRow :=
  let row := rowAt sys ri
  let pivot := rowAt sys pi
  let pivotColumn := get pivot.e column
  let rowColumn := get row.e column
  if rowColumn = pivotColumn then
    sys.set ri { row with e := subExpr row.e pivot.e }
  else
    let g := gcdI pivotColumn rowColumn
    let reducedPivotCol0 := pivotColumn / g
    let reducedRowCol0 := rowColumn / g
    let reducedPivotCol := if reducedPivotCol0 < 0 then -reducedPivotCol0 else reducedPivotCol0
    let reducedRowCol := if reducedPivotCol0 < 0 then -reducedRowCol0 else reducedRowCol0
    let sys1 := sys.map fun cg => if cg.isProperCongruence then cg.scale reducedPivotCol else cg
    let row1 := rowAt sys1 ri
    sys1.set ri { row1 with e := subMulAssign row1.e reducedRowCol pivot.e }

/-- Grid_simplify.cc:239 `rows_are_zero(system, first, last, row_size)` (debug builds only) -/
def rowsAreZero {R : Type} [HasExpr R] [Inhabited R] (system : List R) (first last rowSize : Nat) : Bool :=
  (List.range' first (last + 1 - first)).all fun i => allZeroes (HasExpr.expr (rowAt system i)) 0 rowSize

/-! ### `reduce_reduced` (Grid_templates.hh:276) -/

/-- `--kinds_index; while (kinds[kinds_index] == GEN_VIRTUAL) --kinds_index;` applied to `k + 1`
    (the walk stops at 0; the triangular form guarantees a non-virtual entry is met before) -/
def skipDown (dk : List Nat) : Nat → Nat
  | 0 => 0
  | k + 1 => if kind dk k = GEN_VIRTUAL then skipDown dk k else k

/-- `++kinds_index; while (kinds[kinds_index] == CON_VIRTUAL) ++kinds_index;` (stops at `dk.length`) -/
def skipUpAux (dk : List Nat) : Nat → Nat → Nat
  | 0, k => k
  | fuel + 1, k => if kind dk k = CON_VIRTUAL then skipUpAux dk fuel (k + 1) else k
def skipUp (dk : List Nat) (k : Nat) : Nat := skipUpAux dk (dk.length - (k + 1)) (k + 1)

/-- the body of the `for (kinds_index = dim, row_index = pivot_index; row_index-- > 0; )` loop,
    `n` iterations left: handles row `n - 1` -/
def reduceReducedLoop {R : Type} [HasExpr R] [Inhabited R] (generators : Bool) (dk : List Nat) (pivotE : Row)
    (pivotDim pivotDimHalf : Int) (dim s e : Nat) (rowIsLineOrEquality : Bool) (rowKind : Nat) :
    Nat → Nat → List R → List R
  | 0, _, rows => rows
  | ri + 1, ki, rows =>
    let ki' := if generators then skipDown dk ki else skipUp dk ki
    let rows' :=
      if rowIsLineOrEquality || (rowKind == PARAMETER && kind dk ki' == PARAMETER) then
        let row := rowAt rows ri
        let rowDim := get (HasExpr.expr row) dim
        let q := Int.tdiv rowDim pivotDim
        let rem := Int.tmod rowDim pivotDim
        let numRowsToSubtract :=
          if rem < 0 then (if rem ≤ -pivotDimHalf then q - 1 else q)
          else if rem > 0 ∧ rem > pivotDimHalf then q + 1 else q
        if numRowsToSubtract ≠ 0 then
          rows.set ri (HasExpr.setExpr row (linearCombine (HasExpr.expr row) pivotE 1 (-numRowsToSubtract) s (e + 1)))
        else rows
      else rows
    reduceReducedLoop generators dk pivotE pivotDim pivotDimHalf dim s e rowIsLineOrEquality rowKind ri ki' rows'

/-- Grid_templates.hh:276 `reduce_reduced<M>(rows, dim, pivot_index, start, end, sys_dim_kinds, generators)` -/
def reduceReduced {R : Type} [HasExpr R] [Inhabited R] (rows : List R) (dim pivotIndex s e : Nat) (dk : List Nat)
    (generators : Bool := true) : List R :=
  let pivotE := HasExpr.expr (rowAt rows pivotIndex)
  let pivotDim := get pivotE dim
  if pivotDim = 0 then rows
  else
    let pivotDimHalf := Int.tdiv (pivotDim + 1) 2
    let rowKind := kind dk dim
    let rowIsLineOrEquality := rowKind == (if generators then LINE else EQUALITY)
    reduceReducedLoop generators dk pivotE pivotDim pivotDimHalf dim s e rowIsLineOrEquality rowKind pivotIndex dim rows

/-! ### `Grid::simplify(Grid_Generator_System&, Dimension_Kinds&)` (Grid_simplify.cc:252) -/

/-- first row index `≥ i` (and `< numRows`) with a non-zero entry in column `dim`, else `numRows`
    (`while (row_index < num_rows && rows[row_index].expr.get(dim) == 0) ++row_index;`) -/
def findNonZero {R : Type} [HasExpr R] [Inhabited R] (rows : List R) (dim numRows : Nat) : Nat → Nat → Nat
  | 0, i => i
  | fuel + 1, i =>
    if i < numRows ∧ get (HasExpr.expr (rowAt rows i)) dim = 0 then findNonZero rows dim numRows fuel (i + 1) else i

/-- one pass of the inner `while (row_index < num_rows - 1) { ++row_index; … }` for row `ri` (Grid_simplify.cc:294-326) -/
def simplifyGenInner (dim pivotIndex numColumns : Nat) (st : List GRow × Bool) (ri : Nat) : List GRow × Bool :=
  let rows := st.1
  let pivotIsLine := st.2
  let row := rowAt rows ri
  let pivot := rowAt rows pivotIndex
  if get row.e dim = 0 then st
  else if row.isLine then
    if pivotIsLine then (rows.set ri (reduceLineWithLine row pivot dim), pivotIsLine)
    else
      -- swap(row, pivot); pivot_is_line = true;
      (reduceParameterWithLine (swapRows rows ri pivotIndex) ri pivotIndex dim (numColumns + 1), true)
  else if pivotIsLine then
    (reduceParameterWithLine rows ri pivotIndex dim (numColumns + 1), pivotIsLine)
  else
    let rp := reducePcWithPc row pivot dim dim numColumns
    ((rows.set ri rp.1).set pivotIndex rp.2, pivotIsLine)

structure GSt where
  rows : List GRow
  dk : List Nat
  pivotIndex : Nat
deriving Repr, Inhabited

/-- the body of `for (dim = 0; dim < num_columns; ++dim)` (Grid_simplify.cc:270-348) -/
def simplifyGenDim (numColumns numRows : Nat) (st : GSt) (dim : Nat) : GSt :=
  let rowIndex := findNonZero st.rows dim numRows (numRows - st.pivotIndex) st.pivotIndex
  if rowIndex = numRows then
    { st with dk := st.dk.set dim GEN_VIRTUAL }
  else
    let rows0 := if rowIndex ≠ st.pivotIndex then swapRows st.rows rowIndex st.pivotIndex else st.rows
    let pivotIsLine0 := (rowAt rows0 st.pivotIndex).isLine
    let r := (List.range' (rowIndex + 1) (numRows - 1 - rowIndex)).foldl
      (simplifyGenInner dim st.pivotIndex numColumns) (rows0, pivotIsLine0)
    let rows1 := r.1
    let dk1 := st.dk.set dim (if r.2 then LINE else PARAMETER)
    let pivot := rowAt rows1 st.pivotIndex
    let rows2 := if get pivot.e dim < 0 then rows1.set st.pivotIndex { pivot with e := negate pivot.e dim numColumns } else rows1
    let rows3 := reduceReduced rows2 dim st.pivotIndex dim (numColumns - 1) dk1
    { rows := rows3, dk := dk1, pivotIndex := st.pivotIndex + 1 }

/-- the last loop (Grid_simplify.cc:369-383 and Grid_conversion.cc:512-524):
    `for (i = rows.size() - 1, dim = top; dim > 0; --dim)` — parameters get the system divisor -/
def setDivisors (dk : List Nat) (systemDivisor : Int) : Nat → Nat → List GRow → List GRow
  | 0, _, rows => rows
  | dim + 1, i, rows =>
    if kind dk (dim + 1) = PARAMETER then
      setDivisors dk systemDivisor dim (i - 1) (rows.set i ((rowAt rows i).setDivisor systemDivisor))
    else if kind dk (dim + 1) = LINE then setDivisors dk systemDivisor dim (i - 1) rows
    else setDivisors dk systemDivisor dim i rows

/-- Grid_simplify.cc:252; `n` = `ggs.space_dimension()`; returns the rows and `dim_kinds` -/
def simplifyGens (n : Nat) (rows : List GRow) (dk : List Nat) : List GRow × List Nat :=
  let numColumns := n + 1
  let dk0 := if dk.length ≠ numColumns then resizeKinds dk numColumns else dk
  let numRows := rows.length
  let st := (List.range numColumns).foldl (simplifyGenDim numColumns numRows) { rows := rows, dk := dk0, pivotIndex := 0 }
  -- clip the zero rows
  let rows1 := if numRows > st.pivotIndex then st.rows.take st.pivotIndex else st.rows
  let systemDivisor := get (rowAt rows1 0).e 0
  (setDivisors st.dk systemDivisor (numColumns - 1) (rows1.length - 1) rows1, st.dk)

/-! ### `Grid::simplify(Congruence_System&, Dimension_Kinds&)` (Grid_simplify.cc:390) -/

/-- `Congruence_System::normalize_moduli()` (Congruence_System.cc:187): every proper congruence is
    represented with the lcm of the moduli -/
def normalizeModuli (rows : List CRow) : List CRow :=
  let lcm := rows.foldr (fun r l => if r.m > 0 then (if l = 0 then r.m else lcmI l r.m) else l) 0
  if lcm = 0 then rows
  else rows.map fun r => if r.m ≤ 0 ∨ r.m = lcm then r else r.scale (lcm / r.m)

/-- one pass of the inner `while` for row `ri` (Grid_simplify.cc:438-467) -/
def simplifyCgInner (dim pivotIndex : Nat) (st : List CRow × Bool) (ri : Nat) : List CRow × Bool :=
  let rows := st.1
  let pivotIsEquality := st.2
  let row := rowAt rows ri
  let pivot := rowAt rows pivotIndex
  if get row.e dim = 0 then st
  else if row.isEquality then
    if pivotIsEquality then (rows.set ri (reduceEqualityWithEquality row pivot dim), pivotIsEquality)
    else
      (reduceCongruenceWithEquality (swapRows rows ri pivotIndex) ri pivotIndex dim, true)
  else if pivotIsEquality then
    (reduceCongruenceWithEquality rows ri pivotIndex dim, pivotIsEquality)
  else
    let rp := reducePcWithPc row pivot dim 0 (dim + 1)
    ((rows.set ri rp.1).set pivotIndex rp.2, pivotIsEquality)

structure CSt where
  rows : List CRow
  dk : List Nat
  pivotIndex : Nat
deriving Repr, Inhabited

/-- the body of `for (dim = num_columns; dim-- > 0; )` (Grid_simplify.cc:412-491) -/
def simplifyCgDim (numRows : Nat) (st : CSt) (dim : Nat) : CSt :=
  let rowIndex := findNonZero st.rows dim numRows (numRows - st.pivotIndex) st.pivotIndex
  if rowIndex = numRows then
    { st with dk := st.dk.set dim CON_VIRTUAL }
  else
    let rows0 := if rowIndex ≠ st.pivotIndex then swapRows st.rows rowIndex st.pivotIndex else st.rows
    let pivotIsEquality0 := (rowAt rows0 st.pivotIndex).isEquality
    let r := (List.range' (rowIndex + 1) (numRows - 1 - rowIndex)).foldl
      (simplifyCgInner dim st.pivotIndex) (rows0, pivotIsEquality0)
    let rows1 := r.1
    let dk1 := st.dk.set dim (if r.2 then EQUALITY else PROPER_CONGRUENCE)
    let pivot := rowAt rows1 st.pivotIndex
    let rows2 := if get pivot.e dim < 0 then rows1.set st.pivotIndex { pivot with e := negate pivot.e 0 (dim + 1) } else rows1
    let rows3 := reduceReduced rows2 dim st.pivotIndex 0 dim dk1 false
    { rows := rows3, dk := dk1, pivotIndex := st.pivotIndex + 1 }

/-- the integrality congruence `1 ≡ 0 (mod 1)` of an `n`-dimensional system with modulus `m`: `m ≡ 0 (mod m)` -/
def integralityRow (n : Nat) (m : Int) : CRow := { e := m :: List.replicate n 0, m := m }

/-- `while (row_index-- > 0) if (cgs[row_index].modulus() > 0) { use it; break; }` (Grid_simplify.cc:587-594) -/
def lastModulus (rows : List CRow) : Int :=
  match rows.reverse.find? (fun r => r.m > 0) with
  | some r => r.m
  | none => 1

/-- the tail of the function after the emptiness test (Grid_simplify.cc:579-608) -/
def simplifyCgsTail (n : Nat) (rows : List CRow) (dk : List Nat) : List CRow × List Nat × Bool :=
  let r :=
    if kind dk 0 = CON_VIRTUAL then
      (rows ++ [integralityRow n (lastModulus rows)], dk.set 0 PROPER_CONGRUENCE)
    else
      let last := rowAt rows (rows.length - 1)
      (rows.set (rows.length - 1) { last with e := last.e.set 0 last.m }, dk)
  (reduceReduced r.1 0 (r.1.length - 1) 0 0 r.2 false, r.2, false)

/-- Grid_simplify.cc:390; `n` = `cgs.space_dimension()`; returns the rows, `dim_kinds` and the flag -/
def simplifyCgs (n : Nat) (rows : List CRow) (dk : List Nat) : List CRow × List Nat × Bool :=
  let rowsN := normalizeModuli rows
  let numColumns := n + 1
  let dk0 := if dk.length ≠ numColumns then resizeKinds dk numColumns else dk
  let numRows := rowsN.length
  let st := ((List.range numColumns).reverse).foldl (simplifyCgDim numRows) { rows := rowsN, dk := dk0, pivotIndex := 0 }
  if st.pivotIndex > 0 then
    let rows1 := st.rows.take st.pivotIndex
    let lastRow := rowAt rows1 (rows1.length - 1)
    if kind st.dk 0 = PROPER_CONGRUENCE ∧ Int.tmod (get lastRow.e 0) lastRow.m = 0 then
      simplifyCgsTail n rows1 st.dk
    else if kind st.dk 0 = PROPER_CONGRUENCE ∨ kind st.dk 0 = EQUALITY then
      -- the last row is false: it becomes the equality `1 = 0`, the only row
      let falseRow : CRow := { e := lastRow.e.set 0 1, m := 0 }
      ([falseRow], [EQUALITY], true)
    else simplifyCgsTail n rows1 st.dk
  else
    -- every column before the modulus column contains only zeroes
    let dk1 := st.dk.set 0 PROPER_CONGRUENCE
    if numRows = 0 then
      ([integralityRow n 1], dk1, false)
    else
      let rows1 := st.rows.take 1
      let last := rowAt rows1 (rows1.length - 1)
      simplifyCgsTail n (rows1.set (rows1.length - 1) { last with m := 1 }) dk1

end PPLV.Lattice.Red
