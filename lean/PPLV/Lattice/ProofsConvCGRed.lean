import PPLV.Lattice.ProofsConvCGLoop

/-!
# `Grid::conversion` (congruences → generators): the final `reduce_reduced` loop keeps the final rows

`reduce_reduced` (generators) subtracts multiples of the pivot row (the row of `dim`) from the rows before it, in
the columns `dim .. dims-1` (the pivot vanishes before `dim`).  With a line pivot every row may be reduced (the
products of a line with the source rows vanish), with a parameter pivot only the parameter rows are: the products stay
in `L·ℤ`, the products with the equalities stay `0`, the products of the lines stay `0`, the rows stay triangular and
the inhomogeneous term of the point is not touched.
-/
namespace PPLV.Lattice.Red

theorem cg_expr_grow (g : GRow) : HasExpr.expr g = g.e := rfl
theorem cg_setExpr_grow (g : GRow) (e : Row) : HasExpr.setExpr g e = { g with e := e } := rfl

section
variable (source : List CRow) (dk : List Nat) (dims : Nat)

/-- `skipDown` finds the dimension of the previous dest row -/
theorem cg_skipDown_spec : ∀ ki, 0 < nv dk ki →
    skipDown dk ki < ki ∧ nvB dk (skipDown dk ki) = true ∧ nv dk (skipDown dk ki) + 1 = nv dk ki
  | 0, h => by simp [nv, cntBelow] at h
  | k + 1, h => by
    unfold skipDown
    by_cases hv : kind dk k = GEN_VIRTUAL
    · have hvb : nvB dk k = false := by simp [nvB, hv]
      have e1 := cntBelow_succ_neg (nvB dk) k hvb
      rw [if_pos hv]
      obtain ⟨a1, a2, a3⟩ := cg_skipDown_spec k (by simp only [nv] at *; omega)
      exact ⟨by omega, a2, by simp only [nv] at *; omega⟩
    · have hvb : nvB dk k = true := by simp [nvB, hv]
      have e1 := cntBelow_succ_pos (nvB dk) k hvb
      rw [if_neg hv]
      exact ⟨by omega, hvb, by simp only [nv] at *; omega⟩

theorem GFinalOK_set (L D0 : Int) (T : List GRow) (hT : GFinalOK source dk dims L D0 T) (q0 : Nat) (hq0 : q0 < dims)
    (hl0 : nvB dk q0 = true) (g' : GRow) (hg' : GFinRow source dk dims L D0 q0 g') :
    GFinalOK source dk dims L D0 (T.set (nv dk q0) g') := by
  refine ⟨by simp [hT.len], fun q hq hql => ?_⟩
  rw [rowAt_set]
  by_cases h : nv dk q = nv dk q0
  · have := cg_nv_inj dk q q0 hql hl0 h
    subst this
    rw [if_pos ⟨rfl, by rw [hT.len]; exact (cg_nv_lt_iff dk q dims hql).mpr hq⟩]
    exact hg'
  · rw [if_neg (fun hc => h hc.1)]
    exact hT.rows q hq hql

/-- one row reduced by the pivot `P` (the row of `dim`) -/
theorem cg_rowReduce_final (L D0 : Int) (P : Row) (dim : Nat) (hdim : dim < dims)
    (hPtri : ∀ k, k < dim → get P k = 0)
    (hPprod : ∀ p, p < dims → nlB dk p = true →
      (kind dk p = EQUALITY → dotUpto P (rowAt source (pos dk dims p)).e dims = 0) ∧
        L ∣ dotUpto P (rowAt source (pos dk dims p)).e dims)
    (T : List GRow) (hT : GFinalOK source dk dims L D0 T) (q : Nat) (hq : q < dims) (hql : nvB dk q = true)
    (hdq : q < dim)
    (hzero : nlB dk q = false → ∀ p, p < dims → nlB dk p = true → dotUpto P (rowAt source (pos dk dims p)).e dims = 0)
    (num : Int) :
    GFinalOK source dk dims L D0
      (if num ≠ 0 then
        T.set (nv dk q) (HasExpr.setExpr (rowAt T (nv dk q))
          (linearCombine (HasExpr.expr (rowAt T (nv dk q))) P 1 (-num) dim (dims - 1 + 1)))
       else T) := by
  by_cases hn : num ≠ 0
  · rw [if_pos hn, cg_expr_grow, cg_setExpr_grow]
    apply GFinalOK_set source dk dims L D0 T hT _ hq hql
    have R := hT.rows _ hq hql
    have hget : ∀ k, k < dims → get (linearCombine (rowAt T (nv dk q)).e P 1 (-num) dim (dims - 1 + 1)) k =
        get (rowAt T (nv dk q)).e k - num * get P k := by
      intro k hk
      rw [get_linearCombine]
      by_cases hc : dim ≤ k
      · rw [if_pos ⟨by rw [R.len]; omega, hc, by omega⟩]; ring
      · rw [if_neg (fun h => hc h.2.1), hPtri k (by omega)]; ring
    refine ⟨by simp [R.len], R.lnv, R.lnp, fun k hk => ?_, ?_, fun h0 => ?_, fun p hp hpv => ?_⟩
    · simp only []
      rw [hget k (by omega), R.tri k hk, hPtri k (by omega)]; ring
    · simp only []
      rw [hget q hq, hPtri q hdq]
      have := R.diag
      omega
    · simp only []
      rw [hget 0 (by omega), hPtri 0 (by omega), R.c0 h0]; ring
    · simp only []
      rw [dotUpto_sub _ _ P _ num dims (fun k hk => hget k hk)]
      obtain ⟨r1, r2, r3⟩ := R.prod p hp hpv
      obtain ⟨p1, p2⟩ := hPprod p hp hpv
      refine ⟨fun heq => by rw [r1 heq, p1 heq]; ring, fun hv => ?_, ?_⟩
      · rw [r2 hv, hzero hv p hp hpv]; ring
      · exact Int.dvd_sub r3 (Dvd.dvd.mul_left p2 _)
  · rw [if_neg hn]; exact hT

/-- the loop of `reduce_reduced` (generators) keeps the final rows -/
theorem cg_reduceReducedLoop_final (L D0 : Int) (P : Row) (pd half : Int) (dim : Nat) (hdim : dim < dims) (rl : Bool)
    (rk : Nat)
    (hPtri : ∀ k, k < dim → get P k = 0)
    (hPprod : ∀ p, p < dims → nlB dk p = true →
      (kind dk p = EQUALITY → dotUpto P (rowAt source (pos dk dims p)).e dims = 0) ∧
        L ∣ dotUpto P (rowAt source (pos dk dims p)).e dims)
    (hP0 : rl = true → ∀ p, p < dims → nlB dk p = true → dotUpto P (rowAt source (pos dk dims p)).e dims = 0) :
    ∀ (ri ki : Nat) (T : List GRow), ki ≤ dim → ri = nv dk ki →
      GFinalOK source dk dims L D0 T →
      GFinalOK source dk dims L D0 (reduceReducedLoop true dk P pd half dim dim (dims - 1) rl rk ri ki T)
  | 0, ki, T, _, _, hT => by simpa [reduceReducedLoop] using hT
  | ri + 1, ki, T, hki, hri, hT => by
    rw [reduceReducedLoop]
    simp only [if_true]
    obtain ⟨s1, s2, s3⟩ := cg_skipDown_spec dk ki (by omega)
    have s4 : ri = nv dk (skipDown dk ki) := by omega
    refine cg_reduceReducedLoop_final L D0 P pd half dim hdim rl rk hPtri hPprod hP0 ri (skipDown dk ki) _ (by omega) s4 ?_
    subst s4
    by_cases hcond : (rl || (rk == PARAMETER && kind dk (skipDown dk ki) == PARAMETER)) = true
    · rw [if_pos hcond]
      refine cg_rowReduce_final source dk dims L D0 P dim hdim hPtri hPprod T hT (skipDown dk ki) (by omega) s2 (by omega) ?_ _
      intro hv
      rcases (Bool.or_eq_true _ _).mp hcond with h | h
      · exact hP0 h
      · exfalso
        simp only [Bool.and_eq_true, beq_iff_eq] at h
        simp [nlB, h.2, PARAMETER, LINE] at hv
    · rw [if_neg hcond]; exact hT

theorem cg_reduceReduced_final (L D0 : Int) (T : List GRow) (hT : GFinalOK source dk dims L D0 T) (d : Nat) (hd : d < dims)
    (hl : nvB dk d = true) :
    GFinalOK source dk dims L D0 (reduceReduced T d (nv dk d) d (dims - 1) dk) := by
  unfold reduceReduced
  simp only [cg_expr_grow]
  split
  · exact hT
  · have R := hT.rows d hd hl
    refine cg_reduceReducedLoop_final source dk dims L D0 _ _ _ d hd _ _ R.tri
      (fun p hp hpv => ⟨(R.prod p hp hpv).1, (R.prod p hp hpv).2.2⟩) ?_ (nv dk d) d T (Nat.le_refl _) rfl hT
    intro hrl p hp hpv
    apply (R.prod p hp hpv).2.1
    simp only [if_true, beq_iff_eq] at hrl
    simp [nlB, hrl]

def cgReduceStep (dk : List Nat) (dims : Nat) (st : Nat × List GRow) (dim : Nat) : Nat × List GRow :=
  if kind dk dim ≠ GEN_VIRTUAL then (st.1 + 1, reduceReduced st.2 dim st.1 dim (dims - 1) dk) else st

theorem cgReduce_eq (dest : List GRow) :
    cgReduce dk dims dest = ((List.range dims).foldl (cgReduceStep dk dims) (0, dest)).2 := rfl

theorem cgReduce_final (L D0 : Int) (T : List GRow) (hT : GFinalOK source dk dims L D0 T) :
    GFinalOK source dk dims L D0 (cgReduce dk dims T) := by
  rw [cgReduce_eq]
  have key := cg_foldl_range_inv (cgReduceStep dk dims)
    (fun d st => st.1 = nv dk d ∧ GFinalOK source dk dims L D0 st.2) dims (0, T) ⟨rfl, hT⟩ ?_
  · exact key.2
  · rintro d st hd ⟨h1, h2⟩
    unfold cgReduceStep
    by_cases hl : kind dk d = GEN_VIRTUAL
    · have hlb : nvB dk d = false := by simp [nvB, hl]
      have e1 := cntBelow_succ_neg (nvB dk) d hlb
      simp only [hl, ne_eq, not_true_eq_false, if_false]
      exact ⟨by simp only [nv] at *; omega, h2⟩
    · have hlb : nvB dk d = true := by simp [nvB, hl]
      have e1 := cntBelow_succ_pos (nvB dk) d hlb
      simp only [hl, ne_eq, not_false_eq_true, if_true]
      refine ⟨by simp only [nv] at *; omega, ?_⟩
      rw [h1]
      exact cg_reduceReduced_final source dk dims L D0 st.2 h2 d hd hlb

end

end PPLV.Lattice.Red
