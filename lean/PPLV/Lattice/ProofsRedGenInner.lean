import PPLV.Lattice.ProofsRedGenStepPL

/-!
# The inner `while` loop of `Grid::simplify(Grid_Generator_System&)` (Grid_simplify.cc:294-326)
-/
namespace PPLV.Lattice.Red
open PPLV.Lattice

/-- invariant of the inner loop: rows `p+1 .. m-1` have been cleared in column `dim` -/
structure IInv (n p dim numRows m : Nat) (st : List GRow × Bool) : Prop where
  len : st.1.length = numRows
  wf : WfI n st.1
  zero : ZeroPre p dim st.1
  pivNZ : get (rowAt st.1 p).e dim ≠ 0
  flag : st.2 = (rowAt st.1 p).line
  done : ∀ i, p < i → i < m → get (rowAt st.1 i).e dim = 0

theorem inner_eq (dim p n : Nat) (rows : List GRow) (flag : Bool) (m : Nat) :
    simplifyGenInner dim p (n + 1) (rows, flag) m =
      if get (rowAt rows m).e dim = 0 then (rows, flag)
      else if (rowAt rows m).line = true then
        if flag = true then (rows.set m (reduceLineWithLine (rowAt rows m) (rowAt rows p) dim), flag)
        else (reduceParameterWithLine (swapRows rows m p) m p dim (n + 1 + 1), true)
      else if flag = true then (reduceParameterWithLine rows m p dim (n + 1 + 1), flag)
      else ((rows.set m (reducePcWithPc (rowAt rows m) (rowAt rows p) dim dim (n + 1)).1).set p
              (reducePcWithPc (rowAt rows m) (rowAt rows p) dim dim (n + 1)).2, flag) := rfl

theorem iinv_of_istep {n p dim numRows m D : Nat} {rows rows' : List GRow} {f f' : Bool}
    (h : IInv n p dim numRows m (rows, f)) (hpm : p < m) (hm : m < numRows)
    (hs : IStep n p dim m rows rows') (hf : f' = (rowAt rows' p).line) :
    IInv n p dim numRows (m + 1) (rows', f') ∧ PreRel p D rows rows' ∧ HomSim n rows rows' := by
  have hlen : rows.length = numRows := h.len
  refine ⟨⟨hs.len.trans hlen, hs.wf, hs.zero, hs.pivNZ, hf, ?_⟩, ?_, hs.hom⟩
  · intro i hpi hi
    by_cases e : i = m
    · rw [e]; exact hs.rowZ
    · have h1 := (hs.other i (by omega) e (by omega)).2 dim
      have h2 : get (rowAt rows i).e dim = 0 := h.done i hpi (by omega)
      show get (rowAt rows' i).e dim = 0
      rw [h2, Int.sign_zero] at h1
      exact Int.sign_eq_zero_iff_zero.mp h1
  · intro j hj
    have := hs.other j (by omega) (by omega) (by omega)
    exact ⟨this.1, fun c _ => this.2 c⟩

/-- one pass of the inner loop -/
theorem inner_step {n p dim numRows m D : Nat} {st : List GRow × Bool} (h : IInv n p dim numRows m st)
    (hpm : p < m) (hm : m < numRows) (hdim : dim ≤ n) :
    IInv n p dim numRows (m + 1) (simplifyGenInner dim p (n + 1) st m) ∧
      PreRel p D st.1 (simplifyGenInner dim p (n + 1) st m).1 ∧
      HomSim n st.1 (simplifyGenInner dim p (n + 1) st m).1 := by
  obtain ⟨rows, flag⟩ := st
  have hlen : rows.length = numRows := h.len
  have hwf : WfI n rows := h.wf
  have hz : ZeroPre p dim rows := h.zero
  have hpc : get (rowAt rows p).e dim ≠ 0 := h.pivNZ
  have hflag : flag = (rowAt rows p).line := h.flag
  have hri : m < rows.length := by omega
  have hp : p < rows.length := by omega
  have hne : m ≠ p := by omega
  have hpr : p ≤ m := by omega
  rw [inner_eq]
  by_cases h0 : get (rowAt rows m).e dim = 0
  · rw [if_pos h0]
    refine ⟨⟨hlen, hwf, hz, hpc, hflag, ?_⟩, PreRel.refl _ _ _, HomSim.refl _ _⟩
    intro i hpi hi
    by_cases e : i = m
    · rw [e]; exact h0
    · exact h.done i hpi (by omega)
  · rw [if_neg h0]
    by_cases hl : (rowAt rows m).line = true
    · rw [if_pos hl]
      by_cases hf : flag = true
      · rw [if_pos hf]
        have hl2 : (rowAt rows p).line = true := by rw [← hflag]; exact hf
        have hs := step_LL hri hp hne hpr hwf hz hdim hpc hl hl2
        refine iinv_of_istep h hpm hm hs ?_
        rw [rowAt_set, if_neg (fun e => hne e.1.symm)]; exact hflag
      · rw [if_neg hf]
        have hl2 : (rowAt rows p).line = false := by
          rw [← hflag]; cases flag
          · rfl
          · exact absurd rfl hf
        obtain ⟨s1, s2, s3, s4, s5, s6, s7⟩ := swap_spec (n := n) (dim := dim) hri hp hpr hwf hz
        have hri' : m < (swapRows rows m p).length := by rw [s1]; exact hri
        have hp' : p < (swapRows rows m p).length := by rw [s1]; exact hp
        obtain ⟨hs, hfl⟩ := step_PL hri' hp' hne hpr s2 s3 hdim (by rw [s6]; exact h0) (by rw [s5]; exact hl2)
          (by rw [s6]; exact hl)
        have hs' : IStep n p dim m rows (reduceParameterWithLine (swapRows rows m p) m p dim (n + 1 + 1)) :=
          { len := hs.len.trans s1
            wf := hs.wf
            zero := hs.zero
            other := by
              intro i hi h1 h2
              have := hs.other i (by rw [s1]; exact hi) h1 h2
              rw [s4 i h1 h2] at this
              exact this
            hom := (HomSim.of_iff s7).trans hs.hom
            pivNZ := hs.pivNZ
            rowZ := hs.rowZ }
        exact iinv_of_istep h hpm hm hs' hfl.symm
    · rw [if_neg hl]
      have hl1 : (rowAt rows m).line = false := by
        cases hh : (rowAt rows m).line
        · rfl
        · exact absurd hh hl
      by_cases hf : flag = true
      · rw [if_pos hf]
        have hl2 : (rowAt rows p).line = true := by rw [← hflag]; exact hf
        obtain ⟨hs, hfl⟩ := step_PL hri hp hne hpr hwf hz hdim hpc hl1 hl2
        exact iinv_of_istep h hpm hm hs (by rw [hfl]; exact hf)
      · rw [if_neg hf]
        have hl2 : (rowAt rows p).line = false := by
          rw [← hflag]; cases flag
          · rfl
          · exact absurd rfl hf
        obtain ⟨hs, hfl⟩ := step_PP hri hp hne hpr hwf hz hdim hpc h0 hl1 hl2
        exact iinv_of_istep h hpm hm hs (by rw [hfl, hflag, hl2])

/-- the whole inner loop over the rows `m, …, m + len - 1` -/
theorem inner_fold {n p dim numRows D : Nat} (hdim : dim ≤ n) :
    ∀ (len m : Nat) (st : List GRow × Bool), IInv n p dim numRows m st → p < m → m + len ≤ numRows →
      IInv n p dim numRows (m + len) ((List.range' m len).foldl (simplifyGenInner dim p (n + 1)) st) ∧
      PreRel p D st.1 ((List.range' m len).foldl (simplifyGenInner dim p (n + 1)) st).1 ∧
      HomSim n st.1 ((List.range' m len).foldl (simplifyGenInner dim p (n + 1)) st).1 := by
  intro len
  induction len with
  | zero =>
    intro m st h _ _
    exact ⟨h, PreRel.refl _ _ _, HomSim.refl _ _⟩
  | succ len ih =>
    intro m st h hpm hml
    rw [List.range'_succ, List.foldl_cons]
    obtain ⟨h1, h2, h3⟩ := inner_step (D := D) h hpm (by omega) hdim
    obtain ⟨k1, k2, k3⟩ := ih (m + 1) _ h1 (by omega) (by omega)
    refine ⟨?_, h2.trans k2, h3.trans k3⟩
    have : m + (len + 1) = m + 1 + len := by omega
    rw [this]; exact k1

end PPLV.Lattice.Red
