import PPLV.Lattice.ProofsGridOpsCon10
import PPLV.Lattice.ProofsGridOpsCon12

/-!
# `Grid` stage 3, congruence side, part 14: the congruence systems of `add_space_dimensions_and_embed/project`
# (`Congruence_System::set_space_dimension` to a larger dimension, `add_unit_rows_and_space_dimensions`,
# Congruence_System.cc:467)
-/
namespace PPLV.Lattice.GO
open PPLV.Lattice PPLV.Lattice.Red

/-- `S` of the `n`-space embedded in the `(n+m)`-space: the new coordinates are free -/
def cn_embedSet (n m : Nat) (S : Set Pt) : Set Pt := {y | Supp (n + m) y ∧ cn_fst n y ∈ S}

theorem cn_embedSet_empty (n m : Nat) : cn_embedSet n m ∅ = ∅ := by ext y; simp [cn_embedSet]

theorem cn_embedSet_space (m : Nat) : cn_embedSet 0 m (spaceSet 0) = spaceSet m := by
  ext y
  simp only [cn_embedSet, spaceSet, Set.mem_ofPred_eq, Nat.zero_add]
  exact ⟨fun h => h.1, fun h => ⟨h, cn_fst_supp 0 y⟩⟩

/-- the rows padded to a larger dimension: the embedding -/
theorem cn_pad_consSet (n m : Nat) (rows : List CRow) (hw : CWf n rows) :
    consSet (n + m) (rows.map (·.setSpaceDim (n + m))) = cn_embedSet n m (consSet n rows) := by
  ext y
  simp only [cn_mem_consSet, cn_embedSet, Set.mem_ofPred_eq, List.mem_map, forall_exists_index, and_imp,
    forall_apply_eq_imp_iff₂, cn_mem_set]
  constructor
  · rintro ⟨hy, hall⟩
    exact ⟨hy, cn_fst_supp n y, fun r hr => (cn_rsem_pad_fst n (n + m) r (hw r hr).1.le (by omega) y).mp (hall r hr)⟩
  · rintro ⟨hy, _, hall⟩
    exact ⟨hy, fun r hr => (cn_rsem_pad_fst n (n + m) r (hw r hr).1.le (by omega) y).mpr (hall r hr)⟩

theorem cn_CSys_setSpaceDim_rows (s : CSys) (k : Nat) (hk : s.dim ≠ k) :
    (s.setSpaceDim k).rows = s.rows.map (·.setSpaceDim k) := by
  unfold CSys.setSpaceDim; rw [if_pos hk]

/-- `con_sys.set_space_dimension(n + m)`: the embedding -/
theorem cn_CSys_embed_consSet (s : CSys) (m : Nat) (hm : 0 < m) (hw : CWf s.dim s.rows) :
    consSet (s.dim + m) (s.setSpaceDim (s.dim + m)).rows = cn_embedSet s.dim m (consSet s.dim s.rows) := by
  rw [cn_CSys_setSpaceDim_rows s _ (by omega), cn_pad_consSet s.dim m s.rows hw]

/-! ### `add_unit_rows_and_space_dimensions` -/

/-- the equality `x_j = 0` as `add_unit_rows_and_space_dimensions` writes it -/
def cn_unitRow (dim j : Nat) : CRow := { e := (List.replicate (dim + 1) 0).set (j + 1) 1, m := 0 }

theorem cn_unitRow_rsem (dim j : Nat) (hj : j < dim) (y : Pt) : rsem (cn_unitRow dim j) y ↔ y j = 0 := by
  unfold rsem cn_unitRow
  simp only
  rw [cn_evalRow_set _ y j 1 (by simp; omega)]
  have hz : evalRow (List.replicate (dim + 1) 0) y = 0 := by
    unfold evalRow; exact dotF_ratRow_zero _ _ (fun i => by
      unfold Red.get; simp [List.getD_eq_getElem?_getD, List.getElem?_replicate]; split <;> rfl)
  have hg : Red.get (List.replicate (dim + 1) (0 : Int)) (j + 1) = 0 := by
    unfold Red.get; simp [List.getD_eq_getElem?_getD, List.getElem?_replicate]; split <;> rfl
  rw [hz, hg]
  simp

theorem cn_addUnitRows_eq (s : CSys) (m : Nat) (hm : 0 < m) :
    (s.addUnitRowsAndSpaceDimensions m).dim = s.dim + m ∧
    (s.addUnitRowsAndSpaceDimensions m).rows =
      (List.range m).map (fun row => cn_unitRow (s.dim + m) (s.dim + m - row - 1)) ++
        s.rows.map (·.setSpaceDim (s.dim + m)) := by
  unfold CSys.addUnitRowsAndSpaceDimensions
  simp only [cn_CSys_setSpaceDim_dim, cn_CSys_setSpaceDim_rows s _ (show s.dim ≠ s.dim + m by omega)]
  trivial

theorem cn_addUnitRows_CWf (s : CSys) (m : Nat) (hm : 0 < m) (hw : CWf s.dim s.rows) :
    CWf (s.dim + m) (s.addUnitRowsAndSpaceDimensions m).rows := by
  rw [(cn_addUnitRows_eq s m hm).2]
  refine cn_CWf_append _ _ _ ?_ (cn_CWf_map_setSpaceDim _ _ (fun r hr => (hw r hr).2))
  intro r hr
  obtain ⟨row, _, rfl⟩ := List.mem_map.mp hr
  exact ⟨by simp [cn_unitRow], le_refl _⟩

/-- `add_unit_rows_and_space_dimensions(m)`: the same points (the new coordinates are zero) -/
theorem cn_addUnitRows_consSet (s : CSys) (m : Nat) (hm : 0 < m) (hw : CWf s.dim s.rows) :
    consSet (s.dim + m) (s.addUnitRowsAndSpaceDimensions m).rows = consSet s.dim s.rows := by
  rw [(cn_addUnitRows_eq s m hm).2]
  ext y
  simp only [cn_mem_consSet, List.mem_append, List.mem_map, List.mem_range, cn_mem_set]
  constructor
  · rintro ⟨hy, hall⟩
    have hsupp : Supp s.dim y := by
      intro i hi
      by_cases hi2 : s.dim + m ≤ i
      · exact hy i hi2
      · have := hall (cn_unitRow (s.dim + m) (s.dim + m - (s.dim + m - i - 1) - 1))
          (Or.inl ⟨s.dim + m - i - 1, by omega, rfl⟩)
        rw [cn_unitRow_rsem _ _ (by omega)] at this
        have he : s.dim + m - (s.dim + m - i - 1) - 1 = i := by omega
        rw [he] at this; exact this
    refine ⟨hsupp, fun r hr => ?_⟩
    have := hall (r.setSpaceDim (s.dim + m)) (Or.inr ⟨r, hr, rfl⟩)
    rw [cn_rsem_pad_fst s.dim _ r (hw r hr).1.le (by omega) y, cn_fst_of_supp s.dim y hsupp] at this
    exact this
  · rintro ⟨hy, hall⟩
    refine ⟨fun i hi => hy i (by omega), fun r' hr' => ?_⟩
    rcases hr' with ⟨row, hrow, rfl⟩ | ⟨r, hr, rfl⟩
    · rw [cn_unitRow_rsem _ _ (by omega)]; exact hy _ (by omega)
    · rw [cn_rsem_pad_fst s.dim _ r (hw r hr).1.le (by omega) y, cn_fst_of_supp s.dim y hy]; exact hall r hr

example : ((CSys.mk 1 [{ e := [0, 1], m := 2 }]).addUnitRowsAndSpaceDimensions 2).rows =
    [{ e := [0, 0, 0, 1], m := 0 }, { e := [0, 0, 1, 0], m := 0 }, { e := [0, 1, 0, 0], m := 2 }] := by decide

/-! ### `std::vector::resize(n, val)` on `dim_kinds` -/

theorem cn_resizeKindsWith_length (dk : List Nat) (k val : Nat) : (resizeKindsWith dk k val).length = k := by
  unfold resizeKindsWith; simp; omega

theorem cn_resizeKindsWith_kind (dk : List Nat) (k val i : Nat) (hi : i < dk.length) (hk : dk.length ≤ k) :
    kind (resizeKindsWith dk k val) i = kind dk i := by
  unfold resizeKindsWith kind
  rw [List.take_of_length_le hk, List.getD_eq_getElem?_getD, List.getD_eq_getElem?_getD, List.getElem?_append_left hi]

end PPLV.Lattice.GO
