import PPLV.Lattice.ProofsGridOpsCon3

/-!
# `Grid` stage 3, congruence-side mutators, part 10: `Congruence_System::concatenate(y)` (Congruence_System.cc:490) —
# the solutions of the concatenation are the product of the solutions
-/
namespace PPLV.Lattice.GO
open PPLV.Lattice PPLV.Lattice.Red

/-- the first `n` coordinates of a point -/
def cn_fst (n : Nat) (z : Pt) : Pt := fun i => if i < n then z i else 0
/-- the coordinates from `n` on -/
def cn_snd (n : Nat) (z : Pt) : Pt := fun i => z (n + i)

/-- the product of a set of the `n`-space and a set of the `m`-space, in the `(n+m)`-space -/
def cn_prodSet (n m : Nat) (A B : Set Pt) : Set Pt := {z | Supp (n + m) z ∧ cn_fst n z ∈ A ∧ cn_snd n z ∈ B}

theorem cn_fst_supp (n : Nat) (z : Pt) : Supp n (cn_fst n z) := fun i hi => by simp [cn_fst]; omega
theorem cn_snd_supp (n m : Nat) (z : Pt) (h : Supp (n + m) z) : Supp m (cn_snd n z) := fun i hi => h _ (by omega)

theorem cn_fst_of_supp (n : Nat) (z : Pt) (h : Supp n z) : cn_fst n z = z := by
  funext i; unfold cn_fst; split
  · rfl
  · exact (h i (by omega)).symm

theorem cn_snd_zero (z : Pt) : cn_snd 0 z = z := by funext i; simp [cn_snd]

/-! ### rows -/

/-- the value of a row only reads the coordinates the row has coefficients for -/
theorem cn_evalRow_agree (e : Row) (x y : Pt) (h : ∀ i, i + 1 < e.length → x i = y i) : evalRow e x = evalRow e y := by
  unfold evalRow
  apply dotF_agree
  intro i hi
  cases i with
  | zero => rfl
  | succ i => exact h i (by simpa [ratRow] using hi)

theorem cn_dotF_shift (n : Nat) (e : Row) (y : Pt) :
    dotF (ratRow (List.replicate n 0 ++ e)) y = dotF (ratRow e) (fun i => y (n + i)) := by
  induction n generalizing y with
  | zero => simp
  | succ n ih =>
    have : List.replicate (n + 1) (0 : Int) ++ e = 0 :: (List.replicate n 0 ++ e) := rfl
    rw [this]
    simp only [ratRow, List.map_cons, dotF_cons] at ih ⊢
    rw [ih y.tail]
    have : (fun i => y.tail (n + i)) = fun i => y (n + 1 + i) := by
      funext i; show y (n + i + 1) = _; congr 1; omega
    rw [this]; simp

/-- the row of `y` as `concatenate` stores it -/
def cn_shiftRow (oldDim yDim : Nat) (r : CRow) : CRow :=
  { r with e := Red.get r.e 0 :: (List.replicate oldDim 0 ++ (resizeRow r.e (yDim + 1)).drop 1) }

theorem cn_shiftRow_length (n m : Nat) (r : CRow) : (cn_shiftRow n m r).e.length = n + m + 1 := by
  simp [cn_shiftRow, cn_resizeRow_length]

theorem cn_evalRow_shift (n m : Nat) (r : CRow) (hl : r.e.length ≤ m + 1) (z : Pt) :
    evalRow (cn_shiftRow n m r).e z = evalRow r.e (cn_snd n z) := by
  rw [← cn_evalRow_resize_pad r.e (m + 1) hl (cn_snd n z)]
  rw [evalRow_eq, evalRow_eq]
  have h0 : Red.get (resizeRow r.e (m + 1)) 0 = Red.get r.e 0 := by rw [cn_get_resizeRow, if_pos (by omega)]
  have ht : (ratRow (resizeRow r.e (m + 1))).tail = ratRow ((resizeRow r.e (m + 1)).drop 1) := by
    unfold ratRow; rw [List.drop_one, List.map_tail]
  rw [h0, ht]
  simp only [cn_shiftRow, ratRow, List.map_cons, List.tail_cons, get_cons_zero]
  have := cn_dotF_shift n ((resizeRow r.e (m + 1)).drop 1) z
  simp only [ratRow] at this
  rw [this]; rfl

theorem cn_rsem_shift (n m : Nat) (r : CRow) (hl : r.e.length ≤ m + 1) (z : Pt) :
    rsem (cn_shiftRow n m r) z ↔ rsem r (cn_snd n z) := by
  unfold rsem; rw [cn_evalRow_shift n m r hl z]; rfl

theorem cn_rsem_pad_fst (n k : Nat) (r : CRow) (hl : r.e.length ≤ n + 1) (hk : n ≤ k) (z : Pt) :
    rsem (r.setSpaceDim k) z ↔ rsem r (cn_fst n z) := by
  unfold rsem CRow.setSpaceDim
  simp only [cn_evalRow_resize_pad r.e (k + 1) (by omega) z]
  rw [cn_evalRow_agree r.e z (cn_fst n z) (fun i hi => by simp [cn_fst]; intro h; omega)]

/-! ### systems -/

theorem cn_concatenate_eq (s y : CSys) (hm : 0 < y.dim) :
    (s.concatenate y).dim = s.dim + y.dim ∧
    (s.concatenate y).rows = s.rows.map (·.setSpaceDim (s.dim + y.dim)) ++ y.rows.map (cn_shiftRow s.dim y.dim) := by
  unfold CSys.concatenate CSys.setSpaceDim
  simp only [if_pos (show s.dim ≠ s.dim + y.dim by omega)]
  trivial

/-- `concatenate(y)`: the solutions are the product -/
theorem cn_concatenate_consSet (s y : CSys) (hm : 0 < y.dim) (hs : CWf s.dim s.rows) (hy : CWf y.dim y.rows) :
    consSet (s.dim + y.dim) (s.concatenate y).rows = cn_prodSet s.dim y.dim (consSet s.dim s.rows) (consSet y.dim y.rows) := by
  rw [(cn_concatenate_eq s y hm).2]
  ext z
  simp only [cn_mem_consSet, cn_prodSet, Set.mem_ofPred_eq, List.mem_append, List.mem_map, cn_mem_set]
  constructor
  · rintro ⟨hz, hall⟩
    refine ⟨hz, ⟨cn_fst_supp _ _, fun r hr => ?_⟩, ⟨cn_snd_supp _ _ _ hz, fun r hr => ?_⟩⟩
    · exact (cn_rsem_pad_fst s.dim _ r (hs r hr).1.le (by omega) z).mp (hall _ (Or.inl ⟨r, hr, rfl⟩))
    · exact (cn_rsem_shift s.dim y.dim r (hy r hr).1.le z).mp (hall _ (Or.inr ⟨r, hr, rfl⟩))
  · rintro ⟨hz, ⟨_, h1⟩, ⟨_, h2⟩⟩
    refine ⟨hz, fun r' hr' => ?_⟩
    rcases hr' with ⟨r, hr, rfl⟩ | ⟨r, hr, rfl⟩
    · exact (cn_rsem_pad_fst s.dim _ r (hs r hr).1.le (by omega) z).mpr (h1 r hr)
    · exact (cn_rsem_shift s.dim y.dim r (hy r hr).1.le z).mpr (h2 r hr)

theorem cn_concatenate_CWf (s y : CSys) (hm : 0 < y.dim) (hs : CWf s.dim s.rows) (hy : CWf y.dim y.rows) :
    CWf (s.dim + y.dim) (s.concatenate y).rows := by
  rw [(cn_concatenate_eq s y hm).2]
  refine cn_CWf_append _ _ _ (cn_CWf_map_setSpaceDim _ _ (fun r hr => (hs r hr).2)) ?_
  intro r' hr'
  obtain ⟨r, hr, rfl⟩ := List.mem_map.mp hr'
  exact ⟨cn_shiftRow_length _ _ r, (hy r hr).2⟩

example : ((CSys.mk 1 [{ e := [0, 1], m := 2 }]).concatenate (CSys.mk 1 [{ e := [1, 3], m := 6 }])).rows =
    [{ e := [0, 1, 0], m := 2 }, { e := [1, 0, 3], m := 6 }] := by decide

end PPLV.Lattice.GO
