import PPLV.Lattice.ProofsGridOpsGen41

/-!
# Generator side of the `Grid` object, part 42 — ingredients of `Grid::is_bounded()`: the loop, rows with the zero vector,
# points with the same vector are `is_equivalent_to` each other
-/
namespace PPLV.Lattice.GO
open PPLV.Lattice PPLV.Lattice.Red

theorem gn_isEquivalentTo_refl (x : GRow) : x.isEquivalentTo x = true := by
  simp [GRow.isEquivalentTo]

/-- the test of one row against the reference point -/
def gn_bRow (p r : GRow) : Bool := if r.isLineOrParameter then r.allHomZero else r.isEquivalentTo p

theorem gn_isBoundedLoop_some (p : GRow) : ∀ L : List GRow,
    isBoundedLoop (some p) L = true ↔ ∀ r ∈ L, gn_bRow p r = true
  | [] => by simp [isBoundedLoop]
  | g :: L => by
    unfold isBoundedLoop
    simp only [List.mem_cons, forall_eq_or_imp]
    rw [← gn_isBoundedLoop_some p L]
    unfold gn_bRow
    cases h1 : g.isLineOrParameter with
    | true =>
      cases h2 : g.allHomZero <;> simp
    | false =>
      cases h2 : g.isEquivalentTo p <;> simp

theorem gn_isBoundedLoop_none : ∀ L : List GRow,
    isBoundedLoop none L = true ↔
      (∀ r ∈ L, r.isLineOrParameter = true → r.allHomZero = true) ∧
      ∀ p, L.find? (fun r => !r.isLineOrParameter) = some p → ∀ r ∈ L, gn_bRow p r = true
  | [] => by simp [isBoundedLoop]
  | g :: L => by
    unfold isBoundedLoop
    cases h1 : g.isLineOrParameter with
    | true =>
      simp only [if_true, List.mem_cons, forall_eq_or_imp, h1, List.find?_cons, Bool.not_true]
      cases h2 : g.allHomZero with
      | false => simp
      | true =>
        simp only [if_true, forall_true_left, true_and]
        rw [gn_isBoundedLoop_none L]
        constructor
        · rintro ⟨a, b⟩
          exact ⟨a, fun p hp => ⟨by simp [gn_bRow, h1, h2], b p hp⟩⟩
        · rintro ⟨a, b⟩
          exact ⟨a, fun p hp => (b p hp).2⟩
    | false =>
      simp only [Bool.false_eq_true, if_false, List.mem_cons, forall_eq_or_imp, h1, List.find?_cons, Bool.not_false,
        false_imp_iff, true_and]
      rw [gn_isBoundedLoop_some g L]
      constructor
      · intro h
        refine ⟨fun r hr hl => ?_, fun p hp => ?_⟩
        · have := h r hr; simpa [gn_bRow, hl] using this
        · have : g = p := by simpa using hp
          subst this
          exact ⟨by simp [gn_bRow, h1, gn_isEquivalentTo_refl], h⟩
      · rintro ⟨_, b⟩
        exact (b g (by simp)).2

/-- a row whose vector vanishes has all homogeneous terms zero -/
theorem gn_allHomZero_of_vecOf {n : Nat} {r : GRow} (hlen : r.e.length = n + 2) (hd : r.line = false → r.divisor ≠ 0)
    (hv : gn_vecOf r = 0) : r.allHomZero = true := by
  unfold GRow.allHomZero allZ
  rw [List.all_eq_true]
  intro i hi
  rw [List.mem_range'] at hi
  obtain ⟨j, hj, rfl⟩ := hi
  rw [hlen] at hj
  have := congrFun hv j
  unfold gn_vecOf at this
  rw [gn_spaceDim_of_len hlen, if_pos (by omega)] at this
  have hne : (if r.line = true then (1 : ℚ) else (r.divisor : ℚ)) ≠ 0 := by
    cases hl : r.line with
    | true => simp
    | false => simp; exact hd hl
  have h0 : ((get r.e (j + 1) : Int) : ℚ) = 0 := by
    rcases div_eq_zero_iff.mp this with h | h
    · exact h
    · exact absurd h hne
  have : get r.e (j + 1) = 0 := by exact_mod_cast h0
  have e : 1 + 1 * j = j + 1 := by omega
  rw [e]; simpa using this

/-- two points of a normalised system with the same vector are `is_equivalent_to` each other -/
theorem gn_equiv_of_vecOf {n : Nat} {D : Int} (hD : D ≠ 0) {x y : GRow} (hx : x.e.length = n + 2) (hy : y.e.length = n + 2)
    (lx : x.line = false) (ly : y.line = false) (ex : get x.e 0 = D) (ey : get y.e 0 = D)
    (hv : gn_vecOf x = gn_vecOf y) : x.isEquivalentTo y = true := by
  have px : x.isParameter = false := by simp [GRow.isParameter, lx, ex, hD]
  have py : y.isParameter = false := by simp [GRow.isParameter, ly, ey, hD]
  have hDq : (D : ℚ) ≠ 0 := by exact_mod_cast hD
  have hrow : x.e.set (x.e.length - 1) 0 = y.e.set (y.e.length - 1) 0 := by
    apply row_ext
    · simp [hx, hy]
    · intro i hi
      rw [get_set, get_set, hx, hy]
      by_cases h1 : i = n + 2 - 1
      · simp [h1]
      · rw [if_neg (fun h => h1 h.1), if_neg (fun h => h1 h.1)]
        cases i with
        | zero => rw [ex, ey]
        | succ j =>
          have hj : j < n := by
            simp only [List.length_set, hx] at hi; omega
          have := congrFun hv j
          unfold gn_vecOf at this
          rw [gn_spaceDim_of_len hx, gn_spaceDim_of_len hy, if_pos hj, if_pos hj, lx, ly,
            divisor_point x (by rw [ex]; exact hD), divisor_point y (by rw [ey]; exact hD), ex, ey] at this
          simp only [Bool.false_eq_true, if_false] at this
          have h2 : ((get x.e (j + 1) : Int) : ℚ) = ((get y.e (j + 1) : Int) : ℚ) := by
            field_simp at this; exact this
          exact_mod_cast h2
  unfold GRow.isEquivalentTo
  simp only [px, py, lx, ly, Bool.false_eq_true, if_false, hrow, beq_self_eq_true, Bool.and_true,
    beq_iff_eq]
  rw [gn_spaceDim_of_len hx, gn_spaceDim_of_len hy]

end PPLV.Lattice.GO
