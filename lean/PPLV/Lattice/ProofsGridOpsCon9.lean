import PPLV.Lattice.ProofsGridOpsCon8

/-!
# `Grid` stage 3, congruence-side mutators, part 9: the copy constructor (as `is_disjoint_from` uses it),
# `is_disjoint_from(y)` (Grid_public.cc:2832)
-/
namespace PPLV.Lattice.GO
open PPLV.Lattice PPLV.Lattice.Red

/-- a state that shares with `y` the dimension, the status word, `dim_kinds` and every system that is up to date in `y`
    satisfies the invariant and denotes the same grid -/
theorem cn_inv_transfer (r y : Grid) (hy : GridInv y) (hne : y.st.empty = false) (hpos : 0 < y.spaceDim)
    (hd : r.spaceDim = y.spaceDim) (hst : r.st = y.st) (hdk : r.dk = y.dk)
    (hc : y.st.cUp = true → r.con = y.con ∧ r.conDim = y.conDim)
    (hg : y.st.gUp = true → r.gen = y.gen ∧ r.genDim = y.genDim) :
    GridInv r ∧ r.sem = y.sem ∧ r.spaceDim = y.spaceDim := by
  refine ⟨?_, ?_, hd⟩
  · exact {
      emp := fun h => by rw [hst, hne] at h; cases h
      zdim := fun _ h0 => by omega
      hi0 := fun _ => by rw [hst]; exact hy.hi0 hne
      some := fun _ _ => by rw [hst]; exact hy.some hne hpos
      cminUp := by rw [hst]; exact hy.cminUp
      gminUp := by rw [hst]; exact hy.gminUp
      cwf := fun _ _ h => by
        rw [hst] at h; obtain ⟨a, b⟩ := hc h; rw [a, b, hd]; exact hy.cwf hne hpos h
      gwf := fun _ _ h => by
        rw [hst] at h; obtain ⟨a, b⟩ := hg h; rw [a, b, hd]; exact hy.gwf hne hpos h
      agree := fun _ _ h1 h2 => by
        rw [hst] at h1 h2; rw [(hc h1).1, (hg h2).1, hd]; exact hy.agree hne hpos h1 h2
      cmin := fun _ _ h => by
        rw [hst] at h; rw [(hc (hy.cminUp h)).1, hdk, hd]; exact hy.cmin hne hpos h
      cminConv := fun _ _ h h2 => by
        rw [hst] at h h2; rw [(hc (hy.cminUp h)).1, hdk, hd]; exact hy.cminConv hne hpos h h2
      gmin := fun _ _ h => by
        rw [hst] at h; rw [(hg (hy.gminUp h)).1, hdk, hd]; exact hy.gmin hne hpos h
      gminConv := fun _ _ h h2 => by
        rw [hst] at h h2; rw [(hg (hy.gminUp h)).1, hdk, hd]; exact hy.gminConv hne hpos h h2 }
  · have hner : r.st.empty = false := by rw [hst]; exact hne
    unfold Grid.sem
    rw [if_neg (show ¬ (r.st.empty = true) by rw [hner]; simp), if_neg (show ¬ (r.spaceDim = 0) by omega),
      if_neg (show ¬ (y.st.empty = true) by rw [hne]; simp), if_neg (show ¬ (y.spaceDim = 0) by omega), hst, hd]
    by_cases h : y.st.gUp = true
    · rw [if_pos h, if_pos h, (hg h).1]
    · rw [if_neg h, if_neg h, (hc ((hy.some hne hpos).resolve_right h)).1]

/-- Grid_public.cc:38 the copy constructor: same grid, invariant established -/
theorem cn_copyCtor (y : Grid) (hy : GridInv y) :
    GridInv (copyCtor y) ∧ (copyCtor y).sem = y.sem ∧ (copyCtor y).spaceDim = y.spaceDim := by
  unfold copyCtor
  by_cases hemp : y.st.empty = true
  · rw [if_pos (show y.markedEmpty = true from hemp)]
    exact ⟨cn_setEmpty_inv _, by rw [cn_setEmpty_sem, cn_sem_empty y hemp], rfl⟩
  · have hne : y.st.empty = false := by simpa using hemp
    rw [if_neg (show ¬ (y.markedEmpty = true) from hemp)]
    by_cases h0 : y.spaceDim = 0
    · rw [if_pos h0]
      exact ⟨hy, rfl, rfl⟩
    · rw [if_neg h0]
      have hpos : 0 < y.spaceDim := by omega
      by_cases hc : y.st.cUp = true <;> by_cases hg : y.st.gUp = true
      · rw [if_pos (show y.congruencesAreUpToDate = true from hc), if_pos (show y.generatorsAreUpToDate = true from hg)]
        exact cn_inv_transfer _ y hy hne hpos rfl rfl rfl (fun _ => ⟨rfl, rfl⟩) (fun _ => ⟨rfl, rfl⟩)
      · rw [if_pos (show y.congruencesAreUpToDate = true from hc),
          if_neg (show ¬ (y.generatorsAreUpToDate = true) from hg)]
        exact cn_inv_transfer _ y hy hne hpos rfl rfl rfl (fun _ => ⟨rfl, rfl⟩) (fun h => absurd h hg)
      · rw [if_neg (show ¬ (y.congruencesAreUpToDate = true) from hc),
          if_pos (show y.generatorsAreUpToDate = true from hg)]
        exact cn_inv_transfer _ y hy hne hpos rfl rfl rfl (fun h => absurd h hc) (fun _ => ⟨rfl, rfl⟩)
      · exact absurd (hy.some hne hpos) (by simp [hc, hg])

/-- Grid_public.cc:2832 `is_disjoint_from(y)`: `none` (a throw) exactly on a dimension mismatch; the receiver is not
    touched, the argument keeps its grid; the answer tells whether the intersection is empty -/
theorem cn_isDisjointFrom (hUC : UpdateCongruencesSpec) (hIE : IsEmptySpec) (x y : Grid) (hx : GridInv x) (hy : GridInv y) :
    ((isDisjointFrom x y).2.2 = none ↔ x.spaceDim ≠ y.spaceDim) ∧
    ((isDisjointFrom x y).2.2 = none → (isDisjointFrom x y).2.1 = y) ∧
    (isDisjointFrom x y).1 = x ∧
    GridInv (isDisjointFrom x y).2.1 ∧ (isDisjointFrom x y).2.1.sem = y.sem ∧
    (isDisjointFrom x y).2.1.spaceDim = y.spaceDim ∧
    (∀ b, (isDisjointFrom x y).2.2 = some b → (b = true ↔ x.sem ∩ y.sem = ∅)) := by
  unfold isDisjointFrom
  by_cases hd : x.spaceDim ≠ y.spaceDim
  · rw [if_pos hd]
    exact ⟨⟨fun _ => hd, fun _ => rfl⟩, fun _ => rfl, rfl, hy, rfl, rfl, (fun b h => by cases h)⟩
  · rw [if_neg hd]
    have hdd : x.spaceDim = y.spaceDim := not_not.mp hd
    obtain ⟨c1, c2, c3⟩ := cn_copyCtor x hx
    obtain ⟨i1, _, i3⟩ := cn_intersectionAssign hUC (copyCtor x) y c1 hy
    have hnt : (intersectionAssign (copyCtor x) y).thrown = false := by
      by_contra h
      exact (i1.mp (by simpa using h)) (by rw [c3]; exact hdd)
    obtain ⟨j1, j2, j3, j4, _, j6⟩ := i3 hnt
    obtain ⟨_, _, _, e4, _, _⟩ := hIE _ j1
    refine ⟨⟨(fun h => by cases h), fun h => absurd h hd⟩, (fun h => by cases h), rfl, j2, j4, j6, fun b hb => ?_⟩
    have : b = (isEmpty (intersectionAssign (copyCtor x) y).x).2 := (Option.some.inj hb).symm
    rw [this, e4, j3, c2]

example : (isDisjointFrom cn_exGrid cn_exGrid3).2.2 = some false := by decide +kernel

end PPLV.Lattice.GO
