import PPLV.Lattice.ProofsGridOpsLazy15
import PPLV.Lattice.ProofsGridOpsGen8

/-!
# The affine transformers — part 16: `generalized_affine_image(var, relsym, expr, denominator, modulus)`
# (Grid_public.cc:2107)

* `relsym = EQUAL`: the affine image; for `modulus ≠ 0` the parameter `|modulus|·e_var` is inserted afterwards;
* the other relation symbols (except `NOT_EQUAL`, which throws), `modulus = 0`: the line of `var` is added.
-/
namespace PPLV.Lattice.GO
open PPLV.Lattice PPLV.Lattice.Red

/-! ### `if (!generators_are_up_to_date()) minimize()` -/

/-- the object after "make the generators available" -/
def lz_minGen (g : Grid) : Grid := if !g.generatorsAreUpToDate then (minimize g).1 else g

theorem lz_minGen_spec (g : Grid) (hI : GridInv g) (hpos : 0 < g.spaceDim) :
    GridInv (lz_minGen g) ∧ (lz_minGen g).sem = g.sem ∧ (lz_minGen g).spaceDim = g.spaceDim ∧
    ((lz_minGen g).st.empty = true ↔ g.sem = ∅) ∧
    ((lz_minGen g).st.empty = false → (lz_minGen g).st.gUp = true ∧ (g.sem).Nonempty) := by
  unfold lz_minGen
  by_cases hg : g.st.gUp = true
  · have : (if (!g.generatorsAreUpToDate) = true then (minimize g).1 else g) = g := by
      simp [Grid.generatorsAreUpToDate, hg]
    rw [this]
    obtain ⟨he, _⟩ := lz_pos_of_gUp hI hg
    have hne := lz_nonempty_of_gUp hI he hpos hg
    exact ⟨hI, rfl, rfl, by simp [he, lz_ne_empty_of_nonempty hne], fun _ => ⟨hg, hne⟩⟩
  · have : (if (!g.generatorsAreUpToDate) = true then (minimize g).1 else g) = (minimize g).1 := by
      simp [Grid.generatorsAreUpToDate, hg]
    rw [this]
    obtain ⟨m1, m2, m3, m4, m5, m6⟩ := minimize_spec g hI
    refine ⟨m1, m2, m3, ⟨fun h => by rw [← m2]; exact lz_sem_of_empty h, fun h => ?_⟩, fun h => ?_⟩
    · apply m5
      cases hb : (minimize g).2
      · rfl
      · have := m4.mp hb; rw [h] at this; exact absurd this Set.not_nonempty_empty
    · have hb : (minimize g).2 = true := by
        cases hb : (minimize g).2
        · have := m5 hb; rw [h] at this; cases this
        · rfl
      exact ⟨m1.gminUp (m6 hb hpos).2.1, m4.mp hb⟩

/-! ### the rows that are added -/

theorem lz_gridLineVar_ok (v : Nat) : gn_RowOK (gridLineVar v) :=
  ⟨by rw [gn_gridLineVar_len]; simp [GRow.spaceDim, gridLineVar], (fun h => by cases h),
    (fun _ => by rw [gn_gridLineVar_get]; simp)⟩

theorem lz_parameterVar_get (v : Nat) (m : Int) (i : Nat) :
    get (parameterVar v m).e i = if i = v + 2 then 1 else if i = v + 1 then m else 0 := by
  unfold parameterVar
  simp only [get_set, List.length_set, List.length_replicate, get_replicate_zero]
  by_cases h2 : i = v + 2
  · rw [if_pos ⟨h2, by omega⟩, if_pos h2]
  · rw [if_neg (fun h => h2 h.1), if_neg h2]
    by_cases h1 : i = v + 1
    · rw [if_pos ⟨h1, by omega⟩, if_pos h1]
    · rw [if_neg (fun h => h1 h.1), if_neg h1]

theorem lz_parameterVar_len (v : Nat) (m : Int) : (parameterVar v m).e.length = (v + 1) + 2 := by simp [parameterVar]

theorem lz_parameterVar_divisor (v : Nat) (m : Int) : (parameterVar v m).divisor = 1 := by
  rw [divisor_param (v + 1) _ (lz_parameterVar_len v m) (by rw [lz_parameterVar_get]; simp), lz_parameterVar_get]
  simp

theorem lz_parameterVar_ok (v : Nat) (m : Int) : gn_RowOK (parameterVar v m) :=
  ⟨by rw [lz_parameterVar_len]; simp [GRow.spaceDim, parameterVar], (fun _ => by rw [lz_parameterVar_divisor]; decide),
    (fun h => by cases h)⟩

theorem lz_parameterVar_isPar (v : Nat) (m : Int) : gn_isPar (parameterVar v m) = true := by
  rw [gn_isPar_iff]; exact ⟨rfl, by rw [lz_parameterVar_get]; simp⟩

/-- the parameter `m·e_v` -/
theorem lz_parameterVar_vecOf (v : Nat) (m : Int) :
    gn_vecOf (parameterVar v m) = fun i => if i = v then (m : ℚ) else 0 := by
  funext i
  unfold gn_vecOf
  rw [gn_spaceDim_of_len (lz_parameterVar_len v m), lz_parameterVar_divisor, lz_parameterVar_get]
  have hl : (parameterVar v m).line = false := rfl
  by_cases hi : i = v
  · subst hi; simp [hl]
  · by_cases h2 : i < v + 1
    · simp [hl, hi, h2]; omega
    · simp [h2, hi]

theorem lz_absI_pos (z : Int) (h : z ≠ 0) : 0 < absI z := by unfold absI; split <;> omega

/-! ### the non-`EQUAL` relation symbols: the line of `var` is added -/

theorem relsymLine_spec (g : Grid) (v : Nat) (hI : GridInv g) (hv : v + 1 ≤ g.spaceDim) :
    (relsymLine g v).thrown = false ∧ GridInv (relsymLine g v).g ∧ (relsymLine g v).g.spaceDim = g.spaceDim ∧
    (relsymLine g v).g.sem = {y | ∃ a ∈ g.sem, ∃ c : ℚ, y = a + c • (unit v).toFun} := by
  have hpos : 0 < g.spaceDim := by omega
  obtain ⟨m1, m2, m3, m4, m5⟩ := lz_minGen_spec g hI hpos
  have hunf : relsymLine g v = if (lz_minGen g).markedEmpty = true then { g := lz_minGen g }
      else addGridGenerator (lz_minGen g) (gridLineVar v) := rfl
  rw [hunf]
  by_cases he : (lz_minGen g).st.empty = true
  · rw [if_pos (show (lz_minGen g).markedEmpty = true from he)]
    have hge := m4.mp he
    refine ⟨rfl, m1, m3, ?_⟩
    rw [m2, hge]
    ext y; simp
  · rw [if_neg (show ¬ ((lz_minGen g).markedEmpty = true) from he)]
    have he' : (lz_minGen g).st.empty = false := by simpa using he
    obtain ⟨_, hne⟩ := m5 he'
    have hsd : (gridLineVar v).spaceDim ≤ (lz_minGen g).spaceDim := by
      rw [gn_spaceDim_of_len (gn_gridLineVar_len v), m3]; exact hv
    obtain ⟨a, b, c, _, e⟩ := gn_addGridGenerator ensureGenerators_spec (lz_minGen g) m1 (gridLineVar v)
      (lz_gridLineVar_ok v) hsd (by rw [m3]; exact hpos)
    have hnt : (addGridGenerator (lz_minGen g) (gridLineVar v)).thrown = false := by
      cases ht : (addGridGenerator (lz_minGen g) (gridLineVar v)).thrown
      · rfl
      · have := (c.mp ht).1
        rw [m2] at this; rw [this] at hne; exact absurd hne Set.not_nonempty_empty
    refine ⟨hnt, a, b.trans m3, ?_⟩
    rw [(e hnt).1 rfl, m2, gn_gridLineVar_vecOf]

/-! ### the parameter `|modulus|·e_var` is inserted -/

/-- the state after the insertion -/
def lz_addPar (g1 : Grid) (v : Nat) (m : Int) : Grid :=
  ((g1.withGs (normalizeDivisors1 (g1.gs.insert (parameterVar v m)))).clearGeneratorsMinimized).clearCongruencesUpToDate

theorem lz_addPar_spec (g1 : Grid) (v : Nat) (m : Int) (hI : GridInv g1) (hne : g1.st.empty = false)
    (hg : g1.st.gUp = true) (hv : v + 1 ≤ g1.spaceDim) :
    GridInv (lz_addPar g1 v m) ∧ (lz_addPar g1 v m).spaceDim = g1.spaceDim ∧
    (lz_addPar g1 v m).sem = {y | ∃ a ∈ g1.sem, ∃ k : Int, y = a + (k : ℚ) • gn_vecOf (parameterVar v m)} := by
  have hpos : 0 < g1.spaceDim := by omega
  obtain ⟨hgd, hgw, hgn, hsem⟩ := gn_sem_of_gUp hI hpos hne hg
  have hgs : g1.gs = ⟨g1.spaceDim, g1.gen⟩ := by show GSys.mk g1.genDim g1.gen = _; rw [hgd]
  have hsd : (parameterVar v m).spaceDim ≤ g1.spaceDim := by
    rw [gn_spaceDim_of_len (lz_parameterVar_len v m)]; exact hv
  obtain ⟨rows2, D', e1, a1, b1, c1⟩ := gn_add_rows hpos hgw hgn (parameterVar v m) (lz_parameterVar_ok v m) hsd
  have hpp : (parameterVar v m).isParameterOrPoint = true := rfl
  rw [hpp, if_pos rfl] at e1
  obtain ⟨_, _, _, _, r5, _, r7⟩ := gn_row_resized (lz_parameterVar_ok v m) hsd
  have hbody : lz_addPar g1 v m = ((g1.withGs ⟨g1.spaceDim, rows2⟩).clearGeneratorsMinimized).clearCongruencesUpToDate := by
    unfold lz_addPar; rw [hgs, e1]
  rw [hbody]
  have hI' := cn_inv_of_noMin (((g1.withGs ⟨g1.spaceDim, rows2⟩).clearGeneratorsMinimized).clearCongruencesUpToDate)
    hpos hne rfl rfl (hI.hi0 hne) (Or.inr hg) (fun h => by cases h) (fun _ => ⟨rfl, a1, lz_gnorm_firstPointDiv b1⟩)
    (fun h => by cases h)
  refine ⟨hI', rfl, ?_⟩
  rw [cn_sem_of_gUp (((g1.withGs ⟨g1.spaceDim, rows2⟩).clearGeneratorsMinimized).clearCongruencesUpToDate) hne hpos hg]
  show gensSet g1.spaceDim rows2 = _
  rw [gn_bridge b1 a1, c1, gn_set_append_par _ _ (by rw [r7]; exact lz_parameterVar_isPar v m), r5, hsem]

/-! ### `generalized_affine_image`, one variable -/

/-- **`relsym = EQUAL`** on a grid that is not marked empty: nothing is thrown; the affine image, and for a non-zero
    modulus its sum with the integer multiples of `|modulus|·e_var` -/
theorem generalizedAffineImageVar_equal (g : Grid) (v : Nat) (e : LinExpr) (den modulus : Int) (hI : GridInv g)
    (hne : g.st.empty = false) (hden : den ≠ 0) (hed : e.spaceDim ≤ g.spaceDim) (hv : v + 1 ≤ g.spaceDim) :
    (generalizedAffineImageVar g v EQUAL e den modulus).thrown = false ∧
    GridInv (generalizedAffineImageVar g v EQUAL e den modulus).g ∧
    (generalizedAffineImageVar g v EQUAL e den modulus).g.spaceDim = g.spaceDim ∧
    (modulus = 0 → (generalizedAffineImageVar g v EQUAL e den modulus).g.sem = lzF v e den '' g.sem) ∧
    (modulus ≠ 0 → (generalizedAffineImageVar g v EQUAL e den modulus).g.sem =
      {y | ∃ a ∈ lzF v e den '' g.sem, ∃ k : Int, y = a + (k : ℚ) • (fun i => if i = v then ((absI modulus : Int) : ℚ) else 0)}) := by
  have hpos : 0 < g.spaceDim := by omega
  obtain ⟨a1, a2, a3, a4⟩ := affineImage_full g v e den hI hne hden hed hv
  have hunf : generalizedAffineImageVar g v EQUAL e den modulus =
      if modulus = 0 then affineImage g v e den
      else if (lz_minGen (affineImage g v e den).g).markedEmpty = true then { g := lz_minGen (affineImage g v e den).g }
      else { g := lz_addPar (lz_minGen (affineImage g v e den).g) v (absI modulus) } := by
    unfold generalizedAffineImageVar
    rw [if_neg hden, if_neg (show ¬ (g.spaceDim < e.spaceDim ∨ g.spaceDim < v + 1) by omega),
      if_neg (show ¬ (EQUAL = NOT_EQUAL) by decide),
      if_neg (show ¬ (EQUAL ≠ EQUAL ∧ modulus ≠ 0) from fun h => h.1 rfl),
      if_neg (show ¬ (g.markedEmpty = true) by simpa [Grid.markedEmpty] using hne),
      if_neg (show ¬ (EQUAL ≠ EQUAL) by simp)]
    simp only [a1, Bool.false_eq_true, if_false]
    rfl
  rw [hunf]
  by_cases hm : modulus = 0
  · rw [if_pos hm]
    exact ⟨a1, a2, a4, fun _ => a3, fun h => absurd hm h⟩
  · rw [if_neg hm]
    obtain ⟨m1, m2, m3, m4, m5⟩ := lz_minGen_spec (affineImage g v e den).g a2 (by rw [a4]; exact hpos)
    by_cases he : (lz_minGen (affineImage g v e den).g).st.empty = true
    · rw [if_pos (show (lz_minGen (affineImage g v e den).g).markedEmpty = true from he)]
      refine ⟨rfl, m1, m3.trans a4, fun h => absurd h hm, fun _ => ?_⟩
      have hge := m4.mp he
      rw [a3] at hge
      rw [m2, a3, hge]
      ext y; simp
    · rw [if_neg (show ¬ ((lz_minGen (affineImage g v e den).g).markedEmpty = true) from he)]
      have he' : (lz_minGen (affineImage g v e den).g).st.empty = false := by simpa using he
      obtain ⟨b1, b2, b3⟩ := lz_addPar_spec (lz_minGen (affineImage g v e den).g) v (absI modulus) m1 he' (m5 he').1
        (by rw [m3, a4]; exact hv)
      refine ⟨rfl, b1, b2.trans (m3.trans a4), fun h => absurd h hm, fun _ => ?_⟩
      rw [b3, m2, a3, lz_parameterVar_vecOf]

/-- **the other relation symbols** (`<`, `≤`, `≥`, `>`) with `modulus = 0` on a grid that is not marked empty: the line
    of `var` is added -/
theorem generalizedAffineImageVar_relsym (g : Grid) (v : Nat) (relsym : Nat) (e : LinExpr) (den : Int) (hI : GridInv g)
    (hne : g.st.empty = false) (hden : den ≠ 0) (hed : e.spaceDim ≤ g.spaceDim) (hv : v + 1 ≤ g.spaceDim)
    (hr1 : relsym ≠ NOT_EQUAL) (hr2 : relsym ≠ EQUAL) :
    (generalizedAffineImageVar g v relsym e den 0).thrown = false ∧
    GridInv (generalizedAffineImageVar g v relsym e den 0).g ∧
    (generalizedAffineImageVar g v relsym e den 0).g.spaceDim = g.spaceDim ∧
    (generalizedAffineImageVar g v relsym e den 0).g.sem = {y | ∃ a ∈ g.sem, ∃ c : ℚ, y = a + c • (unit v).toFun} := by
  have hunf : generalizedAffineImageVar g v relsym e den 0 = relsymLine g v := by
    unfold generalizedAffineImageVar
    rw [if_neg hden, if_neg (show ¬ (g.spaceDim < e.spaceDim ∨ g.spaceDim < v + 1) by omega), if_neg hr1,
      if_neg (show ¬ (relsym ≠ EQUAL ∧ (0 : Int) ≠ 0) from fun h => h.2 rfl),
      if_neg (show ¬ (g.markedEmpty = true) by simpa [Grid.markedEmpty] using hne), if_pos hr2]
  rw [hunf]
  exact relsymLine_spec g v hI hv

/-- the throws of `generalized_affine_image` (argument checks first, a13dde6): for every invariant receiver, marked empty
    or not, `std::invalid_argument` exactly on a zero denominator, a dimension mismatch, `NOT_EQUAL`, or a non-zero
    modulus with a relation symbol other than `EQUAL`; the object is then unchanged; a marked-empty receiver is unchanged -/
theorem generalizedAffineImageVar_thrown (g : Grid) (hI : GridInv g) (v : Nat) (relsym : Nat) (e : LinExpr)
    (den modulus : Int) :
    ((generalizedAffineImageVar g v relsym e den modulus).thrown = true ↔
      (den = 0 ∨ g.spaceDim < e.spaceDim ∨ g.spaceDim < v + 1 ∨ relsym = NOT_EQUAL ∨ (relsym ≠ EQUAL ∧ modulus ≠ 0))) ∧
    ((generalizedAffineImageVar g v relsym e den modulus).thrown = true →
      (generalizedAffineImageVar g v relsym e den modulus).g = g) ∧
    (g.st.empty = true → (generalizedAffineImageVar g v relsym e den modulus).g = g) := by
  by_cases hd : den = 0
  · have : generalizedAffineImageVar g v relsym e den modulus = { g := g, thrown := true } := by
      unfold generalizedAffineImageVar; rw [if_pos hd]
    rw [this]; exact ⟨⟨fun _ => Or.inl hd, fun _ => rfl⟩, fun _ => rfl, fun _ => rfl⟩
  by_cases hdim : g.spaceDim < e.spaceDim ∨ g.spaceDim < v + 1
  · have : generalizedAffineImageVar g v relsym e den modulus = { g := g, thrown := true } := by
      unfold generalizedAffineImageVar; rw [if_neg hd, if_pos hdim]
    rw [this]
    exact ⟨⟨fun _ => by rcases hdim with h | h <;> simp [h], fun _ => rfl⟩, fun _ => rfl, fun _ => rfl⟩
  by_cases hr1 : relsym = NOT_EQUAL
  · have : generalizedAffineImageVar g v relsym e den modulus = { g := g, thrown := true } := by
      unfold generalizedAffineImageVar; rw [if_neg hd, if_neg hdim, if_pos hr1]
    rw [this]; exact ⟨⟨fun _ => by simp [hr1], fun _ => rfl⟩, fun _ => rfl, fun _ => rfl⟩
  by_cases hr3 : relsym ≠ EQUAL ∧ modulus ≠ 0
  · have : generalizedAffineImageVar g v relsym e den modulus = { g := g, thrown := true } := by
      unfold generalizedAffineImageVar; rw [if_neg hd, if_neg hdim, if_neg hr1, if_pos hr3]
    rw [this]; exact ⟨⟨fun _ => by simp [hr3], fun _ => rfl⟩, fun _ => rfl, fun _ => rfl⟩
  have hno : ¬ (den = 0 ∨ g.spaceDim < e.spaceDim ∨ g.spaceDim < v + 1 ∨ relsym = NOT_EQUAL ∨
      (relsym ≠ EQUAL ∧ modulus ≠ 0)) := by
    rintro (h | h | h | h | h)
    · exact hd h
    · exact hdim (Or.inl h)
    · exact hdim (Or.inr h)
    · exact hr1 h
    · exact hr3 h
  by_cases hemp : g.st.empty = true
  · have : generalizedAffineImageVar g v relsym e den modulus = { g := g } := by
      unfold generalizedAffineImageVar
      rw [if_neg hd, if_neg hdim, if_neg hr1, if_neg hr3, if_pos (show g.markedEmpty = true from hemp)]
    rw [this]; exact ⟨⟨(fun h => by cases h), fun h => absurd h hno⟩, fun _ => rfl, fun _ => rfl⟩
  have hne : g.st.empty = false := by simpa using hemp
  have hnt : (generalizedAffineImageVar g v relsym e den modulus).thrown = false := by
    by_cases hr2 : relsym = EQUAL
    · subst hr2
      exact (generalizedAffineImageVar_equal g v e den modulus hI hne hd (by omega) (by omega)).1
    · have hm : modulus = 0 := by
        by_contra hm; exact hr3 ⟨hr2, hm⟩
      subst hm
      exact (generalizedAffineImageVar_relsym g v relsym e den hI hne hd (by omega) (by omega) hr1 hr2).1
  exact ⟨⟨(fun h => by rw [hnt] at h; cases h), fun h => absurd h hno⟩, (fun h => by rw [hnt] at h; cases h),
    fun h => absurd h hemp⟩

/-- `x ≡ 1 (mod 2)` (point 1, parameter 2) under `x' = 3x + 1 (mod 4)`: point 4, parameters 6 and 4 — i.e. `4 + 2ℤ` -/
example :
    let g : Grid := Grid.mk 1 { gUp := true } 1 [] 1 [⟨false, [1, 1, 0]⟩, ⟨false, [0, 2, 1]⟩] []
    invB g = true ∧ (generalizedAffineImageVar g 0 EQUAL [1, 3] 1 4).g.gen =
      [⟨false, [1, 4, 0]⟩, ⟨false, [0, 6, 1]⟩, ⟨false, [0, 4, 1]⟩] ∧
    invB (generalizedAffineImageVar g 0 EQUAL [1, 3] 1 4).g = true := by decide +kernel

end PPLV.Lattice.GO
