import PPLV.Lattice.ProofsGridOpsCon20
import PPLV.Lattice.ProofsGridOpsLazy15
import PPLV.Lattice.ProofsGridOpsLazy6
import PPLV.Lattice.ProofsGridOpsGen10

/-!
# `Grid` stage 3, part 35: `fold_space_dimensions(vars, dest)` (Grid_chdims.cc:452) against `g.sem`

The loop joins the current grid with its image under `x_dest := x_i` for every `i ∈ vars` (`cn_FoldChain`, each step a
least upper bound `gn_IsJoin`), then `remove_space_dimensions(vars)` selects the kept coordinates.
-/
namespace PPLV.Lattice.GO
open PPLV.Lattice PPLV.Lattice.Red

/-- the sets the loop of `fold_space_dimensions` goes through: each step is the join with the image under `x_dest := x_i` -/
def cn_FoldChain (dest : Nat) : List Nat → Set Pt → Set Pt → Prop
  | [], S, T => T = S
  | i :: vs, S, T => ∃ S', gn_IsJoin S' S (lzF dest (varExpr i) 1 '' S) ∧ cn_FoldChain dest vs S' T

theorem cn_foldChain_empty (dest : Nat) : ∀ vs : List Nat, cn_FoldChain dest vs ∅ ∅
  | [] => rfl
  | i :: vs => ⟨∅, by rw [Set.image_empty]; exact gn_isJoin_self ∅, cn_foldChain_empty dest vs⟩

theorem cn_not_marked_of_nonempty {x : Grid} (h : x.sem.Nonempty) : x.st.empty = false := by
  by_contra hc
  rw [lz_sem_of_empty (by simpa using hc)] at h
  exact Set.not_nonempty_empty h

theorem cn_varExpr_spaceDim (i : Nat) : (varExpr i).spaceDim = i + 1 := by simp [varExpr, LinExpr.spaceDim]

/-- the body of the loop -/
def cn_foldStep (dest : Nat) (x : Grid) (i : Nat) : Grid :=
  (upperBoundAssign x (affineImage (copyCtor x) dest (varExpr i) 1).g).x

theorem cn_foldStep_spec (dest : Nat) (x : Grid) (i : Nat) (hx : GridInv x) (hne : x.sem.Nonempty)
    (hd : dest < x.spaceDim) (hi : i < x.spaceDim) :
    GridInv (cn_foldStep dest x i) ∧ (cn_foldStep dest x i).spaceDim = x.spaceDim ∧
      (cn_foldStep dest x i).sem.Nonempty ∧
      gn_IsJoin (cn_foldStep dest x i).sem x.sem (lzF dest (varExpr i) 1 '' x.sem) := by
  obtain ⟨c1, c2, c3⟩ := cn_copyCtor x hx
  have hce : (copyCtor x).st.empty = false := cn_not_marked_of_nonempty (by rw [c2]; exact hne)
  obtain ⟨_, a2, a3, a4⟩ := affineImage_full (copyCtor x) dest (varExpr i) 1 c1 hce (by decide)
    (by rw [cn_varExpr_spaceDim, c3]; omega) (by rw [c3]; omega)
  obtain ⟨u1, _, _, u4, _, _, u7⟩ := gn_upperBoundAssign ensureGenerators_spec x
    (affineImage (copyCtor x) dest (varExpr i) 1).g hx a2 (by rw [a4, c3])
  rw [a3, c2] at u7
  obtain ⟨y, hy⟩ := hne
  exact ⟨u1, u4, ⟨y, u7.1 hy⟩, u7⟩

theorem cn_foldLoop_spec (dest : Nat) : ∀ (vars : List Nat) (x : Grid), GridInv x → x.sem.Nonempty →
    dest < x.spaceDim → (∀ i ∈ vars, i < x.spaceDim) →
    GridInv (vars.foldl (cn_foldStep dest) x) ∧ (vars.foldl (cn_foldStep dest) x).spaceDim = x.spaceDim ∧
      cn_FoldChain dest vars x.sem (vars.foldl (cn_foldStep dest) x).sem
  | [], x, hx, _, _, _ => ⟨hx, rfl, rfl⟩
  | i :: vs, x, hx, hne, hd, hv => by
    obtain ⟨s1, s2, s3, s4⟩ := cn_foldStep_spec dest x i hx hne hd (hv i (List.mem_cons_self ..))
    obtain ⟨r1, r2, r3⟩ := cn_foldLoop_spec dest vs (cn_foldStep dest x i) s1 s3 (by rw [s2]; exact hd)
      (fun j hj => by rw [s2]; exact hv j (List.mem_cons_of_mem _ hj))
    rw [List.foldl_cons]
    exact ⟨r1, r2.trans s2, ⟨_, s4, r3⟩⟩

theorem cn_fold_eq (g : Grid) (vars : List Nat) (dest : Nat) (hd : dest < g.spaceDim) (hne : vars.isEmpty = false)
    (hlt : ∀ v ∈ vars, v < g.spaceDim) (hnd : vars.contains dest = false) :
    foldSpaceDimensions g vars dest =
      removeSpaceDimensions (if !(gridGenerators g).markedEmpty then vars.foldl (cn_foldStep dest) (gridGenerators g)
        else gridGenerators g) vars := by
  have hmax := gn_foldl_max_le vars 0 (Nat.zero_le _) hlt
  unfold foldSpaceDimensions
  rw [if_neg (by omega), if_neg (by rw [hne]; simp), if_neg (by omega), if_neg (by rw [hnd]; simp)]
  rfl

/-- the throwing / trivial cases -/
theorem cn_fold_thrown (g : Grid) (vars : List Nat) (dest : Nat) :
    (g.spaceDim < dest + 1 → (foldSpaceDimensions g vars dest).thrown = true ∧ (foldSpaceDimensions g vars dest).g = g) ∧
    (dest < g.spaceDim → vars = [] → foldSpaceDimensions g vars dest = { g := g }) := by
  constructor
  · intro h; unfold foldSpaceDimensions; rw [if_pos (by omega)]; exact ⟨rfl, rfl⟩
  · intro h hv; unfold foldSpaceDimensions; rw [if_neg (by omega), hv]; rfl

/-- Grid_chdims.cc:452 `fold_space_dimensions(vars, dest)` for strictly increasing `vars` below the dimension, `dest`
    in the space and not among them: the coordinate selection of the iterated join -/
theorem cn_foldSpaceDimensions (g : Grid) (vars : List Nat) (dest : Nat) (hI : GridInv g) (hd : dest < g.spaceDim)
    (hne : vars ≠ []) (hinc : vars.Pairwise (· < ·)) (hlt : ∀ v ∈ vars, v < g.spaceDim) (hnd : dest ∉ vars) :
    (foldSpaceDimensions g vars dest).thrown = false ∧ GridInv (foldSpaceDimensions g vars dest).g ∧
      (foldSpaceDimensions g vars dest).g.spaceDim = g.spaceDim - vars.length ∧
      ∃ T, cn_FoldChain dest vars g.sem T ∧ (foldSpaceDimensions g vars dest).g.sem = cn_sel g.spaceDim vars '' T := by
  have hpos : 0 < g.spaceDim := by omega
  rw [cn_fold_eq g vars dest hd (by cases vars with | nil => exact absurd rfl hne | cons _ _ => rfl) hlt
    (by rw [Bool.eq_false_iff]; intro h; exact hnd (List.contains_iff_mem.mp h))]
  obtain ⟨g1, g2, g3, g4, _, _⟩ := gridGenerators_spec g hI
  by_cases hme : (gridGenerators g).st.empty = true
  · have : (!(gridGenerators g).markedEmpty) = false := by simp [Grid.markedEmpty, hme]
    rw [this, if_neg Bool.false_ne_true]
    obtain ⟨r1, r2, r3, r4⟩ := cn_removeSpaceDimensions (gridGenerators g) vars g1 hinc (by rw [g3]; exact hlt)
    have hse : g.sem = ∅ := g4.mp hme
    refine ⟨r1, r2, by rw [r3, g3], ∅, by rw [hse]; exact cn_foldChain_empty dest vars, ?_⟩
    rw [r4, g2, hse, Set.image_empty, Set.image_empty]
  · have hmf : (gridGenerators g).st.empty = false := by simpa using hme
    have : (!(gridGenerators g).markedEmpty) = true := by simp [Grid.markedEmpty, hmf]
    rw [this, if_pos rfl]
    have hnonempty : (gridGenerators g).sem.Nonempty := by
      rw [g2]; by_contra h
      exact hme (g4.mpr (Set.not_nonempty_iff_eq_empty.mp h))
    obtain ⟨l1, l2, l3⟩ := cn_foldLoop_spec dest vars (gridGenerators g) g1 hnonempty (by rw [g3]; exact hd)
      (by rw [g3]; exact hlt)
    obtain ⟨r1, r2, r3, r4⟩ := cn_removeSpaceDimensions _ vars l1 hinc (by rw [l2, g3]; exact hlt)
    rw [l2, g3] at r3 r4
    rw [g2] at l3
    exact ⟨r1, r2, r3, _, l3, r4⟩

end PPLV.Lattice.GO
