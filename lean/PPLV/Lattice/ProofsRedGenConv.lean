import PPLV.Lattice.ProofsRedGenEnd
import PPLV.Lattice.ProofsConvGCComplete
import PPLV.Lattice.ProofsConvGCTri
import PPLV.Lattice.ProofsDecide
import PPLV.Lattice.ProofsCore

/-!
# End to end: what `Grid::update_congruences` does — `Grid::simplify` on the generators, then
`Grid::conversion(Grid_Generator_System&, Congruence_System&, Dimension_Kinds&)`

The triangular form `Tri` produced by `simplifyGens` implies every hypothesis of
`conversionGensToCgs_exact`; hence the congruence system computed from a normalised generator system has
exactly the points of the grid the generators denote.
-/
namespace PPLV.Lattice.Red
open PPLV.Lattice

/-! ### from `Tri` to the hypotheses of the conversion -/

theorem Tri_kinds {dk : List Nat} {rows : List GRow} : ∀ d p, Tri dk rows d p → ∀ i, i < d → kind dk i ≤ 2 := by
  intro d
  induction d with
  | zero => intro p _ i hi; omega
  | succ d ih =>
    intro p h i hi
    by_cases hv : kind dk d = GEN_VIRTUAL
    · by_cases e : i = d
      · rw [e, hv]; decide
      · exact ih p ((Tri_virt hv).mp h) i (by omega)
    · obtain ⟨_, hrow, ht⟩ := (Tri_real hv).mp h
      by_cases e : i = d
      · rw [e, hrow.1]; split <;> decide
      · exact ih (p - 1) ht i (by omega)

/-- every row of a triangular system is the pivot row of some dimension -/
theorem Tri_pivot {dk : List Nat} {rows : List GRow} : ∀ d p, Tri dk rows d p → ∀ j, j < p →
    ∃ dj, dj < d ∧ TriRow dk rows dj j := by
  intro d
  induction d with
  | zero => intro p h j hj; have : p = 0 := h; omega
  | succ d ih =>
    intro p h j hj
    by_cases hv : kind dk d = GEN_VIRTUAL
    · obtain ⟨dj, h1, h2⟩ := ih p ((Tri_virt hv).mp h) j hj
      exact ⟨dj, by omega, h2⟩
    · obtain ⟨_, hrow, ht⟩ := (Tri_real hv).mp h
      by_cases e : j = p - 1
      · exact ⟨d, by omega, by rw [e]; exact hrow⟩
      · obtain ⟨dj, h1, h2⟩ := ih (p - 1) ht j (by omega)
        exact ⟨dj, by omega, h2⟩

/-- the leading column of a row of a triangular system is its pivot dimension -/
theorem Tri_leading {n : Nat} {dk : List Nat} {rows : List GRow} (h : Tri dk rows (n + 1) rows.length)
    (g : GRow) (hg : g ∈ rows) (d : Nat) (hz : ∀ k, k < d → get g.e k = 0) (hnz : get g.e d ≠ 0) :
    kind dk d = (if g.line then LINE else PARAMETER) := by
  obtain ⟨j, hj, rfl⟩ := (mem_iff_rowAt rows g).mp hg
  obtain ⟨dj, _, k1, k2, k3⟩ := Tri_pivot _ _ h j hj
  have e : d = dj := by
    rcases Nat.lt_trichotomy d dj with h1 | h1 | h1
    · exact absurd (k3 d h1) hnz
    · exact h1
    · have := hz dj h1; omega
  rw [e]; exact k1

/-- **the triangular form gives the agreement hypotheses of the generator-to-congruence conversion** -/
theorem tri_agree {n : Nat} {dk : List Nat} {rows : List GRow} (h : Tri dk rows (n + 1) rows.length) :
    KindsOK n dk ∧ LinesAgree n rows dk ∧ ParamsAgree n rows dk := by
  refine ⟨fun d hd => Tri_kinds _ _ h d hd, ?_, ?_⟩
  · intro g hg hl d _ hz hnz
    rw [Tri_leading h g hg d hz hnz, hl]; rfl
  · intro g hg hl d _ hz hnz
    rw [Tri_leading h g hg d hz hnz, hl]; rfl

/-- `dim_kinds` has `space_dimension + 1` entries after `Grid::simplify` -/
theorem simplifyGens_dk_length (n : Nat) (rows : List GRow) (dk : List Nat) (hwf : GWf n rows) :
    (simplifyGens n rows dk).2.length = n + 1 := by
  have hdk0 : (if dk.length ≠ n + 1 then resizeKinds dk (n + 1) else dk).length = n + 1 := by
    split
    · exact length_resizeKinds _ _
    · rename_i h; exact not_not.mp h
  have h0 : OInv n rows.length 0
      { rows := rows, dk := if dk.length ≠ n + 1 then resizeKinds dk (n + 1) else dk, pivotIndex := 0 } :=
    ⟨rfl, wfI_of_gwf hwf, Nat.zero_le _, fun _ _ _ c hc => absurd hc (Nat.not_lt_zero c), rfl, hdk0⟩
  obtain ⟨hO, _⟩ := outer_fold (n + 1) 0 _ h0 (by omega)
  rw [← List.range_eq_range'] at hO
  rw [simplifyGens_eq]
  exact hO.dkl

/-- on a normalised system: dimension 0 is a `PARAMETER` dimension, row 0 is the point row and carries the
    divisor `k·D` -/
theorem simplifyGens_kind0 {n : Nat} {D : Int} {rows : List GRow} (dk : List Nat) (hwf : GWf n rows)
    (hN : Normalised n D rows) :
    kind (simplifyGens n rows dk).2 0 = PARAMETER ∧ (rowAt (simplifyGens n rows dk).1 0).line = false ∧
      ∃ k : Int, 0 < k ∧ get (rowAt (simplifyGens n rows dk).1 0).e 0 = k * D ∧
        ∀ v, Hom n rows v ↔ Hom n (simplifyGens n rows dk).1 ((k : Rat) • v) := by
  obtain ⟨k, hk, hN', hiff⟩ := simplifyGens_normalised dk hwf hN
  have htri := simplifyGens_tri n rows dk hwf
  generalize (simplifyGens n rows dk).1 = out at *
  generalize (simplifyGens n rows dk).2 = dk' at *
  have hkD : 0 < k * D := hN'.Dpos
  obtain ⟨r, hr, hrl, hrD⟩ := hN'.pt
  obtain ⟨j, hj, rfl⟩ := (mem_iff_rowAt out r).mp hr
  obtain ⟨dj, _, k1, k2, k3⟩ := Tri_pivot _ _ htri j hj
  have hdj : dj = 0 := by
    by_contra hne
    have := k3 0 (by omega)
    omega
  subst hdj
  have hkind : kind dk' 0 = PARAMETER := by rw [k1, hrl]; rfl
  obtain ⟨hlen1, t1, t2, _⟩ := Tri_row0 _ _ htri (by omega) (by rw [hkind]; decide)
  have hl0 : (rowAt out 0).line = false := by
    cases hh : (rowAt out 0).line
    · rfl
    · rw [hh, hkind] at t1; exact absurd t1 (by decide)
  refine ⟨hkind, hl0, k, hk, ?_, hiff⟩
  rcases hN'.pc _ (rowAt_mem out 0 hlen1) hl0 with h0 | h0
  · omega
  · exact h0

/-! ### the end-to-end theorems -/

/-- **`Grid::simplify` followed by `Grid::conversion` (generators to congruences) is exact**: the congruence
    system has exactly the points `x` with `(D, D·x)` in the homogeneous lattice of the input generators -/
theorem simplifyGens_conversion_exact {n : Nat} {D : Int} {rows : List GRow} (dk : List Nat) (hwf : GWf n rows)
    (hN : Normalised n D rows) (x : Pt) :
    cgsSem n (conversionGensToCgs n (simplifyGens n rows dk).1 (simplifyGens n rows dk).2) x ↔
      Hom n rows (homog (D : Rat) x) := by
  obtain ⟨hk0, _, k, hk, hrow0, hiff⟩ := simplifyGens_kind0 dk hwf hN
  obtain ⟨a1, a2, a3⟩ := tri_agree (simplifyGens_tri n rows dk hwf)
  rw [conversionGensToCgs_exact n _ _ (simplifyGens_wf n rows dk hwf) (simplifyGens_triangular n rows dk hwf)
    (simplifyGens_dk_length n rows dk hwf) hk0 a1 a2 a3 x, hrow0, hiff]
  have e : homog ((k * D : Int) : Rat) x = (k : Rat) • homog (D : Rat) x := by
    funext i
    cases i with
    | zero => simp [homog]
    | succ i => simp [homog]; ring
  rw [e]

/-- the congruence system is in the lower triangular form `Grid::conversion` asserts on exit -/
theorem simplifyGens_conversion_triangular {n : Nat} {D : Int} {rows : List GRow} (dk : List Nat)
    (hwf : GWf n rows) (hN : Normalised n D rows) :
    lowerTriangular n (conversionGensToCgs n (simplifyGens n rows dk).1 (simplifyGens n rows dk).2)
      (simplifyGens n rows dk).2 = true :=
  conversionGensToCgs_triangular n _ _ (simplifyGens_triangular n rows dk hwf)
    (simplifyGens_dk_length n rows dk hwf) (simplifyGens_kind0 dk hwf hN).1
    (tri_agree (simplifyGens_tri n rows dk hwf)).1

/-- **K2 form**: the PPL reading of the generators and the K2 generator form of the computed congruences are
    the same grid (decided by the verified `equivB`) -/
theorem simplifyGens_conversion_k2 {n : Nat} {D : Int} {rows : List GRow} (dk : List Nat) (hwf : GWf n rows)
    (hN : Normalised n D rows) :
    ∃ G, gensOf n rows = some G ∧
      equivB G (consToGens n (cgsOf (conversionGensToCgs n (simplifyGens n rows dk).1
        (simplifyGens n rows dk).2))) = true := by
  obtain ⟨g, hg, hs⟩ := gensOf_sem hN
  refine ⟨.gens g, hg, ?_⟩
  rw [equivB_iff]
  intro x
  rw [consToGens_sem, hs x]
  exact (simplifyGens_conversion_exact dk hwf hN x).symm

/-! ### concrete instance -/

example (x : Pt) :
    cgsSem 2 (conversionGensToCgs 2 (simplifyGens 2 exGRows []).1 (simplifyGens 2 exGRows []).2) x ↔
      Hom 2 exGRows (homog ((2 : Int) : Rat) x) :=
  simplifyGens_conversion_exact [] exRows_wf exRows_norm x

example : ∃ G, gensOf 2 exGRows = some G ∧
    equivB G (consToGens 2 (cgsOf (conversionGensToCgs 2 (simplifyGens 2 exGRows []).1
      (simplifyGens 2 exGRows []).2))) = true :=
  simplifyGens_conversion_k2 [] exRows_wf exRows_norm

example : lowerTriangular 2 (conversionGensToCgs 2 (simplifyGens 2 exGRows []).1 (simplifyGens 2 exGRows []).2)
    (simplifyGens 2 exGRows []).2 = true :=
  simplifyGens_conversion_triangular [] exRows_wf exRows_norm

example : KindsOK 2 (simplifyGens 2 exGRows []).2 ∧
    LinesAgree 2 (simplifyGens 2 exGRows []).1 (simplifyGens 2 exGRows []).2 ∧
    ParamsAgree 2 (simplifyGens 2 exGRows []).1 (simplifyGens 2 exGRows []).2 :=
  tri_agree (simplifyGens_tri 2 exGRows [] exRows_wf)

end PPLV.Lattice.Red
