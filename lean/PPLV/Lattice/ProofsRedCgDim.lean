import PPLV.Lattice.ProofsRedCgInner

/-!
# `Grid::simplify(Congruence_System&)`: the body of the loop over the dimensions (Grid_simplify.cc:412-491)
-/
namespace PPLV.Lattice.Red

/-- the loop invariant of `for (dim = num_columns; dim-- > 0; )`: the dimensions `≥ d` are processed -/
structure Inv (n : Nat) (rows : List CRow) (dk : List Nat) (p : Nat → Nat) (k d : Nat) : Prop where
  wf : RWf n rows
  dklen : dk.length = n + 1
  mod : ∃ M, SameMod rows M
  kle : k ≤ rows.length
  piv : ∀ i, i < k → PivRow (rowAt rows i) (kind dk (p i)) (p i)
  rest : ∀ i, k ≤ i → i < rows.length → ∀ j, d ≤ j → get (rowAt rows i).e j = 0
  kinv : KInv dk p k d (n + 1)

/-! ### `KInv` when a dimension is processed -/

theorem KInv.congr_dk {dk dk' : List Nat} {p : Nat → Nat} {k d nc : Nat} (h : KInv dk p k d nc)
    (hdk : ∀ j, d ≤ j → kind dk' j = kind dk j) : KInv dk' p k d nc :=
  ⟨h.rng, h.anti, fun j h1 h2 => by rw [hdk j h1]; exact h.nv j h1 h2⟩

theorem KInv.virt {dk : List Nat} {p : Nat → Nat} {k dim nc : Nat} (h : KInv dk p k (dim + 1) nc)
    (hdkl : dim < dk.length) : KInv (dk.set dim CON_VIRTUAL) p k dim nc := by
  refine ⟨fun i hi => ⟨by have := (h.rng i hi).1; omega, (h.rng i hi).2⟩, h.anti, ?_⟩
  intro j h1 h2
  rw [kind_set]
  by_cases e : j = dim
  · rw [if_pos ⟨e, hdkl⟩]
    constructor
    · intro hc; exact absurd rfl hc
    · rintro ⟨i, hi, hpi⟩
      have := (h.rng i hi).1; omega
  · rw [if_neg (by tauto)]; exact h.nv j (by omega) h2

/-- the dimension function after a new pivot row `k` for dimension `dim` -/
def pPush (p : Nat → Nat) (k dim : Nat) : Nat → Nat := fun i => if i = k then dim else p i

theorem pPush_self (p : Nat → Nat) (k dim : Nat) : pPush p k dim k = dim := by simp [pPush]
theorem pPush_ne (p : Nat → Nat) (k dim i : Nat) (h : i ≠ k) : pPush p k dim i = p i := by simp [pPush, h]

theorem KInv.push {dk : List Nat} {p : Nat → Nat} {k dim nc : Nat} (h : KInv dk p k (dim + 1) nc)
    (hdim : dim < nc) (hdkl : dim < dk.length) (v : Nat) (hv : v ≠ CON_VIRTUAL) :
    KInv (dk.set dim v) (pPush p k dim) (k + 1) dim nc := by
  refine ⟨?_, ?_, ?_⟩
  · intro i hi
    by_cases e : i = k
    · rw [e, pPush_self]; omega
    · rw [pPush_ne _ _ _ _ e]
      have := h.rng i (by omega); omega
  · intro i i' h1 h2
    rw [pPush_ne _ _ _ i (by omega)]
    by_cases e : i' = k
    · rw [e, pPush_self]
      have := h.rng i (by omega); omega
    · rw [pPush_ne _ _ _ _ e]; exact h.anti i i' h1 (by omega)
  · intro j h1 h2
    rw [kind_set]
    by_cases e : j = dim
    · rw [if_pos ⟨e, hdkl⟩]
      constructor
      · intro _; exact ⟨k, by omega, by rw [pPush_self, e]⟩
      · intro _; exact hv
    · rw [if_neg (by tauto), h.nv j (by omega) h2]
      constructor
      · rintro ⟨i, hi, hpi⟩
        exact ⟨i, by omega, by rw [pPush_ne _ _ _ _ (by omega)]; exact hpi⟩
      · rintro ⟨i, hi, hpi⟩
        by_cases e2 : i = k
        · rw [e2, pPush_self] at hpi; omega
        · rw [pPush_ne _ _ _ _ e2] at hpi
          exact ⟨i, by omega, hpi⟩

/-! ### the sign of the pivot -/

/-- `if (pivot.expr.get(dim) < 0) pivot.expr.negate(0, dim + 1);` -/
def negPivot (rows : List CRow) (k dim : Nat) : List CRow :=
  if get (rowAt rows k).e dim < 0 then
    rows.set k { rowAt rows k with e := negate (rowAt rows k).e 0 (dim + 1) }
  else rows

theorem negPivot_spec (n : Nat) (rows : List CRow) (k dim : Nat) (hk : k < rows.length)
    (hl : (rowAt rows k).e.length = n + 1) (hz : ∀ j, dim < j → get (rowAt rows k).e j = 0)
    (hnz : get (rowAt rows k).e dim ≠ 0) :
    (negPivot rows k dim).length = rows.length ∧ (∀ i, i ≠ k → rowAt (negPivot rows k dim) i = rowAt rows i) ∧
      (rowAt (negPivot rows k dim) k).m = (rowAt rows k).m ∧ (rowAt (negPivot rows k dim) k).e.length = n + 1 ∧
      0 < get (rowAt (negPivot rows k dim) k).e dim ∧ (∀ j, dim < j → get (rowAt (negPivot rows k dim) k).e j = 0) ∧
      ∀ x, Sol (negPivot rows k dim) x ↔ Sol rows x := by
  unfold negPivot
  by_cases hneg : get (rowAt rows k).e dim < 0
  · rw [if_pos hneg]
    have hent : ∀ j, get (negate (rowAt rows k).e 0 (dim + 1)) j = -1 * get (rowAt rows k).e j :=
      get_negate_full _ _ (fun i hi => hz i (by omega))
    refine ⟨by simp, ?_, ?_, ?_, ?_, ?_, ?_⟩
    · intro i hi; rw [rowAt_set, if_neg (by tauto)]
    · rw [rowAt_set, if_pos ⟨rfl, hk⟩]
    · rw [rowAt_set, if_pos ⟨rfl, hk⟩]; simpa using hl
    · rw [rowAt_set, if_pos ⟨rfl, hk⟩]
      show 0 < get (negate _ _ _) dim
      rw [hent dim]; omega
    · intro j hj
      rw [rowAt_set, if_pos ⟨rfl, hk⟩]
      show get (negate _ _ _) j = 0
      rw [hent j, hz j hj]; ring
    · intro x
      apply Sol_set_self_iff
      refine rsem_neg (rowAt rows k) ⟨negate (rowAt rows k).e 0 (dim + 1), (rowAt rows k).m⟩ x ?_ rfl
      have := evalRow_smul (negate (rowAt rows k).e 0 (dim + 1)) (rowAt rows k).e (-1) x (by simp) hent
      show evalRow (negate _ _ _) x = _
      rw [this]; push_cast; ring
  · rw [if_neg hneg]
    exact ⟨rfl, fun _ _ => rfl, rfl, hl, by omega, hz, fun x => Iff.rfl⟩

/-! ### the body -/

/-- the `else` branch of the body, `r0` = the first row (from the pivot position) that is non-zero in column `dim` -/
def dimBody (rows : List CRow) (dk : List Nat) (k dim r0 : Nat) : CSt :=
  let rows0 := if r0 ≠ k then swapRows rows r0 k else rows
  let r := (List.range' (r0 + 1) (rows.length - 1 - r0)).foldl (simplifyCgInner dim k)
    (rows0, (rowAt rows0 k).isEquality)
  let dk1 := dk.set dim (if r.2 then EQUALITY else PROPER_CONGRUENCE)
  let rows2 := negPivot r.1 k dim
  { rows := reduceReduced rows2 dim k 0 dim dk1 false, dk := dk1, pivotIndex := k + 1 }

theorem simplifyCgDim_eq (rows : List CRow) (dk : List Nat) (k dim : Nat) :
    simplifyCgDim rows.length ⟨rows, dk, k⟩ dim =
      if findNonZero rows dim rows.length (rows.length - k) k = rows.length then ⟨rows, dk.set dim CON_VIRTUAL, k⟩
      else dimBody rows dk k dim (findNonZero rows dim rows.length (rows.length - k) k) := rfl

/-- the state in which the inner loop starts -/
theorem innerInv_init {n : Nat} {rows : List CRow} {dk : List Nat} {p : Nat → Nat} {k dim : Nat}
    (h : Inv n rows dk p k (dim + 1)) (r0 : Nat) (hr1 : k ≤ r0) (hr2 : r0 < rows.length)
    (hz : ∀ j, k ≤ j → j < r0 → get (rowAt rows j).e dim = 0) (hnz : get (rowAt rows r0).e dim ≠ 0) :
    InnerInv n dk p k dim (if r0 ≠ k then swapRows rows r0 k else rows) (r0 + 1)
      (rowAt (if r0 ≠ k then swapRows rows r0 k else rows) k).isEquality := by
  by_cases e : r0 = k
  · rw [if_neg (by omega)]
    subst e
    exact ⟨h.wf, h.mod, hr2, h.piv, fun i h1 h2 j hj => h.rest i h1 h2 j (by omega), hnz, rfl,
      fun i h1 h2 => by omega⟩
  · rw [if_pos e]
    have hk : k < rows.length := by omega
    have hrow : ∀ i, rowAt (swapRows rows r0 k) i =
        if i = k then rowAt rows r0 else if i = r0 then rowAt rows k else rowAt rows i :=
      fun i => rowAt_swapRows rows r0 k i hr2 hk
    have hsrc : ∀ i, i < rows.length → ∃ i', i' < rows.length ∧ rowAt (swapRows rows r0 k) i = rowAt rows i' ∧
        (k ≤ i → k ≤ i') := by
      intro i hi
      rw [hrow i]
      by_cases e1 : i = k
      · rw [if_pos e1]; exact ⟨r0, hr2, rfl, fun _ => by omega⟩
      · rw [if_neg e1]
        by_cases e2 : i = r0
        · rw [if_pos e2]; exact ⟨k, hk, rfl, fun _ => by omega⟩
        · rw [if_neg e2]; exact ⟨i, hi, rfl, fun h => h⟩
    refine ⟨?_, ?_, by simpa using hk, ?_, ?_, ?_, rfl, ?_⟩
    · intro i hi
      rw [length_swapRows] at hi
      obtain ⟨i', hi', e, _⟩ := hsrc i hi
      rw [e]; exact h.wf i' hi'
    · obtain ⟨M, hM1, hM2⟩ := h.mod
      refine ⟨M, hM1, ?_⟩
      intro i hi
      rw [length_swapRows] at hi
      obtain ⟨i', hi', e, _⟩ := hsrc i hi
      rw [e]; exact hM2 i' hi'
    · intro i hi
      rw [hrow i, if_neg (by omega), if_neg (by omega)]; exact h.piv i hi
    · intro i hi1 hi2 j hj
      rw [length_swapRows] at hi2
      obtain ⟨i', hi', e, h1⟩ := hsrc i hi2
      rw [e]; exact h.rest i' (h1 hi1) hi' j (by omega)
    · rw [hrow k, if_pos rfl]; exact hnz
    · intro i hi1 hi2
      rw [hrow i, if_neg (by omega)]
      by_cases e2 : i = r0
      · rw [if_pos e2]; exact hz k (le_refl _) (by omega)
      · rw [if_neg e2]; exact hz i (by omega) (by omega)

theorem dimBody_inv {n : Nat} {rows : List CRow} {dk : List Nat} {p : Nat → Nat} {k dim : Nat}
    (h : Inv n rows dk p k (dim + 1)) (hdim : dim < n + 1) (r0 : Nat) (hr1 : k ≤ r0) (hr2 : r0 < rows.length)
    (hz : ∀ j, k ≤ j → j < r0 → get (rowAt rows j).e dim = 0) (hnz : get (rowAt rows r0).e dim ≠ 0) :
    Inv n (dimBody rows dk k dim r0).rows (dimBody rows dk k dim r0).dk (pPush p k dim) (k + 1) dim ∧
      (dimBody rows dk k dim r0).rows.length = rows.length ∧
      ∀ x, Sol (dimBody rows dk k dim r0).rows x ↔ Sol rows x := by
  have hdkl : dim < dk.length := by rw [h.dklen]; exact hdim
  have hk : k < rows.length := by omega
  -- the start of the inner loop
  have hI0 := innerInv_init h r0 hr1 hr2 hz hnz
  have hl0 : (if r0 ≠ k then swapRows rows r0 k else rows).length = rows.length := by split <;> simp
  have hS0 : ∀ x, Sol (if r0 ≠ k then swapRows rows r0 k else rows) x ↔ Sol rows x := by
    intro x
    split
    · exact Sol_swapRows rows r0 k hr2 hk x
    · rfl
  obtain ⟨rows0, hrows0⟩ : ∃ rows0, rows0 = (if r0 ≠ k then swapRows rows r0 k else rows) := ⟨_, rfl⟩
  have hfold := simplifyCgInner_fold (rows := rows0) (b := (rowAt rows0 k).isEquality) (r0 := r0)
    (by rw [hrows0]; exact hI0) hr1 (by rw [hrows0, hl0]; exact hr2)
  have hlr : rows0.length = rows.length := by rw [hrows0]; exact hl0
  rw [hlr] at hfold
  unfold dimBody
  rw [← hrows0]
  obtain ⟨r, hr⟩ : ∃ r, r = (List.range' (r0 + 1) (rows.length - 1 - r0)).foldl (simplifyCgInner dim k)
    (rows0, (rowAt rows0 k).isEquality) := ⟨_, rfl⟩
  simp only []
  rw [← hr] at hfold ⊢
  obtain ⟨hI1, hl1, hS1⟩ := hfold
  have hk1 : k < r.1.length := by rw [hl1]; exact hk
  -- the sign of the pivot
  obtain ⟨hn1, hn2, hn3, hn4, hn5, hn6, hn7⟩ := negPivot_spec n r.1 k dim hk1 (hI1.wf k hk1).1
    (hI1.rest k (le_refl _) hk1) hI1.pivnz
  obtain ⟨rows2, hrows2⟩ : ∃ rows2, rows2 = negPivot r.1 k dim := ⟨_, rfl⟩
  rw [← hrows2] at hn1 hn2 hn3 hn4 hn5 hn6 hn7 ⊢
  obtain ⟨dk1, hdk1⟩ : ∃ dk1, dk1 = dk.set dim (if r.2 = true then EQUALITY else PROPER_CONGRUENCE) := ⟨_, rfl⟩
  rw [← hdk1]
  have hm2 : ∀ i, (rowAt rows2 i).m = (rowAt r.1 i).m := by
    intro i
    by_cases e : i = k
    · rw [e]; exact hn3
    · rw [hn2 i e]
  have hkd : ∀ j, dim + 1 ≤ j → kind dk1 j = kind dk j := by
    intro j hj; rw [hdk1, kind_set, if_neg (by omega)]
  have hkdim : kind dk1 dim = if r.2 = true then EQUALITY else PROPER_CONGRUENCE := by
    rw [hdk1, kind_set, if_pos ⟨rfl, hdkl⟩]
  have hwf2 : RWf n rows2 := by
    intro i hi
    rw [hn1] at hi
    rw [hm2 i]
    refine ⟨?_, (hI1.wf i hi).2⟩
    by_cases e : i = k
    · rw [e]; exact hn4
    · rw [hn2 i e]; exact (hI1.wf i hi).1
  have hpk2 : KindOK (rowAt rows2 k) (kind dk1 dim) := by
    rw [hkdim]
    unfold KindOK
    rw [hn3]
    by_cases hb : r.2 = true
    · rw [if_pos hb]; left
      exact ⟨(isEquality_iff _).mp (by rw [← hI1.pivkind]; exact hb), rfl⟩
    · rw [if_neg hb]; right
      have h1 : ¬ (rowAt r.1 k).m = 0 := fun e => hb (by rw [hI1.pivkind]; exact (isEquality_iff _).mpr e)
      have := (hI1.wf k hk1).2
      exact ⟨by omega, rfl⟩
  have hpiv2 : ∀ i, i < k → PivRow (rowAt rows2 i) (kind dk1 (p i)) (p i) := by
    intro i hi
    rw [hn2 i (by omega), hkd _ (h.kinv.rng i hi).1]; exact hI1.piv i hi
  obtain ⟨M, hM1, hM2⟩ := hI1.mod
  have hmod2 : SameMod rows2 M := ⟨hM1, fun i hi => by rw [hm2 i]; exact hM2 i (by rw [← hn1]; exact hi)⟩
  have hrr := reduceReduced_rel n dk1 p k dim M rows2 (h.kinv.congr_dk hkd) (by rw [hdk1]; simpa using h.dklen)
    (by rw [hn1]; exact hk1) hwf2 (fun i hi => (hpiv2 i hi).kindok) hpk2 hn6 hmod2
  obtain ⟨rows3, hrows3⟩ : ∃ rows3, rows3 = reduceReduced rows2 dim k 0 dim dk1 false := ⟨_, rfl⟩
  rw [← hrows3] at hrr ⊢
  have hl3 : rows3.length = rows.length := by rw [hrr.len, hn1, hl1]
  refine ⟨⟨?_, by rw [hdk1]; simpa using h.dklen, ⟨M, hM1, ?_⟩, by omega, ?_, ?_, ?_⟩, hl3, ?_⟩
  · intro i hi
    have hi2 : i < rows2.length := by rw [← hrr.len]; exact hi
    rw [(hrr.row i).1, (hrr.row i).2.1]; exact hwf2 i hi2
  · intro i hi
    rw [(hrr.row i).1]; exact hmod2.2 i (by rw [← hrr.len]; exact hi)
  · intro i hi
    by_cases e : i = k
    · rw [e, pPush_self, hrr.same k (le_refl _)]
      exact ⟨hpk2, hn5, hn6⟩
    · have hik : i < k := by omega
      rw [pPush_ne _ _ _ _ e]
      have hp := hpiv2 i hik
      have hpd := (h.kinv.rng i hik).1
      refine ⟨?_, ?_, ?_⟩
      · have := hp.kindok
        unfold KindOK at this ⊢
        rw [(hrr.row i).1]; exact this
      · rw [(hrr.row i).2.2 _ (by omega)]; exact hp.pos
      · intro j hj; rw [(hrr.row i).2.2 j (by omega)]; exact hp.zero j hj
  · intro i hi1 hi2 j hj
    rw [hl3] at hi2
    rw [hrr.same i (by omega), hn2 i (by omega)]
    by_cases e : j = dim
    · rw [e]; exact hI1.done i (by omega) hi2
    · exact hI1.rest i (by omega) (by rw [hl1]; exact hi2) j (by omega)
  · rw [hdk1]
    apply h.kinv.push hdim hdkl
    split <;> simp [EQUALITY, PROPER_CONGRUENCE, CON_VIRTUAL]
  · intro x
    rw [hrr.sol x, hn7 x, hS1 x, hrows0]; exact hS0 x

/-- the body of the loop over the dimensions keeps the invariant and the solution set -/
theorem simplifyCgDim_inv {n : Nat} {rows : List CRow} {dk : List Nat} {p : Nat → Nat} {k dim : Nat}
    (h : Inv n rows dk p k (dim + 1)) (hdim : dim < n + 1) :
    ∃ p', Inv n (simplifyCgDim rows.length ⟨rows, dk, k⟩ dim).rows (simplifyCgDim rows.length ⟨rows, dk, k⟩ dim).dk p'
        (simplifyCgDim rows.length ⟨rows, dk, k⟩ dim).pivotIndex dim ∧
      (simplifyCgDim rows.length ⟨rows, dk, k⟩ dim).rows.length = rows.length ∧
      ∀ x, Sol (simplifyCgDim rows.length ⟨rows, dk, k⟩ dim).rows x ↔ Sol rows x := by
  have hkle := h.kle
  have hdkl : dim < dk.length := by rw [h.dklen]; exact hdim
  obtain ⟨hf1, hf2, hf3, hf4⟩ := findNonZero_spec rows dim rows.length (rows.length - k) k (by omega)
  rw [simplifyCgDim_eq]
  by_cases hr : findNonZero rows dim rows.length (rows.length - k) k = rows.length
  · rw [if_pos hr]
    rw [hr] at hf3
    refine ⟨p, ⟨h.wf, by simpa using h.dklen, h.mod, h.kle, ?_, ?_, h.kinv.virt hdkl⟩, rfl, fun x => Iff.rfl⟩
    · intro i hi
      show PivRow (rowAt rows i) (kind (dk.set dim CON_VIRTUAL) (p i)) (p i)
      rw [kind_set, if_neg (by have := (h.kinv.rng i hi).1; omega)]; exact h.piv i hi
    · intro i hi1 hi2 j hj
      show get (rowAt rows i).e j = 0
      by_cases e : j = dim
      · rw [e]; exact hf3 i hi1 hi2
      · exact h.rest i hi1 hi2 j (by omega)
  · rw [if_neg hr]
    have hlt : findNonZero rows dim rows.length (rows.length - k) k < rows.length := by omega
    obtain ⟨h1, h2, h3⟩ := dimBody_inv h hdim _ hf1 hlt hf3 (hf4 hlt)
    exact ⟨_, h1, h2, h3⟩

end PPLV.Lattice.Red
