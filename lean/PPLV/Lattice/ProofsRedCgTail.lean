import PPLV.Lattice.ProofsRedCgDim

/-!
# `Grid::simplify(Congruence_System&)`: the end of the function (Grid_simplify.cc:579-608)

The last row becomes the integrality congruence `m ≡ 0 (mod m)` (appended, or the inhomogeneous
term of the row of column 0 is replaced), then `reduce_reduced` is run for column 0.
-/
namespace PPLV.Lattice.Red

/-- the result: all rows are pivot rows (`Inv` with every row and every dimension processed), the last one is
    the integrality congruence and `dim_kinds[0] = PROPER_CONGRUENCE` -/
def Final (n : Nat) (rows : List CRow) (dk : List Nat) : Prop :=
  ∃ (p : Nat → Nat) (mm : Int), Inv n rows dk p rows.length 0 ∧ 0 < mm ∧
    rowAt rows (rows.length - 1) = integralityRow n mm ∧ kind dk 0 = PROPER_CONGRUENCE

/-! ### small facts -/

theorem get_replicate_zero (n j : Nat) : get (List.replicate n 0) j = 0 := by
  unfold get
  by_cases h : j < n
  · simp [h]
  · simp [h]

theorem get_integralityRow (n : Nat) (mm : Int) (j : Nat) :
    get (integralityRow n mm).e j = if j = 0 then mm else 0 := by
  unfold integralityRow
  cases j with
  | zero => simp [get_cons_zero]
  | succ j => simp only [get_cons_succ, get_replicate_zero]; simp

theorem length_integralityRow (n : Nat) (mm : Int) : (integralityRow n mm).e.length = n + 1 := by
  simp [integralityRow]

theorem rsem_integralityRow (n : Nat) (mm : Int) (x : Pt) : rsem (integralityRow n mm) x := by
  refine ⟨1, ?_⟩
  rw [evalRow_const _ x (fun i hi => by rw [get_integralityRow, if_neg (by omega)]), get_integralityRow, if_pos rfl]
  show (mm : ℚ) = (1 : Int) * (mm : ℚ)
  push_cast; ring

theorem pivRow_integralityRow (n : Nat) (mm : Int) (kd : Nat) (hmm : 0 < mm) (hk : kd = PROPER_CONGRUENCE) :
    PivRow (integralityRow n mm) kd 0 :=
  ⟨Or.inr ⟨hmm, hk⟩, by rw [get_integralityRow, if_pos rfl]; exact hmm,
   fun j hj => by rw [get_integralityRow, if_neg (by omega)]⟩

/-! ### `KInv`: forgetting the last row / dimension 0 -/

theorem KInv.drop {dk : List Nat} {p : Nat → Nat} {k d nc : Nat} (h : KInv dk p k d nc)
    (hno : ∀ i, i < k → p i ≠ d) : KInv dk p k (d + 1) nc :=
  ⟨fun i hi => ⟨by have := (h.rng i hi).1; have := hno i hi; omega, (h.rng i hi).2⟩, h.anti,
   fun j h1 h2 => h.nv j (by omega) h2⟩

/-- the last row is the row of dimension 0 when `dim_kinds[0]` is not virtual -/
theorem KInv.last0 {dk : List Nat} {p : Nat → Nat} {k nc : Nat} (h : KInv dk p k 0 nc) (hnc : 0 < nc)
    (hnv : kind dk 0 ≠ CON_VIRTUAL) : 0 < k ∧ p (k - 1) = 0 := by
  obtain ⟨i, hi, hpi⟩ := (h.nv 0 (le_refl _) hnc).mp hnv
  refine ⟨by omega, ?_⟩
  by_cases e : i = k - 1
  · rw [← e]; exact hpi
  · have := h.anti i (k - 1) (by omega) (by omega); omega

theorem KInv.pop {dk : List Nat} {p : Nat → Nat} {k nc : Nat} (h : KInv dk p k 0 nc) (hk : 0 < k)
    (hp : p (k - 1) = 0) : KInv dk p (k - 1) 1 nc := by
  refine ⟨?_, fun i i' h1 h2 => h.anti i i' h1 (by omega), ?_⟩
  · intro i hi
    have := h.anti i (k - 1) hi (by omega)
    exact ⟨by omega, (h.rng i (by omega)).2⟩
  · intro j h1 h2
    rw [h.nv j (by omega) h2]
    constructor
    · rintro ⟨i, hi, hpi⟩
      by_cases e : i = k - 1
      · rw [e, hp] at hpi; omega
      · exact ⟨i, by omega, hpi⟩
    · rintro ⟨i, hi, hpi⟩; exact ⟨i, by omega, hpi⟩

theorem KInv.push' {dk : List Nat} {p : Nat → Nat} {k dim nc : Nat} (h : KInv dk p k (dim + 1) nc)
    (hdim : dim < nc) (hdkl : dim < dk.length) (hv : kind dk dim ≠ CON_VIRTUAL) :
    KInv dk (pPush p k dim) (k + 1) dim nc := by
  apply (h.push hdim hdkl (kind dk dim) hv).congr_dk
  intro j _
  rw [kind_set]
  split
  · next hc => rw [hc.1]
  · rfl

/-! ### the last step: `reduce_reduced` for column 0 -/

/-- the system after the last row has been made the integrality congruence -/
structure PostForm (n : Nat) (rowsT : List CRow) (dkT : List Nat) (p : Nat → Nat) (mm : Int) : Prop where
  wf : RWf n rowsT
  dklen : dkT.length = n + 1
  mod : ∃ M, SameMod rowsT M
  pos : 0 < rowsT.length
  piv : ∀ i, i < rowsT.length - 1 → PivRow (rowAt rowsT i) (kind dkT (p i)) (p i)
  kinv : KInv dkT p (rowsT.length - 1) 1 (n + 1)
  last : rowAt rowsT (rowsT.length - 1) = integralityRow n mm
  mmpos : 0 < mm
  k0 : kind dkT 0 = PROPER_CONGRUENCE

theorem tail_finish {n : Nat} {rowsT : List CRow} {dkT : List Nat} {p : Nat → Nat} {mm : Int}
    (h : PostForm n rowsT dkT p mm) :
    Final n (reduceReduced rowsT 0 (rowsT.length - 1) 0 0 dkT false) dkT ∧
      ∀ x, Sol (reduceReduced rowsT 0 (rowsT.length - 1) 0 0 dkT false) x ↔ Sol rowsT x := by
  obtain ⟨M, hM⟩ := h.mod
  have hpos := h.pos
  have hpk : KindOK (rowAt rowsT (rowsT.length - 1)) (kind dkT 0) := by
    rw [h.last, h.k0]; exact Or.inr ⟨h.mmpos, rfl⟩
  have hpz : ∀ j, 0 < j → get (rowAt rowsT (rowsT.length - 1)).e j = 0 := by
    intro j hj; rw [h.last, get_integralityRow, if_neg (by omega)]
  have hrr := reduceReduced_rel n dkT p (rowsT.length - 1) 0 M rowsT h.kinv h.dklen (by omega) h.wf
    (fun i hi => (h.piv i hi).kindok) hpk hpz hM
  obtain ⟨rows', hrows'⟩ : ∃ rows', rows' = reduceReduced rowsT 0 (rowsT.length - 1) 0 0 dkT false := ⟨_, rfl⟩
  rw [← hrows'] at hrr ⊢
  have hlast' : rowAt rows' (rows'.length - 1) = integralityRow n mm := by
    rw [hrr.len, hrr.same _ (le_refl _)]; exact h.last
  refine ⟨⟨pPush p (rowsT.length - 1) 0, mm, ⟨?_, h.dklen, ⟨M, hM.1, ?_⟩, le_refl _, ?_, ?_, ?_⟩, h.mmpos, hlast', h.k0⟩,
    hrr.sol⟩
  · intro i hi
    rw [(hrr.row i).1, (hrr.row i).2.1]; exact h.wf i (by rw [← hrr.len]; exact hi)
  · intro i hi
    rw [(hrr.row i).1]; exact hM.2 i (by rw [← hrr.len]; exact hi)
  · intro i hi
    rw [hrr.len] at hi
    by_cases e : i = rowsT.length - 1
    · rw [e, pPush_self, hrr.same _ (le_refl _), h.last]
      exact pivRow_integralityRow n mm _ h.mmpos h.k0
    · rw [pPush_ne _ _ _ _ e]
      have hp := h.piv i (by omega)
      have hpd := (h.kinv.rng i (by omega)).1
      refine ⟨?_, ?_, ?_⟩
      · have := hp.kindok
        unfold KindOK at this ⊢
        rw [(hrr.row i).1]; exact this
      · rw [(hrr.row i).2.2 _ (by omega)]; exact hp.pos
      · intro j hj; rw [(hrr.row i).2.2 j (by omega)]; exact hp.zero j hj
  · intro i hi1 hi2; omega
  · have : rows'.length = rowsT.length - 1 + 1 := by rw [hrr.len]; omega
    rw [this]
    apply h.kinv.push' (by omega) (by rw [h.dklen]; omega)
    rw [h.k0]; simp [PROPER_CONGRUENCE, CON_VIRTUAL]

/-! ### forming the last row -/

/-- the first statement of the tail -/
def tailForm (n : Nat) (rows : List CRow) (dk : List Nat) : List CRow × List Nat :=
  if kind dk 0 = CON_VIRTUAL then
    (rows ++ [integralityRow n (lastModulus rows)], dk.set 0 PROPER_CONGRUENCE)
  else
    (rows.set (rows.length - 1)
      { rowAt rows (rows.length - 1) with e := (rowAt rows (rows.length - 1)).e.set 0 (rowAt rows (rows.length - 1)).m },
     dk)

theorem simplifyCgsTail_eq (n : Nat) (rows : List CRow) (dk : List Nat) :
    simplifyCgsTail n rows dk =
      (reduceReduced (tailForm n rows dk).1 0 ((tailForm n rows dk).1.length - 1) 0 0 (tailForm n rows dk).2 false,
       (tailForm n rows dk).2, false) := rfl

theorem lastModulus_spec (rows : List CRow) (M : Int) (h : SameMod rows M) :
    0 < lastModulus rows ∧ ∃ M', 0 < M' ∧ lastModulus rows = M' ∧
      ∀ i, i < rows.length → (rowAt rows i).m = 0 ∨ (rowAt rows i).m = M' := by
  unfold lastModulus
  cases hf : rows.reverse.find? (fun r => decide (r.m > 0)) with
  | none =>
    simp only []
    refine ⟨by norm_num, 1, by norm_num, rfl, ?_⟩
    intro i hi
    left
    have h1 := List.find?_eq_none.mp hf (rowAt rows i) (by simpa using rowAt_mem rows i hi)
    rcases h.2 i hi with h0 | h0
    · exact h0
    · have : ¬ (rowAt rows i).m > 0 := by simpa using h1
      have := h.1; omega
  | some r =>
    simp only []
    have hp : r.m > 0 := by simpa using List.find?_some hf
    have hmem : r ∈ rows := by simpa using List.mem_of_find?_eq_some hf
    obtain ⟨i, hi, rfl⟩ := List.getElem_of_mem hmem
    have hM : rows[i].m = M := by
      have := h.2 i hi
      rw [rowAt_eq_getElem _ _ hi] at this
      rcases this with h0 | h0
      · omega
      · exact h0
    exact ⟨hp, M, h.1, hM, h.2⟩

/-- `dim_kinds[0] = CON_VIRTUAL`: the integrality congruence is appended -/
theorem tail_cv {n : Nat} {rows : List CRow} {dk : List Nat} {p : Nat → Nat}
    (h : Inv n rows dk p rows.length 0) (hcv : kind dk 0 = CON_VIRTUAL) :
    PostForm n (tailForm n rows dk).1 (tailForm n rows dk).2 p (lastModulus rows) ∧
      ∀ x, Sol (tailForm n rows dk).1 x ↔ Sol rows x := by
  obtain ⟨M, hM⟩ := h.mod
  obtain ⟨hlm, M', hM'1, hM'2, hM'3⟩ := lastModulus_spec rows M hM
  unfold tailForm
  rw [if_pos hcv]
  simp only []
  have hlen : (rows ++ [integralityRow n (lastModulus rows)]).length - 1 = rows.length := by simp
  have hno : ∀ i, i < rows.length → p i ≠ 0 := by
    intro i hi e
    have := (h.kinv.nv 0 (le_refl _) (by omega)).mpr ⟨i, hi, e⟩
    exact this hcv
  refine ⟨⟨?_, by simpa using h.dklen, ⟨M', hM'1, ?_⟩, by simp, ?_, ?_, ?_, hlm, ?_⟩, fun x => Sol_append rows _ x (rsem_integralityRow n _ x)⟩
  · intro i hi
    by_cases e : i < rows.length
    · rw [rowAt_append_left _ _ _ e]; exact h.wf i e
    · have : i = rows.length := by simp at hi; omega
      rw [this, rowAt_append_last]
      exact ⟨length_integralityRow n _, by show 0 ≤ lastModulus rows; omega⟩
  · intro i hi
    by_cases e : i < rows.length
    · rw [rowAt_append_left _ _ _ e]; exact hM'3 i e
    · have : i = rows.length := by simp at hi; omega
      rw [this, rowAt_append_last]
      right; exact hM'2
  · intro i hi
    rw [hlen] at hi
    rw [rowAt_append_left _ _ _ hi, kind_set, if_neg (by have := hno i hi; omega)]
    exact h.piv i hi
  · rw [hlen]
    apply (h.kinv.drop hno).congr_dk
    intro j hj
    rw [kind_set, if_neg (by omega)]
  · rw [hlen, rowAt_append_last]
  · rw [kind_set, if_pos ⟨rfl, by rw [h.dklen]; omega⟩]

/-- `dim_kinds[0] = PROPER_CONGRUENCE`: the inhomogeneous term of the last row becomes its modulus -/
theorem tail_pc {n : Nat} {rows : List CRow} {dk : List Nat} {p : Nat → Nat}
    (hwf : RWf n rows) (hdk : dk.length = n + 1) (hmod : ∃ M, SameMod rows M) (hpos : 0 < rows.length)
    (hpiv : ∀ i, i < rows.length - 1 → PivRow (rowAt rows i) (kind dk (p i)) (p i))
    (hK : KInv dk p (rows.length - 1) 1 (n + 1)) (hk0 : kind dk 0 = PROPER_CONGRUENCE)
    (hlm : 0 < (rowAt rows (rows.length - 1)).m)
    (hlz : ∀ j, 0 < j → get (rowAt rows (rows.length - 1)).e j = 0)
    (hsat : ∀ x, rsem (rowAt rows (rows.length - 1)) x) :
    PostForm n (tailForm n rows dk).1 (tailForm n rows dk).2 p (rowAt rows (rows.length - 1)).m ∧
      ∀ x, Sol (tailForm n rows dk).1 x ↔ Sol rows x := by
  unfold tailForm
  rw [if_neg (by rw [hk0]; simp [PROPER_CONGRUENCE, CON_VIRTUAL])]
  simp only []
  have hL : rows.length - 1 < rows.length := by omega
  have hnew : ({ rowAt rows (rows.length - 1) with
      e := (rowAt rows (rows.length - 1)).e.set 0 (rowAt rows (rows.length - 1)).m } : CRow) =
      integralityRow n (rowAt rows (rows.length - 1)).m := by
    have hl := (hwf _ hL).1
    have : (rowAt rows (rows.length - 1)).e.set 0 (rowAt rows (rows.length - 1)).m =
        (integralityRow n (rowAt rows (rows.length - 1)).m).e := by
      apply row_ext
      · rw [List.length_set, hl, length_integralityRow]
      · intro i hi
        rw [get_set, get_integralityRow]
        by_cases e : i = 0
        · rw [if_pos ⟨e, by omega⟩, if_pos e]
        · rw [if_neg (by tauto), if_neg e]; exact hlz i (by omega)
    show CRow.mk _ _ = _
    rw [this]; rfl
  rw [hnew]
  have hrow : ∀ i, rowAt (rows.set (rows.length - 1) (integralityRow n (rowAt rows (rows.length - 1)).m)) i =
      if i = rows.length - 1 then integralityRow n (rowAt rows (rows.length - 1)).m else rowAt rows i := by
    intro i
    rw [rowAt_set]
    by_cases e : i = rows.length - 1
    · rw [if_pos ⟨e, hL⟩, if_pos e]
    · rw [if_neg (by tauto), if_neg e]
  obtain ⟨M, hM⟩ := hmod
  refine ⟨⟨?_, hdk, ⟨M, hM.1, ?_⟩, by simpa using hpos, ?_, by simpa using hK, ?_, hlm, hk0⟩, ?_⟩
  · intro i hi
    rw [List.length_set] at hi
    rw [hrow i]
    split
    · exact ⟨length_integralityRow n _, by show 0 ≤ (rowAt rows (rows.length - 1)).m; omega⟩
    · exact hwf i hi
  · intro i hi
    rw [List.length_set] at hi
    rw [hrow i]
    split
    · exact hM.2 _ hL
    · exact hM.2 i hi
  · intro i hi
    rw [List.length_set] at hi
    rw [hrow i, if_neg (by omega)]; exact hpiv i hi
  · rw [List.length_set, hrow, if_pos rfl]
  · intro x
    apply Sol_set_self_iff
    exact ⟨fun _ => hsat x, fun _ => rsem_integralityRow n _ x⟩

/-- the tail for a system in which every row is a pivot row and the row of column 0 (if any) is a true
    proper congruence -/
theorem simplifyCgsTail_spec {n : Nat} {rows : List CRow} {dk : List Nat} {p : Nat → Nat}
    (h : Inv n rows dk p rows.length 0)
    (h0 : kind dk 0 ≠ CON_VIRTUAL → kind dk 0 = PROPER_CONGRUENCE ∧ ∀ x, rsem (rowAt rows (rows.length - 1)) x) :
    Final n (simplifyCgsTail n rows dk).1 (simplifyCgsTail n rows dk).2.1 ∧ (simplifyCgsTail n rows dk).2.2 = false ∧
      ∀ x, Sol (simplifyCgsTail n rows dk).1 x ↔ Sol rows x := by
  rw [simplifyCgsTail_eq]
  simp only []
  by_cases hcv : kind dk 0 = CON_VIRTUAL
  · obtain ⟨hP, hS⟩ := tail_cv h hcv
    obtain ⟨hF, hS2⟩ := tail_finish hP
    exact ⟨hF, trivial, fun x => (hS2 x).trans (hS x)⟩
  · obtain ⟨hk0, hsat⟩ := h0 hcv
    obtain ⟨hkpos, hp0⟩ := h.kinv.last0 (by omega) hcv
    have hlastp := h.piv (rows.length - 1) (by omega)
    rw [hp0] at hlastp
    have hlm : 0 < (rowAt rows (rows.length - 1)).m := by
      rcases hlastp.kindok with ⟨_, h2⟩ | ⟨h1, _⟩
      · rw [hk0] at h2; simp [PROPER_CONGRUENCE, EQUALITY] at h2
      · exact h1
    obtain ⟨hP, hS⟩ := tail_pc (p := p) h.wf h.dklen h.mod hkpos (fun i hi => h.piv i (by omega))
      (h.kinv.pop hkpos hp0) hk0 hlm hlastp.zero hsat
    obtain ⟨hF, hS2⟩ := tail_finish hP
    exact ⟨hF, trivial, fun x => (hS2 x).trans (hS x)⟩

end PPLV.Lattice.Red
