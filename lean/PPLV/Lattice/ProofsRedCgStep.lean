import PPLV.Lattice.ProofsRedCgEval

/-!
# `Grid::simplify(Congruence_System&)`: the single steps keep the solution set

Entry-wise descriptions of `reduce_equality_with_equality`, `reduce_congruence_with_equality`,
`reduce_pc_with_pc`, `negate`, `Congruence::scale`, `normalize_moduli`, and what they do to `Sol`.
-/
namespace PPLV.Lattice.Red

/-! ### small facts -/

theorem kind_set (dk : List Nat) (j v i : Nat) :
    kind (dk.set j v) i = if i = j ∧ j < dk.length then v else kind dk i := by
  unfold kind
  by_cases h : i = j
  · subst h
    by_cases h2 : i < dk.length
    · simp [h2]
    · simp [h2]
  · have : j ≠ i := fun e => h e.symm
    simp [h, List.getElem?_set_ne this]

/-- a combination on the columns `[0, e)` is the combination of the whole rows when the rows vanish from `e` on -/
theorem get_linearCombine_full (x y : Row) (c1 c2 : Int) (e : Nat) (hl : y.length = x.length)
    (hy : ∀ i, e ≤ i → get y i = 0) (hx : c1 = 1 ∨ ∀ i, e ≤ i → get x i = 0) (i : Nat) :
    get (linearCombine x y c1 c2 0 e) i = c1 * get x i + c2 * get y i := by
  rw [get_linearCombine]
  by_cases h : i < x.length ∧ 0 ≤ i ∧ i < e
  · rw [if_pos h]
  · rw [if_neg h]
    by_cases h1 : i < x.length
    · have h2 : e ≤ i := by
        by_contra hc; exact h ⟨h1, Nat.zero_le _, by omega⟩
      rw [hy i h2]
      rcases hx with hx | hx
      · rw [hx]; ring
      · rw [hx i h2]; ring
    · rw [get_of_length_le x i (by omega), get_of_length_le y i (by omega)]; ring

theorem get_negate_full (x : Row) (e : Nat) (hx : ∀ i, e ≤ i → get x i = 0) (i : Nat) :
    get (negate x 0 e) i = -1 * get x i := by
  rw [get_negate]
  by_cases h : 0 ≤ i ∧ i < e
  · rw [if_pos h]; ring
  · rw [if_neg h, hx i (by omega)]; ring

/-- exact divisions by the gcd -/
theorem gcd_div_cancel (a b : Int) (ha : a ≠ 0) :
    (a / gcdI a b) * b - (b / gcdI a b) * a = 0 ∧ a / gcdI a b ≠ 0 := by
  obtain ⟨g, hg⟩ : ∃ g : Int, g = gcdI a b := ⟨_, rfl⟩
  rw [← hg]
  have hgne : g ≠ 0 := by
    rw [hg]; unfold gcdI
    intro h
    have : Int.gcd a b = 0 := by exact_mod_cast h
    exact ha (Int.gcd_eq_zero_iff.mp this).1
  obtain ⟨a', ha'⟩ : g ∣ a := by rw [hg]; exact Int.gcd_dvd_left a b
  obtain ⟨b', hb'⟩ : g ∣ b := by rw [hg]; exact Int.gcd_dvd_right a b
  have h1 : a / g = a' := by rw [ha', Int.mul_ediv_cancel_left _ hgne]
  have h2 : b / g = b' := by rw [hb', Int.mul_ediv_cancel_left _ hgne]
  rw [h1, h2]
  constructor
  · rw [ha', hb']; ring
  · intro h; rw [h] at ha'; exact ha (by rw [ha']; ring)

/-- Bézout coefficients and cofactors: determinant 1 -/
theorem gcd_bezout_det (a b s t : Int) (ha : a ≠ 0) (h : s * a + t * b = (Int.gcd a b : Int)) :
    s * (a / gcdI a b) + t * (b / gcdI a b) = 1 := by
  obtain ⟨g, hg⟩ : ∃ g : Int, g = gcdI a b := ⟨_, rfl⟩
  have hg' : (Int.gcd a b : Int) = g := by rw [hg]; rfl
  rw [hg'] at h
  rw [← hg]
  have hgne : g ≠ 0 := by
    rw [hg]; unfold gcdI
    intro h
    have : Int.gcd a b = 0 := by exact_mod_cast h
    exact ha (Int.gcd_eq_zero_iff.mp this).1
  obtain ⟨a', ha'⟩ : g ∣ a := by rw [hg]; exact Int.gcd_dvd_left a b
  obtain ⟨b', hb'⟩ : g ∣ b := by rw [hg]; exact Int.gcd_dvd_right a b
  have h1 : a / g = a' := by rw [ha', Int.mul_ediv_cancel_left _ hgne]
  have h2 : b / g = b' := by rw [hb', Int.mul_ediv_cancel_left _ hgne]
  rw [h1, h2]
  have : g * (s * a' + t * b') = g * 1 := by
    rw [ha', hb'] at h
    rw [mul_one]
    calc g * (s * a' + t * b') = s * (g * a') + t * (g * b') := by ring
      _ = g := h
  exact mul_left_cancel₀ hgne this

/-! ### `Sol` under a change of several rows -/

theorem Sol_congr_rows (sys sys' : List CRow) (x : Pt) (hlen : sys'.length = sys.length) (pi : Nat)
    (hpi : pi < sys.length) (hsame : rowAt sys' pi = rowAt sys pi)
    (h : ∀ i, i < sys.length → rsem (rowAt sys pi) x → (rsem (rowAt sys' i) x ↔ rsem (rowAt sys i) x)) :
    Sol sys' x ↔ Sol sys x := by
  unfold Sol
  rw [hlen]
  constructor
  · intro hs i hi
    have hp := hs pi hpi
    rw [hsame] at hp
    exact (h i hi hp).mp (hs i hi)
  · intro hs i hi
    exact (h i hi (hs pi hpi)).mpr (hs i hi)

theorem Sol_congr_all (sys sys' : List CRow) (x : Pt) (hlen : sys'.length = sys.length)
    (h : ∀ i, i < sys.length → (rsem (rowAt sys' i) x ↔ rsem (rowAt sys i) x)) :
    Sol sys' x ↔ Sol sys x := by
  unfold Sol
  rw [hlen]
  constructor
  · intro hs i hi; exact (h i hi).mp (hs i hi)
  · intro hs i hi; exact (h i hi).mpr (hs i hi)

/-! ### scaling -/

/-- `r'` is `r` multiplied by `f` (entries and modulus) -/
def ScaledBy (r' r : CRow) (f : Int) : Prop :=
  r'.m = r.m * f ∧ r'.e.length = r.e.length ∧ ∀ j, get r'.e j = f * get r.e j

theorem scaledBy_one (r : CRow) : ScaledBy r r 1 := ⟨by ring, rfl, fun j => by ring⟩

theorem scale_spec (r : CRow) (f : Int) : ScaledBy (r.scale f) r f := by
  unfold CRow.scale
  split
  · next h => rw [h]; exact scaledBy_one r
  · exact ⟨rfl, by simp, fun j => by rw [get_mulAll]; ring⟩

theorem ScaledBy.rsem {r' r : CRow} {f : Int} (h : ScaledBy r' r f) (hf : f ≠ 0) (x : Pt) : rsem r' x ↔ rsem r x :=
  rsem_scaled r r' f x hf (evalRow_smul _ _ f x h.2.1 h.2.2) h.1

/-! ### `normalize_moduli` -/

/-- the lcm computed by `normalize_moduli` -/
def lcmModuli (rows : List CRow) : Int :=
  rows.foldr (fun r l => if r.m > 0 then (if l = 0 then r.m else lcmI l r.m) else l) 0

theorem lcmModuli_spec (rows : List CRow) :
    0 ≤ lcmModuli rows ∧ ∀ r ∈ rows, 0 < r.m → 0 < lcmModuli rows ∧ r.m ∣ lcmModuli rows := by
  induction rows with
  | nil => simp [lcmModuli]
  | cons r rs ih =>
    obtain ⟨ih1, ih2⟩ := ih
    have e : lcmModuli (r :: rs) =
        if r.m > 0 then (if lcmModuli rs = 0 then r.m else lcmI (lcmModuli rs) r.m) else lcmModuli rs := rfl
    rw [e]
    by_cases hr : r.m > 0
    · rw [if_pos hr]
      by_cases hl : lcmModuli rs = 0
      · rw [if_pos hl]
        refine ⟨by omega, ?_⟩
        intro r' hr' hpos
        rcases List.mem_cons.mp hr' with rfl | hmem
        · exact ⟨hr, dvd_refl _⟩
        · have := (ih2 r' hmem hpos).1; omega
      · rw [if_neg hl]
        have hne : lcmI (lcmModuli rs) r.m ≠ 0 := by
          unfold lcmI
          intro h
          have h' : Int.lcm (lcmModuli rs) r.m = 0 := by exact_mod_cast h
          rcases Int.lcm_eq_zero_iff.mp h' with h1 | h1
          · exact hl h1
          · omega
        have hnn : 0 ≤ lcmI (lcmModuli rs) r.m := by unfold lcmI; exact Int.natCast_nonneg _
        refine ⟨hnn, ?_⟩
        intro r' hr' hpos
        refine ⟨by omega, ?_⟩
        rcases List.mem_cons.mp hr' with rfl | hmem
        · exact Int.dvd_lcm_right _ _
        · exact dvd_trans (ih2 r' hmem hpos).2 (Int.dvd_lcm_left _ _)
    · rw [if_neg hr]
      refine ⟨ih1, ?_⟩
      intro r' hr' hpos
      rcases List.mem_cons.mp hr' with rfl | hmem
      · exact absurd hpos hr
      · exact ih2 r' hmem hpos

/-- `normalize_moduli` keeps the solution set; afterwards all proper congruences have one modulus -/
theorem normalizeModuli_spec (n : Nat) (rows : List CRow) (hwf : RWf n rows) :
    (normalizeModuli rows).length = rows.length ∧ RWf n (normalizeModuli rows) ∧
      (∃ M, SameMod (normalizeModuli rows) M) ∧ ∀ x, Sol (normalizeModuli rows) x ↔ Sol rows x := by
  obtain ⟨hL0, hL⟩ := lcmModuli_spec rows
  have e : normalizeModuli rows =
      if lcmModuli rows = 0 then rows
      else rows.map fun r => if r.m ≤ 0 ∨ r.m = lcmModuli rows then r else r.scale (lcmModuli rows / r.m) := rfl
  rw [e]
  by_cases h0 : lcmModuli rows = 0
  · rw [if_pos h0]
    refine ⟨rfl, hwf, ⟨1, by norm_num, ?_⟩, fun x => Iff.rfl⟩
    intro i hi
    left
    have h1 := (hwf i hi).2
    by_contra hne
    have := (hL _ (rowAt_mem rows i hi) (by omega)).1
    omega
  · rw [if_neg h0]
    have hLpos : 0 < lcmModuli rows := by omega
    -- what happens to one row of the system
    have key : ∀ i, i < rows.length →
        ∃ f : Int, 0 < f ∧ ScaledBy (rowAt (rows.map fun r => if r.m ≤ 0 ∨ r.m = lcmModuli rows then r
          else r.scale (lcmModuli rows / r.m)) i) (rowAt rows i) f ∧
          ((rowAt rows i).m = 0 ∨ (rowAt rows i).m * f = lcmModuli rows) := by
      intro i hi
      rw [rowAt_map _ _ _ hi]
      have hm := (hwf i hi).2
      by_cases hc : (rowAt rows i).m ≤ 0 ∨ (rowAt rows i).m = lcmModuli rows
      · rw [if_pos hc]
        refine ⟨1, by norm_num, scaledBy_one _, ?_⟩
        rcases hc with hc | hc
        · left; omega
        · right; rw [hc]; ring
      · rw [if_neg hc]
        have hpos : 0 < (rowAt rows i).m := by
          by_contra hh; exact hc (Or.inl (by omega))
        have hdvd := (hL _ (rowAt_mem rows i hi) hpos).2
        refine ⟨lcmModuli rows / (rowAt rows i).m, Int.ediv_pos_of_pos_of_dvd hLpos hm hdvd, scale_spec _ _, ?_⟩
        right; exact Int.mul_ediv_cancel' hdvd
    refine ⟨by simp, ?_, ⟨lcmModuli rows, hLpos, ?_⟩, ?_⟩
    · intro i hi
      have hi' : i < rows.length := by simpa using hi
      obtain ⟨f, hf, hs, _⟩ := key i hi'
      have := hwf i hi'
      refine ⟨by rw [hs.2.1]; exact this.1, ?_⟩
      rw [hs.1]; exact Int.mul_nonneg this.2 (by omega)
    · intro i hi
      have hi' : i < rows.length := by simpa using hi
      obtain ⟨f, hf, hs, hm⟩ := key i hi'
      rw [hs.1]
      rcases hm with hm | hm
      · left; rw [hm]; ring
      · right; exact hm
    · intro x
      apply Sol_congr_all _ _ x (by simp)
      intro i hi
      obtain ⟨f, hf, hs, _⟩ := key i hi
      exact hs.rsem (by omega) x

/-! ### `reduce_equality_with_equality` -/

theorem reduceEqualityWithEquality_spec (row pivot : CRow) (dim : Nat)
    (hl : pivot.e.length = row.e.length)
    (hrz : ∀ j, dim < j → get row.e j = 0) (hpz : ∀ j, dim < j → get pivot.e j = 0)
    (hpc : get pivot.e dim ≠ 0) :
    let r' := reduceEqualityWithEquality row pivot dim
    r'.m = row.m ∧ r'.e.length = row.e.length ∧
      ∃ a b : Int, a ≠ 0 ∧ (∀ j, get r'.e j = a * get row.e j + b * get pivot.e j) ∧ get r'.e dim = 0 := by
  intro r'
  obtain ⟨hc1, hc2⟩ := gcd_div_cancel (get pivot.e dim) (get row.e dim) hpc
  have hent : ∀ j, get r'.e j = (get pivot.e dim / gcdI (get pivot.e dim) (get row.e dim)) * get row.e j
      + (-(get row.e dim / gcdI (get pivot.e dim) (get row.e dim))) * get pivot.e j := by
    intro j
    exact get_linearCombine_full row.e pivot.e _ _ (dim + 1) hl (fun i hi => hpz i (by omega))
      (Or.inr (fun i hi => hrz i (by omega))) j
  refine ⟨rfl, by simp [r', reduceEqualityWithEquality], _, _, hc2, hent, ?_⟩
  rw [hent dim]; linarith

/-! ### `reduce_pc_with_pc` -/

theorem reducePcWithPc_spec (row pivot : CRow) (dim : Nat)
    (hl : pivot.e.length = row.e.length)
    (hrz : ∀ j, dim < j → get row.e j = 0) (hpz : ∀ j, dim < j → get pivot.e j = 0)
    (hpc : get pivot.e dim ≠ 0) (hrc : get row.e dim ≠ 0) :
    let rp := reducePcWithPc row pivot dim 0 (dim + 1)
    rp.1.m = row.m ∧ rp.2.m = pivot.m ∧ rp.1.e.length = row.e.length ∧ rp.2.e.length = pivot.e.length ∧
      ∃ s t c d : Int, s * d - t * c = 1 ∧
        (∀ j, get rp.2.e j = s * get pivot.e j + t * get row.e j) ∧
        (∀ j, get rp.1.e j = c * get pivot.e j + d * get row.e j) ∧
        get rp.1.e dim = 0 ∧ get rp.2.e dim ≠ 0 := by
  intro rp
  obtain ⟨hg1, hg2⟩ := gcdext_spec (get pivot.e dim) (get row.e dim) hrc
  obtain ⟨hc1, hc2⟩ := gcd_div_cancel (get pivot.e dim) (get row.e dim) hpc
  have hdet := gcd_bezout_det (get pivot.e dim) (get row.e dim) _ _ hpc hg2
  have hgg : (gcdext (get pivot.e dim) (get row.e dim)).1 = gcdI (get pivot.e dim) (get row.e dim) := rfl
  have hp : ∀ j, get rp.2.e j = (gcdext (get pivot.e dim) (get row.e dim)).2.1 * get pivot.e j
      + (gcdext (get pivot.e dim) (get row.e dim)).2.2 * get row.e j := by
    intro j
    exact get_linearCombine_full pivot.e row.e _ _ (dim + 1) hl.symm (fun i hi => hrz i (by omega))
      (Or.inr (fun i hi => hpz i (by omega))) j
  have hr : ∀ j, get rp.1.e j = (get pivot.e dim / gcdI (get pivot.e dim) (get row.e dim)) * get row.e j
      + (-(get row.e dim / gcdI (get pivot.e dim) (get row.e dim))) * get pivot.e j := by
    intro j
    exact get_linearCombine_full row.e pivot.e _ _ (dim + 1) hl (fun i hi => hpz i (by omega))
      (Or.inr (fun i hi => hrz i (by omega))) j
  refine ⟨rfl, rfl, by simp [rp, reducePcWithPc, HasExpr.expr, HasExpr.setExpr],
    by simp [rp, reducePcWithPc, HasExpr.expr, HasExpr.setExpr], _, _,
    -(get row.e dim / gcdI (get pivot.e dim) (get row.e dim)),
    get pivot.e dim / gcdI (get pivot.e dim) (get row.e dim), ?_, hp, ?_, ?_, ?_⟩
  · linarith
  · intro j; rw [hr j]; ring
  · rw [hr dim]; linarith
  · rw [hp dim, hg2]
    intro h
    have : Int.gcd (get pivot.e dim) (get row.e dim) = 0 := by exact_mod_cast h
    exact hpc (Int.gcd_eq_zero_iff.mp this).1

/-! ### `reduce_congruence_with_equality` -/

theorem reduceCongruenceWithEquality_spec (n : Nat) (sys : List CRow) (ri pi dim : Nat)
    (hwf : RWf n sys) (hri : ri < sys.length) (hpi : pi < sys.length) (hne : pi ≠ ri)
    (hpm : (rowAt sys pi).m = 0) (hrm : 0 < (rowAt sys ri).m)
    (hpc : get (rowAt sys pi).e dim ≠ 0) :
    let sys' := reduceCongruenceWithEquality sys ri pi dim
    sys'.length = sys.length ∧
    ∃ f c : Int, 0 < f ∧ f * get (rowAt sys ri).e dim - c * get (rowAt sys pi).e dim = 0 ∧
      (∀ i, i < sys.length → i ≠ ri →
        (0 < (rowAt sys i).m → ScaledBy (rowAt sys' i) (rowAt sys i) f) ∧
        (¬ 0 < (rowAt sys i).m → rowAt sys' i = rowAt sys i)) ∧
      (rowAt sys' ri).m = (rowAt sys ri).m * f ∧ (rowAt sys' ri).e.length = n + 1 ∧
      ∀ j, get (rowAt sys' ri).e j = f * get (rowAt sys ri).e j - c * get (rowAt sys pi).e j := by
  intro sys'
  have hlr := (hwf ri hri).1
  have hlp := (hwf pi hpi).1
  by_cases heq : get (rowAt sys ri).e dim = get (rowAt sys pi).e dim
  · have e : sys' = sys.set ri { rowAt sys ri with e := subExpr (rowAt sys ri).e (rowAt sys pi).e } := by
      simp only [sys', reduceCongruenceWithEquality]; rw [if_pos heq]
    rw [e]
    refine ⟨by simp, 1, 1, by norm_num, by rw [heq]; ring, ?_, ?_, ?_, ?_⟩
    · intro i hi hir
      rw [rowAt_set, if_neg (by tauto)]
      exact ⟨fun _ => scaledBy_one _, fun _ => rfl⟩
    · rw [rowAt_set, if_pos ⟨rfl, hri⟩]; ring
    · rw [rowAt_set, if_pos ⟨rfl, hri⟩]; simpa using hlr
    · intro j
      rw [rowAt_set, if_pos ⟨rfl, hri⟩]
      show get (subExpr (rowAt sys ri).e (rowAt sys pi).e) j = _
      rw [get_subExpr]
      by_cases hj : j < (rowAt sys ri).e.length
      · rw [if_pos hj]; ring
      · rw [if_neg hj, get_of_length_le _ j (by omega), get_of_length_le _ j (by omega)]; ring
  · obtain ⟨hc1, hc2⟩ := gcd_div_cancel (get (rowAt sys pi).e dim) (get (rowAt sys ri).e dim) hpc
    obtain ⟨f0, hf0⟩ : ∃ f0 : Int, f0 = get (rowAt sys pi).e dim / gcdI (get (rowAt sys pi).e dim) (get (rowAt sys ri).e dim) :=
      ⟨_, rfl⟩
    obtain ⟨c0, hc0⟩ : ∃ c0 : Int, c0 = get (rowAt sys ri).e dim / gcdI (get (rowAt sys pi).e dim) (get (rowAt sys ri).e dim) :=
      ⟨_, rfl⟩
    rw [← hf0, ← hc0] at hc1
    rw [← hf0] at hc2
    obtain ⟨f, hf⟩ : ∃ f : Int, f = if f0 < 0 then -f0 else f0 := ⟨_, rfl⟩
    obtain ⟨c, hc⟩ : ∃ c : Int, c = if f0 < 0 then -c0 else c0 := ⟨_, rfl⟩
    have hfpos : 0 < f := by rw [hf]; split <;> omega
    have hfc : f * get (rowAt sys ri).e dim - c * get (rowAt sys pi).e dim = 0 := by
      rw [hf, hc]; split <;> linarith
    have e : sys' = (sys.map fun (cg : CRow) => if cg.isProperCongruence then cg.scale f else cg).set ri
        { rowAt (sys.map fun (cg : CRow) => if cg.isProperCongruence then cg.scale f else cg) ri with
          e := subMulAssign (rowAt (sys.map fun (cg : CRow) => if cg.isProperCongruence then cg.scale f else cg) ri).e c
            (rowAt sys pi).e } := by
      simp only [sys', reduceCongruenceWithEquality]; rw [if_neg heq, ← hf0, ← hc0, ← hf, ← hc]
    have hrow1 : rowAt (sys.map fun (cg : CRow) => if cg.isProperCongruence then cg.scale f else cg) ri = (rowAt sys ri).scale f := by
      rw [rowAt_map _ _ _ hri]
      simp [CRow.isProperCongruence, hrm]
    rw [e]
    refine ⟨by simp, f, c, hfpos, hfc, ?_, ?_, ?_, ?_⟩
    · intro i hi hir
      rw [rowAt_set, if_neg (by tauto), rowAt_map _ _ _ hi]
      constructor
      · intro hm
        simp only [CRow.isProperCongruence, gt_iff_lt, decide_eq_true_eq, hm, if_true]
        exact scale_spec _ _
      · intro hm
        simp only [CRow.isProperCongruence, gt_iff_lt, decide_eq_true_eq, hm, if_false]
    · rw [rowAt_set, if_pos ⟨rfl, by simpa using hri⟩, hrow1]
      exact (scale_spec _ _).1
    · rw [rowAt_set, if_pos ⟨rfl, by simpa using hri⟩, hrow1]
      show (subMulAssign _ _ _).length = _
      rw [length_subMulAssign, (scale_spec _ _).2.1]; exact hlr
    · intro j
      rw [rowAt_set, if_pos ⟨rfl, by simpa using hri⟩, hrow1]
      show get (subMulAssign _ _ _) j = _
      rw [get_subMulAssign, (scale_spec _ _).2.1, (scale_spec _ _).2.2]
      by_cases hj : j < (rowAt sys ri).e.length
      · rw [if_pos hj]
      · rw [if_neg hj, get_of_length_le _ j (by omega), get_of_length_le _ j (by omega)]; ring

/-- `reduce_congruence_with_equality` keeps the solution set -/
theorem reduceCongruenceWithEquality_sol (n : Nat) (sys : List CRow) (ri pi dim : Nat)
    (hwf : RWf n sys) (hri : ri < sys.length) (hpi : pi < sys.length) (hne : pi ≠ ri)
    (hpm : (rowAt sys pi).m = 0) (hrm : 0 < (rowAt sys ri).m)
    (hpc : get (rowAt sys pi).e dim ≠ 0) (x : Pt) :
    Sol (reduceCongruenceWithEquality sys ri pi dim) x ↔ Sol sys x := by
  obtain ⟨hlen, f, c, hf, _, hoth, hm, hl, hent⟩ :=
    reduceCongruenceWithEquality_spec n sys ri pi dim hwf hri hpi hne hpm hrm hpc
  have hsame : rowAt (reduceCongruenceWithEquality sys ri pi dim) pi = rowAt sys pi :=
    (hoth pi hpi hne).2 (by omega)
  apply Sol_congr_rows _ _ x hlen pi hpi hsame
  intro i hi hp
  by_cases hir : i = ri
  · subst hir
    obtain ⟨u, hu⟩ := hp
    rw [hpm] at hu
    have hp0 : evalRow (rowAt sys pi).e x = 0 := by rw [hu]; simp
    have hev := evalRow_lin _ (rowAt sys i).e (rowAt sys pi).e f (-c) x (by rw [hl, (hwf i hi).1])
      (by rw [(hwf i hi).1, (hwf pi hpi).1]) (fun j => by rw [hent j]; ring)
    rw [hp0] at hev
    exact rsem_scaled _ _ f x (by omega) (by rw [hev]; ring) hm
  · by_cases hmi : 0 < (rowAt sys i).m
    · exact ((hoth i hi hir).1 hmi).rsem (by omega) x
    · rw [(hoth i hi hir).2 hmi]

/-! ### `findNonZero` -/

theorem findNonZero_spec (rows : List CRow) (dim numRows : Nat) (fuel i : Nat) (h : i + fuel = numRows) :
    i ≤ findNonZero rows dim numRows fuel i ∧ findNonZero rows dim numRows fuel i ≤ numRows ∧
      (∀ j, i ≤ j → j < findNonZero rows dim numRows fuel i → get (rowAt rows j).e dim = 0) ∧
      (findNonZero rows dim numRows fuel i < numRows → get (rowAt rows (findNonZero rows dim numRows fuel i)).e dim ≠ 0) := by
  induction fuel generalizing i with
  | zero =>
    simp only [findNonZero]
    exact ⟨le_refl _, by omega, fun j h1 h2 => by omega, fun h1 => by omega⟩
  | succ fuel ih =>
    simp only [findNonZero, HasExpr.expr]
    by_cases hc : i < numRows ∧ get (rowAt rows i).e dim = 0
    · rw [if_pos hc]
      obtain ⟨h1, h2, h3, h4⟩ := ih (i + 1) (by omega)
      refine ⟨by omega, h2, ?_, h4⟩
      intro j hj1 hj2
      by_cases e : j = i
      · rw [e]; exact hc.2
      · exact h3 j (by omega) hj2
    · rw [if_neg hc]
      refine ⟨le_refl _, by omega, fun j h1 h2 => by omega, ?_⟩
      intro hlt he
      exact hc ⟨hlt, he⟩

end PPLV.Lattice.Red
