import PPLV.Lattice.ProofsGridOpsCon22

/-!
# `Grid` stage 3, part 23: the loop of `frequency_no_check` (Grid_nonpublic.cc:331) on a system "one point, then
# parameters and lines" with common divisor `D`: `none` iff a line moves the expression; otherwise the result `f` is
# non-negative, `D·λ` of every direction of the grid is a multiple of `f`, and `f = D·λ(w)` for some direction `w`
-/
namespace PPLV.Lattice.GO
open PPLV.Lattice PPLV.Lattice.Red

theorem cn_freqLoop_none_iff (e : LinExpr) (L : List GRow) : ∀ f : Int,
    freqLoop e f L = none ↔ ∃ r ∈ L, r.line = true ∧ spHom e r.e ≠ 0 := by
  induction L with
  | nil => intro f; simp [freqLoop]
  | cons r L ih =>
    intro f
    unfold freqLoop
    by_cases hl : r.line = true
    · by_cases hs : spHom e r.e ≠ 0
      · simp only [hl, if_true, if_pos hs]
        exact ⟨fun _ => ⟨r, List.mem_cons_self .., hl, hs⟩, fun _ => trivial⟩
      · simp only [hl, if_true, if_neg hs]
        rw [ih f]
        constructor
        · rintro ⟨r', h1, h2, h3⟩; exact ⟨r', List.mem_cons_of_mem _ h1, h2, h3⟩
        · rintro ⟨r', h1, h2, h3⟩
          rcases List.mem_cons.mp h1 with h | h
          · subst h; exact absurd h3 hs
          · exact ⟨r', h, h2, h3⟩
    · simp only [hl, Bool.false_eq_true, if_false]
      rw [ih]
      constructor
      · rintro ⟨r', h1, h2, h3⟩; exact ⟨r', List.mem_cons_of_mem _ h1, h2, h3⟩
      · rintro ⟨r', h1, h2, h3⟩
        rcases List.mem_cons.mp h1 with h | h
        · subst h; exact absurd h2 hl
        · exact ⟨r', h, h2, h3⟩

/-- the invariant of the loop: `P f` — `f` is `D·λ` of a direction of the grid -/
theorem cn_freqLoop_some (e : LinExpr) (rows : List GRow) (D : Int)
    (hs : ∀ r ∈ rows, gn_isPar r = true → ((spHom e r.e : Int) : ℚ) = (D : ℚ) * cn_lam e (gn_vecOf r))
    (L : List GRow) : ∀ f f' : Int, freqLoop e f L = some f' → 0 ≤ f → (∀ r ∈ L, r ∈ rows ∧ Red.get r.e 0 = 0) →
      (∃ w, gn_Dir rows w ∧ (D : ℚ) * cn_lam e w = (f : ℚ)) →
      0 ≤ f' ∧ f' ∣ f ∧ (∀ r ∈ L, r.line = false → f' ∣ spHom e r.e) ∧ (∀ r ∈ L, r.line = true → spHom e r.e = 0) ∧
        (∃ w, gn_Dir rows w ∧ (D : ℚ) * cn_lam e w = (f' : ℚ)) := by
  induction L with
  | nil =>
    intro f f' h hf _ hP
    have : f = f' := by simpa [freqLoop] using h
    subst this
    exact ⟨hf, dvd_refl _, (fun r hr => by cases hr), (fun r hr => by cases hr), hP⟩
  | cons r L ih =>
    intro f f' h hf hL hP
    have hrL := hL r (List.mem_cons_self ..)
    have hL' : ∀ r' ∈ L, r' ∈ rows ∧ Red.get r'.e 0 = 0 := fun r' hr' => hL r' (List.mem_cons_of_mem _ hr')
    unfold freqLoop at h
    by_cases hl : r.line = true
    · simp only [hl, if_true] at h
      by_cases hsr : spHom e r.e ≠ 0
      · rw [if_pos hsr] at h; cases h
      · rw [if_neg hsr] at h
        obtain ⟨a1, a2, a3, a4, a5⟩ := ih f f' h hf hL' hP
        refine ⟨a1, a2, ?_, ?_, a5⟩
        · intro r' hr' hl'
          rcases List.mem_cons.mp hr' with hh | hh
          · subst hh; rw [hl] at hl'; cases hl'
          · exact a3 r' hh hl'
        · intro r' hr' hl'
          rcases List.mem_cons.mp hr' with hh | hh
          · subst hh; exact not_not.mp hsr
          · exact a4 r' hh hl'
    · have hlf : r.line = false := by simpa using hl
      simp only [hlf, Bool.false_eq_true, if_false] at h
      have hpar : gn_isPar r = true := (gn_isPar_iff r).mpr ⟨hlf, hrL.2⟩
      by_cases hsr : spHom e r.e ≠ 0
      · rw [if_pos hsr] at h
        -- Bézout: the new `f` is again `D·λ` of a direction
        obtain ⟨w, hw, hwf⟩ := hP
        have hbez := Int.gcd_eq_gcd_ab f (spHom e r.e)
        have hP' : ∃ w', gn_Dir rows w' ∧ (D : ℚ) * cn_lam e w' = ((gcdI f (spHom e r.e) : Int) : ℚ) := by
          refine ⟨((Int.gcdA f (spHom e r.e) : Int) : ℚ) • w + ((Int.gcdB f (spHom e r.e) : Int) : ℚ) • gn_vecOf r,
            gn_dir_add (gn_dir_zsmul _ hw) (gn_dir_zsmul _ (gn_dir_par hrL.1 hpar)), ?_⟩
          rw [cn_lam_add, cn_lam_smul, cn_lam_smul]
          have h1 := hs r hrL.1 hpar
          unfold gcdI
          rw [hbez]
          push_cast
          rw [← hwf, h1]; ring
        obtain ⟨a1, a2, a3, a4, a5⟩ := ih _ f' h (by unfold gcdI; exact Int.natCast_nonneg _) hL' hP'
        have hd1 : gcdI f (spHom e r.e) ∣ f := by unfold gcdI; exact Int.gcd_dvd_left ..
        have hd2 : gcdI f (spHom e r.e) ∣ spHom e r.e := by unfold gcdI; exact Int.gcd_dvd_right ..
        refine ⟨a1, a2.trans hd1, ?_, ?_, a5⟩
        · intro r' hr' hl'
          rcases List.mem_cons.mp hr' with hh | hh
          · subst hh; exact a2.trans hd2
          · exact a3 r' hh hl'
        · intro r' hr' hl'
          rcases List.mem_cons.mp hr' with hh | hh
          · subst hh; rw [hlf] at hl'; cases hl'
          · exact a4 r' hh hl'
      · rw [if_neg hsr] at h
        obtain ⟨a1, a2, a3, a4, a5⟩ := ih f f' h hf hL' hP
        refine ⟨a1, a2, ?_, ?_, a5⟩
        · intro r' hr' hl'
          rcases List.mem_cons.mp hr' with hh | hh
          · subst hh; rw [not_not.mp hsr]; exact dvd_zero _
          · exact a3 r' hh hl'
        · intro r' hr' hl'
          rcases List.mem_cons.mp hr' with hh | hh
          · subst hh; rw [hlf] at hl'; cases hl'
          · exact a4 r' hh hl'

/-- the value `frequency_no_check` chooses: congruent to `v` modulo `f`, of least magnitude -/
def cn_leastVal (v f : Int) : Int :=
  if 2 * Int.tmod v f > f then Int.tmod v f - f else if -(2 * Int.tmod v f) > f then Int.tmod v f + f else Int.tmod v f

theorem cn_leastVal_spec (v f : Int) (hf : 0 < f) :
    (∃ j : Int, cn_leastVal v f = v - j * f) ∧ 2 * cn_leastVal v f ≤ f ∧ -f ≤ 2 * cn_leastVal v f := by
  have h1 := Int.tmod_lt_of_pos v hf
  have h2 := Int.lt_tmod_of_pos v hf
  have h3 := Int.tmod_add_mul_tdiv v f
  unfold cn_leastVal
  split
  · exact ⟨⟨Int.tdiv v f + 1, by linarith⟩, by omega, by omega⟩
  · split
    · exact ⟨⟨Int.tdiv v f - 1, by linarith⟩, by omega, by omega⟩
    · exact ⟨⟨Int.tdiv v f, by linarith⟩, by omega, by omega⟩

end PPLV.Lattice.GO
