import PPLV.Lattice.ProofsGridOpsGen32
import PPLV.Lattice.ProofsGridOpsCon11
import PPLV.Lattice.ProofsGridOpsLazy8
import Mathlib.Algebra.Group.Int.Even

/-!
# Generator side of the `Grid` object, part 33 — ingredients of `Grid::difference_assign`: every grid is closed under
# `a + k (b - c)`; tautological rows; the complement `2e ≡ m (mod 2m)` of a proper congruence inside `2e ≡ 0 (mod m)`
-/
namespace PPLV.Lattice.GO
open PPLV.Lattice PPLV.Lattice.Red

theorem gn_evalRow_affine (e : Row) (a b c : Pt) (k : ℚ) :
    evalRow e (a + k • (b - c)) = evalRow e a + k * (evalRow e b - evalRow e c) := by
  rw [evalRow_eq, evalRow_eq, evalRow_eq, evalRow_eq]
  have : b - c = b + (-1 : ℚ) • c := by module
  rw [this, dotF_add, dotF_smul, dotF_add, dotF_smul]; ring

theorem gn_closed_consSet (n : Nat) (cs : List CRow) : gn_Closed (consSet n cs) := by
  intro a ha b hb c hc k
  rw [cn_mem_consSet] at *
  refine ⟨fun i hi => by simp [ha.1 i hi, hb.1 i hi, hc.1 i hi], fun r hr => ?_⟩
  obtain ⟨ta, hta⟩ := (cn_mem_set r a).mp (ha.2 r hr)
  obtain ⟨tb, htb⟩ := (cn_mem_set r b).mp (hb.2 r hr)
  obtain ⟨tc, htc⟩ := (cn_mem_set r c).mp (hc.2 r hr)
  exact (cn_mem_set r _).mpr ⟨ta + k * (tb - tc), by rw [gn_evalRow_affine, hta, htb, htc]; push_cast; ring⟩

/-- the point set of every state that satisfies the invariant is closed under `a + k (b - c)` -/
theorem gn_closed_grid (g : Grid) (hI : GridInv g) : gn_Closed g.sem := by
  cases he : g.st.empty with
  | true => rw [gn_sem_of_empty he]; intro a ha; exact absurd ha (Set.notMem_empty a)
  | false =>
    by_cases h0 : g.spaceDim = 0
    · rw [gn_sem_dim0 he h0]
      intro a ha b hb c hc k i hi
      have h1 : a i = 0 := ha i hi
      have h2 : b i = 0 := hb i hi
      have h3 : c i = 0 := hc i hi
      simp [h1, h2, h3]
    · have hn : 0 < g.spaceDim := by omega
      cases hg : g.st.gUp with
      | true => rw [(gn_sem_of_gUp hI hn he hg).2.2.2]; exact gn_closed_set _
      | false =>
        have hc : g.st.cUp = true := by
          rcases hI.some he hn with h | h
          · exact h
          · rw [hg] at h; cases h
        rw [(gn_sem_of_cUp hI hn he hc).2.2]; exact gn_closed_consSet _ _

/-- a state with a non-empty point set is not marked empty -/
theorem gn_not_marked_of_nonempty {g : Grid} (h : g.sem.Nonempty) : g.st.empty = false := by
  cases he : g.st.empty with
  | false => rfl
  | true => rw [gn_sem_of_empty he] at h; exact absurd h Set.not_nonempty_empty

/-- `is_tautological()`: every point satisfies the row -/
theorem gn_taut_mem (cg : CRow) (h : cg.isTautological = true) (x : Pt) : x ∈ CRow.set cg := by
  unfold CRow.isTautological at h
  rw [Bool.and_eq_true] at h
  obtain ⟨h1, h2⟩ := h
  have hz : ∀ i, 0 < i → get cg.e i = 0 := by
    intro i hi
    by_cases hl : i < cg.e.length
    · unfold allZ at h2
      rw [List.all_eq_true] at h2
      have := h2 i (by rw [List.mem_range']; exact ⟨i - 1, by omega, by omega⟩)
      simpa using this
    · exact get_of_length_le _ _ (by omega)
  rw [cn_mem_set]
  unfold rsem
  rw [evalRow_const cg.e x hz]
  by_cases hm : cg.m = 0
  · rw [if_pos hm] at h1
    have : get cg.e 0 = 0 := by simpa using h1
    exact ⟨0, by rw [this]; simp⟩
  · rw [if_neg hm] at h1
    have : Int.tmod (get cg.e 0) cg.m = 0 := by simpa using h1
    obtain ⟨t, ht⟩ := Int.dvd_of_tmod_eq_zero this
    exact ⟨t, by rw [ht]; push_cast; ring⟩

theorem gn_mem_twoCompl0 (cg : CRow) (x : Pt) :
    x ∈ CRow.set (twoCompl0 cg) ↔ ∃ t : Int, 2 * evalRow cg.e x = (t : ℚ) * (cg.m : ℚ) := by
  rw [cn_mem_set]
  unfold rsem twoCompl0
  have : evalRow (mulAll cg.e 2) x = (2 : Int) * evalRow cg.e x :=
    evalRow_smul _ _ 2 x (length_mulAll _ _) (fun i => by rw [get_mulAll]; ring)
  simp only [this]; push_cast; rfl

theorem gn_mem_twoCompl (cg : CRow) (he : cg.e ≠ []) (x : Pt) :
    x ∈ CRow.set (twoCompl cg) ↔ ∃ t : Int, 2 * evalRow cg.e x - (cg.m : ℚ) = (t : ℚ) * ((2 * cg.m : Int) : ℚ) := by
  rw [cn_mem_set]
  unfold rsem twoCompl
  have hne : mulAll cg.e 2 ≠ [] := by
    intro h
    have := congrArg List.length h
    rw [length_mulAll] at this
    exact he (List.length_eq_zero_iff.mp this)
  have h1 : evalRow (mulAll cg.e 2) x = (2 : Int) * evalRow cg.e x :=
    evalRow_smul _ _ 2 x (length_mulAll _ _) (fun i => by rw [get_mulAll]; ring)
  simp only [cn_evalRow_set0 _ _ x hne, h1, get_mulAll]
  constructor
  · rintro ⟨t, ht⟩; exact ⟨t, by rw [← ht]; push_cast; ring⟩
  · rintro ⟨t, ht⟩; exact ⟨t, by rw [← ht]; push_cast; ring⟩

/-- inside `2e ≡ 0 (mod m)` a point that violates `e ≡ 0 (mod m)` satisfies `2e ≡ m (mod 2m)` -/
theorem gn_twoCompl_of_violates (cg : CRow) (he : cg.e ≠ []) (x : Pt) (h0 : x ∈ CRow.set (twoCompl0 cg))
    (hv : x ∉ CRow.set cg) : x ∈ CRow.set (twoCompl cg) := by
  obtain ⟨t, ht⟩ := (gn_mem_twoCompl0 cg x).mp h0
  rw [gn_mem_twoCompl cg he]
  rcases Int.even_or_odd t with ⟨s, hs⟩ | ⟨s, hs⟩
  · exfalso
    apply hv
    rw [cn_mem_set]
    refine ⟨s, ?_⟩
    rw [hs] at ht; push_cast at ht; linarith
  · refine ⟨s, ?_⟩
    rw [hs] at ht; push_cast at ht ⊢; linarith

theorem gn_twoCompl_dims (cg : CRow) : (twoCompl0 cg).spaceDim = cg.spaceDim ∧ (twoCompl cg).spaceDim = cg.spaceDim ∧
    (twoCompl0 cg).m = cg.m ∧ (twoCompl cg).m = 2 * cg.m ∧ (cg.e ≠ [] → (twoCompl cg).e ≠ []) := by
  refine ⟨by simp [twoCompl0, CRow.spaceDim], by simp [twoCompl, CRow.spaceDim], rfl, rfl, fun he h => ?_⟩
  have := congrArg List.length h
  simp [twoCompl] at this
  exact he this

end PPLV.Lattice.GO
