import PPLV.Lattice.ProofsQueries

/-!
# K2: `difference` — contains the set difference and is contained in the first argument
-/
set_option linter.unusedSimpArgs false
namespace PPLV.Lattice
open List

/-- splitting off the multiples of the first parameter -/
theorem dir_split (d : Pt) (P L : List Pt) {v : Pt} (h : Abs.Dir (d :: P) L v) :
    ∃ k : Int, Abs.Dir P L (v - (k : Rat) • d) := by
  induction h with
  | zero => exact ⟨0, by simpa using Abs.Dir.zero⟩
  | @param w q j hq _ ih =>
    obtain ⟨k, hk⟩ := ih
    rcases List.mem_cons.mp hq with rfl | hq
    · refine ⟨k + j, ?_⟩
      have : w + (j:Rat) • q - ((k + j : Int) : Rat) • q = w - (k:Rat) • q := by push_cast; module
      rw [this]; exact hk
    · refine ⟨k, ?_⟩
      have : w + (j:Rat) • q - (k:Rat) • d = (w - (k:Rat) • d) + (j:Rat) • q := by module
      rw [this]; exact Abs.Dir.param j hq hk
  | @line w l c hl _ ih =>
    obtain ⟨k, hk⟩ := ih
    refine ⟨k, ?_⟩
    have : w + c • l - (k:Rat) • d = (w - (k:Rat) • d) + c • l := by module
    rw [this]; exact Abs.Dir.line c hl hk

theorem difference_sound (G H D : GridGens) (h : difference G H = some D) :
    (∀ x, Gen.sem G x → ¬ Gen.sem H x → Gen.sem D x) ∧ (∀ x, Gen.sem D x → Gen.sem G x) := by
  unfold difference at h
  by_cases hsub : subsetB G H = true
  · simp only [hsub, if_true, Option.some.injEq] at h
    subst h
    refine ⟨fun x hx hnx => absurd ((subsetB_iff G H).mp hsub x hx) hnx, fun x hx => absurd hx (by simp [Gen.sem])⟩
  · simp only [hsub, Bool.false_eq_true, if_false] at h
    cases hI : inter G H with
    | none => simp [hI] at h
    | some I =>
      have hIsem := inter_sem G H I hI
      cases I with
      | empty =>
        simp only [hI, Option.some.injEq] at h
        subst h
        exact ⟨fun x hx _ => hx, fun x hx => hx⟩
      | gens i =>
        simp only [hI] at h
        cases G with
        | empty =>
          simp only [Option.some.injEq] at h; subst h
          exact ⟨fun x hx _ => hx, fun x hx => hx⟩
        | gens g =>
          simp only at h
          cases hfind : (g.pt :: (g.params.map (vadd g.pt) ++ g.lines.map (vadd g.pt))).find? (fun p => !memB (.gens i) p) with
          | none =>
            simp only [hfind, Option.some.injEq] at h; subst h
            exact ⟨fun x hx _ => hx, fun x hx => hx⟩
          | some p =>
            simp only [hfind] at h
            split at h
            · rename_i htest
              simp only [Option.some.injEq] at h
              subst h
              simp only [Bool.and_eq_true] at htest
              obtain ⟨heq, h2d⟩ := htest
              have heq' := (equivB_iff _ _).mp heq
              rw [memB_iff] at h2d
              constructor
              · intro x hx hnH
                have hxJ := (heq' x).mpr hx
                simp only [join, Gen.sem] at hxJ
                rw [mem_iff_gdir] at hxJ
                simp only [GDir, List.map_cons, List.map_append, toFun_vsub] at hxJ
                obtain ⟨k, hk⟩ := dir_split _ _ _ hxJ
                have hk' : GDir i.params i.lines (x - i.pt.toFun - (k:Rat) • (p.toFun - i.pt.toFun)) :=
                  Abs.Dir.mono_subset (by intro z hz; simp only [List.mem_append] at hz; tauto)
                    (by intro z hz; simp only [List.mem_append] at hz; tauto) hk
                -- 2 d is a direction of I
                have h2 : GDir i.params i.lines ((2:Rat) • (p.toFun - i.pt.toFun)) := by
                  simp only [Gen.sem] at h2d
                  rw [mem_iff_gdir] at h2d
                  simp only [toFun_vadd, toFun_vsmul, toFun_vsub] at h2d
                  have e : i.pt.toFun + (2:Rat) • (p.toFun - i.pt.toFun) - i.pt.toFun = (2:Rat) • (p.toFun - i.pt.toFun) := by module
                  rwa [e] at h2d
                rcases Int.even_or_odd' k with ⟨j, hj | hj⟩
                · -- even: x ∈ I ⊆ H
                  exfalso; apply hnH
                  have : Gen.sem (.gens i) x := by
                    simp only [Gen.sem]; rw [mem_iff_gdir]
                    have e : x - i.pt.toFun = (x - i.pt.toFun - (k:Rat) • (p.toFun - i.pt.toFun)) + (j:Rat) • ((2:Rat) • (p.toFun - i.pt.toFun)) := by
                      rw [hj]; push_cast; module
                    rw [e]; exact Abs.Dir.add hk' (Abs.Dir.zsmul j h2)
                  exact ((hIsem x).mp this).2
                · -- odd: x ∈ p + Λ_I
                  simp only [Gen.sem]; rw [mem_iff_gdir]
                  show GDir i.params i.lines (x - p.toFun)
                  have e : x - p.toFun = (x - i.pt.toFun - (k:Rat) • (p.toFun - i.pt.toFun)) + (j:Rat) • ((2:Rat) • (p.toFun - i.pt.toFun)) := by
                    rw [hj]; push_cast; module
                  rw [e]; exact Abs.Dir.add hk' (Abs.Dir.zsmul j h2)
              · intro x hx
                apply (heq' x).mp
                exact join_right _ _ x hx
            · simp only [Option.some.injEq] at h; subst h
              exact ⟨fun x hx _ => hx, fun x hx => hx⟩

end PPLV.Lattice
