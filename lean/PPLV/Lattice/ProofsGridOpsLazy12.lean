import PPLV.Lattice.ProofsGridOpsLazy6
import PPLV.Lattice.ProofsGridOpsLazy8
import PPLV.Lattice.ProofsGridOpsLazy11

/-!
# The `Grid` object, lazy machinery — part 12: the unconditional statements

The duality facts `DkCompatG` / `DkCompatC` are proved (`ProofsGridOpsLazy10.lean`, `…11.lean`), so the statements of
parts 5 and 6 hold without hypotheses.  Summary of the family (all in namespace `PPLV.Lattice.GO`):

* `updateGenerators_spec : UpdateGeneratorsSpec`, `updateCongruences_spec : UpdateCongruencesSpec`
* `isEmpty_spec : IsEmptySpec`, `minimize_spec : MinimizeSpec`, `ensureGenerators_spec : EnsureGeneratorsSpec`
* `congruences_lazy`, `minimizedCongruences_lazy`, `gridGenerators_lazy`, `minimizedGridGenerators_lazy : LazyOK _`
  and the `…_spec` forms with the flag facts
* constructors: `lz_setEmpty_inv/sem`, `lz_setZeroDimUniv_inv/sem`, `constructDeg_inv/sem`, `constructCgs_pos/zdim/inv`,
  `constructGgs_none_iff/nil/zdim/pos`, `copyCtor_spec`, `assign_spec`
-/
namespace PPLV.Lattice.GO
open PPLV.Lattice PPLV.Lattice.Red

/-- **`minimize()`** -/
theorem minimize_spec : MinimizeSpec := minimize_spec_partial dkCompatG dkCompatC

/-- `minimize_spec` with named conclusions -/
theorem minimize_spec' (g : Grid) (hI : GridInv g) :
    GridInv (minimize g).1 ∧ (minimize g).1.sem = g.sem ∧ (minimize g).1.spaceDim = g.spaceDim ∧
    ((minimize g).2 = true ↔ (g.sem).Nonempty) ∧ ((minimize g).2 = false → (minimize g).1.st.empty = true) ∧
    ((minimize g).2 = true → 0 < g.spaceDim → (minimize g).1.st.empty = false ∧ (minimize g).1.st.gMin = true ∧
      (minimize g).1.st.cMin = true) := minimize_spec g hI

/-- **`minimized_congruences()`**: afterwards marked empty, or (dimension > 0) the congruences are minimized -/
theorem minimizedCongruences_spec (g : Grid) (hI : GridInv g) :
    GridInv (minimizedCongruences g) ∧ (minimizedCongruences g).sem = g.sem ∧
    (minimizedCongruences g).spaceDim = g.spaceDim ∧
    ((minimizedCongruences g).st.empty = false → 0 < g.spaceDim →
      (minimizedCongruences g).st.cUp = true ∧ (minimizedCongruences g).st.cMin = true) :=
  minimizedCongruences_spec_partial dkCompatC g hI

theorem minimizedCongruences_lazy : LazyOK minimizedCongruences := minimizedCongruences_lazy_partial dkCompatC

/-- **`minimized_grid_generators()`**: afterwards marked empty (exactly on the empty grid), or (dimension > 0) the
    generators are minimized -/
theorem minimizedGridGenerators_spec (g : Grid) (hI : GridInv g) :
    GridInv (minimizedGridGenerators g) ∧ (minimizedGridGenerators g).sem = g.sem ∧
    (minimizedGridGenerators g).spaceDim = g.spaceDim ∧
    ((minimizedGridGenerators g).st.empty = true ↔ g.sem = ∅) ∧
    ((minimizedGridGenerators g).st.empty = false → 0 < g.spaceDim →
      (minimizedGridGenerators g).st.gUp = true ∧ (minimizedGridGenerators g).st.gMin = true) :=
  minimizedGridGenerators_spec_partial dkCompatG g hI

theorem minimizedGridGenerators_lazy : LazyOK minimizedGridGenerators := minimizedGridGenerators_lazy_partial dkCompatG

/-- the shared `dim_kinds` in one sentence: whenever `simplify` recomputes `dim_kinds` from the generators of an
    invariant state, congruences that were triangular for the old `dim_kinds` are triangular for the new one -/
theorem simplifyGenSys_keeps_cmin (g : Grid) (hI : GridInv g) (he : g.st.empty = false) (hpos : 0 < g.spaceDim)
    (hg : g.st.gUp = true) (hcm : g.st.cMin = true) :
    lowerTriangular g.spaceDim g.con (simplifyGenSys g).dk = true := by
  have hc := hI.cminUp hcm
  obtain ⟨_, hcwf⟩ := hI.cwf he hpos hc
  obtain ⟨hdk, hlt, hk0⟩ := hI.cmin he hpos hcm
  obtain ⟨hgd, hgwf, hgn⟩ := hI.gwf he hpos hg
  have := dkCompatG g.spaceDim g.con g.dk g.gen g.dk _ hpos hcwf hdk hlt hk0 hgwf hgn (hI.agree he hpos hc hg)
  simpa [simplifyGenSys, hgd] using this

/-- both minimized on `x ≡ 1 (mod 2)` given by congruences and non-minimized generators: `minimize` runs `simplify` on
    both systems, the shared `dim_kinds` serves both -/
example :
    let g : Grid := Grid.mk 1 { cUp := true, gUp := true } 1 [⟨[-1, 1], 2⟩] 1
      [⟨false, [1, 1, 0]⟩, ⟨false, [0, 4, 1]⟩, ⟨false, [0, 6, 1]⟩] []
    invB g = true ∧ (minimize g).2 = true ∧ invB (minimize g).1 = true ∧
      (minimize g).1.gen = [⟨false, [1, 1, 0]⟩, ⟨false, [0, 2, 1]⟩] ∧ (minimize g).1.dk = [0, 0] := by decide +kernel

end PPLV.Lattice.GO
