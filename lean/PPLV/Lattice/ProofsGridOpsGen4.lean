import PPLV.Lattice.ProofsGridOpsGen3

/-!
# Generator side of the `Grid` object, part 4 — the primitives of `Grid_Generator` / `Grid_Generator_System`:
# `set_space_dimension`, `Linear_System::insert`, `insert(gs)`, `grid_line(Variable(v))`
-/
namespace PPLV.Lattice.GO
open PPLV.Lattice PPLV.Lattice.Red

theorem gn_length_resizeRow (e : Row) (len : Nat) : (resizeRow e len).length = len := by simp [resizeRow]

theorem gn_get_resizeRow (e : Row) (len i : Nat) : get (resizeRow e len) i = if i < len then get e i else 0 := by
  unfold resizeRow
  by_cases h : i < len
  · rw [if_pos h]
    show ((List.range len).map fun i => get e i).getD i 0 = get e i
    simp [List.getD_eq_getElem?_getD, h]
  · rw [if_neg h]
    exact get_of_length_le _ _ (by simp; omega)

/-- `set_space_dimension(n)` of a row that already has dimension `n` -/
theorem gn_setSpaceDim_id {r : GRow} {n : Nat} (h : r.e.length = n + 2) : r.setSpaceDim n = r := by
  have hs : r.spaceDim = n := gn_spaceDim_of_len h
  unfold GRow.setSpaceDim
  simp only [hs, gt_iff_lt, lt_irrefl, if_false]
  have : resizeRow ((r.e.set (n + 1) (get r.e (n + 1))).set (n + 1) (get r.e (n + 1))) (n + 2) = r.e := by
    apply row_ext
    · rw [gn_length_resizeRow, h]
    · intro i hi
      rw [gn_length_resizeRow] at hi
      rw [gn_get_resizeRow, if_pos hi, get_set, get_set]
      by_cases e : i = n + 1
      · subst e; simp [h]
      · simp [e]
  rw [this]

/-- `set_space_dimension(n)` pads a shorter row: the divisor column moves to the end -/
theorem gn_get_setSpaceDim_pad {r : GRow} {m n : Nat} (h : r.e.length = m + 2) (hmn : m < n) (i : Nat) :
    get (r.setSpaceDim n).e i = if i ≤ m then get r.e i else if i = n + 1 then get r.e (m + 1) else 0 := by
  have hs : r.spaceDim = m := gn_spaceDim_of_len h
  unfold GRow.setSpaceDim
  simp only [hs, gt_iff_lt, hmn, if_true]
  rw [get_set, get_set, List.length_set, gn_length_resizeRow, gn_get_resizeRow, gn_get_resizeRow, gn_get_resizeRow]
  have z : get r.e (n + 1) = 0 := get_of_length_le _ _ (by omega)
  split_ifs <;>
    first
    | rfl
    | (exfalso; omega)
    | exact z
    | exact get_of_length_le _ _ (by omega)

theorem gn_length_setSpaceDim_pad {r : GRow} {m n : Nat} (h : r.e.length = m + 2) (hmn : m < n) :
    (r.setSpaceDim n).e.length = n + 2 := by
  have hs : r.spaceDim = m := gn_spaceDim_of_len h
  unfold GRow.setSpaceDim
  simp only [hs, gt_iff_lt, hmn, if_true, List.length_set, gn_length_resizeRow]

theorem gn_line_setSpaceDim (r : GRow) (n : Nat) : (r.setSpaceDim n).line = r.line := by
  by_cases h : n > r.spaceDim <;> simp [GRow.setSpaceDim, h]

/-- what `set_space_dimension(n)` keeps of a row of dimension `m ≤ n` -/
theorem gn_setSpaceDim_sem {r : GRow} {m n : Nat} (h : r.e.length = m + 2) (hmn : m ≤ n) :
    (r.setSpaceDim n).line = r.line ∧ (r.setSpaceDim n).e.length = n + 2 ∧
    get (r.setSpaceDim n).e 0 = get r.e 0 ∧ (r.setSpaceDim n).divisor = r.divisor ∧
    gn_vecOf (r.setSpaceDim n) = gn_vecOf r := by
  rcases Nat.eq_or_lt_of_le hmn with e | hlt
  · subst e
    rw [gn_setSpaceDim_id h]
    exact ⟨rfl, h, rfl, rfl, rfl⟩
  · have hg := gn_get_setSpaceDim_pad h hlt
    have hl := gn_length_setSpaceDim_pad h hlt
    have h0 : get (r.setSpaceDim n).e 0 = get r.e 0 := by rw [hg]; simp
    have hd : (r.setSpaceDim n).divisor = r.divisor := by
      unfold GRow.divisor GRow.isLineOrParameter
      rw [h0, hl, h]
      split
      · rw [hg, if_neg (by omega), if_pos (by omega)]; rfl
      · rfl
    refine ⟨gn_line_setSpaceDim r n, hl, h0, hd, ?_⟩
    funext i
    unfold gn_vecOf
    rw [gn_spaceDim_of_len hl, gn_spaceDim_of_len h, gn_line_setSpaceDim, hd, hg]
    by_cases hi : i < m
    · have : i + 1 ≤ m := by omega
      have hin : i < n := by omega
      rw [if_pos hin, if_pos this, if_pos hi]
    · have a1 : ¬ (i + 1 ≤ m) := by omega
      by_cases hin : i < n
      · have a2 : ¬ (i + 1 = n + 1) := by omega
        rw [if_pos hin, if_neg a1, if_neg a2, if_neg hi]; simp
      · rw [if_neg hin, if_neg hi]

/-! ### `Linear_System::insert`, `insert(gs)` -/

theorem gn_sysInsert (s : GSys) (g : GRow) (h : g.spaceDim ≤ s.dim) :
    s.sysInsert g = { s with rows := s.rows ++ [g.setSpaceDim s.dim] } := by
  unfold GSys.sysInsert
  rw [if_neg (by omega)]

theorem gn_foldl_sysInsert : ∀ (l : List GRow) (s : GSys), (∀ g ∈ l, g.e.length = s.dim + 2) →
    l.foldl GSys.sysInsert s = { s with rows := s.rows ++ l }
  | [], s, _ => by simp
  | g :: l, s, h => by
    have hg := h g (by simp)
    rw [List.foldl_cons, gn_sysInsert s g (by rw [gn_spaceDim_of_len hg]), gn_setSpaceDim_id hg,
      gn_foldl_sysInsert l { s with rows := s.rows ++ [g] } (fun g' hg' => h g' (List.mem_cons_of_mem _ hg'))]
    simp

/-- `insert(gs, Recycle_Input)` of a system of the same dimension appends the rows -/
theorem gn_insertSys (s gs : GSys) (hd : gs.dim = s.dim) (hw : GWf s.dim gs.rows) :
    s.insertSys gs = { s with rows := s.rows ++ gs.rows } := by
  unfold GSys.insertSys
  have hlt : ¬ s.dim < gs.dim := by omega
  simp only [hlt, if_false]
  have e : (gs.setSpaceDim s.dim).rows = gs.rows := by
    unfold GSys.setSpaceDim
    show gs.rows.map (·.setSpaceDim s.dim) = gs.rows
    conv_rhs => rw [← List.map_id gs.rows]
    apply List.map_congr_left
    intro r hr
    exact gn_setSpaceDim_id (hw r hr)
  rw [e]
  exact gn_foldl_sysInsert gs.rows s hw

/-! ### `grid_line(Variable(v))` -/

theorem gn_gridLineVar_len (v : Nat) : (gridLineVar v).e.length = (v + 1) + 2 := by simp [gridLineVar]

theorem gn_gridLineVar_get (v i : Nat) : get (gridLineVar v).e i = if i = v + 1 then 1 else 0 := by
  unfold gridLineVar
  show get ((List.replicate (v + 3) 0).set (v + 1) 1) i = _
  rw [get_set]
  by_cases h : i = v + 1
  · subst h; simp
  · simp only [h, false_and, if_false]
    unfold Red.get
    rw [List.getD_eq_getElem?_getD]
    by_cases hi : i < v + 3
    · simp [hi]
    · simp [hi]

theorem gn_gridLineVar_vecOf (v : Nat) : gn_vecOf (gridLineVar v) = (unit v).toFun := by
  funext i
  unfold gn_vecOf
  rw [gn_spaceDim_of_len (gn_gridLineVar_len v), gn_gridLineVar_get, toFun_unit]
  have hl : (gridLineVar v).line = true := rfl
  by_cases h : i = v
  · subst h; simp [hl]
  · simp [hl, h]

example : (GSys.mk 2 [⟨false, [1, 0, 0, 0]⟩]).sysInsert (gridLineVar 0) =
    GSys.mk 2 [⟨false, [1, 0, 0, 0]⟩, ⟨true, [0, 1, 0, 0]⟩] := by decide

end PPLV.Lattice.GO
