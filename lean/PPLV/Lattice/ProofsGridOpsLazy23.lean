import PPLV.Lattice.ProofsGridOpsLazy22

/-!
# Adding dimensions — part 23: `add_space_dimensions_and_embed` / `…_and_project` on EVERY invariant state
-/
namespace PPLV.Lattice.GO
open PPLV.Lattice PPLV.Lattice.Red

/-- `Grid(m, UNIVERSE)`, the statement shape of the congruence family -/
theorem constructUniv_spec : cn_ConstructUnivSpec := fun m hm =>
  ⟨(constructDeg_univ_spec m hm).1, (constructDeg_univ_spec m hm).2.1, constructDeg_spaceDim m true⟩

/-- **`add_space_dimensions_and_embed(m)`**: every invariant state, every `m` -/
theorem addSpaceDimensionsAndEmbed_full (g : Grid) (m : Nat) (hI : GridInv g) :
    GridInv (addSpaceDimensionsAndEmbed g m) ∧
      (addSpaceDimensionsAndEmbed g m).sem = cn_embedSet g.spaceDim m g.sem ∧
      (addSpaceDimensionsAndEmbed g m).spaceDim = g.spaceDim + m := by
  by_cases hm : m = 0
  · subst hm
    obtain ⟨a, b⟩ := cn_embed_zero g hI
    rw [a, b]; exact ⟨hI, rfl, rfl⟩
  have hm' : 0 < m := by omega
  cases he : g.st.empty
  · by_cases h0 : g.spaceDim = 0
    · exact cn_embed_zdim constructUniv_spec g m hm' he h0
    · exact embed_pos_full g m hI hm' he (by omega)
  · exact cn_embed_empty g m hm' he

/-- **`add_space_dimensions_and_project(m)`**, `m > 0`, positive dimension, not marked empty.  The only hypotheses left
    concern MINIMIZED CONGRUENCES (open in `ProofsGridOpsCon15/17`): the system with the new unit equalities in front is
    lower triangular for the resized `dim_kinds`, and (congruences only) carries `CgKindsOK`.  Every state whose
    congruences are not flagged minimized is covered without hypothesis (`addSpaceDimensionsAndProject_noCMin`). -/
theorem addSpaceDimensionsAndProject_partial (g : Grid) (m : Nat) (hI : GridInv g) (hm : 0 < m) (he : g.st.empty = false)
    (hpos : 0 < g.spaceDim)
    (hTri : g.st.cMin = true →
      lowerTriangular (g.spaceDim + m) (g.cs.addUnitRowsAndSpaceDimensions m).rows
        (resizeKindsWith g.dk (g.spaceDim + m + 1) EQUALITY) = true ∧
      (g.st.gUp = false → CgKindsOK (g.spaceDim + m) (g.cs.addUnitRowsAndSpaceDimensions m).rows
        (resizeKindsWith g.dk (g.spaceDim + m + 1) EQUALITY))) :
    GridInv (addSpaceDimensionsAndProject g m) ∧ (addSpaceDimensionsAndProject g m).sem = g.sem ∧
      (addSpaceDimensionsAndProject g m).spaceDim = g.spaceDim + m := by
  cases hc : g.st.cUp
  · exact project_gen_full g m hI hm he hpos hc
  · cases hg : g.st.gUp
    · exact cn_project_con_partial g m hI hm he hpos hc hg (fun hcm => ⟨(hTri hcm).1, (hTri hcm).2 hg⟩)
    · exact project_both_partial g m hI hm he hpos hc hg (fun hcm => (hTri hcm).1)

theorem addSpaceDimensionsAndProject_noCMin (g : Grid) (m : Nat) (hI : GridInv g) (hm : 0 < m) (he : g.st.empty = false)
    (hpos : 0 < g.spaceDim) (hcm : g.st.cMin = false) :
    GridInv (addSpaceDimensionsAndProject g m) ∧ (addSpaceDimensionsAndProject g m).sem = g.sem ∧
      (addSpaceDimensionsAndProject g m).spaceDim = g.spaceDim + m :=
  addSpaceDimensionsAndProject_partial g m hI hm he hpos (fun h => by rw [hcm] at h; cases h)

end PPLV.Lattice.GO
