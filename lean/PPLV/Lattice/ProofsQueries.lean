import PPLV.Lattice.ProofsOps

/-!
# K2: specifications of the queries and of the certifying operations
-/
set_option linter.unusedSimpArgs false
namespace PPLV.Lattice
open List

/-! ### relation with a congruence -/

theorem relCg_spec (G : GridGens) (c : Cg) (hne : ∃ x, Gen.sem G x) :
    ((relCg G c).1 = true ↔ ∀ x, Gen.sem G x → ¬ c.sem x) ∧
    ((relCg G c).2.1 = true ↔ (∃ x, Gen.sem G x ∧ c.sem x) ∧ (∃ x, Gen.sem G x ∧ ¬ c.sem x)) ∧
    ((relCg G c).2.2.1 = true ↔ ∀ x, Gen.sem G x → c.sem x) ∧
    ((relCg G c).2.2.2 = true ↔ (∀ x, Gen.sem G x → c.sem x) ∧ c.f = 0) := by
  cases G with
  | empty => obtain ⟨x, hx⟩ := hne; exact absurd hx (by simp [Gen.sem])
  | gens g =>
    have hsat := satCgB_iff (.gens g) c
    have hint : (intersectCon (.gens g) c).isEmpty = true ↔ ∀ x, Gen.sem (.gens g) x → ¬ c.sem x := by
      rw [← Bool.not_eq_false, isEmpty_false_iff]
      constructor
      · intro h x hx hc; exact h ⟨x, (intersectCon_sem _ _ _).mpr ⟨hx, hc⟩⟩
      · rintro h ⟨x, hx⟩
        rw [intersectCon_sem] at hx; exact h x hx.1 hx.2
    obtain ⟨x0, hx0⟩ := hne
    by_cases h1 : satCgB (.gens g) c = true
    · have hall := hsat.mp h1
      have e : relCg (.gens g) c = (false, false, true, c.f == 0) := by simp [relCg, h1]
      rw [e]
      refine ⟨?_, ?_, ?_, ?_⟩
      · simp only [Bool.false_eq_true, false_iff]
        intro h; exact h x0 hx0 (hall x0 hx0)
      · simp only [Bool.false_eq_true, false_iff]
        rintro ⟨_, ⟨x, hx, hnc⟩⟩; exact hnc (hall x hx)
      · simp only [true_iff]; exact hall
      · simp only [beq_iff_eq]
        constructor
        · intro h; exact ⟨hall, h⟩
        · intro h; exact h.2
    · have hnall : ¬ ∀ x, Gen.sem (.gens g) x → c.sem x := fun h => h1 (hsat.mpr h)
      by_cases h2 : (intersectCon (.gens g) c).isEmpty = true
      · have hdis := hint.mp h2
        have e : relCg (.gens g) c = (true, false, false, false) := by simp [relCg, h1, h2]
        rw [e]
        refine ⟨?_, ?_, ?_, ?_⟩
        · simp only [true_iff]; exact hdis
        · simp only [Bool.false_eq_true, false_iff]
          rintro ⟨⟨x, hx, hc⟩, _⟩; exact hdis x hx hc
        · simp only [Bool.false_eq_true, false_iff]; exact hnall
        · simp only [Bool.false_eq_true, false_iff]; intro h; exact hnall h.1
      · have hndis : ¬ ∀ x, Gen.sem (.gens g) x → ¬ c.sem x := fun h => h2 (hint.mpr h)
        have e : relCg (.gens g) c = (false, true, false, false) := by simp [relCg, h1, h2]
        rw [e]
        refine ⟨?_, ?_, ?_, ?_⟩
        · simp only [Bool.false_eq_true, false_iff]; exact hndis
        · simp only [true_iff]
          constructor
          · by_contra hcon
            apply hndis; intro x hx hc; exact hcon ⟨x, hx, hc⟩
          · by_contra hcon
            apply hnall; intro x hx
            by_contra hnc; exact hcon ⟨x, hx, hnc⟩
        · simp only [Bool.false_eq_true, false_iff]; exact hnall
        · simp only [Bool.false_eq_true, false_iff]; intro h; exact hnall h.1

/-! ### universe, integer points -/

theorem isUniverse_iff (n : Nat) (G : GridGens) : isUniverse n G = true ↔ ∀ x, Gen.sem G x ↔ Supp n x := by
  unfold isUniverse
  rw [equivB_iff]
  constructor
  · intro h x; rw [h x, univ_sem]
  · intro h x; rw [h x, univ_sem]

theorem intCg_sem (i : Nat) (x : Pt) : Cg.sem { a := unit i, b := 0, f := 1 } x ↔ ∃ t : Int, x i = t := by
  simp [Cg.sem, dotF_unit]

theorem containsIntegerPoint_iff (n : Nat) (G : GridGens) :
    containsIntegerPoint n G = true ↔ ∃ x, Gen.sem G x ∧ ∀ i < n, ∃ t : Int, x i = t := by
  unfold containsIntegerPoint
  rw [Bool.not_eq_true', isEmpty_false_iff]
  constructor
  · rintro ⟨x, hx⟩
    rw [intersectCons_sem] at hx
    refine ⟨x, hx.1, fun i hi => ?_⟩
    have := hx.2 _ (List.mem_map.mpr ⟨i, List.mem_range.mpr hi, rfl⟩)
    exact (intCg_sem i x).mp this
  · rintro ⟨x, hx, hint⟩
    refine ⟨x, ?_⟩
    rw [intersectCons_sem]
    refine ⟨hx, ?_⟩
    intro c hc
    obtain ⟨i, hi, rfl⟩ := List.mem_map.mp hc
    exact (intCg_sem i x).mpr (hint i (List.mem_range.mp hi))

/-! ### lines of a grid: `constrains`, `relGen`, discreteness -/

/-- `l` is a line of the non-empty grid `g` iff it lies in the span of the generating lines -/
theorem line_iff (g : Gens) (l : Vec) :
    inSpanB g.lines l = true ↔ ∀ x (c : Rat), g.Mem x → g.Mem (x + c • l.toFun) := by
  rw [inSpanB_iff]
  constructor
  · intro h x c hx
    rw [mem_iff_gdir] at *
    have : x + c • l.toFun - g.pt.toFun = (x - g.pt.toFun) + c • l.toFun := by module
    rw [this]
    exact Abs.Dir.add hx (Abs.Dir.mono_subset (by simp) (fun _ h => h) (dir_lines_smul _ c h))
  · intro h
    have hc : ∀ c : Rat, Abs.Dir (g.params.map Vec.toFun) (g.lines.map Vec.toFun) (c • l.toFun) := by
      intro c
      have := h _ c Gens.Mem.pt
      rw [mem_iff_gdir] at this
      have e : g.pt.toFun + c • l.toFun - g.pt.toFun = c • l.toFun := by module
      rwa [e] at this
    exact line_theorem _ _ _ _ rfl hc

theorem constrains_iff (G : GridGens) (v : Nat) :
    constrains G v = false ↔ (∃ x, Gen.sem G x) ∧ ∀ x (c : Rat), Gen.sem G x → Gen.sem G (x + c • (unit v).toFun) := by
  cases G with
  | empty => simp [constrains, Gen.sem]
  | gens g =>
    simp only [constrains, Bool.not_eq_false', Gen.sem]
    rw [line_iff]
    constructor
    · intro h; exact ⟨⟨_, Gens.Mem.pt⟩, h⟩
    · intro h; exact h.2

/-- `subsumes` for points, parameters and lines -/
theorem relGen_point (G : GridGens) (v : Vec) : relGen G 2 v = true ↔ Gen.sem G v.toFun := by
  cases G with
  | empty => simp [relGen, Gen.sem]
  | gens g => simp [relGen, memB_iff]

theorem relGen_param (G : GridGens) (q : Vec) :
    relGen G 1 q = true ↔ (∃ x, Gen.sem G x) ∧ ∀ x (k : Int), Gen.sem G x → Gen.sem G (x + (k : Rat) • q.toFun) := by
  cases G with
  | empty => simp [relGen, Gen.sem]
  | gens g =>
    have e : relGen (.gens g) 1 q = memB (.gens g) (vadd g.pt q) := by simp [relGen]
    rw [e, memB_iff]
    simp only [Gen.sem, toFun_vadd]
    constructor
    · intro h
      refine ⟨⟨_, Gens.Mem.pt⟩, fun x k hx => ?_⟩
      have := gens_affine g k hx h Gens.Mem.pt
      have e : x + (k:Rat) • (g.pt.toFun + q.toFun - g.pt.toFun) = x + (k:Rat) • q.toFun := by module
      rwa [e] at this
    · intro h
      have := h.2 _ 1 Gens.Mem.pt
      simpa using this

theorem relGen_line (G : GridGens) (l : Vec) :
    relGen G 0 l = true ↔ (∃ x, Gen.sem G x) ∧ ∀ x (c : Rat), Gen.sem G x → Gen.sem G (x + c • l.toFun) := by
  cases G with
  | empty => simp [relGen, Gen.sem]
  | gens g =>
    have e : relGen (.gens g) 0 l = inSpanB g.lines l := by simp [relGen]
    rw [e]
    simp only [Gen.sem]
    rw [line_iff]
    constructor
    · intro h; exact ⟨⟨_, Gens.Mem.pt⟩, h⟩
    · intro h; exact h.2

theorem dir_zero_lines (L : List Pt) (hL : ∀ l ∈ L, l = 0) {v : Pt} (h : Abs.Dir [] L v) : v = 0 := by
  induction h with
  | zero => rfl
  | param k hq _ _ => simp at hq
  | line c hl _ ih => rw [ih, hL _ hl]; simp

/-- discrete: the grid contains no rational line -/
theorem isDiscrete_iff (G : GridGens) :
    isDiscrete G = true ↔ ¬ ∃ (x d : Pt), d ≠ 0 ∧ ∀ c : Rat, Gen.sem G (x + c • d) := by
  cases G with
  | empty => simp [isDiscrete, Gen.sem]
  | gens g =>
    simp only [isDiscrete, List.all_eq_true, isZero_iff, Gen.sem]
    constructor
    · rintro hz ⟨x, d, hd, hall⟩
      apply hd
      have hc : ∀ c : Rat, Abs.Dir (g.params.map Vec.toFun) (g.lines.map Vec.toFun) (c • d) := by
        intro c
        have h1 := hall c
        have h0 := hall 0
        rw [mem_iff_gdir] at h1 h0
        have e : c • d = (x + c • d - g.pt.toFun) - (x + (0:Rat) • d - g.pt.toFun) := by module
        rw [e]; exact Abs.Dir.sub h1 h0
      have := line_theorem _ _ _ _ rfl hc
      exact dir_zero_lines _ (by
        intro l hl; obtain ⟨w, hw, rfl⟩ := List.mem_map.mp hl; exact hz w hw) this
    · intro h l hl
      by_contra hne
      apply h
      refine ⟨g.pt.toFun, l.toFun, hne, fun c => ?_⟩
      rw [← axpy_eq]; exact Gens.Mem.line c hl Gens.Mem.pt

/-- bounded: at most one point -/
theorem isBounded_iff (G : GridGens) : isBounded G = true ↔ ∀ x y, Gen.sem G x → Gen.sem G y → x = y := by
  cases G with
  | empty => simp [isBounded, Gen.sem]
  | gens g =>
    simp only [isBounded, Bool.and_eq_true, List.all_eq_true, isZero_iff, Gen.sem]
    constructor
    · rintro ⟨hl, hq⟩
      have key : ∀ x, g.Mem x → x = g.pt.toFun := by
        intro x hx
        induction hx with
        | pt => rfl
        | param k hq' _ ih => rw [axpy_eq, ih, hq _ hq']; simp
        | line c hl' _ ih => rw [axpy_eq, ih, hl _ hl']; simp
      intro x y hx hy; rw [key x hx, key y hy]
    · intro h
      constructor
      · intro l hl
        have := h _ _ (Gens.Mem.line 1 hl Gens.Mem.pt) Gens.Mem.pt
        rw [axpy_eq] at this
        have e : l.toFun = (g.pt.toFun + (1:Rat) • l.toFun) - g.pt.toFun := by module
        rw [e, this]; simp
      · intro q hq
        have := h _ _ (Gens.Mem.param 1 hq Gens.Mem.pt) Gens.Mem.pt
        rw [axpy_eq] at this
        have e : q.toFun = (g.pt.toFun + ((1:Int):Rat) • q.toFun) - g.pt.toFun := by push_cast; module
        rw [e, this]; simp

/-- the expression is constant on the grid -/
theorem boundsExpr_iff (G : GridGens) (e : Vec) :
    boundsExpr G e = true ↔ ∀ x y, Gen.sem G x → Gen.sem G y → dotF e x = dotF e y := by
  cases G with
  | empty => simp [boundsExpr, Gen.sem]
  | gens g =>
    simp only [boundsExpr, Bool.and_eq_true, List.all_eq_true, beq_iff_eq, Gen.sem]
    constructor
    · rintro ⟨hq, hl⟩
      have key : ∀ x, g.Mem x → dotF e x = dotF e g.pt.toFun := by
        intro x hx
        induction hx with
        | pt => rfl
        | param k hq' _ ih => rw [axpy_eq, dotF_add, dotF_smul, ← dot_eq_dotF e _, hq _ hq', ih]; simp
        | line c hl' _ ih => rw [axpy_eq, dotF_add, dotF_smul, ← dot_eq_dotF e _, hl _ hl', ih]; simp
      intro x y hx hy; rw [key x hx, key y hy]
    · intro h
      constructor
      · intro q hq
        have := h _ _ (Gens.Mem.param 1 hq Gens.Mem.pt) Gens.Mem.pt
        rw [axpy_eq, dotF_add, dotF_smul, ← dot_eq_dotF e q] at this
        push_cast at this; linarith
      · intro l hl
        have := h _ _ (Gens.Mem.line 1 hl Gens.Mem.pt) Gens.Mem.pt
        rw [axpy_eq, dotF_add, dotF_smul, ← dot_eq_dotF e l] at this
        linarith

/-! ### certified congruence form, intersection, compression -/

theorem certCons_sem (n : Nat) (G : GridGens) (C : List Cg) (h : certCons n G = some C) (x : Pt) :
    Gen.sem G x ↔ CgSys.sem n C x := by
  unfold certCons at h
  simp only at h
  split at h
  · rename_i heq
    simp only [Option.some.injEq] at h
    subst h
    rw [← (equivB_iff _ _).mp heq x, consToGens_sem]
  · exact absurd h (by simp)

/-- a successful certified intersection is the intersection -/
theorem inter_sem (G H K : GridGens) (h : inter G H = some K) (x : Pt) :
    Gen.sem K x ↔ Gen.sem G x ∧ Gen.sem H x := by
  unfold inter at h
  cases hc : certCons (max G.maxLen H.maxLen) H with
  | none => simp [hc] at h
  | some C =>
    simp only [hc, Option.map_some, Option.some.injEq] at h
    subst h
    rw [intersectCons_sem, certCons_sem _ _ _ hc x]
    simp only [CgSys.sem]
    constructor
    · rintro ⟨h1, h2⟩
      exact ⟨h1, sem_supp G _ (le_max_left _ _) x h1, h2⟩
    · rintro ⟨h1, _, h2⟩; exact ⟨h1, h2⟩

theorem compress_sem (n : Nat) (G : GridGens) (x : Pt) : Gen.sem (compress n G) x ↔ Gen.sem G x := by
  unfold compress
  split
  · simp only
    split
    · rename_i heq; exact (equivB_iff _ _).mp heq x
    · rfl
  · rfl

/-! ### time-elapse -/

theorem timeElapse_contains (G H : GridGens) (p q : Pt) (μ : Int) (hp : Gen.sem G p) (hq : Gen.sem H q) :
    Gen.sem (timeElapse G H) (p + (μ : Rat) • q) := by
  cases G with
  | empty => exact absurd hp (by simp [Gen.sem])
  | gens g =>
    cases H with
    | empty => exact absurd hq (by simp [Gen.sem])
    | gens h =>
      simp only [timeElapse, Gen.sem] at *
      rw [mem_iff_gdir] at *
      simp only [GDir, List.map_cons, List.map_append] at *
      have e : p + (μ:Rat) • q - g.pt.toFun = (p - g.pt.toFun) + ((μ:Rat) • h.pt.toFun + (μ:Rat) • (q - h.pt.toFun)) := by
        module
      rw [e]
      refine Abs.Dir.add (Abs.Dir.mono_subset ?_ ?_ hp) (Abs.Dir.add ?_ (Abs.Dir.zsmul μ (Abs.Dir.mono_subset ?_ ?_ hq)))
      · intro z hz; simp only [List.mem_cons, List.mem_append]; tauto
      · intro z hz; simp only [List.mem_append]; tauto
      · exact Abs.Dir.zsmul μ (Abs.Dir.of_param (by simp))
      · intro z hz; simp only [List.mem_cons, List.mem_append]; tauto
      · intro z hz; simp only [List.mem_append]; tauto

/-- `timeElapse G H` is below every grid containing all `p + μ q` -/
theorem timeElapse_least (G H K : GridGens)
    (hK : ∀ p q (μ : Int), Gen.sem G p → Gen.sem H q → Gen.sem K (p + (μ : Rat) • q))
    (x : Pt) (hx : Gen.sem (timeElapse G H) x) : Gen.sem K x := by
  cases G with
  | empty => exact absurd hx (by simp [timeElapse, Gen.sem])
  | gens g =>
    cases H with
    | empty => exact absurd hx (by simp [timeElapse, Gen.sem])
    | gens h =>
      simp only [timeElapse, Gen.sem] at hx
      have hgK : ∀ p, g.Mem p → Gen.sem K p := by
        intro p hp
        have := hK p _ 0 hp (Gens.Mem.pt (g := h))
        simpa using this
      have base : Gen.sem K g.pt.toFun := hgK _ Gens.Mem.pt
      -- directions available in K, as differences of members
      have hdir : ∀ (y : Pt) (q : Pt), Gen.sem K y → h.Mem q → ∀ k : Int, Gen.sem K (y + (k:Rat) • q) := by
        intro y q hy hq k
        have h1 := hK g.pt.toFun q 1 Gens.Mem.pt hq
        have := sem_affine K k hy h1 base
        have e : y + (k:Rat) • (g.pt.toFun + ((1:Int):Rat) • q - g.pt.toFun) = y + (k:Rat) • q := by
          push_cast; module
        rwa [e] at this
      induction hx with
      | pt => exact base
      | @param z q k hq _ ih =>
        rw [axpy_eq]
        simp only [List.mem_cons, List.mem_append] at hq
        rcases hq with rfl | hq | hq
        · exact hdir z _ ih Gens.Mem.pt k
        · have h1 := hgK _ (Gens.Mem.param 1 hq Gens.Mem.pt)
          rw [axpy_eq] at h1
          have := sem_affine K k ih h1 base
          have e : z + (k:Rat) • (g.pt.toFun + ((1:Int):Rat) • q.toFun - g.pt.toFun) = z + (k:Rat) • q.toFun := by
            push_cast; module
          rwa [e] at this
        · -- q is a parameter of h: (pt_h + q) - pt_h
          have h1 := hdir z _ ih (Gens.Mem.param 1 hq Gens.Mem.pt) k
          have h2 := hdir _ _ h1 (Gens.Mem.pt (g := h)) (-k)
          rw [axpy_eq] at h2
          have e : z + (k:Rat) • (h.pt.toFun + ((1:Int):Rat) • q.toFun) + ((-k : Int):Rat) • h.pt.toFun = z + (k:Rat) • q.toFun := by
            push_cast; module
          rw [axpy_eq] at h1
          rwa [e] at h2
      | @line z l d hl _ ih =>
        rw [axpy_eq]
        simp only [List.mem_append] at hl
        rcases hl with hl | hl
        · have h1 := hgK _ (Gens.Mem.line d hl Gens.Mem.pt)
          rw [axpy_eq] at h1
          have := sem_affine K 1 ih h1 base
          have e : z + ((1:Int):Rat) • (g.pt.toFun + d • l.toFun - g.pt.toFun) = z + d • l.toFun := by
            push_cast; module
          rwa [e] at this
        · have h1 := hdir z _ ih (Gens.Mem.line d hl Gens.Mem.pt) 1
          have h2 := hdir _ _ h1 (Gens.Mem.pt (g := h)) (-1)
          rw [axpy_eq] at h1 h2
          have e : z + ((1:Int):Rat) • (h.pt.toFun + d • l.toFun) + ((-1 : Int):Rat) • h.pt.toFun = z + d • l.toFun := by
            push_cast; module
          rwa [e] at h2

end PPLV.Lattice
