import PPLV.Lattice.ProofsGridOpsGen28
import Mathlib.Algebra.Order.Archimedean.Basic

/-!
# Generator side of the `Grid` object, part 29 — `relation_with(const Constraint&)` for an inequality: the answers on a
# normalised generator system with exactly one point
-/
namespace PPLV.Lattice.GO
open PPLV.Lattice PPLV.Lattice.Red

/-- the congruence row that carries the expression of a constraint, resized to the space -/
def gn_conRow (c : Con) (n : Nat) : CRow := (CRow.mk c.e 0).setSpaceDim n

theorem gn_conRow_len (c : Con) (n : Nat) : (gn_conRow c n).e.length = n + 1 := gn_length_resizeRow _ _

theorem gn_conVal {n : Nat} (D : Int) (c : Con) {x : Pt} (hx : Supp n x) :
    gn_cgVal D (gn_conRow c n) x = (D : ℚ) * evalRow c.e x := by
  unfold gn_cgVal
  rw [alphaOf_homog _ (by rw [gn_conRow_len]; omega), ← evalRow_eq]
  show (D : ℚ) * evalRow (resizeRow c.e (n + 1)) x = _
  rw [cn_evalRow_resize_supp c.e n x hx]

theorem gn_mem_conSet_ineq (c : Con) (hk : c.isEquality = false) (x : Pt) :
    x ∈ cn_conSet c ↔ if c.isStrict = true then 0 < evalRow c.e x else 0 ≤ evalRow c.e x := by
  have hk0 : c.kind ≠ 0 := by simpa [Con.isEquality] using hk
  show (if c.kind = 0 then _ else if c.kind = 2 then _ else _) ↔ _
  rw [if_neg hk0]
  by_cases h2 : c.kind = 2
  · have : c.isStrict = true := by simp [Con.isStrict, h2]
    rw [if_pos h2, if_pos this]
  · have : c.isStrict = false := by simp [Con.isStrict, h2]
    rw [if_neg h2, if_neg (by rw [this]; simp)]

section rows
variable {n : Nat} {D : Int} {rows : List GRow} (hN : GNorm n D rows) (hw : GWf n rows) (c : Con)
  (hd : c.e.length ≤ n + 1)
include hN hw hd

omit hN hw in
theorem gn_con_sp (r : GRow) : sp c.e r.e = dotRow (gn_conRow c n).e r.e n :=
  gn_sp_eq_dotRow (CRow.mk c.e 0) n hd r

/-- some row that is not a point has a non-zero product: the expression is unbounded on the grid in both directions -/
theorem gn_con_unbounded {r : GRow} (hr : r ∈ rows) (hnp : gn_isPt r = false) (h0 : sp c.e r.e ≠ 0) :
    (∃ x ∈ gn_set rows, 1 ≤ evalRow c.e x) ∧ (∃ y ∈ gn_set rows, evalRow c.e y ≤ -1) := by
  have hDpos : (0 : ℚ) < (D : ℚ) := by exact_mod_cast hN.pos
  have hDq : (D : ℚ) ≠ 0 := ne_of_gt hDpos
  obtain ⟨a, ha⟩ := gn_mem_nonempty (gn_wf_of_gnorm hN hw).pt
  have hs0 : dotRow (gn_conRow c n).e r.e n ≠ 0 := by rw [← gn_con_sp c hd]; exact h0
  have hval : ∀ x ∈ gn_set rows, gn_cgVal D (gn_conRow c n) x = (D : ℚ) * evalRow c.e x :=
    fun x hx => gn_conVal D c (gn_mem_supp hw hx)
  -- it suffices to reach values `≥ D` and `≤ -D`
  suffices h : (∃ x ∈ gn_set rows, (D : ℚ) ≤ gn_cgVal D (gn_conRow c n) x) ∧
      (∃ y ∈ gn_set rows, gn_cgVal D (gn_conRow c n) y ≤ -(D : ℚ)) by
    obtain ⟨⟨x, hx, h1⟩, ⟨y, hy, h2⟩⟩ := h
    rw [hval x hx] at h1; rw [hval y hy] at h2
    refine ⟨⟨x, hx, ?_⟩, ⟨y, hy, ?_⟩⟩
    · by_contra hc
      have : evalRow c.e x < 1 := lt_of_not_ge hc
      nlinarith
    · by_contra hc
      have : -1 < evalRow c.e y := lt_of_not_ge hc
      nlinarith
  cases hl : r.line with
  | true =>
    obtain ⟨x, hx, ex⟩ := (gn_mkRelCtx hN hw (gn_conRow c n) (gn_conRow_len c n)).line_any r hr hl hs0 a ha (D : ℚ)
    obtain ⟨y, hy, ey⟩ := (gn_mkRelCtx hN hw (gn_conRow c n) (gn_conRow_len c n)).line_any r hr hl hs0 a ha (-(D : ℚ))
    exact ⟨⟨x, hx, le_of_eq ex.symm⟩, ⟨y, hy, le_of_eq ey⟩⟩
  | false =>
    have hpar : gn_isPar r = true := by
      have : get r.e 0 = 0 := by
        by_contra hz
        have := (gn_isPt_iff r).mpr ⟨hl, hz⟩
        rw [hnp] at this; cases this
      exact (gn_isPar_iff r).mpr ⟨hl, this⟩
    obtain ⟨m, hm⟩ := exists_nat_gt (|gn_cgVal D (gn_conRow c n) a| + (D : ℚ))
    have hsq : (1 : ℚ) ≤ ((dotRow (gn_conRow c n).e r.e n : Int) : ℚ) * ((dotRow (gn_conRow c n).e r.e n : Int) : ℚ) := by
      have : (1 : Int) ≤ dotRow (gn_conRow c n).e r.e n * dotRow (gn_conRow c n).e r.e n := by
        have := mul_self_pos.mpr hs0
        omega
      exact_mod_cast this
    have hm0 : (0 : ℚ) ≤ (m : ℚ) := Nat.cast_nonneg m
    have habs1 := le_abs_self (gn_cgVal D (gn_conRow c n) a)
    have habs2 := neg_abs_le (gn_cgVal D (gn_conRow c n) a)
    obtain ⟨x, hx, ex⟩ := (gn_mkRelCtx hN hw (gn_conRow c n) (gn_conRow_len c n)).par_step r hr hpar a ha
      (dotRow (gn_conRow c n).e r.e n * (m : Int))
    obtain ⟨y, hy, ey⟩ := (gn_mkRelCtx hN hw (gn_conRow c n) (gn_conRow_len c n)).par_step r hr hpar a ha
      (-(dotRow (gn_conRow c n).e r.e n * (m : Int)))
    have key : (m : ℚ) ≤ ((dotRow (gn_conRow c n).e r.e n : Int) : ℚ) * (m : ℚ) *
        ((dotRow (gn_conRow c n).e r.e n : Int) : ℚ) := by nlinarith
    refine ⟨⟨x, hx, ?_⟩, ⟨y, hy, ?_⟩⟩
    · show (D : ℚ) ≤ gn_cgVal D (gn_conRow c n) x
      change gn_cgVal D (gn_conRow c n) x = gn_cgVal D (gn_conRow c n) a +
        ((dotRow (gn_conRow c n).e r.e n * (m : Int) : Int) : ℚ) * ((dotRow (gn_conRow c n).e r.e n : Int) : ℚ) at ex
      rw [ex]; push_cast
      linarith
    · show gn_cgVal D (gn_conRow c n) y ≤ -(D : ℚ)
      change gn_cgVal D (gn_conRow c n) y = gn_cgVal D (gn_conRow c n) a +
        ((-(dotRow (gn_conRow c n).e r.e n * (m : Int)) : Int) : ℚ) * ((dotRow (gn_conRow c n).e r.e n : Int) : ℚ) at ey
      rw [ey]; push_cast
      linarith

/-- every row that is not a point has product 0 and there is one point `p`: the expression is constant on the grid -/
theorem gn_con_const {p : GRow} (hp : p ∈ rows) (pp : gn_isPt p = true) (huniq : ∀ r ∈ rows, gn_isPt r = true → r = p)
    (hz : ∀ r ∈ rows, gn_isPt r = false → sp c.e r.e = 0) :
    ∀ x ∈ gn_set rows, (D : ℚ) * evalRow c.e x = ((sp c.e p.e : Int) : ℚ) := by
  intro x hx
  have hz' : ∀ r ∈ rows, gn_isPt r = false → dotRow (gn_conRow c n).e r.e n = 0 := fun r hr h => by
    rw [← gn_con_sp c hd]; exact hz r hr h
  obtain ⟨t, ht⟩ := (gn_mkRelCtx hN hw (gn_conRow c n) (gn_conRow_len c n)).ind 0 p hp pp
    (fun l hl h => hz' l hl (by simp [gn_isPt, h]))
    (fun q hq h => by
      have := hz' q hq (by have := (gn_isPar_iff q).mp h; simp [gn_isPt, this.2])
      show (0 : Int) ∣ dotRow (gn_conRow c n).e q.e n
      rw [this])
    (fun r hr h => by rw [huniq r hr h]; simp) x hx
  rw [← gn_conVal D c (gn_mem_supp hw hx), gn_con_sp c hd]
  change gn_cgVal D (gn_conRow c n) x = _ at ht
  rw [ht]; simp; rfl

end rows

end PPLV.Lattice.GO
