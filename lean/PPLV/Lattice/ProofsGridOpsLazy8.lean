import PPLV.Lattice.ProofsGridOpsLazy7
import PPLV.Lattice.ProofsConvCGTri
import PPLV.Lattice.ProofsConvGCTri

/-!
# The `Grid` object — part 8: `construct(num_dimensions, UNIVERSE)` in positive dimension (Grid_nonpublic.cc:51)

The generator system built by `insert(grid_point())`, `insert(grid_line(Variable(d)))` is the origin followed by the
`n` unit lines; with `dim_kinds = [PROPER_CONGRUENCE, CON_VIRTUAL, …]` and the single congruence `1 ≡ 0 (mod 1)` both
descriptions are in triangular form and denote the whole space.
-/
namespace PPLV.Lattice.GO
open PPLV.Lattice PPLV.Lattice.Red

theorem lz_length_resizeRow (e : Row) (len : Nat) : (resizeRow e len).length = len := by simp [resizeRow]

theorem lz_get_resizeRow (e : Row) (len i : Nat) : get (resizeRow e len) i = if i < len then get e i else 0 := by
  by_cases h : i < len
  · rw [if_pos h]
    unfold resizeRow
    unfold Red.get
    simp [h]
  · rw [if_neg h]; exact get_of_length_le _ _ (by rw [lz_length_resizeRow]; omega)

/-- the row `q` of the universe generator system: the point for `q = 0`, the line of variable `q - 1` else -/
def lz_UnitRow (n q : Nat) (r : GRow) : Prop :=
  r.line = decide (q ≠ 0) ∧ r.e.length = n + 2 ∧ ∀ i, get r.e i = if i = q then 1 else 0

theorem lz_get_gridPoint0 (i : Nat) : get gridPoint0.e i = if i = 0 then 1 else 0 := by
  match i with
  | 0 => rfl
  | 1 => rfl
  | i + 2 => simp [gridPoint0, Red.get]

theorem lz_get_gridLineVar (d i : Nat) : get (gridLineVar d).e i = if i = d + 1 then 1 else 0 := by
  unfold gridLineVar
  simp only [get_set, List.length_replicate, get_replicate_zero]
  by_cases h : i = d + 1
  · rw [if_pos ⟨h, by omega⟩, if_pos h]
  · rw [if_neg (fun hh => h hh.1), if_neg h]

theorem lz_point_unit (n : Nat) (hn : 0 < n) : lz_UnitRow n 0 (gridPoint0.setSpaceDim n) := by
  have hs : gridPoint0.spaceDim = 0 := rfl
  unfold GRow.setSpaceDim
  simp only [hs, gt_iff_lt, hn, if_true]
  refine ⟨rfl, by simp [lz_length_resizeRow], fun i => ?_⟩
  simp only [get_set, lz_get_resizeRow, List.length_set, lz_length_resizeRow, lz_get_gridPoint0]
  by_cases h0 : i = 0
  · subst h0; simp
  · simp only [h0, if_false]
    split_ifs <;> simp_all

theorem lz_line_unit (n d : Nat) (hd : d < n) : lz_UnitRow n (d + 1) ((gridLineVar d).setSpaceDim n) := by
  have hs : (gridLineVar d).spaceDim = d + 1 := by simp [GRow.spaceDim, gridLineVar]
  have hl : (gridLineVar d).e.length = d + 3 := by simp [gridLineVar]
  unfold GRow.setSpaceDim
  simp only [hs]
  by_cases hgt : n > d + 1
  · simp only [hgt, if_true]
    refine ⟨by simp [gridLineVar], by simp [lz_length_resizeRow], fun i => ?_⟩
    simp only [get_set, lz_get_resizeRow, List.length_set, lz_length_resizeRow, lz_get_gridLineVar]
    split_ifs <;> simp_all <;> omega
  · have hn : n = d + 1 := by omega
    subst hn
    simp only [gt_iff_lt, Nat.lt_irrefl, if_false]
    refine ⟨by simp [gridLineVar], by simp [lz_length_resizeRow], fun i => ?_⟩
    simp only [get_set, lz_get_resizeRow, List.length_set, lz_get_gridLineVar, hl]
    split_ifs <;> simp_all

/-- the generator system of the universe -/
def lz_univRows (n : Nat) : List GRow :=
  gridPoint0.setSpaceDim n :: (List.range n).map fun d => (gridLineVar d).setSpaceDim n

theorem lz_univ_fold (n : Nat) (_hn : 0 < n) : ∀ k, k ≤ n →
    (List.range k).foldl (fun s d => s.insert (gridLineVar d)) ((GSys.mk n []).insert gridPoint0) =
      ⟨n, gridPoint0.setSpaceDim n :: (List.range k).map fun d => (gridLineVar d).setSpaceDim n⟩ := by
  intro k
  induction k with
  | zero =>
    intro _
    have h1 : gridPoint0.isParameter = false := rfl
    have h2 : gridPoint0.spaceDim = 0 := rfl
    simp [GSys.insert, GSys.sysInsert, h1, h2]
  | succ k ih =>
    intro hk
    rw [List.range_succ, List.foldl_append, ih (by omega)]
    have h1 : (gridLineVar k).isParameter = false := by simp [GRow.isParameter, gridLineVar]
    have h2 : (gridLineVar k).spaceDim = k + 1 := by simp [GRow.spaceDim, gridLineVar]
    have h3 : ¬ n < k + 1 := by omega
    simp [GSys.insert, GSys.sysInsert, h1, h2, h3]

/-- the state `Grid(n, UNIVERSE)` builds -/
def lz_univGrid (n : Nat) : Grid :=
  Grid.mk n { cUp := true, cMin := true, gUp := true, gMin := true } n [{ e := 1 :: List.replicate n 0, m := 1 }] n
    (lz_univRows n) (PROPER_CONGRUENCE :: List.replicate n CON_VIRTUAL)

theorem lz_constructDeg_univ (n : Nat) (hn : 0 < n) : constructDeg n true = lz_univGrid n := by
  have h0 : n ≠ 0 := by omega
  simp only [constructDeg, Bool.not_true, Bool.false_eq_true, if_false, h0, lz_univ_fold n hn n (le_refl n)]
  rfl

theorem lz_univRows_length (n : Nat) : (lz_univRows n).length = n + 1 := by simp [lz_univRows]

theorem lz_univRows_unit (n : Nat) (hn : 0 < n) (q : Nat) (hq : q < n + 1) : lz_UnitRow n q (rowAt (lz_univRows n) q) := by
  cases q with
  | zero => exact lz_point_unit n hn
  | succ d =>
    have hd : d < n := by omega
    have : rowAt (lz_univRows n) (d + 1) = (gridLineVar d).setSpaceDim n := by
      simp [rowAt, lz_univRows, hd]
    rw [this]; exact lz_line_unit n d hd

theorem lz_univRows_mem (n : Nat) (hn : 0 < n) (r : GRow) (hr : r ∈ lz_univRows n) : ∃ q, q < n + 1 ∧ lz_UnitRow n q r := by
  obtain ⟨i, hi, rfl⟩ := (gc_mem_iff_rowAt _ _).mp hr
  rw [lz_univRows_length] at hi
  exact ⟨i, hi, lz_univRows_unit n hn i hi⟩

theorem lz_univ_kind (n d : Nat) : kind (PROPER_CONGRUENCE :: List.replicate n CON_VIRTUAL) d =
    if d = 0 then 0 else if d < n + 1 then 1 else 0 := by
  cases d with
  | zero => rfl
  | succ d =>
    simp only [kind, List.getD_cons_succ, Nat.succ_ne_zero, if_false]
    by_cases h : d < n
    · simp [h, CON_VIRTUAL]
    · simp [h]

theorem lz_univ_gwf (n : Nat) (hn : 0 < n) : GWf n (lz_univRows n) := by
  intro r hr
  obtain ⟨q, _, hu⟩ := lz_univRows_mem n hn r hr
  exact hu.2.1

theorem lz_univ_gnorm (n : Nat) (hn : 0 < n) : GNorm n 1 (lz_univRows n) where
  pos := by decide
  pt := ⟨_, List.mem_cons_self, (lz_point_unit n hn).1, by rw [(lz_point_unit n hn).2.2]; rfl⟩
  col0 := by
    intro r hr _
    obtain ⟨q, _, hu⟩ := lz_univRows_mem n hn r hr
    rw [hu.2.2]; by_cases h : 0 = q <;> simp [h]
  par := by
    intro r hr hl h0
    obtain ⟨q, _, hu⟩ := lz_univRows_mem n hn r hr
    have hq : q = 0 := by
      have := hu.1; rw [hl] at this; simpa using this
    subst hq
    rw [hu.2.2] at h0; simp at h0
  lin := by
    intro r hr hl
    obtain ⟨q, _, hu⟩ := lz_univRows_mem n hn r hr
    have hq : q ≠ 0 := by
      have := hu.1; rw [hl] at this; simpa using this
    rw [hu.2.2, if_neg (Ne.symm hq)]

theorem lz_univ_nv (n : Nat) : ∀ q, q ≤ n + 1 → nv (PROPER_CONGRUENCE :: List.replicate n CON_VIRTUAL) q = q := by
  intro q
  induction q with
  | zero => intro _; rfl
  | succ q ih =>
    intro hq
    have hb : nvB (PROPER_CONGRUENCE :: List.replicate n CON_VIRTUAL) q = true := by
      rw [nvB_iff, lz_univ_kind]
      split_ifs <;> decide
    show cntBelow _ (q + 1) = q + 1
    rw [cntBelow_succ_pos _ _ hb]
    have := ih (by omega)
    simp only [nv] at this
    omega

theorem lz_univ_upperTriangular (n : Nat) (hn : 0 < n) :
    upperTriangular n (lz_univRows n) (PROPER_CONGRUENCE :: List.replicate n CON_VIRTUAL) = true := by
  refine cg_upperTriangular_of_rows n _ _ ?_ (fun q hq _ => ?_)
  · rw [lz_univRows_length, lz_univ_nv n (n + 1) (le_refl _)]
  · rw [lz_univ_nv n q (by omega)]
    have hu := lz_univRows_unit n hn q hq
    refine ⟨by rw [hu.2.2, if_pos rfl]; decide, fun k hk => ?_⟩
    rw [hu.2.2, if_neg (by omega)]

theorem lz_univ_lowerTriangular (n : Nat) :
    lowerTriangular n [{ e := 1 :: List.replicate n 0, m := 1 }] (PROPER_CONGRUENCE :: List.replicate n CON_VIRTUAL) = true := by
  rw [gc_lowerTriangular_eq]
  have hle : ¬ ([{ e := 1 :: List.replicate n 0, m := 1 }] : List CRow).length > n + 1 := by simp
  rw [if_neg hle]
  have key := foldl_dimsDown_inv (gcLtStep n [{ e := 1 :: List.replicate n 0, m := 1 }] (PROPER_CONGRUENCE :: List.replicate n CON_VIRTUAL))
    (fun d st => st = if d = 0 then (1, true) else (0, true)) (n + 1) (0, true) (by simp) ?_
  · simp only [if_true] at key
    simp [key]
  · intro d st hd hst
    rw [if_neg (by omega)] at hst
    subst hst
    unfold gcLtStep
    rw [lz_univ_kind]
    by_cases h0 : d = 0
    · subst h0
      have ha : allZeroes (1 :: List.replicate n 0) (0 + 1) (n + 1) = true := by
        rw [allZeroes_iff]
        intro i h1 _
        cases i with
        | zero => omega
        | succ i => rw [get_cons_succ, get_replicate_zero]
      simp [CON_VIRTUAL, rowAt, get_cons_zero, ha]
    · simp [h0, CON_VIRTUAL]; omega

/-- the universe congruence system has every point of the space as a solution -/
theorem lz_univ_consSet (n : Nat) : consSet n [{ e := 1 :: List.replicate n 0, m := 1 }] = {x | Supp n x} := by
  ext x
  simp only [consSet, Set.mem_ofPred_eq]
  rw [cgsSem_iff]
  refine ⟨fun h => h.1, fun h => ⟨h, fun i hi => ?_⟩⟩
  have hi0 : i = 0 := by simpa using hi
  subst hi0
  refine ⟨1, ?_⟩
  have hc : evalRow (1 :: List.replicate n 0) x = ((get (1 :: List.replicate n 0) 0 : Int) : ℚ) := by
    refine evalRow_const _ x (fun i hi => ?_)
    cases i with
    | zero => omega
    | succ i => rw [get_cons_succ, get_replicate_zero]
  show evalRow (1 :: List.replicate n 0) x = ((1 : Int) : ℚ) * ((1 : Int) : ℚ)
  rw [hc, get_cons_zero]; norm_num

/-- every vector that vanishes at `0` and beyond `k ≤ n` is a combination of the unit lines -/
theorem lz_univ_hom_lines (n : Nat) (hn : 0 < n) : ∀ k, k ≤ n → ∀ v : Pt, v 0 = 0 → (∀ i, k < i → v i = 0) →
    Hom n (lz_univRows n) v := by
  intro k
  induction k with
  | zero =>
    intro _ v h0 hz
    have : v = 0 := by
      funext i
      cases i with
      | zero => exact h0
      | succ i => exact hz _ (by omega)
    rw [this]; exact hom_zero _ _
  | succ k ih =>
    intro hk v h0 hz
    have hu := lz_univRows_unit n hn (k + 1) (by omega)
    have hline : (rowAt (lz_univRows n) (k + 1)).line = true := by rw [hu.1]; simp
    have hmem := hom_line (n := n) (rows := lz_univRows n) (i := k + 1) (by rw [lz_univRows_length]; omega) hline (v (k + 1))
    have hrest := ih (by omega) (fun i => if i = k + 1 then 0 else v i) (by simp [h0]) (fun i hi => by
      by_cases h : i = k + 1
      · simp [h]
      · simp only [h, if_false]; exact hz i (by omega))
    have hsum : v = (fun i => if i = k + 1 then 0 else v i) + v (k + 1) • hv n (rowAt (lz_univRows n) (k + 1)) := by
      funext i
      simp only [Pi.add_apply, Pi.smul_apply, smul_eq_mul, hv_apply, hu.2.2]
      by_cases h : i = k + 1
      · subst h
        have : k + 1 ≤ n := hk
        simp [this]
      · simp [h]
    rw [hsum]; exact hom_add hrest hmem

/-- the vectors of the homogeneous lattice vanish beyond column `n` -/
theorem lz_hom_high {n : Nat} {rows : List GRow} {v : Pt} (h : Hom n rows v) : ∀ i, n < i → v i = 0 := by
  unfold Hom GDir at h
  induction h with
  | zero => intro i _; rfl
  | @param w q j hq _ ih =>
    obtain ⟨u, hu, rfl⟩ := List.mem_map.mp hq
    obtain ⟨r, _, rfl⟩ := List.mem_map.mp hu
    intro i hi
    have e : (GRow.hvec n r).toFun i = 0 := by
      have := hv_apply n r i
      unfold hv at this
      rw [this, if_neg (by omega)]
    simp only [Pi.add_apply, Pi.smul_apply, smul_eq_mul, ih i hi, e]; ring
  | @line w l c hl' _ ih =>
    obtain ⟨u, hu, rfl⟩ := List.mem_map.mp hl'
    obtain ⟨r, _, rfl⟩ := List.mem_map.mp hu
    intro i hi
    have e : (GRow.hvec n r).toFun i = 0 := by
      have := hv_apply n r i
      unfold hv at this
      rw [this, if_neg (by omega)]
    simp only [Pi.add_apply, Pi.smul_apply, smul_eq_mul, ih i hi, e]; ring

theorem lz_univ_gensSet (n : Nat) (hn : 0 < n) : gensSet n (lz_univRows n) = {x | Supp n x} := by
  rw [lz_gensSet_eq (lz_univ_gnorm n hn)]
  ext x
  simp only [Set.mem_ofPred_eq]
  constructor
  · intro h i hi
    have := lz_hom_high h (i + 1) (by omega)
    simpa [homog] using this
  · intro hx
    have hu := lz_univRows_unit n hn 0 (by omega)
    have hpt : (rowAt (lz_univRows n) 0).line = false := by rw [hu.1]; simp
    have h1 := hom_pc (n := n) (rows := lz_univRows n) (i := 0) (by rw [lz_univRows_length]; omega) hpt
    have h2 := lz_univ_hom_lines n hn n (le_refl n) (homog ((1 : Int) : ℚ) x - hv n (rowAt (lz_univRows n) 0))
      (by simp [homog, hv_apply, hu.2.2])
      (fun i hi => by
        cases i with
        | zero => omega
        | succ i =>
          have : ¬ i + 1 ≤ n := by omega
          simp [homog, hv_apply, this, hx i (by omega)])
    have := hom_add h1 h2
    simpa using this

/-- **`Grid(n, UNIVERSE)`**, `n > 0`: the invariant holds, the grid is the whole space, every flag is set -/
theorem constructDeg_univ_spec (n : Nat) (hn : 0 < n) :
    GridInv (constructDeg n true) ∧ (constructDeg n true).sem = {x | Supp n x} ∧
    (constructDeg n true).st = { cUp := true, cMin := true, gUp := true, gMin := true } := by
  rw [lz_constructDeg_univ n hn]
  have hI : GridInv (lz_univGrid n) := by
    refine lz_inv_of_both _ rfl hn rfl rfl rfl rfl ?_ rfl (lz_univ_gwf n hn) (lz_univ_gnorm n hn) ?_
      (by simp [lz_univGrid]) (lz_univ_lowerTriangular n) (lz_univ_upperTriangular n hn) rfl
    · intro r hr
      have hr' : r = { e := 1 :: List.replicate n 0, m := 1 } := by simpa [lz_univGrid] using hr
      subst hr'
      exact ⟨by simp [lz_univGrid], by show (0 : Int) ≤ 1; decide⟩
    · show consSet n [{ e := 1 :: List.replicate n 0, m := 1 }] = gensSet n (lz_univRows n)
      rw [lz_univ_consSet, lz_univ_gensSet n hn]
  refine ⟨hI, ?_, rfl⟩
  rw [lz_sem_of_gUp (g := _) rfl hn rfl]
  exact lz_univ_gensSet n hn

theorem constructDeg_inv (n : Nat) (u : Bool) : GridInv (constructDeg n u) := by
  cases u
  · exact constructDeg_empty_inv n
  · by_cases h : n = 0
    · subst h; exact constructDeg_zdim_inv
    · exact (constructDeg_univ_spec n (by omega)).1

theorem constructDeg_sem (n : Nat) (u : Bool) :
    (constructDeg n u).sem = if u then {x | Supp n x} else ∅ := by
  cases u
  · exact constructDeg_empty_sem n
  · by_cases h : n = 0
    · subst h; exact constructDeg_zdim_sem
    · exact (constructDeg_univ_spec n (by omega)).2.1

example : (constructDeg 2 true).gen = [⟨false, [1, 0, 0, 0]⟩, ⟨true, [0, 1, 0, 0]⟩, ⟨true, [0, 0, 1, 0]⟩] ∧
    invB (constructDeg 2 true) = true := by decide +kernel

end PPLV.Lattice.GO
