import PPLV.Lattice.ProofsGridOpsGen38

/-!
# Generator side of the `Grid` object, part 39 — ingredients of `Grid::is_universe`: the unit vectors span the space; the rows
# `grid_line(Variable(i))`, `grid_point(0)` in dimension `n`; the coefficient of a row as its value on a unit vector
-/
namespace PPLV.Lattice.GO
open PPLV.Lattice PPLV.Lattice.Red

/-- a set that contains the origin and absorbs the rational multiples of the unit vectors contains the space -/
theorem gn_space_of_units {n : Nat} {S : Set Pt} (h0 : (0 : Pt) ∈ S)
    (h : ∀ i, i < n → ∀ a ∈ S, ∀ q : ℚ, a + q • (unit i).toFun ∈ S) : {x | Supp n x} ⊆ S := by
  intro x hx
  have key : ∀ k, k ≤ n → (fun j => if j < k then x j else 0) ∈ S := by
    intro k
    induction k with
    | zero =>
      intro _
      have e : (fun j => if j < 0 then x j else 0) = (0 : Pt) := by funext j; simp
      rw [e]; exact h0
    | succ k ih =>
      intro hk
      have := h k (by omega) _ (ih (by omega)) (x k)
      have e : (fun j => if j < k then x j else 0) + x k • (unit k).toFun = fun j => if j < k + 1 then x j else 0 := by
        funext j
        simp only [Pi.add_apply, Pi.smul_apply, smul_eq_mul, toFun_unit]
        by_cases h1 : j < k
        · have : j ≠ k := by omega
          have h2 : j < k + 1 := by omega
          simp [h1, this, h2]
        · by_cases h2 : j = k
          · subst h2; simp
          · have h3 : ¬ j < k + 1 := by omega
            simp [h1, h2, h3]
      rwa [e] at this
  have := key n (le_refl n)
  have e : (fun j => if j < n then x j else 0) = x := by
    funext j
    by_cases h1 : j < n
    · simp [h1]
    · simp [h1, hx j (by omega)]
  rwa [e] at this

theorem gn_space_closed_units (n i : Nat) (hi : i < n) (a : Pt) (ha : Supp n a) (q : ℚ) : Supp n (a + q • (unit i).toFun) := by
  intro j hj
  have : j ≠ i := by omega
  simp [ha j hj, toFun_unit, this]

/-! ### the rows of the test -/

theorem gn_lineOfDim_get (n i j : Nat) (hi : i < n) : get (lineOfDim n i).e j = if j = i + 1 then 1 else 0 := by
  unfold lineOfDim
  show get ((List.replicate (n + 2) 0).set (i + 1) 1) j = _
  rw [get_set]
  by_cases h : j = i + 1
  · subst h; simp; omega
  · simp only [h, false_and, if_false]
    unfold Red.get
    rw [List.getD_eq_getElem?_getD]
    by_cases hj : j < n + 2 <;> simp [hj]

theorem gn_lineOfDim_ok (n i : Nat) (hi : i < n) : gn_RowOK (lineOfDim n i) ∧ (lineOfDim n i).spaceDim = n ∧
    (lineOfDim n i).line = true ∧ gn_vecOf (lineOfDim n i) = (unit i).toFun := by
  have hlen : (lineOfDim n i).e.length = n + 2 := by simp [lineOfDim]
  have hsd : (lineOfDim n i).spaceDim = n := gn_spaceDim_of_len hlen
  refine ⟨⟨by rw [hsd, hlen], fun h => (by cases h), fun _ => (by rw [gn_lineOfDim_get n i 0 hi]; simp)⟩, hsd, rfl, ?_⟩
  funext j
  unfold gn_vecOf
  rw [hsd, gn_lineOfDim_get n i _ hi, toFun_unit]
  have hl : (lineOfDim n i).line = true := rfl
  by_cases h : j = i
  · subst h; simp [hl, hi]
  · by_cases hj : j < n <;> simp [hl, h, hj]

theorem gn_originOfDim_ok (n : Nat) : gn_RowOK (originOfDim n) ∧ (originOfDim n).spaceDim = n ∧
    (originOfDim n).line = false ∧ get (originOfDim n).e 0 = 1 ∧ gn_vecOf (originOfDim n) = 0 := by
  have hlen : (originOfDim n).e.length = n + 2 := by simp [originOfDim]
  have hsd : (originOfDim n).spaceDim = n := gn_spaceDim_of_len hlen
  have hg : ∀ j, get (originOfDim n).e (j + 1) = 0 := by
    intro j
    show get (1 :: List.replicate (n + 1) 0) (j + 1) = 0
    unfold Red.get
    rw [List.getD_eq_getElem?_getD]
    by_cases hj : j < n + 1 <;> simp [hj]
  have h0 : get (originOfDim n).e 0 = 1 := rfl
  refine ⟨⟨by rw [hsd, hlen], fun _ => ?_, fun h => (by cases h)⟩, hsd, rfl, h0, ?_⟩
  · rw [divisor_point _ (by rw [h0]; decide), h0]; decide
  · funext j
    unfold gn_vecOf
    rw [hg j]; simp

end PPLV.Lattice.GO
