import PPLV.Lattice.ProofsConvGCBase

/-!
# `Grid::conversion` (generators → congruences): the triangular source, the counting loop, the initial `dest`
-/
namespace PPLV.Lattice.Red

/-- entry `k` of source row `j` -/
def sEnt (source : List GRow) (j k : Nat) : Int := get (rowAt source j).e k

/-- what `upper_triangular(source, dim_kinds)` gives: one row per non-virtual dimension, in the order of the
    dimensions; positive diagonal, zeros before it -/
structure SrcOK (dims : Nat) (source : List GRow) (dk : List Nat) : Prop where
  len : source.length = nv dk dims
  diag : ∀ d, d < dims → nvB dk d = true → 0 < sEnt source (nv dk d) d
  zeros : ∀ d, d < dims → nvB dk d = true → ∀ k, k < d → sEnt source (nv dk d) k = 0

/-! ### `upper_triangular` -/

def utStep (sys : List GRow) (dk : List Nat) (st : Nat × Bool) (dim : Nat) : Nat × Bool :=
  if !st.2 then st
  else if kind dk dim = GEN_VIRTUAL then st
  else if st.1 = 0 then (0, false)
  else
    let gen := rowAt sys (st.1 - 1)
    if get gen.e dim ≤ 0 then (st.1 - 1, false)
    else if !allZeroes gen.e 0 dim then (st.1 - 1, false)
    else (st.1 - 1, true)

theorem gc_upperTriangular_eq (n : Nat) (sys : List GRow) (dk : List Nat) :
    upperTriangular n sys dk =
      (if sys.length > n + 1 then false
       else
        let r := (dimsDown (n + 1)).foldl (utStep sys dk) (sys.length, true)
        r.2 && r.1 == 0) := rfl

theorem upperTriangular_spec (n : Nat) (source : List GRow) (dk : List Nat) (h : upperTriangular n source dk = true) :
    SrcOK (n + 1) source dk := by
  rw [gc_upperTriangular_eq] at h
  split at h
  · exact absurd h (by simp)
  · have key := foldl_dimsDown_inv (utStep source dk)
      (fun d st => st.2 = true → (st.1 + nv dk (n + 1) = source.length + nv dk d) ∧
        ∀ d', d ≤ d' → d' < n + 1 → nvB dk d' = true →
          0 < sEnt source (source.length + nv dk d' - nv dk (n + 1)) d' ∧
          ∀ k, k < d' → sEnt source (source.length + nv dk d' - nv dk (n + 1)) k = 0)
      (n + 1) (source.length, true) ?_ ?_
    · simp only [Bool.and_eq_true, beq_iff_eq] at h
      obtain ⟨h1, h2⟩ := key h.1
      rw [h.2] at h1
      have hz : nv dk 0 = 0 := rfl
      rw [hz] at h1
      have hlen : source.length = nv dk (n + 1) := by omega
      refine ⟨hlen, ?_, ?_⟩
      · intro d hd hv
        have := (h2 d (Nat.zero_le _) hd hv).1
        rwa [show source.length + nv dk d - nv dk (n + 1) = nv dk d by omega] at this
      · intro d hd hv
        have := (h2 d (Nat.zero_le _) hd hv).2
        rwa [show source.length + nv dk d - nv dk (n + 1) = nv dk d by omega] at this
    · intro _
      exact ⟨rfl, fun d' h1 h2 => by omega⟩
    · intro d st hd ih
      unfold utStep
      by_cases hok : st.2 = true
      · obtain ⟨ih1, ih2⟩ := ih hok
        simp only [hok, Bool.not_true, Bool.false_eq_true, if_false]
        by_cases hk : kind dk d = GEN_VIRTUAL
        · simp only [hk, if_true]
          intro _
          have hv : nvB dk d = false := by simp [nvB, hk]
          have e := cntBelow_succ_neg (nvB dk) d hv
          refine ⟨by simp only [nv] at *; omega, ?_⟩
          intro d' h1 h2 h3
          by_cases hdd : d' = d
          · subst hdd; rw [hv] at h3; exact absurd h3 (by simp)
          · exact ih2 d' (by omega) h2 h3
        · have hv : nvB dk d = true := by simp [nvB, hk]
          have e := cntBelow_succ_pos (nvB dk) d hv
          simp only [hk, if_false]
          by_cases h0 : st.1 = 0
          · simp [h0]
          · simp only [h0, if_false]
            by_cases hdiag : get (rowAt source (st.1 - 1)).e d ≤ 0
            · simp [hdiag]
            · by_cases hz : allZeroes (rowAt source (st.1 - 1)).e 0 d = true
              · simp only [hdiag, if_false, hz, Bool.not_true, Bool.false_eq_true]
                intro _
                refine ⟨by simp only [nv] at *; omega, ?_⟩
                intro d' h1 h2 h3
                by_cases hdd : d' = d
                · subst hdd
                  have hidx : source.length + nv dk d' - nv dk (n + 1) = st.1 - 1 := by
                    simp only [nv] at *; omega
                  rw [hidx]
                  refine ⟨by simp only [sEnt]; omega, ?_⟩
                  intro k hk'
                  exact (allZeroes_iff _ 0 d').mp hz k (Nat.zero_le _) hk'
                · exact ih2 d' (by omega) h2 h3
              · simp [hdiag, hz]
      · have : st.2 = false := by simpa using hok
        simp [this]

/-! ### the counting loop -/

def gcCountStep (source : List GRow) (dk : List Nat) (st : Nat × Nat × Int) (dim : Nat) : Nat × Nat × Int :=
  if kind dk dim = GEN_VIRTUAL then (st.1, st.2.1 + 1, st.2.2)
  else
    let si := st.1 - 1
    if kind dk dim = PARAMETER then (si, st.2.1 + 1, lcmI st.2.2 (get (rowAt source si).e dim))
    else (si, st.2.1, st.2.2)

theorem gcCount_eq (source : List GRow) (dk : List Nat) (dims : Nat) :
    gcCount source dk dims = (dimsDown dims).foldl (gcCountStep source dk) (source.length, 0, 1) := rfl

theorem kind_cases (dk : List Nat) (dims : Nat) (hk : ∀ d, d < dims → kind dk d ≤ 2) (d : Nat) (hd : d < dims) :
    kind dk d = 0 ∨ kind dk d = 1 ∨ kind dk d = 2 := by
  have := hk d hd; omega

theorem gcCount_spec (source : List GRow) (dk : List Nat) (dims : Nat) (hs : SrcOK dims source dk)
    (hk : ∀ d, d < dims → kind dk d ≤ 2) :
    (gcCount source dk dims).2.1 = nl dk dims ∧ 0 < (gcCount source dk dims).2.2 ∧
      ∀ d, d < dims → kind dk d = PARAMETER → sEnt source (nv dk d) d ∣ (gcCount source dk dims).2.2 := by
  rw [gcCount_eq]
  have key := foldl_dimsDown_inv (gcCountStep source dk)
    (fun d st => st.1 = nv dk d ∧ st.2.1 = nl dk dims - nl dk d ∧ 0 < st.2.2 ∧
      ∀ d', d ≤ d' → d' < dims → kind dk d' = PARAMETER → sEnt source (nv dk d') d' ∣ st.2.2)
    dims (source.length, 0, 1) ?_ ?_
  · obtain ⟨_, h2, h3, h4⟩ := key
    refine ⟨?_, h3, fun d hd hp => h4 d (Nat.zero_le _) hd hp⟩
    rw [h2]; simp [nl, cntBelow]
  · exact ⟨hs.len, by simp, by simp, fun d' h1 h2 => by omega⟩
  · rintro d st hd ⟨i1, i2, i3, i4⟩
    have hm := cntBelow_mono (nlB dk) (show d + 1 ≤ dims from hd)
    unfold gcCountStep
    rcases kind_cases dk dims hk d hd with h0 | h0 | h0
    · -- PARAMETER
      have hv : nvB dk d = true := by simp [nvB, h0, GEN_VIRTUAL]
      have hl : nlB dk d = true := by simp [nlB, h0, LINE]
      have e1 := cntBelow_succ_pos (nvB dk) d hv
      have e2 := cntBelow_succ_pos (nlB dk) d hl
      have hsi : st.1 - 1 = nv dk d := by simp only [nv] at *; omega
      simp only [h0, GEN_VIRTUAL, PARAMETER, if_true, if_false, OfNat.zero_ne_ofNat]
      rw [hsi]
      have hpos := hs.diag d hd hv
      refine ⟨rfl, by simp only [nl] at *; omega, ?_, ?_⟩
      · simp only [lcmI]
        exact_mod_cast Int.lcm_pos (by omega) (by simp only [sEnt] at hpos; omega)
      · intro d' h1 h2 h3
        by_cases hdd : d' = d
        · subst hdd; exact Int.dvd_lcm_right _ _
        · exact Int.dvd_trans (i4 d' (by omega) h2 h3) (Int.dvd_lcm_left _ _)
    · -- LINE
      have hv : nvB dk d = true := by simp [nvB, h0, GEN_VIRTUAL]
      have hl : nlB dk d = false := by simp [nlB, h0, LINE]
      have e1 := cntBelow_succ_pos (nvB dk) d hv
      have e2 := cntBelow_succ_neg (nlB dk) d hl
      simp only [h0, GEN_VIRTUAL, PARAMETER, if_false, OfNat.one_ne_ofNat, one_ne_zero]
      refine ⟨by simp only [nv] at *; omega, by simp only [nl] at *; omega, i3, ?_⟩
      intro d' h1 h2 h3
      by_cases hdd : d' = d
      · subst hdd; rw [h0] at h3; exact absurd h3 (by simp [PARAMETER])
      · exact i4 d' (by omega) h2 h3
    · -- GEN_VIRTUAL
      have hv : nvB dk d = false := by simp [nvB, h0, GEN_VIRTUAL]
      have hl : nlB dk d = true := by simp [nlB, h0, LINE]
      have e1 := cntBelow_succ_neg (nvB dk) d hv
      have e2 := cntBelow_succ_pos (nlB dk) d hl
      simp only [h0, GEN_VIRTUAL, if_true]
      refine ⟨by simp only [nv] at *; omega, by simp only [nl] at *; omega, i3, ?_⟩
      intro d' h1 h2 h3
      by_cases hdd : d' = d
      · subst hdd; rw [h0] at h3; exact absurd h3 (by simp [PARAMETER])
      · exact i4 d' (by omega) h2 h3

/-! ### the initial `dest` -/

def gcInitStep (source : List GRow) (dk : List Nat) (dims : Nat) (diagonalLcm : Int) (st : Nat × List CRow) (dim : Nat) :
    Nat × List CRow :=
  if kind dk dim = LINE then (st.1 - 1, st.2)
  else
    let le : Row := List.replicate dims 0
    if kind dk dim = GEN_VIRTUAL then (st.1, st.2 ++ [{ e := le.set dim 1, m := 0 }])
    else
      let si := st.1 - 1
      (si, st.2 ++ [{ e := le.set dim (diagonalLcm / get (rowAt source si).e dim), m := 1 }])

theorem gcInit_eq (source : List GRow) (dk : List Nat) (dims : Nat) (l : Int) :
    gcInit source dk dims l = ((dimsDown dims).foldl (gcInitStep source dk dims l) (source.length, [])).2 := rfl

/-- a row `v·e_q` with modulus `m` -/
def UnitRow (dims : Nat) (c : CRow) (q : Nat) (v m : Int) : Prop :=
  c.m = m ∧ c.e.length = dims ∧ ∀ k, get c.e k = if k = q then v else 0

theorem gc_get_replicate_zero (dims k : Nat) : get (List.replicate dims (0 : Int)) k = 0 := by
  unfold get
  by_cases h : k < dims
  · simp [h]
  · simp [List.getElem?_eq_none (show (List.replicate dims (0 : Int)).length ≤ k by simp; omega)]

theorem unitRow_mk (dims q : Nat) (hq : q < dims) (v m : Int) :
    UnitRow dims { e := (List.replicate dims (0 : Int)).set q v, m := m } q v m := by
  refine ⟨rfl, by simp, ?_⟩
  intro k
  rw [get_set, gc_get_replicate_zero]
  by_cases h : k = q
  · simp [h, hq]
  · simp [h]

theorem gcInit_spec (source : List GRow) (dk : List Nat) (dims : Nat) (l : Int) (hs : SrcOK dims source dk)
    (hk : ∀ d, d < dims → kind dk d ≤ 2) :
    (gcInit source dk dims l).length = nl dk dims ∧
      ∀ q, q < dims → nlB dk q = true →
        (kind dk q = GEN_VIRTUAL → UnitRow dims (rowAt (gcInit source dk dims l) (pos dk dims q)) q 1 0) ∧
        (kind dk q = PARAMETER →
          UnitRow dims (rowAt (gcInit source dk dims l) (pos dk dims q)) q (l / sEnt source (nv dk q) q) 1) := by
  rw [gcInit_eq]
  have key := foldl_dimsDown_inv (gcInitStep source dk dims l)
    (fun d st => st.1 = nv dk d ∧ st.2.length = nl dk dims - nl dk d ∧
      ∀ q, d ≤ q → q < dims → nlB dk q = true →
        (kind dk q = GEN_VIRTUAL → UnitRow dims (rowAt st.2 (pos dk dims q)) q 1 0) ∧
        (kind dk q = PARAMETER → UnitRow dims (rowAt st.2 (pos dk dims q)) q (l / sEnt source (nv dk q) q) 1))
    dims (source.length, []) ?_ ?_
  · obtain ⟨_, h2, h3⟩ := key
    refine ⟨?_, fun q hq hl => h3 q (Nat.zero_le _) hq hl⟩
    rw [h2]; simp [nl, cntBelow]
  · exact ⟨hs.len, by simp, fun q h1 h2 => by omega⟩
  · rintro d st hd ⟨i1, i2, i3⟩
    have hm := cntBelow_mono (nlB dk) (show d + 1 ≤ dims from hd)
    unfold gcInitStep
    -- rows already there are kept
    have keep : ∀ (r : CRow) (q : Nat), d + 1 ≤ q → q < dims → nlB dk q = true →
        rowAt (st.2 ++ [r]) (pos dk dims q) = rowAt st.2 (pos dk dims q) := by
      intro r q h1 h2 h3
      rw [rowAt_append_one, if_pos]
      rw [i2]
      exact (pos_lt_iff dk dims q d h2 hd h3).mpr (by omega)
    have new : ∀ (r : CRow), rowAt (st.2 ++ [r]) (pos dk dims d) = r := by
      intro r
      rw [rowAt_append_one, i2]
      simp [pos]
    rcases kind_cases dk dims hk d hd with h0 | h0 | h0
    · -- PARAMETER
      have hv : nvB dk d = true := by simp [nvB, h0, GEN_VIRTUAL]
      have hl : nlB dk d = true := by simp [nlB, h0, LINE]
      have e1 := cntBelow_succ_pos (nvB dk) d hv
      have e2 := cntBelow_succ_pos (nlB dk) d hl
      have hsi : st.1 - 1 = nv dk d := by simp only [nv] at *; omega
      simp only [h0, GEN_VIRTUAL, LINE, if_false, OfNat.zero_ne_ofNat, zero_ne_one]
      rw [hsi]
      refine ⟨rfl, by simp only [List.length_append, List.length_cons, List.length_nil, nl] at *; omega, ?_⟩
      intro q h1 h2 h3
      by_cases hqd : q = d
      · subst hqd
        rw [new]
        exact ⟨fun hc => by rw [h0] at hc; exact absurd hc (by simp [GEN_VIRTUAL]), fun _ => unitRow_mk dims q hd _ _⟩
      · rw [keep _ q (by omega) h2 h3]
        exact i3 q (by omega) h2 h3
    · -- LINE
      have hv : nvB dk d = true := by simp [nvB, h0, GEN_VIRTUAL]
      have hl : nlB dk d = false := by simp [nlB, h0, LINE]
      have e1 := cntBelow_succ_pos (nvB dk) d hv
      have e2 := cntBelow_succ_neg (nlB dk) d hl
      simp only [h0, LINE, if_true]
      refine ⟨by simp only [nv] at *; omega, by simp only [nl] at *; omega, ?_⟩
      intro q h1 h2 h3
      by_cases hqd : q = d
      · subst hqd; rw [hl] at h3; exact absurd h3 (by simp)
      · exact i3 q (by omega) h2 h3
    · -- GEN_VIRTUAL
      have hv : nvB dk d = false := by simp [nvB, h0, GEN_VIRTUAL]
      have hl : nlB dk d = true := by simp [nlB, h0, LINE]
      have e1 := cntBelow_succ_neg (nvB dk) d hv
      have e2 := cntBelow_succ_pos (nlB dk) d hl
      simp only [h0, GEN_VIRTUAL, LINE, if_true, if_false, OfNat.ofNat_ne_one]
      refine ⟨by simp only [nv] at *; omega,
        by simp only [List.length_append, List.length_cons, List.length_nil, nl] at *; omega, ?_⟩
      intro q h1 h2 h3
      by_cases hqd : q = d
      · subst hqd
        rw [new]
        exact ⟨fun _ => unitRow_mk dims q hd _ _, fun hc => by rw [h0] at hc; exact absurd hc (by simp [PARAMETER])⟩
      · rw [keep _ q (by omega) h2 h3]
        exact i3 q (by omega) h2 h3

end PPLV.Lattice.Red
