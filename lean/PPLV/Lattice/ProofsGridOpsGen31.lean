import PPLV.Lattice.ProofsGridOpsGen30

/-!
# Generator side of the `Grid` object, part 31 — `Grid::relation_with(const Constraint&)` (Grid_public.cc:654, repaired code),
# the object

For an inequality the theorem assumes that the generator system the loop runs over has exactly one point row: with
further points the code rewrites them into parameters in place (`pointToParameter`), which is the open finding
KF-C05-16.  An equality goes through `relation_with(const Congruence&)`.
-/
namespace PPLV.Lattice.GO
open PPLV.Lattice PPLV.Lattice.Red

theorem gn_conRelOK_all3 (c : Con) : gn_ConRelOK Rel.all3 ∅ c :=
  ⟨gn_relOK_all3 _, fun _ x hx => absurd hx (Set.notMem_empty x), fun _ h => absurd h Set.not_nonempty_empty⟩

/-- an equality is handed to `relation_with(const Congruence&)` -/
theorem gn_relationWithCon_eq (g : Grid) (c : Con) (hd : c.spaceDim ≤ g.spaceDim) (hk : c.isEquality = true) :
    relationWithCon g c = relationWithCg g c.toCg := by
  unfold relationWithCon relationWithConV
  rw [if_neg (by omega), if_pos hk]

/-- **`relation_with(const Constraint&)` for an equality** -/
theorem gn_relationWithCon_equality (g : Grid) (hI : GridInv g) (c : Con) (hd : c.spaceDim ≤ g.spaceDim)
    (hk : c.isEquality = true) :
    GridInv (relationWithCon g c).1 ∧ (relationWithCon g c).1.sem = g.sem ∧
    (relationWithCon g c).1.spaceDim = g.spaceDim ∧
    ∃ rel, (relationWithCon g c).2 = some rel ∧ gn_RelOK rel g.sem (cn_conSet c) ∧
      (0 < g.spaceDim → g.sem.Nonempty → (rel.saturates = true ↔ rel.included = true)) := by
  rw [gn_relationWithCon_eq g c hd hk, ← cn_toCg_set c hk]
  obtain ⟨a, b, d, rel, e, ok, sat⟩ := gn_relationWithCg g hI c.toCg hd (le_refl _)
  refine ⟨a, b, d, rel, e, ok, fun h1 h2 => ?_⟩
  rw [sat h1 h2]
  exact ⟨fun h => h.1, fun h => ⟨h, rfl⟩⟩

/-- **`relation_with(const Constraint&)` for an inequality** in positive dimension, on a grid not marked empty whose
    generator system (after `update_generators()` if it was out of date) has exactly one point row: the invariant and
    the denotation are kept; `is_disjoint` ↔ no point of the grid satisfies the inequality, `is_included` ↔ all do,
    `strictly_intersects` ↔ neither; `saturates` only if the expression vanishes on the grid, and always then for a
    non-strict inequality on a non-empty grid -/
theorem gn_relationWithCon_ineq (g : Grid) (hI : GridInv g) (c : Con) (hd : c.spaceDim ≤ g.spaceDim)
    (hk : c.isEquality = false) (hn : 0 < g.spaceDim) (he : g.st.empty = false)
    (hone : (gn_incX g).2 = true → ((gn_incX g).1.gen.filter gn_isPt).length = 1) :
    GridInv (relationWithCon g c).1 ∧ (relationWithCon g c).1.sem = g.sem ∧
    (relationWithCon g c).1.spaceDim = g.spaceDim ∧
    ∃ rel, (relationWithCon g c).2 = some rel ∧ gn_ConRelOK rel g.sem c := by
  have hlen : c.e.length ≤ g.spaceDim + 1 := by unfold Con.spaceDim at hd; omega
  have hme : g.markedEmpty = false := he
  unfold relationWithCon relationWithConV
  rw [if_neg (by omega), if_neg (by rw [hk]; simp), hme, if_neg (by simp), if_neg (by omega)]
  simp only [show (if (!g.generatorsAreUpToDate) = true then updateGenerators g else (g, true)) = gn_incX g from rfl]
  obtain ⟨a, b, d, e, f⟩ := gn_incX_spec updateGenerators_spec g hI he hn
  cases h2 : (gn_incX g).2 with
  | false =>
    simp only [Bool.not_false, if_true]
    refine ⟨a, b, d, Rel.all3, rfl, ?_⟩
    rw [f h2]; exact gn_conRelOK_all3 c
  | true =>
    simp only [Bool.not_true, Bool.false_eq_true, if_false]
    obtain ⟨g1, g2⟩ := e h2
    obtain ⟨_, q, r, s⟩ := gn_sem_of_gUp a (by rw [d]; exact hn) g1 g2
    rw [d] at q r
    obtain ⟨rel, hloop, ok⟩ := gn_relCon_rows r q c hlen hk (hone h2)
    rw [← b, s]
    rcases hloop with ⟨el, erel⟩ | ⟨st, el, erel⟩
    · rw [el]
      exact ⟨a, s, d, Rel.si, rfl, by rw [← erel]; exact ok⟩
    · rw [el]
      simp only []
      unfold gn_conAnswer at erel
      by_cases hs : st.pointSaturates = true
      · rw [if_pos hs] at erel ⊢
        exact ⟨a, s, d, _, rfl, by rw [← erel]; exact ok⟩
      · rw [if_neg hs] at erel ⊢
        by_cases hi : st.pointIsIncluded = true
        · rw [if_pos hi] at erel ⊢
          exact ⟨a, s, d, _, rfl, by rw [← erel]; exact ok⟩
        · rw [if_neg hi] at erel ⊢
          exact ⟨a, s, d, _, rfl, by rw [← erel]; exact ok⟩

/-- the same for a grid whose generators are up to date: the hypothesis is about `g.gen` itself -/
theorem gn_relationWithCon_ineq_gUp (g : Grid) (hI : GridInv g) (c : Con) (hd : c.spaceDim ≤ g.spaceDim)
    (hk : c.isEquality = false) (hn : 0 < g.spaceDim) (he : g.st.empty = false) (hg : g.st.gUp = true)
    (hone : (g.gen.filter gn_isPt).length = 1) :
    (relationWithCon g c).1 = g ∧ ∃ rel, (relationWithCon g c).2 = some rel ∧ gn_ConRelOK rel g.sem c := by
  have hX : gn_incX g = (g, true) := by
    unfold gn_incX
    have : g.generatorsAreUpToDate = true := hg
    rw [this]; rfl
  obtain ⟨_, _, _, rel, e, ok⟩ := gn_relationWithCon_ineq g hI c hd hk hn he (fun _ => by rw [hX]; exact hone)
  refine ⟨?_, rel, e, ok⟩
  have hlen : c.e.length ≤ g.spaceDim + 1 := by unfold Con.spaceDim at hd; omega
  have hme : g.markedEmpty = false := he
  obtain ⟨_, q, r, _⟩ := gn_sem_of_gUp hI hn he hg
  obtain ⟨rel', hloop, _⟩ := gn_relCon_rows r q c hlen hk hone
  unfold relationWithCon relationWithConV
  rw [if_neg (by omega), if_neg (by rw [hk]; simp), hme, if_neg (by simp), if_neg (by omega)]
  simp only [show (if (!g.generatorsAreUpToDate) = true then updateGenerators g else (g, true)) = gn_incX g from rfl, hX]
  rcases hloop with ⟨el, _⟩ | ⟨st, el, _⟩
  · simp [el]
  · simp only [Bool.not_true, Bool.false_eq_true, if_false, el]
    split_ifs <;> rfl

/-- the hypotheses are satisfiable: the grid `{0}` of the line (one point row) and `x ≥ 1` -/
example : ∃ (g : Grid) (c : Con), GridInv g ∧ c.spaceDim ≤ g.spaceDim ∧ c.isEquality = false ∧ 0 < g.spaceDim ∧
    g.st.empty = false ∧ g.st.gUp = true ∧ (g.gen.filter gn_isPt).length = 1 :=
  ⟨{ spaceDim := 1, st := { gUp := true }, conDim := 1, con := [], genDim := 1, gen := [⟨false, [1, 0, 0]⟩], dk := [] },
   { kind := 1, inconsistent := false, tautological := false, e := [-1, 1] },
   (gn_inv_gens (D := 1) (by decide) rfl rfl rfl rfl rfl rfl rfl (by intro r hr; rw [List.mem_singleton.mp hr]; rfl)
      ⟨by decide, ⟨_, List.mem_singleton.mpr rfl, rfl, rfl⟩, by decide, by decide, by decide⟩).1,
   by decide, by decide, by decide, rfl, rfl, by decide⟩

end PPLV.Lattice.GO
