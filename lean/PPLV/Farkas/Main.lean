import PPLV.Farkas.Elim

/-!
# Farkas / Motzkin from the verified Fourier–Motzkin kernel, part 3: the two lemmas

* `farkas_infeasible` (Motzkin transposition): a system (strict rows allowed) over `n` variables
  without solution has multipliers accepted by K1's certificate checker `certInfeas` — the
  certificate search of `certify` is complete in principle.
* `farkas_implied` (affine Farkas): a non-strict row implied by a non-empty system of non-strict
  rows is, after scaling by a positive integer, a non-negative integer combination of the rows plus
  a non-negative constant.
Both are obtained constructively from K1's complete elimination (`refuted_of_infeasible`); no
appeal to convex separation.
-/
namespace PPLV.Farkas
open PPLV.Lin

/-- multipliers, in the vocabulary of `certInfeas` -/
theorem farkas_refutation (n : Nat) (cs : List Con) (hwf : WF n cs) (h : ¬ ∃ x, Sat cs x) :
    ∃ y : List Int, y.length = cs.length ∧ (∀ a ∈ y, 0 ≤ a) ∧
      ∃ K : Rat, (∀ x, wev cs y x = K) ∧ (K < 0 ∨ (K ≤ 0 ∧ 0 < strictWeight cs y)) := by
  obtain ⟨r, ⟨y, g, hg, hl, hy, he, hs⟩, K, hK, hsign⟩ := refuted_of_infeasible n cs hwf h
  have hg' : (0 : Rat) < (g : Rat) := by exact_mod_cast hg
  refine ⟨y, hl, hy, (g : Rat) * K, fun x => by rw [← he x, hK x], ?_⟩
  rcases hsign with hK0 | ⟨hK0, hst⟩
  · exact Or.inl (mul_neg_of_pos_of_neg hg' hK0)
  · exact Or.inr ⟨mul_nonpos_of_nonneg_of_nonpos (le_of_lt hg') hK0, hs hst⟩

/-- a linear form that vanishes everywhere has zero coefficients -/
theorem allZero_of_dot_zero (cf : List Int) (h : ∀ x, dot cf x = 0) : cf.all (· == 0) = true := by
  induction cf with
  | nil => rfl
  | cons a as ih =>
    have ha : a = 0 := by
      have := h (fun j => if j = 0 then 1 else 0)
      rw [dot_cons] at this
      have ht : Val.tail (fun j => if j = 0 then (1 : Rat) else 0) = Val.zero := by
        funext j; simp [Val.tail, Val.zero]
      rw [ht, dot_zero] at this
      simp only [if_true, mul_one, add_zero] at this
      exact_mod_cast this
    have hrest : ∀ x', dot as x' = 0 := by
      intro x'
      have := h (fun j => match j with | 0 => 0 | j + 1 => x' j)
      rw [dot_cons] at this
      have ht : Val.tail (fun j => match j with | 0 => (0 : Rat) | j + 1 => x' j) = x' := by
        funext j; rfl
      rw [ht] at this
      simpa using this
    simp [ha, ih hrest]

/-- **Motzkin transposition / Farkas, infeasibility**: no solution ⇒ a certificate exists that
    the (proved sound) checker `certInfeas` accepts. -/
theorem farkas_infeasible (n : Nat) (cs : List Con) (hwf : WF n cs) (h : ¬ ∃ x, Sat cs x) :
    ∃ y : List Int, certInfeas cs y = true := by
  obtain ⟨y, hl, hy, K, hK, hsign⟩ := farkas_refutation n cs hwf h
  refine ⟨y, ?_⟩
  have he := combineRows_eval cs y
  have hk : (((combineRows cs y).2 : Int) : Rat) = K := by
    have := he Val.zero
    rw [dot_zero, zero_add, hK] at this
    exact this
  have hz : (combineRows cs y).1.all (· == 0) = true := by
    apply allZero_of_dot_zero
    intro x
    have := he x
    rw [hK, hk] at this
    linarith
  unfold certInfeas
  simp only [Bool.and_eq_true, List.all_eq_true, decide_eq_true_eq, Bool.or_eq_true, beq_iff_eq]
  refine ⟨⟨hl, hy⟩, by simpa [List.all_eq_true] using hz, ?_⟩
  rcases hsign with hK0 | ⟨hK0, hsw⟩
  · left
    rw [← hk] at hK0
    exact_mod_cast hK0
  · right
    rw [← hk] at hK0
    exact ⟨by exact_mod_cast hK0, hsw⟩

/-- K1's emptiness in set form -/
theorem farkas_infeasible_sem (n : Nat) (cs : List Con) (hwf : WF n cs) (h : sem cs = ∅) :
    ∃ y : List Int, certInfeas cs y = true := by
  apply farkas_infeasible n cs hwf
  rintro ⟨x, hx⟩
  have : x ∈ sem cs := hx
  rw [h] at this
  exact this

/-- the certificate checker is now sound **and** complete -/
theorem certInfeas_complete (n : Nat) (cs : List Con) (hwf : WF n cs) :
    (∃ y : List Int, certInfeas cs y = true) ↔ ¬ ∃ x, Sat cs x :=
  ⟨fun ⟨y, hy⟩ => certInfeas_sound cs y hy, farkas_infeasible n cs hwf⟩

theorem eval_neg (c : Con) (x : Val) : c.neg.eval x = - c.eval x := by
  unfold Con.eval Con.neg
  simp only
  have : c.coeffs.map (- ·) = c.coeffs.map ((-1 : Int) * ·) := by
    apply List.map_congr_left; intro a _; ring
  rw [this, dot_map_mul]; push_cast; ring

/-- **affine Farkas lemma** (integer multipliers, scaled): if every point of the non-empty closed
    polyhedron `sem cs` satisfies the non-strict row `t`, then `y0 · t = Σ ys_i · cs_i + l0` as
    affine functions, with `y0 > 0`, `ys ≥ 0`, `l0 ≥ 0`. -/
theorem farkas_implied (n : Nat) (cs : List Con) (hwf : WF n cs) (hns : ∀ c ∈ cs, c.strict = false)
    (hne : ∃ x, Sat cs x) (t : Con) (ht : t.coeffs.length ≤ n) (hts : t.strict = false)
    (himp : ∀ x, Sat cs x → t.sat x) :
    ∃ (ys : List Int) (y0 : Int) (l0 : Rat), 0 < y0 ∧ ys.length = cs.length ∧ (∀ a ∈ ys, 0 ≤ a) ∧
      0 ≤ l0 ∧ ∀ x, (y0 : Rat) * t.eval x = wev cs ys x + l0 := by
  have hwf' : WF n (t.neg :: cs) := by
    intro d hd
    rcases List.mem_cons.mp hd with rfl | hd
    · rw [neg_length]; exact ht
    · exact hwf d hd
  have hinf : ¬ ∃ x, Sat (t.neg :: cs) x := by
    rintro ⟨x, hx⟩
    rw [Sat_cons] at hx
    exact (sat_neg_iff t x).mp hx.1 (himp x hx.2)
  obtain ⟨y, hl, hy, K, hK, hsign⟩ := farkas_refutation n _ hwf' hinf
  cases y with
  | nil => simp at hl
  | cons y0 ys =>
    have hl' : ys.length = cs.length := by simpa using hl
    have hy0 : 0 ≤ y0 := hy y0 (by simp)
    have hys : ∀ a ∈ ys, 0 ≤ a := fun a ha => hy a (by simp [ha])
    have hw : ∀ x, wev cs ys x - (y0 : Rat) * t.eval x = K := by
      intro x
      have := hK x
      simp only [wev, eval_neg] at this
      linarith
    have hsw : strictWeight (t.neg :: cs) (y0 :: ys) = y0 := by
      simp [strictWeight, Con.neg, hts, sw_nonstrict cs hns ys]
    obtain ⟨x0, hx0⟩ := hne
    have hK0 : K ≤ 0 := by
      rcases hsign with h | h
      · exact le_of_lt h
      · exact h.1
    have hpos : 0 < y0 := by
      rcases lt_or_eq_of_le hy0 with h | h
      · exact h
      · exfalso
        have hKneg : K < 0 := by
          rcases hsign with h' | h'
          · exact h'
          · rw [hsw] at h'; omega
        have h1 := hw x0
        rw [← h] at h1
        have h2 := (wev_nonneg cs ys x0 hx0 hys).1
        simp only [Int.cast_zero, zero_mul, sub_zero] at h1
        linarith
    refine ⟨ys, y0, -K, hpos, hl', hys, by linarith, fun x => ?_⟩
    have := hw x
    linarith

end PPLV.Farkas
