import PPLV.Farkas.Comb

/-!
# Farkas / Motzkin from the verified Fourier–Motzkin kernel, part 2: induction over K1's elimination

Every row that K1 ever derives from `cs` — by `elimAt` (plain cross-combination **and** the
equality-pinning fast path: both only produce `combine i l u` with `l.at i > 0 > u.at i`, or keep a
row with `at i = 0`), by `tidy0` (gcd normalisation = positive scaling; dropping trivially true rows
and duplicates) and by the certificate-based `pruneRows` (which only DROPS rows) — is a
non-negative combination of the rows of `cs` (`Comb`), and is independent of the variables
eliminated so far (`Indep`).  The one place where K1 *invents* a row (`tidy0` replaces a system
containing a trivially false row by `[falseRow]`) is exactly the place where a refutation has been
found: the invariant is "`cs` is refuted, or every current row is good".
-/
namespace PPLV.Farkas
open PPLV.Lin

/-- the rows of one elimination step -/
theorem mem_elimAt (i : Nat) (cs : List Con) (r : Con) (h : r ∈ elimAt i cs) :
    (r ∈ cs ∧ r.at i = 0) ∨
      ∃ l u, l ∈ cs ∧ u ∈ cs ∧ 0 < l.at i ∧ u.at i < 0 ∧ r = combine i l u := by
  unfold elimAt at h
  simp only at h
  split at h
  · rename_i l u heq
    obtain ⟨hl, hu, -, -, -⟩ := findEqPair_some _ _ _ _ _ heq
    simp only [List.mem_filter, decide_eq_true_eq] at hl hu
    simp only [List.mem_append, List.mem_map, List.mem_filter, decide_eq_true_eq] at h
    rcases h with (⟨hd, hz⟩ | ⟨p, ⟨hp, hpp⟩, rfl⟩) | ⟨q, ⟨hq, hqn⟩, rfl⟩
    · exact Or.inl ⟨hd, hz⟩
    · exact Or.inr ⟨p, u, hp, hu.1, hpp, hu.2, rfl⟩
    · exact Or.inr ⟨l, q, hl.1, hq, hl.2, hqn, rfl⟩
  · simp only [List.mem_append, List.mem_map, List.mem_filter, List.mem_flatMap,
      decide_eq_true_eq] at h
    rcases h with ⟨hd, hz⟩ | ⟨l, ⟨hl, hlp⟩, u, ⟨hu, hun⟩, rfl⟩
    · exact Or.inl ⟨hd, hz⟩
    · exact Or.inr ⟨l, u, hl, hu, hlp, hun, rfl⟩

/-- certified pruning only drops rows -/
theorem mem_pruneRows (n : Nat) (kept rest : List Con) (c : Con) (h : c ∈ pruneRows n kept rest) :
    c ∈ kept ∨ c ∈ rest := by
  induction rest generalizing kept with
  | nil => exact Or.inl (by simpa [pruneRows] using h)
  | cons d rest ih =>
    unfold pruneRows at h
    split at h
    · rcases ih kept h with h | h
      · exact Or.inl h
      · exact Or.inr (List.mem_cons_of_mem _ h)
    · rcases ih (kept ++ [d]) h with h | h
      · rcases List.mem_append.mp h with h | h
        · exact Or.inl h
        · exact Or.inr (by simp at h; simp [h])
      · exact Or.inr (List.mem_cons_of_mem _ h)

/-- a non-negative combination of the rows of `cs` is a constant that cannot be `≥ 0` / `> 0` -/
def Refuted (cs : List Con) : Prop :=
  ∃ r : Con, Comb cs r ∧ ∃ K : Rat, (∀ x, r.eval x = K) ∧ (K < 0 ∨ (K ≤ 0 ∧ r.strict = true))

/-- a derived row: combination of the original rows, independent of the eliminated variables -/
def Good (cs : List Con) (P : Nat → Prop) (r : Con) : Prop := Comb cs r ∧ ∀ i, P i → Indep i r

/-- the invariant of K1's elimination -/
def Inv (cs : List Con) (P : Nat → Prop) (ds : List Con) : Prop :=
  Refuted cs ∨ ∀ r ∈ ds, Good cs P r

theorem inv_mono (cs : List Con) (P Q : Nat → Prop) (ds : List Con) (hPQ : ∀ i, Q i → P i)
    (h : Inv cs P ds) : Inv cs Q ds := by
  rcases h with h | h
  · exact Or.inl h
  · exact Or.inr fun r hr => ⟨(h r hr).1, fun i hi => (h r hr).2 i (hPQ i hi)⟩

theorem inv_init (cs : List Con) : Inv cs (fun _ => False) cs :=
  Or.inr fun r hr => ⟨comb_mem cs r hr, fun _ hi => hi.elim⟩

/-- one Fourier–Motzkin step (both paths of `elimAt`) -/
theorem inv_elimAt (cs : List Con) (P : Nat → Prop) (ds : List Con) (i : Nat) (h : Inv cs P ds) :
    Inv cs (fun j => P j ∨ j = i) (elimAt i ds) := by
  rcases h with h | h
  · exact Or.inl h
  · refine Or.inr fun r hr => ?_
    rcases mem_elimAt i ds r hr with ⟨hd, hz⟩ | ⟨l, u, hl, hu, hlp, hun, rfl⟩
    · refine ⟨(h r hd).1, fun j hj => ?_⟩
      rcases hj with hj | rfl
      · exact (h r hd).2 j hj
      · exact indep_of_at_zero _ r hz
    · refine ⟨comb_combine cs i l u (h l hl).1 (h u hu).1 hlp hun, fun j hj => ?_⟩
      rcases hj with hj | rfl
      · exact indep_combine j i l u ((h l hl).2 j hj) ((h u hu).2 j hj)
      · exact indep_combine_self _ l u

/-- normalise / drop trivial rows / de-duplicate; a trivially false row is a refutation -/
theorem inv_tidy0 (cs : List Con) (P : Nat → Prop) (ds : List Con) (h : Inv cs P ds) :
    Inv cs P (tidy0 ds) := by
  rcases h with h | h
  · exact Or.inl h
  · unfold tidy0
    simp only
    split
    · rename_i hany
      simp only [List.any_eq_true, List.mem_map] at hany
      obtain ⟨c', ⟨c, hc, rfl⟩, hf⟩ := hany
      left
      obtain ⟨g, hg, he⟩ := eval_normalize_int c
      have hg' : (0 : Rat) < (g : Rat) := by exact_mod_cast hg
      unfold Con.trivFalse at hf
      simp only [Bool.and_eq_true, Bool.not_eq_true'] at hf
      refine ⟨c, (h c hc).1, (g : Rat) * (c.normalize.k : Rat), fun x => ?_, ?_⟩
      · rw [he x, eval_allZero _ hf.1]
      · have h2 := hf.2
        rw [normalize_strict] at h2
        cases hs : c.strict
        · simp only [hs, Bool.false_eq_true, if_false, decide_eq_false_iff_not, not_le] at h2
          left
          have : ((c.normalize.k : Int) : Rat) < 0 := by exact_mod_cast h2
          exact mul_neg_of_pos_of_neg hg' this
        · simp only [hs, if_true, decide_eq_false_iff_not, not_lt] at h2
          right
          have : ((c.normalize.k : Int) : Rat) ≤ 0 := by exact_mod_cast h2
          exact ⟨mul_nonpos_of_nonneg_of_nonpos (le_of_lt hg') this, rfl⟩
    · refine Or.inr fun r hr => ?_
      rw [mem_dedup] at hr
      simp only [List.mem_filter, List.mem_map] at hr
      obtain ⟨⟨d, hd, rfl⟩, -⟩ := hr
      exact ⟨comb_normalize cs d (h d hd).1, fun j hj => indep_normalize j d ((h d hd).2 j hj)⟩

theorem inv_subset (cs : List Con) (P : Nat → Prop) (ds es : List Con) (hsub : ∀ r ∈ es, r ∈ ds)
    (h : Inv cs P ds) : Inv cs P es := by
  rcases h with h | h
  · exact Or.inl h
  · exact Or.inr fun r hr => h r (hsub r hr)

/-- `tidy` = `tidy0` + certified pruning -/
theorem inv_tidy (cs : List Con) (P : Nat → Prop) (ds : List Con) (h : Inv cs P ds) :
    Inv cs P (tidy ds) := by
  unfold tidy
  simp only
  split
  · exact inv_tidy0 cs P ds h
  · refine inv_subset cs P (tidy0 ds) _ (fun r hr => ?_) (inv_tidy0 cs P ds h)
    rcases mem_pruneRows _ _ _ r hr with h | h
    · cases h
    · exact h

/-- iterated elimination -/
theorem inv_elimVars (cs : List Con) (js : List Nat) (P : Nat → Prop) (ds : List Con)
    (h : Inv cs P ds) : Inv cs (fun j => P j ∨ j ∈ js) (elimVars js ds) := by
  induction js generalizing P ds with
  | nil => exact inv_mono cs P _ ds (fun i hi => hi.elim id (fun h => by cases h)) h
  | cons i is ih =>
    simp only [elimVars]
    have h1 := inv_tidy cs _ _ (inv_elimAt cs P ds i h)
    refine inv_mono cs _ _ _ (fun j hj => ?_) (ih _ _ h1)
    rcases hj with hj | hj
    · exact Or.inl (Or.inl hj)
    · rcases List.mem_cons.mp hj with rfl | hj
      · exact Or.inl (Or.inr rfl)
      · exact Or.inr hj

/-! ### a good row of the fully eliminated system is a constant -/

/-- the first `k` coordinates set to `0` -/
def zeroTo (k : Nat) (x : Val) : Val := fun j => if j < k then 0 else x j

theorem zeroTo_zero (x : Val) : zeroTo 0 x = x := by
  funext j; simp [zeroTo]

theorem zeroTo_succ (k : Nat) (x : Val) : zeroTo (k + 1) x = (zeroTo k x).update k 0 := by
  funext j
  unfold zeroTo Val.update
  by_cases h1 : j = k
  · subst h1; simp
  · by_cases h2 : j < k
    · have : j < k + 1 := by omega
      simp [h1, h2, this]
    · have : ¬ j < k + 1 := by omega
      simp [h1, h2, this]

theorem eval_zeroTo (r : Con) (n : Nat) (hi : ∀ i < n, Indep i r) (x : Val) :
    ∀ k ≤ n, r.eval (zeroTo k x) = r.eval x := by
  intro k
  induction k with
  | zero => intro _; rw [zeroTo_zero]
  | succ k ih =>
    intro hk
    rw [zeroTo_succ, hi k (by omega), ih (by omega)]

theorem wev_agree (cs : List Con) (y : List Int) (x x' : Val) (h : ∀ c ∈ cs, c.eval x = c.eval x') :
    wev cs y x = wev cs y x' := by
  induction cs generalizing y with
  | nil => simp [wev]
  | cons c cs ih =>
    cases y with
    | nil => simp [wev]
    | cons a ys =>
      simp only [wev]
      rw [h c (by simp), ih ys (fun d hd => h d (by simp [hd]))]

theorem eval_const (n : Nat) (cs : List Con) (hwf : WF n cs) (r : Con) (hc : Comb cs r)
    (hi : ∀ i < n, Indep i r) (x : Val) : r.eval x = (r.k : Rat) := by
  obtain ⟨y, g, hg, -, -, he, -⟩ := hc
  have hg' : (g : Rat) ≠ 0 := by exact_mod_cast (ne_of_gt hg)
  have h1 : r.eval (zeroTo n x) = r.eval x := eval_zeroTo r n hi x n (le_refl _)
  have h2 : wev cs y (zeroTo n x) = wev cs y Val.zero := by
    apply wev_agree
    intro c hc
    unfold Con.eval
    rw [dot_agree c.coeffs (zeroTo n x) Val.zero]
    intro i hi
    have : i < n := lt_of_lt_of_le hi (hwf c hc)
    simp [zeroTo, this, Val.zero]
  have h3 : (g : Rat) * r.eval x = (g : Rat) * r.eval Val.zero := by
    rw [← h1, he, h2, ← he]
  rw [mul_left_cancel₀ hg' h3, eval_zero]

/-- **K1's complete Fourier–Motzkin procedure refutes an infeasible system by a combination.** -/
theorem refuted_of_infeasible (n : Nat) (cs : List Con) (hwf : WF n cs) (h : ¬ ∃ x, Sat cs x) :
    Refuted cs := by
  have hfm : ¬ feasibleFM n cs = true := fun hf => h ((feasibleFM_iff n cs hwf).mp hf)
  have hinv := inv_elimVars cs (List.range n) _ _ (inv_tidy cs _ _ (inv_init cs))
  rcases hinv with hr | hgood
  · exact hr
  · unfold feasibleFM constOK at hfm
    rw [List.all_eq_true] at hfm
    simp only [not_forall] at hfm
    obtain ⟨r, hr, hbad⟩ := hfm
    obtain ⟨hc, hind⟩ := hgood r hr
    have hconst : ∀ x, r.eval x = (r.k : Rat) :=
      eval_const n cs hwf r hc (fun i hi => hind i (Or.inr (List.mem_range.mpr hi)))
    refine ⟨r, hc, (r.k : Rat), hconst, ?_⟩
    cases hs : r.strict
    · rw [hs] at hbad
      have hb : ¬ (0 ≤ r.k) := by simpa using hbad
      left
      have : r.k < 0 := by omega
      exact_mod_cast this
    · rw [hs] at hbad
      have hb : ¬ (0 < r.k) := by simpa using hbad
      right
      have : r.k ≤ 0 := by omega
      exact ⟨by exact_mod_cast this, rfl⟩

end PPLV.Farkas
