import PPLV.Lin.Decide

/-!
# Farkas / Motzkin from the verified Fourier–Motzkin kernel, part 1: rows that are combinations

`Comb cs r`: a positive multiple of the row `r` is a non-negative **integer** combination of the
rows of `cs` (as affine functions), and if `r` is strict the combination puts positive weight on
a strict row of `cs`.  The multipliers are a list indexed like `cs` (`wev`, `strictWeight` of
`PPLV/Lin/CertProofs.lean`, `PPLV/Lin/Simplex.lean` — the very quantities `certInfeas` checks).
Rows are kept normalised by K1 (`Con.normalize` divides by the gcd), hence the positive scale
factor `g`; no rational arithmetic is needed.
-/
namespace PPLV.Farkas
open PPLV.Lin

/-- `a·y1 + b·y2`, pointwise -/
def lc (a b : Int) : List Int → List Int → List Int
  | p :: ps, q :: qs => (a * p + b * q) :: lc a b ps qs
  | _, _ => []

theorem length_lc (a b : Int) (y1 y2 : List Int) (h : y1.length = y2.length) :
    (lc a b y1 y2).length = y1.length := by
  induction y1 generalizing y2 with
  | nil => simp [lc]
  | cons p ps ih =>
    cases y2 with
    | nil => simp at h
    | cons q qs => simp only [lc, List.length_cons]; rw [ih qs (by simpa using h)]

theorem lc_nonneg (a b : Int) (ha : 0 ≤ a) (hb : 0 ≤ b) (y1 y2 : List Int)
    (h1 : ∀ p ∈ y1, 0 ≤ p) (h2 : ∀ q ∈ y2, 0 ≤ q) : ∀ p ∈ lc a b y1 y2, 0 ≤ p := by
  induction y1 generalizing y2 with
  | nil => intro p hp; simp [lc] at hp
  | cons p ps ih =>
    cases y2 with
    | nil => intro p hp; simp [lc] at hp
    | cons q qs =>
      intro z hz
      simp only [lc, List.mem_cons] at hz
      rcases hz with rfl | hz
      · have := h1 p (by simp); have := h2 q (by simp)
        exact add_nonneg (mul_nonneg ha ‹0 ≤ p›) (mul_nonneg hb ‹0 ≤ q›)
      · exact ih qs (fun p hp => h1 p (by simp [hp])) (fun q hq => h2 q (by simp [hq])) z hz

theorem wev_lc (cs : List Con) (a b : Int) (y1 y2 : List Int)
    (h1 : y1.length = cs.length) (h2 : y2.length = cs.length) (x : Val) :
    wev cs (lc a b y1 y2) x = (a : Rat) * wev cs y1 x + (b : Rat) * wev cs y2 x := by
  induction cs generalizing y1 y2 with
  | nil => simp [wev]
  | cons c cs ih =>
    cases y1 with
    | nil => simp at h1
    | cons p ps =>
      cases y2 with
      | nil => simp at h2
      | cons q qs =>
        simp only [lc, wev, ih ps qs (by simpa using h1) (by simpa using h2)]
        push_cast; ring

theorem sw_lc (cs : List Con) (a b : Int) (y1 y2 : List Int)
    (h1 : y1.length = cs.length) (h2 : y2.length = cs.length) :
    strictWeight cs (lc a b y1 y2) = a * strictWeight cs y1 + b * strictWeight cs y2 := by
  induction cs generalizing y1 y2 with
  | nil => simp [strictWeight]
  | cons c cs ih =>
    cases y1 with
    | nil => simp at h1
    | cons p ps =>
      cases y2 with
      | nil => simp at h2
      | cons q qs =>
        simp only [lc, strictWeight, ih ps qs (by simpa using h1) (by simpa using h2)]
        split <;> ring

theorem sw_nonneg (cs : List Con) (y : List Int) (hy : ∀ a ∈ y, 0 ≤ a) : 0 ≤ strictWeight cs y := by
  induction cs generalizing y with
  | nil => simp [strictWeight]
  | cons c cs ih =>
    cases y with
    | nil => simp [strictWeight]
    | cons a ys =>
      simp only [strictWeight]
      have h0 := hy a (by simp)
      have hr := ih ys (fun b hb => hy b (by simp [hb]))
      split <;> omega

theorem wev_replicate_zero (cs : List Con) (k : Nat) (x : Val) : wev cs (List.replicate k 0) x = 0 := by
  induction cs generalizing k with
  | nil => simp [wev]
  | cons c cs ih =>
    cases k with
    | zero => simp [wev]
    | succ k => simp [List.replicate_succ, wev, ih k]

theorem sw_replicate_zero (cs : List Con) (k : Nat) : strictWeight cs (List.replicate k 0) = 0 := by
  induction cs generalizing k with
  | nil => simp [strictWeight]
  | cons c cs ih =>
    cases k with
    | zero => simp [strictWeight]
    | succ k => simp [List.replicate_succ, strictWeight, ih k]

/-- a system without strict rows has strict weight `0` -/
theorem sw_nonstrict (cs : List Con) (hns : ∀ c ∈ cs, c.strict = false) (y : List Int) :
    strictWeight cs y = 0 := by
  induction cs generalizing y with
  | nil => simp [strictWeight]
  | cons c cs ih =>
    cases y with
    | nil => simp [strictWeight]
    | cons a ys =>
      simp only [strictWeight, hns c (by simp), Bool.false_eq_true, if_false, zero_add]
      exact ih (fun d hd => hns d (by simp [hd])) ys

/-- a positive multiple of `r` is a non-negative integer combination of the rows of `cs`, with
    positive weight on a strict row when `r` is strict -/
def Comb (cs : List Con) (r : Con) : Prop :=
  ∃ (y : List Int) (g : Int), 0 < g ∧ y.length = cs.length ∧ (∀ a ∈ y, 0 ≤ a) ∧
    (∀ x, (g : Rat) * r.eval x = wev cs y x) ∧ (r.strict = true → 0 < strictWeight cs y)

theorem comb_cons (d : Con) (ds : List Con) (r : Con) (h : Comb ds r) : Comb (d :: ds) r := by
  obtain ⟨y, g, hg, hl, hy, he, hs⟩ := h
  refine ⟨0 :: y, g, hg, by simp [hl], ?_, ?_, ?_⟩
  · intro a ha
    rcases List.mem_cons.mp ha with rfl | ha
    · exact le_refl _
    · exact hy a ha
  · intro x; simp [wev, he x]
  · intro hr; simpa [strictWeight] using hs hr

/-- every row of the system is a combination (unit multipliers) -/
theorem comb_mem (cs : List Con) (r : Con) (h : r ∈ cs) : Comb cs r := by
  induction cs with
  | nil => cases h
  | cons d ds ih =>
    by_cases hrd : r = d
    · subst hrd
      refine ⟨1 :: List.replicate ds.length 0, 1, one_pos, by simp, ?_, ?_, ?_⟩
      · intro a ha
        rcases List.mem_cons.mp ha with rfl | ha
        · exact zero_le_one
        · rw [List.eq_of_mem_replicate ha]
      · intro x; simp [wev, wev_replicate_zero]
      · intro hr; simp [strictWeight, hr, sw_replicate_zero]
    · rcases List.mem_cons.mp h with h | h
      · exact absurd h hrd
      · exact comb_cons d ds r (ih h)

/-- non-negative combination of two combinations -/
theorem comb_lin (cs : List Con) (l u r : Con) (hl : Comb cs l) (hu : Comb cs u)
    (G a b : Int) (hG : 0 < G) (ha : 0 ≤ a) (hb : 0 ≤ b)
    (he : ∀ x, (G : Rat) * r.eval x = (a : Rat) * l.eval x + (b : Rat) * u.eval x)
    (hs : r.strict = true → (l.strict = true ∧ 0 < a) ∨ (u.strict = true ∧ 0 < b)) : Comb cs r := by
  obtain ⟨yl, gl, hgl, hll, hyl, hel, hsl⟩ := hl
  obtain ⟨yu, gu, hgu, hlu, hyu, heu, hsu⟩ := hu
  have hagu : 0 ≤ a * gu := mul_nonneg ha (le_of_lt hgu)
  have hbgl : 0 ≤ b * gl := mul_nonneg hb (le_of_lt hgl)
  refine ⟨lc (a * gu) (b * gl) yl yu, G * gl * gu, mul_pos (mul_pos hG hgl) hgu, ?_, ?_, ?_, ?_⟩
  · rw [length_lc _ _ _ _ (hll.trans hlu.symm), hll]
  · exact lc_nonneg _ _ hagu hbgl yl yu hyl hyu
  · intro x
    rw [wev_lc cs _ _ yl yu hll hlu, ← hel x, ← heu x]
    have := he x
    push_cast
    calc (G : Rat) * gl * gu * r.eval x = gl * gu * ((G : Rat) * r.eval x) := by ring
      _ = gl * gu * ((a : Rat) * l.eval x + (b : Rat) * u.eval x) := by rw [this]
      _ = _ := by ring
  · intro hr
    rw [sw_lc cs _ _ yl yu hll hlu]
    have n1 := sw_nonneg cs yl hyl
    have n2 := sw_nonneg cs yu hyu
    rcases hs hr with ⟨hls, hapos⟩ | ⟨hus, hbpos⟩
    · have : 0 < a * gu * strictWeight cs yl := mul_pos (mul_pos hapos hgu) (hsl hls)
      have : 0 ≤ b * gl * strictWeight cs yu := mul_nonneg hbgl n2
      omega
    · have : 0 < b * gl * strictWeight cs yu := mul_pos (mul_pos hbpos hgl) (hsu hus)
      have : 0 ≤ a * gu * strictWeight cs yl := mul_nonneg hagu n1
      omega

/-- the Fourier–Motzkin combination of two combinations -/
theorem comb_combine (cs : List Con) (i : Nat) (l u : Con) (hl : Comb cs l) (hu : Comb cs u)
    (hlp : 0 < l.at i) (hun : u.at i < 0) : Comb cs (combine i l u) := by
  refine comb_lin cs l u _ hl hu 1 (-(u.at i)) (l.at i) one_pos (by omega) (by omega) ?_ ?_
  · intro x; rw [eval_combine]; simp
  · intro hr
    have : (l.strict || u.strict) = true := hr
    rcases Bool.or_eq_true_iff.mp this with h | h
    · exact Or.inl ⟨h, by omega⟩
    · exact Or.inr ⟨h, hlp⟩

/-- integer form of `eval_normalize` -/
theorem eval_normalize_int (c : Con) :
    ∃ g : Int, 0 < g ∧ ∀ x, c.eval x = (g : Rat) * c.normalize.eval x := by
  unfold Con.normalize
  simp only
  split
  · exact ⟨1, one_pos, fun x => by simp⟩
  · rename_i hg
    set g := Nat.gcd (gcdList c.coeffs) c.k.natAbs with hgdef
    have hgpos : 0 < g := by omega
    refine ⟨(g : Int), by exact_mod_cast hgpos, fun x => ?_⟩
    have hdc : ∀ a ∈ c.coeffs, (g : Int) ∣ a := fun a ha =>
      dvd_trans (Int.natCast_dvd_natCast.mpr (Nat.gcd_dvd_left _ _)) (gcdList_dvd _ a ha)
    have hdk : (g : Int) ∣ c.k := Int.natCast_dvd.mpr (Nat.gcd_dvd_right _ _)
    unfold Con.eval
    simp only
    rw [mul_add]
    have h1 := dot_map_div (g : Int) c.coeffs hdc x
    rw [h1]
    congr 1
    obtain ⟨q, hq⟩ := hdk
    have hgne : (g : Int) ≠ 0 := by exact_mod_cast (Nat.pos_iff_ne_zero.mp hgpos)
    rw [hq, Int.mul_ediv_cancel_left _ hgne]; push_cast; ring

theorem comb_normalize (cs : List Con) (c : Con) (h : Comb cs c) : Comb cs c.normalize := by
  obtain ⟨g, hg, he⟩ := eval_normalize_int c
  refine comb_lin cs c c _ h h g 1 0 hg zero_le_one (le_refl _) ?_ ?_
  · intro x; rw [he x]; simp
  · intro hr; rw [normalize_strict] at hr; exact Or.inl ⟨hr, one_pos⟩

/-! ### rows that do not depend on a variable -/

/-- the value of the row does not depend on variable `i` -/
def Indep (i : Nat) (r : Con) : Prop := ∀ x v, r.eval (x.update i v) = r.eval x

theorem indep_of_at_zero (i : Nat) (r : Con) (h : r.at i = 0) : Indep i r := by
  intro x v; rw [eval_update, h]; simp

theorem indep_combine_self (i : Nat) (l u : Con) : Indep i (combine i l u) := by
  intro x v
  rw [eval_combine, eval_combine, eval_update, eval_update]
  push_cast; ring

theorem indep_combine (i j : Nat) (l u : Con) (hl : Indep i l) (hu : Indep i u) :
    Indep i (combine j l u) := by
  intro x v
  rw [eval_combine, eval_combine, hl x v, hu x v]

theorem indep_normalize (i : Nat) (c : Con) (h : Indep i c) : Indep i c.normalize := by
  obtain ⟨g, hg, he⟩ := eval_normalize_int c
  intro x v
  have h1 := he (x.update i v)
  have h2 := he x
  rw [h x v, h2] at h1
  have hg' : (g : Rat) ≠ 0 := by exact_mod_cast (ne_of_gt hg)
  exact (mul_left_cancel₀ hg' h1).symm

end PPLV.Farkas
