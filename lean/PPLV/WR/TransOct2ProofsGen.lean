import PPLV.WR.TransOct2Gen
import PPLV.WR.TransOctProofsExploit
import PPLV.WR.TransProofsRefine
/-!
# `Octagonal_Shape<T>::generalized_affine_image(var, …)`: the general case (one sum, accumulated with `break`)
-/
set_option linter.unusedVariables false
set_option linter.unusedSimpArgs false
set_option linter.unusedSectionVars false
set_option linter.unusedTactic false
namespace PPLV.WR
open ExtRat

section
variable {R : Rnd} {m : Mat} {w : Nat} {g : Nat → Int} {B : Rat} {k : Nat} {st : Acc}

theorem octAccStepG_inv (hR : R.Sound) (hcoef : CoeffExact R g) (h : OAccInv R.up m w g B k st) (hk : k < w) :
    OAccInv R.up m w g B (k+1) (octAccStepG R m g true k st) := by
  unfold octAccStepG
  dsimp only
  split
  · rename_i hc; exact OAccInv.dead hc
  · split
    · rename_i h0; exact h.skip h0
    · rename_i hc h0
      have happ : (if decide (g k > 0) = true then m (2 * k + 1) (2 * k) else m (2 * k) (2 * k + 1))
          = duaOf m g k := by
        unfold duaOf; by_cases hp : g k > 0 <;> simp [hp]
      rw [happ]
      cases hA : duaOf m g k with
      | pinf =>
        simp only [isPinf, if_true]
        split
        · rename_i h2; exact OAccInv.dead (by simpa using h2)
        · exact h.pinf hk h0
      | fin A =>
        simp only [isPinf, Bool.false_eq_true, if_false]
        have := h.addMul hR hk h0 (hcoef k h0) (by rw [hA]; simp)
        rw [hA] at this
        exact this

theorem octAccLoopG_inv (hR : R.Sound) (hcoef : CoeffExact R g) (st0 : Acc) (h0 : OAccInv R.up m w g B 0 st0) :
    ∀ k, k ≤ w → OAccInv R.up m w g B k (loopUp k (octAccStepG R m g true) st0) := by
  intro k
  induction k with
  | zero => intro _; exact h0
  | succ k ih => intro hk; simp only [loopUp]; exact octAccStepG_inv hR hcoef (ih (by omega)) (by omega)

end

theorem octAccStepG_false (R : Rnd) (m : Mat) (sc : Nat → Int) :
    octAccStepG R m sc false = octAccStepG R m (fun j => - sc j) true := by
  funext i st
  unfold octAccStepG
  dsimp only
  rcases lt_trichotomy (sc i) 0 with h | h | h
  · have h1 : ¬ sc i = 0 := by omega
    have h2 : ¬ - sc i = 0 := by omega
    have h3 : ¬ sc i > 0 := by omega
    have h4 : - sc i > 0 := by omega
    simp only [h1, h2, h3, h4, absI_neg, if_false, decide_false, decide_true, if_true]
  · simp [h]
  · have h1 : ¬ sc i = 0 := by omega
    have h2 : ¬ - sc i = 0 := by omega
    have h3 : sc i > 0 := by omega
    have h4 : ¬ - sc i > 0 := by omega
    simp only [h1, h2, h3, h4, absI_neg, if_false, decide_false, decide_true, if_true]
    simp

/-- `pinf_index` is assigned only when `pinf_count` becomes `1` -/
theorem octAccLoopG_idx0 (R : Rnd) (m : Mat) (sc : Nat → Int) (pos : Bool) (s0 : ExtRat) (k : Nat) :
    (loopUp k (octAccStepG R m sc pos) ⟨s0, 0, 0⟩).cnt = 0 →
    (loopUp k (octAccStepG R m sc pos) ⟨s0, 0, 0⟩).idx = 0 := by
  induction k with
  | zero => intro _; rfl
  | succ k ih =>
    simp only [loopUp]
    generalize loopUp k (octAccStepG R m sc pos) ⟨s0, 0, 0⟩ = st at ih ⊢
    unfold octAccStepG
    dsimp only
    split
    · exact ih
    · split
      · exact ih
      · generalize (if decide (sc k > 0) = pos then m (2 * k + 1) (2 * k) else m (2 * k) (2 * k + 1)) = dua
        by_cases hp : dua.isPinf = true
        · rw [if_pos hp]
          split <;> (intro h; simp at h)
        · rw [if_neg hp]
          exact ih

/-! ## the tests on `expr` / `denominator` are the tests on `sc_expr` / `sc_denom` -/

theorem octScTests {e : Nat → Int} {den : Int} (hden : den ≠ 0) (i : Nat) :
    (e i = den ↔ scExpr e den i = (if den > 0 then den else - den)) ∧
    (e i = - den ↔ scExpr e den i = - (if den > 0 then den else - den)) := by
  unfold scExpr
  split <;> constructor <;> constructor <;> intro h <;> omega

theorem octGenExploitUpper_eq {R : Rnd} {vid wid : Nat} {e : Nat → Int} {den : Int} {sc : Nat → Int} {scd : Int}
    (hsc : ∀ i, (e i = den ↔ sc i = scd) ∧ (e i = - den ↔ sc i = - scd)) {pos : Acc} (hc : pos.cnt ≤ 1) (m : Mat) :
    octGenExploitUpper R vid wid e den sc scd pos m = octExploitUpper R vid wid sc scd pos m := by
  unfold octGenExploitUpper octExploitUpper
  dsimp only
  rw [if_pos hc]
  simp only [(hsc _).1, (hsc _).2]

theorem octGenExploitLower_eq {R : Rnd} {vid wid : Nat} {e : Nat → Int} {den : Int} {sc : Nat → Int} {scd : Int}
    (hsc : ∀ i, (e i = den ↔ sc i = scd) ∧ (e i = - den ↔ sc i = - scd)) {neg : Acc} (hc : neg.cnt = 1) (m : Mat) :
    octGenExploitLower R vid wid e den sc scd neg m = octExploitLower R vid wid sc scd neg m := by
  unfold octGenExploitLower octExploitLower
  dsimp only
  rw [if_pos (show neg.cnt ≤ 1 by omega)]
  simp only [if_neg (show ¬ neg.cnt = 0 by omega)]
  simp only [(hsc _).1, (hsc _).2]

/-! ## `deduce_minus_v_pm_u_bounds` called with `last_id = 0` -/

theorem octDeduceMinusVPmU_zero_eq (up : Rat → ExtRat) (vid wid : Nat) (e : Nat → Int) (d : Int) (s : ExtRat) (m : Mat) :
    deduceMinusVPmU up vid 0 e d s m
      = deduceMinusVPmU up vid wid (fun i => if i = 0 then e 0 else 0) d s m := by
  unfold deduceMinusVPmU
  induction wid with
  | zero =>
    simp only [loopUp]
    unfold deduceMinusVPmUStep
    simp
  | succ k ih =>
    rw [ih]
    conv => rhs; rw [loopUp]
    generalize loopUp (k + 1) _ m = m'
    unfold deduceMinusVPmUStep
    simp

theorem octLinEval_point_congr (e : Nat → Int) {y x : Nat → Rat} {k : Nat} (h : ∀ i, i < k → e i ≠ 0 → y i = x i) :
    linEval e y k = linEval e x k := by
  induction k with
  | zero => rfl
  | succ k ih =>
    simp only [linEval]
    rw [ih (fun i hi => h i (by omega))]
    by_cases h0 : e k = 0
    · rw [h0]; simp
    · rw [h k (by omega) h0]

section
variable {R : Rnd} {n vid wid : Nat} {m0 : Mat} {sc : Nat → Int} {scd : Int} {Bq tval : Rat} {x : Nat → Rat}

/-- `olower_deduce` for the call with `last_id = 0` -/
theorem octLower_deduce0 (hR : R.Sound) (hh : HalfFiniteOn R.up m0) (hw : wid < n) (hd : 0 < scd)
    (hx : Holds (SO n) (OctM.oval x) m0) (htv : (linEval sc x (wid + 1) + Bq) / scd ≤ tval)
    {m' : Mat} (hx' : Holds (SO n) (OctM.oval (upd x vid tval)) m') (hun : OUnaryEq vid m' m0)
    {sum : ExtRat}
    (hc0 : ∀ y, OBox R.up m0 (wid + 1) y → fin (-Bq + linEval (fun i => - sc i) y (wid + 1)) ≤ sum)
    (hfp : ∀ i, i < wid + 1 → - sc i > 0 → m0 (2 * i + 1) (2 * i) ≠ pinf)
    (hfn : ∀ i, i < wid + 1 → - sc i < 0 → m0 (2 * i) (2 * i + 1) ≠ pinf)
    {s : ExtRat} (hs : ∀ S' : Rat, fin S' ≤ sum → fin (S' / (scd : Rat)) ≤ s) :
    Holds (SO n) (OctM.oval (upd x vid tval)) (deduceMinusVPmU R.up vid 0 sc scd s m') := by
  cases s with
  | pinf =>
    have hh' : ∀ u, u ≠ vid → ∀ q, (m' (2 * u + 1) (2 * u) = fin q ∨ m' (2 * u) (2 * u + 1) = fin q) →
        R.up (q / 2) ≠ pinf := by
      intro u huv q hq
      rw [(hun u huv).1, (hun u huv).2] at hq; exact hh u q hq
    exact deduceMinusVPmU_pinf_holds hh' hx'
      (fun u hu huv hp => by rw [(hun u huv).2]; exact hfn u (by omega) (by omega))
      (fun u hu huv hp => by rw [(hun u huv).1]; exact hfp u (by omega) (by omega))
  | fin c =>
    rw [octDeduceMinusVPmU_zero_eq R.up vid wid]
    have hxbox := obox_of_holds hR hx (w := wid + 1) (by omega)
    have hsplit : ∀ z : Nat → Rat, linEval sc z (wid + 1)
        = linEval (fun t => if t = 0 then 0 else sc t) z (wid + 1) + (sc 0 : Rat) * z 0 := by
      intro z
      rw [linEval_extract sc z 0 (wid + 1), if_pos (by omega)]
    have hsc0 : ∀ z : Nat → Rat, linEval (fun i => if i = 0 then sc 0 else 0) z (wid + 1) = (sc 0 : Rat) * z 0 := by
      intro z
      rw [linEval_support1 _ z (a := 0) (by omega)]
      · simp
      · intro t _ ht; simp [ht]
    refine deduceMinusVPmU_holds (b := Bq + linEval (fun t => if t = 0 then 0 else sc t) x (wid + 1))
      hR.up_le hd hw hx' (upd_frame x vid tval) ?_ ?_
    · rw [hsc0]
      have : upd x vid tval vid = tval := by simp [upd]
      rw [this]
      have := hsplit x
      have e1 : (sc 0 : Rat) * x 0 + (Bq + linEval (fun t => if t = 0 then 0 else sc t) x (wid + 1))
          = linEval sc x (wid + 1) + Bq := by rw [this]; ring
      rw [e1]; exact htv
    · intro y hyv hyb
      rw [hsc0]
      -- the point with coordinate `0` of `y`, the others of `x`
      let y2 : Nat → Rat := fun i => if i = 0 then y 0 else x i
      have hbox : OBox R.up m0 (wid + 1) y2 := by
        intro i hi
        by_cases hi0 : i = 0
        · subst hi0
          show fin (y 0) ≤ _ ∧ fin (-(y 0)) ≤ _
          by_cases hiv : 0 = vid
          · rw [hiv, hyv]; exact hxbox vid (by omega)
          · have := hyb 0 (by omega) hiv
            rw [(hun 0 hiv).1, (hun 0 hiv).2] at this
            exact this
        · show fin (if i = 0 then y 0 else x i) ≤ _ ∧ fin (-(if i = 0 then y 0 else x i)) ≤ _
          rw [if_neg hi0]; exact hxbox i hi
      have hy2 : linEval sc y2 (wid + 1)
          = (sc 0 : Rat) * y 0 + linEval (fun t => if t = 0 then 0 else sc t) x (wid + 1) := by
        rw [hsplit y2]
        have : linEval (fun t => if t = 0 then 0 else sc t) y2 (wid + 1)
            = linEval (fun t => if t = 0 then 0 else sc t) x (wid + 1) := by
          refine octLinEval_point_congr _ (fun i hi hne => ?_)
          by_cases hi0 : i = 0
          · simp [hi0] at hne
          · show (if i = 0 then y 0 else x i) = x i
            rw [if_neg hi0]
        rw [this]
        show _ + (sc 0 : Rat) * (if (0 : Nat) = 0 then y 0 else x 0) = _
        rw [if_pos rfl]; ring
      have := hs _ (hc0 y2 hbox)
      rw [linEval_neg, hy2] at this
      have e1 : (-Bq + -((sc 0 : Rat) * y 0 + linEval (fun t => if t = 0 then 0 else sc t) x (wid + 1))) / (scd : Rat)
          = -(((sc 0 : Rat) * y 0 + (Bq + linEval (fun t => if t = 0 then 0 else sc t) x (wid + 1))) / scd) := by
        ring
      rw [e1] at this
      exact fin_le_fin.1 this

/-- `octGenExploitLower` keeps the new point -/
theorem octGenExploitLower_holds (hR : R.Sound) (hh : HalfFiniteOn R.up m0) (hw : wid < n) (hd : 0 < scd)
    {e : Nat → Int} {den : Int} (hsc : ∀ i, (e i = den ↔ sc i = scd) ∧ (e i = - den ↔ sc i = - scd))
    (hx : Holds (SO n) (OctM.oval x) m0) (htv : (linEval sc x (wid + 1) + Bq) / scd ≤ tval)
    {m1 : Mat} (hx' : Holds (SO n) (OctM.oval (upd x vid tval)) m1) (hun : OUnaryEq vid m1 m0)
    {neg : Acc} (hinv : OAccInv R.up m0 (wid + 1) (fun i => - sc i) (-Bq) (wid + 1) neg) (hc : neg.cnt ≤ 1)
    (hidx : neg.cnt = 0 → neg.idx = 0) :
    Holds (SO n) (OctM.oval (upd x vid tval)) (octGenExploitLower R vid wid e den sc scd neg m1) := by
  by_cases h0 : neg.cnt = 0
  · unfold octGenExploitLower
    dsimp only
    rw [if_pos h0, hidx h0]
    have hs : ∀ S' : Rat, fin S' ≤ neg.sum →
        fin (S' / (scd : Rat)) ≤ (if scd ≠ 1 then divRoundUpByPositive R neg.sum scd else neg.sum) :=
      fun S' h => fin_le_quot hR hd h
    refine octLower_deduce0 hR hh hw hd hx htv ?_ ?_ (hinv.c0 h0) (hinv.f0p h0) (hinv.f0n h0) hs
    · refine holds_set hx' (fun _ => ?_)
      rw [oval_upd_v, oval_upd_cv]
      have := hs _ (hinv.c0 h0 x (obox_of_holds hR hx (by omega)))
      rw [linEval_neg] at this
      have e1 : (-Bq + -linEval sc x (wid + 1)) / (scd : Rat) = -((linEval sc x (wid + 1) + Bq) / scd) := by ring
      rw [e1] at this
      have h2 := fin_le_mulTwoUp hR.up_le (le_trans' (fin_le_fin.2 (by linarith : -tval ≤ _)) this)
      have e : -tval - tval = 2 * -tval := by ring
      rw [e]; exact h2
    · intro u hu
      simp only [Mat.set_apply]
      rw [if_neg (by omega), if_neg (by omega)]
      exact hun u hu
  · rw [octGenExploitLower_eq hsc (by omega)]
    exact octExploitLower_holds hR hh hw hd hx htv hx' hun hinv

end

/-! ## the general case -/

theorem octGenAffineImageGeneral_sound {R : Rnd} (hR : R.Sound) {n vid : Nat} (hv : vid < n)
    {e : Nat → Int} (hc : CoeffExact R e) {b den : Int} (hden : den ≠ 0) {m : Mat}
    (hh : HalfFiniteOn R.up m) {x : Nat → Rat} (hx : Holds (SO n) (OctM.oval x) m)
    (h0 : ¬ exprT e (lastNonzero e n) = 0) (isLe : Bool) {t : Rat}
    (ht : if isLe then t ≤ (linEval e x n + b) / den else (linEval e x n + b) / den ≤ t) :
    Holds (SO n) (OctM.oval (upd x vid t))
      (octGenAffineImageGeneral R n vid (lastNonzero e n - 1) isLe e b den m).1 := by
  have hw0 : lastNonzero e n ≠ 0 := by
    intro h; apply h0; unfold exprT; rw [if_pos h]
  have hwn := lastNonzero_le e n
  have hval := sc_value e x n b den
  have hw1 : lastNonzero e n = (lastNonzero e n - 1) + 1 := by omega
  rw [hw1] at hval
  generalize lastNonzero e n - 1 = wid at *
  have hw : wid < n := by omega
  have hd := scDen_pos hden
  have hsc := octScTests (e := e) hden
  have hx1 := holds_octForgetAll hv hx t
  unfold octGenAffineImageGeneral
  dsimp only
  cases isLe with
  | true =>
    simp only [↓reduceIte]
    have hpos := octAccLoopG_inv hR (hc.sc den) _
      (OAccInv.init hR m (wid + 1) (scExpr e den) (rfl : ((if den > 0 then b else - b : Int) : Rat) = _)) _ le_rfl
    generalize loopUp (wid + 1) (octAccStepG R m (scExpr e den) true) _ = st at hpos ⊢
    by_cases hcnt : st.cnt > 1
    · rw [if_pos hcnt]; exact hx1
    · rw [if_neg hcnt]
      show Holds _ _ (octGenExploitUpper _ _ _ _ _ _ _ _ _)
      rw [octGenExploitUpper_eq hsc (by omega)]
      have ht' : t ≤ (linEval (scExpr e den) x (wid + 1) + ((if den > 0 then b else - b : Int) : Rat))
          / ((if den > 0 then den else - den : Int) : Rat) := by
        rw [← hval]; simpa using ht
      exact octExploitUpper_holds hR hh hw hd hx ht' hx1 (ounaryEq_forgetAll n vid m) hpos
  | false =>
    simp only [Bool.false_eq_true, ↓reduceIte]
    rw [octAccStepG_false]
    have hneg := octAccLoopG_inv hR (hc.sc den).neg _
      (OAccInv.init hR m (wid + 1) (fun i => - scExpr e den i) (minus_scb_cast b den).symm) _ le_rfl
    have hidx := octAccLoopG_idx0 R m (fun i => - scExpr e den i) true
      (R.up ((if den > 0 then - b else b : Int) : Rat)) (wid + 1)
    generalize loopUp (wid + 1) (octAccStepG R m (fun i => - scExpr e den i) true) _ = st at hneg hidx ⊢
    by_cases hcnt : st.cnt > 1
    · rw [if_pos hcnt]; exact hx1
    · rw [if_neg hcnt]
      show Holds _ _ (octGenExploitLower R vid wid e den _ _ st _)
      have ht' : (linEval (scExpr e den) x (wid + 1) + ((if den > 0 then b else - b : Int) : Rat))
          / ((if den > 0 then den else - den : Int) : Rat) ≤ t := by
        rw [← hval]; simpa using ht
      exact octGenExploitLower_holds hR hh hw hd hsc hx ht' hx1 (ounaryEq_forgetAll n vid m) hneg (by omega) hidx

end PPLV.WR
