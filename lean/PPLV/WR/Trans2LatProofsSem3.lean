import PPLV.WR.Trans2LatProofsSem2
import PPLV.WR.ClosureProofsFW
/-!
# Lattice / dimension operations of `BD_Shape<T>`: map_space_dimensions (soundness),
expand_space_dimension (exact characterisation)
-/
set_option linter.unusedVariables false
namespace PPLV.WR
open ExtRat

/-! ## `map_space_dimensions` -/

/-- image of a dbm index: the zero variable stays, `Variable(i)` goes to `pfunc(i)` -/
def latPhi (pf : List (Option Nat)) : Nat → Option Nat
  | 0 => some 0
  | i+1 => (latMaps pf i).map (· + 1)

/-- every cell of the new matrix is `+∞` or a cell of the old one between indices with these images -/
def bdsLatMapInv (n : Nat) (pf : List (Option Nat)) (dbm x : Mat) : Prop :=
  ∀ A B, x A B = pinf ∨ ∃ I J, I ≤ n ∧ J ≤ n ∧ latPhi pf I = some A ∧ latPhi pf J = some B ∧ x A B = dbm I J

theorem bdsLatMapInv_set {n : Nat} {pf : List (Option Nat)} {dbm x : Mat} (h : bdsLatMapInv n pf dbm x)
    {I J A B : Nat} (hI : I ≤ n) (hJ : J ≤ n) (hA : latPhi pf I = some A) (hB : latPhi pf J = some B) :
    bdsLatMapInv n pf dbm (x.set A B (dbm I J)) := by
  intro A' B'
  simp only [Mat.set_apply]
  split
  · rename_i hc
    obtain ⟨rfl, rfl⟩ := hc
    exact Or.inr ⟨I, J, hI, hJ, hA, hB, rfl⟩
  · exact h A' B'

theorem bdsLatMapLoops_inv (n : Nat) (pf : List (Option Nat)) (dbm : Mat) :
    bdsLatMapInv n pf dbm (bdsLatMapLoops n pf dbm { f := fun _ _ => pinf }) := by
  unfold bdsLatMapLoops
  dsimp only
  apply latLoopUp_inv (bdsLatMapInv n pf dbm)
  · apply latLoopUp_inv (bdsLatMapInv n pf dbm)
    · intro A B; exact Or.inl rfl
    · intro j0 x hj0 hx
      simp only [Nat.add_sub_cancel]
      cases hm : latMaps pf j0 with
      | none => exact hx
      | some nj =>
        dsimp only
        have hp : latPhi pf (j0 + 1) = some (nj + 1) := by simp [latPhi, hm]
        exact bdsLatMapInv_set (bdsLatMapInv_set hx (Nat.zero_le _) (by omega) rfl hp) (by omega)
          (Nat.zero_le _) hp rfl
  · intro i0 x hi0 hx
    simp only [Nat.add_sub_cancel]
    cases hm : latMaps pf i0 with
    | none => exact hx
    | some ni =>
      dsimp only
      have hpi : latPhi pf (i0 + 1) = some (ni + 1) := by simp [latPhi, hm]
      apply latLoopUp_inv (bdsLatMapInv n pf dbm) hx
      intro s x hs hx
      have e : i0 + 1 + 1 + s - 1 = i0 + 1 + s := by omega
      rw [e]
      cases hm2 : latMaps pf (i0 + 1 + s) with
      | none => exact hx
      | some nj =>
        dsimp only
        have hpj : latPhi pf (i0 + 1 + 1 + s) = some (nj + 1) := by
          have : i0 + 1 + 1 + s = (i0 + 1 + s) + 1 := by omega
          rw [this]; simp [latPhi, hm2]
        exact bdsLatMapInv_set (bdsLatMapInv_set hx (by omega) (by omega) hpi hpj) (by omega) (by omega)
          hpj hpi

theorem bdsLatMapInv_holds {n : Nat} {pf : List (Option Nat)} {dbm x : Mat} (h : bdsLatMapInv n pf dbm x)
    {p y : Nat → Rat} (hp : p ∈ γB n dbm) (hy : ∀ i, i < n → ∀ a, latMaps pf i = some a → y a = p i)
    (k : Nat) : y ∈ γB k x := by
  have hv : ∀ I A, I ≤ n → latPhi pf I = some A → DBM.val y A = DBM.val p I := by
    intro I A hI hA
    cases I with
    | zero => simp only [latPhi, Option.some.injEq] at hA; subst hA; rfl
    | succ i =>
      simp only [latPhi] at hA
      cases hm : latMaps pf i with
      | none => rw [hm] at hA; simp at hA
      | some a =>
        rw [hm] at hA
        simp only [Option.map_some, Option.some.injEq] at hA
        subst hA
        simp only [DBM.val]
        exact hy i (by omega) a hm
  intro A B hAB
  rcases h A B with h | ⟨I, J, hI, hJ, hA, hB, e⟩
  · rw [h]; exact le_pinf _
  · rw [e, hv I A hI hA, hv J B hJ hB]
    exact hp I J ⟨by omega, by omega⟩

/-- the space dimension after `map_space_dimensions` -/
def latMapNewDim (pf : List (Option Nat)) (n : Nat) : Nat :=
  if n = 0 then 0 else if latEmptyCodomain pf n then 0 else latMaxInCodomain pf n + 1

theorem bdsLatMapDims_sound {R : Rnd} (hR : R.Sound) (n : Nat) (c : Bool) (m : Mat) (pf : List (Option Nat))
    {x y : Nat → Rat} (hx : x ∈ γB n m) (hy : ∀ i, i < n → ∀ a, latMaps pf i = some a → y a = x i) :
    ∃ r, bdsLatMapDims R n c m pf = some r ∧ r.dim = latMapNewDim pf n ∧ y ∈ γB r.dim r.m := by
  unfold bdsLatMapDims latMapNewDim
  split
  · rename_i hn; subst hn
    exact ⟨_, rfl, rfl, latGammaB_congr (n := 0) (fun i hi => absurd hi (Nat.not_lt_zero i)) hx⟩
  · split
    · obtain ⟨r, e, hd, hr⟩ := bdsLatRemoveHigher_sound hR n c m 0 (Nat.zero_le _) hx
      refine ⟨r, e, hd, ?_⟩
      rw [hd]
      exact latGammaB_congr (fun i hi => by omega) hr
    · dsimp only
      have hst : ∃ m' c', (if latMaxInCodomain pf n + 1 < n then bdsLatClose R.up n c m else some (m, c))
          = some (m', c') ∧ x ∈ γB n m' := by
        split
        · exact bdsLatClose_sound hR.up_le n c m hx
        · exact ⟨m, c, rfl, hx⟩
      obtain ⟨m', c', e, hx'⟩ := hst
      rw [e]
      exact ⟨_, rfl, rfl, bdsLatMapInv_holds (bdsLatMapLoops_inv n pf m') hx' hy _⟩

/-! ## `expand_space_dimension` -/

theorem latUpd_self (y : Nat → Rat) (v : Nat) : upd y v (y v) = y := by
  funext i
  simp only [upd]
  split
  · rename_i h; rw [h]
  · rfl

theorem bdsLatExpandInner_apply (n i v c : Nat) (hi : i ≤ n) (hv : v ≤ n) (s : Mat) (a b : Nat) :
    loopUp c (fun t m =>
      let j := n + 1 + t
      let m := m.set i j (m i v)
      m.set j i (m v i)) s a b
      = if a = i ∧ n + 1 ≤ b ∧ b < n + 1 + c then s i v
        else if b = i ∧ n + 1 ≤ a ∧ a < n + 1 + c then s v i else s a b := by
  induction c generalizing a b with
  | zero =>
    simp only [loopUp]
    rw [if_neg (by omega), if_neg (by omega)]
  | succ c ih =>
    simp only [loopUp]
    generalize loopUp c _ s = S at ih ⊢
    simp only [Mat.set_apply, ih]
    split_ifs <;> first | rfl | omega

theorem bdsLatExpandLoop_apply (n v k : Nat) (hv : v ≤ n) (m : Mat) (a b : Nat) :
    bdsLatExpandLoop n v k m a b
      = if a ≤ n ∧ n + 1 ≤ b ∧ b < n + 1 + k then m a v
        else if b ≤ n ∧ n + 1 ≤ a ∧ a < n + 1 + k then m v b else m a b := by
  unfold bdsLatExpandLoop
  have key := loopDown_ind (α := Mat)
    (fun t s => ∀ a b, s a b = if (t ≤ a ∧ a ≤ n) ∧ n + 1 ≤ b ∧ b < n + 1 + k then m a v
        else if (t ≤ b ∧ b ≤ n) ∧ n + 1 ≤ a ∧ a < n + 1 + k then m v b else m a b)
    (n + 1) (fun i m => loopUp k (fun t m =>
      let j := n + 1 + t
      let m := m.set i j (m i v)
      m.set j i (m v i)) m) m ?_ ?_
  · rw [key a b]
    split_ifs <;> first | rfl | omega
  · intro a b
    rw [if_neg (by omega), if_neg (by omega)]
  · intro t ht s hs a b
    rw [bdsLatExpandInner_apply n t v k (by omega) hv s a b]
    rw [hs t v, hs v t, hs a b]
    split_ifs <;> first | rfl | omega | simp_all

/-- `expand_space_dimension(var, k)`: a point is in the result iff substituting any copy for `var`
gives a point of the original shape (class invariant: `+∞` on the diagonal) -/
theorem bdsLatExpand_spec (R : Rnd) (n : Nat) (c : Bool) (m : Mat) (var k : Nat) (hvar : var < n)
    (hd : bdsLatDiag n m) :
    ∃ r, bdsLatExpand R n c m var k = some r ∧ r.dim = n + k ∧
      ∀ y, y ∈ γB (n + k) r.m ↔
        ∀ j, (j = var ∨ (n ≤ j ∧ j < n + k)) → upd y var (y j) ∈ γB n m := by
  unfold bdsLatExpand bdsLatEmbed
  by_cases hk : k = 0
  · subst hk
    simp only [if_true]
    refine ⟨_, rfl, rfl, fun y => ⟨fun h j hj => ?_, fun h => ?_⟩⟩
    · have : j = var := by omega
      subst this
      rw [latUpd_self]; exact h
    · have := h var (Or.inl rfl)
      rw [latUpd_self] at this; exact this
  · simp only [if_neg hk]
    refine ⟨_, rfl, rfl, fun y => ?_⟩
    have cell : ∀ a b, bdsLatExpandLoop n (var + 1) k (bdsLatGrow (n + 1) m) a b
        = if a ≤ n ∧ n + 1 ≤ b ∧ b < n + 1 + k then (if a ≤ n then m a (var + 1) else pinf)
          else if b ≤ n ∧ n + 1 ≤ a ∧ a < n + 1 + k then (if b ≤ n then m (var + 1) b else pinf)
          else if a ≤ n ∧ b ≤ n then m a b else pinf := by
      intro a b
      rw [bdsLatExpandLoop_apply n (var + 1) k (by omega)]
      simp only [bdsLatGrow]
      split_ifs <;> first | rfl | omega
    have hvu : ∀ (w : Rat) (a : Nat), DBM.val (upd y var w) a = if a = var + 1 then w else DBM.val y a :=
      fun w a => val_upd y var w a
    constructor
    · intro h j hj a b hab
      have ha : a ≤ n := by have := hab.1; omega
      have hb : b ≤ n := by have := hab.2; omega
      rw [hvu, hvu]
      by_cases hjv : j = var
      · subst hjv
        have e : ∀ a, (if a = j + 1 then y j else DBM.val y a) = DBM.val y a := by
          intro a; split
          · rename_i h; subst h; rfl
          · rfl
        rw [e, e]
        have := h a b ⟨by omega, by omega⟩
        rw [cell, if_neg (by omega), if_neg (by omega), if_pos ⟨ha, hb⟩] at this
        exact this
      · have hj' : n ≤ j ∧ j < n + k := by omega
        have hyj : y j = DBM.val y (j + 1) := rfl
        by_cases hav : a = var + 1
        · by_cases hbv : b = var + 1
          · rw [if_pos hav, if_pos hbv, hav, hbv, hd (var + 1) (by omega)]; exact le_pinf _
          · rw [if_pos hav, if_neg hbv, hav, hyj]
            have := h (j + 1) b ⟨by omega, by omega⟩
            rw [cell, if_neg (by omega), if_pos (by omega), if_pos hb] at this
            exact this
        · by_cases hbv : b = var + 1
          · rw [if_neg hav, if_pos hbv, hbv, hyj]
            have := h a (j + 1) ⟨by omega, by omega⟩
            rw [cell, if_pos (by omega), if_pos ha] at this
            exact this
          · rw [if_neg hav, if_neg hbv]
            have := h a b ⟨by omega, by omega⟩
            rw [cell, if_neg (by omega), if_neg (by omega), if_pos ⟨ha, hb⟩] at this
            exact this
    · intro h a b hab
      have ha : a ≤ n + k := by have := hab.1; omega
      have hb : b ≤ n + k := by have := hab.2; omega
      have h0 := h var (Or.inl rfl)
      rw [cell]
      split
      · rename_i hc
        rw [if_pos hc.1]
        -- column `b` is a copy of `var`
        obtain ⟨j, rfl⟩ : ∃ j, b = j + 1 := ⟨b - 1, by omega⟩
        have hj := h j (Or.inr ⟨by omega, by omega⟩)
        have := hj a (var + 1) ⟨by omega, by omega⟩
        rw [hvu, hvu, if_pos rfl] at this
        by_cases hav : a = var + 1
        · rw [hav, hd (var + 1) (by omega)]; exact le_pinf _
        · rw [if_neg hav] at this
          exact this
      · split
        · rename_i hc1 hc
          rw [if_pos hc.1]
          obtain ⟨j, rfl⟩ : ∃ j, a = j + 1 := ⟨a - 1, by omega⟩
          have hj := h j (Or.inr ⟨by omega, by omega⟩)
          have := hj (var + 1) b ⟨by omega, by omega⟩
          rw [hvu, hvu, if_pos rfl] at this
          by_cases hbv : b = var + 1
          · rw [hbv, hd (var + 1) (by omega)]; exact le_pinf _
          · rw [if_neg hbv] at this
            exact this
        · split
          · rename_i hc
            have := h0 a b ⟨by omega, by omega⟩
            rw [hvu, hvu] at this
            have e : ∀ a, (if a = var + 1 then y var else DBM.val y a) = DBM.val y a := by
              intro a; split
              · rename_i h; subst h; rfl
              · rfl
            rw [e, e] at this
            exact this
          · exact le_pinf _

end PPLV.WR
