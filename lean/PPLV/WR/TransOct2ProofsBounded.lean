import PPLV.WR.TransOct2ProofsPre
import PPLV.WR.TransOct2ProofsRefine
/-!
# `Octagonal_Shape<T>::bounded_affine_image`: the branches `lb_expr == b` and `lb_expr == ±den*w + b`, `w ≠ var`

The upper bound goes through `generalized_affine_image(var, LESS_OR_EQUAL, ub_expr, den)` (all its branches), the
lower bound is one `add_octagonal_constraint`.

The branch through an additional dimension (`lb_expr == ±den*var + b`) and the general case of `lb_expr` are in
`TransOct2ProofsBndMono.lean`, `TransOct2ProofsBndLe.lean`, `TransOct2ProofsBndMain.lean` (they need a monotone
rounding resp. `HalfFiniteOn` of the intermediate matrix: both run a kernel on the matrix LEFT by an inner call
that ends with `incremental_strong_closure_assign`).
-/
set_option linter.unusedVariables false
set_option linter.unusedSimpArgs false
set_option linter.unusedTactic false
namespace PPLV.WR
open ExtRat

theorem octBoundedAffineImageCore_special_sound {R : Rnd} (hR : R.Sound) {n vid : Nat} (hv : vid < n)
    {el eu : Nat → Int} (hcu : CoeffExact R eu) {bl bu den : Int} (hden : den ≠ 0) {m : Mat}
    (hh : HalfFiniteOn R.up m) {x : Nat → Rat} (hx : x ∈ γO n m) {t : Rat}
    (hlb : (linEval el x n + bl) / den ≤ t) (hub : t ≤ (linEval eu x n + bu) / den)
    (hsp : exprT el (lastNonzero el n) = 0 ∨
      (exprT el (lastNonzero el n) = 1 ∧ lastNonzero el n - 1 ≠ vid ∧
        (el (lastNonzero el n - 1) = den ∨ el (lastNonzero el n - 1) = - den))) :
    ∃ m', octBoundedAffineImageCore R n vid el bl eu bu den m = some m' ∧ upd x vid t ∈ γO n m' := by
  obtain ⟨m1, hm1, hx1⟩ := octGenAffineImageCore_sound hR hv hcu hden (b := bu) hh hx true (t := t)
    (by simpa using hub)
  have hx1' : Holds (SO n) (OctM.oval (upd x vid t)) m1 := hx1
  have ov0 : OctM.oval (upd x vid t) (2 * vid) = t := by rw [oval_upd, if_pos rfl]
  have ov1 : OctM.oval (upd x vid t) (2 * vid + 1) = - t := by rw [oval_upd, if_neg (by omega), if_pos rfl]
  unfold octBoundedAffineImageCore
  dsimp only
  rcases hsp with h0 | ⟨h1, hwv, ha⟩
  · rw [if_pos h0, hm1]
    refine ⟨_, rfl, ?_⟩
    show Holds (SO n) (OctM.oval (upd x vid t)) _
    rw [linEval_t0 x h0, zero_add] at hlb
    refine holds_addDbmQ hR hx1' ?_
    rw [ov0, ov1, two_mul_div_neg]; linarith
  · obtain ⟨hw0, hE⟩ := linEval_t1 x h1
    have hwn := lastNonzero_le el n
    rw [if_neg (by omega), if_pos ⟨h1, ha⟩, if_neg hwv, hm1]
    rw [hE] at hlb
    generalize lastNonzero el n = w at *
    obtain ⟨k, rfl⟩ : ∃ k, w = k + 1 := ⟨w - 1, by omega⟩
    simp only [Nat.add_sub_cancel] at *
    have ovk0 : OctM.oval (upd x vid t) (2 * k) = x k := by
      rw [oval_upd_ne x t (by omega) (by omega), oval_even]
    have ovk1 : OctM.oval (upd x vid t) (2 * k + 1) = - x k := by
      rw [oval_upd_ne x t (by omega) (by omega), oval_odd]
    refine ⟨_, rfl, ?_⟩
    show Holds (SO n) (OctM.oval (upd x vid t)) _
    by_cases ha1 : el k = den
    · rw [special_val_pos hden ha1] at hlb
      simp only [if_pos ha1]
      split <;> refine holds_addDbmQ hR hx1' ?_
      · rw [ov1, ovk1, div_negden]; linarith
      · rw [ov0, ovk0, div_negden]; linarith
    · have ha2 := ha.resolve_left ha1
      rw [special_val_neg hden ha2] at hlb
      simp only [if_neg ha1]
      split <;> refine holds_addDbmQ hR hx1' ?_
      · rw [ov1, ovk0, div_negden]; linarith
      · rw [ov0, ovk1, div_negden]; linarith

/-- `bounded_affine_image(var, lb_expr, ub_expr, den)` with `lb_expr` constant or `±den*w + b`, `w ≠ var` -/
theorem octBoundedAffineImage_special_sound {R : Rnd} (hR : R.Sound) {n : Nat} (m : OctM n) (closed : Bool)
    {vid : Nat} (hv : vid < n) {el eu : Nat → Int} {bl bu den : Int} (hden : den ≠ 0) (hcu : CoeffExact R eu)
    (hh : ∀ m', octCloseFirst R.up closed m = some m' → HalfFiniteOn R.up m')
    (hsp : exprT el (lastNonzero el n) = 0 ∨
      (exprT el (lastNonzero el n) = 1 ∧ lastNonzero el n - 1 ≠ vid ∧
        (el (lastNonzero el n - 1) = den ∨ el (lastNonzero el n - 1) = - den))) :
    ∀ x ∈ OctM.γ m, ∀ t : Rat, (linEval el x n + bl) / den ≤ t → t ≤ (linEval eu x n + bu) / den →
      ∃ m', octBoundedAffineImage R closed vid el bl eu bu den m = some m' ∧ upd x vid t ∈ γO n m' := by
  intro x hx t hlb hub
  obtain ⟨m1, h1, hx1⟩ := octCloseFirst_sound hR.up_le closed m hx
  obtain ⟨m', hm', hx'⟩ := octBoundedAffineImageCore_special_sound hR hv hcu hden (hh m1 h1) hx1 hlb hub hsp
  exact ⟨m', by simp [octBoundedAffineImage, h1, hm'], hx'⟩

/-! ## Core-level export for `refine_no_check(const Constraint&)` (stated like the `C03` theorem) -/

theorem octRefineNoCheck_sound {R : Rnd} (hR : R.Sound) {n : Nat} (m : OctM n) (sd : Nat) (cf : Nat → Int)
    (inhomo : Int) (kind : CKind) :
    ∀ x ∈ OctM.γ m, CSat cf sd inhomo kind x →
      match octRefineNoCheck R n sd cf inhomo kind m.e with
      | .ok m' => x ∈ γO n m' ∧ MLe m' m.e
      | .empty => False
      | .throws => False := by
  intro x hx hc
  exact octRefineNoCheck_sound_raw hR.up_le cf inhomo kind m.e ((OctM.sat_iff_holds m x).1 hx) hc

end PPLV.WR
