import PPLV.WR.ReduceOctProofsLeaders4
/-!
# Octagon reduction: the two `while` walks (`octChain`, `octSingChain`) terminate within their fuel and set
the bits of the 0-cycles; generic facts on monotone bit-matrix loops
-/
namespace PPLV.WR
open ExtRat (fin pinf)

/-- bits are only ever set -/
def BLe (a b : BMat) : Prop := ∀ x y, a x y = true → b x y = true

theorem BLe.refl (a : BMat) : BLe a a := fun _ _ h => h
theorem BLe.trans {a b c : BMat} (h1 : BLe a b) (h2 : BLe b c) : BLe a c := fun x y h => h2 x y (h1 x y h)
theorem BLe.put (a : BMat) (i j : Nat) : BLe a (a.put i j true) := by
  intro x y h; rw [BMat.put_apply]; split
  · rfl
  · exact h
theorem BMat.put_self (a : BMat) (i j : Nat) : (a.put i j true) i j = true := by
  rw [BMat.put_apply, if_pos ⟨rfl, rfl⟩]

/-- a loop over an optional state whose body only sets bits: every iteration is run on a state between the
initial and the final one -/
theorem loopUp_opt_mono (f : Nat → Option BMat → Option BMat)
    (hnone : ∀ li, f li none = none)
    (hmono : ∀ li x y, f li (some x) = some y → BLe x y) :
    ∀ (N : Nat) (a z : BMat), loopUp N f (some a) = some z →
      BLe a z ∧ ∀ li, li < N → ∃ x y, f li (some x) = some y ∧ BLe a x ∧ BLe y z := by
  intro N
  induction N with
  | zero =>
    intro a z h
    simp only [loopUp] at h
    cases h
    exact ⟨BLe.refl _, fun li h => by omega⟩
  | succ N ih =>
    intro a z h
    simp only [loopUp] at h
    cases hm : loopUp N f (some a) with
    | none => rw [hm, hnone] at h; cases h
    | some mid =>
      rw [hm] at h
      obtain ⟨h1, h2⟩ := ih a mid hm
      have h3 := hmono N mid z h
      refine ⟨h1.trans h3, fun li hli => ?_⟩
      by_cases e : li = N
      · subst e; exact ⟨mid, z, h, h1, BLe.refl _⟩
      · obtain ⟨x, y, hx, hax, hy⟩ := h2 li (by omega)
        exact ⟨x, y, hx, hax, hy.trans h3⟩

/-- totality of such a loop -/
theorem loopUp_opt_total (f : Nat → Option BMat → Option BMat)
    (hsome : ∀ li x, ∃ y, f li (some x) = some y) :
    ∀ (N : Nat) (a : BMat), ∃ z, loopUp N f (some a) = some z := by
  intro N
  induction N with
  | zero => intro a; exact ⟨a, rfl⟩
  | succ N ih =>
    intro a
    obtain ⟨mid, hm⟩ := ih a
    simp only [loopUp]
    rw [hm]
    exact hsome N mid

/-- the inner loop of Step 2: `if T lj then nr.put i (g lj) true else nr` -/
theorem loopUp_put (T : Nat → Bool) (i : Nat) (g : Nat → Nat) (K : Nat) (nr : BMat) :
    BLe nr (loopUp K (fun lj nr => if T lj then nr.put i (g lj) true else nr) nr) ∧
    ∀ lj, lj < K → T lj = true → (loopUp K (fun lj nr => if T lj then nr.put i (g lj) true else nr) nr) i (g lj) = true := by
  induction K with
  | zero => exact ⟨BLe.refl _, fun lj h => by omega⟩
  | succ K ih =>
    obtain ⟨h1, h2⟩ := ih
    simp only [loopUp]
    generalize loopUp K (fun lj nr => if T lj then nr.put i (g lj) true else nr) nr = mid at h1 h2 ⊢
    by_cases hT : T K = true
    · rw [if_pos hT]
      refine ⟨h1.trans (BLe.put _ _ _), fun lj hlj hTl => ?_⟩
      by_cases e : lj = K
      · subst e; exact BMat.put_self _ _ _
      · exact BLe.put _ _ _ _ _ (h2 lj (by omega) hTl)
    · rw [if_neg hT]
      refine ⟨h1, fun lj hlj hTl => ?_⟩
      by_cases e : lj = K
      · subst e; exact absurd hTl hT
      · exact h2 lj (by omega) hTl

/-! ## totality of the walks (needs only that `succ` walks upwards below `N`) -/

theorem octChain_total {N : Nat} {m : Mat} {succ : Vec} (hs : IsOctSucc N m succ) :
    ∀ (fuel j : Nat) (nr : BMat), 1 ≤ fuel → N ≤ j + fuel → ∃ r, octChain succ fuel j nr = some r := by
  intro fuel
  induction fuel with
  | zero => intro j nr h; omega
  | succ fuel ih =>
    intro j nr _ h2
    unfold octChain
    simp only
    by_cases e : j = succ j
    · rw [if_pos e]; exact ⟨_, rfl⟩
    · rw [if_neg e]
      have hge := hs.ge j
      have hjN : j < N := by
        by_cases h : j < N
        · exact h
        · exact absurd (hs.out j (by omega)).symm e
      have hlt := hs.lt j hjN
      exact ih _ _ (by omega) (by omega)

theorem octSingChain_total {N : Nat} {m : Mat} {succ : Vec} (hs : IsOctSucc N m succ) :
    ∀ (fuel j : Nat) (nr : BMat), 1 ≤ fuel → N ≤ j + fuel → ∃ r, octSingChain succ fuel j nr = some r := by
  intro fuel
  induction fuel with
  | zero => intro j nr h; omega
  | succ fuel ih =>
    intro j nr _ h2
    unfold octSingChain
    simp only
    by_cases e : succ (j + 1) = j + 1
    · rw [if_pos e]; exact ⟨_, rfl⟩
    · rw [if_neg e]
      have hge := hs.ge (j + 1)
      have hjN : j + 1 < N := by
        by_cases h : j + 1 < N
        · exact h
        · exact absurd (hs.out (j + 1) (by omega)) e
      have hlt := hs.lt (j + 1) hjN
      exact ih _ _ (by omega) (by omega)

/-! ## what the walks set -/

section closed
variable {n : Nat} (c : OctM n) (hc : c.IsStronglyClosed)
variable {succ : Vec} (hs : IsOctSucc (2 * n) c.e succ)
include hc hs

theorem octChain_spec :
    ∀ (fuel j : Nat) (nr : BMat) (r : BMat × Nat), j < 2 * n → octChain succ fuel j nr = some r →
      BLe nr r.1 ∧ j ≤ r.2 ∧ r.2 < 2 * n ∧ OZEq c.e r.2 j ∧ succ r.2 = r.2 ∧
      ∀ a, j ≤ a → a < 2 * n → OZEq c.e a j → succ a ≠ a → r.1 (succ a) a = true := by
  intro fuel
  induction fuel with
  | zero => intro j nr r _ h; simp [octChain] at h
  | succ fuel ih =>
    intro j nr r hj h
    unfold octChain at h
    simp only at h
    by_cases e : j = succ j
    · rw [if_pos e] at h
      cases h
      refine ⟨BLe.refl _, Nat.le_refl _, hj, OZEq.refl _ _, e.symm, fun a h1 h2 h3 h4 => ?_⟩
      by_cases ea : a = j
      · subst ea; exact absurd e.symm h4
      · exact absurd h3 (hs.self j a e.symm (by omega) h2)
    · rw [if_neg e] at h
      have hge := hs.ge j
      have hlt := hs.lt j hj
      obtain ⟨i1, i2, i3, i4, i5, i6⟩ := ih _ _ r hlt h
      refine ⟨(BLe.put _ _ _).trans i1, by omega, i3,
        OZEq.trans c hc i3 hlt hj i4 (hs.zeq j), i5, fun a h1 h2 h3 h4 => ?_⟩
      by_cases ea : a = j
      · subst ea; exact i1 _ _ (BMat.put_self _ _ _)
      · have hle : succ j ≤ a := by
          by_cases hh : a < succ j
          · exact absurd h3 (hs.between j a (by omega) hh)
          · omega
        exact i6 a hle h2 (OZEq.trans c hc h2 hj hlt h3 (hs.zeq j).symm) h4

/-- one step of the walk through the even members of the singular class -/
theorem sing_next {j : Nat} (hj : j < 2 * n) (hev : j % 2 = 0) (hz : OZEq c.e j (cidx j))
    (hne : succ (j + 1) ≠ j + 1) :
    succ (j + 1) % 2 = 0 ∧ succ (j + 1) < 2 * n ∧ j + 1 < succ (j + 1) ∧ OZEq c.e (succ (j + 1)) j ∧
    ∀ a, a % 2 = 0 → j < a → a < 2 * n → OZEq c.e a j → succ (j + 1) ≤ a := by
  have hcj : cidx j = j + 1 := cidx_of_even hev
  rw [hcj] at hz
  have hj1 : j + 1 < 2 * n := by omega
  have hge := hs.ge (j + 1)
  have hlt := hs.lt (j + 1) hj1
  have hzn := hs.zeq (j + 1)
  have hnj : OZEq c.e (succ (j + 1)) j := OZEq.trans c hc hlt hj1 hj hzn hz.symm
  refine ⟨?_, hlt, by omega, hnj, fun a ha1 ha2 ha3 ha4 => ?_⟩
  · by_cases hodd : succ (j + 1) % 2 = 0
    · exact hodd
    · exfalso
      have hc1 : cidx (succ (j + 1)) = succ (j + 1) - 1 := cidx_of_odd (by omega)
      have hc2 : cidx (j + 1) = j := by have := cidx_odd (j / 2); rwa [show 2 * (j / 2) = j by omega] at this
      have h1 : OZEq c.e (succ (j + 1) - 1) j := by
        have := OZEq.cidx hzn; rwa [hc1, hc2] at this
      have h2 : OZEq c.e (succ (j + 1) - 1) (j + 1) := OZEq.trans c hc (by omega) hj hj1 h1 hz
      exact hs.between (j + 1) (succ (j + 1) - 1) (by omega) (by omega) h2
  · by_cases hh : a < succ (j + 1)
    · exact absurd (OZEq.trans c hc ha3 hj hj1 ha4 hz) (hs.between (j + 1) a (by omega) hh)
    · omega

theorem octSingChain_spec :
    ∀ (fuel j : Nat) (nr : BMat) (r : BMat × Nat), j < 2 * n → j % 2 = 0 → OZEq c.e j (cidx j) →
      octSingChain succ fuel j nr = some r →
      BLe nr r.1 ∧ j ≤ r.2 ∧ r.2 < 2 * n ∧ r.2 % 2 = 0 ∧ OZEq c.e r.2 j ∧ succ (r.2 + 1) = r.2 + 1 ∧
      ∀ a, j ≤ a → a < 2 * n → a % 2 = 0 → OZEq c.e a j → succ (a + 1) ≠ a + 1 → r.1 (succ (a + 1)) a = true := by
  intro fuel
  induction fuel with
  | zero => intro j nr r _ _ _ h; simp [octSingChain] at h
  | succ fuel ih =>
    intro j nr r hj hev hz h
    unfold octSingChain at h
    simp only at h
    by_cases e : succ (j + 1) = j + 1
    · rw [if_pos e] at h
      cases h
      refine ⟨BLe.refl _, Nat.le_refl _, hj, hev, OZEq.refl _ _, e, fun a h1 h2 h3 h4 h5 => ?_⟩
      by_cases ea : a = j
      · subst ea; exact absurd e h5
      · exfalso
        rw [cidx_of_even hev] at hz
        exact hs.self (j + 1) a e (by omega) h2 (OZEq.trans c hc h2 hj (by omega) h4 hz)
    · rw [if_neg e] at h
      obtain ⟨s1, s2, s3, s4, s5⟩ := sing_next c hc hs hj hev hz e
      have hzn : OZEq c.e (succ (j + 1)) (cidx (succ (j + 1))) :=
        OZEq.trans c hc s2 (cidx_lt hj) (cidx_lt s2)
          (OZEq.trans c hc s2 hj (cidx_lt hj) s4 hz) (OZEq.cidx s4.symm)
      obtain ⟨i1, i2, i3, i4, i5, i6, i7⟩ := ih _ _ r s2 s1 hzn h
      refine ⟨(BLe.put _ _ _).trans i1, by omega, i3, i4,
        OZEq.trans c hc i3 s2 hj i5 s4, i6, fun a h1 h2 h3 h4 h5 => ?_⟩
      by_cases ea : a = j
      · subst ea; exact i1 _ _ (BMat.put_self _ _ _)
      · have hle := s5 a h3 (by omega) h2 h4
        exact i7 a hle h2 h3 (OZEq.trans c hc h2 hj s2 h4 s4.symm) h5

end closed

end PPLV.WR
