import PPLV.WR.Trans2LatProofsSem3
/-!
# Lattice / dimension operations of `BD_Shape<T>`: fold_space_dimensions (soundness)
-/
set_option linter.unusedVariables false
namespace PPLV.WR
open ExtRat

/-! ## loops that only raise entries -/

theorem latMLe_refl (m : Mat) : MLe m m := fun _ _ => le_rfl' _
theorem latMLe_trans {a b c : Mat} (h1 : MLe a b) (h2 : MLe b c) : MLe a c :=
  fun i j => le_trans' (h1 i j) (h2 i j)

theorem latMLe_setMax (m : Mat) (a b : Nat) (w : ExtRat) : MLe m (m.set a b (latMaxA (m a b) w)) := by
  intro i j
  simp only [Mat.set_apply]
  split
  · rename_i hc; obtain ⟨rfl, rfl⟩ := hc; exact latMaxA_ge_left _ _
  · exact le_rfl' _

theorem latLoopDown_infl {n : Nat} {f : Nat → Mat → Mat} (h : ∀ k m, MLe m (f k m)) (s : Mat) :
    MLe s (loopDown n f s) :=
  latLoopDown_inv (fun t => MLe s t) (latMLe_refl s) (fun k t _ ht => latMLe_trans ht (h k t))

theorem latLoopUp_infl {n : Nat} {f : Nat → Mat → Mat} (h : ∀ k m, MLe m (f k m)) (s : Mat) :
    MLe s (loopUp n f s) :=
  latLoopUp_inv (fun t => MLe s t) (latMLe_refl s) (fun k t _ ht => latMLe_trans ht (h k t))

/-- every step raises entries; step `k` establishes the upward-closed fact `P k`: all of them hold at
the end -/
theorem latLoopDown_collect {n : Nat} {f : Nat → Mat → Mat} (hinfl : ∀ k m, MLe m (f k m))
    (P : Nat → Mat → Prop) (hup : ∀ k m m', MLe m m' → P k m → P k m') (m0 : Mat)
    (hstep : ∀ k m, k < n → MLe m0 m → P k (f k m)) (s : Mat) (hs : MLe m0 s) :
    ∀ k, k < n → P k (loopDown n f s) := by
  induction n generalizing s with
  | zero => intro k hk; omega
  | succ n ih =>
    intro k hk
    simp only [loopDown]
    by_cases hkn : k = n
    · subst hkn
      exact hup k _ _ (latLoopDown_infl hinfl _) (hstep k s (Nat.lt_succ_self k) hs)
    · exact ih (fun k m hk => hstep k m (Nat.lt_succ_of_lt hk)) (f n s)
        (latMLe_trans hs (hinfl n s)) k (by omega)

theorem latLoopUp_collect {n : Nat} {f : Nat → Mat → Mat} (hinfl : ∀ k m, MLe m (f k m))
    (P : Nat → Mat → Prop) (hup : ∀ k m m', MLe m m' → P k m → P k m') (m0 : Mat)
    (hstep : ∀ k m, k < n → MLe m0 m → P k (f k m)) (s : Mat) (hs : MLe m0 s) :
    ∀ k, k < n → P k (loopUp n f s) := by
  induction n with
  | zero => intro k hk; omega
  | succ n ih =>
    intro k hk
    simp only [loopUp]
    have hprev : MLe m0 (loopUp n f s) := latMLe_trans hs (latLoopUp_infl hinfl s)
    by_cases hkn : k = n
    · subst hkn
      exact hstep k _ (Nat.lt_succ_self k) hprev
    · exact hup k _ _ (hinfl n _) (ih (fun k m hk => hstep k m (Nat.lt_succ_of_lt hk)) k (by omega))

/-! ## `fold_space_dimensions` -/

/-- the `j` loop of `fold_space_dimensions` for one folded index `t` -/
def bdsLatFoldOne (n v t : Nat) (m : Mat) : Mat :=
  loopDown (n + 1) (fun j m =>
    let m := m.set j v (latMaxA (m j v) (m j t))
    m.set v j (latMaxA (m v j) (m t j))) m

theorem bdsLatFoldLoop_eq (n v : Nat) (vars : List Nat) (m : Mat) :
    bdsLatFoldLoop n v vars m = vars.foldl (fun m tbf => bdsLatFoldOne n v (tbf + 1) m) m := rfl

theorem bdsLatFoldStep_infl (v t j : Nat) (m : Mat) :
    MLe m ((m.set j v (latMaxA (m j v) (m j t))).set v j
      (latMaxA ((m.set j v (latMaxA (m j v) (m j t))) v j) ((m.set j v (latMaxA (m j v) (m j t))) t j))) :=
  latMLe_trans (latMLe_setMax m j v _) (latMLe_setMax _ v j _)

theorem bdsLatFoldOne_infl (n v t : Nat) (m : Mat) : MLe m (bdsLatFoldOne n v t m) :=
  latLoopDown_infl (fun j m => bdsLatFoldStep_infl v t j m) m

theorem bdsLatFoldOne_bounds (n v t : Nat) (m0 s : Mat) (hs : MLe m0 s) :
    ∀ j, j < n + 1 → m0 j t ≤ bdsLatFoldOne n v t s j v ∧ m0 t j ≤ bdsLatFoldOne n v t s v j := by
  unfold bdsLatFoldOne
  refine latLoopDown_collect (fun j m => bdsLatFoldStep_infl v t j m)
    (fun j m => m0 j t ≤ m j v ∧ m0 t j ≤ m v j) ?_ m0 ?_ s hs
  · intro k m m' hmm hp
    exact ⟨le_trans' hp.1 (hmm _ _), le_trans' hp.2 (hmm _ _)⟩
  · intro j m hj hm
    constructor
    · refine le_trans' ?_ (latMLe_setMax _ v j _ j v)
      simp only [Mat.set_apply, and_self, if_true]
      exact le_trans' (hm j t) (latMaxA_ge_right _ _)
    · simp only [Mat.set_apply, and_self, if_true]
      refine le_trans' ?_ (latMaxA_ge_right _ _)
      exact le_trans' (hm t j) (latMLe_setMax m j v _ t j)

theorem bdsLatFoldLoop_infl (n v : Nat) (vars : List Nat) (m : Mat) : MLe m (bdsLatFoldLoop n v vars m) := by
  rw [bdsLatFoldLoop_eq]
  induction vars generalizing m with
  | nil => exact latMLe_refl m
  | cons w ws ih =>
    simp only [List.foldl_cons]
    exact latMLe_trans (bdsLatFoldOne_infl n v (w + 1) m) (ih _)

theorem bdsLatFoldLoop_bounds (n v : Nat) (vars : List Nat) (m0 s : Mat) (hs : MLe m0 s) (w : Nat)
    (hw : w ∈ vars) : ∀ j, j < n + 1 →
      m0 j (w + 1) ≤ bdsLatFoldLoop n v vars s j v ∧ m0 (w + 1) j ≤ bdsLatFoldLoop n v vars s v j := by
  rw [bdsLatFoldLoop_eq]
  induction vars generalizing s with
  | nil => simp at hw
  | cons u us ih =>
    simp only [List.foldl_cons]
    intro j hj
    by_cases hwu : w = u
    · subst hwu
      have h1 := bdsLatFoldOne_bounds n v (w + 1) m0 s hs j hj
      have h2 : MLe (bdsLatFoldOne n v (w + 1) s) (us.foldl (fun m tbf => bdsLatFoldOne n v (tbf + 1) m)
          (bdsLatFoldOne n v (w + 1) s)) := by
        have := bdsLatFoldLoop_infl n v us (bdsLatFoldOne n v (w + 1) s)
        rw [bdsLatFoldLoop_eq] at this; exact this
      exact ⟨le_trans' h1.1 (h2 _ _), le_trans' h1.2 (h2 _ _)⟩
    · have hw' : w ∈ us := by
        rcases List.mem_cons.1 hw with h | h
        · exact absurd h hwu
        · exact h
      exact ih _ (latMLe_trans hs (bdsLatFoldOne_infl n v (u + 1) s)) hw' j hj

/-- after the `max_assign`s, the point with `dest := x_w` (`w` folded or `dest` itself) satisfies the matrix -/
theorem bdsLatFoldLoop_holds {n dest : Nat} {vars : List Nat} {m : Mat} {x : Nat → Rat} (hx : x ∈ γB n m)
    {w : Nat} (hw : w = dest ∨ w ∈ vars) (hwn : w < n) :
    upd x dest (x w) ∈ γB n (bdsLatFoldLoop n (dest + 1) vars m) := by
  have hinfl := bdsLatFoldLoop_infl n (dest + 1) vars m
  rcases hw with rfl | hw
  · rw [latUpd_self]
    exact latGammaB_mono (fun a b _ _ => hinfl a b) hx
  · have hb := bdsLatFoldLoop_bounds n (dest + 1) vars m m (latMLe_refl m) w hw
    intro a b hab
    rw [val_upd, val_upd]
    have hxw : x w = DBM.val x (w + 1) := rfl
    by_cases ha : a = dest + 1
    · by_cases hb' : b = dest + 1
      · rw [if_pos ha, if_pos hb', ha, hb']
        have hd1 : dest + 1 < n + 1 := ha ▸ hab.1
        have := hx (dest + 1) (dest + 1) ⟨hd1, hd1⟩
        simp only [sub_self] at this ⊢
        exact le_trans' this (hinfl _ _)
      · rw [if_pos ha, if_neg hb', ha, hxw]
        exact le_trans' (hx (w + 1) b ⟨by omega, hab.2⟩) (hb b hab.2).2
    · by_cases hb' : b = dest + 1
      · rw [if_neg ha, if_pos hb', hb', hxw]
        exact le_trans' (hx a (w + 1) ⟨hab.1, by omega⟩) (hb a hab.1).1
      · rw [if_neg ha, if_neg hb']
        exact le_trans' (hx a b hab) (hinfl a b)

/-- `fold_space_dimensions(vars, dest)`: for every point `x` of the shape and every `w ∈ vars ∪ {dest}`,
the point obtained by moving `x_w` to `dest` and dropping `vars` is in the result -/
theorem bdsLatFold_sound {R : Rnd} (hR : R.Sound) (n : Nat) (c : Bool) (m : Mat) (vars : List Nat)
    (dest : Nat) (hne : vars ≠ []) (hvs : ∀ v, v ∈ vars → v < n) (hdest : dest < n)
    {x : Nat → Rat} (hx : x ∈ γB n m) {w : Nat} (hw : w = dest ∨ w ∈ vars) :
    ∃ r, bdsLatFold R n c m vars dest = some r ∧ r.dim = n - vars.length ∧
      bdsLatDropPoint n vars (upd x dest (x w)) ∈ γB r.dim r.m := by
  unfold bdsLatFold
  have : vars.isEmpty = false := by cases vars <;> simp_all
  simp only [this, Bool.false_eq_true, if_false]
  obtain ⟨m', c', e, hx'⟩ := bdsLatClose_sound hR.up_le n c m hx
  simp only [e]
  have hwn : w < n := by
    rcases hw with rfl | hw
    · exact hdest
    · exact hvs w hw
  exact bdsLatRemoveDims_sound hR n c' _ vars hne hvs (bdsLatFoldLoop_holds hx' hw hwn)

end PPLV.WR
