import PPLV.WR.TransOct2LatProofsSem1
import Mathlib.Data.List.Perm.Subperm
import Mathlib.Data.List.Nodup
/-!
# Lattice / dimension operations of `Octagonal_Shape<T>`: remove_space_dimensions (soundness)
-/
set_option linter.unusedVariables false
namespace PPLV.WR
open ExtRat

/-! ## the table of kept variables -/

theorem octLatRemoveTable_sorted (n : Nat) (vars : List Nat) :
    (octLatRemoveTable n vars).Pairwise (· < ·) := by
  cases vars with
  | nil => exact List.pairwise_lt_range
  | cons first rest =>
    simp only [octLatRemoveTable]
    rw [List.pairwise_append]
    refine ⟨List.pairwise_lt_range, List.Pairwise.filter _ (List.pairwise_lt_range' 1), ?_⟩
    intro a ha b hb
    have h1 := List.mem_range.1 ha
    have h2 := List.mem_range'_1.1 (List.mem_of_mem_filter hb)
    omega

theorem octLatRemoveTable_lt (n : Nat) (vars : List Nat) (hvs : ∀ v, v ∈ vars → v < n) :
    ∀ s, s ∈ octLatRemoveTable n vars → s < n := by
  cases vars with
  | nil => intro s hs; exact List.mem_range.1 hs
  | cons first rest =>
    intro s hs
    simp only [octLatRemoveTable, List.mem_append] at hs
    have hf := hvs first List.mem_cons_self
    rcases hs with hs | hs
    · have := List.mem_range.1 hs; omega
    · have := List.mem_range'_1.1 (List.mem_of_mem_filter hs); omega

theorem octLatRemoveTable_length (n : Nat) (vars : List Nat) (hvs : ∀ v, v ∈ vars → v < n) :
    n - vars.length ≤ (octLatRemoveTable n vars).length := by
  cases vars with
  | nil => simp [octLatRemoveTable]
  | cons first rest =>
    have hf := hvs first List.mem_cons_self
    simp only [octLatRemoveTable, List.length_append, List.length_range, List.length_cons]
    set l := List.range' (first + 1) (n - (first + 1)) with hl
    set p : Nat → Bool := fun i => !(first :: rest).contains i with hp
    have h1 := List.length_eq_countP_add_countP p (l := l)
    rw [List.countP_eq_length_filter, List.countP_eq_length_filter] at h1
    have h2 : (l.filter (fun a => decide ¬p a = true)).length ≤ rest.length := by
      apply List.Subperm.length_le
      apply List.subperm_of_subset ((List.nodup_range' 1).filter _)
      intro i hi
      have hi1 := List.mem_range'_1.1 (List.mem_of_mem_filter hi)
      have hi2 := (List.mem_filter.1 hi).2
      simp only [hp, Bool.not_eq_true', Bool.not_eq_false, decide_eq_true_eq,
        List.contains_eq_mem, List.mem_cons, decide_eq_true_eq] at hi2
      rcases hi2 with h | h
      · omega
      · exact h
    have h3 : l.length = n - (first + 1) := by rw [hl, List.length_range']
    omega

theorem octLatRemoveTable_notMem (n : Nat) (vars : List Nat) (hs : vars.Pairwise (· < ·)) :
    ∀ s, s ∈ octLatRemoveTable n vars → s ∉ vars := by
  cases vars with
  | nil => intro s _ h; simp at h
  | cons first rest =>
    intro s hs' hmem
    simp only [octLatRemoveTable, List.mem_append] at hs'
    rcases hs' with h | h
    · have h1 := List.mem_range.1 h
      rcases List.mem_cons.1 hmem with e | e
      · omega
      · have := (List.pairwise_cons.1 hs).1 s e; omega
    · have h2 := (List.mem_filter.1 h).2
      simp only [Bool.not_eq_true', List.contains_eq_mem, decide_eq_false_iff_not] at h2
      exact h2 hmem

theorem latGetD_mono {l : List Nat} (hs : l.Pairwise (· < ·)) {a b : Nat} (hab : a ≤ b) (hb : b < l.length) :
    l.getD a 0 ≤ l.getD b 0 := by
  rw [List.getD_eq_getElem?_getD, List.getD_eq_getElem?_getD, List.getElem?_eq_getElem (by omega),
    List.getElem?_eq_getElem hb]
  simp only [Option.getD_some]
  rcases Nat.lt_or_eq_of_le hab with h | h
  · exact Nat.le_of_lt (List.pairwise_iff_getElem.1 hs a b (by omega) hb h)
  · subst h; exact le_refl _

theorem latGetD_mem {l : List Nat} {a : Nat} (ha : a < l.length) : l.getD a 0 ∈ l := by
  rw [List.getD_eq_getElem?_getD, List.getElem?_eq_getElem ha]
  simp only [Option.getD_some]
  exact List.getElem_mem ha

/-- the stored cells between kept variables are satisfied -/
def octLatKeptHolds (n : Nat) (vars : List Nat) (x : Nat → Rat) (m : Mat) : Prop :=
  ∀ a b, a < 2 * n → b < rowSize a → a / 2 ∉ vars → b / 2 ∉ vars →
    fin (OctM.oval x b - OctM.oval x a) ≤ m a b

theorem octLatKeptHolds_of_mem {n : Nat} {vars : List Nat} {x : Nat → Rat} {m : Mat} (h : x ∈ γO n m) :
    octLatKeptHolds n vars x m := fun a b ha hb _ _ => h a b ⟨ha, hb⟩

/-- the point with the removed coordinates dropped: new coordinate `i` is the old `tbl[i]` -/
def octLatDropPoint (n : Nat) (vars : List Nat) (x : Nat → Rat) : Nat → Rat :=
  fun i => x ((octLatRemoveTable n vars).getD i 0)

theorem octLatReindex_holds {n k : Nat} {vars tbl : List Nat} (hs : tbl.Pairwise (· < ·))
    (hlt : ∀ s, s ∈ tbl → s < n) (hnm : ∀ s, s ∈ tbl → s ∉ vars) (hlen : k ≤ tbl.length)
    {m : Mat} {x : Nat → Rat} (hx : octLatKeptHolds n vars x m) :
    (fun i => x (tbl.getD i 0)) ∈ γO k (octLatReindex tbl m) := by
  intro a b hab
  have ha : a / 2 < tbl.length := by have := hab.1; omega
  have hba : b / 2 ≤ a / 2 := by have := hab.2; unfold rowSize at this; omega
  have hv : ∀ c, OctM.oval (fun i => x (tbl.getD i 0)) c = OctM.oval x (2 * tbl.getD (c / 2) 0 + c % 2) := by
    intro c
    unfold OctM.oval
    have e1 : (2 * tbl.getD (c / 2) 0 + c % 2) % 2 = c % 2 := by omega
    have e2 : (2 * tbl.getD (c / 2) 0 + c % 2) / 2 = tbl.getD (c / 2) 0 := by omega
    rw [e1, e2]
  rw [hv, hv]
  show _ ≤ m (2 * tbl.getD (a / 2) 0 + a % 2) (2 * tbl.getD (b / 2) 0 + b % 2)
  have hma := latGetD_mem ha
  have hmb := latGetD_mem (a := b / 2) (l := tbl) (by omega)
  have hmono := latGetD_mono hs hba ha
  refine hx _ _ ?_ ?_ ?_ ?_
  · have := hlt _ hma; omega
  · unfold rowSize; omega
  · have e : (2 * tbl.getD (a / 2) 0 + a % 2) / 2 = tbl.getD (a / 2) 0 := by omega
    rw [e]; exact hnm _ hma
  · have e : (2 * tbl.getD (b / 2) 0 + b % 2) / 2 = tbl.getD (b / 2) 0 := by omega
    rw [e]; exact hnm _ hmb

/-- `remove_space_dimensions` on a matrix that is marked closed: the kept cells decide -/
theorem octLatRemoveDims_closed_sound (R : Rnd) (n : Nat) (m : Mat) (vars : List Nat)
    (hne : vars ≠ []) (hsorted : vars.Pairwise (· < ·)) (hvs : ∀ v, v ∈ vars → v < n) {x : Nat → Rat}
    (hx : octLatKeptHolds n vars x m) :
    ∃ r, octLatRemoveDims R n true m vars = some r ∧ r.dim = n - vars.length ∧
      octLatDropPoint n vars x ∈ γO r.dim r.m := by
  unfold octLatRemoveDims
  have : vars.isEmpty = false := by cases vars <;> simp_all
  simp only [this, Bool.false_eq_true, if_false, octLatClose, if_true]
  split
  · rename_i h0
    refine ⟨_, rfl, h0.symm, ?_⟩
    intro a b hab
    have := hab.1; simp only at this; omega
  · refine ⟨_, rfl, rfl, ?_⟩
    exact octLatReindex_holds (octLatRemoveTable_sorted n vars) (octLatRemoveTable_lt n vars hvs)
      (octLatRemoveTable_notMem n vars hsorted) (octLatRemoveTable_length n vars hvs) hx

/-- `remove_space_dimensions(vars)`: the point with the removed coordinates dropped is in the result -/
theorem octLatRemoveDims_sound {R : Rnd} (hR : R.Sound) (n : Nat) (c : Bool) (m : Mat) (vars : List Nat)
    (hne : vars ≠ []) (hvs : ∀ v, v ∈ vars → v < n) {x : Nat → Rat} (hx : x ∈ γO n m) :
    ∃ r, octLatRemoveDims R n c m vars = some r ∧ r.dim = n - vars.length ∧
      octLatDropPoint n vars x ∈ γO r.dim r.m := by
  unfold octLatRemoveDims
  have : vars.isEmpty = false := by cases vars <;> simp_all
  simp only [this, Bool.false_eq_true, if_false]
  obtain ⟨m', c', e, hx'⟩ := octLatClose_sound hR.up_le n c m hx
  simp only [e]
  split
  · rename_i h0
    refine ⟨_, rfl, h0.symm, ?_⟩
    intro a b hab
    have := hab.1; simp only at this; omega
  · refine ⟨_, rfl, rfl, ?_⟩
    exact octLatReindex_holds (vars := []) (octLatRemoveTable_sorted n vars) (octLatRemoveTable_lt n vars hvs)
      (fun s _ h => by simp at h) (octLatRemoveTable_length n vars hvs)
      (octLatKeptHolds_of_mem hx')

end PPLV.WR
