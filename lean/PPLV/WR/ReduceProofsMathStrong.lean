import PPLV.WR.ReduceProofsMathDim
/-!
# Reduction of a closed difference-bound matrix, pure mathematics (5): genuine irredundancy

A kept entry `(i, j)` between two leaders cannot be dropped: some point violates it and satisfies every other
kept entry.  The point is taken on the closed matrix `bumped` that relaxes by a small `ε > 0` exactly the
entries from the class of `i` to the class of `j` (`ε` below the gap of every other leader `k`:
`c i j + ε ≤ c i k + c k j`), where the bound `c i j + ε` is attained.
-/
namespace PPLV.WR
open ExtRat (fin pinf)

variable {n : Nat}

/-- the entries from the class of `i` to the class of `j` relaxed by `ε` -/
def bumped (m : Mat) (lead : Nat → Nat) (i j : Nat) (ε : Rat) : Mat :=
  { f := fun a b => if lead a = i ∧ lead b = j then eadd (m a b) (fin ε) else m a b }

theorem bumped_apply (m : Mat) (lead : Nat → Nat) (i j : Nat) (ε : Rat) (a b : Nat) :
    bumped m lead i j ε a b = if lead a = i ∧ lead b = j then eadd (m a b) (fin ε) else m a b := rfl

theorem le_eadd_fin {a : ExtRat} {ε : Rat} (h : 0 ≤ ε) : a ≤ eadd a (fin ε) := by
  cases a <;> simp [eadd, ExtRat.addUp]
  exact h

theorem le_bumped (m : Mat) (lead : Nat → Nat) (i j : Nat) {ε : Rat} (h : 0 ≤ ε) (a b : Nat) :
    m a b ≤ bumped m lead i j ε a b := by
  rw [bumped_apply]
  split
  · exact le_eadd_fin h
  · exact ExtRat.le_rfl' _

/-- the gap of leader `k` (`1` when the sum is infinite) -/
def gapAt (m : Mat) (i j : Nat) (q : Rat) (k : Nat) : Rat :=
  match eadd (m i k) (m k j) with
  | fin s => if q < s then s - q else 1
  | pinf => 1

theorem gapAt_pos (m : Mat) (i j : Nat) (q : Rat) (k : Nat) : 0 < gapAt m i j q k := by
  unfold gapAt
  split
  · split
    · linarith
    · norm_num
  · norm_num

theorem le_of_gapAt {m : Mat} {i j : Nat} {q ε : Rat} {k : Nat} (h1 : ε ≤ gapAt m i j q k)
    (h2 : ¬ (eadd (m i k) (m k j) ≤ fin q)) : eadd (fin q) (fin ε) ≤ eadd (m i k) (m k j) := by
  unfold gapAt at h1
  cases hs : eadd (m i k) (m k j) with
  | pinf => exact ExtRat.le_pinf _
  | fin s =>
    rw [hs] at h1 h2
    rw [ExtRat.fin_le_fin, not_le] at h2
    simp only [if_pos h2] at h1
    simp only [eadd, ExtRat.addUp, ExtRat.fin_le_fin]
    linarith

section
variable (c : DBM n) (hc : c.IsClosed) (lead : Nat → Nat) (hl : IsLeaderMap n c.e lead)
include hc hl

/-- the triangle through an index of a third class -/
theorem gap_tri {i j k a b m : Nat} (ha : a ≤ n) (hb : b ≤ n) (hm : m ≤ n)
    (hla : lead a = i) (hlb : lead b = j) (hlm : lead m = k) {q ε : Rat}
    (hq : c.z i j = fin q) (hε : eadd (fin q) (fin ε) ≤ eadd (c.z i k) (c.z k j)) :
    eadd (c.z a b) (fin ε) ≤ eadd (c.z a m) (c.z m b) := by
  have hi : i ≤ n := hla ▸ lead_le_n c lead hl ha
  have hj : j ≤ n := hlb ▸ lead_le_n c lead hl hb
  have hk : k ≤ n := hlm ▸ lead_le_n c lead hl hm
  have zai : ZEq c.e a i := hla ▸ (hl.zeq a ha).symm
  have zjb : ZEq c.e j b := hlb ▸ hl.zeq b hb
  have zkm : ZEq c.e k m := hlm ▸ hl.zeq m hm
  obtain ⟨α, e1, _⟩ := c.zeq_fin ha zai
  obtain ⟨β, e2, _⟩ := c.zeq_fin hj zjb
  obtain ⟨μ, e3, e4⟩ := c.zeq_fin hk zkm
  rw [c.shift_row hc ha hi hb zai, c.shift_col hc hi hb hj zjb,
    c.shift_row hc ha hi hm zai, c.shift_col hc hi hm hk zkm,
    c.shift_row hc hm hk hb zkm.symm, c.shift_col hc hk hb hj zjb, hq, e1, e2, e3, e4]
  cases hX : c.z i k <;> cases hY : c.z k j <;> rw [hX, hY] at hε <;>
    simp [eadd, ExtRat.addUp] at hε ⊢
  linarith

theorem bumped_closed {i j : Nat} (hij : i ≠ j) {q ε : Rat} (hε0 : 0 ≤ ε)
    (hq : c.z i j = fin q)
    (hε : ∀ k, k ≤ n → lead k = k → k ≠ i → k ≠ j → eadd (fin q) (fin ε) ≤ eadd (c.z i k) (c.z k j)) :
    Closed (n+1) (bumped c.z lead i j ε) := by
  constructor
  · intro a ha
    rw [bumped_apply, if_neg (by rintro ⟨h1, h2⟩; exact hij (h1.symm.trans h2))]
    exact c.z_self (by omega)
  · intro a b m ha hb hm
    have ha' : a ≤ n := by omega
    have hb' : b ≤ n := by omega
    have hm' : m ≤ n := by omega
    by_cases hab : lead a = i ∧ lead b = j
    · rw [bumped_apply c.z lead i j ε a b, if_pos hab]
      by_cases hmi : lead m = i
      · rw [bumped_apply c.z lead i j ε a m, if_neg (by rintro ⟨_, h2⟩; exact hij (hmi.symm.trans h2)),
          bumped_apply c.z lead i j ε m b, if_pos ⟨hmi, hab.2⟩, ← eadd_assoc]
        exact eadd_mono (hc.tri m ha' hb' hm') (ExtRat.le_rfl' _)
      by_cases hmj : lead m = j
      · rw [bumped_apply c.z lead i j ε a m, if_pos ⟨hab.1, hmj⟩,
          bumped_apply c.z lead i j ε m b, if_neg (by rintro ⟨h1, _⟩; exact hmi h1),
          eadd_assoc, eadd_comm (fin ε), ← eadd_assoc]
        exact eadd_mono (hc.tri m ha' hb' hm') (ExtRat.le_rfl' _)
      · rw [bumped_apply c.z lead i j ε a m, if_neg (by rintro ⟨_, h2⟩; exact hmj h2),
          bumped_apply c.z lead i j ε m b, if_neg (by rintro ⟨h1, _⟩; exact hmi h1)]
        exact gap_tri c hc lead hl ha' hb' hm' hab.1 hab.2 rfl hq
          (hε (lead m) (lead_le_n c lead hl hm') (lead_idem c hc lead hl hm') hmi hmj)
    · rw [bumped_apply c.z lead i j ε a b, if_neg hab]
      exact ExtRat.le_trans' (hc.tri m ha' hb' hm')
        (eadd_mono (le_bumped c.z lead i j hε0 a m) (le_bumped c.z lead i j hε0 m b))

end

section
variable (c : DBM n) (hc : c.IsClosed) (lead pred : Nat → Nat) (hl : IsLeaderMap n c.e lead)
  (hp : IsPredMap n c.e pred) (red : BMat) (hr : IsReduction n c.e lead pred red)

include hc hl hp hr in
/-- M3 (strong): a kept entry between two leaders is irredundant — without it the set of points grows -/
theorem bds_reduced_irredundant_strong (i j : Nat) (hi : i ≤ n) (hj : j ≤ n) (h : red i j = false)
    (hli : lead i = i) (hlj : lead j = j) :
    ∃ x, x ∉ DBM.γ c ∧ ∀ a b, a ≤ n → b ≤ n → ¬ (a = i ∧ b = j) →
      fin (DBM.val x b - DBM.val x a) ≤ (c.reduced red).e a b := by
  obtain ⟨hij, ⟨q, hq⟩, hA⟩ := bds_reduced_irredundant c hc lead pred hl hp red hr i j hi hj h hli hlj
  have hqz : c.z i j = fin q := by rw [c.z_ne hij]; exact hq
  obtain ⟨ε, hε0, hεle⟩ := exists_pos_le_all (List.range (n+1)) (gapAt c.z i j q)
    (fun k _ => gapAt_pos _ _ _ _ _)
  have hε : ∀ k, k ≤ n → lead k = k → k ≠ i → k ≠ j →
      eadd (fin q) (fin ε) ≤ eadd (c.z i k) (c.z k j) := by
    intro k hk hlk hki hkj
    apply le_of_gapAt (hεle k (List.mem_range.2 (by omega)))
    rw [c.z_ne (Ne.symm hki), c.z_ne hkj, ← hq]
    exact hA k hk hlk hki hkj
  have hD := bumped_closed c hc lead hl hij (le_of_lt hε0) hqz hε
  have hDij : bumped c.z lead i j ε i j = fin (q + ε) := by
    rw [bumped_apply, if_pos ⟨hli, hlj⟩, hqz]
    rfl
  obtain ⟨p, hp', hd⟩ := hD.tight_fin (a := i) (b := j) (by omega) (by omega) hij hDij
  have hv : ∀ a, DBM.val (fun k => p (k+1) - p 0) a = p a - p 0 := by
    intro a; cases a <;> simp [DBM.val]
  refine ⟨fun k => p (k+1) - p 0, ?_, ?_⟩
  · intro hx
    have := hx i j hi hj
    rw [hv, hv, hq, ExtRat.fin_le_fin] at this
    linarith
  · intro a b ha hb hab
    rw [hv, hv]
    have e : p b - p 0 - (p a - p 0) = p b - p a := by ring
    have e' : (c.reduced red).e a b = if red a b then pinf else c.e a b := rfl
    rw [e, e']
    cases hk : red a b with
    | true => exact ExtRat.le_pinf _
    | false =>
      simp only [Bool.false_eq_true, if_false]
      by_cases hne : a = b
      · rw [hne, c.diag b hb]; exact ExtRat.le_pinf _
      · have h1 := hp' a b ⟨by omega, by omega⟩
        have hnot : ¬ (lead a = i ∧ lead b = j) := by
          rintro ⟨h2, h3⟩
          by_cases hz : ZEq c.e a b
          · exact hij (h2.symm.trans ((lead_eq_of_zeq c hc lead hl ha hb hz).trans h3))
          · obtain ⟨h4, h5⟩ := bds_reduced_cross_class c hc lead pred hl hp red hr a b ha hb hk hz
            exact hab ⟨h4.symm.trans h2, h5.symm.trans h3⟩
        rw [bumped_apply, if_neg hnot, c.z_ne hne] at h1
        exact h1

end
end PPLV.WR
