import PPLV.WR.Trans
import PPLV.WR.ClosureProofsDeduce
import Mathlib.Tactic.Linarith
import Mathlib.Tactic.FieldSimp
import Mathlib.Tactic.Ring
import Mathlib.Tactic.NormNum
import Mathlib.Tactic.Push
/-!
# `BD_Shape::refine_no_check(const Constraint&)`, `add_constraint(const Constraint&)`: soundness

For every rounding with `fin q ≤ R.up q` the models `refineNoCheck` and `addConstraint` keep every
point of the shape that satisfies the constraint and only lower entries; a shape is marked empty only
when no point satisfies the constraint.  With exact arithmetic and a constraint that is a bounded
difference the result is exactly the intersection (`refineNoCheck_exact`).
-/
namespace PPLV.WR
open ExtRat

/-- `x` satisfies the constraint `cf·x + inhomo ⋈ 0` of space dimension `sd` -/
def CSat (cf : Nat → Int) (sd : Nat) (inhomo : Int) (kind : CKind) (x : Nat → Rat) : Prop :=
  match kind with
  | .eq => linEval cf x sd + inhomo = 0
  | .ge => 0 ≤ linEval cf x sd + inhomo
  | .gt => 0 < linEval cf x sd + inhomo

/-! ## `first_nonzero`, `all_zeroes` -/

theorem firstNonzeroAux_spec (cf : Nat → Int) (f : Nat) : ∀ k,
    k ≤ firstNonzeroAux cf k f ∧ firstNonzeroAux cf k f ≤ k + f ∧
    (∀ t, k ≤ t → t < firstNonzeroAux cf k f → cf (t - 1) = 0) ∧
    (firstNonzeroAux cf k f < k + f → cf (firstNonzeroAux cf k f - 1) ≠ 0) := by
  induction f with
  | zero =>
    intro k
    simp only [firstNonzeroAux]
    exact ⟨le_refl _, by omega, fun t h1 h2 => by omega, fun h => by omega⟩
  | succ f ih =>
    intro k
    simp only [firstNonzeroAux]
    split
    · rename_i h
      exact ⟨le_refl _, by omega, fun t h1 h2 => by omega, fun _ => h⟩
    · rename_i h
      obtain ⟨h1, h2, h3, h4⟩ := ih (k + 1)
      refine ⟨by omega, by omega, fun t ht1 ht2 => ?_, fun hlt => h4 (by omega)⟩
      by_cases htk : t = k
      · subst htk; exact not_not.1 h
      · exact h3 t (by omega) ht2

theorem firstNonzero_spec (cf : Nat → Int) {lo hi : Nat} (h : lo ≤ hi) :
    lo ≤ firstNonzero cf lo hi ∧ firstNonzero cf lo hi ≤ hi ∧
    (∀ t, lo ≤ t → t < firstNonzero cf lo hi → cf (t - 1) = 0) ∧
    (firstNonzero cf lo hi < hi → cf (firstNonzero cf lo hi - 1) ≠ 0) := by
  have := firstNonzeroAux_spec cf (hi - lo) lo
  have e : lo + (hi - lo) = hi := by omega
  rw [e] at this
  exact this

/-! ## expressions with at most two non-zero coefficients -/

theorem linEval_zero_of (cf : Nat → Int) (x : Nat → Rat) (sd : Nat) (h : ∀ t, t < sd → cf t = 0) :
    linEval cf x sd = 0 := by
  induction sd with
  | zero => rfl
  | succ k ih =>
    simp only [linEval]
    rw [ih (fun t ht => h t (by omega)), h k (by omega)]
    simp

theorem linEval_extract (cf : Nat → Int) (x : Nat → Rat) (a sd : Nat) :
    linEval cf x sd = linEval (fun t => if t = a then 0 else cf t) x sd
      + (if a < sd then (cf a : Rat) * x a else 0) := by
  induction sd with
  | zero => simp [linEval]
  | succ k ih =>
    simp only [linEval, ih]
    by_cases hka : k = a
    · subst hka
      simp
    · rw [if_neg hka]
      split_ifs <;> first | (exfalso; omega) | ring1

theorem linEval_support1 (cf : Nat → Int) (x : Nat → Rat) {a sd : Nat} (ha : a < sd)
    (h : ∀ t, t < sd → t ≠ a → cf t = 0) : linEval cf x sd = (cf a : Rat) * x a := by
  rw [linEval_extract cf x a sd, if_pos ha, linEval_zero_of]
  · simp
  · intro t ht
    by_cases hta : t = a
    · simp [hta]
    · simp [hta, h t ht hta]

theorem linEval_support2 (cf : Nat → Int) (x : Nat → Rat) {a b sd : Nat} (hab : a ≠ b) (ha : a < sd)
    (hb : b < sd) (h : ∀ t, t < sd → t ≠ a → t ≠ b → cf t = 0) :
    linEval cf x sd = (cf a : Rat) * x a + (cf b : Rat) * x b := by
  rw [linEval_extract cf x a sd, if_pos ha, linEval_support1 _ x hb]
  · simp only [if_neg (Ne.symm hab)]
    ring
  · intro t ht htb
    by_cases hta : t = a
    · simp [hta]
    · simp [hta, h t ht hta htb]

/-! ## `extract_bounded_difference` -/

/-- the normal form of a proper bounded difference: `cf·x = coeff * (val x j - val x i)` -/
structure BDShape (sd : Nat) (cf : Nat → Int) (r : BDX) : Prop where
  hi : r.i ≤ sd
  hj : r.j ≤ sd
  hij : r.i ≠ r.j
  hc : r.coeff ≠ 0
  hlin : ∀ x, linEval cf x sd = (r.coeff : Rat) * (DBM.val x r.j - DBM.val x r.i)

theorem extractBoundedDifference_spec (sd : Nat) (cf : Nat → Int)
    (hok : (extractBoundedDifference sd cf).ok = true) :
    ((extractBoundedDifference sd cf).numVars = 0 ∧ ∀ x, linEval cf x sd = 0) ∨
    ((extractBoundedDifference sd cf).numVars ≠ 0 ∧ BDShape sd cf (extractBoundedDifference sd cf)) := by
  obtain ⟨f1, f2, f3, f4⟩ := firstNonzero_spec cf (show 1 ≤ sd + 1 by omega)
  unfold extractBoundedDifference at hok ⊢
  dsimp only at hok ⊢
  generalize firstNonzero cf 1 (sd + 1) = i at *
  by_cases h1 : i = sd + 1
  · left
    rw [if_pos h1]
    refine ⟨rfl, fun x => linEval_zero_of _ _ _ (fun t ht => ?_)⟩
    have := f3 (t + 1) (by omega) (by omega)
    simpa using this
  · rw [if_neg h1] at hok ⊢
    obtain ⟨s1, s2, s3, s4⟩ := firstNonzero_spec cf (show i + 1 ≤ sd + 1 by omega)
    generalize firstNonzero cf (i + 1) (sd + 1) = j at *
    obtain ⟨i', rfl⟩ : ∃ i', i = i' + 1 := ⟨i - 1, by omega⟩
    have hci : cf i' ≠ 0 := by simpa using f4 (by omega)
    have zlo : ∀ t, t < i' → cf t = 0 := by
      intro t ht
      have := f3 (t + 1) (by omega) (by omega)
      simpa using this
    have zmid : ∀ t, i' < t → t + 1 < j → cf t = 0 := by
      intro t ht1 ht2
      have := s3 (t + 1) (by omega) (by omega)
      simpa using this
    right
    by_cases h2 : j = sd + 1
    · rw [if_pos h2]
      refine ⟨by simp, ⟨by dsimp only; omega, by dsimp only; omega, by dsimp only; omega, ?_, ?_⟩⟩
      · dsimp only
        simpa using hci
      · intro x
        dsimp only
        rw [linEval_support1 cf x (a := i') (by omega)]
        · simp only [DBM.val, Nat.add_sub_cancel]
          push_cast
          ring
        · intro t ht hta
          rcases Nat.lt_or_gt_of_ne hta with hlt | hgt
          · exact zlo t hlt
          · exact zmid t hgt (by omega)
    · rw [if_neg h2] at hok ⊢
      by_cases h3 : (!allZeroes cf (j + 1) (sd + 1)) = true
      · rw [if_pos h3] at hok
        simp at hok
      · rw [if_neg h3] at hok ⊢
        by_cases h4 : Int.sign (cf (i' + 1 - 1)) = Int.sign (cf (j - 1)) ∨ cf (i' + 1 - 1) ≠ - cf (j - 1)
        · rw [if_pos h4] at hok
          simp at hok
        · rw [if_neg h4]
          obtain ⟨j', rfl⟩ : ∃ j', j = j' + 1 := ⟨j - 1, by omega⟩
          have hcj : cf j' ≠ 0 := by simpa using s4 (by omega)
          have h01 : cf i' = - cf j' := by
            have := not_or.1 h4
            simpa using this.2
          have hall : firstNonzero cf (j' + 1 + 1) (sd + 1) = sd + 1 := by
            simpa [allZeroes] using h3
          obtain ⟨u1, u2, u3, u4⟩ := firstNonzero_spec cf (show j' + 1 + 1 ≤ sd + 1 by omega)
          rw [hall] at u3
          have zhi : ∀ t, j' < t → t < sd → cf t = 0 := by
            intro t ht1 ht2
            have := u3 (t + 1) (by omega) (by omega)
            simpa using this
          refine ⟨by simp, ⟨by dsimp only; omega, by dsimp only; omega, by dsimp only; omega, ?_, ?_⟩⟩
          · dsimp only
            simpa using hcj
          · intro x
            dsimp only
            rw [linEval_support2 cf x (a := i') (b := j') (by omega) (by omega) (by omega)]
            · simp only [DBM.val, Nat.add_sub_cancel]
              rw [h01]
              push_cast
              ring
            · intro t ht hta htb
              rcases Nat.lt_or_gt_of_ne hta with hlt | hgt
              · exact zlo t hlt
              · rcases Nat.lt_or_gt_of_ne htb with hlt' | hgt'
                · exact zmid t hgt (by omega)
                · exact zhi t hgt' ht

/-! ## the common tail `addBD` -/

/-- `addBD` on the chosen cell `(a, b)` with the positive divisor `c` -/
def addBD2 (R : Rnd) (m : Mat) (a b : Nat) (c inhomo : Int) (isEq : Bool) : Mat :=
  let m1 := if m a b ≤ divRoundUp R inhomo c then m else m.set a b (divRoundUp R inhomo c)
  if isEq then
    (if m1 b a ≤ divRoundUp R (- inhomo) c then m1 else m1.set b a (divRoundUp R (- inhomo) c))
  else m1

theorem addBD_eq (R : Rnd) (m : Mat) (x : BDX) (inhomo : Int) (isEq : Bool) :
    addBD R m x inhomo isEq =
      if x.coeff < 0 then addBD2 R m x.i x.j (- x.coeff) inhomo isEq
      else addBD2 R m x.j x.i x.coeff inhomo isEq := by
  unfold addBD addBD2
  by_cases h : x.coeff < 0 <;> simp [h]

theorem pres_store {S : Nat → Nat → Prop} {P : (Nat → Rat) → Prop} (m : Mat) (a b : Nat) (d : ExtRat)
    (hb : ∀ p, P p → fin (p b - p a) ≤ d) :
    Pres S P m (if m a b ≤ d then m else m.set a b d) := by
  split
  · exact Pres.refl _
  · rename_i h
    exact Pres.set ((le_total' _ _).resolve_left h) (fun p hp _ _ => hb p hp)

theorem le_div_of_sat {c i : Rat} (hc : 0 < c) {u v : Rat} (h : 0 ≤ c * (u - v) + i) :
    v - u ≤ i / c := by
  rw [le_div_iff₀ hc]
  linarith

theorem pres_addBD2 {R : Rnd} (hup : ∀ q, fin q ≤ R.up q) {S : Nat → Nat → Prop} (m : Mat) (a b : Nat)
    {c : Int} (hc : 0 < c) (inhomo : Int) (isEq : Bool) :
    Pres S (fun p => 0 ≤ (c : Rat) * (p a - p b) + inhomo ∧
        (isEq = true → (c : Rat) * (p a - p b) + inhomo = 0)) m (addBD2 R m a b c inhomo isEq) := by
  have hc' : (0 : Rat) < c := by exact_mod_cast hc
  unfold addBD2
  dsimp only
  refine Pres.trans (b := if m a b ≤ divRoundUp R inhomo c then m else m.set a b (divRoundUp R inhomo c))
    (pres_store _ _ _ _ ?_) ?_
  · intro p hp
    exact le_trans' (fin_le_fin.2 (le_div_of_sat hc' hp.1)) (hup _)
  · generalize (if m a b ≤ divRoundUp R inhomo c then m else m.set a b (divRoundUp R inhomo c)) = m1
    split
    · rename_i he
      refine pres_store _ _ _ _ ?_
      intro p hp
      refine le_trans' (fin_le_fin.2 ?_) (hup _)
      have h0 := hp.2 he
      push_cast
      apply le_div_of_sat hc'
      linarith
    · exact Pres.refl _

/-- the cells written by `addBD2` are below the stored quotients -/
theorem addBD2_cell (R : Rnd) (m : Mat) {a b : Nat} (hab : a ≠ b) (c inhomo : Int) (isEq : Bool) :
    addBD2 R m a b c inhomo isEq a b ≤ divRoundUp R inhomo c ∧
    (isEq = true → addBD2 R m a b c inhomo isEq b a ≤ divRoundUp R (- inhomo) c) := by
  have h1 : (if m a b ≤ divRoundUp R inhomo c then m else m.set a b (divRoundUp R inhomo c)) a b
      ≤ divRoundUp R inhomo c := by
    split
    · assumption
    · simp [Mat.set_apply, le_rfl']
  unfold addBD2
  dsimp only
  generalize (if m a b ≤ divRoundUp R inhomo c then m else m.set a b (divRoundUp R inhomo c)) = m1
    at h1 ⊢
  cases isEq with
  | false => exact ⟨by simpa using h1, by simp⟩
  | true =>
    simp only [if_true]
    constructor
    · split
      · exact h1
      · rw [Mat.set_apply, if_neg (fun h => hab h.1)]
        exact h1
    · intro _
      split
      · assumption
      · simp [Mat.set_apply, le_rfl']

/-! ## soundness -/

theorem CSat.ge {cf : Nat → Int} {sd : Nat} {inhomo : Int} {kind : CKind} {x : Nat → Rat}
    (h : CSat cf sd inhomo kind x) : 0 ≤ linEval cf x sd + inhomo := by
  cases kind <;> simp only [CSat] at h
  · exact le_of_eq h.symm
  · exact h
  · exact le_of_lt h

theorem CSat.eq_of {cf : Nat → Int} {sd : Nat} {inhomo : Int} {kind : CKind} {x : Nat → Rat}
    (h : CSat cf sd inhomo kind x) (hk : kind = .eq) : linEval cf x sd + inhomo = 0 := by
  subst hk; exact h

/-- the bounded-difference branch of both functions -/
theorem addBD_sound {R : Rnd} (hup : ∀ q, fin q ≤ R.up q) {n sd : Nat} (_hsd : sd ≤ n)
    {cf : Nat → Int} {r : BDX} (hr : BDShape sd cf r) (inhomo : Int) (kind : CKind) (m : Mat)
    {x : Nat → Rat} (hx : x ∈ γB n m) (hc : CSat cf sd inhomo kind x) :
    x ∈ γB n (addBD R m r inhomo (decide (kind = .eq))) ∧
      MLe (addBD R m r inhomo (decide (kind = .eq))) m := by
  have hge := hc.ge
  rw [hr.hlin x] at hge
  rw [addBD_eq]
  split
  · rename_i hneg
    have hp := pres_addBD2 hup (S := SB (n + 1)) m r.i r.j (c := - r.coeff) (by omega) inhomo
      (decide (kind = .eq))
    refine ⟨hp.1 (DBM.val x) ⟨?_, fun he => ?_⟩ hx, hp.2⟩
    · push_cast; linarith
    · have := hc.eq_of (of_decide_eq_true he)
      rw [hr.hlin x] at this
      push_cast; linarith
  · rename_i hneg
    have hp := pres_addBD2 hup (S := SB (n + 1)) m r.j r.i (c := r.coeff)
      (by have := hr.hc; omega) inhomo (decide (kind = .eq))
    refine ⟨hp.1 (DBM.val x) ⟨?_, fun he => ?_⟩ hx, hp.2⟩
    · linarith
    · have := hc.eq_of (of_decide_eq_true he)
      rw [hr.hlin x] at this
      linarith

theorem mle_refl (m : Mat) : MLe m m := fun _ _ => le_rfl' _

theorem refineNoCheck_sound {R : Rnd} (hup : ∀ q, fin q ≤ R.up q) {n sd : Nat} (hsd : sd ≤ n)
    (cf : Nat → Int) (inhomo : Int) (kind : CKind) (m : Mat) {x : Nat → Rat} (hx : x ∈ γB n m)
    (hc : CSat cf sd inhomo kind x) :
    match refineNoCheck R sd cf inhomo kind m with
    | .ok m' => x ∈ γB n m' ∧ MLe m' m
    | .empty => False
    | .throws => False := by
  unfold refineNoCheck
  dsimp only
  by_cases hok : (extractBoundedDifference sd cf).ok = true
  · rw [if_neg (by simp [hok])]
    rcases extractBoundedDifference_spec sd cf hok with ⟨h0, hl⟩ | ⟨h0, hs⟩
    · rw [if_pos h0]
      have hl := hl x
      by_cases hcond : inhomo < 0 ∨ (kind = .eq ∧ inhomo ≠ 0) ∨ (kind = .gt ∧ inhomo = 0)
      · rw [if_pos hcond]
        show False
        cases kind <;> simp only [CSat, hl, zero_add] at hc <;>
          simp only [reduceCtorEq, false_and, true_and, or_false, false_or] at hcond
        · have h1 : inhomo = 0 := by exact_mod_cast hc
          omega
        · have h1 : 0 ≤ inhomo := by exact_mod_cast hc
          omega
        · have h1 : 0 < inhomo := by exact_mod_cast hc
          omega
      · rw [if_neg hcond]
        exact ⟨hx, mle_refl m⟩
    · rw [if_neg h0]
      exact addBD_sound hup hsd hs inhomo kind m hx hc
  · rw [if_pos (by simpa using hok)]
    exact ⟨hx, mle_refl m⟩

theorem addConstraint_sound {R : Rnd} (hup : ∀ q, fin q ≤ R.up q) {n sd : Nat} (hsd : sd ≤ n)
    (cf : Nat → Int) (inhomo : Int) (kind : CKind) (m : Mat) {x : Nat → Rat} (hx : x ∈ γB n m)
    (hc : CSat cf sd inhomo kind x) :
    match addConstraint R sd cf inhomo kind m with
    | .ok m' => x ∈ γB n m' ∧ MLe m' m
    | .empty => False
    | .throws => True := by
  unfold addConstraint
  dsimp only
  by_cases hgt : kind = .gt
  · rw [if_pos hgt]
    by_cases h : (extractBoundedDifference sd cf).ok = true ∧ (extractBoundedDifference sd cf).numVars = 0
    · rw [if_pos h]
      rcases extractBoundedDifference_spec sd cf h.1 with ⟨_, hl⟩ | ⟨h0, _⟩
      · subst hgt
        simp only [CSat, hl x, zero_add] at hc
        have h1 : 0 < inhomo := by exact_mod_cast hc
        rw [if_neg (by omega)]
        exact ⟨hx, mle_refl m⟩
      · exact absurd h.2 h0
    · rw [if_neg h]
      trivial
  · rw [if_neg hgt]
    by_cases hok : (extractBoundedDifference sd cf).ok = true
    · rw [if_neg (by simp [hok])]
      rcases extractBoundedDifference_spec sd cf hok with ⟨h0, hl⟩ | ⟨h0, hs⟩
      · rw [if_pos h0]
        have hl := hl x
        by_cases hcond : inhomo < 0 ∨ (inhomo ≠ 0 ∧ kind = .eq)
        · rw [if_pos hcond]
          show False
          cases kind <;> simp only [CSat, hl, zero_add] at hc <;>
            simp only [reduceCtorEq, and_false, and_true, or_false] at hcond
          · have h1 : inhomo = 0 := by exact_mod_cast hc
            omega
          · have h1 : 0 ≤ inhomo := by exact_mod_cast hc
            omega
          · exact hgt rfl
        · rw [if_neg hcond]
          exact ⟨hx, mle_refl m⟩
      · rw [if_neg h0]
        exact addBD_sound hup hsd hs inhomo kind m hx hc
    · rw [if_pos (by simpa using hok)]
      trivial

/-! ## exactness for `mpq_class` bounds and a proper bounded difference -/

theorem holds_of_mle {S : Nat → Nat → Prop} {p : Nat → Rat} {m' m : Mat} (h : Holds S p m')
    (hle : MLe m' m) : Holds S p m := fun a b hab => le_trans' (h a b hab) (hle a b)

theorem sat_of_le_div {c i : Rat} (hc : 0 < c) {u v : Rat} (h : v - u ≤ i / c) :
    0 ≤ c * (u - v) + i := by
  rw [le_div_iff₀ hc] at h
  linarith

/-- with exact quotients the two cells written by `addBD2` imply the constraint -/
theorem addBD2_exact_conv {S : Nat → Nat → Prop} (m : Mat) {a b : Nat} (hab : a ≠ b) (hS : S a b)
    (hS' : S b a) {c : Int} (hc : 0 < c) (inhomo : Int) (isEq : Bool) {p : Nat → Rat}
    (h : Holds S p (addBD2 Rnd.exact m a b c inhomo isEq)) :
    0 ≤ (c : Rat) * (p a - p b) + inhomo ∧ (isEq = true → (c : Rat) * (p a - p b) + inhomo = 0) := by
  have hc' : (0 : Rat) < c := by exact_mod_cast hc
  obtain ⟨c1, c2⟩ := addBD2_cell Rnd.exact m hab c inhomo isEq
  have h1 : p b - p a ≤ (inhomo : Rat) / (c : Rat) := fin_le_fin.1 (le_trans' (h a b hS) c1)
  have g1 := sat_of_le_div hc' h1
  refine ⟨g1, fun he => ?_⟩
  have h2 : p a - p b ≤ ((- inhomo : Int) : Rat) / (c : Rat) :=
    fin_le_fin.1 (le_trans' (h b a hS') (c2 he))
  have g2 := sat_of_le_div hc' h2
  push_cast at g2
  linarith

theorem addBD_mle {R : Rnd} (hup : ∀ q, fin q ≤ R.up q) (m : Mat) (r : BDX) (hc : r.coeff ≠ 0)
    (inhomo : Int) (isEq : Bool) : MLe (addBD R m r inhomo isEq) m := by
  rw [addBD_eq]
  split
  · exact (pres_addBD2 hup (S := fun _ _ => True) m r.i r.j (c := - r.coeff) (by omega) inhomo isEq).2
  · exact (pres_addBD2 hup (S := fun _ _ => True) m r.j r.i (c := r.coeff) (by omega) inhomo isEq).2

theorem addBD_exact_conv {n sd : Nat} (hsd : sd ≤ n) {cf : Nat → Int} {r : BDX} (hr : BDShape sd cf r)
    (inhomo : Int) {kind : CKind} (hk : kind ≠ .gt) (m : Mat) {y : Nat → Rat}
    (hy : y ∈ γB n (addBD Rnd.exact m r inhomo (decide (kind = .eq)))) : CSat cf sd inhomo kind y := by
  have hi : r.i < n + 1 := by have := hr.hi; omega
  have hj : r.j < n + 1 := by have := hr.hj; omega
  have hy' : Holds (SB (n + 1)) (DBM.val y) (addBD Rnd.exact m r inhomo (decide (kind = .eq))) := hy
  rw [addBD_eq] at hy'
  have key : 0 ≤ (r.coeff : Rat) * (DBM.val y r.j - DBM.val y r.i) + inhomo ∧
      (kind = .eq → (r.coeff : Rat) * (DBM.val y r.j - DBM.val y r.i) + inhomo = 0) := by
    split at hy'
    · rename_i hneg
      obtain ⟨g1, g2⟩ := addBD2_exact_conv m hr.hij ⟨hi, hj⟩ ⟨hj, hi⟩ (c := - r.coeff) (by omega) inhomo
        (decide (kind = .eq)) hy'
      push_cast at g1 g2
      refine ⟨by linarith, fun he => ?_⟩
      have := g2 (decide_eq_true he)
      linarith
    · rename_i hneg
      have hc := hr.hc
      obtain ⟨g1, g2⟩ := addBD2_exact_conv m (Ne.symm hr.hij) ⟨hj, hi⟩ ⟨hi, hj⟩ (c := r.coeff) (by omega)
        inhomo (decide (kind = .eq)) hy'
      refine ⟨by linarith, fun he => ?_⟩
      have := g2 (decide_eq_true he)
      linarith
  cases kind with
  | eq => simp only [CSat]; rw [hr.hlin y]; exact key.2 rfl
  | ge => simp only [CSat]; rw [hr.hlin y]; exact key.1
  | gt => exact absurd rfl hk

theorem refineNoCheck_exact {n sd : Nat} (hsd : sd ≤ n) (cf : Nat → Int) (inhomo : Int) (kind : CKind)
    (m : Mat) (hbd : (extractBoundedDifference sd cf).ok = true) (hk : kind ≠ .gt) :
    match refineNoCheck Rnd.exact sd cf inhomo kind m with
    | .ok m' => ∀ y, y ∈ γB n m' ↔ (y ∈ γB n m ∧ CSat cf sd inhomo kind y)
    | .empty => ¬ ∃ y, y ∈ γB n m ∧ CSat cf sd inhomo kind y
    | .throws => False := by
  have hup : ∀ q, fin q ≤ Rnd.exact.up q := upId_sound
  have hsound := fun (y : Nat → Rat) (hy : y ∈ γB n m) (hc : CSat cf sd inhomo kind y) =>
    refineNoCheck_sound hup hsd cf inhomo kind m hy hc
  revert hsound
  unfold refineNoCheck
  dsimp only
  rw [if_neg (by simp [hbd])]
  rcases extractBoundedDifference_spec sd cf hbd with ⟨h0, hl⟩ | ⟨h0, hs⟩
  · rw [if_pos h0]
    by_cases hcond : inhomo < 0 ∨ (kind = .eq ∧ inhomo ≠ 0) ∨ (kind = .gt ∧ inhomo = 0)
    · rw [if_pos hcond]
      intro hsound
      show ¬ ∃ y, y ∈ γB n m ∧ CSat cf sd inhomo kind y
      rintro ⟨y, hy, hc⟩
      exact hsound y hy hc
    · rw [if_neg hcond]
      intro _
      show ∀ y, y ∈ γB n m ↔ (y ∈ γB n m ∧ CSat cf sd inhomo kind y)
      intro y
      refine ⟨fun hy => ⟨hy, ?_⟩, fun h => h.1⟩
      cases kind <;> simp only [CSat, hl y, zero_add] <;>
        simp only [reduceCtorEq, false_and, true_and, or_false, false_or] at hcond
      · have : inhomo = 0 := by omega
        exact_mod_cast this
      · have : 0 ≤ inhomo := by omega
        exact_mod_cast this
      · exact absurd rfl hk
  · rw [if_neg h0]
    intro hsound
    show ∀ y, y ∈ γB n (addBD Rnd.exact m (extractBoundedDifference sd cf) inhomo (decide (kind = .eq))) ↔
      (y ∈ γB n m ∧ CSat cf sd inhomo kind y)
    intro y
    constructor
    · intro hy
      exact ⟨holds_of_mle hy (addBD_mle hup m _ hs.hc inhomo _), addBD_exact_conv hsd hs inhomo hk m hy⟩
    · rintro ⟨hy, hc⟩
      exact (hsound y hy hc).1

end PPLV.WR
