import PPLV.WR.TransProofsBndDim
/-!
# `refine(var, relsym, expr, den)`, `affine_preimage`, `generalized_affine_preimage(var, …)`
-/
set_option linter.unusedVariables false
set_option linter.unusedSimpArgs false
namespace PPLV.WR
open ExtRat

theorem addDbmF_fst (mf : Mat × Bool) (i j : Nat) (k : ExtRat) :
    (addDbmF mf i j k).1 = addDbmConstraint mf.1 i j k := by
  unfold addDbmF addDbmConstraint
  split <;> rfl

theorem holds_self_upd {n var : Nat} {x : Nat → Rat} {m : Mat} (hx : Holds (SB (n+1)) (DBM.val x) m) :
    Holds (SB (n+1)) (DBM.val (upd x var (x var))) m := by rw [upd_self]; exact hx

theorem unaryEq_refl (v : Nat) (m : Mat) : UnaryEq v m m := fun _ _ => ⟨rfl, rfl⟩

/-! ## general case of `refine` -/

def refGenEq (R : Rnd) (v w : Nat) (sc : Nat → Int) (scb mscb scd : Int) (m : Mat) : Mat × Bool :=
  let pn := loopUp w (fun i (pq : Acc × Acc) => (accStepA R m sc true i pq.1, accStepA R m sc false i pq.2))
    (⟨R.up (scb : Rat), 0, 0⟩, ⟨R.up (mscb : Rat), 0, 0⟩)
  if pn.1.cnt > 1 ∧ pn.2.cnt > 1 then (m, true)
  else (exploitLower R v w sc scd pn.2 (exploitUpper R v w sc scd pn.1 m), false)

def refGenLe (R : Rnd) (v w : Nat) (e : Nat → Int) (den : Int) (sc : Nat → Int) (scb scd : Int) (m : Mat) :
    Mat × Bool :=
  let st := loopUp w (accStepG R m sc true) ⟨R.up (scb : Rat), 0, 0⟩
  let sum := if scd ≠ 1 then divRoundUpByPositive R st.sum scd else st.sum
  if st.cnt = 0 then
    let mf := addDbmF (m, true) 0 v sum
    (deduceVMinusU R.up v w sc scd sum mf.1, mf.2)
  else if st.cnt = 1 then
    if e (st.idx - 1) = den then addDbmF (m, true) st.idx v sum else (m, true)
  else (m, true)

def refGenGe (R : Rnd) (v w : Nat) (e : Nat → Int) (den : Int) (sc : Nat → Int) (mscb scd : Int) (m : Mat) :
    Mat × Bool :=
  let st := loopUp w (accStepG R m sc false) ⟨R.up (mscb : Rat), 0, 0⟩
  let sum := if scd ≠ 1 then divRoundUpByPositive R st.sum scd else st.sum
  if st.cnt = 0 then
    let mf := addDbmF (m, true) v 0 sum
    (deduceUMinusV R.up v w sc scd sum mf.1, mf.2)
  else if st.cnt = 1 then
    if st.idx ≠ v ∧ e (st.idx - 1) = den then addDbmF (m, true) v st.idx sum else (m, true)
  else (m, true)

section
variable {R : Rnd} {n var w : Nat} {sc : Nat → Int} {scb mscb scd : Int} {m : Mat} {x : Nat → Rat}

theorem refGenEq_sound (hR : R.Sound) (hw : w ≤ n) (hc : CoeffExact R sc) (hm : (mscb : Rat) = -(scb : Rat))
    (hd : 0 < scd) (hx : Holds (SB (n+1)) (DBM.val x) m)
    (hval : x var = (linEval sc x w + (scb : Rat)) / (scd : Rat)) :
    Holds (SB (n+1)) (DBM.val x) (refGenEq R (var+1) w sc scb mscb scd m).1 := by
  unfold refGenEq
  dsimp only
  rw [loopUp_prod, accStepA_false]
  have hpos := accLoopA_inv hR hc _ (AccInv.init hR m w sc (scb : Rat)) _ le_rfl
  have hneg := accLoopA_inv hR hc.neg _ (AccInv.init_eq hR m w (fun i => - sc i) hm.symm) _ le_rfl
  split
  · exact hx
  · dsimp only
    have h1 := exploitUpper_holds hR hw hd hx (le_of_eq hval) (holds_self_upd hx) (unaryEq_refl _ m) hpos
    have h2 := exploitLower_holds hR hw hd hx (le_of_eq hval.symm) h1 (by
      intro u hu
      rw [exploitUpper_col _ _ _ _ _ _ _ _ _ (by omega), exploitUpper_col _ _ _ _ _ _ _ _ _ (by omega)]
      exact ⟨rfl, rfl⟩) hneg
    rw [upd_self] at h2
    exact h2

theorem refGenLe_sound (hR : R.Sound) (hw : w ≤ n) {e : Nat → Int} {den : Int} (hc : CoeffExact R sc)
    (hd : 0 < scd) (hsc : ∀ p, e p = den → sc p = scd) (hsv : sc var = 0)
    (hx : Holds (SB (n+1)) (DBM.val x) m)
    (hval : x var ≤ (linEval sc x w + (scb : Rat)) / (scd : Rat)) :
    Holds (SB (n+1)) (DBM.val x) (refGenLe R (var+1) w e den sc scb scd m).1 := by
  unfold refGenLe
  dsimp only
  have hst := accLoopG_inv hR hc _ (AccInv.init hR m w sc (scb : Rat)) _ le_rfl
  generalize loopUp w (accStepG R m sc true) ⟨R.up (scb : Rat), 0, 0⟩ = st at *
  have hxs := holds_self_upd (var := var) hx
  split
  · rename_i h0
    dsimp only
    rw [addDbmF_fst]
    have := upper_deduce (var := var) hR hw hd hx hval (m' := addDbmConstraint m 0 (var+1)
        (if scd ≠ 1 then divRoundUpByPositive R st.sum scd else st.sum)) ?_ ?_ (hst.c0 h0) (hst.f0p h0)
        (fun S' h => fin_le_quot hR hd h)
    · rw [upd_self] at this; exact this
    · refine holds_addDbm hxs (fun _ => ?_)
      rw [upd_self]
      simp only [DBM.val, sub_zero]
      have := fin_le_quot hR hd (hst.c0 h0 x (box_of_holds hx hw))
      rw [add_comm] at this
      exact le_trans' (fin_le_fin.2 hval) this
    · intro u hu
      rw [addDbm_apply, addDbm_apply, if_neg (by omega), if_neg (by omega)]
      exact ⟨rfl, rfl⟩
  · rename_i h0
    split
    · rename_i h1
      split
      · rename_i hcond
        obtain ⟨hi1, hi2, hc1⟩ := hst.c1 h1
        have hn1 := hst.n1 h1
        obtain ⟨p, hp⟩ : ∃ p, st.idx = p + 1 := ⟨st.idx - 1, by omega⟩
        rw [hp] at hcond hn1 ⊢
        simp only [Nat.add_sub_cancel] at hcond hn1
        rw [hp] at hc1
        simp only [Nat.add_sub_cancel] at hc1
        have hpv : p + 1 ≠ var + 1 := by
          intro h
          have : p = var := by omega
          subst this
          exact hn1 hsv
        rw [addDbmF_fst]
        have := holds_addDbm hxs (fun _ => upper_single hw hd hx hval (by omega) hpv (hsc p hcond) hc1
          (fun S' h => fin_le_quot hR hd h))
        rw [upd_self] at this
        exact this
      · exact hx
    · exact hx

theorem refGenGe_sound (hR : R.Sound) (hw : w ≤ n) {e : Nat → Int} {den : Int} (hc : CoeffExact R sc)
    (hm : (mscb : Rat) = -(scb : Rat)) (hd : 0 < scd) (hsc : ∀ p, e p = den → sc p = scd)
    (hx : Holds (SB (n+1)) (DBM.val x) m)
    (hval : (linEval sc x w + (scb : Rat)) / (scd : Rat) ≤ x var) :
    Holds (SB (n+1)) (DBM.val x) (refGenGe R (var+1) w e den sc mscb scd m).1 := by
  unfold refGenGe
  dsimp only
  rw [accStepG_false]
  have hst := accLoopG_inv hR hc.neg _ (AccInv.init_eq hR m w (fun i => - sc i) hm.symm) _ le_rfl
  generalize loopUp w (accStepG R m (fun j => - sc j) true) ⟨R.up (mscb : Rat), 0, 0⟩ = st at *
  have hxs := holds_self_upd (var := var) hx
  split
  · rename_i h0
    dsimp only
    rw [addDbmF_fst]
    have := lower_deduce (var := var) hR hw hd hx hval (m' := addDbmConstraint m (var+1) 0
        (if scd ≠ 1 then divRoundUpByPositive R st.sum scd else st.sum)) ?_ ?_ (hst.c0 h0) (hst.f0n h0)
        (fun S' h => fin_le_quot hR hd h)
    · rw [upd_self] at this; exact this
    · refine holds_addDbm hxs (fun _ => ?_)
      rw [upd_self]
      simp only [DBM.val, zero_sub]
      have := fin_le_quot hR hd (hst.c0 h0 x (box_of_holds hx hw))
      rw [linEval_neg] at this
      have e1 : (-(scb : Rat) + -linEval sc x w) / (scd : Rat) = -((linEval sc x w + scb) / scd) := by ring
      rw [e1] at this
      exact le_trans' (fin_le_fin.2 (by linarith)) this
    · intro u hu
      rw [addDbm_apply, addDbm_apply, if_neg (by omega), if_neg (by omega)]
      exact ⟨rfl, rfl⟩
  · rename_i h0
    split
    · rename_i h1
      split
      · rename_i hcond
        obtain ⟨hi1, hi2, hc1⟩ := hst.c1 h1
        obtain ⟨p, hp⟩ : ∃ p, st.idx = p + 1 := ⟨st.idx - 1, by omega⟩
        rw [hp] at hcond ⊢
        simp only [Nat.add_sub_cancel] at hcond
        rw [hp] at hc1
        simp only [Nat.add_sub_cancel] at hc1
        rw [addDbmF_fst]
        have := holds_addDbm hxs (fun _ => lower_single hw hd hx hval (by omega) hcond.1 (hsc p hcond.2) hc1
          (fun S' h => fin_le_quot hR hd h))
        rw [upd_self] at this
        exact this
      · exact hx
    · exact hx

end

/-! ## `refine(var, relsym, expr, den)` -/

theorem scExpr_zero {e : Nat → Int} {den : Int} {p : Nat} (h : e p = 0) : scExpr e den p = 0 := by
  unfold scExpr; split <;> simp [h]

theorem refineVar_sound {R : Rnd} (hR : R.Sound) {n var : Nat} (hvar : var < n) {e : Nat → Int}
    (hc : CoeffExact R e) (hev : e var = 0) {b den : Int} (hden : den ≠ 0) {m : Mat} {x : Nat → Rat}
    (hx : x ∈ γB n m) (rel : RelSym) (ht : rel.holds (x var) ((linEval e x n + b) / den)) :
    x ∈ γB n (refineVar R n var rel e b den m).1 := by
  have hx' : Holds (SB (n+1)) (DBM.val x) m := hx
  show Holds (SB (n+1)) (DBM.val x) _
  unfold refineVar
  dsimp only
  have hdn := div_negden b den
  by_cases h0 : exprT e (lastNonzero e n) = 0
  · -- `t == 0`
    have hval := linEval_t0 x h0
    rw [hval, zero_add] at ht
    have hT : (if exprT e (lastNonzero e n) = 1 ∧ e (lastNonzero e n - 1) ≠ den then 2
        else exprT e (lastNonzero e n)) = 0 := by rw [if_neg (by omega)]; exact h0
    rw [hT, if_pos rfl]
    cases rel with
    | eq =>
      have ht' : x var = (b : Rat) / den := ht
      dsimp only
      rw [addDbmF_fst, addDbmF_fst]
      refine holds_addDbm (holds_addDbm hx' (fun _ => ?_)) (fun _ => ?_)
      · simp only [DBM.val, sub_zero]; exact fin_le_divRoundUp hR (le_of_eq ht')
      · simp only [DBM.val, zero_sub]; exact fin_le_divRoundUp hR (by rw [hdn]; linarith)
    | le =>
      have ht' : x var ≤ (b : Rat) / den := ht
      dsimp only
      rw [addDbmF_fst]
      refine holds_addDbm hx' (fun _ => ?_)
      simp only [DBM.val, sub_zero]; exact fin_le_divRoundUp hR ht'
    | ge =>
      have ht' : (b : Rat) / den ≤ x var := ht
      dsimp only
      rw [addDbmF_fst]
      refine holds_addDbm hx' (fun _ => ?_)
      simp only [DBM.val, zero_sub]; exact fin_le_divRoundUp hR (by rw [hdn]; linarith)
  · by_cases h1 : exprT e (lastNonzero e n) = 1 ∧ e (lastNonzero e n - 1) = den
    · -- `t == 1`, `a == denominator`
      obtain ⟨hw0, hval⟩ := linEval_t1 x h1.1
      rw [hval, special_val_pos hden h1.2] at ht
      have hT : (if exprT e (lastNonzero e n) = 1 ∧ e (lastNonzero e n - 1) ≠ den then 2
          else exprT e (lastNonzero e n)) = 1 := by
        rw [if_neg (by intro h; exact h.2 h1.2)]; exact h1.1
      rw [hT, if_neg (by decide), if_pos rfl]
      obtain ⟨k, hk⟩ : ∃ k, lastNonzero e n = k + 1 := ⟨lastNonzero e n - 1, by omega⟩
      rw [hk] at ht ⊢
      simp only [Nat.add_sub_cancel] at ht
      cases rel with
      | eq =>
        have ht' : x var = x k + (b : Rat) / den := ht
        dsimp only
        rw [addDbmF_fst, addDbmF_fst]
        refine holds_addDbm (holds_addDbm hx' (fun _ => ?_)) (fun _ => ?_)
        · simp only [DBM.val]; exact fin_le_divRoundUp hR (by linarith)
        · simp only [DBM.val]; exact fin_le_divRoundUp hR (by rw [hdn]; linarith)
      | le =>
        have ht' : x var ≤ x k + (b : Rat) / den := ht
        dsimp only
        rw [addDbmF_fst]
        refine holds_addDbm hx' (fun _ => ?_)
        simp only [DBM.val]; exact fin_le_divRoundUp hR (by linarith)
      | ge =>
        have ht' : x k + (b : Rat) / den ≤ x var := ht
        dsimp only
        rw [addDbmF_fst]
        refine holds_addDbm hx' (fun _ => ?_)
        simp only [DBM.val]; exact fin_le_divRoundUp hR (by rw [hdn]; linarith)
    · -- general case
      have ht2 : (if exprT e (lastNonzero e n) = 1 ∧ e (lastNonzero e n - 1) ≠ den then 2
          else exprT e (lastNonzero e n)) ≠ 0 ∧
          (if exprT e (lastNonzero e n) = 1 ∧ e (lastNonzero e n - 1) ≠ den then 2
          else exprT e (lastNonzero e n)) ≠ 1 := by
        split
        · omega
        · rename_i hh
          refine ⟨h0, fun h => ?_⟩
          apply h1
          refine ⟨h, ?_⟩
          by_contra hne
          exact hh ⟨h, hne⟩
      rw [if_neg ht2.1, if_neg ht2.2]
      rw [sc_value e x n b den] at ht
      have hw := lastNonzero_le e n
      cases rel with
      | eq =>
        exact refGenEq_sound hR hw (hc.sc den) (minus_scb_cast b den) (scDen_pos hden) hx' ht
      | le =>
        exact refGenLe_sound hR hw (hc.sc den) (scDen_pos hden) (fun p h => sc_at_eq h) (scExpr_zero hev) hx' ht
      | ge =>
        exact refGenGe_sound hR hw (hc.sc den) (minus_scb_cast b den) (scDen_pos hden) (fun p h => sc_at_eq h) hx' ht

/-! ## `affine_preimage` -/

theorem linEval_single (c : Int) (x : Nat → Rat) {var n : Nat} (hvar : var < n) :
    linEval (fun i => if i = var then c else 0) x n = (c : Rat) * x var := by
  rw [linEval_zeroAt _ x hvar]
  rw [linEval_all_zero x (fun i hi => by simp [zeroAt]; intro h1 h2; omega)]
  simp

theorem linEval_sub (f g : Nat → Int) (x : Nat → Rat) (k : Nat) :
    linEval (fun i => f i - g i) x k = linEval f x k - linEval g x k := by
  induction k with
  | zero => simp [linEval]
  | succ k ih => simp only [linEval, ih]; push_cast; ring

theorem div_nonneg_of_nonpos' {a b : Rat} (ha : a ≤ 0) (hb : b ≤ 0) : 0 ≤ a / b := by
  have := div_nonneg (neg_nonneg.2 ha) (neg_nonneg.2 hb)
  rwa [neg_div_neg_eq] at this

theorem upd_back (x : Nat → Rat) (var : Nat) (t : Rat) : upd (upd x var t) var (x var) = x := by
  rw [upd_upd, upd_self]

/-- the inverse expression of `affine_preimage` has representable coefficients when those of `expr` and the
denominator are -/
theorem coeffExact_inverse {R : Rnd} {e : Nat → Int} (hc : CoeffExact R e) {den : Int}
    (hcd : R.up ((absI den : Int) : Rat) = fin ((absI den : Int) : Rat)) (var : Nat) :
    CoeffExact R (fun i => (if i = var then e var + den else 0) - e i) := by
  intro i hi
  by_cases h : i = var
  · subst h
    simp only [if_true, add_sub_cancel_left] at hi ⊢
    exact hcd
  · simp only [if_neg h, zero_sub] at hi ⊢
    rw [absI_neg]
    exact hc i (by simpa using hi)

theorem coeffExact_single {R : Rnd} {den : Int}
    (hcd : R.up ((absI den : Int) : Rat) = fin ((absI den : Int) : Rat)) (var : Nat) :
    CoeffExact R (fun i => if i = var then den else 0) := by
  intro i hi
  by_cases h : i = var
  · simp only [if_pos h]; exact hcd
  · simp [h] at hi

theorem affinePreimageCore_sound {R : Rnd} (hR : R.Sound) {n var : Nat} (hvar : var < n) {e : Nat → Int}
    (hc : CoeffExact R e) {b den : Int} (hden : den ≠ 0)
    (hcd : R.up ((absI den : Int) : Rat) = fin ((absI den : Int) : Rat)) {m : Mat} {x : Nat → Rat}
    (hx : upd x var ((linEval e x n + b) / den) ∈ γB n m) :
    x ∈ γB n (affinePreimageCore R n var e b den m) := by
  have hforget : x ∈ γB n (forgetAll (n+1) (var+1) m) := by
    have := forgetAll_sound (var := var) hx (x var)
    rw [upd_back] at this
    exact this
  have hd' : (den : Rat) ≠ 0 := by exact_mod_cast hden
  unfold affinePreimageCore
  dsimp only
  split
  · exact hforget
  · split
    · rename_i h0 h1
      split
      · rename_i hwv
        -- `var := ±var + b/den` inverted
        obtain ⟨hw0, hval⟩ := linEval_t1 x h1.1
        rw [hwv] at hval h1 ⊢
        simp only [Nat.add_sub_cancel] at hval h1 ⊢
        have ha0 : e var ≠ 0 := by rcases h1.2 with h | h <;> rw [h] <;> omega
        have ha' : (e var : Rat) ≠ 0 := by exact_mod_cast ha0
        have := affineImageCore_sound hR hvar (coeffExact_single hcd var) ha0 (b := - b) hx
        rw [linEval_single den _ hvar] at this
        have e1 : ((den : Rat) * upd x var ((linEval e x n + b) / den) var + ((-b : Int) : Rat)) / (e var : Rat)
            = x var := by
          simp only [upd, if_true]
          rw [hval]
          push_cast
          field_simp
          ring
        rw [e1, upd_back] at this
        exact this
      · exact hforget
    · split
      · rename_i h0 h1 hev
        have ha' : (e var : Rat) ≠ 0 := by exact_mod_cast hev
        have := affineImageCore_sound hR hvar (coeffExact_inverse hc hcd var) hev (b := - b) hx
        rw [linEval_sub, linEval_single _ _ hvar, linEval_upd, if_pos hvar] at this
        have e1 : (((e var + den : Int) : Rat) * upd x var ((linEval e x n + b) / den) var
            - (linEval e x n + (e var : Rat) * ((linEval e x n + b) / den - x var)) + ((-b : Int) : Rat)) / (e var : Rat)
            = x var := by
          simp only [upd, if_true]
          push_cast
          field_simp
          ring
        rw [e1, upd_back] at this
        exact this
      · exact hforget

/-! ## `generalized_affine_preimage(var, relsym, expr, den)` -/

theorem genAffinePreimageCore_sound {R : Rnd} (hR : R.Sound) {n var : Nat} (hvar : var < n) {e : Nat → Int}
    (hc : CoeffExact R e) {b den : Int} (hden : den ≠ 0)
    (hcd : R.up ((absI den : Int) : Rat) = fin ((absI den : Int) : Rat)) {m : Mat} {x : Nat → Rat} (isLe : Bool)
    {t : Rat} (hx : upd x var t ∈ γB n m)
    (ht : if isLe then t ≤ (linEval e x n + b) / den else (linEval e x n + b) / den ≤ t) :
    ∃ m', genAffinePreimageCore R n var isLe e b den m = some m' ∧ x ∈ γB n m' := by
  have hd' : (den : Rat) ≠ 0 := by exact_mod_cast hden
  unfold genAffinePreimageCore
  dsimp only
  split
  · rename_i hev
    refine ⟨_, rfl, ?_⟩
    have ha' : (e var : Rat) ≠ 0 := by exact_mod_cast hev
    have hinv : CoeffExact R (fun i => e i - (if i = var then e var + den else 0)) := by
      have := (coeffExact_inverse hc hcd var).neg
      intro i hi
      have h2 := this i (by simpa using hi)
      simpa using h2
    have hval : (linEval (fun i => e i - (if i = var then e var + den else 0)) (upd x var t) n + (b : Rat))
        / ((- e var : Int) : Rat) = x var - (linEval e x n + b - den * t) / (e var : Rat) := by
      rw [linEval_sub, linEval_single _ _ hvar, linEval_upd, if_pos hvar]
      simp only [upd, if_true]
      push_cast
      field_simp
      ring
    have key : ∀ isLe' : Bool,
        (if isLe' then x var ≤ x var - (linEval e x n + b - den * t) / (e var : Rat)
         else x var - (linEval e x n + b - den * t) / (e var : Rat) ≤ x var) →
        x ∈ γB n (genAffineImageCore R n var isLe' (fun i => e i - (if i = var then e var + den else 0)) b
          (- e var) m) := by
      intro isLe' h
      have := genAffineImageCore_sound hR hvar hinv (by omega : - e var ≠ 0) (b := b) hx isLe' (t := x var)
        (by rw [hval]; exact h)
      rw [upd_back] at this
      exact this
    apply key
    -- the sign analysis of `(expr(x) + b - den*t) / expr_v`
    have hD : ∀ (q : Rat), (0 < (den : Rat) → t ≤ q / den → 0 ≤ q - den * t) ∧
        ((den : Rat) < 0 → t ≤ q / den → q - den * t ≤ 0) ∧
        (0 < (den : Rat) → q / den ≤ t → q - den * t ≤ 0) ∧
        ((den : Rat) < 0 → q / den ≤ t → 0 ≤ q - den * t) := by
      intro q
      have hq : q / (den : Rat) * den = q := by field_simp
      refine ⟨fun hp h => ?_, fun hn h => ?_, fun hp h => ?_, fun hn h => ?_⟩
      · have := mul_le_mul_of_nonneg_right h hp.le; rw [hq] at this; linarith
      · have := mul_le_mul_of_nonpos_right h hn.le; rw [hq] at this; linarith
      · have := mul_le_mul_of_nonneg_right h hp.le; rw [hq] at this; linarith
      · have := mul_le_mul_of_nonpos_right h hn.le; rw [hq] at this; linarith
    obtain ⟨hD1, hD2, hD3, hD4⟩ := hD (linEval e x n + b)
    rcases lt_or_gt_of_ne hden with hdn | hdp <;> rcases lt_or_gt_of_ne hev with hen | hep
    all_goals
      have hdq : ((den : Rat) < 0 ∨ (0 : Rat) < den) := by
        first | (left; exact_mod_cast hdn) | (right; exact_mod_cast hdp)
      have heq : ((e var : Rat) < 0 ∨ (0 : Rat) < e var) := by
        first | (left; exact_mod_cast hen) | (right; exact_mod_cast hep)
    · -- den < 0, expr_v < 0: sign den = -1, sign (-expr_v) = 1
      have hs : ¬ Int.sign den = Int.sign (- e var) := by
        rw [Int.sign_eq_neg_one_of_neg hdn, Int.sign_eq_one_of_pos (by omega)]; decide
      rw [if_neg hs]
      have hdn' : (den : Rat) < 0 := by exact_mod_cast hdn
      have hen' : (e var : Rat) < 0 := by exact_mod_cast hen
      cases isLe with
      | true =>
        simp only [if_true, Bool.not_true, Bool.false_eq_true, if_false] at ht ⊢
        have := div_nonneg_of_nonpos' (hD2 hdn' ht) hen'.le
        linarith
      | false =>
        simp only [Bool.false_eq_true, if_false, Bool.not_false, if_true] at ht ⊢
        have := div_nonpos_of_nonneg_of_nonpos (hD4 hdn' ht) hen'.le
        linarith
    · -- den < 0, expr_v > 0
      have hs : Int.sign den = Int.sign (- e var) := by
        rw [Int.sign_eq_neg_one_of_neg hdn, Int.sign_eq_neg_one_of_neg (by omega)]
      rw [if_pos hs]
      have hdn' : (den : Rat) < 0 := by exact_mod_cast hdn
      have hep' : (0 : Rat) < e var := by exact_mod_cast hep
      cases isLe with
      | true =>
        simp only [if_true] at ht ⊢
        have := div_nonpos_of_nonpos_of_nonneg (hD2 hdn' ht) hep'.le
        linarith
      | false =>
        simp only [Bool.false_eq_true, if_false] at ht ⊢
        have := div_nonneg (hD4 hdn' ht) hep'.le
        linarith
    · -- den > 0, expr_v < 0
      have hs : Int.sign den = Int.sign (- e var) := by
        rw [Int.sign_eq_one_of_pos hdp, Int.sign_eq_one_of_pos (by omega)]
      rw [if_pos hs]
      have hdp' : (0 : Rat) < den := by exact_mod_cast hdp
      have hen' : (e var : Rat) < 0 := by exact_mod_cast hen
      cases isLe with
      | true =>
        simp only [if_true] at ht ⊢
        have := div_nonpos_of_nonneg_of_nonpos (hD1 hdp' ht) hen'.le
        linarith
      | false =>
        simp only [Bool.false_eq_true, if_false] at ht ⊢
        have := div_nonneg_of_nonpos' (hD3 hdp' ht) hen'.le
        linarith
    · -- den > 0, expr_v > 0
      have hs : ¬ Int.sign den = Int.sign (- e var) := by
        rw [Int.sign_eq_one_of_pos hdp, Int.sign_eq_neg_one_of_neg (by omega)]; decide
      rw [if_neg hs]
      have hdp' : (0 : Rat) < den := by exact_mod_cast hdp
      have hep' : (0 : Rat) < e var := by exact_mod_cast hep
      cases isLe with
      | true =>
        simp only [if_true, Bool.not_true, Bool.false_eq_true, if_false] at ht ⊢
        have := div_nonneg (hD1 hdp' ht) hep'.le
        linarith
      | false =>
        simp only [Bool.false_eq_true, if_false, Bool.not_false, if_true] at ht ⊢
        have := div_nonpos_of_nonpos_of_nonneg (hD3 hdp' ht) hep'.le
        linarith
  · rename_i hev
    have hev0 : e var = 0 := by simpa using hev
    -- the refinement keeps `x' = x[var := t]`
    have hl : linEval e (upd x var t) n = linEval e x n := by
      rw [linEval_upd, if_pos hvar, hev0]; simp
    have href := refineVar_sound hR hvar hc hev0 hden hx (if isLe then .le else .ge) (b := b) (by
      rw [hl]
      simp only [upd, if_true]
      cases isLe with
      | true => simpa [RelSym.holds] using ht
      | false => simpa [RelSym.holds] using ht)
    generalize refineVar R n var (if isLe = true then RelSym.le else RelSym.ge) e b den m = mf at href ⊢
    split
    · refine ⟨_, rfl, ?_⟩
      have := forgetAll_sound (var := var) href (x var)
      rw [upd_back] at this
      exact this
    · have hs := sat_ofMat href
      split
      · rename_i he
        exact absurd hs (DBM.closureEmpty_sound hR.up_le _ he _)
      · refine ⟨_, rfl, ?_⟩
        have h6 : upd x var t ∈ γB n (DBM.closure R.up (DBM.ofMat n mf.1)).e :=
          (DBM.sat_iff_holds _ _).1 (DBM.closure_sat hR.up_le _ _ hs)
        have := forgetAll_sound (var := var) h6 (x var)
        rw [upd_back] at this
        exact this

end PPLV.WR
