import PPLV.WR.BoxTransProofsImage
/-!
# C03 stage 4 — exactness of `affine_image` for `var := ±var + b` and `var := b`

With exact rounding (`Rounding.id`) and a policy without infinite members the interval computed
for `var` by `affine_image(var, ±var + n, 1)` is EXACTLY `{±a + n | a ∈ I_var}`: open, closed and
infinite bounds included.  Every step of the computation (`assign`, the product with the point
interval `[±1, ±1]`, the sum with the point interval `[n, n]`, the final `assign`) transports
membership as an equivalence, for every pair of bounds (also for bounds on the wrong side, which
`OK()` excludes: they stay on the wrong side).
-/
set_option linter.unusedVariables false
set_option linter.unusedSimpArgs false
set_option linter.unnecessarySeqFocus false
namespace PPLV.WR.BoxT
open PPLV.Interval
open PPLV.Interval.ExtRat (ninf fin pinf)

/-- the point interval `[k, k]` as `Interval::assign(const Coefficient&)` stores it -/
def ptIv (k : Rat) : Iv := ⟨⟨fin k, false⟩, ⟨fin k, false⟩⟩

theorem ptIv_mem {p : Policy} {k c : Rat} : (ptIv k).mem p c ↔ c = k := by
  simp only [ptIv, Iv.mem, lowerOk, upperOk, getOpen, Bool.and_false, lowerOkV_fin_closed, upperOkV_fin_closed]
  constructor
  · intro h; exact le_antisymm h.2 h.1
  · intro h; subst h; exact ⟨le_refl _, le_refl _⟩

theorem ivOfInt_id (p : Policy) (z : Int) : ivOfInt p Rounding.id z = ptIv (z : Rat) := by
  have hm : (⟨⟨fin (z : Rat), false⟩, ⟨fin (z : Rat), false⟩⟩ : Iv).mem Policy.scalar (z : Rat) := by
    constructor <;> simp [lowerOk, upperOk, getOpen, Policy.scalar]
  unfold ivOfInt assign
  rw [checkEmptyArg_of_mem hm]
  simp [bAssign, getSpecial, Policy.scalar, adjust_id, normalIsOpen, ptIv, normalIsBoundaryInfinity]

/-! ## bounds -/

theorem bMul_one_iff (p : Policy) (tt t1 : BT) (yb : Bound) (c : Rat) :
    sideOk p tt (bMul p Rounding.id tt p t1 ⟨fin 1, false⟩ p tt yb) c ↔ sideOk p tt yb c := by
  obtain ⟨v, o⟩ := yb
  obtain ⟨ss, so, mci, ci, mbe⟩ := p
  cases tt <;> cases t1 <;> cases v <;> cases ss <;> cases so <;> cases mci <;> cases o <;>
    simp [bMul, bArith, isBoundaryInfinity, getSpecial, normalIsBoundaryInfinity, setBoundaryInfinity, adjust_id,
      normalIsOpen, sideOk, sideOkV, getOpen, infOf, ExtRat.mul, boundaryInfinityIsOpen, isBoundaryInfinityClosed,
      ExtRat.sgn, ExtRat.neg, (by norm_num : ¬ ((1 : Rat) < 0)), (by norm_num : ((-1 : Rat) < 0))]

theorem bMul_negone_lower_iff (p : Policy) (t1 : BT) (yb : Bound) (c : Rat) :
    lowerOk p (bMul p Rounding.id .lower p t1 ⟨fin (-1), false⟩ p .upper yb) c ↔ upperOk p yb (-c) := by
  obtain ⟨v, o⟩ := yb
  obtain ⟨ss, so, mci, ci, mbe⟩ := p
  cases t1 <;> cases v <;> cases ss <;> cases so <;> cases mci <;> cases o <;>
    simp [bMul, bArith, isBoundaryInfinity, getSpecial, normalIsBoundaryInfinity, setBoundaryInfinity, adjust_id,
      normalIsOpen, lowerOk, upperOk, getOpen, infOf, ExtRat.mul, boundaryInfinityIsOpen, isBoundaryInfinityClosed,
      ExtRat.sgn, ExtRat.neg, (by norm_num : ¬ ((1 : Rat) < 0)), (by norm_num : ((-1 : Rat) < 0))] <;>
    constructor <;> intro h <;> linarith

theorem bMul_negone_upper_iff (p : Policy) (t1 : BT) (yb : Bound) (c : Rat) :
    upperOk p (bMul p Rounding.id .upper p t1 ⟨fin (-1), false⟩ p .lower yb) c ↔ lowerOk p yb (-c) := by
  obtain ⟨v, o⟩ := yb
  obtain ⟨ss, so, mci, ci, mbe⟩ := p
  cases t1 <;> cases v <;> cases ss <;> cases so <;> cases mci <;> cases o <;>
    simp [bMul, bArith, isBoundaryInfinity, getSpecial, normalIsBoundaryInfinity, setBoundaryInfinity, adjust_id,
      normalIsOpen, lowerOk, upperOk, getOpen, infOf, ExtRat.mul, boundaryInfinityIsOpen, isBoundaryInfinityClosed,
      ExtRat.sgn, ExtRat.neg, (by norm_num : ¬ ((1 : Rat) < 0)), (by norm_num : ((-1 : Rat) < 0))] <;>
    constructor <;> intro h <;> linarith

theorem bAdd_point_iff (p : Policy) (tt : BT) (n : Rat) (yb : Bound) (c : Rat) :
    sideOk p tt (bAdd p Rounding.id tt p tt ⟨fin n, false⟩ p tt yb) c ↔ sideOk p tt yb (c - n) := by
  obtain ⟨v, o⟩ := yb
  obtain ⟨ss, so, mci, ci, mbe⟩ := p
  cases tt <;> cases v <;> cases ss <;> cases so <;> cases mci <;> cases o <;>
    simp [bAdd, bArith, isBoundaryInfinity, getSpecial, normalIsBoundaryInfinity, setBoundaryInfinity, adjust_id,
      normalIsOpen, sideOk, sideOkV, getOpen, infOf, ExtRat.add, boundaryInfinityIsOpen, isBoundaryInfinityClosed] <;>
    constructor <;> intro h <;> linarith

theorem sgnB_zero {p : Policy} {t : BT} {b : Bound} (h : sgnB p t b = 0) : b.value = fin 0 := by
  unfold sgnB at h
  split at h
  · cases t <;> simp at h
  · cases hv : b.value with
    | ninf => rw [hv] at h; simp [ExtRat.sgn] at h
    | pinf => rw [hv] at h; simp [ExtRat.sgn] at h
    | fin q => rw [hv] at h; simp only [ExtRat.sgn] at h; rw [ratSgn_zero.1 h]

theorem bMulZ_one_iff (p : Policy) (tt t1 : BT) (yb : Bound) (ys : Int) (c : Rat) (h0 : ys = 0 → yb.value = fin 0) :
    sideOk p tt (bMulZ p Rounding.id tt p t1 ⟨fin 1, false⟩ 1 p tt yb ys) c ↔ sideOk p tt yb c := by
  unfold bMulZ
  simp only [show ((1 : Int) != 0) = true by decide, if_true]
  by_cases h : ys = 0
  · have hv := h0 h
    subst h
    simp only [bne_self_eq_false, Bool.false_eq_true, if_false]
    obtain ⟨v, o⟩ := yb
    simp only at hv; subst hv
    cases tt <;> cases hso : p.storeOpen <;> cases o <;> simp [setZero, adjust_id, sideOk, sideOkV, getOpen, hso]
  · have : (ys != 0) = true := by simpa using h
    rw [this]; simp only [if_true]
    exact bMul_one_iff p tt t1 yb c

theorem bMulZ_negone_lower_iff (p : Policy) (t1 : BT) (yb : Bound) (ys : Int) (c : Rat)
    (h0 : ys = 0 → yb.value = fin 0) :
    lowerOk p (bMulZ p Rounding.id .lower p t1 ⟨fin (-1), false⟩ (-1) p .upper yb ys) c ↔ upperOk p yb (-c) := by
  unfold bMulZ
  simp only [show ((-1 : Int) != 0) = true by decide, if_true]
  by_cases h : ys = 0
  · have hv := h0 h
    subst h
    simp only [bne_self_eq_false, Bool.false_eq_true, if_false]
    obtain ⟨v, o⟩ := yb
    simp only at hv; subst hv
    cases hso : p.storeOpen <;> cases o <;> simp [setZero, adjust_id, lowerOk, upperOk, getOpen, hso]
  · have : (ys != 0) = true := by simpa using h
    rw [this]; simp only [if_true]
    exact bMul_negone_lower_iff p t1 yb c

theorem bMulZ_negone_upper_iff (p : Policy) (t1 : BT) (yb : Bound) (ys : Int) (c : Rat)
    (h0 : ys = 0 → yb.value = fin 0) :
    upperOk p (bMulZ p Rounding.id .upper p t1 ⟨fin (-1), false⟩ (-1) p .lower yb ys) c ↔ lowerOk p yb (-c) := by
  unfold bMulZ
  simp only [show ((-1 : Int) != 0) = true by decide, if_true]
  by_cases h : ys = 0
  · have hv := h0 h
    subst h
    simp only [bne_self_eq_false, Bool.false_eq_true, if_false]
    obtain ⟨v, o⟩ := yb
    simp only at hv; subst hv
    cases hso : p.storeOpen <;> cases o <;> simp [setZero, adjust_id, lowerOk, upperOk, getOpen, hso]
  · have : (ys != 0) = true := by simpa using h
    rw [this]; simp only [if_true]
    exact bMul_negone_upper_iff p t1 yb c

/-! ## intervals -/

theorem infinitySign_zero {p : Policy} (hm : p.mayContainInfinity = false) (K : Iv) : infinitySign p K = 0 := by
  simp [infinitySign, isReverseInfinity, hm]

/-- `assign` with exact rounding keeps the set -/
theorem assign_id_iff (p : Policy) (K : Iv) (c : Rat) : (assign p Rounding.id p K).mem p c ↔ K.mem p c := by
  unfold assign
  split_ifs with he
  · constructor
    · intro h; exact absurd h (not_mem_empty p c)
    · intro h; exact absurd h (not_mem_of_checkEmptyArg he)
  · show sideOk p .lower _ c ∧ sideOk p .upper _ c ↔ _
    rw [bAssign_id_iff, bAssign_id_iff]
    exact Iff.rfl

theorem assign_id_iff' {cfg : Cfg} (hR : cfg.R = Rounding.id) (K : Iv) (c : Rat) :
    (assign cfg.p cfg.R cfg.p K).mem cfg.p c ↔ K.mem cfg.p c := by
  rw [hR]; exact assign_id_iff _ _ _

theorem mulTable_one_iff (p : Policy) (K : Iv) (yls yus : Int) (st : Iv) (c : Rat)
    (hl : yls = 0 → K.lo.value = fin 0) (hu : yus = 0 → K.hi.value = fin 0) :
    (mulTable p Rounding.id (ptIv 1) K 1 1 yls yus st).mem p c ↔ K.mem p c := by
  unfold mulTable ptIv
  simp only [show ((1 : Int) ≥ 0) by decide, if_true]
  split_ifs <;>
  · show sideOk p .lower _ c ∧ sideOk p .upper _ c ↔ _
    rw [bMulZ_one_iff _ _ _ _ _ _ hl, bMulZ_one_iff _ _ _ _ _ _ hu]
    exact Iff.rfl

theorem mulTable_negone_iff (p : Policy) (K : Iv) (yls yus : Int) (st : Iv) (c : Rat)
    (hl : yls = 0 → K.lo.value = fin 0) (hu : yus = 0 → K.hi.value = fin 0) :
    (mulTable p Rounding.id (ptIv (-1)) K (-1) (-1) yls yus st).mem p c ↔ K.mem p (-c) := by
  unfold mulTable ptIv
  simp only [show ¬ ((-1 : Int) ≥ 0) by decide, show ((-1 : Int) ≤ 0) by decide, if_true, if_false]
  split_ifs <;>
  · show lowerOk p _ c ∧ upperOk p _ c ↔ _
    rw [bMulZ_negone_lower_iff _ _ _ _ _ hu, bMulZ_negone_upper_iff _ _ _ _ _ hl]
    exact and_comm

theorem sgnB_pt (p : Policy) (t : BT) (k : Rat) : sgnB p t ⟨fin k, false⟩ = ExtRat.ratSgn k := by
  unfold sgnB getSpecial
  cases t <;> cases p.storeSpecial <;> simp [ExtRat.sgn]

theorem yus_zero {p : Policy} {K : Iv} (h : (if sgnB p .lower K.lo > 0 then 1 else sgnB p .upper K.hi) = 0) :
    K.hi.value = fin 0 := by
  split at h
  · exact absurd h (by decide)
  · exact sgnB_zero h

/-- the product of the point interval `[1,1]` with `K` is `K` -/
theorem mulAssign_one_iff {p : Policy} (hm : p.mayContainInfinity = false) (K : Iv) (c : Rat) :
    (mulAssign false p Rounding.id (ptIv 1) K).mem p c ↔ K.mem p c := by
  have hx : (ptIv 1).mem p 1 := ptIv_mem.2 rfl
  by_cases he : checkEmptyArg p K = true
  · unfold mulAssign
    rw [he]
    simp only [Bool.or_true, if_true]
    constructor
    · intro h; exact absurd h (not_mem_empty p c)
    · intro h; exact absurd h (not_mem_of_checkEmptyArg he)
  · have he' : checkEmptyArg p K = false := by simpa using he
    have h1 : sgnB p .lower (ptIv 1).lo = 1 := by
      simp [ptIv, sgnB_pt, ExtRat.ratSgn]
    have h2 : sgnB p .upper (ptIv 1).hi = 1 := by
      simp [ptIv, sgnB_pt, ExtRat.ratSgn]
    unfold mulAssign
    simp only [checkEmptyArg_of_mem hx, he', infinitySign_zero hm, h1, h2, Bool.or_self, Bool.false_eq_true, if_false,
      bne_self_eq_false, show ((1 : Int) > 0) by decide, if_true]
    exact mulTable_one_iff p K _ _ _ c sgnB_zero yus_zero

/-- the product of the point interval `[-1,-1]` with `K` is `-K` -/
theorem mulAssign_negone_iff {p : Policy} (hm : p.mayContainInfinity = false) (K : Iv) (c : Rat) :
    (mulAssign false p Rounding.id (ptIv (-1)) K).mem p c ↔ K.mem p (-c) := by
  have hx : (ptIv (-1)).mem p (-1) := ptIv_mem.2 rfl
  by_cases he : checkEmptyArg p K = true
  · unfold mulAssign
    rw [he]
    simp only [Bool.or_true, if_true]
    constructor
    · intro h; exact absurd h (not_mem_empty p c)
    · intro h; exact absurd h (not_mem_of_checkEmptyArg he)
  · have he' : checkEmptyArg p K = false := by simpa using he
    have h1 : sgnB p .lower (ptIv (-1)).lo = -1 := by
      simp [ptIv, sgnB_pt, ExtRat.ratSgn]
    have h2 : sgnB p .upper (ptIv (-1)).hi = -1 := by
      simp [ptIv, sgnB_pt, ExtRat.ratSgn]
    unfold mulAssign
    simp only [checkEmptyArg_of_mem hx, he', infinitySign_zero hm, h1, h2, Bool.or_self, Bool.false_eq_true, if_false,
      bne_self_eq_false, show ¬ ((-1 : Int) > 0) by decide]
    exact mulTable_negone_iff p K _ _ _ c sgnB_zero yus_zero

/-- the sum of the point interval `[n,n]` and `K` is `K + n` -/
theorem addAssign_point_iff {p : Policy} (hm : p.mayContainInfinity = false) (n : Rat) (K : Iv) (c : Rat) :
    (addAssign p Rounding.id (ptIv n) K).mem p c ↔ K.mem p (c - n) := by
  have hx : (ptIv n).mem p n := ptIv_mem.2 rfl
  by_cases he : checkEmptyArg p K = true
  · unfold addAssign
    rw [he]
    simp only [Bool.or_true, if_true]
    constructor
    · intro h; exact absurd h (not_mem_empty p c)
    · intro h; exact absurd h (not_mem_of_checkEmptyArg he)
  · have he' : checkEmptyArg p K = false := by simpa using he
    unfold addAssign
    simp only [checkEmptyArg_of_mem hx, he', infinitySign_zero hm, Bool.or_self, Bool.false_eq_true, if_false,
      bne_self_eq_false, Bool.false_and, lt_self_iff_false, gt_iff_lt]
    show sideOk p .lower _ c ∧ sideOk p .upper _ c ↔ _
    unfold ptIv
    rw [bAdd_point_iff, bAdd_point_iff]
    exact Iff.rfl

/-! ## the expression `s * var + n` -/

theorem termsFrom_replicate (i v : Nat) (s : Int) (hs : s ≠ 0) :
    LinExpr.termsFrom i (List.replicate v 0 ++ [s]) = [(i + v, s)] := by
  induction v generalizing i with
  | zero =>
    have : (s == 0) = false := by simpa using hs
    simp [LinExpr.termsFrom, this]
  | succ v ih =>
    simp only [List.replicate_succ, List.cons_append, LinExpr.termsFrom]
    rw [ih (i + 1)]
    have : i + 1 + v = i + (v + 1) := by omega
    simp [this]

/-- the interval `affine_image` computes for `s * var + n`, `s = ±1`, is exactly the image -/
theorem evalExprIv_shift {cfg : Cfg} (hR : cfg.R = Rounding.id) (hm : cfg.p.mayContainInfinity = false)
    (seq : List Iv) (v : Nat) (s n : Int) (hs : s = 1 ∨ s = -1) (c : Rat) :
    (evalExprIv cfg seq ⟨List.replicate v 0 ++ [s], n⟩ 1).mem cfg.p c ↔
      (seq.getD v Iv.empty).mem cfg.p ((s : Rat) * (c - n)) := by
  have hs0 : s ≠ 0 := by rcases hs with rfl | rfl <;> decide
  have ht : (⟨List.replicate v 0 ++ [s], n⟩ : LinExpr).terms = [(v, s)] := by
    unfold LinExpr.terms
    rw [termsFrom_replicate 0 v s hs0]; simp
  unfold evalExprIv
  simp only [ht, evalLoop, bne_self_eq_false, Bool.false_eq_true, if_false]
  rw [hR, ivOfInt_id, ivOfInt_id, addAssign_point_iff hm]
  rcases hs with rfl | rfl
  · simp only [Int.cast_one]
    rw [mulAssign_one_iff hm, assign_id_iff, one_mul]
  · simp only [Int.cast_neg, Int.cast_one]
    rw [mulAssign_negone_iff hm, assign_id_iff]
    simp

/-! ## the box -/

/-- replacing the coordinate `v` of a member of `b.setIv v I` by a member of the old interval -/
theorem Box.mem_of_setIv {p : Policy} {b : Box} {v : Nat} {I : Iv} {y : Nat → Rat} {a : Rat}
    (h : (b.setIv v I).mem p y) (ha : (b.get v).mem p a) : b.mem p (upd y v a) := by
  refine ⟨by simpa [Box.setIv, Box.markedEmpty] using h.1, ?_⟩
  intro k hk
  by_cases hkv : k = v
  · subst hkv; rw [upd_same]; exact ha
  · rw [upd_other y a hkv]
    have := h.2 k (by simpa [Box.setIv] using hk)
    rwa [Box.get_setIv_other b I hkv] at this

theorem upd_self (y : Nat → Rat) (v : Nat) : upd y v (y v) = y := by
  funext k; by_cases hk : k = v <;> simp [upd, hk]

/-- `affine_image(var, ±var + n, 1)` with exact rounding is exactly the image of the box -/
theorem affineImage_exact_shift_gen {cfg : Cfg} (hR : cfg.R = Rounding.id) (hm : cfg.p.mayContainInfinity = false)
    (b : Box) (v : Nat) (s : Int) (n : Int) (hs : s = 1 ∨ s = -1) (hv : v < b.dim) (y : Nat → Rat) :
    (affineImage cfg b v ⟨List.replicate v 0 ++ [s], n⟩ 1).mem cfg.p y ↔
      ∃ x, b.mem cfg.p x ∧ y = upd x v ((s : Rat) * x v + n) := by
  have hss : (s : Rat) * (s : Rat) = 1 := by rcases hs with rfl | rfl <;> norm_num
  rw [affineImage_eq]
  constructor
  · intro h
    cases hem : (b.isEmptyQ cfg.p).1
    · rw [hem] at h
      simp only [Bool.false_eq_true, if_false] at h
      have hv' : v < (b.isEmptyQ cfg.p).2.dim := by rw [Box.isEmptyQ_dim]; exact hv
      have hJ := h.2 v (by rw [Box.setIv_length]; exact hv')
      rw [Box.get_setIv_same _ _ hv', assign_id_iff' hR, evalExprIv_shift hR hm _ v s n hs] at hJ
      have hx := Box.mem_of_setIv h hJ
      refine ⟨_, Box.isEmptyQ_mem_iff.1 hx, ?_⟩
      rw [upd_upd, upd_same]
      have : (s : Rat) * ((s : Rat) * (y v - n)) + n = y v := by
        rw [← mul_assoc, hss]; ring
      rw [this, upd_self]
    · rw [hem] at h
      simp only [if_true] at h
      exact absurd (Box.isEmptyQ_mem_iff.1 h) (Box.isEmptyQ_true hem)
  · rintro ⟨x, hx, rfl⟩
    obtain ⟨h1, h2, h3⟩ := Box.isEmptyQ_of_mem hx
    rw [h1]
    simp only [Bool.false_eq_true, if_false]
    have hv' : v < (b.isEmptyQ cfg.p).2.dim := by rw [Box.isEmptyQ_dim]; exact hv
    refine Box.mem_setIv h2 ?_
    rw [assign_id_iff' hR, evalExprIv_shift hR hm _ v s n hs]
    have : (s : Rat) * ((s : Rat) * x v + n - n) = x v := by
      rw [add_sub_cancel_right, ← mul_assoc, hss, one_mul]
    rw [this]
    exact h2.2 v hv'

/-- `Rational_Box::affine_image(var, ±var + n)` is exact -/
theorem affineImage_exact_shift (b : Box) (v : Nat) (s : Int) (n : Int) (hs : s = 1 ∨ s = -1) (hv : v < b.dim)
    (y : Nat → Rat) :
    (affineImage Cfg.mpq b v ⟨List.replicate v 0 ++ [s], n⟩ 1).mem Cfg.mpq.p y ↔
      ∃ x, b.mem Cfg.mpq.p x ∧ y = upd x v ((s : Rat) * x v + n) :=
  affineImage_exact_shift_gen rfl rfl b v s n hs hv y

/-! ## `var := n` -/

theorem evalExprIv_const (cfg : Cfg) (seq : List Iv) (n : Int) :
    evalExprIv cfg seq ⟨[], n⟩ 1 = ivOfInt cfg.p cfg.R n := by
  simp [evalExprIv, LinExpr.terms, LinExpr.termsFrom, evalLoop]

/-- `affine_image(var, n, 1)` with exact rounding is exactly the image of the box.  The
hypothesis `hown` (the bounds of the old interval of `var` are on their own sides: the lower
bound is not `+∞`, the upper bound is not `-∞`; `Interval::OK()` demands it) is necessary in the
model: see the example below. -/
theorem affineImage_exact_const_gen {cfg : Cfg} (hR : cfg.R = Rounding.id) (b : Box) (v : Nat) (n : Int)
    (hv : v < b.dim) (hown : (b.get v).lo.value ≠ pinf ∧ (b.get v).hi.value ≠ ninf) (y : Nat → Rat) :
    (affineImage cfg b v ⟨[], n⟩ 1).mem cfg.p y ↔ ∃ x, b.mem cfg.p x ∧ y = upd x v (n : Rat) := by
  rw [affineImage_eq]
  have hv' : v < (b.isEmptyQ cfg.p).2.dim := by rw [Box.isEmptyQ_dim]; exact hv
  constructor
  · intro h
    cases hem : (b.isEmptyQ cfg.p).1
    · rw [hem] at h
      simp only [Bool.false_eq_true, if_false] at h
      have hJ := h.2 v (by rw [Box.setIv_length]; exact hv')
      rw [Box.get_setIv_same _ _ hv', assign_id_iff' hR, evalExprIv_const, hR, ivOfInt_id, ptIv_mem] at hJ
      have hne : isEmpty cfg.p (b.get v) = false := by
        apply (Box.isEmptyQ_false_marked hem).2
        have hv2 : v < b.seq.length := hv
        have : b.get v = b.seq[v] := by simp [Box.get, List.getD, hv2]
        rw [this]; exact List.getElem_mem _
      have hex : ∃ a, (b.get v).mem cfg.p a := by
        by_contra hc
        have := (isEmpty_iff hown.1 hown.2).2 (fun a ha => hc ⟨a, ha⟩)
        rw [hne] at this; exact Bool.false_ne_true this
      obtain ⟨a, ha⟩ := hex
      have hg : (b.isEmptyQ cfg.p).2.get v = b.get v := by simp [Box.get, Box.isEmptyQ_seq]
      have hx := Box.mem_of_setIv h (by rw [hg]; exact ha)
      refine ⟨_, Box.isEmptyQ_mem_iff.1 hx, ?_⟩
      rw [upd_upd, ← hJ, upd_self]
    · rw [hem] at h
      simp only [if_true] at h
      exact absurd (Box.isEmptyQ_mem_iff.1 h) (Box.isEmptyQ_true hem)
  · rintro ⟨x, hx, rfl⟩
    obtain ⟨h1, h2, h3⟩ := Box.isEmptyQ_of_mem hx
    rw [h1]
    simp only [Bool.false_eq_true, if_false]
    refine Box.mem_setIv h2 ?_
    rw [assign_id_iff' hR, evalExprIv_const, hR, ivOfInt_id, ptIv_mem]

/-- `Rational_Box::affine_image(var, n)` is exact (binding name; `hown` added, see above) -/
theorem affineImage_exact_const (b : Box) (v : Nat) (n : Int) (hv : v < b.dim)
    (hown : (b.get v).lo.value ≠ pinf ∧ (b.get v).hi.value ≠ ninf) (y : Nat → Rat) :
    (affineImage Cfg.mpq b v ⟨[], n⟩ 1).mem Cfg.mpq.p y ↔ ∃ x, b.mem Cfg.mpq.p x ∧ y = upd x v (n : Rat) :=
  affineImage_exact_const_gen rfl b v n hv hown y

/-! ## non-vacuity and the counterexample -/

/-- the box `(0, 2]` -/
def exBox : Box := ⟨[⟨⟨fin 0, true⟩, ⟨fin 2, false⟩⟩], false, true⟩

theorem exBox_mem (x : Nat → Rat) : exBox.mem Policy.rational x ↔ 0 < x 0 ∧ x 0 ≤ 2 := by
  constructor
  · intro h
    have := h.2 0 (by decide)
    simpa [exBox, Box.get, Iv.mem, lowerOk, upperOk, getOpen, Policy.rational] using this
  · intro h
    refine ⟨by decide, ?_⟩
    intro k hk
    have hk0 : k = 0 := by simpa [exBox] using hk
    subst hk0
    simpa [exBox, Box.get, Iv.mem, lowerOk, upperOk, getOpen, Policy.rational] using h

/-- `x := -x + 3` maps `(0, 2]` onto `[1, 3)`: `1` is in the image … -/
example : (affineImage Cfg.mpq exBox 0 ⟨[-1], 3⟩ 1).mem Policy.rational (fun _ => 1) :=
  (affineImage_exact_shift exBox 0 (-1) 3 (Or.inr rfl) (by decide) _).2
    ⟨upd (fun _ => 1) 0 2, (exBox_mem _).2 (by norm_num [upd]), by
      rw [upd_upd]; funext k; by_cases hk : k = 0 <;> simp [upd, hk] <;> norm_num⟩

/-- … and `3` is not (the open bound is kept) -/
example : ¬ (affineImage Cfg.mpq exBox 0 ⟨[-1], 3⟩ 1).mem Policy.rational (fun _ => 3) := by
  intro h
  obtain ⟨x, hx, hy⟩ := (affineImage_exact_shift exBox 0 (-1) 3 (Or.inr rfl) (by decide) _).1 h
  have h0 := congrFun hy 0
  simp only [upd_same] at h0
  have := ((exBox_mem x).1 hx).1
  push_cast at h0
  linarith

example : (affineImage Cfg.mpq exBox 0 ⟨[], 7⟩ 1).mem Policy.rational (fun _ => 7) :=
  (affineImage_exact_const exBox 0 7 (by decide) (by decide) _).2
    ⟨upd (fun _ => 7) 0 1, (exBox_mem _).2 (by norm_num [upd]), by
      rw [upd_upd]; funext k; by_cases hk : k = 0 <;> simp [upd, hk]⟩

/-- the interval with both bounds `+∞` (lower bound on the wrong side) is not reported empty by
`is_empty()` and has no member -/
def junkBox : Box := ⟨[⟨⟨pinf, false⟩, ⟨pinf, false⟩⟩], false, true⟩

/-- without `hown` the statement of `affineImage_exact_const` fails in the model: the image of the
memberless `junkBox` has the member `5` -/
example : (affineImage Cfg.mpq junkBox 0 ⟨[], 5⟩ 1).mem Cfg.mpq.p (fun _ => 5) ∧
    ¬ ∃ x, junkBox.mem Cfg.mpq.p x := by
  constructor
  · have h1 : junkBox.isEmptyQ Cfg.mpq.p = (false, junkBox) := by decide
    rw [affineImage_eq, h1]
    simp only [Bool.false_eq_true, if_false]
    refine ⟨by decide, ?_⟩
    intro k hk
    have hk0 : k = 0 := by simpa [junkBox, Box.setIv] using hk
    subst hk0
    rw [Box.get_setIv_same _ _ (by decide), assign_id_iff' rfl, evalExprIv_const]
    show (ivOfInt Cfg.mpq.p Rounding.id 5).mem Cfg.mpq.p 5
    rw [ivOfInt_id, ptIv_mem]; norm_num
  · rintro ⟨x, hx⟩
    have := (hx.2 0 (by decide)).1
    simp [junkBox, Box.get, lowerOk] at this

end PPLV.WR.BoxT
