import PPLV.WR.BoxTransProofsImage2
import PPLV.WR.BoxTransProofsRefine
/-!
# C03 stage 4 — soundness of `bounded_affine_image(var, lb_expr, ub_expr, denominator)`

Every `y` with `lb(x)/den ≤ y ≤ ub(x)/den` gives a point `x[var := y]` of the result.  The
function refines with constraints several times: the soundness of `refine_with_constraint` is
the hypothesis `RefineSound cfg`.
-/
set_option linter.unusedVariables false
namespace PPLV.WR.BoxT
open PPLV.Interval
open PPLV.Interval.ExtRat (ninf fin pinf)

/-! ## `refine_with_constraint` keeps the dimension (private copies; the public lemma
`refineWithConstraint_dim` is in `BoxTransProofsPropagate.lean`) -/

private theorem applyBlock_dim' (cfg : Cfg) (B : Block) (b : Box) (c : Con) (k : Nat) (ak : Int) (s : Bool) :
    (applyBlock cfg B b c k ak s).dim = b.dim := by
  unfold applyBlock
  split
  · rfl
  · simp [Box.dim, Box.resetEmptyUpToDate, Box.setIv]

private theorem propagateStep_dim' (cfg : Cfg) (c : Con) (b : Box) (t : Nat × Int) :
    (propagateStep cfg c b t).dim = b.dim := by
  obtain ⟨k, ak⟩ := t
  unfold propagateStep
  simp only []
  split_ifs <;> simp only [applyBlock_dim']

private theorem foldl_propagateStep_dim' (cfg : Cfg) (c : Con) :
    ∀ (ts : List (Nat × Int)) (b : Box), (ts.foldl (propagateStep cfg c) b).dim = b.dim := by
  intro ts
  induction ts with
  | nil => intro b; rfl
  | cons t ts ih => intro b; rw [List.foldl_cons, ih, propagateStep_dim']

private theorem propagateConstraintNoCheck_dim' (cfg : Cfg) (b : Box) (c : Con) :
    (propagateConstraintNoCheck cfg b c).dim = b.dim := by
  unfold propagateConstraintNoCheck
  split
  · split_ifs <;> rfl
  · exact foldl_propagateStep_dim' cfg c _ b

private theorem refineWithConstraint_dim' (cfg : Cfg) (b : Box) (c : Con) :
    (refineWithConstraint cfg b c).dim = b.dim := by
  unfold refineWithConstraint
  split
  · rfl
  · unfold refineNoCheck
    split
    · exact propagateConstraintNoCheck_dim' cfg b c
    · split_ifs <;> rfl
    · exact addIntervalConstraintNoCheck_dim _ _ _ _ _ _

/-! ## the body of `bounded_affine_image` after the emptiness test -/

/-- lines 3283–3368 of Box_templates.hh, the results of `max_min` read through projections -/
def baiBody (cfg : Cfg) (b0 : Box) (v : Nat) (lb ub : LinExpr) (den : Int) : Box :=
  let b := if den > 0 then refineWithConstraint cfg b0 (conLe lb ub) else refineWithConstraint cfg b0 (conGe lb ub)
  let dv := LinExpr.var den v
  if lb.coeff v == 0 then
    let b := generalizedAffineImage cfg b v .le ub den
    if den > 0 then refineWithConstraint cfg b (conLe lb dv) else refineWithConstraint cfg b (conLe dv lb)
  else if ub.coeff v == 0 then
    let b := generalizedAffineImage cfg b v .ge lb den
    if den > 0 then refineWithConstraint cfg b (conLe dv ub) else refineWithConstraint cfg b (conLe ub dv)
  else
    let posLb := if den < 0 then lb.neg else lb
    let posUb := if den < 0 then ub.neg else ub
    let posDen : Rat := if den < 0 then ((-den : Int) : Rat) else (den : Rat)
    let r1 := maxMin cfg.p b posUb true
    let r2 := maxMin cfg.p r1.2 posLb false
    r2.2.setIv v (build2 cfg.p cfg.R
      (r2.1.map fun (m : Rat × Bool) => (if m.2 then Rel.ge else Rel.gt, m.1 / posDen))
      (r1.1.map fun (m : Rat × Bool) => (if m.2 then Rel.le else Rel.lt, m.1 / posDen)))

theorem boundedAffineImage_eq (cfg : Cfg) (b : Box) (v : Nat) (lb ub : LinExpr) (den : Int) :
    boundedAffineImage cfg b v lb ub den =
      if (b.isEmptyQ cfg.p).1 then (b.isEmptyQ cfg.p).2 else baiBody cfg (b.isEmptyQ cfg.p).2 v lb ub den := by
  unfold boundedAffineImage baiBody
  rcases h : b.isEmptyQ cfg.p with ⟨em, b0⟩
  simp only []
  cases em
  · simp only [Bool.false_eq_true, if_false]
    split
    · rfl
    · split
      · rfl
      · rcases h1 : maxMin cfg.p _ _ true with ⟨mx, b1⟩
        simp only []
        rcases mx with _ | ⟨qmax, maxIncl⟩
        · simp only []
          rcases h2 : maxMin cfg.p b1 _ false with ⟨mn, b2⟩
          rcases mn with _ | ⟨qmin, minIncl⟩ <;> simp [build2]
        · simp only []
          rcases h2 : maxMin cfg.p b1 _ false with ⟨mn, b2⟩
          rcases mn with _ | ⟨qmin, minIncl⟩ <;> simp [build2]
  · rfl

theorem baiBody_sound {cfg : Cfg} (hS : cfg.Sound) (hRef : RefineSound cfg) {b : Box} {v : Nat} {lb ub : LinExpr}
    {den : Int} {x : Nat → Rat} {y : Rat}
    (hv : v < b.dim) (hlb : lb.WF b.dim) (hub : ub.WF b.dim) (hd : den ≠ 0) (hx : b.mem cfg.p x)
    (h1 : lb.eval x / (den : Rat) ≤ y) (h2 : y ≤ ub.eval x / (den : Rat)) :
    (baiBody cfg b v lb ub den).mem cfg.p (upd x v y) := by
  have hdq : (den : Rat) ≠ 0 := by exact_mod_cast hd
  -- the first refinement
  have hb1 : (if den > 0 then refineWithConstraint cfg b (conLe lb ub)
      else refineWithConstraint cfg b (conGe lb ub)).mem cfg.p x := by
    split
    · rename_i hp
      have hp' : (0 : Rat) < (den : Rat) := by exact_mod_cast hp
      refine hRef _ _ _ (conLe_WF hlb hub) hx ((conLe_holds _ _ _).2 ?_)
      have := le_trans h1 h2
      rwa [div_le_div_iff_of_pos_right hp'] at this
    · rename_i hp
      have hn : den < 0 := lt_of_le_of_ne (not_lt.1 hp) hd
      have hn' : (den : Rat) < 0 := by exact_mod_cast hn
      refine hRef _ _ _ (conGe_WF hlb hub) hx ((conGe_holds _ _ _).2 ?_)
      have := le_trans h1 h2
      rwa [div_le_div_right_of_neg hn'] at this
  have hd1 : (if den > 0 then refineWithConstraint cfg b (conLe lb ub)
      else refineWithConstraint cfg b (conGe lb ub)).dim = b.dim := by
    split <;> exact refineWithConstraint_dim' _ _ _
  unfold baiBody
  simp only []
  generalize (if den > 0 then refineWithConstraint cfg b (conLe lb ub)
      else refineWithConstraint cfg b (conGe lb ub)) = b1 at hb1 hd1 ⊢
  have hv1 : v < b1.dim := by rw [hd1]; exact hv
  have hlb1 : lb.WF b1.dim := by rw [hd1]; exact hlb
  have hub1 : ub.WF b1.dim := by rw [hd1]; exact hub
  have hdve : (LinExpr.var den v).eval (upd x v y) = (den : Rat) * y := by simp
  split
  · -- `lb` does not mention `var`
    rename_i hc
    have hc0 : lb.coeff v = 0 := by simpa using hc
    have hg := generalizedAffineImage_sound (rel := .le) hS hv1 hub1 hd (by decide) hb1 h2
    have hgd := generalizedAffineImage_dim cfg b1 v .le ub den
    have hlz : lb.eval (upd x v y) = lb.eval x := LinExpr.eval_upd_of_coeff_zero hc0
    split
    · rename_i hp
      have hp' : (0 : Rat) < (den : Rat) := by exact_mod_cast hp
      refine hRef _ _ _ (conLe_WF (by rw [hgd]; exact hlb1) (by rw [hgd]; exact LinExpr.WF.var _ hv1)) hg
        ((conLe_holds _ _ _).2 ?_)
      rw [hdve, hlz]
      rwa [div_le_iff₀ hp', mul_comm] at h1
    · rename_i hp
      have hn : den < 0 := lt_of_le_of_ne (not_lt.1 hp) hd
      have hn' : (den : Rat) < 0 := by exact_mod_cast hn
      refine hRef _ _ _ (conLe_WF (by rw [hgd]; exact LinExpr.WF.var _ hv1) (by rw [hgd]; exact hlb1)) hg
        ((conLe_holds _ _ _).2 ?_)
      rw [hdve, hlz]
      rwa [div_le_iff_of_neg hn', mul_comm] at h1
  · split
    · -- `ub` does not mention `var`
      rename_i _ hc
      have hc0 : ub.coeff v = 0 := by simpa using hc
      have hg := generalizedAffineImage_sound (rel := .ge) hS hv1 hlb1 hd (by decide) hb1 h1
      have hgd := generalizedAffineImage_dim cfg b1 v .ge lb den
      have huz : ub.eval (upd x v y) = ub.eval x := LinExpr.eval_upd_of_coeff_zero hc0
      split
      · rename_i hp
        have hp' : (0 : Rat) < (den : Rat) := by exact_mod_cast hp
        refine hRef _ _ _ (conLe_WF (by rw [hgd]; exact LinExpr.WF.var _ hv1) (by rw [hgd]; exact hub1)) hg
          ((conLe_holds _ _ _).2 ?_)
        rw [hdve, huz]
        rwa [le_div_iff₀ hp', mul_comm] at h2
      · rename_i hp
        have hn : den < 0 := lt_of_le_of_ne (not_lt.1 hp) hd
        have hn' : (den : Rat) < 0 := by exact_mod_cast hn
        refine hRef _ _ _ (conLe_WF (by rw [hgd]; exact hub1) (by rw [hgd]; exact LinExpr.WF.var _ hv1)) hg
          ((conLe_holds _ _ _).2 ?_)
        rw [hdve, huz]
        rwa [le_div_iff_of_neg hn', mul_comm] at h2
    · -- both mention `var`: the bounds of `max_min`
      have hpos : ∃ (pl pu : LinExpr) (pd : Rat),
          (if den < 0 then lb.neg else lb) = pl ∧ (if den < 0 then ub.neg else ub) = pu ∧
          (if den < 0 then ((-den : Int) : Rat) else (den : Rat)) = pd ∧ 0 < pd ∧
          pl.WF b1.dim ∧ pu.WF b1.dim ∧ pl.eval x / pd ≤ y ∧ y ≤ pu.eval x / pd := by
        by_cases hn : den < 0
        · have hn' : (den : Rat) < 0 := by exact_mod_cast hn
          refine ⟨lb.neg, ub.neg, ((-den : Int) : Rat), by simp [hn], by simp [hn], by simp [hn], ?_,
            LinExpr.WF.neg hlb1, LinExpr.WF.neg hub1, ?_, ?_⟩
          · push_cast; linarith
          · rw [LinExpr.eval_neg]; push_cast; rw [neg_div_neg_eq]; exact h1
          · rw [LinExpr.eval_neg]; push_cast; rw [neg_div_neg_eq]; exact h2
        · have hp : 0 < den := lt_of_le_of_ne (not_lt.1 hn) (Ne.symm hd)
          have hp' : (0 : Rat) < (den : Rat) := by exact_mod_cast hp
          exact ⟨lb, ub, (den : Rat), by simp [hn], by simp [hn], by simp [hn], hp', hlb1, hub1, h1, h2⟩
      obtain ⟨pl, pu, pd, e1, e2, e3, hpd, hpl, hpu, hl, hu⟩ := hpos
      rw [e1, e2, e3]
      have hz1 : (maxMin cfg.p b1 pu true).2.mem cfg.p x := maxMin_mem_iff.2 hb1
      have hdm1 : (maxMin cfg.p b1 pu true).2.dim = b1.dim := maxMin_dim _ _ _ _
      have hz2 : (maxMin cfg.p (maxMin cfg.p b1 pu true).2 pl false).2.mem cfg.p x := maxMin_mem_iff.2 hz1
      refine Box.mem_setIv hz2 (build2_sound hS.R ?_ ?_)
      · intro r q hq
        rcases hmn : (maxMin cfg.p (maxMin cfg.p b1 pu true).2 pl false).1 with _ | ⟨qmin, incl⟩
        · rw [hmn] at hq; simp at hq
        · rw [hmn] at hq
          simp only [Option.map_some, Option.some.injEq, Prod.mk.injEq] at hq
          obtain ⟨rfl, rfl⟩ := hq
          obtain ⟨g1, g2⟩ := maxMin_sound_min (by rw [hdm1]; exact hpl) hmn hz1
          cases incl
          · simp only [Bool.false_eq_true, if_false]
            show y > qmin / pd
            have := g2 rfl
            have : qmin / pd < pl.eval x / pd := by rwa [div_lt_div_iff_of_pos_right hpd]
            exact lt_of_lt_of_le this hl
          · simp only [if_true]
            show y ≥ qmin / pd
            have : qmin / pd ≤ pl.eval x / pd := by rwa [div_le_div_iff_of_pos_right hpd]
            exact le_trans this hl
      · intro r q hq
        rcases hmx : (maxMin cfg.p b1 pu true).1 with _ | ⟨qmax, incl⟩
        · rw [hmx] at hq; simp at hq
        · rw [hmx] at hq
          simp only [Option.map_some, Option.some.injEq, Prod.mk.injEq] at hq
          obtain ⟨rfl, rfl⟩ := hq
          obtain ⟨g1, g2⟩ := maxMin_sound_max hpu hmx hb1
          cases incl
          · simp only [Bool.false_eq_true, if_false]
            show y < qmax / pd
            have := g2 rfl
            have : pu.eval x / pd < qmax / pd := by rwa [div_lt_div_iff_of_pos_right hpd]
            exact lt_of_le_of_lt hu this
          · simp only [if_true]
            show y ≤ qmax / pd
            have : pu.eval x / pd ≤ qmax / pd := by rwa [div_le_div_iff_of_pos_right hpd]
            exact le_trans hu this

theorem boundedAffineImage_sound {cfg : Cfg} (hS : cfg.Sound) (hRef : RefineSound cfg) {b : Box} {v : Nat}
    {lb ub : LinExpr} {den : Int} {x : Nat → Rat} {y : Rat}
    (hv : v < b.dim) (hlb : lb.WF b.dim) (hub : ub.WF b.dim) (hd : den ≠ 0) (hx : b.mem cfg.p x)
    (h1 : lb.eval x / (den : Rat) ≤ y) (h2 : y ≤ ub.eval x / (den : Rat)) :
    (boundedAffineImage cfg b v lb ub den).mem cfg.p (upd x v y) := by
  rw [boundedAffineImage_eq]
  obtain ⟨g1, g2, g3⟩ := Box.isEmptyQ_of_mem hx
  rw [g1]
  simp only [Bool.false_eq_true, if_false]
  have hdim := Box.isEmptyQ_dim b cfg.p
  exact baiBody_sound hS hRef (by rw [hdim]; exact hv) (by rw [hdim]; exact hlb) (by rw [hdim]; exact hub) hd g2 h1 h2

/-! ## non-vacuity -/

example (hRef : RefineSound Cfg.mpq) :
    (boundedAffineImage Cfg.mpq (Box.univ Policy.rational 2) 0 ⟨[1, 1], 2⟩ ⟨[1, 1], 0⟩ (-1)).mem Policy.rational
    (upd (fun _ => 1) 0 (-3)) :=
  boundedAffineImage_sound Cfg.mpq_sound hRef (by decide) (by unfold LinExpr.WF; decide)
    (by unfold LinExpr.WF; decide) (by decide) (Box.univ_mem _ _ _)
    (by norm_num [LinExpr.eval, LinExpr.dot]) (by norm_num [LinExpr.eval, LinExpr.dot])

end PPLV.WR.BoxT
