import PPLV.WR.ReduceOctProofsBase
/-!
# Octagon reduction: `compute_successors` and `compute_leaders(leaders)` compute what their comments say
(O2 (a), (b))
-/
namespace PPLV.WR
open ExtRat (fin pinf)

theorem exists_least (P : Nat → Prop) (h : ∃ i, P i) : ∃ i, P i ∧ ∀ k, k < i → ¬ P k := by
  obtain ⟨i, hi⟩ := h
  induction i using Nat.strong_induction_on with
  | _ i ih =>
    by_cases hk : ∃ k, k < i ∧ P k
    · obtain ⟨k, hk, hp⟩ := hk
      exact ih k hk hp
    · exact ⟨i, hi, fun k hki hp => hk ⟨k, hki, hp⟩⟩

/-! ## generic loops (`T i j` is the test of row `i`, column `j < i`) -/

def succBody (T : Nat → Nat → Bool) (i : Nat) (s : Vec) : Vec :=
  loopUp i (fun j s => if T i j then s.set j i else s) s

theorem succBody_apply (T : Nat → Nat → Bool) (i : Nat) (s : Vec) (t : Nat) :
    succBody T i s t = if t < i ∧ T i t = true then i else s t := by
  unfold succBody
  suffices ∀ k, loopUp k (fun j s => if T i j then s.set j i else s) s t
      = if t < k ∧ T i t = true then i else s t from this i
  intro k
  induction k with
  | zero => simp [loopUp]
  | succ k ih =>
    simp only [loopUp]
    by_cases hT : T i k = true
    · rw [if_pos hT, Vec.set_apply, ih]
      by_cases e : t = k
      · subst e; rw [if_pos rfl, if_pos ⟨Nat.lt_succ_self _, hT⟩]
      · rw [if_neg e]
        by_cases h : t < k ∧ T i t = true
        · rw [if_pos h, if_pos ⟨by omega, h.2⟩]
        · rw [if_neg h, if_neg (fun h' => h ⟨by omega, h'.2⟩)]
    · rw [if_neg hT, ih]
      by_cases h : t < k ∧ T i t = true
      · rw [if_pos h, if_pos ⟨by omega, h.2⟩]
      · rw [if_neg h, if_neg]
        rintro ⟨h1, h2⟩
        by_cases e : t = k
        · subst e; exact hT h2
        · exact h ⟨by omega, h2⟩

theorem succLoop_none (T : Nat → Nat → Bool) (t : Nat) :
    ∀ (r : Nat) (s : Vec), (∀ i, i < r → t < i → T i t = false) → loopDown r (succBody T) s t = s t := by
  intro r
  induction r with
  | zero => intro s _; rfl
  | succ r ih =>
    intro s h
    simp only [loopDown]
    rw [ih _ (fun i hi => h i (by omega)), succBody_apply, if_neg]
    rintro ⟨h1, h2⟩
    rw [h r (by omega) h1] at h2; cases h2

theorem succLoop_some (T : Nat → Nat → Bool) (t i0 : Nat) (ht : t < i0) (hT : T i0 t = true)
    (hmin : ∀ i, i < i0 → t < i → T i t = false) :
    ∀ (r : Nat) (s : Vec), i0 < r → loopDown r (succBody T) s t = i0 := by
  intro r
  induction r with
  | zero => intro s h; omega
  | succ r ih =>
    intro s h
    simp only [loopDown]
    by_cases e : i0 = r
    · subst e
      rw [succLoop_none T t _ _ hmin, succBody_apply, if_pos ⟨ht, hT⟩]
    · exact ih _ (by omega)

def leadBody (T : Nat → Nat → Bool) (i : Nat) (l : Vec) : Vec :=
  loopUp i (fun j l => if T i j then l.set i (l j) else l) l

theorem leadBody_spec (T : Nat → Nat → Bool) (i : Nat) (l : Vec) :
    (∀ t, t ≠ i → leadBody T i l t = l t) ∧
    ((∀ j, j < i → T i j = false) → leadBody T i l i = l i) ∧
    ((∃ j, j < i ∧ T i j = true) → ∃ j, j < i ∧ T i j = true ∧ leadBody T i l i = l j) := by
  unfold leadBody
  suffices ∀ k, k ≤ i →
      (∀ t, t ≠ i → loopUp k (fun j l => if T i j then l.set i (l j) else l) l t = l t) ∧
      ((∀ j, j < k → T i j = false) → loopUp k (fun j l => if T i j then l.set i (l j) else l) l i = l i) ∧
      ((∃ j, j < k ∧ T i j = true) →
        ∃ j, j < k ∧ T i j = true ∧ loopUp k (fun j l => if T i j then l.set i (l j) else l) l i = l j)
    from this i (Nat.le_refl i)
  intro k
  induction k with
  | zero =>
    intro _
    refine ⟨fun _ _ => rfl, fun _ => rfl, ?_⟩
    rintro ⟨j, hj, _⟩; omega
  | succ k ih =>
    intro hk
    obtain ⟨i1, i2, i3⟩ := ih (by omega)
    simp only [loopUp]
    by_cases hT : T i k = true
    · simp only [if_pos hT, Vec.set_apply]
      refine ⟨fun t ht => by rw [if_neg ht]; exact i1 t ht, fun h => ?_, fun _ => ?_⟩
      · rw [h k (Nat.lt_succ_self k)] at hT; cases hT
      · refine ⟨k, Nat.lt_succ_self k, hT, ?_⟩
        rw [if_pos trivial]; exact i1 k (by omega)
    · simp only [if_neg hT]
      refine ⟨i1, fun h => i2 (fun j hj => h j (by omega)), ?_⟩
      rintro ⟨j, hj, hjT⟩
      have hj' : j < k := by
        by_cases e : j = k
        · subst e; exact absurd hjT hT
        · omega
      obtain ⟨j', h1, h2, h3⟩ := i3 ⟨j, hj', hjT⟩
      exact ⟨j', by omega, h2, h3⟩

/-! ## the test of the code -/

/-- `is_additive_inverse(m_ci[cj], m_i[j])` -/
def octTest (m : Mat) (i j : Nat) : Bool := ExtRat.isAddInv (m (cidx i) (cidx j)) (m i j)

theorem octTest_iff (m : Mat) {i j : Nat} (h : j < i) : octTest m i j = true ↔ OZEq m i j :=
  oct_test_iff m h

theorem octTest_false_iff (m : Mat) {i j : Nat} (h : j < i) : octTest m i j = false ↔ ¬ OZEq m i j := by
  rw [← octTest_iff m h]; cases octTest m i j <;> simp

theorem octComputeSuccessors_eq (rows : Nat) (m : Mat) :
    octComputeSuccessors rows m = loopDown rows (succBody (octTest m)) Vec.iota := rfl

theorem octComputeLeaders_eq (rows : Nat) (m : Mat) :
    octComputeLeaders rows m = loopUp rows (leadBody (octTest m)) Vec.iota := rfl

/-! ## successors (no closedness needed) -/

/-- `succ j` is the least index above `j` in the class of `j`, or `j` -/
structure IsOctSucc (N : Nat) (m : Mat) (succ : Nat → Nat) : Prop where
  ge : ∀ j, j ≤ succ j
  lt : ∀ j, j < N → succ j < N
  out : ∀ j, N ≤ j → succ j = j
  zeq : ∀ j, OZEq m (succ j) j
  between : ∀ j t, j < t → t < succ j → ¬ OZEq m t j
  self : ∀ j t, succ j = j → j < t → t < N → ¬ OZEq m t j

theorem octComputeSuccessors_cases (rows : Nat) (m : Mat) (j : Nat) :
    (octComputeSuccessors rows m j = j ∧ ∀ t, j < t → t < rows → ¬ OZEq m t j) ∨
    (j < octComputeSuccessors rows m j ∧ octComputeSuccessors rows m j < rows ∧
      OZEq m (octComputeSuccessors rows m j) j ∧
      ∀ t, j < t → t < octComputeSuccessors rows m j → ¬ OZEq m t j) := by
  rw [octComputeSuccessors_eq]
  by_cases h : ∃ i, i < rows ∧ j < i ∧ octTest m i j = true
  · obtain ⟨i0, ⟨h1, h2, h3⟩, hmin⟩ := exists_least _ h
    have hmin' : ∀ i, i < i0 → j < i → octTest m i j = false := by
      intro i hi hji
      cases e : octTest m i j
      · rfl
      · exact absurd ⟨by omega, hji, e⟩ (hmin i hi)
    right
    rw [succLoop_some (octTest m) j i0 h2 h3 hmin' rows _ h1]
    exact ⟨h2, h1, (octTest_iff m h2).1 h3, fun t ht hti => (octTest_false_iff m ht).1 (hmin' t hti ht)⟩
  · left
    have hn : ∀ i, i < rows → j < i → octTest m i j = false := by
      intro i hi hji
      cases e : octTest m i j
      · rfl
      · exact absurd ⟨i, hi, hji, e⟩ h
    rw [succLoop_none (octTest m) j rows _ hn]
    exact ⟨rfl, fun t ht htr => (octTest_false_iff m ht).1 (hn t htr ht)⟩

theorem octComputeSuccessors_isOctSucc (rows : Nat) (m : Mat) :
    IsOctSucc rows m (octComputeSuccessors rows m) where
  ge j := by rcases octComputeSuccessors_cases rows m j with h | h <;> omega
  lt j hj := by rcases octComputeSuccessors_cases rows m j with h | h <;> omega
  out j hj := by rcases octComputeSuccessors_cases rows m j with h | h <;> omega
  zeq j := by
    rcases octComputeSuccessors_cases rows m j with h | h
    · rw [h.1]; exact OZEq.refl m j
    · exact h.2.2.1
  between j t h1 h2 := by
    rcases octComputeSuccessors_cases rows m j with h | h
    · omega
    · exact h.2.2.2 t h1 h2
  self j t h0 h1 h2 := by
    rcases octComputeSuccessors_cases rows m j with h | h
    · exact h.2 t h1 h2
    · omega

/-- O2 (b) -/
theorem oct_successors_spec {n : Nat} (c : OctM n) (j : Nat) (hj : j < 2 * n) :
    j ≤ octComputeSuccessors (2 * n) c.e j ∧ octComputeSuccessors (2 * n) c.e j < 2 * n ∧
    OZEq c.e (octComputeSuccessors (2 * n) c.e j) j ∧
    (∀ t, j < t → t < octComputeSuccessors (2 * n) c.e j → ¬ OZEq c.e t j) ∧
    (octComputeSuccessors (2 * n) c.e j = j → ∀ t, j < t → t < 2 * n → ¬ OZEq c.e t j) := by
  have h := octComputeSuccessors_isOctSucc (2 * n) c.e
  exact ⟨h.ge j, h.lt j hj, h.zeq j, h.between j, fun e t => h.self j t e⟩

/-! ## leaders -/

/-- `lead i` is the least index of the class of `i` (`IsLeaderMap` for `OZEq`) -/
structure IsOctLead (N : Nat) (m : Mat) (lead : Nat → Nat) : Prop where
  le : ∀ i, i < N → lead i ≤ i
  zeq : ∀ i, i < N → OZEq m (lead i) i
  least : ∀ i j, i < N → j < N → OZEq m j i → lead i ≤ j

section closed
variable {n : Nat} (c : OctM n) (hc : c.IsStronglyClosed)
include hc

theorem octComputeLeaders_inv (r : Nat) (hr : r ≤ 2 * n) :
    (∀ t, t < r → loopUp r (leadBody (octTest c.e)) Vec.iota t ≤ t ∧
        OZEq c.e (loopUp r (leadBody (octTest c.e)) Vec.iota t) t ∧
        ∀ j, j < 2 * n → OZEq c.e j t → loopUp r (leadBody (octTest c.e)) Vec.iota t ≤ j) ∧
    (∀ t, r ≤ t → loopUp r (leadBody (octTest c.e)) Vec.iota t = t) := by
  induction r with
  | zero => exact ⟨fun t ht => by omega, fun t _ => rfl⟩
  | succ r ih =>
    obtain ⟨ih1, ih2⟩ := ih (by omega)
    simp only [loopUp]
    generalize loopUp r (leadBody (octTest c.e)) Vec.iota = l at ih1 ih2 ⊢
    obtain ⟨s1, s2, s3⟩ := leadBody_spec (octTest c.e) r l
    refine ⟨fun t ht => ?_, fun t ht => by rw [s1 t (by omega)]; exact ih2 t (by omega)⟩
    by_cases e : t = r
    · subst e
      by_cases hex : ∃ j, j < t ∧ octTest c.e t j = true
      · obtain ⟨j, hj, hT, hl⟩ := s3 hex
        rw [hl]
        have hzj : OZEq c.e t j := (octTest_iff c.e hj).1 hT
        obtain ⟨p1, p2, p3⟩ := ih1 j hj
        have hjn : j < 2 * n := by omega
        have hln : l j < 2 * n := by omega
        refine ⟨by omega, OZEq.trans c hc hln hjn (by omega) p2 hzj.symm, fun k hk hkz => ?_⟩
        exact p3 k hk (OZEq.trans c hc hk (by omega) hjn hkz hzj)
      · have hn : ∀ j, j < t → octTest c.e t j = false := by
          intro j hj
          cases e : octTest c.e t j
          · rfl
          · exact absurd ⟨j, hj, e⟩ hex
        rw [s2 hn, ih2 t (Nat.le_refl t)]
        refine ⟨Nat.le_refl t, OZEq.refl _ _, fun j _ hjz => ?_⟩
        by_cases hjt : j < t
        · exact absurd hjz.symm ((octTest_false_iff c.e hjt).1 (hn j hjt))
        · omega
    · rw [s1 t e]; exact ih1 t (by omega)

theorem octComputeLeaders_isOctLead : IsOctLead (2 * n) c.e (octComputeLeaders (2 * n) c.e) := by
  rw [octComputeLeaders_eq]
  obtain ⟨h, _⟩ := octComputeLeaders_inv c hc (2 * n) (Nat.le_refl _)
  exact ⟨fun i hi => (h i hi).1, fun i hi => (h i hi).2.1, fun i j hi hj hz => (h i hi).2.2 j hj hz⟩

omit hc in
theorem octComputeLeaders_out (rows : Nat) (m : Mat) (t : Nat) (ht : rows ≤ t) :
    octComputeLeaders rows m t = t := by
  rw [octComputeLeaders_eq]
  induction rows with
  | zero => rfl
  | succ r ih =>
    simp only [loopUp]
    rw [(leadBody_spec (octTest m) r _).1 t (by omega)]
    exact ih (by omega)

omit hc in
theorem IsOctLead.eq_iff {lead : Nat → Nat} (hl : IsOctLead (2 * n) c.e lead) (hc : c.IsStronglyClosed)
    {i j : Nat} (hi : i < 2 * n) (hj : j < 2 * n) : lead i = lead j ↔ OZEq c.e i j := by
  have li : lead i < 2 * n := by have := hl.le i hi; omega
  have lj : lead j < 2 * n := by have := hl.le j hj; omega
  constructor
  · intro e
    have h1 := (hl.zeq i hi).symm
    have h2 := hl.zeq j hj
    rw [← e] at h2
    exact OZEq.trans c hc hi li hj h1 h2
  · intro h
    have a := hl.least i (lead j) hi lj (OZEq.trans c hc lj hj hi (hl.zeq j hj) h.symm)
    have b := hl.least j (lead i) hj li (OZEq.trans c hc li hi hj (hl.zeq i hi) h)
    omega

/-- O2 (a) -/
theorem oct_leaders_spec :
    (∀ i, i < 2 * n → octComputeLeaders (2 * n) c.e i ≤ i ∧ OZEq c.e (octComputeLeaders (2 * n) c.e i) i ∧
      ∀ j, j < 2 * n → OZEq c.e j i → octComputeLeaders (2 * n) c.e i ≤ j) ∧
    (∀ i j, i < 2 * n → j < 2 * n →
      (octComputeLeaders (2 * n) c.e i = octComputeLeaders (2 * n) c.e j ↔ OZEq c.e i j)) := by
  have h := octComputeLeaders_isOctLead c hc
  exact ⟨fun i hi => ⟨h.le i hi, h.zeq i hi, fun j hj hz => h.least i j hi hj hz⟩,
    fun i j hi hj => h.eq_iff c hc hi hj⟩

end closed

end PPLV.WR
