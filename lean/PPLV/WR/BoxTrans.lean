import PPLV.Interval.Model
/-!
# C03 stage 4 — `Box<ITV>`: code-shaped executable model of the transformers (no Mathlib)

Transliteration of `/repo/src/Box_templates.hh`, `Box_inlines.hh`, `Box.cc` on top of the
code-shaped model of `Interval` / `Boundary_NS` of property C12 (`PPLV/Interval/Model.lean`,
imported, not edited).

* A `Box` is the sequence `seq` of intervals plus the two status bits the class keeps
  (`Box_Status`): `EMPTY` and `EMPTY_UP_TO_DATE`.  `marked_empty() = utd && empty`.
  The queries `is_empty()` / `check_empty()` are `const` in C++ but write the cache through a
  `const_cast`: here they return the new box as well.
* A linear expression is the dense list of its integer coefficients plus the inhomogeneous
  term; the `const_iterator` of `Linear_Expression` visits the non-zero coefficients in
  increasing order of the variable: `LinExpr.terms`.
* A constraint is `e ⋈ 0` with `⋈ ∈ {==, >=, >}` (`Constraint::Type`); `mkCon` is the
  constructor `Constraint(Linear_Expression&, Type, Topology)` with its `strong_normalize()`.
* `Cfg` collects what depends on the instantiation: the interval policy, the directed rounding
  `R` of the boundary type, the directed rounding `TR` of
  `Select_Temp_Boundary_Type<boundary_type>::type` (Interval_inlines.hh:1194) used by
  `propagate_constraint_no_check`, and whether `maybe_check_fpu_inexact<Temp>()` reports
  inexact operations (`fpu`; floating temporaries).

This file: status, `max_min`, interval constraints, `add_constraint_no_check`,
`refine_no_check`, `propagate_constraint_no_check`, `propagate_constraints_no_check`.
`BoxTrans2.lean`: images, preimages, lattice operations, dimensions.
-/
namespace PPLV.WR.BoxT
open PPLV.Interval
open PPLV.Interval.ExtRat (ninf fin pinf)

/-- bounded native integers: `floor`/`ceil`, saturating inside the range on the side the
direction allows, the infinity of the direction on the other side (`set_pos_overflow_int`,
`set_neg_overflow_int` of checked_int_inlines.hh) -/
def rangeRounding (lo hi : Int) : Rounding where
  down q :=
    if q < (lo : Rat) then ninf
    else if (hi : Rat) < q then fin (hi : Rat)
    else fin (q.floor : Rat)
  up q :=
    if (hi : Rat) < q then pinf
    else if q < (lo : Rat) then fin (lo : Rat)
    else fin (q.ceil : Rat)

structure Cfg where
  p : Policy
  R : Rounding
  TR : Rounding
  fpu : Bool

namespace Cfg
/-- `Rational_Box` -/
def mpq : Cfg := ⟨Policy.rational, Rounding.id, Rounding.id, false⟩
/-- `Z_Box` -/
def mpz : Cfg := ⟨Policy.integer, Rounding.int, Rounding.int, false⟩
/-- `Int8_Box`: boundaries `int8_t`, temporaries `signed long long` -/
def int8 : Cfg := ⟨Policy.integer, rangeRounding (-128) 127,
  rangeRounding (-9223372036854775808) 9223372036854775807, false⟩
/-- `Double_Box` -/
def dbl : Cfg := ⟨Policy.floating, Rounding.double, Rounding.double, true⟩
end Cfg

/-! ## linear expressions and constraints -/

structure LinExpr where
  coeffs : List Int
  inhom : Int
deriving DecidableEq, Repr, Inhabited

namespace LinExpr

def coeff (e : LinExpr) (i : Nat) : Int := e.coeffs.getD i 0

def termsFrom : Nat → List Int → List (Nat × Int)
  | _, [] => []
  | i, a :: as => if a == 0 then termsFrom (i + 1) as else (i, a) :: termsFrom (i + 1) as

/-- what `for (i = e.begin(); i != e.end(); ++i)` visits: `(i.variable().id(), *i)` -/
def terms (e : LinExpr) : List (Nat × Int) := termsFrom 0 e.coeffs

/-- (structural recursion on the first list, so that the kernel can evaluate it) -/
def zipCoeffs (f : Int → Int → Int) : List Int → List Int → List Int
  | [], bs => bs.map (f 0)
  | a :: as, [] => f a 0 :: zipCoeffs f as []
  | a :: as, b :: bs => f a b :: zipCoeffs f as bs

def add (e f : LinExpr) : LinExpr := ⟨zipCoeffs (· + ·) e.coeffs f.coeffs, e.inhom + f.inhom⟩
def sub (e f : LinExpr) : LinExpr := ⟨zipCoeffs (· - ·) e.coeffs f.coeffs, e.inhom - f.inhom⟩
def neg (e : LinExpr) : LinExpr := ⟨e.coeffs.map (fun a => -a), -e.inhom⟩
def scale (k : Int) (e : LinExpr) : LinExpr := ⟨e.coeffs.map (fun a => k * a), k * e.inhom⟩
def const (n : Int) : LinExpr := ⟨[], n⟩
/-- `k * Variable(v)` -/
def var (k : Int) (v : Nat) : LinExpr := ⟨List.replicate v 0 ++ [k], 0⟩

def dot : Nat → List Int → (Nat → Rat) → Rat
  | _, [], _ => 0
  | i, a :: as, x => (a : Rat) * x i + dot (i + 1) as x

/-- value on a point -/
def eval (e : LinExpr) (x : Nat → Rat) : Rat := dot 0 e.coeffs x + (e.inhom : Rat)

end LinExpr

/-- `Constraint::Type` -/
inductive CType where
  | eq | ge | gt
deriving DecidableEq, Repr, Inhabited

structure Con where
  e : LinExpr
  ty : CType
deriving DecidableEq, Repr, Inhabited

def Con.holds (c : Con) (x : Nat → Rat) : Prop :=
  match c.ty with
  | .eq => c.e.eval x = 0
  | .ge => 0 ≤ c.e.eval x
  | .gt => 0 < c.e.eval x

def gcdList (l : List Int) : Nat := l.foldl (fun g a => Nat.gcd g a.natAbs) 0

/-- `Constraint(Linear_Expression& e, Type, Topology)` (Constraint_inlines.hh:155):
`strong_normalize()` = division by the gcd of all coefficients (inhomogeneous term included)
and, for equalities, `sign_normalize()` (Linear_Expression_Impl_templates.hh:696): the first
non-zero homogeneous coefficient is made positive. -/
def mkCon (e : LinExpr) (ty : CType) : Con :=
  let g := gcdList (e.inhom :: e.coeffs)
  let e : LinExpr := if g > 1 then ⟨e.coeffs.map (fun a => a / (g : Int)), e.inhom / (g : Int)⟩ else e
  let e : LinExpr :=
    if ty == .eq then
      match e.terms with
      | (_, a) :: _ => if a < 0 then e.neg else e
      | [] => e
    else e
  ⟨e, ty⟩

/-- `e1 >= e2`, `e1 > e2`, `e1 == e2` (Constraint_inlines.hh:356–): `diff = e1 - e2`;
`e1 <= e2` is `e2 >= e1`, `e1 < e2` is `e2 > e1` -/
def conGe (e1 e2 : LinExpr) : Con := mkCon (e1.sub e2) .ge
def conGt (e1 e2 : LinExpr) : Con := mkCon (e1.sub e2) .gt
def conEq (e1 e2 : LinExpr) : Con := mkCon (e1.sub e2) .eq
def conLe (e1 e2 : LinExpr) : Con := conGe e2 e1
def conLt (e1 e2 : LinExpr) : Con := conGt e2 e1

/-! ## the box and its status -/

structure Box where
  seq : List Iv
  /-- `status.test_empty()` -/
  empty : Bool
  /-- `status.test_empty_up_to_date()` -/
  utd : Bool
deriving DecidableEq, Repr, Inhabited

namespace Box
/-- Box_inlines.hh:38 -/
def markedEmpty (b : Box) : Bool := b.utd && b.empty
/-- Box_inlines.hh:44 -/
def setEmpty (b : Box) : Box := { b with empty := true, utd := true }
/-- Box_inlines.hh:51 -/
def setNonempty (b : Box) : Box := { b with empty := false, utd := true }
/-- Box_inlines.hh:64 -/
def resetEmptyUpToDate (b : Box) : Box := { b with utd := false }
def get (b : Box) (k : Nat) : Iv := b.seq.getD k Iv.empty
def setIv (b : Box) (k : Nat) (I : Iv) : Box := { b with seq := b.seq.set k I }
def dim (b : Box) : Nat := b.seq.length

/-- `check_empty()` (Box_templates.hh:1471): the loop runs from the last interval down; only the
existence of an empty interval matters for the outcome -/
def checkEmpty (p : Policy) (b : Box) : Bool × Box :=
  if b.seq.any (fun I => isEmpty p I) then (true, b.setEmpty) else (false, b.setNonempty)

/-- `is_empty()` (Box_inlines.hh:183) -/
def isEmptyQ (p : Policy) (b : Box) : Bool × Box :=
  if b.markedEmpty then (true, b) else b.checkEmpty p

/-- the universe box `Box(n, UNIVERSE)` -/
def univ (p : Policy) (n : Nat) : Box := ⟨List.replicate n (Iv.universe p), false, true⟩
end Box

/-! ## `max_min` (Box_templates.hh:1144) -/

/-- the loop of `max_min`; `none` = unbounded in the requested direction -/
def maxMinLoop (p : Policy) (seq : List Iv) (maximize : Bool) :
    List (Nat × Int) → Rat → Bool → Option (Rat × Bool)
  | [], result, incl => some (result, incl)
  | (i, a) :: ts, result, incl =>
    let I := seq.getD i Iv.empty
    if (decide (a > 0)) == maximize then
      -- case 1: the upper bound
      if isBoundaryInfinity p .upper I.hi then none
      else match I.hi.value with
        | fin u => maxMinLoop p seq maximize ts (result + u * (a : Rat)) (incl && !isOpen p .upper I.hi)
        | _ => none
    else
      if isBoundaryInfinity p .lower I.lo then none
      else match I.lo.value with
        | fin l => maxMinLoop p seq maximize ts (result + l * (a : Rat)) (incl && !isOpen p .lower I.lo)
        | _ => none

/-- `max_min(expr, maximize, ext_n, ext_d, included)`: `some (ext_n/ext_d, included)` when it
returns `true` -/
def maxMin (p : Policy) (b : Box) (e : LinExpr) (maximize : Bool) : Option (Rat × Bool) × Box :=
  if b.dim == 0 then
    (if b.markedEmpty then none else some ((e.inhom : Rat), true), b)
  else
    let (em, b) := b.isEmptyQ p
    if em then (none, b)
    else (maxMinLoop p b.seq maximize e.terms (e.inhom : Rat) true, b)

/-! ## interval constraints `i_constraint(rel, q)` -/

/-- `refine_existential(rel, q)` with a scalar `q` (Interval_inlines.hh:441; the scalar is read
through `Scalar_As_Interval_Policy` / `SCALAR_INFO`): only the five relation symbols that the
box code builds -/
def refineExistentialScalar (p : Policy) (R : Rounding) (to : Iv) (rel : Rel) (q : Rat) : Iv :=
  let s : Bound := ⟨fin q, false⟩
  match rel with
  | .lt =>
    if lt p .upper to.hi Policy.scalar .upper s then to
    else ⟨to.lo, bAssign p R .upper Policy.scalar .upper s true⟩
  | .le =>
    if le p .upper to.hi Policy.scalar .upper s then to
    else ⟨to.lo, bAssign p R .upper Policy.scalar .upper s⟩
  | .gt =>
    if gt p .lower to.lo Policy.scalar .lower s then to
    else ⟨bAssign p R .lower Policy.scalar .lower s true, to.hi⟩
  | .ge =>
    if ge p .lower to.lo Policy.scalar .lower s then to
    else ⟨bAssign p R .lower Policy.scalar .lower s, to.hi⟩
  | .eq =>
    -- intersect_assign(x)
    ⟨bMax1 p R .lower to.lo Policy.scalar .lower s, bMin1 p R .upper to.hi Policy.scalar .upper s⟩
  | .ne => to

/-- `build(i_constraint(rel, q))` (Interval_defs.hh:252) -/
def buildC (p : Policy) (R : Rounding) (rel : Rel) (q : Rat) : Iv :=
  refineExistentialScalar p R (Iv.universe p) rel q

/-- `add_constraint(i_constraint(rel, q))` (Interval_defs.hh:302) -/
def addConstraintIv (p : Policy) (R : Rounding) (to : Iv) (rel : Rel) (q : Rat) : Iv :=
  intersectAssign p R to (buildC p R rel q)

/-- `build(c1, c2)` (Interval_defs.hh:278); `none` is the unset `I_Constraint` (`V_LGE`) -/
def build2 (p : Policy) (R : Rounding) (c1 c2 : Option (Rel × Rat)) : Iv :=
  match c1, c2 with
  | none, none => Iv.universe p
  | none, some (r2, q2) => buildC p R r2 q2
  | some (r1, q1), none => buildC p R r1 q1
  | some (r1, q1), some (r2, q2) => addConstraintIv p R (buildC p R r1 q1) r2 q2

/-- `Interval::assign(const Coefficient&)` -/
def ivOfInt (p : Policy) (R : Rounding) (z : Int) : Iv :=
  assign p R Policy.scalar ⟨⟨fin (z : Rat), false⟩, ⟨fin (z : Rat), false⟩⟩

/-! ## `add_constraint_no_check`, `refine_no_check` -/

/-- `Box_Helpers::extract_interval_constraint` (Box.cc:30): `none` = not an interval constraint,
`some none` = no variable, `some (some v)` = the only variable -/
def extractIntervalConstraint (c : Con) : Option (Option Nat) :=
  match c.e.terms with
  | [] => some none
  | [(v, _)] => some (some v)
  | _ => none

/-- `refine_interval_no_check` + `add_interval_constraint_no_check` (Box_inlines.hh:401, 442):
the constraint is `denom * var + numer ⋈ 0` -/
def addIntervalConstraintNoCheck (cfg : Cfg) (b : Box) (v : Nat) (ty : CType) (numer denom : Int) : Box :=
  let q : Rat := -((numer : Rat) / (denom : Rat))
  let rel : Rel :=
    match ty with
    | .eq => .eq
    | .ge => if denom > 0 then .ge else .le
    | .gt => if denom > 0 then .gt else .lt
  (b.setIv v (addConstraintIv cfg.p cfg.R (b.get v) rel q)).resetEmptyUpToDate

/-- the trivial constraint `n ⋈ 0` is inconsistent -/
def trivialFalse (ty : CType) (n : Int) : Bool :=
  n < 0 || (ty == .eq && n != 0) || (ty == .gt && n == 0)

/-- `add_constraint_no_check` (Box_templates.hh:2386); `none` = `std::invalid_argument` -/
def addConstraintNoCheck (cfg : Cfg) (b : Box) (c : Con) : Option Box :=
  match extractIntervalConstraint c with
  | none => none
  | some ov =>
    if c.ty == .gt && ov.isSome && !cfg.p.storeOpen then none
    else if b.markedEmpty then some b
    else match ov with
      | none => some (if trivialFalse c.ty c.e.inhom then b.setEmpty else b)
      | some v => some (addIntervalConstraintNoCheck cfg b v c.ty c.e.inhom (c.e.coeff v))

/-! ## `propagate_constraint_no_check` (Box_templates.hh:2617) -/

inductive Dir where
  | down | up
deriving DecidableEq, Repr, Inhabited

def Dir.flip : Dir → Dir
  | .down => .up
  | .up => .down

def rnd (TR : Rounding) : Dir → Rat → ExtRat
  | .down, q => TR.down q
  | .up, q => TR.up q

/-- a checked operation on `Temp_Boundary_Type` followed by `propagate_constraint_check_result`:
`none` = the `goto` (result class `V_GT_MINUS_INFINITY`, `V_LT_PLUS_INFINITY`, `V_NAN`), otherwise
the stored value and whether the operation was inexact (`V_LT/V_GT`: `open = T_YES` at once;
`V_LE/V_GE`: `T_MAYBE`, decided at the end by `maybe_check_fpu_inexact`) -/
def tmpOp (TR : Rounding) (d : Dir) (exact : Rat) : Option (Rat × Bool) :=
  match rnd TR d exact with
  | fin v => some (v, v != exact)
  | _ => none

/-- the directions of one of the four blocks -/
structure Block where
  /-- `assign_r(t_bound, c_inhomogeneous_term, ·)` -/
  dInh : Dir
  /-- `neg_assign_r(t_bound, t_bound, ·)` -/
  dNeg : Dir
  /-- terms with `a_i < 0`: the bound of `x_i` that is read (`true` = lower), directions of `t_a`, `t_x` -/
  negLower : Bool
  dNegA : Dir
  dNegX : Dir
  /-- terms with `a_i > 0` -/
  posLower : Bool
  dPosA : Dir
  dPosX : Dir
  /-- `sub_mul_assign_r(t_bound, t_a, t_x, ·)` (the same in both branches of every block) -/
  dSubMulNeg : Dir
  dSubMulPos : Dir
  /-- `assign_r(t_a, a_k, ·)` -/
  dAk : Dir
  /-- `div_assign_r(t_bound, t_bound, t_a, ·)` -/
  dDiv : Dir
  /-- the refined bound of `seq[k]`: `true` = lower (`>`/`>=`), `false` = upper (`<`/`<=`) -/
  refinesLower : Bool

/-- `sgn_a_k > 0`, lower bound of `x_k` (lines 2659–2742) -/
def blockPosLower : Block :=
  ⟨.up, .down, true, .down, .down, false, .up, .up, .down, .down, .up, .down, true⟩
/-- `sgn_a_k > 0`, equality: upper bound of `x_k` (label `maybe_refine_upper_1`, lines 2743–2825) -/
def blockPosUpper : Block :=
  ⟨.down, .up, false, .up, .up, true, .down, .down, .up, .up, .down, .up, false⟩
/-- `sgn_a_k < 0`, upper bound of `x_k` (lines 2828–2912) -/
def blockNegUpper : Block :=
  ⟨.up, .down, true, .down, .down, false, .up, .up, .down, .down, .up, .up, false⟩
/-- `sgn_a_k < 0`, equality: lower bound of `x_k` (label `maybe_refine_upper_2`, lines 2913–2995) -/
def blockNegLower : Block :=
  ⟨.down, .up, false, .up, .up, true, .down, .down, .up, .up, .down, .down, true⟩

/-- the state of a block: `t_bound`, `open == T_YES` so far, an inexact operation so far -/
structure Acc where
  v : Rat
  opn : Bool
  inex : Bool

/-- the inner loop over `i ≠ k` -/
def blockLoop (cfg : Cfg) (B : Block) (seq : List Iv) (k : Nat) : List (Nat × Int) → Acc → Option Acc
  | [], acc => some acc
  | (i, a) :: ts, acc =>
    if i == k then blockLoop cfg B seq k ts acc
    else
      let I := seq.getD i Iv.empty
      let neg := decide (a < 0)
      let useLower := if neg then B.negLower else B.posLower
      let dA := if neg then B.dNegA else B.dPosA
      let dX := if neg then B.dNegX else B.dPosX
      let dS := if neg then B.dSubMulNeg else B.dSubMulPos
      let bd := if useLower then I.lo else I.hi
      let side : BT := if useLower then .lower else .upper
      if isBoundaryInfinity cfg.p side bd then none
      else match tmpOp cfg.TR dA (a : Rat) with
        | none => none
        | some (ta, i1) =>
          match bd.value with
          | fin xv =>
            match tmpOp cfg.TR dX xv with
            | none => none
            | some (tx, i2) =>
              let opn := acc.opn || isOpen cfg.p side bd
              -- sub_mul_assign_r(t_bound, t_a, t_x, dS): the product is formed first, rounded so that the
              -- difference errs in direction dS (checked_float_inlines.hh:1047 `multiply_add` without a
              -- fused operation: two roundings; exact temporaries: the product is exact), then the difference
              match tmpOp cfg.TR dS.flip (ta * tx) with
              | none => none
              | some (pr, i3) =>
                match tmpOp cfg.TR dS (acc.v - pr) with
                | none => none
                | some (tb, i4) => blockLoop cfg B seq k ts ⟨tb, opn, acc.inex || i1 || i2 || i3 || i4⟩
          | _ => none

/-- one block: the new interval for `seq[k]`, or `none` when a `goto` is taken -/
def runBlock (cfg : Cfg) (B : Block) (seq : List Iv) (c : Con) (k : Nat) (ak : Int) (strict : Bool) : Option Iv :=
  match tmpOp cfg.TR B.dInh (c.e.inhom : Rat) with
  | none => none
  | some (t0, i0) =>
    match tmpOp cfg.TR B.dNeg (-t0) with
    | none => none
    | some (t1, i1) =>
      match blockLoop cfg B seq k c.e.terms ⟨t1, strict, i0 || i1⟩ with
      | none => none
      | some acc =>
        match tmpOp cfg.TR B.dAk (ak : Rat) with
        | none => none
        | some (ta, i2) =>
          if ta == 0 then none
          else match tmpOp cfg.TR B.dDiv (acc.v / ta) with
            | none => none
            | some (tb, i3) =>
              let opn := acc.opn || ((acc.inex || i2 || i3) && cfg.fpu)
              let rel : Rel := if B.refinesLower then (if opn then .gt else .ge) else (if opn then .lt else .le)
              some (addConstraintIv cfg.p cfg.R (seq.getD k Iv.empty) rel tb)

/-- apply a block to the box (`reset_empty_up_to_date()` after a refinement) -/
def applyBlock (cfg : Cfg) (B : Block) (b : Box) (c : Con) (k : Nat) (ak : Int) (strict : Bool) : Box :=
  match runBlock cfg B b.seq c k ak strict with
  | none => b
  | some I => (b.setIv k I).resetEmptyUpToDate

/-- the body of the `k` loop -/
def propagateStep (cfg : Cfg) (c : Con) (b : Box) (t : Nat × Int) : Box :=
  let (k, ak) := t
  if ak > 0 then
    let b := applyBlock cfg blockPosLower b c k ak (c.ty == .gt)
    if c.ty != .eq then b else applyBlock cfg blockPosUpper b c k ak false
  else
    let b := applyBlock cfg blockNegUpper b c k ak (c.ty == .gt)
    if c.ty != .eq then b else applyBlock cfg blockNegLower b c k ak false

/-- `propagate_constraint_no_check` (Box_templates.hh:2617).  The trivial case (lines 2633–2645) is the test of the
repaired tree (/repo dee742e): `n < 0 || (n == 0 && STRICT_INEQUALITY) || (n > 0 && EQUALITY)`. -/
def propagateConstraintNoCheck (cfg : Cfg) (b : Box) (c : Con) : Box :=
  match c.e.terms with
  | [] =>
    if c.e.inhom < 0 || (c.e.inhom == 0 && c.ty == .gt) || (c.e.inhom > 0 && c.ty == .eq) then b.setEmpty else b
  | ts => ts.foldl (propagateStep cfg c) b

/-- the function as written before /repo dee742e (KF-C03-64): the trivial case tested
`n < 0 || (n == 0 && type != NONSTRICT_INEQUALITY)`, which is true of the tautology `0 == 0` and false of the
inconsistent `b == 0`, `b > 0`.  Kept as the historical witness `…_before_fix_fails`. -/
def propagateConstraintNoCheckBeforeFix (cfg : Cfg) (b : Box) (c : Con) : Box :=
  match c.e.terms with
  | [] =>
    if c.e.inhom < 0 || (c.e.inhom == 0 && c.ty != .ge) then b.setEmpty else b
  | ts => ts.foldl (propagateStep cfg c) b

/-- `refine_no_check(const Constraint&)` (Box_templates.hh:2504) -/
def refineNoCheck (cfg : Cfg) (b : Box) (c : Con) : Box :=
  match extractIntervalConstraint c with
  | none => propagateConstraintNoCheck cfg b c
  | some none => if trivialFalse c.ty c.e.inhom then b.setEmpty else b
  | some (some v) => addIntervalConstraintNoCheck cfg b v c.ty c.e.inhom (c.e.coeff v)

/-- `refine_with_constraint` (Box_inlines.hh:459) -/
def refineWithConstraint (cfg : Cfg) (b : Box) (c : Con) : Box :=
  if b.markedEmpty then b else refineNoCheck cfg b c

/-- `refine_no_check(const Constraint_System&)` (Box_templates.hh:2534) -/
def refineWithConstraints (cfg : Cfg) (b : Box) (cs : List Con) : Box :=
  if b.markedEmpty then b
  else cs.foldl (fun b c => if b.markedEmpty then b else refineNoCheck cfg b c) b

/-- `Sequence::operator!=` through `Interval::operator==` -/
def seqEq (p : Policy) : List Iv → List Iv → Bool
  | [], [] => true
  | x :: xs, y :: ys => ivEq p x y && seqEq p xs ys
  | _, _ => false

/-- `propagate_constraints_no_check(cs, max_iterations)` (Box_templates.hh:3065): the `do … while
(changed)` loop with `fuel` iterations at most; `num` = `num_iterations` so far -/
def propagateConstraintsNoCheck (cfg : Cfg) (cs : List Con) (maxIter : Nat) : Nat → Nat → Box → Box
  | 0, _, b => b
  | fuel + 1, num, b =>
    let b' := cs.foldl (propagateConstraintNoCheck cfg) b
    if num + 1 == maxIter then b'
    else if seqEq cfg.p b.seq b'.seq then b'
    else propagateConstraintsNoCheck cfg cs maxIter fuel (num + 1) b'

/-- `propagate_constraint(c)` / `propagate_constraints(cs, max_iterations)` (Box_inlines.hh:522, 538) -/
def propagateConstraint (cfg : Cfg) (b : Box) (c : Con) : Box :=
  if b.markedEmpty then b else propagateConstraintNoCheck cfg b c

def propagateConstraints (cfg : Cfg) (fuel : Nat) (b : Box) (cs : List Con) (maxIter : Nat) : Box :=
  if b.markedEmpty then b else propagateConstraintsNoCheck cfg cs maxIter fuel 0 b

end PPLV.WR.BoxT
