import PPLV.WR.ReduceProofsUBCompleteOctLeaves
import PPLV.WR.ReduceProofsUBCompleteEdge
import PPLV.WR.ReduceOctProofsBase
/-!
# Octagon exact-join test, answer `false`: two coherent pairs of edges on a coherent closed matrix

`V` closed on `N` indices and coherent (`V u v = V cv cu`).  Under the lower bounds `OctFacts` (and
`a' ≤ V i j`), `V` tightened by the four constraints
`P_i - P_j ≤ -a'`, `P_cj - P_ci ≤ -a'` (the twin), `P_k - P_ℓ ≤ -b'`, `P_cℓ - P_ck ≤ -b'` (the twin)
is still closed: four applications of `Closed.addEdge`, the compatibility conditions being `lb_K3`, `lb_K4a`,
`lb_K4b` of `ReduceProofsUBCompleteOctLeaves.lean` on the six alternatives `Mat.addEdge2_alts` of an entry of the
matrix tightened by the first pair.
-/
namespace PPLV.WR
open ExtRat

/-- an entry of the matrix tightened by the cell `(j, i)` and its twin `(ci, cj)` is one of six sums -/
theorem Mat.addEdge2_alts (V : Mat) (i j : Nat) (w : Rat) (u v : Nat) :
    Alts6 (V u v) (V u j) (V i v) (V u (cidx i)) (V (cidx j) v) (V i (cidx i)) (V (cidx j) j) w
      (((V.addEdge j i w).addEdge (cidx i) (cidx j) w) u v) := by
  rw [Mat.addEdge_apply (V.addEdge j i w), Mat.addEdge_apply V, Mat.addEdge_apply V, Mat.addEdge_apply V]
  unfold Alts6
  rcases minA_cases (V u v) (eadd (V u j) (eadd (fin w) (V i v))) with e1 | e1 <;>
  rcases minA_cases (V u (cidx i)) (eadd (V u j) (eadd (fin w) (V i (cidx i)))) with e2 | e2 <;>
  rcases minA_cases (V (cidx j) v) (eadd (V (cidx j) j) (eadd (fin w) (V i v))) with e3 | e3 <;>
  rw [e1, e2, e3] <;>
  (rcases minA_cases _ _ with e | e <;> rw [e] <;> simp)

/-- the twin edge against the path through the first edge -/
theorem fin_le_path2 {q : Rat} {A B : ExtRat} (h : fin (2 * q) ≤ eadd A B) :
    fin q ≤ eadd B (eadd (fin (-q)) A) := by
  cases A <;> cases B <;> simp_all [eadd, ExtRat.addUp]
  linarith

theorem fin_zero_le_eadd_neg' {q : Rat} {e : ExtRat} (h : fin q ≤ e) : fin 0 ≤ eadd (fin (-q)) e := by
  cases e with
  | pinf => exact ExtRat.le_pinf _
  | fin u =>
    rw [ExtRat.fin_le_fin] at h
    simp only [eadd, ExtRat.addUp, ExtRat.fin_le_fin]
    linarith

/-- **two coherent pairs of edges** -/
theorem oct_two_pairs {N : Nat} {V : Mat} (hV : Closed N V) (hcoh : ∀ u v, V u v = V (cidx v) (cidx u))
    {i j k l : Nat} (hi : i < N) (hj : j < N) (hk : k < N) (hl : l < N)
    (hci : cidx i < N) (hcj : cidx j < N) (hck : cidx k < N) (hcl : cidx l < N)
    {a' b' : Rat} (f1 : fin a' ≤ V i j)
    (F : OctFacts a' b' (V k l) (V i l) (V k j) (V i (cidx k)) (V (cidx j) l) (V i (cidx i)) (V (cidx j) j)
      (V k (cidx k)) (V (cidx l) l)) :
    ∃ d : Mat, Closed N d ∧ (∀ u v, d u v ≤ V u v) ∧ d j i ≤ fin (-a') ∧ d (cidx i) (cidx j) ≤ fin (-a') ∧
      d l k ≤ fin (-b') ∧ d (cidx k) (cidx l) ≤ fin (-b') := by
  -- coherent copies of the entries
  have q1 : V (cidx l) (cidx i) = V i l := (hcoh i l).symm
  have q2 : V (cidx j) (cidx k) = V k j := (hcoh k j).symm
  have q3 : V k (cidx i) = V i (cidx k) := by rw [hcoh k (cidx i), cidx_cidx]
  have q4 : V (cidx l) j = V (cidx j) l := by rw [hcoh (cidx l) j, cidx_cidx]
  have q5 : V (cidx j) (cidx i) = V i j := (hcoh i j).symm
  have q6 : V (cidx l) (cidx k) = V k l := (hcoh k l).symm
  -- first pair
  have hc1 : Closed N (V.addEdge j i (-a')) := hV.addEdge hj hi _ (fin_zero_le_eadd_neg' f1)
  have k2 : fin a' ≤ (V.addEdge j i (-a')) (cidx j) (cidx i) := by
    rw [Mat.addEdge_apply, q5]
    exact ExtRat.le_minA f1 (fin_le_path2 F.f1b)
  have hc2 : Closed N ((V.addEdge j i (-a')).addEdge (cidx i) (cidx j) (-a')) :=
    hc1.addEdge hci hcj _ (fin_zero_le_eadd_neg' k2)
  -- second pair
  have k3 : fin b' ≤ ((V.addEdge j i (-a')).addEdge (cidx i) (cidx j) (-a')) k l := by
    have hS := Mat.addEdge2_alts V i j (-a') k l
    rw [q3] at hS
    exact lb_K3 F hS
  have hc3 : Closed N (((V.addEdge j i (-a')).addEdge (cidx i) (cidx j) (-a')).addEdge l k (-b')) :=
    hc2.addEdge hl hk _ (fin_zero_le_eadd_neg' k3)
  have k4 : fin b' ≤ (((V.addEdge j i (-a')).addEdge (cidx i) (cidx j) (-a')).addEdge l k (-b'))
      (cidx l) (cidx k) := by
    rw [Mat.addEdge_apply]
    refine ExtRat.le_minA ?_ ?_
    · have hS := Mat.addEdge2_alts V i j (-a') (cidx l) (cidx k)
      rw [q6, q4, q1, q2] at hS
      exact lb_K4a F hS
    · have hS := Mat.addEdge2_alts V i j (-a') k (cidx k)
      have hT := Mat.addEdge2_alts V i j (-a') (cidx l) l
      rw [q3, q2] at hS
      rw [q4, q1] at hT
      exact lb_K4b F hS hT
  have hc4 : Closed N ((((V.addEdge j i (-a')).addEdge (cidx i) (cidx j) (-a')).addEdge l k
      (-b')).addEdge (cidx k) (cidx l) (-b')) :=
    hc3.addEdge hck hcl _ (fin_zero_le_eadd_neg' k4)
  refine ⟨_, hc4, fun u v => ?_, ?_, ?_, ?_, ?_⟩
  · exact ExtRat.le_trans' (Mat.addEdge_le _ _ _ _ _ _) (ExtRat.le_trans' (Mat.addEdge_le _ _ _ _ _ _)
      (ExtRat.le_trans' (Mat.addEdge_le _ _ _ _ _ _) (Mat.addEdge_le _ _ _ _ _ _)))
  · exact ExtRat.le_trans' (Mat.addEdge_le _ _ _ _ _ _) (ExtRat.le_trans' (Mat.addEdge_le _ _ _ _ _ _)
      (ExtRat.le_trans' (Mat.addEdge_le _ _ _ _ _ _) (hV.addEdge_edge hj hi _)))
  · exact ExtRat.le_trans' (Mat.addEdge_le _ _ _ _ _ _) (ExtRat.le_trans' (Mat.addEdge_le _ _ _ _ _ _)
      (hc1.addEdge_edge hci hcj _))
  · exact ExtRat.le_trans' (Mat.addEdge_le _ _ _ _ _ _) (hc2.addEdge_edge hl hk _)
  · exact hc3.addEdge_edge hck hcl _

end PPLV.WR
