import PPLV.WR.TransOct2Gen
import PPLV.WR.TransOctProofsSpecial
import PPLV.WR.TransOctProofsTranslate
/-!
# `Octagonal_Shape<T>::generalized_affine_image(var, …)`: the branches `expr == b`, `±den*w + b`, `±den*var + b`

No side condition on the rounding beyond `R.Sound`.
-/
set_option linter.unusedVariables false
set_option linter.unusedSimpArgs false
set_option linter.unusedTactic false
namespace PPLV.WR
open ExtRat

theorem octAddF_fst (mf : Mat × Bool) (i j : Nat) (k : ExtRat) :
    (octAddF mf i j k).1 = addDbmConstraint mf.1 i j k := by
  unfold octAddF addDbmConstraint; split <;> rfl

theorem octAddQF_fst (R : Rnd) (mf : Mat × Bool) (i j : Nat) (num dn : Int) :
    (octAddQF R mf i j num dn).1 = addDbmConstraintQ R mf.1 i j num dn := octAddF_fst _ _ _ _

/-! ## one-sided translation: `octGenTranslate` with `w_coeff == denominator` -/

/-- rows/columns of `var` shifted by `u0` (index `2v`) and `u1` (index `2v+1`); `+∞` forgets -/
def octShiftP (up : Rat → ExtRat) (n vid : Nat) (ord : Bool) (u0 u1 : ExtRat) (m : Mat) : Mat :=
  let m1 := loopUp (2 * n - (2 * vid + 2)) (fun k m =>
    (m.set (2 * vid + 2 + k) (2 * vid) (addUp up (m (2 * vid + 2 + k) (2 * vid)) u1)).set
      (2 * vid + 2 + k) (2 * vid + 1) (addUp up (m (2 * vid + 2 + k) (2 * vid + 1)) u0)) m
  let m2 := loopDown (2 * vid) (fun j m =>
    (m.set (2 * vid) j (addUp up (m (2 * vid) j) u0)).set (2 * vid + 1) j (addUp up (m (2 * vid + 1) j) u1)) m1
  if ord then
    (m2.set (2 * vid + 1) (2 * vid) (addUp up (m2 (2 * vid + 1) (2 * vid)) (mulTwoUp up u1))).set
      (2 * vid) (2 * vid + 1) (addUp up (m2 (2 * vid) (2 * vid + 1)) (mulTwoUp up u0))
  else
    (m2.set (2 * vid) (2 * vid + 1) (addUp up (m2 (2 * vid) (2 * vid + 1)) (mulTwoUp up u0))).set
      (2 * vid + 1) (2 * vid) (addUp up (m2 (2 * vid + 1) (2 * vid)) (mulTwoUp up u1))

theorem octGenTranslate_plus_eq (R : Rnd) (n vid : Nat) (isLe : Bool) (d : ExtRat) (m : Mat) :
    octGenTranslate R n vid isLe true d m
      = octShiftP R.up n vid isLe (if isLe then pinf else d) (if isLe then d else pinf) m := by
  unfold octGenTranslate octShiftP
  cases isLe
  · simp only [Bool.false_eq_true, ↓reduceIte, addUp_pinf_right, mulTwoUp]
  · simp only [↓reduceIte, addUp_pinf_right, mulTwoUp]

theorem octShiftP_holds {up : Rat → ExtRat} (hup : ∀ q, fin q ≤ up q) {n vid : Nat} (hv : vid < n) (ord : Bool)
    {u0 u1 : ExtRat} {q : Rat} (hd : fin q ≤ u1) (hmd : fin (-q) ≤ u0)
    {y y' : Nat → Rat} {m : Mat} (h : Holds (SO n) y m)
    (hy0 : y' (2 * vid) = y (2 * vid) + q) (hy1 : y' (2 * vid + 1) = y (2 * vid + 1) - q)
    (hyo : ∀ i, i ≠ 2 * vid → i ≠ 2 * vid + 1 → y' i = y i) :
    Holds (SO n) y' (octShiftP up n vid ord u0 u1 m) := by
  have key : ∀ {s t z : Rat} {A B : ExtRat}, fin s ≤ A → fin t ≤ B → z = s + t →
      fin z ≤ addUp up A B := by
    intro s t z A B h1 h2 e; rw [e]; exact fin_le_addUp hup h1 h2
  have hd2 := fin_le_mulTwoUp hup hd
  have hmd2 := fin_le_mulTwoUp hup hmd
  have hcell : ∀ a c, a < 2 * n → c < a + 2 - a % 2 → fin (y c - y a) ≤ m a c :=
    fun a c h1 h2 => h a c ⟨h1, by unfold rowSize; exact h2⟩
  intro a c hac
  obtain ⟨ha, hc⟩ := hac
  unfold rowSize at hc
  unfold octShiftP
  cases ord <;> simp only [Bool.false_eq_true, ↓reduceIte, Mat.set_apply, transCols_apply, transRows_apply]
  all_goals
    by_cases ha0 : a = 2 * vid
    · subst ha0
      by_cases hc1 : c = 2 * vid + 1
      · subst hc1
        simp (disch := omega) only [if_pos, if_neg, and_true, true_and, and_self, and_false, false_and]
        refine key (hcell (2 * vid) (2 * vid + 1) (by omega) (by omega)) hmd2 ?_
        rw [hy0, hy1]; ring
      · by_cases hc0 : c = 2 * vid
        · subst hc0
          simp (disch := omega) only [if_pos, if_neg, and_true, true_and, and_self, and_false, false_and]
          have := hcell (2 * vid) (2 * vid) (by omega) (by omega)
          rw [sub_self] at this ⊢; exact this
        · simp (disch := omega) only [if_pos, if_neg, and_true, true_and, and_self, and_false, false_and]
          refine key (hcell (2 * vid) c (by omega) (by omega)) hmd ?_
          rw [hy0, hyo c hc0 hc1]; ring
    · by_cases ha1 : a = 2 * vid + 1
      · subst ha1
        by_cases hc0 : c = 2 * vid
        · subst hc0
          simp (disch := omega) only [if_pos, if_neg, and_true, true_and, and_self, and_false, false_and]
          refine key (hcell (2 * vid + 1) (2 * vid) (by omega) (by omega)) hd2 ?_
          rw [hy0, hy1]; ring
        · by_cases hc1 : c = 2 * vid + 1
          · subst hc1
            simp (disch := omega) only [if_pos, if_neg, and_true, true_and, and_self, and_false, false_and]
            have := hcell (2 * vid + 1) (2 * vid + 1) (by omega) (by omega)
            rw [sub_self] at this ⊢; exact this
          · simp (disch := omega) only [if_pos, if_neg, and_true, true_and, and_self, and_false, false_and]
            refine key (hcell (2 * vid + 1) c (by omega) (by omega)) hd ?_
            rw [hy1, hyo c hc0 hc1]; ring
      · by_cases hc0 : c = 2 * vid
        · subst hc0
          simp (disch := omega) only [if_pos, if_neg, and_true, true_and, and_self, and_false, false_and]
          refine key (hcell a (2 * vid) (by omega) (by omega)) hd ?_
          rw [hy0, hyo a ha0 ha1]; ring
        · by_cases hc1 : c = 2 * vid + 1
          · subst hc1
            simp (disch := omega) only [if_pos, if_neg, and_true, true_and, and_self, and_false, false_and]
            refine key (hcell a (2 * vid + 1) (by omega) (by omega)) hmd ?_
            rw [hy1, hyo a ha0 ha1]; ring
          · simp (disch := omega) only [if_pos, if_neg, and_true, true_and, and_self, and_false, false_and]
            rw [hyo a ha0 ha1, hyo c hc0 hc1]
            exact hcell a c ha hc

/-! ## `forget_binary_octagonal_constraints` -/

theorem octForgetBinary_apply (n vid : Nat) (m : Mat) (a c : Nat) :
    octForgetBinary n vid m a c
      = if ((a = 2 * vid ∨ a = 2 * vid + 1) ∧ c < 2 * vid) ∨
           ((2 * vid + 2 ≤ a ∧ a < 2 * n) ∧ (c = 2 * vid ∨ c = 2 * vid + 1)) then pinf else m a c := by
  unfold octForgetBinary
  dsimp only
  rw [forgetLoop2_apply, forgetLoop1_apply]
  by_cases h2 : (2 * vid + 2 ≤ a ∧ a < 2 * vid + 2 + (2 * n - (2 * vid + 2))) ∧ (c = 2 * vid ∨ c = 2 * vid + 1)
  · rw [if_pos h2, if_pos (by omega)]
  · rw [if_neg h2]
    by_cases h1 : (a = 2 * vid ∨ a = 2 * vid + 1) ∧ c < 2 * vid
    · rw [if_pos h1, if_pos (Or.inl h1)]
    · rw [if_neg h1, if_neg (by omega)]

/-- `w_coeff == -denominator`: one unary cell from the opposite one, everything else on `var` forgotten -/
theorem octGenTranslate_minus_holds {R : Rnd} (hR : R.Sound) {n vid : Nat} (hv : vid < n) (isLe : Bool)
    {d : ExtRat} {q : Rat} (hq : fin q ≤ d) {x : Nat → Rat} {m : Mat} (h : Holds (SO n) (OctM.oval x) m) {t : Rat}
    (ht : if isLe then t ≤ - x vid + q else - t ≤ x vid + q) :
    Holds (SO n) (OctM.oval (upd x vid t)) (octGenTranslate R n vid isLe false d m) := by
  have hun := oct_unary h hv
  have hq2 := fin_le_mulTwoUp hR.up_le hq
  have key : ∀ {s t z : Rat} {A B : ExtRat}, fin s ≤ A → fin t ≤ B → z ≤ s + t →
      fin z ≤ addUp R.up A B := by
    intro s t z A B h1 h2 e; exact le_trans' (fin_le_fin.2 e) (fin_le_addUp hR.up_le h1 h2)
  have ov0 : OctM.oval (upd x vid t) (2 * vid) = t := by rw [oval_upd, if_pos rfl]
  have ov1 : OctM.oval (upd x vid t) (2 * vid + 1) = - t := by rw [oval_upd, if_neg (by omega), if_pos rfl]
  intro a c hac
  obtain ⟨ha, hc⟩ := hac
  unfold rowSize at hc
  unfold octGenTranslate
  simp only [Bool.false_eq_true, ↓reduceIte]
  rw [octForgetBinary_apply]
  split
  · exact le_pinf _
  · rename_i hnf
    -- the cells that survive: both indices off `var`, or both on `var`
    have hrest : ∀ M : Mat, (∀ a c, ¬ (a = 2 * vid + 1 ∧ c = 2 * vid) → ¬ (a = 2 * vid ∧ c = 2 * vid + 1) → M a c = m a c) →
        ¬ (a = 2 * vid + 1 ∧ c = 2 * vid) → ¬ (a = 2 * vid ∧ c = 2 * vid + 1) →
        fin (OctM.oval (upd x vid t) c - OctM.oval (upd x vid t) a) ≤ M a c := by
      intro M hM h1 h2
      rw [hM a c h1 h2]
      by_cases hav : a = 2 * vid ∨ a = 2 * vid + 1
      · have hca : c = a := by omega
        rw [hca, sub_self]
        have := h a a ⟨ha, by unfold rowSize; omega⟩
        rw [sub_self] at this; exact this
      · have hcv : c ≠ 2 * vid ∧ c ≠ 2 * vid + 1 := by omega
        rw [oval_upd_ne x t (i := a) (by omega) (by omega), oval_upd_ne x t (i := c) hcv.1 hcv.2]
        exact h a c ⟨ha, by unfold rowSize; exact hc⟩
    cases isLe
    · simp only [Bool.false_eq_true, ↓reduceIte] at ht ⊢
      by_cases h1 : a = 2 * vid + 1 ∧ c = 2 * vid
      · simp only [Mat.set_apply]; rw [if_pos h1]; exact le_pinf _
      · by_cases h2 : a = 2 * vid ∧ c = 2 * vid + 1
        · simp only [Mat.set_apply]
          rw [if_neg h1, if_pos h2]
          obtain ⟨rfl, rfl⟩ := h2
          rw [ov0, ov1]
          exact key hun.1 hq2 (by linarith)
        · refine hrest _ (fun a c g1 g2 => ?_) h1 h2
          simp only [Mat.set_apply]; rw [if_neg g1, if_neg g2]
    · simp only [↓reduceIte] at ht ⊢
      by_cases h2 : a = 2 * vid ∧ c = 2 * vid + 1
      · simp only [Mat.set_apply]; rw [if_pos h2]; exact le_pinf _
      · by_cases h1 : a = 2 * vid + 1 ∧ c = 2 * vid
        · simp only [Mat.set_apply]
          rw [if_neg h2, if_pos h1]
          obtain ⟨rfl, rfl⟩ := h1
          rw [ov0, ov1]
          exact key hun.2 hq2 (by linarith)
        · refine hrest _ (fun a c g1 g2 => ?_) h1 h2
          simp only [Mat.set_apply]; rw [if_neg g2, if_neg g1]

end PPLV.WR
