import PPLV.Lin.Parse

/-!
# K3 — best weakly-relational abstractions on top of K1 (executable model, no Mathlib)

A *shape* of kind `K ∈ {box, bds, oct}` over `n` variables is a constraint system all of whose rows
are template rows of `K`: the coefficient vector is a positive multiple of a template direction

* box : `±x_i`
* bds : `±x_i`, `x_i − x_j`
* oct : `±x_i`, `x_i − x_j`, `±(x_i + x_j)`

(or the zero vector), non-strict unless `K = box`.  Its concretisation `γ` is K1's `sem` — this is
how the drivers read a `Box`, `BD_Shape`, `Octagonal_Shape` from `constraints()`.

`bestU K n Ps` is the best shape enclosing the union of the (convex) pieces `Ps`: for every template
direction `e` the bound `inf e·x` over the union, computed by K1's verified `supB`; closed shapes
ignore whether the bound is attained, boxes keep open/closed.  `best K n P = bestU K n [P]`.
Theorems (`PPLV/WR/Proofs.lean`, `PPLV/Props/C04.lean`): the result is a shape, contains every piece,
and is contained in every shape that contains every piece.
-/
namespace PPLV.WR
open PPLV.Lin

inductive ShapeKind | box | bds | oct
deriving Repr, DecidableEq, Inhabited

/-- `a·x_i` as a vector of length `n` -/
def unitV (n i : Nat) (a : Int) : List Int := (List.range n).map fun t => if t = i then a else 0
/-- `a·x_i + b·x_j` (for `i ≠ j`) as a vector of length `n` -/
def pairV (n i j : Nat) (a b : Int) : List Int :=
  (List.range n).map fun t => if t = i then a else if t = j then b else 0

def boxDirs (n : Nat) : List (List Int) :=
  (List.range n).flatMap fun i => [unitV n i 1, unitV n i (-1)]
def diffDirs (n : Nat) : List (List Int) :=
  (List.range n).flatMap fun i => (List.range n).filterMap fun j =>
    if i = j then none else some (pairV n i j 1 (-1))
def sumDirs (n : Nat) : List (List Int) :=
  (List.range n).flatMap fun i => (List.range n).flatMap fun j =>
    if i < j then [pairV n i j 1 1, pairV n i j (-1) (-1)] else []

/-- the template directions of a domain -/
def dirs : ShapeKind → Nat → List (List Int)
  | .box, n => boxDirs n
  | .bds, n => boxDirs n ++ diffDirs n
  | .oct, n => boxDirs n ++ diffDirs n ++ sumDirs n

/-- the larger of two suprema (the supremum over a union) -/
def maxSup : Sup → Sup → Sup
  | .empty, s => s
  | s, .empty => s
  | .unbounded, _ => .unbounded
  | _, .unbounded => .unbounded
  | .val p q a, .val p' q' a' =>
    if p * q' < p' * q then .val p' q' a'
    else if p * q' = p' * q then .val p q (a || a')
    else .val p q a

/-- supremum of `e·x` over the union of the pieces -/
def supU (n : Nat) (e : List Int) : List (List Con) → Sup
  | [] => .empty
  | P :: Ps => maxSup (supB n e 0 P) (supU n e Ps)

/-- the row `e·x ≥ −p/q`, i.e. `q·(e·x) + p ≥ 0`, from the supremum `p/q` of `−e·x` -/
def bestRow (K : ShapeKind) (e : List Int) : Sup → Option Con
  | .val p q att => some ⟨e.map (q * ·), p, (K == .box) && !att⟩
  | _ => none

/-- best shape of kind `K` containing every piece -/
def bestU (K : ShapeKind) (n : Nat) (Ps : List (List Con)) : List Con :=
  if Ps.all (fun P => !feasible n P) then [falseRow]
  else (dirs K n).filterMap fun e => bestRow K e (supU n (e.map (- ·)) Ps)

/-- best shape of kind `K` containing `sem P` -/
def best (K : ShapeKind) (n : Nat) (P : List Con) : List Con := bestU K n [P]

/-- `sem R ⊆ sem A ∪ sem B`, decided on the pieces `R ∧ ¬a ∧ ¬b` -/
def subsetUnion (n : Nat) (R A B : List Con) : Bool :=
  A.all fun a => B.all fun b => !feasible n (b.neg :: a.neg :: R)

/-- the union of two sets already is an element of the domain `K` -/
def unionInDomain (K : ShapeKind) (n : Nat) (A B : List Con) : Bool :=
  subsetUnion n (bestU K n [A, B]) A B

/-- the pieces of the set difference `A ∖ B` -/
def diffPieces (A B : List Con) : List (List Con) := B.map fun b => b.neg :: A

/-! ### syntactic membership of a row in a domain -/

def nonzeroIdx (cf : List Int) : List Nat := (List.range cf.length).filter fun i => cf.getD i 0 != 0

/-- the row is a constraint of the domain (interval / bounded difference / octagonal), strictness aside -/
def rowInKind (K : ShapeKind) (c : Con) : Bool :=
  match nonzeroIdx c.coeffs with
  | [] => true
  | [_] => true
  | [i, j] =>
    let a := c.coeffs.getD i 0; let b := c.coeffs.getD j 0
    match K with
    | .box => false
    | .bds => a + b == 0
    | .oct => a + b == 0 || a == b
  | _ => false

end PPLV.WR
