import PPLV.WR.BoxTransProofsLhs
import Mathlib.Tactic.FieldSimp
/-!
# C03 stage 4 — `Box<ITV>::bounded_affine_preimage(var, lb, ub, denominator)`: soundness

`x` belongs to the preimage when some value `y` of `var` puts `x[var := y]` into the box with
`lb(x)/den ≤ y ≤ ub(x)/den`.  Whenever the model returns a box (`some b'`; `none` is the real
SIGFPE of the open finding KF-C03-1) that box contains every such `x`.
-/
set_option linter.unusedVariables false
set_option linter.unusedSimpArgs false
namespace PPLV.WR.BoxT
open PPLV.Interval
open PPLV.Interval.ExtRat (ninf fin pinf)

/-! ## arithmetic of one half -/

/-- `numer_lower` / `numer_upper` after `*= pos_denominator` -/
def bapNumer (bnd : Rat) (den : Int) : Int := bnd.num * (if decide (den < 0) then -den else den)
/-- `denom_lower` / `denom_upper` after the conditional `neg_assign` -/
def bapDenom (bnd : Rat) (den : Int) : Int := if decide (den < 0) then -(bnd.den : Int) else (bnd.den : Int)

theorem bap_N1 {bnd W : Rat} {den : Int} (hd : den ≠ 0) (h : bnd ≤ W / (den : Rat)) :
    (bapNumer bnd den : Rat) ≤ (bapDenom bnd den : Rat) * W := by
  have hbn : (bnd.num : Rat) = bnd * bnd.den := (Rat.mul_den_eq_num bnd).symm
  have hbd : (0 : Rat) < (bnd.den : Rat) := by exact_mod_cast bnd.den_pos
  unfold bapNumer bapDenom
  by_cases hneg : den < 0
  · have hdq : (den : Rat) < 0 := by exact_mod_cast hneg
    have h1 : W ≤ bnd * den := (le_div_iff_of_neg hdq).1 h
    simp only [hneg, decide_true, if_true]
    push_cast
    rw [hbn]
    nlinarith [mul_le_mul_of_nonneg_left h1 hbd.le]
  · have hpos : 0 < den := by omega
    have hdq : (0 : Rat) < (den : Rat) := by exact_mod_cast hpos
    have h1 : bnd * den ≤ W := (le_div_iff₀ hdq).1 h
    simp only [hneg, decide_false, Bool.false_eq_true, if_false]
    push_cast
    rw [hbn]
    nlinarith [mul_le_mul_of_nonneg_left h1 hbd.le]

theorem bap_N1s {bnd W : Rat} {den : Int} (hd : den ≠ 0) (h : bnd < W / (den : Rat)) :
    (bapNumer bnd den : Rat) < (bapDenom bnd den : Rat) * W := by
  have hbn : (bnd.num : Rat) = bnd * bnd.den := (Rat.mul_den_eq_num bnd).symm
  have hbd : (0 : Rat) < (bnd.den : Rat) := by exact_mod_cast bnd.den_pos
  unfold bapNumer bapDenom
  by_cases hneg : den < 0
  · have hdq : (den : Rat) < 0 := by exact_mod_cast hneg
    have h1 : W < bnd * den := (lt_div_iff_of_neg hdq).1 h
    simp only [hneg, decide_true, if_true]
    push_cast
    rw [hbn]
    nlinarith [mul_lt_mul_of_pos_left h1 hbd]
  · have hpos : 0 < den := by omega
    have hdq : (0 : Rat) < (den : Rat) := by exact_mod_cast hpos
    have h1 : bnd * den < W := (lt_div_iff₀ hdq).1 h
    simp only [hneg, decide_false, Bool.false_eq_true, if_false]
    push_cast
    rw [hbn]
    nlinarith [mul_lt_mul_of_pos_left h1 hbd]

theorem bap_N2 {bnd W : Rat} {den : Int} (hd : den ≠ 0) (h : W / (den : Rat) ≤ bnd) :
    (bapDenom bnd den : Rat) * W ≤ (bapNumer bnd den : Rat) := by
  have hbn : (bnd.num : Rat) = bnd * bnd.den := (Rat.mul_den_eq_num bnd).symm
  have hbd : (0 : Rat) < (bnd.den : Rat) := by exact_mod_cast bnd.den_pos
  unfold bapNumer bapDenom
  by_cases hneg : den < 0
  · have hdq : (den : Rat) < 0 := by exact_mod_cast hneg
    have h1 : bnd * den ≤ W := (div_le_iff_of_neg hdq).1 h
    simp only [hneg, decide_true, if_true]
    push_cast
    rw [hbn]
    nlinarith [mul_le_mul_of_nonneg_left h1 hbd.le]
  · have hpos : 0 < den := by omega
    have hdq : (0 : Rat) < (den : Rat) := by exact_mod_cast hpos
    have h1 : W ≤ bnd * den := (div_le_iff₀ hdq).1 h
    simp only [hneg, decide_false, Bool.false_eq_true, if_false]
    push_cast
    rw [hbn]
    nlinarith [mul_le_mul_of_nonneg_left h1 hbd.le]

theorem bap_N2s {bnd W : Rat} {den : Int} (hd : den ≠ 0) (h : W / (den : Rat) < bnd) :
    (bapDenom bnd den : Rat) * W < (bapNumer bnd den : Rat) := by
  have hbn : (bnd.num : Rat) = bnd * bnd.den := (Rat.mul_den_eq_num bnd).symm
  have hbd : (0 : Rat) < (bnd.den : Rat) := by exact_mod_cast bnd.den_pos
  unfold bapNumer bapDenom
  by_cases hneg : den < 0
  · have hdq : (den : Rat) < 0 := by exact_mod_cast hneg
    have h1 : bnd * den < W := (div_lt_iff_of_neg hdq).1 h
    simp only [hneg, decide_true, if_true]
    push_cast
    rw [hbn]
    nlinarith [mul_lt_mul_of_pos_left h1 hbd]
  · have hpos : 0 < den := by omega
    have hdq : (0 : Rat) < (den : Rat) := by exact_mod_cast hpos
    have h1 : W < bnd * den := (div_lt_iff₀ hdq).1 h
    simp only [hneg, decide_false, Bool.false_eq_true, if_false]
    push_cast
    rw [hbn]
    nlinarith [mul_lt_mul_of_pos_left h1 hbd]

/-- `q = ext_numer / (denom * ext_denom * coeff)` is the extremum divided by `denom * coeff` -/
theorem bap_q_eq (m : Rat) (D oc : Int) (hd : D * ((m.den : Int) * oc) ≠ 0) :
    (m.num : Rat) / ((D * ((m.den : Int) * oc) : Int) : Rat) = m / ((D * oc : Int) : Rat) := by
  have hD : (D : Rat) ≠ 0 := by
    intro h0; apply hd; have : D = 0 := by exact_mod_cast h0
    rw [this]; simp
  have hoc : (oc : Rat) ≠ 0 := by
    intro h0; apply hd; have : oc = 0 := by exact_mod_cast h0
    rw [this]; simp
  have hmd : ((m.den : Int) : Rat) ≠ 0 := by
    have := m.den_pos
    exact_mod_cast (by omega : (m.den : Int) ≠ 0)
  have hm : m = (m.num : Rat) / ((m.den : Int) : Rat) := by
    push_cast; exact (Rat.num_div_den m).symm
  push_cast
  conv_rhs => rw [hm]
  push_cast at hmd ⊢
  field_simp

/-- the direction test of the code is the sign of `denom * coeff` -/
theorem bap_up_iff (bnd : Rat) {den oc : Int} (hk : bapDenom bnd den * oc ≠ 0) :
    (if oc ≥ 0 then !decide (den < 0) else decide (den < 0)) = decide (0 < bapDenom bnd den * oc) := by
  have hbd : (0 : Int) < (bnd.den : Int) := by exact_mod_cast bnd.den_pos
  have hoc : oc ≠ 0 := by intro h; apply hk; rw [h]; simp
  unfold bapDenom at hk ⊢
  by_cases hneg : den < 0 <;> by_cases ho : oc ≥ 0
  · have : 0 < oc := by omega
    simp only [hneg, ho, decide_true, if_true, Bool.not_true]
    symm; rw [decide_eq_false_iff_not]; nlinarith
  · have : oc < 0 := by omega
    simp only [hneg, ho, decide_true, if_true, if_false]
    symm; rw [decide_eq_true_iff]; nlinarith
  · have : 0 < oc := by omega
    simp only [hneg, ho, decide_false, Bool.false_eq_true, if_true, if_false, Bool.not_false]
    symm; rw [decide_eq_true_iff]; nlinarith
  · have : oc < 0 := by omega
    simp only [hneg, ho, decide_false, Bool.false_eq_true, if_false]
    symm; rw [decide_eq_false_iff_not]; nlinarith

/-- lower block: from `m ≤ k·t` (strictly when `opn`) the relation that is added -/
theorem bap_rel_lower {m k t : Rat} {opn up : Bool} (hk : k ≠ 0) (hup : up = true ↔ 0 < k) (h1 : m ≤ k * t)
    (h2 : opn = true → m < k * t) :
    Rel.holds (if up then (if opn then Rel.gt else Rel.ge) else (if opn then Rel.lt else Rel.le)) t (m / k) := by
  rcases lt_or_gt_of_ne hk with hneg | hpos
  · have hu : up = false := by
      cases up
      · rfl
      · have := hup.1 rfl; linarith
    subst hu
    simp only [Bool.false_eq_true, if_false]
    cases opn
    · simp only [Bool.false_eq_true, if_false, Rel.holds]
      rw [le_div_iff_of_neg hneg]; linarith
    · simp only [if_true, Rel.holds]
      rw [lt_div_iff_of_neg hneg]; linarith [h2 rfl]
  · have hu : up = true := hup.2 hpos
    subst hu
    simp only [if_true]
    cases opn
    · simp only [Bool.false_eq_true, if_false, Rel.holds, ge_iff_le]
      rw [div_le_iff₀ hpos]; linarith
    · simp only [if_true, Rel.holds, gt_iff_lt]
      rw [div_lt_iff₀ hpos]; linarith [h2 rfl]

/-- upper block -/
theorem bap_rel_upper {m k t : Rat} {opn up : Bool} (hk : k ≠ 0) (hup : up = true ↔ 0 < k) (h1 : k * t ≤ m)
    (h2 : opn = true → k * t < m) :
    Rel.holds (if up then (if opn then Rel.lt else Rel.le) else (if opn then Rel.gt else Rel.ge)) t (m / k) := by
  rcases lt_or_gt_of_ne hk with hneg | hpos
  · have hu : up = false := by
      cases up
      · rfl
      · have := hup.1 rfl; linarith
    subst hu
    simp only [Bool.false_eq_true, if_false]
    cases opn
    · simp only [Bool.false_eq_true, if_false, Rel.holds, ge_iff_le]
      rw [div_le_iff_of_neg hneg]; linarith
    · simp only [if_true, Rel.holds, gt_iff_lt]
      rw [div_lt_iff_of_neg hneg]; linarith [h2 rfl]
  · have hu : up = true := hup.2 hpos
    subst hu
    simp only [if_true]
    cases opn
    · simp only [Bool.false_eq_true, if_false, Rel.holds]
      rw [le_div_iff₀ hpos]; linarith
    · simp only [if_true, Rel.holds]
      rw [lt_div_iff₀ hpos]; linarith [h2 rfl]

/-! ## one half of the transformer -/

/-- `revised_lb_expr` / `revised_ub_expr` -/
def bapRevised (bnd : Rat) (other : LinExpr) (oc : Int) (v : Nat) (den : Int) : LinExpr :=
  ((other.sub (LinExpr.var oc v)).scale (-(bapDenom bnd den))).add (LinExpr.const (bapNumer bnd den))

/-- `bapHalf` after the revised expression has been built -/
def bapCore (cfg : Cfg) (b : Box) (v : Nat) (lower bopen : Bool) (oc : Int) (negDen : Bool) (denom : Int)
    (revised : LinExpr) : Option (Box × Bool) :=
  let (ext, b) := maxMin cfg.p b revised (!lower)
  match ext with
  | none => some (b, false)
  | some (m, included) =>
    let d : Int := denom * ((m.den : Int) * oc)
    if d == 0 then none
    else
      let q : Rat := (m.num : Rat) / (d : Rat)
      let opn := bopen || !included
      let up := if oc ≥ 0 then !negDen else negDen
      let rel : Rel :=
        if lower then (if up then (if opn then .gt else .ge) else (if opn then .lt else .le))
        else (if up then (if opn then .lt else .le) else (if opn then .gt else .ge))
      let I := addConstraintIv cfg.p cfg.R (b.get v) rel q
      let b := b.setIv v I
      if isEmpty cfg.p I then some (b.setEmpty, true) else some (b, false)

theorem bapHalf_eq_core (cfg : Cfg) (b : Box) (v : Nat) (lower : Bool) (bnd : Rat) (bopen : Bool) (other : LinExpr)
    (oc den : Int) :
    bapHalf cfg b v lower bnd bopen other oc den =
      bapCore cfg b v lower bopen oc (decide (den < 0)) (bapDenom bnd den) (bapRevised bnd other oc v den) := rfl

theorem bapCore_sound {cfg : Cfg} (hS : cfg.Sound) {b b' : Box} {v : Nat} {lower bopen : Bool} {oc : Int}
    {negDen : Bool} {denom : Int} {revised : LinExpr} {flag : Bool} {x : Nat → Rat}
    (h : bapCore cfg b v lower bopen oc negDen denom revised = some (b', flag))
    (hv : v < b.dim) (hw : revised.WF b.dim) (hx : b.mem cfg.p x)
    (H : ∀ (m : Rat) (incl : Bool), denom * ((m.den : Int) * oc) ≠ 0 →
      (lower = true → m ≤ revised.eval x ∧ (incl = false → m < revised.eval x)) →
      (lower = false → revised.eval x ≤ m ∧ (incl = false → revised.eval x < m)) →
      Rel.holds
        (if lower then
          (if (if oc ≥ 0 then !negDen else negDen) then (if (bopen || !incl) then Rel.gt else Rel.ge)
            else (if (bopen || !incl) then Rel.lt else Rel.le))
        else
          (if (if oc ≥ 0 then !negDen else negDen) then (if (bopen || !incl) then Rel.lt else Rel.le)
            else (if (bopen || !incl) then Rel.gt else Rel.ge)))
        (x v) ((m.num : Rat) / ((denom * ((m.den : Int) * oc) : Int) : Rat))) :
    b'.mem cfg.p x ∧ flag = false ∧ b'.dim = b.dim := by
  unfold bapCore at h
  have hb1 : (maxMin cfg.p b revised (!lower)).2.mem cfg.p x := maxMin_mem_iff.2 hx
  have hd1 : (maxMin cfg.p b revised (!lower)).2.dim = b.dim := maxMin_dim _ _ _ _
  have Hlo : lower = true → ∀ m i, (maxMin cfg.p b revised (!lower)).1 = some (m, i) →
      m ≤ revised.eval x ∧ (i = false → m < revised.eval x) := by
    intro hl m i hm; subst hl; exact maxMin_sound_min hw hm hx
  have Hup : lower = false → ∀ m i, (maxMin cfg.p b revised (!lower)).1 = some (m, i) →
      revised.eval x ≤ m ∧ (i = false → revised.eval x < m) := by
    intro hl m i hm; subst hl; exact maxMin_sound_max hw hm hx
  rcases hmm : maxMin cfg.p b revised (!lower) with ⟨ext, b1⟩
  rw [hmm] at h hb1 hd1 Hlo Hup
  simp only at h hb1 hd1 Hlo Hup
  rcases ext with _ | ⟨m, incl⟩
  · simp only [Option.some.injEq, Prod.mk.injEq] at h
    obtain ⟨rfl, rfl⟩ := h
    exact ⟨hb1, rfl, hd1⟩
  · simp only at h
    by_cases hdz : denom * ((m.den : Int) * oc) = 0
    · simp [hdz] at h
    · have hdz' : (denom * ((m.den : Int) * oc) == 0) = false := by simpa using hdz
      rw [hdz'] at h
      simp only [Bool.false_eq_true, if_false] at h
      have hrel := H m incl hdz (fun hl => Hlo hl m incl rfl) (fun hl => Hup hl m incl rfl)
      have hv1 : v < b1.seq.length := by rw [← hd1] at hv; exact hv
      have hI := addConstraintIv_sound hS.R (hb1.2 v hv1) hrel
      rw [isEmpty_of_mem hI] at h
      simp only [Bool.false_eq_true, if_false, Option.some.injEq, Prod.mk.injEq] at h
      obtain ⟨rfl, rfl⟩ := h
      exact ⟨Box.mem_setIv_self hb1 hI, rfl, by simpa [Box.dim] using hd1⟩

theorem bapRevised_WF {bnd : Rat} {other : LinExpr} {oc : Int} {v n : Nat} {den : Int} (hw : other.WF n) (hv : v < n) :
    (bapRevised bnd other oc v den).WF n :=
  LinExpr.WF.add (LinExpr.WF.scale _ (LinExpr.WF.sub hw (LinExpr.WF.var oc hv))) (LinExpr.WF.const _ _)

theorem bapRevised_eval (bnd : Rat) (other : LinExpr) (oc : Int) (v : Nat) (den : Int) (x : Nat → Rat) :
    (bapRevised bnd other oc v den).eval x =
      ((bapDenom bnd den * oc : Int) : Rat) * x v - (bapDenom bnd den : Rat) * other.eval x + (bapNumer bnd den : Rat) := by
  unfold bapRevised
  simp only [LinExpr.eval_add, LinExpr.eval_scale, LinExpr.eval_sub, LinExpr.eval_var, LinExpr.eval_const]
  push_cast; ring

theorem bapHalf_sound {cfg : Cfg} (hS : cfg.Sound) {b b' : Box} {v : Nat} {lower : Bool} {bnd : Rat} {bopen : Bool}
    {other : LinExpr} {oc den : Int} {flag : Bool} {x : Nat → Rat}
    (h : bapHalf cfg b v lower bnd bopen other oc den = some (b', flag))
    (hv : v < b.dim) (hw : other.WF b.dim) (hd : den ≠ 0) (hx : b.mem cfg.p x)
    (hlo : lower = true → bnd ≤ other.eval x / (den : Rat) ∧ (bopen = true → bnd < other.eval x / (den : Rat)))
    (hup : lower = false → other.eval x / (den : Rat) ≤ bnd ∧ (bopen = true → other.eval x / (den : Rat) < bnd)) :
    b'.mem cfg.p x ∧ flag = false ∧ b'.dim = b.dim := by
  rw [bapHalf_eq_core] at h
  refine bapCore_sound hS h hv (bapRevised_WF hw hv) hx ?_
  intro m incl hdz Hlo Hup
  have hk : bapDenom bnd den * oc ≠ 0 := by
    intro h0; apply hdz
    have : bapDenom bnd den * ((m.den : Int) * oc) = (m.den : Int) * (bapDenom bnd den * oc) := by ring
    rw [this, h0]; simp
  have hkq : ((bapDenom bnd den * oc : Int) : Rat) ≠ 0 := by exact_mod_cast hk
  have hupk : (if oc ≥ 0 then !decide (den < 0) else decide (den < 0)) = true ↔
      (0 : Rat) < ((bapDenom bnd den * oc : Int) : Rat) := by
    rw [bap_up_iff bnd hk, decide_eq_true_iff]
    exact Int.cast_pos.symm
  rw [bap_q_eq m _ _ hdz, bapRevised_eval] at *
  cases lower
  · simp only [Bool.false_eq_true, if_false]
    obtain ⟨g1, g2⟩ := Hup rfl
    obtain ⟨f1, f2⟩ := hup rfl
    have n1 := bap_N2 hd f1
    apply bap_rel_upper hkq hupk (by linarith)
    intro ho
    rcases Bool.or_eq_true_iff.1 ho with ho | ho
    · have n2 := bap_N2s hd (f2 ho); linarith
    · have := g2 (by simpa using ho); linarith
  · simp only [if_true]
    obtain ⟨g1, g2⟩ := Hlo rfl
    obtain ⟨f1, f2⟩ := hlo rfl
    have n1 := bap_N1 hd f1
    apply bap_rel_lower hkq hupk (by linarith)
    intro ho
    rcases Bool.or_eq_true_iff.1 ho with ho | ho
    · have n2 := bap_N1s hd (f2 ho); linarith
    · have := g2 (by simpa using ho); linarith

/-! ## the transformer -/

/-- the refinement applied first when `lb` and `ub` have the same coefficient of `var` -/
def bapPre (cfg : Cfg) (b : Box) (v : Nat) (lb ub : LinExpr) (den : Int) : Box :=
  if lb.coeff v == ub.coeff v then
    (if den < 0 then refineWithConstraint cfg b (conGe lb ub) else refineWithConstraint cfg b (conLe lb ub))
  else b

/-- the refinement applied last otherwise -/
def bapFinal (cfg : Cfg) (v : Nat) (lb ub : LinExpr) (den : Int) (b : Box) : Box :=
  if lb.coeff v != ub.coeff v then
    (if den > 0 then refineWithConstraint cfg b (conLe lb ub) else refineWithConstraint cfg b (conGe lb ub))
  else b

def bapI1 (p : Policy) (I : Iv) : Iv := if isBoundaryInfinity p .lower I.lo then I else lowerExtend p I
def bapI2 (p : Policy) (I : Iv) : Iv :=
  if isBoundaryInfinity p .upper (bapI1 p I).hi then bapI1 p I else upperExtend p (bapI1 p I)

def bapStep (cfg : Cfg) (b : Box) (v : Nat) (lower unb : Bool) (val : ExtRat) (opn : Bool) (other : LinExpr)
    (oc den : Int) : Option (Box × Bool) :=
  if unb then some (b, false)
  else match val with
    | fin l => bapHalf cfg b v lower l opn other oc den
    | _ => some (b, false)

def bapChain (r : Option (Box × Bool)) (k : Box → Option Box) : Option Box :=
  match r with
  | none => none
  | some (b, true) => some b
  | some (b, false) => k b

theorem boundedAffinePreimage_eq (cfg : Cfg) (b : Box) (v : Nat) (lb ub : LinExpr) (den : Int) :
    boundedAffinePreimage cfg b v lb ub den =
      if b.markedEmpty then some b
      else
        if isUniverseIv cfg.p ((bapPre cfg b v lb ub den).get v) then
          some (bapFinal cfg v lb ub den (bapPre cfg b v lb ub den))
        else
          bapChain (bapStep cfg ((bapPre cfg b v lb ub den).setIv v (bapI2 cfg.p ((bapPre cfg b v lb ub den).get v)))
              v true (isBoundaryInfinity cfg.p .lower ((bapPre cfg b v lb ub den).get v).lo)
              ((bapPre cfg b v lb ub den).get v).lo.value (isOpen cfg.p .lower ((bapPre cfg b v lb ub den).get v).lo)
              ub (ub.coeff v) den) fun b1 =>
          bapChain (bapStep cfg b1 v false
              (isBoundaryInfinity cfg.p .upper (bapI1 cfg.p ((bapPre cfg b v lb ub den).get v)).hi)
              ((bapPre cfg b v lb ub den).get v).hi.value
              (isOpen cfg.p .upper (bapI1 cfg.p ((bapPre cfg b v lb ub den).get v)).hi)
              lb (lb.coeff v) den) fun b2 =>
          some (bapFinal cfg v lb ub den b2) := by
  unfold boundedAffinePreimage bapChain bapStep bapI2 bapI1 bapFinal bapPre
  rfl

theorem bap_order {L U : Rat} {den : Int} (hd : den ≠ 0) (h : L / (den : Rat) ≤ U / (den : Rat)) :
    (den < 0 → U ≤ L) ∧ (0 < den → L ≤ U) := by
  have hd' : (den : Rat) ≠ 0 := by exact_mod_cast hd
  constructor
  · intro hn
    have hdq : (den : Rat) < 0 := by exact_mod_cast hn
    have := (div_le_iff_of_neg hdq).1 h
    rwa [div_mul_cancel₀ _ hd'] at this
  · intro hp
    have hdq : (0 : Rat) < (den : Rat) := by exact_mod_cast hp
    have := (div_le_iff₀ hdq).1 h
    rwa [div_mul_cancel₀ _ hd'] at this

theorem bapPre_sound {cfg : Cfg} (hRef : RefineSound cfg) {b : Box} {v : Nat} {lb ub : LinExpr} {den : Int}
    {x : Nat → Rat} {y : Rat} (hlb : lb.WF b.dim) (hub : ub.WF b.dim) (hd : den ≠ 0)
    (hx : b.mem cfg.p (upd x v y)) (h12 : lb.eval x / (den : Rat) ≤ ub.eval x / (den : Rat)) :
    (bapPre cfg b v lb ub den).mem cfg.p (upd x v y) ∧ (bapPre cfg b v lb ub den).dim = b.dim := by
  obtain ⟨o1, o2⟩ := bap_order hd h12
  unfold bapPre
  by_cases hc : lb.coeff v = ub.coeff v
  · have hc' : (lb.coeff v == ub.coeff v) = true := by simpa using hc
    rw [hc']
    simp only [if_true]
    have hdiff : lb.eval (upd x v y) - ub.eval (upd x v y) = lb.eval x - ub.eval x := by
      rw [LinExpr.eval_upd, LinExpr.eval_upd, hc]; ring
    split_ifs with hn
    · refine ⟨hRef _ _ _ (conGe_WF hlb hub) hx ((conGe_holds _ _ _).2 ?_), lhs_refine_dim _ _ _⟩
      have := o1 hn; linarith
    · refine ⟨hRef _ _ _ (conLe_WF hlb hub) hx ((conLe_holds _ _ _).2 ?_), lhs_refine_dim _ _ _⟩
      have := o2 (by omega); linarith
  · have hc' : (lb.coeff v == ub.coeff v) = false := by simpa using hc
    rw [hc']
    exact ⟨hx, rfl⟩

theorem bapFinal_sound {cfg : Cfg} (hRef : RefineSound cfg) {b : Box} {v : Nat} {lb ub : LinExpr} {den : Int}
    {x : Nat → Rat} (hlb : lb.WF b.dim) (hub : ub.WF b.dim) (hd : den ≠ 0)
    (hx : b.mem cfg.p x) (h12 : lb.eval x / (den : Rat) ≤ ub.eval x / (den : Rat)) :
    (bapFinal cfg v lb ub den b).mem cfg.p x := by
  obtain ⟨o1, o2⟩ := bap_order hd h12
  unfold bapFinal
  split_ifs with hc hp
  · exact hRef _ _ _ (conLe_WF hlb hub) hx ((conLe_holds _ _ _).2 (o2 hp))
  · exact hRef _ _ _ (conGe_WF hlb hub) hx ((conGe_holds _ _ _).2 (o1 (by omega)))
  · exact hx

theorem bap_lowerOk_of_inf {p : Policy} {lo : Bound} (h : isBoundaryInfinity p .lower lo = true) (a : Rat) :
    lowerOk p lo a := by
  rw [isBoundaryInfinity_eq, normalIsBoundaryInfinity_lower] at h
  have : lo.value = ninf := by simpa using h
  simp [lowerOk, this]

theorem bap_upperOk_of_inf {p : Policy} {hi : Bound} (h : isBoundaryInfinity p .upper hi = true) (a : Rat) :
    upperOk p hi a := by
  rw [isBoundaryInfinity_eq, normalIsBoundaryInfinity_upper] at h
  have : hi.value = pinf := by simpa using h
  simp [upperOk, this]

theorem bap_mem_of_isUniverse {p : Policy} {I : Iv} (h : isUniverseIv p I = true) (a : Rat) : I.mem p a := by
  unfold isUniverseIv at h
  simp only [Bool.and_eq_true] at h
  exact ⟨bap_lowerOk_of_inf h.1 a, bap_upperOk_of_inf h.2 a⟩

theorem bapI1_hi (p : Policy) (I : Iv) : (bapI1 p I).hi = I.hi := by
  unfold bapI1; split_ifs <;> rfl

theorem bapI2_mem (p : Policy) (I : Iv) (a : Rat) : (bapI2 p I).mem p a := by
  have hlo : lowerOk p (bapI1 p I).lo a := by
    unfold bapI1
    split_ifs with h
    · exact bap_lowerOk_of_inf h a
    · exact (mem_universe p a).1
  unfold bapI2
  split_ifs with h
  · exact ⟨hlo, bap_upperOk_of_inf h a⟩
  · exact ⟨hlo, (mem_universe p a).2⟩

theorem bap_upd_upd (x : Nat → Rat) (v : Nat) (y : Rat) : upd (upd x v y) v (x v) = x := by
  funext k; by_cases h : k = v <;> simp [upd, h]

theorem bapStep_sound {cfg : Cfg} (hS : cfg.Sound) {b b' : Box} {v : Nat} {lower unb : Bool} {val : ExtRat}
    {opn : Bool} {other : LinExpr} {oc den : Int} {flag : Bool} {x : Nat → Rat}
    (h : bapStep cfg b v lower unb val opn other oc den = some (b', flag))
    (hv : v < b.dim) (hw : other.WF b.dim) (hd : den ≠ 0) (hx : b.mem cfg.p x)
    (hlo : ∀ l, val = fin l → lower = true →
      l ≤ other.eval x / (den : Rat) ∧ (opn = true → l < other.eval x / (den : Rat)))
    (hup : ∀ l, val = fin l → lower = false →
      other.eval x / (den : Rat) ≤ l ∧ (opn = true → other.eval x / (den : Rat) < l)) :
    b'.mem cfg.p x ∧ flag = false ∧ b'.dim = b.dim := by
  unfold bapStep at h
  split_ifs at h with hu
  · simp only [Option.some.injEq, Prod.mk.injEq] at h
    obtain ⟨rfl, rfl⟩ := h
    exact ⟨hx, rfl, rfl⟩
  · cases val with
    | fin l => exact bapHalf_sound hS h hv hw hd hx (hlo l rfl) (hup l rfl)
    | ninf =>
      simp only [Option.some.injEq, Prod.mk.injEq] at h
      obtain ⟨rfl, rfl⟩ := h
      exact ⟨hx, rfl, rfl⟩
    | pinf =>
      simp only [Option.some.injEq, Prod.mk.injEq] at h
      obtain ⟨rfl, rfl⟩ := h
      exact ⟨hx, rfl, rfl⟩

theorem boundedAffinePreimage_sound {cfg : Cfg} (hS : cfg.Sound) (hRef : RefineSound cfg) {b b' : Box} {v : Nat}
    {lb ub : LinExpr} {den : Int} {x : Nat → Rat} {y : Rat}
    (h : boundedAffinePreimage cfg b v lb ub den = some b') (hv : v < b.dim) (hlb : lb.WF b.dim)
    (hub : ub.WF b.dim) (hd : den ≠ 0) (hx : b.mem cfg.p (upd x v y))
    (h1 : lb.eval x / (den : Rat) ≤ y) (h2 : y ≤ ub.eval x / (den : Rat)) : b'.mem cfg.p x := by
  have h12 : lb.eval x / (den : Rat) ≤ ub.eval x / (den : Rat) := le_trans h1 h2
  rw [boundedAffinePreimage_eq, hx.1] at h
  simp only [Bool.false_eq_true, if_false, bapI1_hi] at h
  obtain ⟨hB, hBd⟩ := bapPre_sound hRef hlb hub hd hx h12
  generalize bapPre cfg b v lb ub den = B at h hB hBd
  have hvB : v < B.seq.length := by rw [← hBd] at hv; exact hv
  have hI : (B.get v).mem cfg.p y := by simpa using hB.2 v hvB
  have hlbB : lb.WF B.dim := by rw [hBd]; exact hlb
  have hubB : ub.WF B.dim := by rw [hBd]; exact hub
  split_ifs at h with hu
  · -- the interval of `var` is the universe: nothing to do
    simp only [Option.some.injEq] at h
    subst h
    apply bapFinal_sound hRef hlbB hubB hd _ h12
    refine ⟨hB.1, fun k hk => ?_⟩
    by_cases hkv : k = v
    · subst hkv; exact bap_mem_of_isUniverse hu (x k)
    · have := hB.2 k hk
      rwa [upd_other x y hkv] at this
  · -- the interval of `var` is made unbounded, then each stored bound refines it
    have hBu : (B.setIv v (bapI2 cfg.p (B.get v))).mem cfg.p x := by
      have := Box.mem_setIv (v := v) hB (bapI2_mem cfg.p (B.get v) (x v))
      rwa [bap_upd_upd] at this
    have hBud : (B.setIv v (bapI2 cfg.p (B.get v))).dim = B.dim := by simp [Box.dim]
    generalize B.setIv v (bapI2 cfg.p (B.get v)) = Bu at h hBu hBud
    unfold bapChain at h
    split at h
    · exact absurd h (by simp)
    · rename_i b1 hs1
      obtain ⟨_, hf, _⟩ := bapStep_sound hS hs1 (by rw [hBud]; exact hvB) (by rw [hBud]; exact hubB) hd hBu
        (fun l hl _ => by
          obtain ⟨g1, g2⟩ := lowerOk_fin hl hI.1
          exact ⟨le_trans g1 h2, fun ho => lt_of_lt_of_le (g2 ho) h2⟩)
        (fun l hl hc => by simp at hc)
      exact absurd hf (by simp)
    · rename_i b1 hs1
      obtain ⟨hb1, _, hb1d⟩ := bapStep_sound hS hs1 (by rw [hBud]; exact hvB) (by rw [hBud]; exact hubB) hd hBu
        (fun l hl _ => by
          obtain ⟨g1, g2⟩ := lowerOk_fin hl hI.1
          exact ⟨le_trans g1 h2, fun ho => lt_of_lt_of_le (g2 ho) h2⟩)
        (fun l hl hc => by simp at hc)
      have hd1 : b1.dim = B.dim := by rw [hb1d, hBud]
      beta_reduce at h
      split at h
      · exact absurd h (by simp)
      · rename_i b2 hs2
        obtain ⟨_, hf, _⟩ := bapStep_sound hS hs2 (by rw [hd1]; exact hvB) (by rw [hd1]; exact hlbB) hd hb1
          (fun l hl hc => by simp at hc)
          (fun l hl _ => by
            obtain ⟨g1, g2⟩ := upperOk_fin hl hI.2
            exact ⟨le_trans h1 g1, fun ho => lt_of_le_of_lt h1 (g2 ho)⟩)
        exact absurd hf (by simp)
      · rename_i b2 hs2
        obtain ⟨hb2, _, hb2d⟩ := bapStep_sound hS hs2 (by rw [hd1]; exact hvB) (by rw [hd1]; exact hlbB) hd hb1
          (fun l hl hc => by simp at hc)
          (fun l hl _ => by
            obtain ⟨g1, g2⟩ := upperOk_fin hl hI.2
            exact ⟨le_trans h1 g1, fun ho => lt_of_le_of_lt h1 (g2 ho)⟩)
        simp only [Option.some.injEq] at h
        subst h
        have hd2 : b2.dim = B.dim := by rw [hb2d, hd1]
        exact bapFinal_sound hRef (by rw [hd2]; exact hlbB) (by rw [hd2]; exact hubB) hd hb2 h12

/-- the witness of KF-C03-1: `A ∈ [0,1]`, `lb = A`, `ub = 5` (no occurrence of `A`), `den = 1`: the real
`Rational_Box` dies with SIGFPE in `q.canonicalize()` -/
theorem boundedAffinePreimage_dies :
    boundedAffinePreimage Cfg.mpq ⟨[⟨⟨fin 0, false⟩, ⟨fin 1, false⟩⟩], false, true⟩ 0 ⟨[1], 0⟩ ⟨[0], 5⟩ 1 = none := by
  decide +kernel

/-! ## non-vacuity -/

/-- `A ∈ [0,1]` -/
def bapExBox : Box := ⟨[⟨⟨fin 0, false⟩, ⟨fin 1, false⟩⟩], false, true⟩

/-- `A ≤ A' ≤ A + 5`: the model returns a box -/
example : (boundedAffinePreimage Cfg.mpq bapExBox 0 ⟨[1], 0⟩ ⟨[1], 5⟩ 1).isSome = true := by decide +kernel

/-- … and that box contains `A = −1` (take `A' = 0`) -/
example (hRef : RefineSound Cfg.mpq) (b' : Box)
    (h : boundedAffinePreimage Cfg.mpq bapExBox 0 ⟨[1], 0⟩ ⟨[1], 5⟩ 1 = some b') :
    b'.mem Policy.rational (fun _ => -1) :=
  boundedAffinePreimage_sound (cfg := Cfg.mpq) (y := 0) Cfg.mpq_sound hRef h (by decide)
    (by simp [LinExpr.WF, bapExBox, Box.dim]) (by simp [LinExpr.WF, bapExBox, Box.dim]) (by decide)
    (by
      refine ⟨rfl, fun k hk => ?_⟩
      have : k = 0 := by simp [bapExBox] at hk; omega
      subst this
      simp [bapExBox, Box.get, Iv.mem, lowerOk, upperOk, upd])
    (by norm_num [LinExpr.eval, LinExpr.dot]) (by norm_num [LinExpr.eval, LinExpr.dot])

/-- a half with a negative denominator and a negative coefficient: `den = −2`, `ub = −3·A + B` -/
example : (boundedAffinePreimage Cfg.mpq ⟨[⟨⟨fin 0, false⟩, ⟨fin 1, true⟩⟩, ⟨⟨fin (-2), false⟩, ⟨fin 2, false⟩⟩], false, true⟩
    0 ⟨[1, 1], 0⟩ ⟨[-3, 1], 1⟩ (-2)).isSome = true := by decide +kernel

end PPLV.WR.BoxT
