import PPLV.WR.TransOct2LatProofsExact2
import PPLV.WR.ClosureProofsExact
/-!
# Exact arithmetic: `Octagonal_Shape<T>::remove_space_dimensions` / `remove_higher_space_dimensions` compute the
exact projection

A point of the block of a strongly closed matrix on a set of kept variables extends to a point of the whole
matrix: the potential on the kept indices of the full view is extended one index at a time (`extend_all`) and then
symmetrised (`OctM.point_of_potential_below`).
-/
set_option linter.unusedVariables false
namespace PPLV.WR
open ExtRat

theorem latGetD_strict {l : List Nat} (hs : l.Pairwise (· < ·)) {a b : Nat} (hab : a < b) (hb : b < l.length) :
    l.getD a 0 < l.getD b 0 := by
  rw [List.getD_eq_getElem?_getD, List.getD_eq_getElem?_getD, List.getElem?_eq_getElem (by omega),
    List.getElem?_eq_getElem hb]
  simp only [Option.getD_some]
  exact List.pairwise_iff_getElem.1 hs a b (by omega) hb hab

/-- the matrix index of the old matrix behind the index `A` of the re-indexed one -/
def octLatIota (tbl : List Nat) (A : Nat) : Nat := 2 * tbl.getD (A / 2) 0 + A % 2

theorem octLatIota_cidx (tbl : List Nat) (A : Nat) : octLatIota tbl (cidx A) = cidx (octLatIota tbl A) := by
  unfold octLatIota cidx
  by_cases h : A % 2 = 0
  · have e1 : (A + 1) / 2 = A / 2 := by omega
    have e2 : (A + 1) % 2 = 1 := by omega
    rw [if_neg (by omega), e1, e2, if_neg (by omega)]; omega
  · have e1 : (A - 1) / 2 = A / 2 := by omega
    have e2 : (A - 1) % 2 = 0 := by omega
    rw [if_pos h, e1, e2, if_pos (by omega)]; omega

theorem octLatReindex_apply (tbl : List Nat) (m : Mat) (A B : Nat) :
    octLatReindex tbl m A B = m (octLatIota tbl A) (octLatIota tbl B) := rfl

/-- re-indexing along a strictly increasing table commutes with the full view -/
theorem octFull_reindex {tbl : List Nat} (hs : tbl.Pairwise (· < ·)) (m : Mat) {A B : Nat}
    (hA : A / 2 < tbl.length) (hB : B / 2 < tbl.length) :
    octFull (octLatReindex tbl m) A B = octFull m (octLatIota tbl A) (octLatIota tbl B) := by
  have cmp : ∀ {a b : Nat}, a < tbl.length → b < tbl.length →
      (tbl.getD a 0 ≤ tbl.getD b 0 ↔ a ≤ b) := by
    intro a b ha hb
    constructor
    · intro h
      by_contra hc
      have := latGetD_strict hs (by omega : b < a) ha
      omega
    · intro h; exact latGetD_mono hs h hb
  have hAB := cmp hA hB
  have hBA := cmp hB hA
  by_cases hab : A = B
  · subst hab; rw [octFull_self, octFull_self]
  · have hne : octLatIota tbl A ≠ octLatIota tbl B := by
      unfold octLatIota
      intro h
      have h1 : tbl.getD (A / 2) 0 = tbl.getD (B / 2) 0 := by omega
      have h2 := hAB.1 (by omega)
      have h3 := hBA.1 (by omega)
      omega
    rw [octFull_ne _ hab, octFull_ne _ hne]
    unfold Mat.mAt
    have hst : B < rowSize A ↔ octLatIota tbl B < rowSize (octLatIota tbl A) := by
      unfold rowSize octLatIota
      constructor
      · intro h
        have := hBA.2 (by omega)
        omega
      · intro h
        have := hBA.1 (by omega)
        omega
    by_cases hs' : B < rowSize A
    · rw [if_pos hs', if_pos (hst.1 hs')]; rfl
    · rw [if_neg hs', if_neg (fun h => hs' (hst.2 h)), octLatReindex_apply, octLatIota_cidx, octLatIota_cidx]

/-- **extension**: a point of the re-indexed block of a strongly closed matrix is the restriction of a point of
the matrix -/
theorem octLatExtend {n : Nat} {c : OctM n} (hc : c.IsStronglyClosed) {tbl : List Nat} {k : Nat}
    (hs : tbl.Pairwise (· < ·)) (hlt : ∀ s, s ∈ tbl → s < n) (hlen : k ≤ tbl.length) {z : Nat → Rat}
    (hz : z ∈ γO k (octLatReindex tbl c.e)) :
    ∃ x, c.Sat x ∧ ∀ i, i < k → x (tbl.getD i 0) = z i := by
  have hnodup : tbl.Nodup := hs.imp (fun h => Nat.ne_of_lt h)
  have hV := hc.closedFull
  have hidx : ∀ a, a < tbl.length → tbl.idxOf (tbl.getD a 0) = a := by
    intro a ha
    rw [List.getD_eq_getElem?_getD, List.getElem?_eq_getElem ha, Option.getD_some, hnodup.idxOf_getElem a ha]
  let q0 : Nat → Rat := fun I => OctM.oval z (2 * tbl.idxOf (I / 2) + I % 2)
  have hq0 : ∀ A, A < 2 * k → q0 (octLatIota tbl A) = OctM.oval z A := by
    intro A hA
    show OctM.oval z (2 * tbl.idxOf (octLatIota tbl A / 2) + octLatIota tbl A % 2) = _
    have e1 : octLatIota tbl A / 2 = tbl.getD (A / 2) 0 := by unfold octLatIota; omega
    have e2 : octLatIota tbl A % 2 = A % 2 := by unfold octLatIota; omega
    rw [e1, e2, hidx (A / 2) (by omega)]
    congr 1; omega
  let L := (List.range (2 * k)).map (octLatIota tbl)
  have hLmem : ∀ I, I ∈ L → ∃ A, A < 2 * k ∧ I = octLatIota tbl A := by
    intro I hI
    obtain ⟨A, hA, rfl⟩ := List.mem_map.1 hI
    exact ⟨A, List.mem_range.1 hA, rfl⟩
  have hLlt : ∀ I, I ∈ L → I < 2 * n := by
    intro I hI
    obtain ⟨A, hA, rfl⟩ := hLmem I hI
    have := hlt _ (latGetD_mem (l := tbl) (a := A / 2) (by omega))
    unfold octLatIota; omega
  have hA : Among L q0 { f := octFull c.e } := by
    intro I hI J hJ
    obtain ⟨A, hA, rfl⟩ := hLmem I hI
    obtain ⟨B, hB, rfl⟩ := hLmem J hJ
    rw [hq0 A hA, hq0 B hB]
    show _ ≤ octFull c.e (octLatIota tbl A) (octLatIota tbl B)
    rw [← octFull_reindex hs c.e (by omega) (by omega)]
    exact octLatFullHolds hz hA hB
  obtain ⟨q', hq1, hq2⟩ := extend_all hV L hLlt q0 hA (2 * n) (le_refl _)
  have hH := holds_of_among hq2
  obtain ⟨x, hx, hv⟩ := c.point_of_potential_below (d := { f := octFull c.e }) (fun u v => le_rfl' _) hH
  refine ⟨x, hx, ?_⟩
  intro i hi
  have h0 : octLatIota tbl (2 * i) = 2 * tbl.getD i 0 := by
    unfold octLatIota
    have e1 : 2 * i / 2 = i := by omega
    have e2 : 2 * i % 2 = 0 := by omega
    rw [e1, e2, Nat.add_zero]
  have h1 : octLatIota tbl (2 * i + 1) = 2 * tbl.getD i 0 + 1 := by
    unfold octLatIota
    have e1 : (2 * i + 1) / 2 = i := by omega
    have e2 : (2 * i + 1) % 2 = 1 := by omega
    rw [e1, e2]
  have := hv (2 * tbl.getD i 0)
  rw [oval_even, cidx_even, ← h1, ← h0,
    hq1 _ (List.mem_map.2 ⟨2 * i, List.mem_range.2 (by omega), rfl⟩),
    hq1 _ (List.mem_map.2 ⟨2 * i + 1, List.mem_range.2 (by omega), rfl⟩),
    hq0 _ (by omega), hq0 _ (by omega), oval_even, oval_odd] at this
  rw [this]; ring

/-- `remove_space_dimensions(vars)`, exact arithmetic, closure run inside: every point of the result is the
dropped image of a point of the shape; an empty answer means an empty shape -/
theorem octLatRemoveDims_exact (n : Nat) (m : Mat) (hd : octLatDiag n m) (vars : List Nat) (hne : vars ≠ [])
    (hvs : ∀ v, v ∈ vars → v < n) :
    match octLatRemoveDims Rnd.exact n false m vars with
    | none => γO n m = ∅
    | some r => r.dim = n - vars.length ∧
        ∀ z, z ∈ γO r.dim r.m → ∃ x, x ∈ γO n m ∧ ∀ i, i < r.dim → octLatDropPoint n vars x i = z i := by
  unfold octLatRemoveDims
  have hie : vars.isEmpty = false := by cases vars <;> simp_all
  simp only [hie, Bool.false_eq_true, if_false]
  rw [latExactUpO]
  have hn : n ≠ 0 := by
    cases vars with
    | nil => exact absurd rfl hne
    | cons v vs => have := hvs v List.mem_cons_self; omega
  cases e : octLatClose upId n false m with
  | none =>
    dsimp only
    ext x
    simp only [Set.mem_empty_iff_false, iff_false]
    exact octLatClose_none_empty e x
  | some mc =>
    obtain ⟨m', c'⟩ := mc
    dsimp only
    obtain ⟨c, ce, hs, hg⟩ := octLatClose_strong hn hd e
    have back : ∀ x, c.Sat x → x ∈ γO n m := by
      intro x hx
      rw [← hg, ← ce]; exact (OctM.sat_iff_holds c x).1 hx
    by_cases h0 : n - vars.length = 0
    · simp only [if_pos h0]
      refine ⟨h0.symm, fun z _ => ?_⟩
      obtain ⟨q, hq⟩ := (octLatCanon_of_strong hn hs).1
      exact ⟨q, by rw [← hg, ← ce]; exact hq, fun i hi => absurd hi (Nat.not_lt_zero i)⟩
    · simp only [if_neg h0]
      refine ⟨by first | rfl | trivial, fun z hz => ?_⟩
      rw [← ce] at hz
      obtain ⟨x, hx, hxz⟩ := octLatExtend hs (octLatRemoveTable_sorted n vars) (octLatRemoveTable_lt n vars hvs)
        (octLatRemoveTable_length n vars hvs) hz
      exact ⟨x, back x hx, fun i hi => hxz i hi⟩

/-- `remove_higher_space_dimensions(newDim)`, exact arithmetic, closure run inside: exact projection -/
theorem octLatRemoveHigher_exact (n : Nat) (m : Mat) (hd : octLatDiag n m) (newDim : Nat) (hnd : newDim < n) :
    match octLatRemoveHigher Rnd.exact n false m newDim with
    | none => γO n m = ∅
    | some r => r.dim = newDim ∧
        ∀ z, z ∈ γO newDim r.m → ∃ x, x ∈ γO n m ∧ ∀ i, i < newDim → x i = z i := by
  unfold octLatRemoveHigher
  rw [if_neg (by omega), latExactUpO]
  have hn : n ≠ 0 := by omega
  cases e : octLatClose upId n false m with
  | none =>
    dsimp only
    ext x
    simp only [Set.mem_empty_iff_false, iff_false]
    exact octLatClose_none_empty e x
  | some mc =>
    obtain ⟨m', c'⟩ := mc
    dsimp only
    obtain ⟨c, ce, hs, hg⟩ := octLatClose_strong hn hd e
    refine ⟨rfl, fun z hz => ?_⟩
    have hget : ∀ a, a < n → (List.range n).getD a 0 = a := by
      intro a ha; simp [List.getD_eq_getElem?_getD, ha]
    have hz' : z ∈ γO newDim (octLatReindex (List.range n) c.e) := by
      intro a b hab
      have ha := hab.1
      have hb : b < 2 * newDim := by have := hab.2; have := rowSize_le hab.1; omega
      rw [octLatReindex_apply]
      unfold octLatIota
      rw [hget (a / 2) (by omega), hget (b / 2) (by omega)]
      have e1 : 2 * (a / 2) + a % 2 = a := by omega
      have e2 : 2 * (b / 2) + b % 2 = b := by omega
      rw [e1, e2, ce]
      exact hz a b hab
    obtain ⟨x, hx, hxz⟩ := octLatExtend hs (tbl := List.range n) (k := newDim) List.pairwise_lt_range
      (fun s hs => List.mem_range.1 hs) (by simp; omega) hz'
    refine ⟨x, by rw [← hg, ← ce]; exact (OctM.sat_iff_holds c x).1 hx, fun i hi => ?_⟩
    have := hxz i hi
    rw [hget i (by omega)] at this
    exact this

end PPLV.WR
