import PPLV.WR.TransOct2LatProofsExact2FoldB
/-!
# Exact arithmetic: `Octagonal_Shape<T>::fold_space_dimensions` computes the least octagon containing every
folded piece (assembly)
-/
set_option linter.unusedVariables false
namespace PPLV.WR
open ExtRat

section
variable {n : Nat} {c : OctM n} (hc : c.IsStronglyClosed) {dest w a b : Nat} {t : ExtRat}
  (hdn : dest < n) (hwn : w < n) (hwd : w ≠ dest)
  (H : ∀ x, c.Sat x → fin (OctM.oval (upd x dest (x w)) b - OctM.oval (upd x dest (x w)) a) ≤ t)
include hc hdn hwn hwd H

theorem octLatFoldL1_inv {S0 : Mat} (hS0 : octLatFoldInv dest c.e a b t S0) :
    octLatFoldInv dest c.e a b t (octLatFoldL1 (2 * dest) (2 * w) S0) := by
  unfold octLatFoldL1
  refine latLoopUp_inv (octLatFoldInv dest c.e a b t) hS0 ?_
  intro j S hj hS
  rcases (by omega : j % 2 = 0 ∨ j % 2 = 1) with hp | hp
  · exact octLatFoldB1_e hc hdn hwn hwd H (by omega) (by omega) hp hS
  · exact octLatFoldB1_o hc hdn hwn hwd H (by omega) (by omega) hp hS

theorem octLatFoldL2_inv {S0 : Mat} (hS0 : octLatFoldInv dest c.e a b t S0) :
    octLatFoldInv dest c.e a b t (octLatFoldL2 (2 * dest) (2 * w) S0) := by
  unfold octLatFoldL2
  rcases Nat.lt_or_gt_of_ne hwd with hlt | hlt
  · have hmin : min (2 * dest) (2 * w) = 2 * w := by omega
    have hmax : max (2 * dest) (2 * w) = 2 * dest := by omega
    rw [hmin, hmax]
    refine latLoopUp_inv (octLatFoldInv dest c.e a b t) hS0 ?_
    intro s S hs hS
    dsimp only
    rw [if_neg (by omega)]
    rcases (by omega : (2 * w + 2 + s) % 2 = 0 ∨ (2 * w + 2 + s) % 2 = 1) with hp | hp
    · exact octLatFoldB2b_e hc hdn hwn hwd H (by omega) (by omega) hp hS
    · exact octLatFoldB2b_o hc hdn hwn hwd H (by omega) (by omega) hp hS
  · have hmin : min (2 * dest) (2 * w) = 2 * dest := by omega
    have hmax : max (2 * dest) (2 * w) = 2 * w := by omega
    rw [hmin, hmax]
    refine latLoopUp_inv (octLatFoldInv dest c.e a b t) hS0 ?_
    intro s S hs hS
    dsimp only
    rw [if_pos rfl]
    rcases (by omega : (2 * dest + 2 + s) % 2 = 0 ∨ (2 * dest + 2 + s) % 2 = 1) with hp | hp
    · exact octLatFoldB2a_e hc hdn hwn hwd H (by omega) (by omega) hp hS
    · exact octLatFoldB2a_o hc hdn hwn hwd H (by omega) (by omega) hp hS

theorem octLatFoldL3_inv {S0 : Mat} (hS0 : octLatFoldInv dest c.e a b t S0) :
    octLatFoldInv dest c.e a b t (octLatFoldL3 n (2 * dest) (2 * w) S0) := by
  unfold octLatFoldL3
  refine latLoopUp_inv (octLatFoldInv dest c.e a b t) hS0 ?_
  intro s S hs hS
  rcases (by omega : (max (2 * dest) (2 * w) + 2 + s) % 2 = 0 ∨ (max (2 * dest) (2 * w) + 2 + s) % 2 = 1)
    with hp | hp
  · exact octLatFoldB3_e hc hdn hwn hwd H (by omega) (by omega) (by omega) hp hS
  · exact octLatFoldB3_o hc hdn hwn hwd H (by omega) (by omega) (by omega) hp hS

theorem octLatFoldOne_inv {S : Mat} (hS : octLatFoldInv dest c.e a b t S) :
    octLatFoldInv dest c.e a b t (octLatFoldOne n dest w S) := by
  rw [octLatFoldOne_eq]
  have s1 := octLatFoldInv_op hS (a' := 2 * dest) (b' := 2 * dest + 1) (c' := 2 * w) (e := 2 * w + 1)
    (by omega) (by omega)
    (by intro ha hb; subst ha; subst hb; exact octLatSem hc H (by oct_idx) (by oct_idx) (by oct_idx) (by oct_idx))
  have s2 := octLatFoldInv_op s1 (a' := 2 * dest + 1) (b' := 2 * dest) (c' := 2 * w + 1) (e := 2 * w)
    (by omega) (by omega)
    (by intro ha hb; subst ha; subst hb; exact octLatSem hc H (by oct_idx) (by oct_idx) (by oct_idx) (by oct_idx))
  exact octLatFoldL3_inv hc hdn hwn hwd H (octLatFoldL2_inv hc hdn hwn hwd H (octLatFoldL1_inv hc hdn hwn hwd H s2))

end

theorem octLatFoldAll_inv {n : Nat} {c : OctM n} (hc : c.IsStronglyClosed) {dest a b : Nat} {t : ExtRat}
    (hdn : dest < n) (vars : List Nat) (hvs : ∀ v, v ∈ vars → v < n) (hdv : dest ∉ vars)
    (H : ∀ w, w ∈ vars → ∀ x, c.Sat x →
      fin (OctM.oval (upd x dest (x w)) b - OctM.oval (upd x dest (x w)) a) ≤ t)
    {S : Mat} (hS : octLatFoldInv dest c.e a b t S) :
    octLatFoldInv dest c.e a b t (octLatFoldAll n dest vars S) := by
  unfold octLatFoldAll
  induction vars generalizing S with
  | nil => exact hS
  | cons w ws ih =>
    simp only [List.foldl_cons]
    refine ih (fun v hv => hvs v (List.mem_cons_of_mem _ hv)) (fun h => hdv (List.mem_cons_of_mem _ h))
      (fun v hv => H v (List.mem_cons_of_mem _ hv)) ?_
    exact octLatFoldOne_inv hc hdn (hvs w List.mem_cons_self)
      (fun h => hdv (h ▸ List.mem_cons_self)) (H w List.mem_cons_self) hS

theorem octLatDropPoint_oval (n : Nat) (vars : List Nat) (z : Nat → Rat) (C : Nat) :
    OctM.oval (octLatDropPoint n vars z) C = OctM.oval z (octLatIota (octLatRemoveTable n vars) C) := by
  unfold OctM.oval octLatDropPoint octLatIota
  have e1 : (2 * (octLatRemoveTable n vars).getD (C / 2) 0 + C % 2) % 2 = C % 2 := by omega
  have e2 : (2 * (octLatRemoveTable n vars).getD (C / 2) 0 + C % 2) / 2
      = (octLatRemoveTable n vars).getD (C / 2) 0 := by omega
  rw [e1, e2]

theorem octLatSub_self (dest i : Nat) : octLatSub dest dest i = i := by
  unfold octLatSub; split <;> omega

/-- `fold_space_dimensions(vars, dest)`, exact arithmetic, closure run inside: the result is the least octagon
containing every folded piece -/
theorem octLatFold_exact (n : Nat) (m : Mat) (hd : octLatDiag n m) (vars : List Nat) (dest : Nat)
    (hne : vars ≠ []) (hsorted : vars.Pairwise (· < ·)) (hvs : ∀ v, v ∈ vars → v < n) (hdest : dest < n)
    (hdv : dest ∉ vars) :
    match octLatFold Rnd.exact n false m vars dest with
    | none => γO n m = ∅
    | some r => r.dim = n - vars.length ∧
        ∀ d : Mat, (∀ x w, x ∈ γO n m → (w = dest ∨ w ∈ vars) →
            octLatDropPoint n vars (upd x dest (x w)) ∈ γO r.dim d) → γO r.dim r.m ⊆ γO r.dim d := by
  unfold octLatFold
  have hie : vars.isEmpty = false := by cases vars <;> simp_all
  simp only [hie, Bool.false_eq_true, if_false]
  rw [latExactUpO]
  have hn : n ≠ 0 := by omega
  cases e : octLatClose upId n false m with
  | none =>
    dsimp only
    ext x
    simp only [Set.mem_empty_iff_false, iff_false]
    exact octLatClose_none_empty e x
  | some mc =>
    obtain ⟨m', c'⟩ := mc
    dsimp only
    obtain ⟨c, ce, hs, hg⟩ := octLatClose_strong hn hd e
    have hc' : c' = true := by
      unfold octLatClose at e
      simp only [Bool.false_eq_true, if_false, if_neg hn] at e
      cases h : octCloseFirst upId false (OctM.ofMat n m) with
      | none => rw [h] at e; simp at e
      | some v => rw [h] at e; simp only [Option.map_some, Option.some.injEq, Prod.mk.injEq] at e; exact e.2.symm
    subst hc'
    have back : ∀ x, c.Sat x → x ∈ γO n m := by
      intro x hx
      rw [← hg, ← ce]; exact (OctM.sat_iff_holds c x).1 hx
    unfold octLatRemoveDims
    simp only [hie, Bool.false_eq_true, if_false, octLatClose, if_true]
    by_cases h0 : n - vars.length = 0
    · simp only [if_pos h0]
      refine ⟨h0.symm, fun d _ p _ A B hAB => ?_⟩
      have : A < 2 * 0 := hAB.1
      omega
    · simp only [if_neg h0]
      refine ⟨by first | rfl | trivial, fun d hpieces p hp A B hAB => ?_⟩
      have hA : A < 2 * (n - vars.length) := hAB.1
      have hBs : B < rowSize A := hAB.2
      have hB : B < 2 * (n - vars.length) := lt_of_lt_of_le hBs (rowSize_le hA)
      have hsT := octLatRemoveTable_sorted n vars
      have hltT := octLatRemoveTable_lt n vars hvs
      have hlenT := octLatRemoveTable_length n vars hvs
      -- the pieces, read at the cell `(A, B)`
      have Hw : ∀ w, (w = dest ∨ w ∈ vars) → ∀ x, c.Sat x →
          fin (OctM.oval (upd x dest (x w)) (octLatIota (octLatRemoveTable n vars) B) -
            OctM.oval (upd x dest (x w)) (octLatIota (octLatRemoveTable n vars) A)) ≤ d A B := by
        intro w hw x hx
        have := hpieces x w (back x hx) hw A B hAB
        rw [octLatDropPoint_oval, octLatDropPoint_oval] at this
        exact this
      have hpAB := hp A B hAB
      rw [octLatReindex_apply, ← ce] at hpAB
      by_cases hABne : A = B
      · subst hABne
        obtain ⟨q, hq⟩ := (octLatCanon_of_strong hn hs).1
        have := Hw dest (Or.inl rfl) q ((OctM.sat_iff_holds c q).2 hq)
        simpa using this
      · refine le_trans' hpAB ?_
        have hmono : (octLatRemoveTable n vars).getD (B / 2) 0 ≤ (octLatRemoveTable n vars).getD (A / 2) 0 :=
          latGetD_mono hsT (by unfold rowSize at hBs; omega) (by omega)
        have ha2n : octLatIota (octLatRemoveTable n vars) A < 2 * n := by
          have := hltT _ (latGetD_mem (l := octLatRemoveTable n vars) (a := A / 2) (by omega))
          unfold octLatIota; omega
        have hbs : octLatIota (octLatRemoveTable n vars) B < rowSize (octLatIota (octLatRemoveTable n vars) A) := by
          unfold rowSize octLatIota; omega
        have hab : octLatIota (octLatRemoveTable n vars) A ≠ octLatIota (octLatRemoveTable n vars) B := by
          unfold octLatIota
          intro h
          by_cases h2 : A / 2 = B / 2
          · rw [h2] at h; omega
          · have : B / 2 < A / 2 := by unfold rowSize at hBs; omega
            have := latGetD_strict hsT this (by omega : A / 2 < (octLatRemoveTable n vars).length)
            omega
        have hinit : octLatFoldInv dest c.e (octLatIota (octLatRemoveTable n vars) A)
            (octLatIota (octLatRemoveTable n vars) B) (d A B) c.e := by
          refine ⟨fun _ _ _ _ => rfl, ?_⟩
          exact octLatSem hs (Hw dest (Or.inl rfl)) ha2n hbs hab
            (Or.inl ⟨(octLatSub_self dest _).symm, (octLatSub_self dest _).symm⟩)
        exact (octLatFoldAll_inv hs hdest vars hvs hdv (fun w hw => Hw w (Or.inr hw)) hinit).2

end PPLV.WR
