import PPLV.WR.ClosureProofsFW
import Mathlib.Tactic.Linarith
/-!
# Adding one constraint to a shortest-path closed matrix (incremental closure, exact arithmetic)

`Mat.addEdge c a b w` is the matrix `c` tightened by the constraint `p b - p a ≤ w`:
`c' u v = min (c u v) (c u a + w + c b v)`.  When the new constraint does not close a negative cycle
(`0 ≤ w + c b a`) the result is again `Closed`, lies below `c` and its entry `(a, b)` is at most `w`.
(Used by `ReduceProofsUBCompleteMain.lean` to build a point of the join outside both operands.)
-/
namespace PPLV.WR
open ExtRat

/-- `c` tightened by `p b - p a ≤ w` -/
def Mat.addEdge (c : Mat) (a b : Nat) (w : Rat) : Mat :=
  { f := fun u v => minA (c u v) (eadd (c u a) (eadd (fin w) (c b v))) }

theorem Mat.addEdge_apply (c : Mat) (a b : Nat) (w : Rat) (u v : Nat) :
    c.addEdge a b w u v = minA (c u v) (eadd (c u a) (eadd (fin w) (c b v))) := rfl

theorem Mat.addEdge_le (c : Mat) (a b : Nat) (w : Rat) (u v : Nat) : c.addEdge a b w u v ≤ c u v :=
  minA_le_left _ _

/-! ### the four cases of the triangle inequality, on bare extended rationals -/

/-- the path through the new edge, prolonged on the left -/
theorem addEdge_aux_l {A B C D : ExtRat} (w : Rat) (T : A ≤ eadd C D) :
    eadd A (eadd (fin w) B) ≤ eadd C (eadd D (eadd (fin w) B)) := by
  rw [← eadd_assoc C D]
  exact eadd_mono T (le_rfl' _)

/-- the path through the new edge, prolonged on the right -/
theorem addEdge_aux_r {A B C D : ExtRat} (w : Rat) (T : B ≤ eadd C D) :
    eadd A (eadd (fin w) B) ≤ eadd (eadd A (eadd (fin w) C)) D := by
  rw [eadd_assoc A, eadd_assoc (fin w)]
  exact eadd_mono (le_rfl' _) (eadd_mono (le_rfl' _) T)

/-- both halves use the new edge: the middle part is a cycle through it, of non-negative weight -/
theorem addEdge_aux_2 {A B C D E : ExtRat} (w : Rat) (T : E ≤ eadd C D) (H : fin 0 ≤ eadd (fin w) E) :
    eadd A (eadd (fin w) B) ≤ eadd (eadd A (eadd (fin w) C)) (eadd D (eadd (fin w) B)) := by
  cases A <;> cases B <;> cases C <;> cases D <;> cases E <;>
    simp_all [eadd, addUp]
  linarith

/-- the cycle `u → a → b → u` through the new edge has non-negative weight -/
theorem addEdge_aux_d {C D E : ExtRat} (w : Rat) (T : E ≤ eadd C D) (H : fin 0 ≤ eadd (fin w) E) :
    fin 0 ≤ eadd D (eadd (fin w) C) := by
  cases C <;> cases D <;> cases E <;> simp_all [eadd, addUp]
  linarith

/-- **incremental closure**: a closed matrix tightened by a compatible constraint is closed -/
theorem Closed.addEdge {R : Nat} {c : Mat} (hc : Closed R c) {a b : Nat} (ha : a < R) (hb : b < R)
    (w : Rat) (hw : fin 0 ≤ eadd (fin w) (c b a)) : Closed R (c.addEdge a b w) := by
  refine ⟨fun u hu => ?_, fun u v t hu hv ht => ?_⟩
  · rw [Mat.addEdge_apply, hc.diag u hu]
    exact minA_eq_left (addEdge_aux_d w (hc.tri b a u hb ha hu) hw)
  · rw [Mat.addEdge_apply c a b w u t, Mat.addEdge_apply c a b w t v]
    rcases minA_cases (c u t) (eadd (c u a) (eadd (fin w) (c b t))) with e1 | e1 <;>
      rcases minA_cases (c t v) (eadd (c t a) (eadd (fin w) (c b v))) with e2 | e2 <;> rw [e1, e2]
    · exact le_trans' (minA_le_left _ _) (hc.tri u v t hu hv ht)
    · exact le_trans' (minA_le_right _ _) (addEdge_aux_l w (hc.tri u a t hu ha ht))
    · exact le_trans' (minA_le_right _ _) (addEdge_aux_r w (hc.tri b v t hb hv ht))
    · exact le_trans' (minA_le_right _ _) (addEdge_aux_2 w (hc.tri b a t hb ha ht) hw)

/-- the new constraint holds in the tightened matrix -/
theorem Closed.addEdge_edge {R : Nat} {c : Mat} (hc : Closed R c) {a b : Nat} (ha : a < R) (hb : b < R)
    (w : Rat) : c.addEdge a b w a b ≤ fin w := by
  refine le_trans' (minA_le_right _ _) ?_
  rw [hc.diag a ha, hc.diag b hb]
  simp [eadd, addUp]

end PPLV.WR
