import PPLV.WR.TransProofsMain
/-!
# `bounded_affine_image`: the branch through an additional dimension (`ub_expr == ±den*var + b`)
-/
set_option linter.unusedVariables false
set_option linter.unusedSimpArgs false
namespace PPLV.WR
open ExtRat

/-- the branch `:5324-5343` of `boundedAffineImageCore` -/
def bndExtraDim (R : Rnd) (n var : Nat) (el : Nat → Int) (bl : Int) (eu : Nat → Int) (bu den : Int) (m : Mat) :
    Option Mat :=
  let v := var + 1
  let m := embedOne n m
  let m1 := affineImageCore R (n + 1) n eu bu den m
  let base := forgetAll (n + 2) (n + 1) m
  let changed := (List.range (n + 2)).any fun i => (List.range (n + 2)).any fun j =>
    decide (m1 i j ≠ base i j)
  let m2 : DBM (n + 1) := DBM.ofMat (n + 1) m1
  if changed && DBM.closureEmpty R.up m2 then none
  else
    let m2 := if changed then (DBM.closure R.up m2).e else m1
    let m3 := genAffineImageCore R (n + 1) var false el bl den m2
    let m4 := addDbmConstraint m3 (n + 1) v (divRoundUp R 0 1)
    let m5 : DBM (n + 1) := DBM.ofMat (n + 1) m4
    if DBM.closureEmpty R.up m5 then none else some (DBM.closure R.up m5).e

theorem boundedAffineImageCore_extra (R : Rnd) (n var : Nat) (el : Nat → Int) (bl : Int) (eu : Nat → Int)
    (bu den : Int) (m : Mat) (h0 : ¬ exprT eu (lastNonzero eu n) = 0)
    (h1 : exprT eu (lastNonzero eu n) = 1 ∧
        (eu (lastNonzero eu n - 1) = den ∨ eu (lastNonzero eu n - 1) = - den))
    (hwv : lastNonzero eu n = var + 1) :
    boundedAffineImageCore R n var el bl eu bu den m = bndExtraDim R n var el bl eu bu den m := by
  unfold boundedAffineImageCore
  dsimp only
  rw [if_neg h0, if_pos h1, if_pos hwv]
  rfl

theorem linEval_congr_x (e : Nat → Int) {x y : Nat → Rat} {k : Nat} (h : ∀ i, i < k → x i = y i) :
    linEval e x k = linEval e y k := by
  induction k with
  | zero => rfl
  | succ k ih => simp only [linEval]; rw [ih (fun i hi => h i (by omega)), h k (by omega)]

theorem holds_embedOne {n : Nat} {m : Mat} {x : Nat → Rat} (hx : Holds (SB (n+1)) (DBM.val x) m) :
    Holds (SB (n+2)) (DBM.val x) (embedOne n m) := by
  intro a b hab
  show fin _ ≤ (if a = n + 1 ∨ b = n + 1 then pinf else m a b)
  split
  · exact le_pinf _
  · rename_i hc
    exact hx a b ⟨by have := hab.1; omega, by have := hab.2; omega⟩

theorem sat_ofMat {n : Nat} {m : Mat} {x : Nat → Rat} (hx : Holds (SB (n+1)) (DBM.val x) m) :
    (DBM.ofMat n m).Sat x :=
  (DBM.sat_iff_holds _ x).2 (holds_diagDown_pinf hx)

theorem bndExtraDim_sound {R : Rnd} (hR : R.Sound) {n var : Nat} (hvar : var < n)
    {el : Nat → Int} (hcl : CoeffExact R el) (hel : ∀ i, n ≤ i → el i = 0) {bl : Int}
    {eu : Nat → Int} (hcu : CoeffExact R eu) (heu : ∀ i, n ≤ i → eu i = 0) {bu den : Int} (hden : den ≠ 0)
    {m : Mat} {x : Nat → Rat} (hx : x ∈ γB n m) {t : Rat}
    (hlb : (linEval el x n + bl) / den ≤ t) (hub : t ≤ (linEval eu x n + bu) / den) :
    ∃ m', bndExtraDim R n var el bl eu bu den m = some m' ∧ upd x var t ∈ γB n m' := by
  unfold bndExtraDim
  dsimp only
  -- the new dimension receives the value of the upper bound expression
  have hx0 := holds_embedOne hx
  have hx1 : upd x n ((linEval eu x (n+1) + bu) / den) ∈ γB (n+1) _ :=
    affineImageCore_sound hR (Nat.lt_succ_self n) hcu hden (b := bu) hx0
  have hu : linEval eu x (n+1) = linEval eu x n := by simp [linEval, heu n (le_refl n)]
  rw [hu] at hx1
  generalize hU : (linEval eu x n + bu) / (den : Rat) = U at hx1 hub
  generalize affineImageCore R (n + 1) n eu bu den (embedOne n m) = m1 at hx1 ⊢
  generalize ((List.range (n + 2)).any fun i => (List.range (n + 2)).any fun j =>
    decide (m1 i j ≠ forgetAll (n + 2) (n + 1) (embedOne n m) i j)) = changed
  have hs2 := sat_ofMat hx1
  -- the matrix handed to the inner `generalized_affine_image`
  have hm2 : (changed && DBM.closureEmpty R.up (DBM.ofMat (n + 1) m1)) = false ∧
      upd x n U ∈ γB (n+1) (if changed = true then (DBM.closure R.up (DBM.ofMat (n + 1) m1)).e else m1) := by
    cases changed with
    | false => exact ⟨rfl, by simpa using hx1⟩
    | true =>
      simp only [Bool.true_and, if_true]
      constructor
      · cases he : DBM.closureEmpty R.up (DBM.ofMat (n + 1) m1) with
        | false => rfl
        | true => exact absurd hs2 (DBM.closureEmpty_sound hR.up_le _ he _)
      · exact (DBM.sat_iff_holds _ _).1 (DBM.closure_sat hR.up_le _ _ hs2)
  rw [hm2.1]
  simp only [Bool.false_eq_true, if_false]
  have hx2 := hm2.2
  generalize (if changed = true then (DBM.closure R.up (DBM.ofMat (n + 1) m1)).e else m1) = m2 at hx2 ⊢
  -- the lower bound
  have hl : linEval el (upd x n U) (n+1) = linEval el x n := by
    simp only [linEval, hel n (le_refl n)]
    rw [linEval_congr_x el (x := upd x n U) (y := x) (fun i hi => by simp [upd]; intro h; omega)]
    simp
  have hx3 : upd (upd x n U) var t ∈ γB (n+1) (genAffineImageCore R (n + 1) var false el bl den m2) :=
    genAffineImageCore_sound hR (by omega) hcl hden hx2 false (by simp only [Bool.false_eq_true, if_false]; rw [hl]; exact hlb)
  -- `var <= new_var`
  have hx4 : Holds (SB (n+2)) (DBM.val (upd (upd x n U) var t))
      (addDbmConstraint (genAffineImageCore R (n + 1) var false el bl den m2) (n + 1) (var + 1) (divRoundUp R 0 1)) := by
    refine holds_addDbm hx3 (fun _ => ?_)
    have e1 : DBM.val (upd (upd x n U) var t) (var+1) = t := by rw [val_upd, if_pos rfl]
    have e2 : DBM.val (upd (upd x n U) var t) (n+1) = U := by
      rw [val_upd, if_neg (by omega), val_upd, if_pos rfl]
    rw [e1, e2]
    refine le_trans' (fin_le_fin.2 ?_) (hR.up_le _)
    simp; linarith
  have hs5 := sat_ofMat hx4
  split
  · rename_i he
    exact absurd hs5 (DBM.closureEmpty_sound hR.up_le _ he _)
  · refine ⟨_, rfl, ?_⟩
    have h6 := (DBM.sat_iff_holds _ _).1 (DBM.closure_sat hR.up_le _ _ hs5)
    intro a b hab
    have := h6 a b ⟨by have := hab.1; omega, by have := hab.2; omega⟩
    have hv : ∀ a, a < n + 1 → DBM.val (upd (upd x n U) var t) a = DBM.val (upd x var t) a := by
      intro a ha
      by_cases hav : a = var + 1
      · rw [val_upd, if_pos hav, val_upd, if_pos hav]
      · rw [val_upd, if_neg hav, val_upd, if_neg (by omega), val_upd, if_neg hav]
    rw [hv a hab.1, hv b hab.2] at this
    exact this

end PPLV.WR
