import PPLV.WR.Trans2LatProofsExact
import Mathlib.Data.List.Nodup
/-!
# Exact arithmetic: `remove_space_dimensions` computes the exact projection
-/
set_option linter.unusedVariables false
namespace PPLV.WR
open ExtRat

/-! ## the table of source indices -/

theorem bdsLatRemoveSrcs_ge (old : Nat) (vs : List Nat) (src : Nat) :
    ∀ s, s ∈ bdsLatRemoveSrcs old vs src → src ≤ s := by
  induction vs generalizing src with
  | nil =>
    intro s hs
    simp only [bdsLatRemoveSrcs, List.mem_range'_1] at hs
    omega
  | cons v vs ih =>
    intro s hs
    simp only [bdsLatRemoveSrcs, List.mem_append, List.mem_range'_1] at hs
    rcases hs with hs | hs
    · omega
    · have := ih _ s hs; omega

theorem bdsLatRemoveSrcs_sorted (old : Nat) (vs : List Nat) (src : Nat) :
    (bdsLatRemoveSrcs old vs src).Pairwise (· < ·) := by
  induction vs generalizing src with
  | nil => simp only [bdsLatRemoveSrcs]; exact List.pairwise_lt_range' 1
  | cons v vs ih =>
    simp only [bdsLatRemoveSrcs]
    rw [List.pairwise_append]
    refine ⟨List.pairwise_lt_range' 1, ih _, ?_⟩
    intro a ha b hb
    have h1 := List.mem_range'_1.1 ha
    have h2 := bdsLatRemoveSrcs_ge old vs _ b hb
    omega

theorem bdsLatRemoveSrcs_length (old : Nat) (vs : List Nat) (src : Nat) :
    old + 1 - src - vs.length ≤ (bdsLatRemoveSrcs old vs src).length := by
  induction vs generalizing src with
  | nil => simp [bdsLatRemoveSrcs]
  | cons v vs ih =>
    simp only [bdsLatRemoveSrcs, List.length_append, List.length_range', List.length_cons]
    have := ih (max src (v + 1) + 1)
    omega

theorem bdsLatRemoveTable_sorted (old : Nat) (vars : List Nat) :
    (bdsLatRemoveTable old vars).Pairwise (· < ·) := by
  cases vars with
  | nil => exact List.pairwise_lt_range
  | cons first rest =>
    simp only [bdsLatRemoveTable]
    rw [List.pairwise_append]
    refine ⟨List.pairwise_lt_range, bdsLatRemoveSrcs_sorted old rest _, ?_⟩
    intro a ha b hb
    have h1 := List.mem_range.1 ha
    have h2 := bdsLatRemoveSrcs_ge old rest _ b hb
    omega

theorem bdsLatRemoveTable_length (old : Nat) (vars : List Nat) (hvs : ∀ v, v ∈ vars → v < old) :
    old + 1 - vars.length ≤ (bdsLatRemoveTable old vars).length := by
  cases vars with
  | nil => simp [bdsLatRemoveTable]
  | cons first rest =>
    have hf := hvs first List.mem_cons_self
    simp only [bdsLatRemoveTable, List.length_append, List.length_range, List.length_cons]
    have := bdsLatRemoveSrcs_length old rest (first + 2)
    omega

theorem bdsLatGetD_mem {l : List Nat} {a : Nat} (ha : a < l.length) : l.getD a 0 ∈ l := by
  rw [List.getD_eq_getElem?_getD, List.getElem?_eq_getElem ha]
  simp only [Option.getD_some]
  exact List.getElem_mem ha

/-! ## extension of a point of the kept block -/

theorem bdsLatRemoveDims_exact (n : Nat) (m : Mat) (hd : bdsLatDiag n m) (vars : List Nat) (hne : vars ≠ [])
    (hvs : ∀ v, v ∈ vars → v < n) :
    match bdsLatRemoveDims Rnd.exact n false m vars with
    | none => γB n m = ∅
    | some r => r.dim = n - vars.length ∧
        ∀ z, z ∈ γB r.dim r.m → ∃ x, x ∈ γB n m ∧ ∀ i, i < r.dim → bdsLatDropPoint n vars x i = z i := by
  unfold bdsLatRemoveDims
  have hie : vars.isEmpty = false := by cases vars <;> simp_all
  simp only [hie, Bool.false_eq_true, if_false]
  rw [latExactUp]
  have hn : n ≠ 0 := by
    cases vars with
    | nil => exact absurd rfl hne
    | cons v vs => have := hvs v List.mem_cons_self; omega
  cases e : bdsLatClose upId n false m with
  | none =>
    dsimp only
    ext x
    simp only [Set.mem_empty_iff_false, iff_false]
    exact bdsLatClose_none (up := upId) (fun _ => le_rfl' _) e x
  | some mc =>
    obtain ⟨m', c'⟩ := mc
    dsimp only
    have e' := e
    unfold bdsLatClose at e'
    simp only [Bool.false_eq_true, if_false, if_neg hn] at e'
    unfold closeFirst at e'
    simp only [Bool.false_eq_true, if_false] at e'
    split at e'
    · simp at e'
    · rename_i hnemp
      have hne' : DBM.closureEmpty upId (DBM.ofMat n m) = false := by simpa using hnemp
      simp only [Option.map_some, Option.some.injEq, Prod.mk.injEq] at e'
      obtain ⟨rfl, _⟩ := e'
      have hcl := DBM.closure_core_closed (DBM.ofMat n m) hne'
      -- points of the closed matrix are points of `m`
      have back : ∀ x : Nat → Rat,
          (∀ a b, a ≤ n → b ≤ n → fin (DBM.val x b - DBM.val x a) ≤ bdsCore fin (n + 1) (DBM.ofMat n m).e a b) →
          x ∈ γB n m := by
        intro x hx
        apply bdsLatClose_sub (up := upId) (fun _ => le_rfl' _) hd e
        intro a b hab
        by_cases hab' : a = b
        · subst hab'
          rw [(DBM.closure upId (DBM.ofMat n m)).diag a (by have := hab.1; omega)]; exact le_pinf _
        · rw [DBM.closure_offdiag _ hab']
          exact hx a b (by have := hab.1; omega) (by have := hab.2; omega)
      by_cases h0 : n - vars.length = 0
      · simp only [if_pos h0]
        refine ⟨h0.symm, fun z _ => ?_⟩
        obtain ⟨x, hx⟩ := DBM.closure_nonempty (DBM.ofMat n m) hne'
        exact ⟨x, (latOfMat_sat hd x).1 hx, fun i hi => absurd hi (Nat.not_lt_zero i)⟩
      · simp only [if_neg h0]
        refine ⟨by first | rfl | trivial, fun z hz => ?_⟩
        set tbl := bdsLatRemoveTable n vars with htbl
        set k := n - vars.length with hk
        have hsorted := bdsLatRemoveTable_sorted n vars
        have hlen : k + 1 ≤ tbl.length := by
          have := bdsLatRemoveTable_length n vars hvs; rw [← htbl] at this; omega
        have hnodup : tbl.Nodup := hsorted.imp (fun h => Nat.ne_of_lt h)
        have hle : ∀ s, s ∈ tbl → s ≤ n := bdsLatRemoveTable_mem_le n vars hvs
        have hget : ∀ a, a < tbl.length → tbl.getD a 0 = tbl[a]! := by
          intro a ha; simp [List.getD_eq_getElem?_getD, ha]
        -- the potential on the kept indices
        let p : Nat → Rat := fun i => DBM.val z (tbl.idxOf i)
        have hp : ∀ a, a < tbl.length → p (tbl.getD a 0) = DBM.val z a := by
          intro a ha
          show DBM.val z (tbl.idxOf (tbl.getD a 0)) = _
          rw [List.getD_eq_getElem?_getD, List.getElem?_eq_getElem ha, Option.getD_some,
            hnodup.idxOf_getElem a ha]
        let L := (List.range (k + 1)).map (fun a => tbl.getD a 0)
        have hLmem : ∀ i, i ∈ L → ∃ a, a ≤ k ∧ i = tbl.getD a 0 := by
          intro i hi
          obtain ⟨a, ha, rfl⟩ := List.mem_map.1 hi
          exact ⟨a, by have := List.mem_range.1 ha; omega, rfl⟩
        have hinj : ∀ a b, a ≤ k → b ≤ k → tbl.getD a 0 = tbl.getD b 0 → a = b := by
          intro a b ha hb hab
          rw [List.getD_eq_getElem?_getD, List.getD_eq_getElem?_getD, List.getElem?_eq_getElem (by omega),
            List.getElem?_eq_getElem (by omega)] at hab
          simp only [Option.getD_some] at hab
          exact (List.Nodup.getElem_inj_iff hnodup).1 hab
        have hA : Among L p (bdsCore fin (n + 1) (DBM.ofMat n m).e) := by
          intro i hi j hj
          obtain ⟨a, ha, rfl⟩ := hLmem i hi
          obtain ⟨b, hb, rfl⟩ := hLmem j hj
          rw [hp a (by omega), hp b (by omega)]
          by_cases hab : a = b
          · subst hab
            rw [hcl.diag _ (by have := hle _ (bdsLatGetD_mem (l := tbl) (a := a) (by omega)); omega)]; simp
          · have hne2 : tbl.getD a 0 ≠ tbl.getD b 0 := fun h => hab (hinj a b ha hb h)
            have := hz a b ⟨by omega, by omega⟩
            change _ ≤ (DBM.closure upId (DBM.ofMat n m)).e (tbl.getD a 0) (tbl.getD b 0) at this
            rw [DBM.closure_offdiag _ hne2] at this
            exact this
        obtain ⟨p', hp1, hp2⟩ := extend_all hcl L (by
          intro i hi
          obtain ⟨a, ha, rfl⟩ := hLmem i hi
          have := hle _ (bdsLatGetD_mem (l := tbl) (a := a) (by omega)); omega) p hA (n + 1) (le_refl _)
        have hH := holds_of_among hp2
        have h0L : (0 : Nat) ∈ L := List.mem_map.2 ⟨0, List.mem_range.2 (by omega), bdsLatRemoveTable_zero n vars⟩
        have hp0 : p' 0 = 0 := by
          rw [hp1 0 h0L]
          have := hp 0 (by omega)
          rw [bdsLatRemoveTable_zero n vars] at this
          rw [this]; rfl
        have hv : ∀ a, DBM.val (fun i => p' (i + 1)) a = p' a := by
          intro a; cases a with
          | zero => simp [DBM.val, hp0]
          | succ a => rfl
        refine ⟨fun i => p' (i + 1), back _ ?_, ?_⟩
        · intro a b ha hb
          rw [hv, hv]
          exact hH a b ⟨by omega, by omega⟩
        · intro i hi
          show DBM.val (fun i => p' (i + 1)) (tbl.getD (i + 1) 0) = z i
          rw [hv, hp1 _ (List.mem_map.2 ⟨i + 1, List.mem_range.2 (by omega), rfl⟩), hp (i + 1) (by omega)]
          rfl

end PPLV.WR
