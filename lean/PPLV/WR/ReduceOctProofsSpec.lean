import PPLV.WR.ReduceOctProofsPos
/-!
# Octagon reduction: totality (O3) and an abstract description of cells that `non_redundant_matrix_entries`
certainly keeps (`OctKept`), derived from the code-shaped model

Bits are only ever set, so for `γ (reduced) ⊆ γ` a lower bound on the kept cells is all that is needed.
-/
namespace PPLV.WR
open ExtRat (fin pinf addUp halfUp)

/-! ## the pieces of `octNonRedundantMatrixEntries` -/

/-- the 0-cycle of a positive class (l. 3117–3133) -/
def step2Chain (successor : Vec) (rows i : Nat) (nr : BMat) : Option BMat :=
  if i % 2 = 0 then
    if i ≠ successor i then
      (octChain successor (rows + 1) i nr).map fun (nr, j) => nr.put (cidx j) (cidx i) true
    else some nr
  else some nr

/-- the loop over `lj` (l. 3135–3194) -/
def step2Inner (m : Mat) (nsl : List Nat) (li i : Nat) (nr : BMat) : BMat :=
  loopUp (rsOf li + 1) (fun lj nr =>
    if octToAdd upId m nsl i (nsl.getD lj 0) then nr.put i (nsl.getD lj 0) true else nr) nr

def step2Body (m : Mat) (successor : Vec) (nsl : List Nat) (rows li : Nat) (nr : Option BMat) : Option BMat :=
  nr.bind fun nr =>
    (step2Chain successor rows (nsl.getD li 0) nr).map (step2Inner m nsl li (nsl.getD li 0))

/-- the singular class (l. 3200–3216) -/
def singPart (successor : Vec) (L : OctLeaders) (rows : Nat) (nr : BMat) : Option BMat :=
  if L.exist_sing_class then
    let nr := nr.put L.sing_leader (L.sing_leader + 1) true
    if successor (L.sing_leader + 1) ≠ L.sing_leader + 1 then
      (octSingChain successor (rows + 1) L.sing_leader nr).map fun (nr, j) => nr.put (j + 1) j true
    else some (nr.put (L.sing_leader + 1) L.sing_leader true)
  else some nr

theorem octNR_eq (n : Nat) (m : Mat) :
    octNonRedundantMatrixEntries upId n m =
      (loopUp (octComputeLeaders4 (2 * n) (octComputeSuccessors (2 * n) m)).no_sing_leaders.length
        (step2Body m (octComputeSuccessors (2 * n) m)
          (octComputeLeaders4 (2 * n) (octComputeSuccessors (2 * n) m)).no_sing_leaders (2 * n))
        (some (BMat.const false))).bind
      (singPart (octComputeSuccessors (2 * n) m) (octComputeLeaders4 (2 * n) (octComputeSuccessors (2 * n) m))
        (2 * n)) := rfl

/-! ## monotonicity and totality -/

theorem octChain_mono (successor : Vec) :
    ∀ (fuel j : Nat) (nr : BMat) (r : BMat × Nat), octChain successor fuel j nr = some r → BLe nr r.1 := by
  intro fuel
  induction fuel with
  | zero => intro j nr r h; simp [octChain] at h
  | succ fuel ih =>
    intro j nr r h
    unfold octChain at h
    simp only at h
    split at h
    · cases h; exact BLe.refl _
    · exact (BLe.put _ _ _).trans (ih _ _ _ h)

theorem octSingChain_mono (successor : Vec) :
    ∀ (fuel j : Nat) (nr : BMat) (r : BMat × Nat), octSingChain successor fuel j nr = some r → BLe nr r.1 := by
  intro fuel
  induction fuel with
  | zero => intro j nr r h; simp [octSingChain] at h
  | succ fuel ih =>
    intro j nr r h
    unfold octSingChain at h
    simp only at h
    split at h
    · cases h; exact BLe.refl _
    · exact (BLe.put _ _ _).trans (ih _ _ _ h)

theorem step2Chain_mono (successor : Vec) (rows i : Nat) (x x1 : BMat)
    (h : step2Chain successor rows i x = some x1) : BLe x x1 := by
  unfold step2Chain at h
  split at h
  · split at h
    · cases hr : octChain successor (rows + 1) i x with
      | none => rw [hr] at h; cases h
      | some r =>
        rw [hr] at h
        cases h
        exact (octChain_mono successor _ _ _ r hr).trans (BLe.put _ _ _)
    · cases h; exact BLe.refl _
  · cases h; exact BLe.refl _

theorem step2Inner_mono (m : Mat) (nsl : List Nat) (li i : Nat) (x : BMat) : BLe x (step2Inner m nsl li i x) :=
  (loopUp_put (fun lj => octToAdd upId m nsl i (nsl.getD lj 0)) i (fun lj => nsl.getD lj 0) (rsOf li + 1) x).1

theorem step2Inner_put (m : Mat) (nsl : List Nat) (li i : Nat) (x : BMat) (lj : Nat) (hlj : lj ≤ rsOf li)
    (h : octToAdd upId m nsl i (nsl.getD lj 0) = true) : step2Inner m nsl li i x i (nsl.getD lj 0) = true :=
  (loopUp_put (fun lj => octToAdd upId m nsl i (nsl.getD lj 0)) i (fun lj => nsl.getD lj 0) (rsOf li + 1) x).2
    lj (by omega) h

theorem step2Body_some {m : Mat} {successor : Vec} {nsl : List Nat} {rows li : Nat} {x y : BMat}
    (h : step2Body m successor nsl rows li (some x) = some y) :
    ∃ x1, step2Chain successor rows (nsl.getD li 0) x = some x1 ∧ y = step2Inner m nsl li (nsl.getD li 0) x1 := by
  unfold step2Body at h
  simp only [Option.bind_some] at h
  cases hx : step2Chain successor rows (nsl.getD li 0) x with
  | none => rw [hx] at h; cases h
  | some x1 => rw [hx] at h; cases h; exact ⟨x1, rfl, rfl⟩

theorem step2Body_mono (m : Mat) (successor : Vec) (nsl : List Nat) (rows li : Nat) (x y : BMat)
    (h : step2Body m successor nsl rows li (some x) = some y) : BLe x y := by
  obtain ⟨x1, h1, rfl⟩ := step2Body_some h
  exact (step2Chain_mono _ _ _ _ _ h1).trans (step2Inner_mono _ _ _ _ _)

theorem singPart_mono (successor : Vec) (L : OctLeaders) (rows : Nat) (x y : BMat)
    (h : singPart successor L rows x = some y) : BLe x y := by
  unfold singPart at h
  split at h
  · simp only at h
    split at h
    · cases hr : octSingChain successor (rows + 1) L.sing_leader (x.put L.sing_leader (L.sing_leader + 1) true) with
      | none => rw [hr] at h; cases h
      | some r =>
        rw [hr] at h
        cases h
        exact (BLe.put _ _ _).trans ((octSingChain_mono successor _ _ _ r hr).trans (BLe.put _ _ _))
    · cases h; exact (BLe.put _ _ _).trans (BLe.put _ _ _)
  · cases h; exact BLe.refl _

/-- O3: the fuels suffice (no closedness needed: the walks go strictly upwards below `2n`) -/
theorem oct_reduction_total' (n : Nat) (m : Mat) : ∃ nr, octNonRedundantMatrixEntries upId n m = some nr := by
  have hs := octComputeSuccessors_isOctSucc (2 * n) m
  rw [octNR_eq]
  obtain ⟨z, hz⟩ := loopUp_opt_total
    (step2Body m (octComputeSuccessors (2 * n) m)
      (octComputeLeaders4 (2 * n) (octComputeSuccessors (2 * n) m)).no_sing_leaders (2 * n))
    (fun li x => by
      unfold step2Body step2Chain
      simp only [Option.bind_some]
      split
      · split
        · obtain ⟨r, hr⟩ := octChain_total hs (2 * n + 1) ((octComputeLeaders4 (2 * n)
            (octComputeSuccessors (2 * n) m)).no_sing_leaders.getD li 0) x (by omega) (by omega)
          rw [hr]; exact ⟨_, rfl⟩
        · exact ⟨_, rfl⟩
      · exact ⟨_, rfl⟩)
    (octComputeLeaders4 (2 * n) (octComputeSuccessors (2 * n) m)).no_sing_leaders.length (BMat.const false)
  rw [hz, Option.bind_some]
  unfold singPart
  split
  · simp only
    split
    · obtain ⟨r, hr⟩ := octSingChain_total hs (2 * n + 1)
        (octComputeLeaders4 (2 * n) (octComputeSuccessors (2 * n) m)).sing_leader
        (z.put (octComputeLeaders4 (2 * n) (octComputeSuccessors (2 * n) m)).sing_leader
          ((octComputeLeaders4 (2 * n) (octComputeSuccessors (2 * n) m)).sing_leader + 1) true)
        (by omega) (by omega)
      rw [hr]; exact ⟨_, rfl⟩
    · exact ⟨_, rfl⟩
  · exact ⟨_, rfl⟩

/-- O3 -/
theorem oct_reduction_total {n : Nat} (c : OctM n) (_hc : c.IsStronglyClosed) :
    ∃ nr, octNonRedundantMatrixEntries upId n c.e = some nr := oct_reduction_total' n c.e

/-! ## the abstract description of the kept cells -/

/-- `i` is the least element of a non-singular class -/
structure NSL (N : Nat) (m : Mat) (i : Nat) : Prop where
  lt : i < N
  least : ∀ t, t < N → OZEq m t i → i ≤ t
  ns : ¬ OZEq m i (cidx i)

/-- `s` is the least element of the singular class -/
structure SingL (N : Nat) (m : Mat) (s : Nat) : Prop where
  lt : s < N
  sing : OZEq m s (cidx s)
  least : ∀ t, t < N → OZEq m t (cidx t) → s ≤ t

/-- cells that are certainly kept -/
structure OctKept (N : Nat) (m : Mat) (succ : Nat → Nat) (nr : BMat) : Prop where
  /-- (e) the increasing chain through a non-singular class with even least element `i` -/
  chain : ∀ i a, NSL N m i → i % 2 = 0 → a < N → OZEq m a i → succ a ≠ a → nr (succ a) a = true
  /-- (e) the closing cell, stored as the coherent twin of `(i, z)` -/
  close : ∀ i z, NSL N m i → i % 2 = 0 → z < N → OZEq m z i → succ z = z → z ≠ i → nr (cidx z) (cidx i) = true
  /-- (l) a stored pair of non-singular leaders that is redundant neither by strong coherence nor by strong
  closure through a third non-singular leader -/
  lead : ∀ i j, NSL N m i → NSL N m j → j < rowSize i → i ≠ j →
    ¬ (j ≠ cidx i ∧ halfUp fin (eadd (octFull m i (cidx i)) (octFull m (cidx j) j)) ≤ octFull m i j) →
    (∀ k, NSL N m k → k ≠ i → k ≠ j → ¬ eadd (octFull m i k) (octFull m k j) ≤ octFull m i j) →
    nr i j = true
  /-- (s) the 0-cycle through the singular class -/
  sing0 : ∀ s, SingL N m s → nr s (s + 1) = true
  singc : ∀ s a, SingL N m s → a < N → a % 2 = 0 → OZEq m a s → succ (a + 1) ≠ a + 1 → nr (succ (a + 1)) a = true
  singz : ∀ s z, SingL N m s → z < N → z % 2 = 0 → OZEq m z s → succ (z + 1) = z + 1 → nr (z + 1) z = true

section closed
variable {n : Nat} (c : OctM n) (hc : c.IsStronglyClosed)

theorem nsl_iff {lead : Nat → Nat} (hl : IsOctLead (2 * n) c.e lead) (i : Nat) :
    (i < 2 * n ∧ nslP c.e lead i = true) ↔ NSL (2 * n) c.e i := by
  rw [nslP_iff]
  constructor
  · rintro ⟨h1, h2, h3⟩
    exact ⟨h1, fun t ht hz => by have := hl.least i t h1 ht hz; omega, h3⟩
  · rintro ⟨h1, h2, h3⟩
    have := hl.le i h1
    have := h2 (lead i) (by omega) (hl.zeq i h1)
    exact ⟨h1, by omega, h3⟩

include hc in
/-- the singular class is closed under zero-equivalence -/
theorem sing_of_zeq {a s : Nat} (ha : a < 2 * n) (hs : s < 2 * n) (haz : OZEq c.e a s)
    (hsing : OZEq c.e s (cidx s)) : OZEq c.e a (cidx a) :=
  OZEq.trans c hc ha (cidx_lt hs) (cidx_lt ha) (OZEq.trans c hc ha hs (cidx_lt hs) haz hsing)
    (OZEq.cidx haz.symm)

include hc in
theorem oct_kept (nr : BMat) (h : octNonRedundantMatrixEntries upId n c.e = some nr) :
    OctKept (2 * n) c.e (octComputeSuccessors (2 * n) c.e) nr := by
  have hs := octComputeSuccessors_isOctSucc (2 * n) c.e
  have hl := octComputeLeaders_isOctLead c hc
  have hL := oct_leaders4_spec c hc
  rw [octNR_eq] at h
  generalize hsucc : octComputeSuccessors (2 * n) c.e = succ at h hs hL ⊢
  generalize hLL : octComputeLeaders4 (2 * n) succ = L at h hL
  generalize hlead : octComputeLeaders (2 * n) c.e = lead at hl hL
  cases h2 : loopUp L.no_sing_leaders.length (step2Body c.e succ L.no_sing_leaders (2 * n))
      (some (BMat.const false)) with
  | none => rw [h2] at h; cases h
  | some nr2 =>
  rw [h2, Option.bind_some] at h
  have hfin : BLe nr2 nr := singPart_mono _ _ _ _ _ h
  obtain ⟨_, hiter⟩ := loopUp_opt_mono _ (fun li => rfl) (step2Body_mono c.e succ L.no_sing_leaders (2 * n))
    _ _ _ h2
  have hpair : ∀ g, 2 * g + 1 < 2 * n → nslP c.e lead (2 * g) = nslP c.e lead (2 * g + 1) := by
    intro g hg
    have := IsOctLead.pair c hl g
    cases e1 : nslP c.e lead (2 * g) <;> cases e2 : nslP c.e lead (2 * g + 1) <;> (first | (simp_all; done) | (simp_all; omega))
  have hmem : ∀ k, k ∈ L.no_sing_leaders → NSL (2 * n) c.e k := by
    intro k hk
    rw [hL.nsl, List.mem_filter, List.mem_range] at hk
    exact (nsl_iff c hl k).1 hk
  -- the iteration of a non-singular leader
  have hrow : ∀ i, NSL (2 * n) c.e i → ∃ x x1, step2Chain succ (2 * n) i x = some x1 ∧
      BLe (step2Inner c.e L.no_sing_leaders (fpos (nslP c.e lead) i) i x1) nr := by
    intro i hi
    have hP := ((nsl_iff c hl i).2 hi).2
    obtain ⟨g1, g2⟩ := filter_getD_fpos (nslP c.e lead) (2 * n) i hi.lt hP
    rw [← hL.nsl] at g1 g2
    obtain ⟨x, y, hxy, _, hy⟩ := hiter _ g2
    obtain ⟨x1, hx1, rfl⟩ := step2Body_some hxy
    rw [g1] at hx1 hy
    exact ⟨x, x1, hx1, hy.trans hfin⟩
  -- the chain of an even non-singular leader with a class-mate above it
  have hch : ∀ i, NSL (2 * n) c.e i → i % 2 = 0 → succ i ≠ i → ∃ r : BMat × Nat,
      BLe (r.1.put (cidx r.2) (cidx i) true) nr ∧ OZEq c.e r.2 i ∧ succ r.2 = r.2 ∧ r.2 < 2 * n ∧
      ∀ a, i ≤ a → a < 2 * n → OZEq c.e a i → succ a ≠ a → r.1 (succ a) a = true := by
    intro i hi hev hne
    obtain ⟨x, x1, hx1, hle⟩ := hrow i hi
    unfold step2Chain at hx1
    rw [if_pos hev, if_pos (Ne.symm hne)] at hx1
    cases hr : octChain succ (2 * n + 1) i x with
    | none => rw [hr] at hx1; cases hx1
    | some r =>
      rw [hr] at hx1
      cases hx1
      obtain ⟨_, _, i3, i4, i5, i6⟩ := octChain_spec c hc hs _ _ _ r hi.lt hr
      exact ⟨r, (step2Inner_mono _ _ _ _ _).trans hle, i4, i5, i3, i6⟩
  have hne_of : ∀ i a, NSL (2 * n) c.e i → a < 2 * n → OZEq c.e a i → a ≠ i → succ i ≠ i := by
    intro i a hi ha hz hai e
    have := hi.least a ha hz
    exact hs.self i a e (by omega) ha hz
  have hcommon : ∀ s, SingL (2 * n) c.e s → s % 2 = 0 ∧
      (if succ (s + 1) ≠ s + 1 then
        (octSingChain succ (2 * n + 1) s (nr2.put s (s + 1) true)).map fun (nr, j) => nr.put (j + 1) j true
      else some ((nr2.put s (s + 1) true).put (s + 1) s true)) = some nr := by
    intro s hS
    have hex : L.exist_sing_class = true := hL.ex.2 ⟨s, hS.lt, hS.sing⟩
    have hsl : L.sing_leader = s := by
      have h1 := hL.sl_least hex s hS.lt hS.sing
      have h2 := hS.least _ (hL.sl_lt hex) (hL.sl_sing hex)
      omega
    have hev : s % 2 = 0 := hsl ▸ hL.sl_even hex
    unfold singPart at h
    rw [if_pos hex, hsl] at h
    exact ⟨hev, h⟩
  clear h
  refine ⟨?_, ?_, ?_, ?_, ?_, ?_⟩
  · intro i a hi hev ha hz hsa
    have hne : succ i ≠ i := by
      by_cases e : a = i
      · subst e; exact hsa
      · exact hne_of i a hi ha hz e
    obtain ⟨r, r1, _, _, _, r5⟩ := hch i hi hev hne
    exact r1 _ _ (BLe.put _ _ _ _ _ (r5 a (hi.least a ha hz) ha hz hsa))
  · intro i z hi hev hz hzi hsz hne
    obtain ⟨r, r1, r2, r3, r4, _⟩ := hch i hi hev (hne_of i z hi hz hzi hne)
    have hzz : OZEq c.e z r.2 := OZEq.trans c hc hz hi.lt r4 hzi r2.symm
    have : r.2 = z := by
      by_cases h1 : r.2 < z
      · exact absurd hzz (hs.self r.2 z r3 h1 hz)
      · by_cases h2 : z < r.2
        · exact absurd hzz.symm (hs.self z r.2 hsz h2 r4)
        · omega
    rw [← this]
    exact r1 _ _ (BMat.put_self _ _ _)
  · intro i j hi hj hst hij hcoh hclo
    obtain ⟨x, x1, _, hle⟩ := hrow i hi
    have hPi := ((nsl_iff c hl i).2 hi).2
    have hPj := ((nsl_iff c hl j).2 hj).2
    obtain ⟨g1, _⟩ := filter_getD_fpos (nslP c.e lead) (2 * n) j hj.lt hPj
    rw [← hL.nsl] at g1
    have hpos := fpos_le_rs (nslP c.e lead) (2 * n) hpair (by omega) hi.lt hPi hst
    have hadd : octToAdd upId c.e L.no_sing_leaders i j = true :=
      octToAdd_true c.e L.no_sing_leaders hij hst hcoh (fun k hk => hclo k (hmem k hk))
    have := step2Inner_put c.e L.no_sing_leaders (fpos (nslP c.e lead) i) i x1 _ hpos (by rw [g1]; exact hadd)
    rw [g1] at this
    exact hle _ _ this
  · intro s hS
    obtain ⟨hev, h⟩ := hcommon s hS
    split at h
    · cases hr : octSingChain succ (2 * n + 1) s (nr2.put s (s + 1) true) with
      | none => rw [hr] at h; cases h
      | some r =>
        rw [hr] at h; cases h
        exact BLe.put _ _ _ _ _ (octSingChain_mono succ _ _ _ r hr _ _ (BMat.put_self _ _ _))
    · cases h; exact BLe.put _ _ _ _ _ (BMat.put_self _ _ _)
  · intro s a hS ha hae haz hne
    obtain ⟨hev, h⟩ := hcommon s hS
    have hne' : succ (s + 1) ≠ s + 1 := by
      by_cases e : a = s
      · subst e; exact hne
      · intro e'
        have hle := hS.least a ha (sing_of_zeq c hc ha hS.lt haz hS.sing)
        have hz1 : OZEq c.e a (s + 1) := by
          have := OZEq.trans c hc ha hS.lt (cidx_lt hS.lt) haz hS.sing
          rwa [cidx_of_even hev] at this
        exact hs.self (s + 1) a e' (by omega) ha hz1
    rw [if_pos hne'] at h
    cases hr : octSingChain succ (2 * n + 1) s (nr2.put s (s + 1) true) with
    | none => rw [hr] at h; cases h
    | some r =>
      rw [hr] at h; cases h
      obtain ⟨_, _, _, _, _, _, i7⟩ := octSingChain_spec c hc hs _ _ _ r hS.lt hev hS.sing hr
      have hle := hS.least a ha (sing_of_zeq c hc ha hS.lt haz hS.sing)
      exact BLe.put _ _ _ _ _ (i7 a hle ha hae haz hne)
  · intro s a hS ha hae haz hlast
    obtain ⟨hev, h⟩ := hcommon s hS
    split at h
    · cases hr : octSingChain succ (2 * n + 1) s (nr2.put s (s + 1) true) with
      | none => rw [hr] at h; cases h
      | some r =>
        rw [hr] at h; cases h
        obtain ⟨_, _, i3, i4, i5, i6, _⟩ := octSingChain_spec c hc hs _ _ _ r hS.lt hev hS.sing hr
        -- both `a` and `r.2` are the greatest even member
        have hz1 : OZEq c.e a (cidx a) := sing_of_zeq c hc ha hS.lt haz hS.sing
        have hz2 : OZEq c.e r.2 (cidx r.2) := sing_of_zeq c hc i3 hS.lt i5 hS.sing
        rw [cidx_of_even hae] at hz1
        rw [cidx_of_even i4] at hz2
        have har : OZEq c.e a r.2 := OZEq.trans c hc ha hS.lt i3 haz i5.symm
        have : r.2 = a := by
          by_cases h1 : r.2 + 1 < a
          · exact absurd (OZEq.trans c hc ha i3 (by omega) har hz2) (hs.self (r.2 + 1) a i6 h1 ha)
          · by_cases h2 : a + 1 < r.2
            · exact absurd (OZEq.trans c hc i3 ha (by omega) har.symm hz1) (hs.self (a + 1) r.2 hlast h2 i3)
            · omega
        rw [← this]
        exact BMat.put_self _ _ _
    · rename_i hcond
      cases h
      have hz1 : OZEq c.e a (s + 1) := by
        have := OZEq.trans c hc ha hS.lt (cidx_lt hS.lt) haz hS.sing
        rwa [cidx_of_even hev] at this
      have hle := hS.least a ha (sing_of_zeq c hc ha hS.lt haz hS.sing)
      have : a = s := by
        by_cases e : a = s
        · exact e
        · exact absurd hz1 (hs.self (s + 1) a (by simpa using hcond) (by omega) ha)
      subst this
      exact BMat.put_self _ _ _

end closed

end PPLV.WR
