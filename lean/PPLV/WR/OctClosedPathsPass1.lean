import PPLV.WR.OctClosedPathsBase
/-!
# Two passes of weak octagonal steps: the first pass

After the iterations `0, …, h-1` of the first pass every entry is below the weight (in the initial matrix) of every
walk whose inner vertices are distinct, are pivots already processed (`< 2h`) and contain no pair `2g`, `2g+1`.
-/
namespace PPLV.WR
open ExtRat

/-- distinct vertices `< 2h`, no pair -/
def Q1 (h : Nat) (l : List Nat) : Prop := l.Nodup ∧ (∀ v, v ∈ l → v < 2 * h) ∧ PairsBelow 0 l

theorem q1_split {h k : Nat} {l : List Nat} (hl : Q1 (h+1) l) (hk : k ∈ l)
    (hother : ∀ v, v ∈ l → v = 2 * h ∨ v = 2 * h + 1 → v = k) :
    ∃ l1 l2, l = l1 ++ k :: l2 ∧ Q1 h l1 ∧ Q1 h l2 := by
  obtain ⟨hn, hb, hp⟩ := hl
  obtain ⟨l1, l2, rfl, n1, n2, k1, k2⟩ := nodup_split hn hk
  refine ⟨l1, l2, rfl, ⟨n1, fun v hv => ?_, fun g a b => ?_⟩, ⟨n2, fun v hv => ?_, fun g a b => ?_⟩⟩
  · have hv' : v ∈ l1 ++ k :: l2 := List.mem_append_left _ hv
    have h1 := hb v hv'
    have h2 := hother v hv'
    have h3 : v ≠ k := fun e => k1 (e ▸ hv)
    omega
  · exact hp g (List.mem_append_left _ a) (List.mem_append_left _ b)
  · have hv' : v ∈ l1 ++ k :: l2 := List.mem_append_right _ (List.mem_cons_of_mem _ hv)
    have h1 := hb v hv'
    have h2 := hother v hv'
    have h3 : v ≠ k := fun e => k2 (e ▸ hv)
    omega
  · exact hp g (List.mem_append_right _ (List.mem_cons_of_mem _ a))
      (List.mem_append_right _ (List.mem_cons_of_mem _ b))

theorem q1_step (h : Nat) (l : List Nat) (hl : Q1 (h+1) l) :
    Q1 h l ∨ ∃ l1 k l2, l = l1 ++ k :: l2 ∧ (k = 2 * h ∨ k = 2 * h + 1) ∧ Q1 h l1 ∧ Q1 h l2 := by
  by_cases h0 : 2 * h ∈ l
  · have h1 : 2 * h + 1 ∉ l := fun h1 => absurd (hl.2.2 h h0 h1) (by omega)
    obtain ⟨l1, l2, e, q1, q2⟩ := q1_split hl h0 (by
      intro v hv hc
      rcases hc with rfl | rfl
      · rfl
      · exact absurd hv h1)
    exact Or.inr ⟨l1, _, l2, e, Or.inl rfl, q1, q2⟩
  · by_cases h1 : 2 * h + 1 ∈ l
    · obtain ⟨l1, l2, e, q1, q2⟩ := q1_split hl h1 (by
        intro v hv hc
        rcases hc with rfl | rfl
        · exact absurd hv h0
        · rfl)
      exact Or.inr ⟨l1, _, l2, e, Or.inr rfl, q1, q2⟩
    · refine Or.inl ⟨hl.1, fun v hv => ?_, hl.2.2⟩
      have := hl.2.1 v hv
      have a : v ≠ 2 * h := fun e => h0 (e ▸ hv)
      have b : v ≠ 2 * h + 1 := fun e => h1 (e ▸ hv)
      omega

/-- the invariant of the first pass -/
theorem octPass1_inv (n : Nat) (d0 : Mat) : PInv d0 (Q1 n) (octPass n d0) := by
  unfold octPass
  refine octLoopUp_ind (fun h d => PInv d0 (Q1 h) d) n octT d0 ?_ ?_
  · intro i j l hl
    cases l with
    | nil => exact le_rfl' _
    | cons v l => exact absurd (hl.2.1 v List.mem_cons_self) (by omega)
  · intro t _ s hs
    exact pinv_step hs (q1_step t)

end PPLV.WR
