import PPLV.WR.Trans2Lhs
import PPLV.WR.TransProofsPre
import PPLV.WR.TransProofsRefine
import PPLV.WR.TransProofsBndDim
import Mathlib.Tactic.Linarith
import Mathlib.Tactic.FieldSimp
import Mathlib.Tactic.Ring
/-!
# Transformers with an expression on the left-hand side: `Constraint` objects, the forget loop, supports
-/
set_option linter.unusedVariables false
set_option linter.unusedSimpArgs false
namespace PPLV.WR
open ExtRat

/-! ## `Constraint(Linear_Expression&, Type, Topology)`: `strong_normalize` keeps the meaning -/

theorem lhsGcd_dvd_inhomo (cf : Nat → Int) (inhomo : Int) (k : Nat) :
    ((lhsGcd cf inhomo k : Nat) : Int) ∣ inhomo := by
  induction k with
  | zero => simp only [lhsGcd]; exact Int.natCast_dvd.2 (dvd_refl _)
  | succ k ih =>
    simp only [lhsGcd]
    exact dvd_trans (Int.natCast_dvd_natCast.2 (Nat.gcd_dvd_right _ _)) ih

theorem lhsGcd_dvd_cf (cf : Nat → Int) (inhomo : Int) (k : Nat) :
    ∀ i, i < k → ((lhsGcd cf inhomo k : Nat) : Int) ∣ cf i := by
  induction k with
  | zero => intro i hi; omega
  | succ k ih =>
    intro i hi
    simp only [lhsGcd]
    by_cases hik : i = k
    · subst hik
      exact Int.natCast_dvd.2 (Nat.gcd_dvd_left _ _)
    · exact dvd_trans (Int.natCast_dvd_natCast.2 (Nat.gcd_dvd_right _ _)) (ih i (by omega))

theorem lhs_cast_ediv {a g : Int} (hg : g ≠ 0) (h : g ∣ a) : ((a / g : Int) : Rat) = (a : Rat) / (g : Rat) := by
  obtain ⟨c, rfl⟩ := h
  have hg' : (g : Rat) ≠ 0 := by exact_mod_cast hg
  rw [Int.mul_ediv_cancel_left _ hg]
  push_cast
  field_simp

theorem lhs_linEval_div (cf : Nat → Int) (g : Int) (hg : g ≠ 0) (x : Nat → Rat) (k : Nat)
    (hd : ∀ i, i < k → g ∣ cf i) :
    linEval (fun i => cf i / g) x k = linEval cf x k / (g : Rat) := by
  induction k with
  | zero => simp [linEval]
  | succ k ih =>
    simp only [linEval]
    rw [ih (fun i hi => hd i (by omega)), lhs_cast_ediv hg (hd k (by omega))]
    ring

theorem lhs_CSat_scale {cf cf' : Nat → Int} {sd : Nat} {k k' : Int} {kind : CKind} {x : Nat → Rat} {q : Rat}
    (hq : 0 < q) (hv : linEval cf' x sd + (k' : Rat) = (linEval cf x sd + (k : Rat)) / q)
    (h : CSat cf sd k kind x) : CSat cf' sd k' kind x := by
  cases kind <;> simp only [CSat] at h ⊢ <;> rw [hv]
  · rw [h]; simp
  · exact div_nonneg h hq.le
  · exact div_pos h hq

theorem lhs_CSat_neg {cf : Nat → Int} {sd : Nat} {k : Int} {x : Nat → Rat}
    (h : CSat cf sd k .eq x) : CSat (fun i => - cf i) sd (- k) .eq x := by
  simp only [CSat] at h ⊢
  rw [linEval_neg]
  push_cast
  linarith

theorem lhsMkConstraint_sd (sd : Nat) (cf : Nat → Int) (inhomo : Int) (kind : CKind) :
    (lhsMkConstraint sd cf inhomo kind).1 = sd := by
  unfold lhsMkConstraint
  dsimp only
  split_ifs <;> rfl

/-- the normalised `Constraint` object has the same points -/
theorem lhsMkConstraint_sat {sd : Nat} {cf : Nat → Int} {inhomo : Int} {kind : CKind} {x : Nat → Rat}
    (h : CSat cf sd inhomo kind x) :
    CSat (lhsMkConstraint sd cf inhomo kind).2.1 (lhsMkConstraint sd cf inhomo kind).1
      (lhsMkConstraint sd cf inhomo kind).2.2.1 (lhsMkConstraint sd cf inhomo kind).2.2.2 x := by
  have hdi := lhsGcd_dvd_inhomo cf inhomo sd
  have hdc := lhsGcd_dvd_cf cf inhomo sd
  have hgnn : (0 : Int) ≤ ((lhsGcd cf inhomo sd : Nat) : Int) := Int.natCast_nonneg _
  unfold lhsMkConstraint
  dsimp only
  generalize ((lhsGcd cf inhomo sd : Nat) : Int) = g at hdi hdc hgnn ⊢
  have h1 : CSat (if g = 0 ∨ g = 1 then cf else fun i => cf i / g) sd
      (if g = 0 ∨ g = 1 then inhomo else inhomo / g) kind x := by
    by_cases hg : g = 0 ∨ g = 1
    · rw [if_pos hg, if_pos hg]; exact h
    · rw [if_neg hg, if_neg hg]
      have hg0 : g ≠ 0 := fun h0 => hg (Or.inl h0)
      have hgp : (0 : Rat) < (g : Rat) := by exact_mod_cast (lt_of_le_of_ne hgnn (Ne.symm hg0))
      refine lhs_CSat_scale hgp ?_ h
      rw [lhs_linEval_div cf g hg0 x sd hdc, lhs_cast_ediv hg0 hdi]
      ring
  generalize (if g = 0 ∨ g = 1 then cf else fun i => cf i / g) = cf1 at h1 ⊢
  generalize (if g = 0 ∨ g = 1 then inhomo else inhomo / g) = k1 at h1 ⊢
  split
  · rename_i hk
    subst hk
    split
    · exact lhs_CSat_neg h1
    · exact h1
  · exact h1

/-! ## the `Constraint` `lhs relsym rhs` -/

theorem lhs_linEval_max {e : Nat → Int} (y : Nat → Rat) {sd s N : Nat} (hs : sd ≤ s) (hN : s ≤ N)
    (hz : ∀ i, sd ≤ i → i < N → e i = 0) : linEval e y s = linEval e y N :=
  (linEval_zero_above y hN (fun i h1 h2 => hz i (by omega) h2)).symm

/-- a point at which `lhs relsym rhs` holds satisfies the `Constraint` object handed to `refine_no_check` -/
theorem lhsRelConstraint_sat {N : Nat} (rel : RelSym) {sdl sdr : Nat} {el er : Nat → Int} (bl br : Int)
    (hl : sdl ≤ N) (hr : sdr ≤ N) (hzl : ∀ i, sdl ≤ i → i < N → el i = 0)
    (hzr : ∀ i, sdr ≤ i → i < N → er i = 0) {y : Nat → Rat}
    (h : rel.holds (linEval el y N + bl) (linEval er y N + br)) :
    (lhsRelConstraint rel sdl el bl sdr er br).1 ≤ N ∧
    CSat (lhsRelConstraint rel sdl el bl sdr er br).2.1 (lhsRelConstraint rel sdl el bl sdr er br).1
      (lhsRelConstraint rel sdl el bl sdr er br).2.2.1 (lhsRelConstraint rel sdl el bl sdr er br).2.2.2 y := by
  have hmax : max sdl sdr ≤ N := max_le hl hr
  have hmax' : max sdr sdl ≤ N := max_le hr hl
  have e1 : linEval el y (max sdl sdr) = linEval el y N := lhs_linEval_max y (le_max_left _ _) hmax hzl
  have e2 : linEval er y (max sdl sdr) = linEval er y N := lhs_linEval_max y (le_max_right _ _) hmax hzr
  have e3 : linEval el y (max sdr sdl) = linEval el y N := lhs_linEval_max y (le_max_right _ _) hmax' hzl
  have e4 : linEval er y (max sdr sdl) = linEval er y N := lhs_linEval_max y (le_max_left _ _) hmax' hzr
  cases rel with
  | le =>
    have h' : linEval el y N + bl ≤ linEval er y N + br := h
    refine ⟨by simp only [lhsRelConstraint, lhsMkConstraint_sd]; exact hmax', ?_⟩
    simp only [lhsRelConstraint]
    apply lhsMkConstraint_sat
    simp only [CSat]
    rw [linEval_sub, e3, e4]
    push_cast
    linarith
  | eq =>
    have h' : linEval el y N + bl = linEval er y N + br := h
    refine ⟨by simp only [lhsRelConstraint, lhsMkConstraint_sd]; exact hmax, ?_⟩
    simp only [lhsRelConstraint]
    apply lhsMkConstraint_sat
    simp only [CSat]
    rw [linEval_sub, e1, e2]
    push_cast
    linarith
  | ge =>
    have h' : linEval er y N + br ≤ linEval el y N + bl := h
    refine ⟨by simp only [lhsRelConstraint, lhsMkConstraint_sd]; exact hmax, ?_⟩
    simp only [lhsRelConstraint]
    apply lhsMkConstraint_sat
    simp only [CSat]
    rw [linEval_sub, e1, e2]
    push_cast
    linarith

/-- `refine_no_check(lhs relsym rhs)` keeps every point at which the relation holds -/
theorem lhsRefineRel_sound {R : Rnd} (hup : ∀ q, fin q ≤ R.up q) {N : Nat} (rel : RelSym) {sdl sdr : Nat}
    {el er : Nat → Int} (bl br : Int) (hl : sdl ≤ N) (hr : sdr ≤ N) (hzl : ∀ i, sdl ≤ i → i < N → el i = 0)
    (hzr : ∀ i, sdr ≤ i → i < N → er i = 0) {m : Mat} {y : Nat → Rat} (hy : y ∈ γB N m)
    (h : rel.holds (linEval el y N + bl) (linEval er y N + br)) :
    ∃ m', lhsRefineRel R rel sdl el bl sdr er br m = .ok m' ∧ y ∈ γB N m' ∧ MLe m' m := by
  obtain ⟨hsd, hc⟩ := lhsRelConstraint_sat rel bl br hl hr hzl hzr h
  have := refineNoCheck_sound hup hsd _ _ _ m hy hc
  unfold lhsRefineRel
  dsimp only
  generalize refineNoCheck R _ _ _ _ m = o at this ⊢
  cases o with
  | ok m' => exact ⟨m', rfl, this⟩
  | empty => exact this.elim
  | throws => exact this.elim

/-! ## points that agree on the first `N` coordinates -/

theorem lhs_val_congr {N : Nat} {y y' : Nat → Rat} (h : ∀ i, i < N → y' i = y i) :
    ∀ a, a < N + 1 → DBM.val y' a = DBM.val y a := by
  intro a ha
  cases a with
  | zero => rfl
  | succ a => exact h a (by omega)

theorem lhs_holds_congr {N : Nat} {y y' : Nat → Rat} {m : Mat} (h : ∀ i, i < N → y' i = y i)
    (hy : y ∈ γB N m) : y' ∈ γB N m := by
  intro a b hab
  rw [lhs_val_congr h a hab.1, lhs_val_congr h b hab.2]
  exact hy a b hab

/-- the values of an expression agree when the points agree on its support -/
theorem lhs_linEval_support (e : Nat → Int) {y y' : Nat → Rat} {k : Nat}
    (h : ∀ i, i < k → e i ≠ 0 → y' i = y i) : linEval e y' k = linEval e y k := by
  induction k with
  | zero => rfl
  | succ k ih =>
    simp only [linEval]
    rw [ih (fun i hi => h i (by omega))]
    by_cases hk : e k = 0
    · rw [hk]; simp
    · rw [h k (by omega) hk]

/-! ## the forget loop -/

theorem bdsLhsForgetVars_loop (rows : Nat) (vars : List Nat) (a b : Nat) : ∀ (k : Nat) (m : Mat),
    loopDown k (fun i m => forgetAll rows (vars.getD i 0 + 1) m) m a b
      = if ∃ i, i < k ∧ ((a = vars.getD i 0 + 1 ∧ b < rows) ∨ (b = vars.getD i 0 + 1 ∧ a < rows)) then pinf
        else m a b := by
  intro k
  induction k with
  | zero => intro m; simp [loopDown]
  | succ k ih =>
    intro m
    simp only [loopDown]
    rw [ih, forgetAll_apply]
    by_cases h1 : ∃ i, i < k ∧ ((a = vars.getD i 0 + 1 ∧ b < rows) ∨ (b = vars.getD i 0 + 1 ∧ a < rows))
    · obtain ⟨i, hi, hc⟩ := h1
      rw [if_pos ⟨i, hi, hc⟩, if_pos ⟨i, by omega, hc⟩]
    · rw [if_neg h1]
      by_cases h2 : (a = vars.getD k 0 + 1 ∧ b < rows) ∨ (b = vars.getD k 0 + 1 ∧ a < rows)
      · rw [if_pos h2, if_pos ⟨k, by omega, h2⟩]
      · rw [if_neg h2, if_neg]
        rintro ⟨i, hi, hc⟩
        by_cases hik : i = k
        · subst hik; exact h2 hc
        · exact h1 ⟨i, by omega, hc⟩

theorem lhs_mem_getD {vars : List Nat} {u : Nat} (h : u ∈ vars) : ∃ i, i < vars.length ∧ vars.getD i 0 = u := by
  obtain ⟨i, hi, he⟩ := List.getElem_of_mem h
  exact ⟨i, hi, by simp [List.getD_eq_getElem?_getD, hi, he]⟩

/-- after the forget loop every point that differs from a point of the matrix on forgotten variables only
satisfies it -/
theorem holds_bdsLhsForgetVars {N : Nat} {vars : List Nat} {y y' : Nat → Rat} {m : Mat}
    (hy : y ∈ γB N m) (hag : ∀ i, i < N → i ∉ vars → y' i = y i) :
    y' ∈ γB N (bdsLhsForgetVars (N + 1) vars m) := by
  intro a b hab
  unfold bdsLhsForgetVars
  rw [bdsLhsForgetVars_loop]
  split
  · exact le_pinf _
  · rename_i hne
    have key : ∀ c, c < N + 1 → (∀ i, i < vars.length → c ≠ vars.getD i 0 + 1) → DBM.val y' c = DBM.val y c := by
      intro c hc hn
      cases c with
      | zero => rfl
      | succ c =>
        refine hag c (by omega) (fun hmem => ?_)
        obtain ⟨i, hi, he⟩ := lhs_mem_getD hmem
        exact hn i hi (by rw [he])
    rw [key a hab.1 (fun i hi hc => hne ⟨i, hi, Or.inl ⟨hc, hab.2⟩⟩),
      key b hab.2 (fun i hi hc => hne ⟨i, hi, Or.inr ⟨hc, hab.1⟩⟩)]
    exact hy a b hab

theorem lhs_mem_lhsVars {el : Nat → Int} {n i : Nat} : i ∈ lhsVars el n ↔ i < n ∧ el i ≠ 0 := by
  unfold lhsVars
  simp [List.mem_filter]

/-- the loop over `lhs_vars` on an `(N+1)`-row matrix, `n ≤ N` -/
theorem holds_forget_lhsVars {N n : Nat} (hn : n ≤ N) {el : Nat → Int} {y y' : Nat → Rat} {m : Mat}
    (hy : y ∈ γB N m) (hag : ∀ i, i < n → el i = 0 → y' i = y i) (hhi : ∀ i, n ≤ i → i < N → y' i = y i) :
    y' ∈ γB N (bdsLhsForgetVars (N + 1) (lhsVars el n) m) := by
  refine holds_bdsLhsForgetVars hy (fun i hi hmem => ?_)
  rw [lhs_mem_lhsVars] at hmem
  by_cases hin : i < n
  · exact hag i hin (by by_contra h0; exact hmem ⟨hin, h0⟩)
  · exact hhi i (by omega) hi

/-! ## the shape of `lhs` -/

theorem lhs_t0_zero {el : Nat → Int} {n : Nat} (h : exprT el (lastNonzero el n) = 0) :
    ∀ i, i < n → el i = 0 := by
  have hw : lastNonzero el n = 0 := by
    unfold exprT at h
    split at h
    · assumption
    · split at h <;> omega
  intro i hi
  exact lastNonzero_above el n i (by omega) hi

theorem lhs_t1_zero {el : Nat → Int} {n : Nat} (h : exprT el (lastNonzero el n) = 1) :
    lastNonzero el n ≠ 0 ∧ el (lastNonzero el n - 1) ≠ 0 ∧
      ∀ i, i < n → i ≠ lastNonzero el n - 1 → el i = 0 := by
  unfold exprT at h
  split at h
  · omega
  · rename_i hw
    split at h
    · omega
    · rename_i hany
      refine ⟨hw, lastNonzero_ne el n hw, fun i hi hne => ?_⟩
      by_cases hlt : i < lastNonzero el n - 1
      · exact anyNonzeroBelow_false (by simpa using hany) i hlt
      · exact lastNonzero_above el n i (by omega) hi

/-- no common variable (as `have_a_common_variable` on `min` of the two space dimensions decides it) -/
theorem lhs_no_common {el er : Nat → Int} {n : Nat}
    (h : lhsHaveCommonVar el er (min (lhsSpaceDim el n) (lhsSpaceDim er n)) = false) :
    ∀ i, i < n → el i ≠ 0 → er i = 0 := by
  intro i hi hel
  unfold lhsHaveCommonVar at h
  rw [List.any_eq_false] at h
  by_cases hlt : i < min (lhsSpaceDim el n) (lhsSpaceDim er n)
  · have := h i (List.mem_range.2 hlt)
    simp only [Bool.and_eq_true, bne_iff_ne, ne_eq, not_and, not_not] at this
    exact this hel
  · unfold lhsSpaceDim at hlt
    rcases Nat.lt_or_ge i (lastNonzero el n) with h1 | h1
    · exact lastNonzero_above er n i (by omega) hi
    · exact absurd (lastNonzero_above el n i h1 hi) hel

end PPLV.WR
