import PPLV.WR.Trans2Lat
import PPLV.WR.TransProofsMain
import Mathlib.Tactic.Linarith
/-!
# Lattice / dimension operations of `BD_Shape<T>`: generic loop lemmas, closure with the flag
-/
set_option linter.unusedVariables false
namespace PPLV.WR
open ExtRat

theorem latMatExt {a b : Mat} (h : ∀ i j, a i j = b i j) : a = b := by
  cases a with
  | mk fa ba =>
    cases b with
    | mk fb bb =>
      have : fa = fb := by funext i j; exact h i j
      subst this; rfl

/-! ## loops: frame, invariant, the step that decides an observation -/

theorem latLoopUp_inv {α : Type} (Q : α → Prop) {n : Nat} {f : Nat → α → α} {s : α} (h0 : Q s)
    (hs : ∀ k s, k < n → Q s → Q (f k s)) : Q (loopUp n f s) := by
  induction n with
  | zero => exact h0
  | succ n ih =>
    simp only [loopUp]
    exact hs n _ (Nat.lt_succ_self n) (ih (fun k s hk => hs k s (Nat.lt_succ_of_lt hk)))

theorem latLoopDown_inv {α : Type} (Q : α → Prop) {n : Nat} {f : Nat → α → α} {s : α} (h0 : Q s)
    (hs : ∀ k s, k < n → Q s → Q (f k s)) : Q (loopDown n f s) := by
  induction n generalizing s with
  | zero => exact h0
  | succ n ih =>
    simp only [loopDown]
    exact ih (hs n s (Nat.lt_succ_self n) h0) (fun k s hk => hs k s (Nat.lt_succ_of_lt hk))

theorem latLoopUp_frame {α β : Type} (obs : α → β) {n : Nat} {f : Nat → α → α} {s : α}
    (h : ∀ k s, k < n → obs (f k s) = obs s) : obs (loopUp n f s) = obs s :=
  latLoopUp_inv (fun t => obs t = obs s) rfl (fun k t hk ht => by rw [h k t hk]; exact ht)

theorem latLoopDown_frame {α β : Type} (obs : α → β) {n : Nat} {f : Nat → α → α} {s : α}
    (h : ∀ k s, k < n → obs (f k s) = obs s) : obs (loopDown n f s) = obs s :=
  latLoopDown_inv (fun t => obs t = obs s) rfl (fun k t hk ht => by rw [h k t hk]; exact ht)

/-- the observation is decided by step `k0`, which runs in a state satisfying `Q` (an invariant of
the other steps) -/
theorem latLoopUp_cell {α β : Type} (obs : α → β) (Q : α → Prop) {n : Nat} {f : Nat → α → α} {s : α}
    {v : β} {k0 : Nat} (h0 : Q s) (hs : ∀ k s, k < n → k ≠ k0 → Q s → Q (f k s)) (hk0 : k0 < n)
    (hhit : ∀ s, Q s → obs (f k0 s) = v) (hmiss : ∀ k s, k < n → k ≠ k0 → obs (f k s) = obs s) :
    obs (loopUp n f s) = v := by
  induction n with
  | zero => omega
  | succ n ih =>
    simp only [loopUp]
    by_cases hk : k0 = n
    · subst hk
      exact hhit _ (latLoopUp_inv Q h0 (fun k s hk => hs k s (Nat.lt_succ_of_lt hk) (by omega)))
    · rw [hmiss n _ (Nat.lt_succ_self n) (fun h => hk h.symm)]
      exact ih (fun k s hk => hs k s (Nat.lt_succ_of_lt hk)) (by omega)
        (fun k s hk => hmiss k s (Nat.lt_succ_of_lt hk))

theorem latLoopDown_cell {α β : Type} (obs : α → β) (Q : α → Prop) {n : Nat} {f : Nat → α → α} {s : α}
    {v : β} {k0 : Nat} (h0 : Q s) (hs : ∀ k s, k < n → k ≠ k0 → Q s → Q (f k s)) (hk0 : k0 < n)
    (hhit : ∀ s, Q s → obs (f k0 s) = v) (hmiss : ∀ k s, k < n → k ≠ k0 → obs (f k s) = obs s) :
    obs (loopDown n f s) = v := by
  induction n generalizing s with
  | zero => omega
  | succ n ih =>
    simp only [loopDown]
    by_cases hk : k0 = n
    · subst hk
      rw [latLoopDown_frame obs (fun k s hk => hmiss k s (Nat.lt_succ_of_lt hk) (by omega))]
      exact hhit s h0
    · exact ih (hs n s (Nat.lt_succ_self n) (fun h => hk h.symm) h0)
        (fun k s hk => hs k s (Nat.lt_succ_of_lt hk)) (by omega)
        (fun k s hk => hmiss k s (Nat.lt_succ_of_lt hk))

/-! ## `max_assign` -/

theorem latMaxA_ge_left (a b : ExtRat) : a ≤ latMaxA a b := by
  unfold latMaxA; split
  · exact le_rfl' _
  · rcases le_total' a b with h | h
    · exact h
    · contradiction

theorem latMaxA_ge_right (a b : ExtRat) : b ≤ latMaxA a b := by
  unfold latMaxA; split
  · assumption
  · exact le_rfl' _

theorem latMaxA_le {a b c : ExtRat} (h1 : a ≤ c) (h2 : b ≤ c) : latMaxA a b ≤ c := by
  unfold latMaxA; split <;> assumption

/-! ## points -/

theorem latGammaB_iff (n : Nat) (m : Mat) (x : Nat → Rat) :
    x ∈ γB n m ↔ ∀ a b, a ≤ n → b ≤ n → fin (DBM.val x b - DBM.val x a) ≤ m a b := by
  constructor
  · intro h a b ha hb; exact h a b ⟨by omega, by omega⟩
  · intro h a b hab; exact h a b (by have := hab.1; omega) (by have := hab.2; omega)

/-- the class invariant of `BD_Shape::OK()` on a raw matrix: `+∞` on the main diagonal -/
def bdsLatDiag (n : Nat) (m : Mat) : Prop := ∀ i, i ≤ n → m i i = pinf

theorem bdsLatDiag_dbm {n : Nat} (m : DBM n) : bdsLatDiag n m.e := m.diag

/-! ## the closure with the flag -/

theorem latGammaB_ofMat {n : Nat} {m : Mat} {x : Nat → Rat} (hx : x ∈ γB n m) :
    x ∈ DBM.γ (DBM.ofMat n m) :=
  (DBM.sat_iff_holds _ x).2 (holds_diagDown_pinf hx)

theorem bdsLatClose_sound {up : Rat → ExtRat} (hup : ∀ q, fin q ≤ up q) (n : Nat) (c : Bool) (m : Mat)
    {x : Nat → Rat} (hx : x ∈ γB n m) :
    ∃ m' c', bdsLatClose up n c m = some (m', c') ∧ x ∈ γB n m' := by
  unfold bdsLatClose
  split
  · exact ⟨m, true, rfl, hx⟩
  · split
    · exact ⟨m, false, rfl, hx⟩
    · obtain ⟨m', h1, h2⟩ := closeFirst_sound hup false (DBM.ofMat n m) (latGammaB_ofMat hx)
      exact ⟨m', true, by rw [h1]; rfl, h2⟩

/-- the closed matrix denotes a subset (class invariant: `+∞` on the diagonal of the argument) -/
theorem bdsLatClose_sub {up : Rat → ExtRat} (hup : ∀ q, fin q ≤ up q) {n : Nat} {c : Bool} {m : Mat}
    (hd : bdsLatDiag n m) {m' : Mat} {c' : Bool} (h : bdsLatClose up n c m = some (m', c'))
    {x : Nat → Rat} (hx : x ∈ γB n m') : x ∈ γB n m := by
  unfold bdsLatClose at h
  split at h
  · simp only [Option.some.injEq, Prod.mk.injEq] at h; rw [← h.1] at hx; exact hx
  · split at h
    · simp only [Option.some.injEq, Prod.mk.injEq] at h; rw [← h.1] at hx; exact hx
    · unfold closeFirst at h
      simp only [Bool.false_eq_true, if_false] at h
      split at h
      · simp at h
      · simp only [Option.map_some, Option.some.injEq, Prod.mk.injEq] at h
        rw [← h.1] at hx
        intro a b hab
        have h1 := hx a b hab
        have h2 := DBM.closure_le hup (DBM.ofMat n m) a b (by have := hab.1; omega) (by have := hab.2; omega)
        refine le_trans' h1 (le_trans' h2 ?_)
        show Mat.diagDown (n+1) pinf m a b ≤ m a b
        rw [Mat.diagDown_apply]
        split
        · rename_i hc
          obtain ⟨rfl, _⟩ := hc
          rw [hd a (by omega)]; exact le_rfl' _
        · exact le_rfl' _

theorem bdsLatClose_diag {up : Rat → ExtRat} {n : Nat} {c : Bool} {m : Mat}
    (hd : bdsLatDiag n m) {m' : Mat} {c' : Bool} (h : bdsLatClose up n c m = some (m', c')) :
    bdsLatDiag n m' := by
  unfold bdsLatClose at h
  split at h
  · simp only [Option.some.injEq, Prod.mk.injEq] at h; rw [← h.1]; exact hd
  · split at h
    · simp only [Option.some.injEq, Prod.mk.injEq] at h; rw [← h.1]; exact hd
    · unfold closeFirst at h
      simp only [Bool.false_eq_true, if_false] at h
      split at h
      · simp at h
      · simp only [Option.map_some, Option.some.injEq, Prod.mk.injEq] at h
        rw [← h.1]
        exact (DBM.closure up (DBM.ofMat n m)).diag

/-- no point: the closure answers "empty" only for an empty shape -/
theorem bdsLatClose_none {up : Rat → ExtRat} (hup : ∀ q, fin q ≤ up q) {n : Nat} {c : Bool} {m : Mat}
    (h : bdsLatClose up n c m = none) (x : Nat → Rat) : x ∉ γB n m := by
  intro hx
  obtain ⟨m', c', h1, _⟩ := bdsLatClose_sound hup n c m hx
  rw [h] at h1; simp at h1

end PPLV.WR
