import PPLV.WR.Trans2LatProofsExact
import PPLV.WR.TransOct2LatProofsExact
/-!
# `difference_assign`: the join over the pieces keeps every point of every joined piece
-/
set_option linter.unusedVariables false
namespace PPLV.WR
open ExtRat

theorem bdsLatDiffJoin_sound {R : Rnd} (hR : R.Sound) (n : Nat) (acc : Option LatRes) (z : Mat)
    (hacc : ∀ a, acc = some a → a.dim = n) :
    ∃ r, bdsLatDiffJoin R n acc z = some r ∧ r.dim = n ∧
      (∀ p, p ∈ γB n z → p ∈ γB n r.m) ∧ (∀ a, acc = some a → ∀ p, p ∈ γB n a.m → p ∈ γB n r.m) := by
  unfold bdsLatDiffJoin
  cases acc with
  | none => exact ⟨_, rfl, rfl, fun p hp => hp, fun a h => by cases h⟩
  | some a =>
    dsimp only
    -- the join never answers `none`: it answers `none` on no input at all
    have total : ∃ r, bdsLatUpperBound R n a.closed a.m true z = some r ∧ r.dim = n := by
      unfold bdsLatUpperBound
      cases bdsLatClose R.up n true z with
      | none => exact ⟨_, rfl, rfl⟩
      | some yc =>
        obtain ⟨y, cy⟩ := yc
        cases bdsLatClose R.up n a.closed a.m with
        | none => exact ⟨_, rfl, rfl⟩
        | some xc => obtain ⟨x, cx⟩ := xc; exact ⟨_, rfl, rfl⟩
    obtain ⟨r, e, hd⟩ := total
    refine ⟨r, e, hd, fun p hp => ?_, fun a' ha' p hp => ?_⟩
    · obtain ⟨r', e', _, h'⟩ := bdsLatUpperBound_sound hR n a.closed true a.m z (Or.inr hp)
      rw [e] at e'; simp only [Option.some.injEq] at e'; rw [e']; exact h'
    · simp only [Option.some.injEq] at ha'; subst ha'
      obtain ⟨r', e', _, h'⟩ := bdsLatUpperBound_sound hR n a.closed true a.m z (Or.inl hp)
      rw [e] at e'; simp only [Option.some.injEq] at e'; rw [e']; exact h'

/-- the accumulation loop of `difference_assign`: every point of a joined piece is in the result -/
theorem bdsLatDiffFold_sound {R : Rnd} (hR : R.Sound) (n : Nat) (pieces : List (Option Mat))
    (acc : Option LatRes) (hacc : ∀ a, acc = some a → a.dim = n) :
    (∀ a, (pieces.foldl (fun acc z => match z with | none => acc | some z => bdsLatDiffJoin R n acc z) acc)
        = some a → a.dim = n) ∧
    ∀ p, ((∃ a, acc = some a ∧ p ∈ γB n a.m) ∨ (∃ z, some z ∈ pieces ∧ p ∈ γB n z)) →
      ∃ r, pieces.foldl (fun acc z => match z with | none => acc | some z => bdsLatDiffJoin R n acc z) acc
        = some r ∧ p ∈ γB n r.m := by
  induction pieces generalizing acc with
  | nil =>
    refine ⟨hacc, fun p hp => ?_⟩
    rcases hp with ⟨a, ha, hp⟩ | ⟨z, hz, _⟩
    · exact ⟨a, ha, hp⟩
    · simp at hz
  | cons z zs ih =>
    simp only [List.foldl_cons]
    cases z with
    | none =>
      dsimp only
      obtain ⟨h1, h2⟩ := ih acc hacc
      refine ⟨h1, fun p hp => h2 p ?_⟩
      rcases hp with hp | ⟨z, hz, hp⟩
      · exact Or.inl hp
      · rcases List.mem_cons.1 hz with h | h
        · cases h
        · exact Or.inr ⟨z, h, hp⟩
    | some z0 =>
      dsimp only
      obtain ⟨r, e, hd, hz0, hold⟩ := bdsLatDiffJoin_sound hR n acc z0 hacc
      have hacc' : ∀ a, bdsLatDiffJoin R n acc z0 = some a → a.dim = n := by
        intro a ha; rw [e] at ha; simp only [Option.some.injEq] at ha; rw [← ha]; exact hd
      obtain ⟨h1, h2⟩ := ih (bdsLatDiffJoin R n acc z0) hacc'
      refine ⟨h1, fun p hp => h2 p ?_⟩
      rcases hp with ⟨a, ha, hp⟩ | ⟨z, hz, hp⟩
      · exact Or.inl ⟨r, e, hold a ha p hp⟩
      · rcases List.mem_cons.1 hz with h | h
        · simp only [Option.some.injEq] at h; subst h
          exact Or.inl ⟨r, e, hz0 p hp⟩
        · exact Or.inr ⟨z, h, hp⟩

/-- `difference_assign`, control flow: when neither early return fires, every point of every piece that
`is_empty()` did not refute is in the result (every rounding) -/
theorem bdsLatDifference_sound {R : Rnd} (hR : R.Sound) (n : Nat) (hn : n ≠ 0) (c1 c2 : Bool) (m1 m2 : Mat)
    (pieces : List (Option Mat)) {x y : Nat → Rat} (hx : x ∈ γB n m1) (hy : y ∈ γB n m2)
    {z : Mat} (hz : some z ∈ pieces) {p : Nat → Rat} (hp : p ∈ γB n z) :
    ∃ r, bdsLatDifference R n c1 m1 c2 m2 false pieces = some r ∧ p ∈ γB n r.m := by
  unfold bdsLatDifference
  obtain ⟨x', cx, e1, _⟩ := bdsLatClose_sound hR.up_le n c1 m1 hx
  obtain ⟨y', cy, e2, _⟩ := bdsLatClose_sound hR.up_le n c2 m2 hy
  simp only [e1, e2, if_neg hn, Bool.false_eq_true, if_false]
  exact (bdsLatDiffFold_sound hR n pieces none (fun a h => by cases h)).2 p (Or.inr ⟨z, hz, hp⟩)

/-! ## octagons -/

theorem octLatDiffJoin_sound {R : Rnd} (hR : R.Sound) (n : Nat) (acc : Option LatRes) (z : Mat) :
    ∃ r, octLatDiffJoin R n acc z = some r ∧
      (∀ p, p ∈ γO n z → p ∈ γO n r.m) ∧ (∀ a, acc = some a → ∀ p, p ∈ γO n a.m → p ∈ γO n r.m) := by
  unfold octLatDiffJoin
  cases acc with
  | none => exact ⟨_, rfl, fun p hp => hp, fun a h => by cases h⟩
  | some a =>
    dsimp only
    have total : ∃ r, octLatUpperBound R n a.closed a.m true z = some r := by
      unfold octLatUpperBound
      cases octLatClose R.up n true z with
      | none => exact ⟨_, rfl⟩
      | some yc =>
        obtain ⟨y, cy⟩ := yc
        cases octLatClose R.up n a.closed a.m with
        | none => exact ⟨_, rfl⟩
        | some xc => obtain ⟨x, cx⟩ := xc; exact ⟨_, rfl⟩
    obtain ⟨r, e⟩ := total
    refine ⟨r, e, fun p hp => ?_, fun a' ha' p hp => ?_⟩
    · obtain ⟨r', e', _, h'⟩ := octLatUpperBound_sound hR n a.closed true a.m z (Or.inr hp)
      rw [e] at e'; simp only [Option.some.injEq] at e'; rw [e']; exact h'
    · simp only [Option.some.injEq] at ha'; subst ha'
      obtain ⟨r', e', _, h'⟩ := octLatUpperBound_sound hR n a.closed true a.m z (Or.inl hp)
      rw [e] at e'; simp only [Option.some.injEq] at e'; rw [e']; exact h'

theorem octLatDiffFold_sound {R : Rnd} (hR : R.Sound) (n : Nat) (pieces : List (Option Mat))
    (acc : Option LatRes) :
    ∀ p, ((∃ a, acc = some a ∧ p ∈ γO n a.m) ∨ (∃ z, some z ∈ pieces ∧ p ∈ γO n z)) →
      ∃ r, pieces.foldl (fun acc z => match z with | none => acc | some z => octLatDiffJoin R n acc z) acc
        = some r ∧ p ∈ γO n r.m := by
  induction pieces generalizing acc with
  | nil =>
    intro p hp
    rcases hp with ⟨a, ha, hp⟩ | ⟨z, hz, _⟩
    · exact ⟨a, ha, hp⟩
    · simp at hz
  | cons z zs ih =>
    simp only [List.foldl_cons]
    cases z with
    | none =>
      dsimp only
      intro p hp
      refine ih acc p ?_
      rcases hp with hp | ⟨z, hz, hp⟩
      · exact Or.inl hp
      · rcases List.mem_cons.1 hz with h | h
        · cases h
        · exact Or.inr ⟨z, h, hp⟩
    | some z0 =>
      dsimp only
      obtain ⟨r, e, hz0, hold⟩ := octLatDiffJoin_sound hR n acc z0
      intro p hp
      refine ih (octLatDiffJoin R n acc z0) p ?_
      rcases hp with ⟨a, ha, hp⟩ | ⟨z, hz, hp⟩
      · exact Or.inl ⟨r, e, hold a ha p hp⟩
      · rcases List.mem_cons.1 hz with h | h
        · simp only [Option.some.injEq] at h; subst h
          exact Or.inl ⟨r, e, hz0 p hp⟩
        · exact Or.inr ⟨z, h, hp⟩

theorem octLatDifference_sound {R : Rnd} (hR : R.Sound) (n : Nat) (hn : n ≠ 0) (c1 c2 : Bool) (m1 m2 : Mat)
    (pieces : List (Option Mat)) {x : Nat → Rat} (hx : x ∈ γO n m1)
    {z : Mat} (hz : some z ∈ pieces) {p : Nat → Rat} (hp : p ∈ γO n z) :
    ∃ r, octLatDifference R n c1 m1 c2 m2 false pieces = some r ∧ p ∈ γO n r.m := by
  unfold octLatDifference
  obtain ⟨x', cx, e1, _⟩ := octLatClose_sound hR.up_le n c1 m1 hx
  simp only [e1, if_neg hn, Bool.false_eq_true, if_false]
  exact octLatDiffFold_sound hR n pieces none p (Or.inr ⟨z, hz, hp⟩)

end PPLV.WR
