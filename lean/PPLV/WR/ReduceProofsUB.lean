import PPLV.WR.ReduceProofsCodeMain
import PPLV.WR.ReduceProofsMathPreserve
/-!
# `BD_Shape::BHZ09_upper_bound_assign_if_exact`: when the test answers `true` the join is the union

`x`, `y` non-empty closed matrices with their fresh `redundancy_dbm`; `DBM.join x y` is the pointwise maximum
(`upper_bound_assign`).  A point of the join outside both shapes violates a kept entry `(i, j)` of `x` and a kept
entry `(k, ℓ)` of `y` (the kept entries denote the shapes: `bds_reduced_preserves`); then `x_ij < y_ij`,
`y_kℓ < x_kℓ`, and `x_ij + y_kℓ < (p_ℓ - p_i) + (p_j - p_k) ≤ ub_iℓ + ub_kj` (diagonal read as `0`): the test
returns `false` at `(i, j, k, ℓ)`.
-/
namespace PPLV.WR
open ExtRat (fin pinf)

theorem ExtRat.le_maxA_left (a b : ExtRat) : a ≤ ExtRat.maxA a b := by
  unfold ExtRat.maxA; split
  · assumption
  · exact ExtRat.le_rfl' a

theorem ExtRat.le_maxA_right (a b : ExtRat) : b ≤ ExtRat.maxA a b := by
  unfold ExtRat.maxA; split
  · exact ExtRat.le_rfl' b
  · rename_i h
    rcases ExtRat.le_total' a b with h1 | h1
    · exact absurd h1 h
    · exact h1

theorem ExtRat.maxA_cases (a b : ExtRat) : ExtRat.maxA a b = a ∨ ExtRat.maxA a b = b := by
  unfold ExtRat.maxA; split <;> simp

theorem ExtRat.ltB_iff (a b : ExtRat) : ExtRat.ltB a b = true ↔ ¬ (b ≤ a) := by
  unfold ExtRat.ltB; simp

namespace DBM
variable {n : Nat}

/-- `upper_bound_assign`: the pointwise maximum of two matrices -/
def join (x y : DBM n) : DBM n where
  e := matMax x.e y.e
  diag := by
    intro i hi
    show ExtRat.maxA (x.e i i) (y.e i i) = pinf
    rw [x.diag i hi, y.diag i hi]; rfl

theorem join_apply (x y : DBM n) (i j : Nat) : (join x y).e i j = ExtRat.maxA (x.e i j) (y.e i j) := rfl

theorem γ_subset_join_left (x y : DBM n) : DBM.γ x ⊆ DBM.γ (join x y) :=
  fun p hp i j hi hj => ExtRat.le_trans' (hp i j hi hj) (by rw [join_apply]; exact ExtRat.le_maxA_left _ _)

theorem γ_subset_join_right (x y : DBM n) : DBM.γ y ⊆ DBM.γ (join x y) :=
  fun p hp i j hi hj => ExtRat.le_trans' (hp i j hi hj) (by rw [join_apply]; exact ExtRat.le_maxA_right _ _)

end DBM

/-- a valuation outside a shape violates a kept entry of its reduction -/
theorem exists_violated_kept {n : Nat} (c : DBM n) (hc : c.IsClosed) (red : BMat)
    (h : bdsShortestPathReduction upId n c.e = some red) (p : ℕ → ℚ) (hp : p ∉ DBM.γ c) :
    ∃ i j, i ≤ n ∧ j ≤ n ∧ red i j = false ∧ ∃ a : ℚ, c.e i j = fin a ∧ a < DBM.val p j - DBM.val p i := by
  have e := bds_reduced_preserves c hc _ _ (bdsComputeLeaders_spec c hc) (bdsComputePredecessors_spec c) red
    (bdsShortestPathReduction_spec c hc red h)
  rw [← e] at hp
  have hp' : ¬ (c.reduced red).Sat p := hp
  unfold DBM.Sat at hp'
  push Not at hp'
  obtain ⟨i, j, hi, hj, hv⟩ := hp'
  have er : (c.reduced red).e i j = if red i j then pinf else c.e i j := rfl
  rw [er] at hv
  cases hk : red i j with
  | true => rw [hk] at hv; simp at hv
  | false =>
    rw [hk] at hv
    simp only [Bool.false_eq_true, if_false] at hv
    cases hq : c.e i j with
    | pinf => rw [hq] at hv; simp at hv
    | fin a =>
      rw [hq, ExtRat.fin_le_fin] at hv
      exact ⟨i, j, hi, hj, hk, a, hq, by linarith⟩

/-- **`BHZ09_upper_bound_assign_if_exact`, soundness of the answer `true`** -/
theorem bdsBHZ09_sound {n : Nat} (x y : DBM n) (hx : x.IsClosed) (hy : y.IsClosed) (xr yr : BMat)
    (hxr : bdsShortestPathReduction upId n x.e = some xr) (hyr : bdsShortestPathReduction upId n y.e = some yr)
    (ht : bdsBHZ09 upId n x.e y.e xr yr = true) :
    DBM.γ (DBM.join x y) = DBM.γ x ∪ DBM.γ y := by
  apply Set.Subset.antisymm
  · intro p hp
    by_contra hnot
    have hnx : p ∉ DBM.γ x := fun h => hnot (Or.inl h)
    have hny : p ∉ DBM.γ y := fun h => hnot (Or.inr h)
    obtain ⟨i, j, hi, hj, hkx, a, hxa, hva⟩ := exists_violated_kept x hx xr hxr p hnx
    obtain ⟨k, l, hk, hl, hky, b, hyb, hvb⟩ := exists_violated_kept y hy yr hyr p hny
    -- the entry of the join bounds the difference, so the other operand's entry is larger
    have ub_ij := hp i j hi hj
    have ub_kl := hp k l hk hl
    rw [DBM.join_apply] at ub_ij ub_kl
    have c1 : ExtRat.ltB (x.e i j) (y.e i j) = true := by
      rw [ExtRat.ltB_iff, hxa]
      intro hle
      rcases ExtRat.maxA_cases (x.e i j) (y.e i j) with e | e
      · rw [e, hxa, ExtRat.fin_le_fin] at ub_ij; linarith
      · rw [e] at ub_ij
        have := ExtRat.le_trans' ub_ij hle
        rw [ExtRat.fin_le_fin] at this; linarith
    have c2 : ExtRat.ltB (y.e k l) (x.e k l) = true := by
      rw [ExtRat.ltB_iff, hyb]
      intro hle
      rcases ExtRat.maxA_cases (x.e k l) (y.e k l) with e | e
      · rw [e] at ub_kl
        have := ExtRat.le_trans' ub_kl hle
        rw [ExtRat.fin_le_fin] at this; linarith
      · rw [e, hyb, ExtRat.fin_le_fin] at ub_kl; linarith
    -- the test at `(i, j, k, l)`
    unfold bdsBHZ09 at ht
    simp only [List.all_eq_true, List.mem_reverse, List.mem_range] at ht
    have t := ht i (by omega) j (by omega)
    rw [hkx, c1] at t
    simp only [Bool.false_or, Bool.not_true, List.all_eq_true, List.mem_reverse, List.mem_range] at t
    have t2 := t k (by omega) l (by omega)
    rw [hky, c2] at t2
    simp only [Bool.false_or, Bool.not_true, Bool.not_eq_true'] at t2
    have t3 : ¬ (ExtRat.ltB (ExtRat.addUp upId (x.e i j) (y.e k l))
        (ExtRat.addUp upId (if i = l then fin 0 else matMax x.e y.e i l)
          (if k = j then fin 0 else matMax x.e y.e k j)) = true) := by
      rw [t2]; simp
    rw [ExtRat.ltB_iff, not_not, hxa, hyb] at t3
    -- but the two violations add up beyond that sum
    have b1 : fin (DBM.val p l - DBM.val p i) ≤ (if i = l then fin 0 else matMax x.e y.e i l) := by
      split
      · rename_i e; rw [e, sub_self]; exact ExtRat.le_rfl' _
      · exact hp i l hi hl
    have b2 : fin (DBM.val p j - DBM.val p k) ≤ (if k = j then fin 0 else matMax x.e y.e k j) := by
      split
      · rename_i e; rw [e, sub_self]; exact ExtRat.le_rfl' _
      · exact hp k j hk hj
    have s := ExtRat.le_trans' (ExtRat.fin_le_addUp upId_sound b1 b2) t3
    simp only [ExtRat.addUp, upId, ExtRat.fin_le_fin] at s
    linarith
  · intro p hp
    rcases hp with hp | hp
    · exact DBM.γ_subset_join_left x y hp
    · exact DBM.γ_subset_join_right x y hp

end PPLV.WR
