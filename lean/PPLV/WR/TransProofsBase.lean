import PPLV.WR.Trans
import PPLV.WR.ClosureProofsDeduce
import Mathlib.Tactic.Linarith
import Mathlib.Tactic.FieldSimp
/-!
# Sign-case transformers of `BD_Shape<T>`: hypotheses on the rounding, basic lemmas

`Rnd.Sound R` collects the one-sided facts that the rounding directions of the code guarantee;
`CoeffExact R e` says that the absolute values of the coefficients of `e` are representable in `T`
(the side condition that excludes the open findings about coefficient-side rounding).
-/
set_option linter.unusedVariables false
set_option linter.unusedSimpArgs false
namespace PPLV.WR
open ExtRat

/-- what `ROUND_UP` / `ROUND_DOWN` guarantee -/
structure Rnd.Sound (R : Rnd) : Prop where
  up_le : ∀ x : Rat, fin x ≤ R.up x
  dn_pos : ∀ y : Rat, 1 ≤ y → 0 < R.dn y
  dn_le : ∀ y : Rat, 1 ≤ y → R.dn y ≤ y
  addMul_le : ∀ s c a : Rat, fin (s + c * a) ≤ R.addMul s c a

/-- the absolute values of all (non-zero) coefficients are representable:
`assign_r(coeff_i, ±sc_i, ROUND_UP)` is exact -/
def CoeffExact (R : Rnd) (e : Nat → Int) : Prop :=
  ∀ i, e i ≠ 0 → R.up ((absI (e i) : Int) : Rat) = fin ((absI (e i) : Int) : Rat)

/-- `t relsym q` -/
def RelSym.holds : RelSym → Rat → Rat → Prop
  | .le, t, q => t ≤ q
  | .ge, t, q => q ≤ t
  | .eq, t, q => t = q

theorem absI_neg (a : Int) : absI (-a) = absI a := by
  unfold absI; split_ifs <;> omega

theorem absI_pos {a : Int} (h : a > 0) : absI a = a := by unfold absI; simp [h]
theorem absI_neg' {a : Int} (h : a < 0) : absI a = -a := by unfold absI; rw [if_neg (by omega)]
theorem absI_nonneg (a : Int) : 0 ≤ absI a := by unfold absI; split_ifs <;> omega

theorem CoeffExact.neg {R : Rnd} {e : Nat → Int} (h : CoeffExact R e) : CoeffExact R (fun i => - e i) := by
  intro i hi; simp only [absI_neg]; exact h i (by simpa using hi)

theorem CoeffExact.sc {R : Rnd} {e : Nat → Int} (h : CoeffExact R e) (den : Int) : CoeffExact R (scExpr e den) := by
  intro i hi; unfold scExpr at hi ⊢; split
  · rename_i hd; rw [if_pos hd] at hi; exact h i hi
  · rename_i hd; rw [if_neg hd] at hi; simp only [absI_neg]; exact h i (by simpa using hi)

theorem Rnd.exact_sound : Rnd.exact.Sound :=
  ⟨upId_sound, fun y hy => by simp [Rnd.exact]; linarith, fun y _ => le_refl _, fun s c a => le_rfl' _⟩

theorem Rnd.exact_coeff (e : Nat → Int) : CoeffExact Rnd.exact e := fun _ _ => rfl

theorem Rnd.ceil_sound : Rnd.ceil.Sound := by
  refine ⟨upCeil_sound, fun y hy => ?_, fun y _ => ?_, fun s c a => upCeil_sound _⟩
  · simp only [Rnd.ceil]
    have : (1 : Int) ≤ y.floor := Rat.le_floor_iff.2 (by exact_mod_cast hy)
    have : (1 : Rat) ≤ (y.floor : Rat) := by exact_mod_cast this
    linarith
  · simp only [Rnd.ceil]; exact Rat.floor_le y

theorem Rnd.ceil_coeff (e : Nat → Int) : CoeffExact Rnd.ceil e := by
  intro i _
  simp only [Rnd.ceil, upCeil]
  have : ((absI (e i) : Int) : Rat).ceil = absI (e i) := Rat.ceil_intCast _
  rw [this]

/-! ## points -/

theorem val_upd (x : Nat → Rat) (var : Nat) (t : Rat) (a : Nat) :
    DBM.val (upd x var t) a = if a = var + 1 then t else DBM.val x a := by
  cases a with
  | zero => simp [DBM.val]
  | succ a =>
    simp only [DBM.val, upd]
    by_cases h : a = var
    · simp [h]
    · simp [h]

theorem holds_set {S : Nat → Nat → Prop} {p : Nat → Rat} {m : Mat} {i j : Nat} {k : ExtRat}
    (h : Holds S p m) (hk : S i j → fin (p j - p i) ≤ k) : Holds S p (m.set i j k) := by
  intro a b hab
  simp only [Mat.set_apply]
  split
  · rename_i hc; obtain ⟨rfl, rfl⟩ := hc; exact hk hab
  · exact h a b hab

theorem holds_addDbm {S : Nat → Nat → Prop} {p : Nat → Rat} {m : Mat} {i j : Nat} {k : ExtRat}
    (h : Holds S p m) (hk : S i j → fin (p j - p i) ≤ k) : Holds S p (addDbmConstraint m i j k) := by
  unfold addDbmConstraint
  split
  · exact h
  · exact holds_set h hk

theorem addDbm_apply (m : Mat) (i j : Nat) (k : ExtRat) (a b : Nat) :
    addDbmConstraint m i j k a b = if a = i ∧ b = j then minA (m i j) k else m a b := by
  unfold addDbmConstraint minA
  by_cases hle : m i j ≤ k
  · simp only [if_pos hle]
    split
    · rename_i hc; obtain ⟨rfl, rfl⟩ := hc; rfl
    · rfl
  · simp only [if_neg hle, Mat.set_apply]

/-! ## `forget_all_dbm_constraints`, `forget_binary_dbm_constraints` -/

theorem forgetAll_apply (rows v : Nat) (m : Mat) (a b : Nat) :
    forgetAll rows v m a b = if (a = v ∧ b < rows) ∨ (b = v ∧ a < rows) then pinf else m a b := by
  unfold forgetAll
  induction rows generalizing m with
  | zero => simp [loopDown]
  | succ k ih =>
    simp only [loopDown]
    rw [ih]
    simp only [Mat.set_apply]
    by_cases h1 : (a = v ∧ b < k) ∨ (b = v ∧ a < k)
    · rw [if_pos h1, if_pos (by omega)]
    · rw [if_neg h1]
      by_cases h2 : a = k ∧ b = v
      · rw [if_pos h2, if_pos (by omega)]
      · rw [if_neg h2]
        by_cases h3 : a = v ∧ b = k
        · rw [if_pos h3, if_pos (by omega)]
        · rw [if_neg h3, if_neg (by omega)]

theorem forgetBinary_apply (rows v : Nat) (m : Mat) (a b : Nat) :
    forgetBinary rows v m a b
      = if (a = v ∧ 0 < b ∧ b < rows) ∨ (b = v ∧ 0 < a ∧ a < rows) then pinf else m a b := by
  unfold forgetBinary
  cases rows with
  | zero => simp [loopDown]
  | succ r =>
    simp only [Nat.add_sub_cancel]
    induction r generalizing m with
    | zero => simp [loopDown]; intro h; omega
    | succ k ih =>
      simp only [loopDown]
      rw [ih]
      simp only [Mat.set_apply]
      by_cases h1 : (a = v ∧ 0 < b ∧ b < k + 1) ∨ (b = v ∧ 0 < a ∧ a < k + 1)
      · rw [if_pos h1, if_pos (by omega)]
      · rw [if_neg h1]
        by_cases h2 : a = k + 1 ∧ b = v
        · rw [if_pos h2, if_pos (by omega)]
        · rw [if_neg h2]
          by_cases h3 : a = v ∧ b = k + 1
          · rw [if_pos h3, if_pos (by omega)]
          · rw [if_neg h3, if_neg (by omega)]

/-- after `forget_all_dbm_constraints(v)` the point with a new value for `Variable(v-1)` satisfies the matrix -/
theorem holds_forgetAll {n var : Nat} {x : Nat → Rat} {m : Mat} (h : Holds (SB (n+1)) (DBM.val x) m)
    (t : Rat) : Holds (SB (n+1)) (DBM.val (upd x var t)) (forgetAll (n+1) (var+1) m) := by
  intro a b hab
  rw [forgetAll_apply]
  split
  · exact le_pinf _
  · rename_i hc
    have ha : a ≠ var + 1 := by intro h; apply hc; left; exact ⟨h, hab.2⟩
    have hb : b ≠ var + 1 := by intro h; apply hc; right; exact ⟨h, hab.1⟩
    rw [val_upd, val_upd, if_neg ha, if_neg hb]
    exact h a b hab

/-! ## expressions -/

theorem linEval_congr {e e' : Nat → Int} (x : Nat → Rat) {k : Nat} (h : ∀ i, i < k → e i = e' i) :
    linEval e x k = linEval e' x k := by
  induction k with
  | zero => rfl
  | succ k ih =>
    simp only [linEval]
    rw [ih (fun i hi => h i (by omega)), h k (by omega)]

theorem linEval_zero_above {e : Nat → Int} (x : Nat → Rat) {w n : Nat} (hwn : w ≤ n)
    (h : ∀ i, w ≤ i → i < n → e i = 0) : linEval e x n = linEval e x w := by
  induction n with
  | zero => have : w = 0 := by omega
            subst this; rfl
  | succ k ih =>
    by_cases hk : w = k + 1
    · rw [hk]
    · simp only [linEval]
      rw [h k (by omega) (by omega), ih (by omega) (fun i h1 h2 => h i h1 (by omega))]
      simp

/-- coefficient function with the coefficient of id `p` removed -/
def zeroAt (g : Nat → Int) (p : Nat) : Nat → Int := fun i => if i = p then 0 else g i

theorem linEval_zeroAt (g : Nat → Int) (x : Nat → Rat) {p k : Nat} (hp : p < k) :
    linEval g x k = linEval (zeroAt g p) x k + (g p : Rat) * x p := by
  induction k with
  | zero => omega
  | succ k ih =>
    simp only [linEval]
    by_cases h : p = k
    · subst h
      rw [linEval_congr x (e := zeroAt g p) (e' := g) (fun i hi => by simp [zeroAt]; intro h; omega)]
      simp [zeroAt]
    · rw [ih (by omega)]
      simp only [zeroAt, if_neg (Ne.symm h)]
      ring

theorem lastNonzero_le (e : Nat → Int) (n : Nat) : lastNonzero e n ≤ n := by
  induction n with
  | zero => simp [lastNonzero]
  | succ k ih => simp only [lastNonzero]; split <;> omega

theorem lastNonzero_above (e : Nat → Int) (n : Nat) : ∀ i, lastNonzero e n ≤ i → i < n → e i = 0 := by
  induction n with
  | zero => intro i _ h; omega
  | succ k ih =>
    intro i h1 h2
    simp only [lastNonzero] at h1
    split at h1
    · omega
    · rename_i hk
      by_cases hik : i = k
      · subst hik; simpa using hk
      · exact ih i h1 (by omega)

theorem lastNonzero_ne (e : Nat → Int) (n : Nat) (h : lastNonzero e n ≠ 0) : e (lastNonzero e n - 1) ≠ 0 := by
  induction n with
  | zero => simp [lastNonzero] at h
  | succ k ih =>
    simp only [lastNonzero] at h ⊢
    split
    · simpa using ‹e k ≠ 0›
    · rename_i hk; rw [if_neg hk] at h; exact ih h

theorem anyNonzeroBelow_false {e : Nat → Int} {k : Nat} (h : anyNonzeroBelow e k = false) :
    ∀ i, i < k → e i = 0 := by
  induction k with
  | zero => intro i hi; omega
  | succ k ih =>
    simp only [anyNonzeroBelow, Bool.or_eq_false_iff, bne_eq_false_iff_eq] at h
    intro i hi
    by_cases hik : i = k
    · subst hik; exact h.1
    · exact ih h.2 i (by omega)

/-- the expression only mentions the first `w = last_nonzero` variables -/
theorem linEval_last (e : Nat → Int) (x : Nat → Rat) (n : Nat) :
    linEval e x n = linEval e x (lastNonzero e n) :=
  linEval_zero_above x (lastNonzero_le e n) (lastNonzero_above e n)

theorem linEval_all_zero {e : Nat → Int} (x : Nat → Rat) {k : Nat} (h : ∀ i, i < k → e i = 0) :
    linEval e x k = 0 := by
  induction k with
  | zero => rfl
  | succ k ih => simp only [linEval]; rw [ih (fun i hi => h i (by omega)), h k (by omega)]; simp

/-- `t == 0`: the expression is constant -/
theorem linEval_t0 {e : Nat → Int} (x : Nat → Rat) {n : Nat} (h : exprT e (lastNonzero e n) = 0) :
    linEval e x n = 0 := by
  rw [linEval_last]
  unfold exprT at h
  split at h
  · rename_i hw; rw [hw]; rfl
  · split at h <;> omega

/-- `t == 1`: the expression has the single term `a * w` -/
theorem linEval_t1 {e : Nat → Int} (x : Nat → Rat) {n : Nat} (h : exprT e (lastNonzero e n) = 1) :
    lastNonzero e n ≠ 0 ∧
    linEval e x n = (e (lastNonzero e n - 1) : Rat) * x (lastNonzero e n - 1) := by
  unfold exprT at h
  split at h
  · omega
  · rename_i hw
    split at h
    · omega
    · rename_i hany
      refine ⟨hw, ?_⟩
      rw [linEval_last]
      obtain ⟨k, hk⟩ : ∃ k, lastNonzero e n = k + 1 := ⟨lastNonzero e n - 1, by omega⟩
      rw [hk]
      simp only [Nat.add_sub_cancel, linEval]
      rw [linEval_all_zero x (anyNonzeroBelow_false (by simpa [hk] using hany))]
      simp

/-! ## rounded operations -/

theorem fin_le_divRoundUp {R : Rnd} (hR : R.Sound) {a : Rat} {x y : Int} (h : a ≤ (x : Rat) / (y : Rat)) :
    fin a ≤ divRoundUp R x y := le_trans' (fin_le_fin.2 h) (hR.up_le _)

theorem fin_le_addUp' {R : Rnd} (hR : R.Sound) {x y : Rat} {a b : ExtRat} (ha : fin x ≤ a) (hb : fin y ≤ b) :
    fin (x + y) ≤ addUp R.up a b := fin_le_addUp hR.up_le ha hb

/-- `div_round_up_by_positive`: an upper bound divided by a positive integer -/
theorem fin_le_divRUBP {R : Rnd} (hR : R.Sound) {s' : Rat} {sum : ExtRat} {y : Int} (hy : 0 < y)
    (h : fin s' ≤ sum) : fin (s' / (y : Rat)) ≤ divRoundUpByPositive R sum y := by
  have hy' : (0 : Rat) < y := by exact_mod_cast hy
  have hy1 : (1 : Rat) ≤ y := by exact_mod_cast hy
  unfold divRoundUpByPositive
  cases sum with
  | pinf => exact le_pinf _
  | fin s =>
    have hs : s' ≤ s := fin_le_fin.1 h
    have h1 : s' / (y : Rat) ≤ s / y := div_le_div_of_nonneg_right hs hy'.le
    dsimp only
    split
    · rename_i hneg
      cases hu : R.up (y : Rat) with
      | pinf =>
        dsimp only
        refine fin_le_fin.2 (le_trans h1 ?_)
        exact le_of_lt (by rw [div_lt_iff₀ hy']; linarith)
      | fin ay =>
        dsimp only
        have hay : (y : Rat) ≤ ay := by have := hR.up_le (y : Rat); rw [hu] at this; exact fin_le_fin.1 this
        refine le_trans' (fin_le_fin.2 (le_trans h1 ?_)) (hR.up_le _)
        have hay' : 0 < ay := lt_of_lt_of_le hy' hay
        rw [div_le_div_iff₀ hy' hay']
        nlinarith
    · rename_i hnn
      have hnn := not_lt.1 hnn
      refine le_trans' (fin_le_fin.2 (le_trans h1 ?_)) (hR.up_le _)
      have hd0 := hR.dn_pos _ hy1
      have hd1 := hR.dn_le _ hy1
      rw [div_le_div_iff₀ hy' hd0]
      nlinarith

/-- one `add_mul_assign_r(sum, coeff, approx, ROUND_UP)` step with a representable coefficient -/
theorem fin_le_addMulUp {R : Rnd} (hR : R.Sound) {s' t c A : Rat} {sum : ExtRat} (hs : fin s' ≤ sum)
    (ht : t ≤ c * A) : fin (s' + t) ≤ addMulUp R sum (fin c) (fin A) := by
  cases sum with
  | pinf => exact le_pinf _
  | fin s =>
    have : s' ≤ s := fin_le_fin.1 hs
    exact le_trans' (fin_le_fin.2 (by linarith)) (hR.addMul_le s c A)

end PPLV.WR
