import PPLV.WR.ReduceProofsUBCompleteJoin
import PPLV.WR.ReduceProofsUBCompleteEdge
/-!
# `BD_Shape::BHZ09_upper_bound_assign_if_exact`: when the test answers `false` the union is not a shape

`x`, `y` non-empty closed matrices over `ℚ`, arbitrary bit matrices.  The answer `false` exhibits
`(i, j, k, ℓ)` with `x_ij < y_ij`, `y_kℓ < x_kℓ` and `x_ij + y_kℓ < ub_iℓ + ub_kj` (diagonal of the join read
as `0`).  For a small `ε > 0` the join `U` (closed: `DBM.join_isClosed`) tightened by
`p_j - p_i ≥ x_ij + ε` and `p_ℓ - p_k ≥ y_kℓ + ε` is still closed (`Closed.addEdge` twice: the first edge is
compatible because `x_ij + ε ≤ U_ij`, the second because `y_kℓ + ε ≤ U_kℓ` and
`x_ij + y_kℓ + 2ε ≤ U_iℓ + U_kj`), hence has a point: a point of the join outside both operands
(`bdsBHZ09_witness`).  As a union that is a bounded-difference shape is the join (`DBM.join_of_union_eq`), the
union is not a bounded-difference shape (`bdsBHZ09_complete`).
-/
namespace PPLV.WR
open ExtRat (fin pinf)

/-- the tuple at which the four nested loops return `false` (whatever the redundancy bits are) -/
theorem bdsBHZ09_false_tuple (n : Nat) (x y : Mat) (xr yr : BMat)
    (ht : bdsBHZ09 upId n x y xr yr = false) :
    ∃ i j k l, i ≤ n ∧ j ≤ n ∧ k ≤ n ∧ l ≤ n ∧
      ExtRat.ltB (x i j) (y i j) = true ∧ ExtRat.ltB (y k l) (x k l) = true ∧
      ExtRat.ltB (eadd (x i j) (y k l))
        (eadd (if i = l then fin 0 else matMax x y i l) (if k = j then fin 0 else matMax x y k j)) = true := by
  unfold bdsBHZ09 at ht
  simp only [List.all_eq_false, List.mem_reverse, List.mem_range, Bool.or_eq_true, not_or,
    Bool.not_eq_true', Bool.not_eq_true, Bool.not_eq_false] at ht
  obtain ⟨i, hi, j, hj, ⟨_, h1⟩, k, hk, l, hl, ⟨_, h2⟩, h3⟩ := ht
  exact ⟨i, j, k, l, by omega, by omega, by omega, by omega, h1, h2, h3⟩

/-- a strict bound leaves room -/
theorem ExtRat.exists_gap {e : ExtRat} {q : Rat} (h : ¬ (e ≤ fin q)) : ∃ g : Rat, 0 < g ∧ fin (q + g) ≤ e := by
  cases e with
  | pinf => exact ⟨1, one_pos, ExtRat.le_pinf _⟩
  | fin u =>
    rw [ExtRat.fin_le_fin, not_le] at h
    exact ⟨u - q, by linarith, by rw [ExtRat.fin_le_fin]; linarith⟩

theorem ExtRat.ltB_fin_left {a b : ExtRat} (h : ExtRat.ltB a b = true) : ∃ q, a = fin q := by
  cases a with
  | fin q => exact ⟨q, rfl⟩
  | pinf => rw [ExtRat.ltB_iff] at h; exact absurd (ExtRat.le_pinf b) h

/-- the reads `if i = l then 0 else ub[i][l]` of the code are the entries of the join with zero diagonal -/
theorem DBM.join_z_read {n : Nat} (x y : DBM n) {i l : Nat} (hi : i ≤ n) :
    (if i = l then fin 0 else matMax x.e y.e i l) = (DBM.join x y).z i l := by
  split
  · rename_i e; rw [← e, DBM.z_self _ hi]
  · rename_i e; rw [DBM.z_ne _ e]; rfl

/-- compatibility of a lower bound `q ≤ p_b - p_a` with the entry `(a, b)` -/
theorem fin_zero_le_eadd_neg {q : Rat} {e : ExtRat} (h : fin q ≤ e) : fin 0 ≤ eadd (fin (-q)) e := by
  cases e with
  | pinf => exact ExtRat.le_pinf _
  | fin u =>
    rw [ExtRat.fin_le_fin] at h
    simp only [eadd, ExtRat.addUp, ExtRat.fin_le_fin]
    linarith

/-- the second edge against the path through the first one -/
theorem fin_le_path {a b ε : Rat} {A B : ExtRat} (h : fin (a + b + 2 * ε) ≤ eadd A B) :
    fin (b + ε) ≤ eadd B (eadd (fin (-(a + ε))) A) := by
  cases A <;> cases B <;> simp_all [eadd, ExtRat.addUp]
  linarith

/-- **the answer `false` exhibits a point of the join outside both operands** -/
theorem bdsBHZ09_witness {n : Nat} (x y : DBM n) (hx : x.IsClosed) (hy : y.IsClosed) (xr yr : BMat)
    (ht : bdsBHZ09 upId n x.e y.e xr yr = false) :
    ∃ p, p ∈ DBM.γ (DBM.join x y) ∧ p ∉ DBM.γ x ∧ p ∉ DBM.γ y := by
  obtain ⟨i, j, k, l, hi, hj, hk, hl, h1, h2, h3⟩ := bdsBHZ09_false_tuple n x.e y.e xr yr ht
  obtain ⟨a, hxa⟩ := ExtRat.ltB_fin_left h1
  obtain ⟨b, hyb⟩ := ExtRat.ltB_fin_left h2
  have hij : i ≠ j := by
    rintro rfl
    rw [x.diag i hi] at hxa
    exact ExtRat.noConfusion hxa
  have hkl : k ≠ l := by
    rintro rfl
    rw [y.diag k hk] at hyb
    exact ExtRat.noConfusion hyb
  have hJ : Closed (n+1) (DBM.join x y).z := (DBM.join_isClosed hx hy).closed
  -- the three strict inequalities, read on the join with zero diagonal
  rw [DBM.join_z_read x y hi, DBM.join_z_read x y hk, ExtRat.ltB_iff, hxa, hyb] at h3
  rw [ExtRat.ltB_iff, hxa] at h1
  rw [ExtRat.ltB_iff, hyb] at h2
  have h1' : ¬ ((DBM.join x y).z i j ≤ fin a) := fun h =>
    h1 (ExtRat.le_trans' (by rw [DBM.z_ne _ hij, DBM.join_apply]; exact ExtRat.le_maxA_right _ _) h)
  have h2' : ¬ ((DBM.join x y).z k l ≤ fin b) := fun h =>
    h2 (ExtRat.le_trans' (by rw [DBM.z_ne _ hkl, DBM.join_apply]; exact ExtRat.le_maxA_left _ _) h)
  have h3' : ¬ (eadd ((DBM.join x y).z i l) ((DBM.join x y).z k j) ≤ fin (a + b)) := h3
  obtain ⟨g1, g1pos, hg1⟩ := ExtRat.exists_gap h1'
  obtain ⟨g2, g2pos, hg2⟩ := ExtRat.exists_gap h2'
  obtain ⟨g3, g3pos, hg3⟩ := ExtRat.exists_gap h3'
  -- the margin
  obtain ⟨ε, εpos, e1, e2, e3⟩ : ∃ ε : Rat, 0 < ε ∧ ε ≤ g1 ∧ ε ≤ g2 ∧ 2 * ε ≤ g3 := by
    refine ⟨min g1 (min g2 (g3 / 2)), lt_min g1pos (lt_min g2pos (by linarith)), min_le_left _ _,
      le_trans (min_le_right _ _) (min_le_left _ _), ?_⟩
    have : min g1 (min g2 (g3 / 2)) ≤ g3 / 2 := le_trans (min_le_right _ _) (min_le_right _ _)
    linarith
  have f1 : fin (a + ε) ≤ (DBM.join x y).z i j :=
    ExtRat.le_trans' (by rw [ExtRat.fin_le_fin]; linarith) hg1
  have f2 : fin (b + ε) ≤ (DBM.join x y).z k l :=
    ExtRat.le_trans' (by rw [ExtRat.fin_le_fin]; linarith) hg2
  have f3 : fin (a + b + 2 * ε) ≤ eadd ((DBM.join x y).z i l) ((DBM.join x y).z k j) :=
    ExtRat.le_trans' (by rw [ExtRat.fin_le_fin]; linarith) hg3
  -- first edge: `p_i - p_j ≤ -(a + ε)`
  have hc1 : Closed (n+1) ((DBM.join x y).z.addEdge j i (-(a + ε))) :=
    hJ.addEdge (by omega) (by omega) _ (fin_zero_le_eadd_neg f1)
  -- second edge: `p_k - p_l ≤ -(b + ε)`
  have f4 : fin (b + ε) ≤ ((DBM.join x y).z.addEdge j i (-(a + ε))) k l :=
    ExtRat.le_minA f2 (fin_le_path f3)
  have hc2 : Closed (n+1) (((DBM.join x y).z.addEdge j i (-(a + ε))).addEdge l k (-(b + ε))) :=
    hc1.addEdge (by omega) (by omega) _ (fin_zero_le_eadd_neg f4)
  obtain ⟨q, hq⟩ := hc2.nonempty
  -- the potential satisfies the join and the two edges
  have q2 : fin (q k - q l) ≤ fin (-(b + ε)) :=
    ExtRat.le_trans' (hq l k ⟨by omega, by omega⟩) (hc1.addEdge_edge (by omega) (by omega) _)
  have q1 : fin (q i - q j) ≤ fin (-(a + ε)) :=
    ExtRat.le_trans' (hq j i ⟨by omega, by omega⟩)
      (ExtRat.le_trans' (Mat.addEdge_le _ _ _ _ _ _) (hJ.addEdge_edge (by omega) (by omega) _))
  have qJ : Holds (SB (n+1)) q (DBM.join x y).z := fun u v huv =>
    ExtRat.le_trans' (hq u v huv)
      (ExtRat.le_trans' (Mat.addEdge_le _ _ _ _ _ _) (Mat.addEdge_le _ _ _ _ _ _))
  rw [ExtRat.fin_le_fin] at q1 q2
  obtain ⟨p, hp, hv⟩ := (DBM.join x y).point_of_z qJ
  refine ⟨p, hp, fun hpx => ?_, fun hpy => ?_⟩
  · have := hpx i j hi hj
    rw [hv, hv, hxa, ExtRat.fin_le_fin] at this
    linarith
  · have := hpy k l hk hl
    rw [hv, hv, hyb, ExtRat.fin_le_fin] at this
    linarith

/-- **`BHZ09_upper_bound_assign_if_exact`, completeness of the answer `false`**: the join has a point outside
both operands, and the union of the two shapes is not a bounded-difference shape -/
theorem bdsBHZ09_complete {n : Nat} (x y : DBM n) (hx : x.IsClosed) (hy : y.IsClosed) (xr yr : BMat)
    (ht : bdsBHZ09 upId n x.e y.e xr yr = false) :
    (∃ p, p ∈ DBM.γ (DBM.join x y) ∧ p ∉ DBM.γ x ∧ p ∉ DBM.γ y) ∧
    ¬ ∃ Q : DBM n, DBM.γ Q = DBM.γ x ∪ DBM.γ y := by
  have hw := bdsBHZ09_witness x y hx hy xr yr ht
  refine ⟨hw, ?_⟩
  rintro ⟨Q, hQ⟩
  obtain ⟨p, hp, hpx, hpy⟩ := hw
  rw [DBM.join_of_union_eq hx hy Q hQ] at hp
  rcases hp with hp | hp
  · exact hpx hp
  · exact hpy hp

/-- the test decides exactness of the join: with the fresh redundancy matrices of the two (closed, non-empty)
operands, the answer is `true` iff the join is the union -/
theorem bdsBHZ09_iff {n : Nat} (x y : DBM n) (hx : x.IsClosed) (hy : y.IsClosed) (xr yr : BMat)
    (hxr : bdsShortestPathReduction upId n x.e = some xr) (hyr : bdsShortestPathReduction upId n y.e = some yr) :
    bdsBHZ09 upId n x.e y.e xr yr = true ↔ DBM.γ (DBM.join x y) = DBM.γ x ∪ DBM.γ y := by
  constructor
  · exact bdsBHZ09_sound x y hx hy xr yr hxr hyr
  · intro h
    cases ht : bdsBHZ09 upId n x.e y.e xr yr with
    | true => rfl
    | false =>
      exfalso
      obtain ⟨p, hp, hpx, hpy⟩ := bdsBHZ09_witness x y hx hy xr yr ht
      rw [h] at hp
      rcases hp with hp | hp
      · exact hpx hp
      · exact hpy hp

end PPLV.WR
