import PPLV.WR.TransOct2ProofsBounded
/-!
# `Octagonal_Shape<T>::bounded_affine_image`: the lower-bound kernel on a matrix whose unary cells only DECREASED

The general case of `bounded_affine_image` accumulates `-lb_expr` over the unary cells of the closed matrix `m0`,
then applies the upper bound (an inner `generalized_affine_image(var, ≤, ub_expr, den)`, which may end with
`incremental_strong_closure_assign`) and only then runs "exploit the lower approximation" — whose
`deduce_minus_v_pm_u_bounds` reads the unary cells of the NEW matrix `m1`.  The cells of the variables other than
`var` only decrease through the inner call (`octGenAffineImageCore_unaryLe`); with a MONOTONE rounding the rounded
box of `m1` is contained in that of `m0`, so the sum is still an upper bound over it.
-/
set_option linter.unusedVariables false
set_option linter.unusedSimpArgs false
set_option linter.unusedTactic false
set_option linter.unusedSectionVars false
namespace PPLV.WR
open ExtRat

/-- the unary cells of the variables other than `vid` of `m1` are below those of `m0` -/
def OctUnaryLe (n vid : Nat) (m1 m0 : Mat) : Prop :=
  ∀ u, u < n → u ≠ vid →
    m1 (2 * u + 1) (2 * u) ≤ m0 (2 * u + 1) (2 * u) ∧ m1 (2 * u) (2 * u + 1) ≤ m0 (2 * u) (2 * u + 1)

theorem octUnaryLe_of_eq {n vid : Nat} {m1 m0 : Mat} (h : OUnaryEq vid m1 m0) : OctUnaryLe n vid m1 m0 := by
  intro u _ hu; rw [(h u hu).1, (h u hu).2]; exact ⟨le_rfl' _, le_rfl' _⟩

theorem octLe_fin {a : ExtRat} {q : Rat} (h : a ≤ fin q) : ∃ q', a = fin q' ∧ q' ≤ q := by
  cases a with
  | pinf => exact absurd h (not_pinf_le_fin q)
  | fin q' => exact ⟨q', rfl, fin_le_fin.1 h⟩

theorem octHalfUp_mono {up : Rat → ExtRat} (hmono : ∀ a b : Rat, a ≤ b → up a ≤ up b) {a b : ExtRat} (h : a ≤ b) :
    halfUp up a ≤ halfUp up b := by
  cases b with
  | pinf => exact le_pinf _
  | fin q =>
    obtain ⟨q', rfl, hq⟩ := octLe_fin h
    exact hmono _ _ (by linarith)

/-- `deduceMinusVPmU_pinf_holds` asking the halving fact only for the cells that are read -/
theorem octDeduceMinusVPmU_pinf_holds {up : Rat → ExtRat} {n : Nat} {m : Mat} {vid last : Nat} {e : Nat → Int}
    {d : Int} {x' : Nat → Rat}
    (hh : ∀ u, u < last + 1 → u ≠ vid →
      (e u > 0 → ∀ q, m (2 * u) (2 * u + 1) = fin q → up (q / 2) ≠ pinf) ∧
      (e u < 0 → ∀ q, m (2 * u + 1) (2 * u) = fin q → up (q / 2) ≠ pinf))
    (hx' : Holds (SO n) (OctM.oval x') m)
    (hp : ∀ u, u < last + 1 → u ≠ vid → e u > 0 → m (2 * u) (2 * u + 1) ≠ pinf)
    (hn : ∀ u, u < last + 1 → u ≠ vid → e u < 0 → m (2 * u + 1) (2 * u) ≠ pinf) :
    Holds (SO n) (OctM.oval x') (deduceMinusVPmU up vid last e d pinf m) := by
  suffices h : OInv n x' m (deduceMinusVPmU up vid last e d pinf m) from h.1
  unfold deduceMinusVPmU
  refine loopUp_rel (fun a b => OInv n x' m a → OInv n x' m b) (fun _ h => h)
    (fun _ _ _ h1 h2 h => h2 (h1 h)) (last + 1) _ ?_ m ⟨hx', fun _ => ⟨rfl, rfl⟩⟩
  intro u hu m' hI
  unfold deduceMinusVPmUStep
  simp only [Nat.mul_comm u 2]
  split; exact hI
  split; exact hI
  rename_i h0 huv
  rw [(hI.2 u).1, (hI.2 u).2]
  split
  · rename_i hpos
    split
    · rw [subUp_pinf_half (fun q hq => (hh u hu huv).1 hpos q hq) (hp u hu huv hpos)]
      split
      · exact hI.set (by intro w; omega) (le_pinf _)
      · exact hI.set (by intro w; omega) (le_pinf _)
    · split
      · exact hI
      · rw [addUp_pinf_left]
        split
        · exact hI.set (by intro w; omega) (le_pinf _)
        · exact hI.set (by intro w; omega) (le_pinf _)
  · rename_i hnpos
    have hneg : e u < 0 := by omega
    split
    · rw [subUp_pinf_half (fun q hq => (hh u hu huv).2 hneg q hq) (hn u hu huv hneg)]
      split
      · exact hI.set (by intro w; omega) (le_pinf _)
      · exact hI.set (by intro w; omega) (le_pinf _)
    · split
      · exact hI
      · rw [addUp_pinf_left]
        split
        · exact hI.set (by intro w; omega) (le_pinf _)
        · exact hI.set (by intro w; omega) (le_pinf _)

section
variable {R : Rnd} {n vid wid : Nat} {m0 : Mat} {sc : Nat → Int} {scd : Int} {Bq tval : Rat} {x : Nat → Rat}

/-- `olower_deduce` on a matrix whose unary cells are below those of `m0`; monotone rounding -/
theorem octLower_deduce_mono (hR : R.Sound) (hmono : ∀ a b : Rat, a ≤ b → R.up a ≤ R.up b)
    (hh : HalfFiniteOn R.up m0) (hw : wid < n) (hd : 0 < scd)
    (hx : Holds (SO n) (OctM.oval x) m0) (htv : (linEval sc x (wid + 1) + Bq) / scd ≤ tval)
    {m' : Mat} (hx' : Holds (SO n) (OctM.oval (upd x vid tval)) m') (hle : OctUnaryLe n vid m' m0)
    {sum : ExtRat}
    (hc0 : ∀ y, OBox R.up m0 (wid + 1) y → fin (-Bq + linEval (fun i => - sc i) y (wid + 1)) ≤ sum)
    (hfp : ∀ i, i < wid + 1 → - sc i > 0 → m0 (2 * i + 1) (2 * i) ≠ pinf)
    (hfn : ∀ i, i < wid + 1 → - sc i < 0 → m0 (2 * i) (2 * i + 1) ≠ pinf)
    {s : ExtRat} (hs : ∀ S' : Rat, fin S' ≤ sum → fin (S' / (scd : Rat)) ≤ s) :
    Holds (SO n) (OctM.oval (upd x vid tval)) (deduceMinusVPmU R.up vid wid sc scd s m') := by
  -- a finite cell of `m0` stays finite in `m'`, and its half does not overflow
  have hfin : ∀ {a b : ExtRat}, a ≤ b → b ≠ pinf → (∀ q, b = fin q → R.up (q / 2) ≠ pinf) →
      a ≠ pinf ∧ ∀ q, a = fin q → R.up (q / 2) ≠ pinf := by
    intro a b hab hb hbq
    cases b with
    | pinf => exact absurd rfl hb
    | fin q0 =>
      obtain ⟨q', rfl, hq⟩ := octLe_fin hab
      refine ⟨by simp, fun q hq' => ?_⟩
      have : q = q' := by injection hq' with h; exact h.symm
      subst this
      intro hp
      have := hmono (q / 2) (q0 / 2) (by linarith)
      rw [hp] at this
      cases h2 : R.up (q0 / 2) with
      | pinf => exact hbq q0 rfl h2
      | fin z => rw [h2] at this; exact absurd this (not_pinf_le_fin z)
  cases s with
  | pinf =>
    refine octDeduceMinusVPmU_pinf_holds ?_ hx' ?_ ?_
    · intro u hu huv
      have hun : u < n := by omega
      refine ⟨fun hp => ?_, fun hp => ?_⟩
      · exact (hfin (hle u hun huv).2 (hfn u hu (by omega)) (fun q hq => hh u q (Or.inr hq))).2
      · exact (hfin (hle u hun huv).1 (hfp u hu (by omega)) (fun q hq => hh u q (Or.inl hq))).2
    · intro u hu huv hp
      exact (hfin (hle u (by omega) huv).2 (hfn u hu (by omega)) (fun q hq => hh u q (Or.inr hq))).1
    · intro u hu huv hp
      exact (hfin (hle u (by omega) huv).1 (hfp u hu (by omega)) (fun q hq => hh u q (Or.inl hq))).1
  | fin c =>
    refine deduceMinusVPmU_holds hR.up_le hd hw hx' (upd_frame x vid tval) (by simpa [upd] using htv) ?_
    intro y hyv hyb
    have hbox : OBox R.up m0 (wid + 1) y := by
      intro i hi
      by_cases hiv : i = vid
      · subst hiv; rw [hyv]; exact obox_of_holds hR hx (by omega) i hi
      · have := hyb i hi hiv
        have hl := hle i (by omega) hiv
        exact ⟨le_trans' this.1 (octHalfUp_mono hmono hl.1), le_trans' this.2 (octHalfUp_mono hmono hl.2)⟩
    have := hs _ (hc0 y hbox)
    rw [linEval_neg] at this
    have e1 : (-Bq + -linEval sc y (wid + 1)) / (scd : Rat) = -((linEval sc y (wid + 1) + Bq) / scd) := by ring
    rw [e1] at this
    exact fin_le_fin.1 this

/-- `octExploitLower_holds` on a matrix whose unary cells are below those of `m0`; monotone rounding -/
theorem octExploitLower_holds_mono (hR : R.Sound) (hmono : ∀ a b : Rat, a ≤ b → R.up a ≤ R.up b)
    (hh : HalfFiniteOn R.up m0) (hw : wid < n) (hd : 0 < scd)
    (hx : Holds (SO n) (OctM.oval x) m0) (htv : (linEval sc x (wid + 1) + Bq) / scd ≤ tval)
    {m1 : Mat} (hx' : Holds (SO n) (OctM.oval (upd x vid tval)) m1) (hle : OctUnaryLe n vid m1 m0)
    {neg : Acc} (hinv : OAccInv R.up m0 (wid + 1) (fun i => - sc i) (-Bq) (wid + 1) neg) :
    Holds (SO n) (OctM.oval (upd x vid tval)) (octExploitLower R vid wid sc scd neg m1) := by
  unfold octExploitLower
  dsimp only
  have hs : ∀ S' : Rat, fin S' ≤ neg.sum →
      fin (S' / (scd : Rat)) ≤ (if scd ≠ 1 then divRoundUpByPositive R neg.sum scd else neg.sum) :=
    fun S' h => fin_le_quot hR hd h
  split
  · split
    · rename_i h0
      refine octLower_deduce_mono hR hmono hh hw hd hx htv ?_ ?_ (hinv.c0 h0) (hinv.f0p h0) (hinv.f0n h0) hs
      · refine holds_set hx' (fun _ => ?_)
        rw [oval_upd_v, oval_upd_cv]
        have := hs _ (hinv.c0 h0 x (obox_of_holds hR hx (by omega)))
        rw [linEval_neg] at this
        have e1 : (-Bq + -linEval sc x (wid + 1)) / (scd : Rat) = -((linEval sc x (wid + 1) + Bq) / scd) := by ring
        rw [e1] at this
        have h2 := fin_le_mulTwoUp hR.up_le (le_trans' (fin_le_fin.2 (by linarith : -tval ≤ _)) this)
        have e : -tval - tval = 2 * -tval := by ring
        rw [e]; exact h2
      · intro u hun hu
        simp only [Mat.set_apply]
        rw [if_neg (by omega), if_neg (by omega)]
        exact hle u hun hu
    · rename_i h0
      have h1 : neg.cnt = 1 := by omega
      obtain ⟨hi, hc1⟩ := hinv.c1 h1
      have hb := hs _ (hc1 x (obox_of_holds hR hx (by omega)))
      split
      · rename_i hpv
        split
        · rename_i hsc
          have hv := le_trans' (fin_le_fin.2 (osingle_low_pos hd htv hi hsc)) hb
          split
          · refine holds_set hx' (fun _ => ?_)
            rw [oval_upd_v, oval_upd_u x tval hpv]; exact hv
          · refine holds_set hx' (fun _ => ?_)
            rw [oval_upd_cv, oval_upd_cu x tval hpv]
            have e : -tval - -x neg.idx = x neg.idx - tval := by ring
            rw [e]; exact hv
        · split
          · rename_i hsc
            have hv := le_trans' (fin_le_fin.2 (osingle_low_neg hd htv hi hsc)) hb
            split
            · refine holds_set hx' (fun _ => ?_)
              rw [oval_upd_v, oval_upd_cu x tval hpv]; exact hv
            · refine holds_set hx' (fun _ => ?_)
              rw [oval_upd_cv, oval_upd_u x tval hpv]
              have e : -tval - x neg.idx = -x neg.idx - tval := by ring
              rw [e]; exact hv
          · exact hx'
      · exact hx'
  · exact hx'

end

end PPLV.WR
