import PPLV.WR.ReduceOctProofsPreserveUnary
import PPLV.WR.ReduceOctProofsPreserveClass
import PPLV.WR.ReduceOctProofsPreserveSing
/-!
# Octagon reduction keeps every point (O4): `γ (strong_reduction_assign c) = γ c`

Stages (l) pairs of non-singular leaders, (g) arbitrary non-singular indices through their leaders, (x) the
singular class against anything, then the theorem for the code-shaped model.
-/
namespace PPLV.WR
open ExtRat (fin pinf addUp halfUp)

section ctx
variable {n : Nat} {c : OctM n} {succ : Nat → Nat} {nr : BMat} {p : Nat → Rat} (X : RCtx c succ nr p)
include X

/-- stage (l): all pairs of non-singular leaders -/
theorem RCtx.ok_leaders {a b : Nat} (ha : NSL (2 * n) c.e a) (hb : NSL (2 * n) c.e b) (hne : a ≠ b) :
    Ok c.e p a b := by
  refine X.ok_of_family (fun a b => NSL (2 * n) c.e a ∧ NSL (2 * n) c.e b ∧ a ≠ b) (fun a b h => h)
    ?_ ?_ a b ⟨ha, hb, hne⟩
  · rintro a b ⟨ha, hb, _⟩ ⟨_, hco⟩
    have h2 := X.ok_unary (cidx b) (NSL.cidx hb)
    rw [cidx_cidx] at h2
    exact Ok.of_coh X.hp (X.ok_unary a ha) h2 hco
  · rintro a b k ⟨ha, hb, _⟩ hk hka hkb _ _
    exact ⟨⟨ha, hk, Ne.symm hka⟩, ⟨hk, hb, hkb⟩⟩

omit X in
/-- a non-singular index has a leader -/
theorem exists_nsl (hc : c.IsStronglyClosed) {a : Nat} (ha : a < 2 * n) (hns : ¬ OZEq c.e a (cidx a)) :
    ∃ i, NSL (2 * n) c.e i ∧ OZEq c.e a i := by
  obtain ⟨i, ⟨h1, h2⟩, hmin⟩ := exists_least (fun t => t < 2 * n ∧ OZEq c.e t a) ⟨a, ha, OZEq.refl _ _⟩
  refine ⟨i, ⟨h1, fun t ht hz => ?_, fun hs => hns (sing_of_zeq c hc ha h1 h2.symm hs)⟩, h2.symm⟩
  by_cases hh : t < i
  · exact absurd ⟨ht, OZEq.trans c hc ht h1 ha hz h2⟩ (hmin t hh)
  · omega

/-- stage (g): two indices outside the singular class -/
theorem RCtx.ok_nonsing {a b : Nat} (ha : a < 2 * n) (hb : b < 2 * n) (hna : ¬ OZEq c.e a (cidx a))
    (hnb : ¬ OZEq c.e b (cidx b)) : Ok c.e p a b := by
  obtain ⟨la, hla, hza⟩ := exists_nsl X.hc ha hna
  obtain ⟨lb, hlb, hzb⟩ := exists_nsl X.hc hb hnb
  by_cases e : la = lb
  · subst e; exact X.class_ok hla ha hb hza hzb
  · have h1 : Ok c.e p a la := X.class_ok hla ha hla.lt hza (OZEq.refl _ _)
    have h2 : Ok c.e p la lb := X.ok_leaders hla hlb e
    have h3 : Ok c.e p lb b := X.class_ok hlb hlb.lt hb (OZEq.refl _ _) hzb
    have h4 : Ok c.e p a lb := by
      refine Ok.trans h1 h2 ?_
      rw [zeq_add_left X.hc ha hla.lt hlb.lt hza]; exact ExtRat.le_rfl' _
    refine Ok.trans h4 h3 ?_
    rw [zeq_add_right X.hc ha hlb.lt hb hzb.symm]; exact ExtRat.le_rfl' _

omit X in
theorem exists_singL (hc : c.IsStronglyClosed) {a : Nat} (ha : a < 2 * n) (hs : OZEq c.e a (cidx a)) :
    ∃ s, SingL (2 * n) c.e s ∧ OZEq c.e a s := by
  obtain ⟨s, ⟨h1, h2⟩, hmin⟩ := exists_least (fun t => t < 2 * n ∧ OZEq c.e t (cidx t)) ⟨a, ha, hs⟩
  refine ⟨s, ⟨h1, h2, fun t ht hz => ?_⟩, OZEq.sing_unique c hc ha h1 hs h2⟩
  by_cases hh : t < s
  · exact absurd ⟨ht, hz⟩ (hmin t hh)
  · omega

/-- every unary cell -/
theorem RCtx.ok_unary_all {b : Nat} (hb : b < 2 * n) : Ok c.e p (cidx b) b := by
  by_cases sb : OZEq c.e b (cidx b)
  · obtain ⟨s, hS, hz⟩ := exists_singL X.hc hb sb
    exact Pin.unary X.hp (X.sing_pin hS hb hz)
  · exact X.ok_nonsing (cidx_lt hb) hb (fun h => sb (by rw [cidx_cidx] at h; exact h.symm)) sb

/-- every full-view cell holds -/
theorem RCtx.ok_all {a b : Nat} (ha : a < 2 * n) (hb : b < 2 * n) : Ok c.e p a b := by
  by_cases sa : OZEq c.e a (cidx a)
  · obtain ⟨s, hS, hz⟩ := exists_singL X.hc ha sa
    exact ok_of_pin X.hc X.hp ha hb (X.sing_pin hS ha hz) (X.ok_unary_all hb)
  by_cases sb : OZEq c.e b (cidx b)
  · have sb' : OZEq c.e (cidx b) (cidx (cidx b)) := by rw [cidx_cidx]; exact sb.symm
    obtain ⟨s, hS, hz⟩ := exists_singL X.hc (cidx_lt hb) sb'
    exact Ok.twin X.hp (ok_of_pin X.hc X.hp (cidx_lt hb) (cidx_lt ha) (X.sing_pin hS (cidx_lt hb) hz)
      (X.ok_unary_all (cidx_lt ha)))
  · exact X.ok_nonsing ha hb sa sb

end ctx

/-- O4: `strong_reduction_assign` keeps the set of points -/
theorem oct_reduction_preserves {n : Nat} (c : OctM n) (hc : c.IsStronglyClosed) (nr : BMat)
    (h : octNonRedundantMatrixEntries upId n c.e = some nr) : OctM.γ (c.reduced nr) = OctM.γ c := by
  have hred : ∀ i j, (c.reduced nr).e i j = if nr i j then c.e i j else pinf := fun _ _ => rfl
  ext x
  show (c.reduced nr).Sat x ↔ c.Sat x
  constructor
  · intro hx
    have X : RCtx c (octComputeSuccessors (2 * n) c.e) nr (OctM.oval x) :=
      ⟨hc, octComputeSuccessors_isOctSucc (2 * n) c.e, oct_kept c hc nr h, coh_oval x, fun i j hi hj hn => by
        have := hx i j hi hj
        rw [hred, if_pos hn] at this
        exact this⟩
    intro i j hi hj
    by_cases e : i = j
    · subst e; rw [c.diag i hi]; exact ExtRat.le_pinf _
    · have hj' : j < 2 * n := Nat.lt_of_lt_of_le hj (rowSize_le hi)
      rw [raw_eq_octFull c.e hj e]
      exact X.ok_all hi hj'
  · intro hx i j hi hj
    rw [hred]
    split
    · exact hx i j hi hj
    · exact ExtRat.le_pinf _

end PPLV.WR
