import PPLV.WR.Closure
import Mathlib.Tactic.Linarith
import Mathlib.Tactic.Ring
import Mathlib.Algebra.Order.Field.Rat
import Mathlib.Data.Set.Basic
/-!
# Closure kernels: order lemmas on `ExtRat`, the generic step invariant and the loop rules

`Holds S p m` : the potential `p` (value of every matrix index at a point) satisfies every entry of
`m` at the index pairs `S` (the stored ones).  `Pres S p m m'` : the step `m ↦ m'` keeps every such
potential and only lowers entries.  Every kernel is a loop nest whose body is `Pres`.
-/
namespace PPLV.WR
open ExtRat (fin pinf minA addUp subUp halfUp)

namespace ExtRat

@[simp] theorem le_pinf (a : ExtRat) : a ≤ pinf := by cases a <;> rfl
@[simp] theorem fin_le_fin {a b : Rat} : (fin a ≤ fin b) ↔ a ≤ b := by
  show leB (fin a) (fin b) = true ↔ _
  simp [leB]
@[simp] theorem not_pinf_le_fin (a : Rat) : ¬ (pinf ≤ fin a) := by
  show ¬ (leB pinf (fin a) = true)
  simp [leB]

theorem le_rfl' (a : ExtRat) : a ≤ a := by cases a <;> simp
theorem le_trans' {a b c : ExtRat} (h1 : a ≤ b) (h2 : b ≤ c) : a ≤ c := by
  cases a <;> cases b <;> cases c <;> simp_all
  exact le_trans h1 h2
theorem le_total' (a b : ExtRat) : a ≤ b ∨ b ≤ a := by
  cases a <;> cases b <;> simp
  exact le_total _ _

theorem minA_le_left (a b : ExtRat) : minA a b ≤ a := by
  unfold minA; split
  · exact le_rfl' a
  · rcases le_total' a b with h | h
    · contradiction
    · exact h
theorem minA_le_right (a b : ExtRat) : minA a b ≤ b := by
  unfold minA; split
  · assumption
  · exact le_rfl' b
theorem le_minA {c a b : ExtRat} (h1 : c ≤ a) (h2 : c ≤ b) : c ≤ minA a b := by
  unfold minA; split <;> assumption

theorem isPinf_iff (a : ExtRat) : a.isPinf = true ↔ a = pinf := by cases a <;> simp [isPinf]

theorem fin_le_addUp {up : Rat → ExtRat} (hup : ∀ x, fin x ≤ up x) {x y : Rat} {a b : ExtRat}
    (h1 : fin x ≤ a) (h2 : fin y ≤ b) : fin (x + y) ≤ addUp up a b := by
  cases a <;> cases b <;> simp [addUp] at *
  exact le_trans' (fin_le_fin.2 (add_le_add h1 h2)) (hup _)

theorem fin_le_halfUp {up : Rat → ExtRat} (hup : ∀ x, fin x ≤ up x) {x : Rat} {a : ExtRat}
    (h1 : fin x ≤ a) : fin (x / 2) ≤ halfUp up a := by
  cases a <;> simp [halfUp] at *
  exact le_trans' (fin_le_fin.2 (by linarith)) (hup _)

theorem isNeg_iff (a : ExtRat) : a.isNeg = true ↔ ∃ q, a = fin q ∧ q < 0 := by
  cases a <;> simp [isNeg]

end ExtRat

open ExtRat

/-! ## loops -/

theorem loopDown_rel {α : Type} (R : α → α → Prop) (hr : ∀ a, R a a)
    (ht : ∀ a b c, R a b → R b c → R a c) (n : Nat) (f : Nat → α → α)
    (hf : ∀ i, i < n → ∀ a, R a (f i a)) (a : α) : R a (loopDown n f a) := by
  induction n generalizing a with
  | zero => exact hr a
  | succ n ih =>
    simp only [loopDown]
    exact ht _ _ _ (hf n (Nat.lt_succ_self n) a) (ih (fun i hi => hf i (Nat.lt_succ_of_lt hi)) _)

theorem loopUp_rel {α : Type} (R : α → α → Prop) (hr : ∀ a, R a a)
    (ht : ∀ a b c, R a b → R b c → R a c) (n : Nat) (f : Nat → α → α)
    (hf : ∀ i, i < n → ∀ a, R a (f i a)) (a : α) : R a (loopUp n f a) := by
  induction n with
  | zero => exact hr a
  | succ n ih =>
    simp only [loopUp]
    exact ht _ _ _ (ih (fun i hi => hf i (Nat.lt_succ_of_lt hi))) (hf n (Nat.lt_succ_self n) _)

/-! ## the step invariant -/

/-- the potential `p` satisfies every entry of `m` on the index pairs `S` -/
def Holds (S : Nat → Nat → Prop) (p : Nat → Rat) (m : Mat) : Prop :=
  ∀ a b, S a b → fin (p b - p a) ≤ m a b

/-- entrywise `≤` on raw matrices -/
def MLe (m' m : Mat) : Prop := ∀ a b, m' a b ≤ m a b

/-- the step `m ↦ m'` keeps every potential in `P` that satisfied `m` and only lowers entries -/
def Pres (S : Nat → Nat → Prop) (P : (Nat → Rat) → Prop) (m m' : Mat) : Prop :=
  (∀ p, P p → Holds S p m → Holds S p m') ∧ MLe m' m

namespace Pres
variable {S : Nat → Nat → Prop} {P : (Nat → Rat) → Prop}

theorem refl (m : Mat) : Pres S P m m := ⟨fun _ _ h => h, fun _ _ => le_rfl' _⟩
theorem trans {a b c : Mat} (h1 : Pres S P a b) (h2 : Pres S P b c) : Pres S P a c :=
  ⟨fun p hp h => h2.1 p hp (h1.1 p hp h), fun i j => le_trans' (h2.2 i j) (h1.2 i j)⟩

theorem ite {a x y : Mat} (c : Prop) [Decidable c] (hx : Pres S P a x) (hy : Pres S P a y) :
    Pres S P a (if c then x else y) := by split <;> assumption

theorem loopDown (n : Nat) (f : Nat → Mat → Mat) (hf : ∀ i, i < n → ∀ a, Pres S P a (f i a)) (a : Mat) :
    Pres S P a (loopDown n f a) :=
  loopDown_rel (Pres S P) refl (fun _ _ _ => trans) n f hf a

theorem loopUp (n : Nat) (f : Nat → Mat → Mat) (hf : ∀ i, i < n → ∀ a, Pres S P a (f i a)) (a : Mat) :
    Pres S P a (loopUp n f a) :=
  loopUp_rel (Pres S P) refl (fun _ _ _ => trans) n f hf a

/-- storing at `(i,j)` a value below the old one that still bounds `p j - p i` -/
theorem set {m : Mat} {i j : Nat} {v : ExtRat} (hle : v ≤ m i j)
    (hb : ∀ p, P p → Holds S p m → S i j → fin (p j - p i) ≤ v) : Pres S P m (m.set i j v) := by
  constructor
  · intro p hp h a b hab
    simp only [Mat.set_apply]
    split
    · rename_i hc
      obtain ⟨rfl, rfl⟩ := hc
      exact hb p hp h hab
    · exact h a b hab
  · intro a b
    simp only [Mat.set_apply]
    split
    · rename_i hc
      obtain ⟨rfl, rfl⟩ := hc
      exact hle
    · exact le_rfl' _

end Pres

/-- `Pres` only for soundness at a point set `P`, forgetting the index domain: change of `P` -/
theorem Pres.mono {S : Nat → Nat → Prop} {P Q : (Nat → Rat) → Prop} (hPQ : ∀ p, Q p → P p) {m m' : Mat}
    (h : Pres S P m m') : Pres S Q m m' := ⟨fun p hp => h.1 p (hPQ p hp), h.2⟩

theorem Holds.negDiag_false {S : Nat → Nat → Prop} {p : Nat → Rat} {m : Mat} {k : Nat}
    (hS : ∀ h, h < k → S h h) (h : Holds S p m) : m.negDiag k = false := by
  cases hnd : m.negDiag k with
  | false => rfl
  | true =>
    exfalso
    simp only [Mat.negDiag, List.any_eq_true, List.mem_range] at hnd
    obtain ⟨i, hi, hneg⟩ := hnd
    obtain ⟨q, hq, hq0⟩ := (isNeg_iff _).1 hneg
    have := h i i (hS i hi)
    rw [hq, sub_self, fin_le_fin] at this
    linarith

/-! ## the roundings of the driver are admissible -/

theorem upId_sound : ∀ x, fin x ≤ upId x := fun _ => le_rfl' _

theorem upCeil_sound : ∀ x, fin x ≤ upCeil x := fun _ => fin_le_fin.2 Rat.le_ceil

theorem upCeilMax_sound (mx : Int) : ∀ x, fin x ≤ upCeilMax mx x := by
  intro x; unfold upCeilMax; split
  · exact fin_le_fin.2 Rat.le_ceil
  · exact le_pinf _

theorem upCeilRange_sound (lo hi : Int) : ∀ x, fin x ≤ upCeilRange lo hi x := by
  intro x; unfold upCeilRange; split
  · exact le_pinf _
  · split
    · rename_i h
      rw [fin_le_fin]
      have h1 : (x.ceil : Rat) < (lo : Rat) := by exact_mod_cast h
      exact le_of_lt (lt_of_le_of_lt Rat.le_ceil h1)
    · exact fin_le_fin.2 Rat.le_ceil

/-- `tight_closure_assign`'s `sub_assign_r(x, x, 1, ROUND_UP)` on an odd integer does not increase it
when the rounding is the integer ceiling -/
theorem upCeil_dec : ∀ q : Rat, (fin q).isOddInt = true → upCeil (q - 1) ≤ fin q := by
  intro q _
  unfold upCeil
  rw [fin_le_fin, Rat.ceil_sub_one]
  have := @Rat.ceil_lt q
  push_cast
  linarith

end PPLV.WR
