import PPLV.WR.OctClosedPathsPass1
/-!
# Two passes of weak octagonal steps: the second pass

After the iterations `0, …, h-1` of the second pass every entry is below the weight (in the initial matrix) of every
walk whose inner vertices are distinct, `< 2n`, and contain only pairs `2g`, `2g+1` of index `g < h`.  After the pass:
every walk with distinct inner vertices.
-/
namespace PPLV.WR
open ExtRat

/-- distinct vertices `< 2n`, the pairs contained have index `< h` -/
def Q2 (n h : Nat) (l : List Nat) : Prop := l.Nodup ∧ (∀ v, v ∈ l → v < 2 * n) ∧ PairsBelow h l

theorem q2_step (n h : Nat) (l : List Nat) (hl : Q2 n (h+1) l) :
    Q2 n h l ∨ ∃ l1 k l2, l = l1 ++ k :: l2 ∧ (k = 2 * h ∨ k = 2 * h + 1) ∧ Q2 n h l1 ∧ Q2 n h l2 := by
  obtain ⟨hn, hb, hp⟩ := hl
  by_cases h1 : 2 * h + 1 ∈ l
  · obtain ⟨l1, l2, rfl, n1, n2, k1, k2⟩ := nodup_split hn h1
    refine Or.inr ⟨l1, _, l2, rfl, Or.inr rfl, ⟨n1, fun v hv => ?_, fun g a b => ?_⟩,
      ⟨n2, fun v hv => ?_, fun g a b => ?_⟩⟩
    · exact hb v (List.mem_append_left _ hv)
    · have h2 := hp g (List.mem_append_left _ a) (List.mem_append_left _ b)
      have h3 : g ≠ h := fun e => k1 (e ▸ b)
      omega
    · exact hb v (List.mem_append_right _ (List.mem_cons_of_mem _ hv))
    · have h2 := hp g (List.mem_append_right _ (List.mem_cons_of_mem _ a))
        (List.mem_append_right _ (List.mem_cons_of_mem _ b))
      have h3 : g ≠ h := fun e => k2 (e ▸ b)
      omega
  · refine Or.inl ⟨hn, hb, fun g a b => ?_⟩
    have h2 := hp g a b
    have h3 : g ≠ h := fun e => h1 (e ▸ b)
    omega

/-- the invariant of the second pass -/
theorem octPass2_inv (n : Nat) (d0 : Mat) : PInv d0 (Q2 n n) (octTwo n d0) := by
  unfold octTwo
  generalize hA : octPass n d0 = A
  have hA' : PInv d0 (Q1 n) A := hA ▸ octPass1_inv n d0
  unfold octPass
  refine octLoopUp_ind (fun h d => PInv d0 (Q2 n h) d) n octT A ?_ ?_
  · exact hA'
  · intro t _ s hs
    exact pinv_step hs (q2_step n t)

/-- after the two passes every entry is below the weight of every walk with distinct inner vertices -/
theorem octTwo_le_simple (n : Nat) (d0 : Mat) (i j : Nat) (l : List Nat) (hn : l.Nodup)
    (hb : ∀ v, v ∈ l → v < 2 * n) : octTwo n d0 i j ≤ pw d0 i l j :=
  octPass2_inv n d0 i j l ⟨hn, hb, fun g a _ => by have := hb _ a; omega⟩

end PPLV.WR
