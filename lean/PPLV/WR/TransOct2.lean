import PPLV.WR.TransOct
/-!
# Octagonal_Shape<T>: constraints, `unconstrain`, the private `refine(var, relsym, expr, denominator)`
(executable model, no Mathlib)

Code-shaped models of (`/repo/src/Octagonal_Shape_templates.hh`, `Octagonal_Shape_inlines.hh`,
`Octagonal_Shape.cc`, as they are in the tree NOW):

* `Octagonal_Shape_Helper::extract_octagonal_difference`     (`Octagonal_Shape.cc:34`)
* `add_octagonal_constraint` (both overloads)                (`Octagonal_Shape_inlines.hh:399/418`)
* `add_constraint(const Constraint&)`                        (`Octagonal_Shape_templates.hh:407`)
* `refine_no_check(const Constraint&)`                       (`:940`)
* `forget_binary_octagonal_constraints`                      (`:4478`)
* `unconstrain(Variable)`                                    (`:4499`)
* `refine(var, relsym, expr, denominator)` (private)         (`:4552`)

Conventions of `Closure.lean` / `TransOct.lean`: index `2k` is `+x_k`, `2k+1` is `-x_k`, `matrix[i][j]` bounds
`V_j - V_i` and is stored for `j < rowSize i`; a unary cell holds the DOUBLED bound.  The directed operations
of the bound type are the fields of `R : Rnd` (`Trans.lean`).  A constraint is `cf·x + inhomo ⋈ 0`.
The strongly-closed flag is modelled explicitly where a caller tests it afterwards (`…F` functions return
the matrix together with the flag).
-/
set_option linter.unusedVariables false
namespace PPLV.WR
open ExtRat (fin pinf minA addUp subUp halfUp)

/-! ## `extract_octagonal_difference`, `add_constraint`, `refine_no_check` -/

/-- the outputs of `extract_octagonal_difference`: return value, `c_num_vars`, `c_first_var`, `c_second_var`
(matrix indices when `ok` and `numVars > 0`), `c_coeff`, `c_term` -/
structure OctDX where
  ok : Bool
  numVars : Nat
  i : Nat
  j : Nat
  coeff : Int
  term : Int
  deriving Repr, DecidableEq, Inhabited

/-- `Octagonal_Shape_Helper::extract_octagonal_difference(c, c_space_dim, c_num_vars, c_first_var,
c_second_var, c_coeff, c_term)` (`Octagonal_Shape.cc:34`); `sd` is `c.space_dimension()`.  One variable: the
term is DOUBLED and the cell is the unary one; two variables: the indices are swapped (`FIXME` in the code:
the callers expect `c_first_var > c_second_var`), `c0` is the coefficient of the LATER variable. -/
def octExtractOctagonalDifference (sd : Nat) (cf : Nat → Int) (inhomo : Int) : OctDX :=
  let first := firstNonzero cf 1 (sd + 1)
  if first = sd + 1 then ⟨true, 0, first, 0, 0, inhomo⟩
  else
    -- `++c_num_vars; --c_first_var;`
    let first_var := first - 1
    let second := firstNonzero cf (first_var + 2) (sd + 1)
    if second = sd + 1 then
      let c0 := cf first_var
      let term := inhomo * 2
      let fv := first_var * 2
      if c0 < 0 then ⟨true, 1, fv + 1, fv, c0, term⟩ else ⟨true, 1, fv, fv + 1, c0, term⟩
    else
      -- `++c_num_vars; --c_second_var;`
      let second_var := second - 1
      if !allZeroes cf (second_var + 2) (sd + 1) then ⟨false, 2, first_var, second_var, 0, 0⟩
      else
        -- `swap(c_first_var, c_second_var)`
        let fv := second_var
        let sv := first_var
        let c0 := cf fv
        let c1 := cf sv
        if c0 ≠ c1 ∧ c0 ≠ - c1 then ⟨false, 2, fv, sv, 0, inhomo⟩
        else
          let fi := if c0 < 0 then fv * 2 + 1 else fv * 2
          let sj := if c1 > 0 then sv * 2 + 1 else sv * 2
          ⟨true, 2, fi, sj, c0, inhomo⟩

/-- the common tail of `add_constraint` (`:449-487`) and `refine_no_check` (`:968-1006`): the cell
`matrix[i][j]` for the `<=` part, `matrix[ci][cj]` for the `>=` part of an equality -/
def octAddOD (R : Rnd) (m : Mat) (x : OctDX) (isEq : Bool) : Mat :=
  -- `if (coeff < 0) neg_assign(coeff);`
  let coeff := if x.coeff < 0 then - x.coeff else x.coeff
  let d := divRoundUp R x.term coeff
  -- `if (m_i_j > d) m_i_j = d;`
  let m := if m x.i x.j ≤ d then m else m.set x.i x.j d
  if isEq then
    -- `if (i % 2 == 0) ++i_iter; else --i_iter;`, `cj = coherent_index(j)`
    let ci := cidx x.i
    let cj := cidx x.j
    let d := divRoundUp R (- x.term) coeff
    if m ci cj ≤ d then m else m.set ci cj d
  else m

/-- `is_oct_changed` of the same tail (the callers reset the strongly-closed flag when it is set) -/
def octAddODChanged (R : Rnd) (m : Mat) (x : OctDX) (isEq : Bool) : Bool :=
  let coeff := if x.coeff < 0 then - x.coeff else x.coeff
  let d := divRoundUp R x.term coeff
  let ch1 := !decide (m x.i x.j ≤ d)
  let m := if m x.i x.j ≤ d then m else m.set x.i x.j d
  if isEq then
    let ci := cidx x.i
    let cj := cidx x.j
    let d := divRoundUp R (- x.term) coeff
    ch1 || !decide (m ci cj ≤ d)
  else ch1

/-- `refine_no_check(const Constraint& c)` (`:940`); `n` is the space dimension of the shape (not read),
`sd = c.space_dimension()`.  No closure. -/
def octRefineNoCheck (R : Rnd) (n sd : Nat) (cf : Nat → Int) (inhomo : Int) (kind : CKind) (m : Mat) : Outcome :=
  let x := octExtractOctagonalDifference sd cf inhomo
  if !x.ok then .ok m
  else if x.numVars = 0 then
    if inhomo < 0 ∨ (inhomo ≠ 0 ∧ kind = .eq) ∨ (inhomo = 0 ∧ kind = .gt) then .empty else .ok m
  else .ok (octAddOD R m x (kind = .eq))

/-- the strongly-closed flag after `refine_no_check(c)` on a shape whose flag was `closed` -/
def octRefineNoCheckFlag (R : Rnd) (sd : Nat) (cf : Nat → Int) (inhomo : Int) (kind : CKind) (m : Mat)
    (closed : Bool) : Bool :=
  let x := octExtractOctagonalDifference sd cf inhomo
  if !x.ok then closed
  else if x.numVars = 0 then closed
  else closed && !octAddODChanged R m x (kind = .eq)

/-- `add_constraint(const Constraint& c)` (`:407`): a strict inequality is accepted only when it is
trivial (`is_inconsistent()` / `is_tautological()`), a non-octagonal constraint throws.  No closure. -/
def octAddConstraint (R : Rnd) (n sd : Nat) (cf : Nat → Int) (inhomo : Int) (kind : CKind) (m : Mat) : Outcome :=
  if kind = .gt then
    if allZeroes cf 1 (sd + 1) then (if inhomo ≤ 0 then .empty else .ok m) else .throws
  else
    let x := octExtractOctagonalDifference sd cf inhomo
    if !x.ok then .throws
    else if x.numVars = 0 then
      if inhomo < 0 ∨ (kind = .eq ∧ inhomo ≠ 0) then .empty else .ok m
    else .ok (octAddOD R m x (kind = .eq))

/-! ## `forget_binary_octagonal_constraints`, `unconstrain` -/

/-- `forget_binary_octagonal_constraints(v_id)` (`:4478`) -/
def octForgetBinary (n vid : Nat) (m : Mat) : Mat :=
  let n_v := 2 * vid
  let m := loopDown n_v (fun k m => (m.set n_v k pinf).set (n_v + 1) k pinf) m
  loopUp (2 * n - (n_v + 2)) (fun k m => (m.set (n_v + 2 + k) n_v pinf).set (n_v + 2 + k) (n_v + 1) pinf) m

/-- `unconstrain(var)` (`:4499`): strong closure, then `forget_all_octagonal_constraints` -/
def octUnconstrain {n : Nat} (R : Rnd) (closed : Bool) (vid : Nat) (m : OctM n) : Option Mat :=
  (octCloseFirst R.up closed m).map (octForgetAll n vid)

/-! ## accumulation with `break` (`refine LESS_OR_EQUAL / GREATER_OR_EQUAL`, `generalized_affine_image`) -/

/-- one iteration (variable `id`) of the loops `:4960-4992`, `:5049-5081`, `:6333-6364`, `:6432-6463`:
`pos = true` approximates `sc_expr`, `pos = false` approximates `-sc_expr`; `break` once a second unbounded
variable is met (`cnt > 1` afterwards: every later iteration is skipped), `continue` on the first one (only
then `pinf_index = id`), the coefficient is converted only when it is used -/
def octAccStepG (R : Rnd) (m : Mat) (sc : Nat → Int) (pos : Bool) (id : Nat) (st : Acc) : Acc :=
  let n_i := 2 * id
  if st.cnt > 1 then st
  else if sc id = 0 then st
  else
    let dua := if decide (sc id > 0) = pos then m (n_i + 1) n_i else m n_i (n_i + 1)
    if dua.isPinf then
      if st.cnt + 1 > 1 then { st with cnt := st.cnt + 1 }
      else { st with cnt := st.cnt + 1, idx := id }
    else
      let coeff_i := R.up ((absI (sc id) : Int) : Rat)
      { st with sum := addMulUp R st.sum coeff_i (halfUp R.up dua) }

/-! ## `add_octagonal_constraint` with the strongly-closed flag -/

/-- `add_octagonal_constraint(i, j, k)` (`Octagonal_Shape_inlines.hh:399`): the flag is reset only when the
cell is overwritten -/
def octAddF (mf : Mat × Bool) (i j : Nat) (k : ExtRat) : Mat × Bool :=
  if mf.1 i j ≤ k then mf else (mf.1.set i j k, false)

/-- `add_octagonal_constraint(i, j, numer, denom)` (`Octagonal_Shape_inlines.hh:418`) -/
def octAddQF (R : Rnd) (mf : Mat × Bool) (i j : Nat) (numer denom : Int) : Mat × Bool :=
  octAddF mf i j (divRoundUp R numer denom)

/-! ## `refine(var, relsym, expr, denominator)` (private; `:4552-5136`)

Called (by `generalized_affine_preimage` and `bounded_affine_preimage`, with `expr.coefficient(var) == 0`) on
a strongly closed matrix that is marked so.  No closure is run.  The second component is the
strongly-closed flag afterwards: `add_octagonal_constraint` resets it only when it stores, the `EQUAL`
general case resets it always (unless it returns early), the direct writes and the `deduce_*` helpers of the
inequality cases never touch it.

`fx = false` is the code as written: in `GREATER_OR_EQUAL`, `pinf_count == 1`,
`expr.coefficient(pinf_index) == denominator`, `pinf_index >= var_id` the code calls
`add_octagonal_constraint(pinf_ind + 1, n_var, sum)` (`:5111`), the cell of `v + u <= sum`, where the comment
(and the `EQUAL` case, `:4925`) say `u - v <= sum`, i.e. column `n_var + 1` (open finding KF-C03-75/76);
`fx = true` is the repaired cell.  When `pinf_count == 0` the `GREATER_OR_EQUAL` case passes `pinf_index`
(value-initialised by `PPL_UNINITIALIZED`: `0`) as `last_id` to `deduce_minus_v_pm_u_bounds` (`:5099`). -/
def octRefineVarV (fx : Bool) (R : Rnd) (n vid : Nat) (rel : RelSym) (e : Nat → Int) (b den : Int) (m : Mat) :
    Mat × Bool :=
  let n_var := 2 * vid
  let w := lastNonzero e n
  let t0 := exprT e w
  let w_id := w - 1
  let minus_denom := - den
  -- `if (t == 1 && expr.coefficient(Variable(w_id)) != denominator && … != minus_denom) t = 2;` (`:4598`)
  let t := if t0 = 1 ∧ e w_id ≠ den ∧ e w_id ≠ minus_denom then 2 else t0
  if t = 0 then
    let two_b := 2 * b
    match rel with
    | .eq => octAddQF R (octAddQF R (m, true) (n_var + 1) n_var two_b den) n_var (n_var + 1) two_b minus_denom
    | .le => octAddQF R (m, true) (n_var + 1) n_var two_b den
    | .ge => octAddQF R (m, true) n_var (n_var + 1) two_b minus_denom
  else if t = 1 then
    let w_coeff := e w_id
    let n_w := 2 * w_id
    match rel with
    | .eq =>
      if w_coeff = den then
        if vid < w_id then octAddQF R (octAddQF R (m, true) n_w n_var b den) (n_w + 1) (n_var + 1) b minus_denom
        else octAddQF R (octAddQF R (m, true) (n_var + 1) (n_w + 1) b den) n_var n_w b minus_denom
      else
        if vid < w_id then octAddQF R (octAddQF R (m, true) (n_w + 1) n_var b den) n_w (n_var + 1) b minus_denom
        else octAddQF R (octAddQF R (m, true) (n_var + 1) n_w b den) n_var (n_w + 1) b minus_denom
    | .le =>
      let d := divRoundUp R b den
      if w_coeff = den then
        if vid < w_id then octAddF (m, true) n_w n_var d else octAddF (m, true) (n_var + 1) (n_w + 1) d
      else if w_coeff = minus_denom then
        if vid < w_id then octAddF (m, true) (n_w + 1) n_var d else octAddF (m, true) (n_var + 1) n_w d
      else (m, true)
    | .ge =>
      let d := divRoundUp R b minus_denom
      if w_coeff = den then
        if vid < w_id then octAddF (m, true) (n_w + 1) (n_var + 1) d else octAddF (m, true) n_var n_w d
      else if w_coeff = minus_denom then
        if vid < w_id then octAddF (m, true) n_w (n_var + 1) d else octAddF (m, true) n_var (n_w + 1) d
      else (m, true)
  else
    let is_sc := den > 0
    let sc_b := if is_sc then b else - b
    let minus_sc_b := if is_sc then - b else b
    let sc_denom := if is_sc then den else minus_denom
    let sc := scExpr e den
    match rel with
    | .eq =>
      let pn := loopUp (w_id + 1) (fun i (pq : Acc × Acc) =>
          (octAccStep R m sc true i pq.1, octAccStep R m sc false i pq.2))
        (⟨R.up (sc_b : Rat), 0, 0⟩, ⟨R.up (minus_sc_b : Rat), 0, 0⟩)
      if pn.1.cnt > 1 ∧ pn.2.cnt > 1 then (m, true)
      else
        -- `reset_strongly_closed()`
        (octExploitLower R vid w_id sc sc_denom pn.2 (octExploitUpper R vid w_id sc sc_denom pn.1 m), false)
    | .le =>
      let st := loopUp (w_id + 1) (octAccStepG R m sc true) ⟨R.up (sc_b : Rat), 0, 0⟩
      let sum := if sc_denom ≠ 1 then divRoundUpByPositive R st.sum sc_denom else st.sum
      if st.cnt = 0 then
        let mf := octAddF (m, true) (n_var + 1) n_var (mulTwoUp R.up sum)
        (deduceVPmU R.up vid w_id sc sc_denom sum mf.1, mf.2)
      else if st.cnt = 1 then
        -- no `pinf_index != var_id` test here: `expr.coefficient(var) == 0` is a precondition
        let pinf_ind := 2 * st.idx
        if e st.idx = den then
          if vid < st.idx then octAddF (m, true) pinf_ind n_var sum
          else octAddF (m, true) (n_var + 1) (pinf_ind + 1) sum
        else if e st.idx = minus_denom then
          if vid < st.idx then octAddF (m, true) (pinf_ind + 1) n_var sum
          else octAddF (m, true) (n_var + 1) pinf_ind sum
        else (m, true)
      else (m, true)
    | .ge =>
      let st := loopUp (w_id + 1) (octAccStepG R m sc false) ⟨R.up (minus_sc_b : Rat), 0, 0⟩
      let sum := if sc_denom ≠ 1 then divRoundUpByPositive R st.sum sc_denom else st.sum
      if st.cnt = 0 then
        let mf := octAddF (m, true) n_var (n_var + 1) (mulTwoUp R.up sum)
        -- `deduce_minus_v_pm_u_bounds(var_id, pinf_index, …)`: `pinf_index` is still `0` here (`:5099`)
        (deduceMinusVPmU R.up vid st.idx sc sc_denom sum mf.1, mf.2)
      else if st.cnt = 1 then
        let pinf_ind := 2 * st.idx
        if e st.idx = den then
          if st.idx < vid then octAddF (m, true) n_var pinf_ind sum
          else octAddF (m, true) (pinf_ind + 1) (if fx then n_var + 1 else n_var) sum      -- `:5111`
        else if e st.idx = minus_denom then
          if st.idx < vid then octAddF (m, true) n_var (pinf_ind + 1) sum
          else octAddF (m, true) pinf_ind (n_var + 1) sum
        else (m, true)
      else (m, true)

/-- the code as written: matrix and strongly-closed flag after `refine(var, relsym, expr, denominator)` -/
def octRefineVarF (R : Rnd) (n vid : Nat) (rel : RelSym) (e : Nat → Int) (b den : Int) (m : Mat) :
    Option (Mat × Bool) :=
  some (octRefineVarV false R n vid rel e b den m)

/-- `refine(var, relsym, expr, denominator)`: the matrix afterwards (the function never marks the shape
empty and runs no closure) -/
def octRefineVar (R : Rnd) (n vid : Nat) (rel : RelSym) (e : Nat → Int) (b den : Int) (m : Mat) : Option Mat :=
  (octRefineVarF R n vid rel e b den m).map Prod.fst

end PPLV.WR
