import PPLV.WR.ClosureProofsBDS
/-!
# Exact arithmetic: a shortest-path closed matrix is the canonical (tightest) one

Part B of `C03.closure_exact`: for a matrix `c` with zero diagonal and the triangle inequality
(`Closed`), every finite entry `c a b` is *attained* by a point of the matrix, every infinite entry is
unbounded on it, and the matrix has a point.  (Extension of a partial valuation one index at a time;
the interval of admissible values of the new index is non-empty by the triangle inequality.)
-/
namespace PPLV.WR
open ExtRat

/-- exact addition on `ℚ ∪ {+∞}` -/
abbrev eadd (a b : ExtRat) : ExtRat := addUp fin a b

/-- zero diagonal and triangle inequality on the first `R` indices -/
structure Closed (R : Nat) (c : Mat) : Prop where
  diag : ∀ i, i < R → c i i = fin 0
  tri : ∀ i j k, i < R → j < R → k < R → c i j ≤ eadd (c i k) (c k j)

/-- the potential `p` satisfies the entries between indices of `L` -/
def Among (L : List Nat) (p : Nat → Rat) (c : Mat) : Prop :=
  ∀ i, i ∈ L → ∀ j, j ∈ L → fin (p j - p i) ≤ c i j

theorem Among.mono {L L' : List Nat} {p : Nat → Rat} {c : Mat} (h : ∀ i, i ∈ L' → i ∈ L)
    (ha : Among L p c) : Among L' p c :=
  fun i hi j hj => ha i (h i hi) j (h j hj)

theorem exists_le_all (hi : List Rat) : ∃ v : Rat, ∀ u, u ∈ hi → v ≤ u := by
  induction hi with
  | nil => exact ⟨0, fun _ h => by simp at h⟩
  | cons u us ih =>
    obtain ⟨v, hv⟩ := ih
    refine ⟨min v u, fun x hx => ?_⟩
    rcases List.mem_cons.1 hx with rfl | hx
    · exact min_le_right _ _
    · exact le_trans (min_le_left _ _) (hv x hx)

theorem exists_between (lo hi : List Rat) (h : ∀ l, l ∈ lo → ∀ u, u ∈ hi → l ≤ u) :
    ∃ v : Rat, (∀ l, l ∈ lo → l ≤ v) ∧ (∀ u, u ∈ hi → v ≤ u) := by
  induction lo with
  | nil =>
    obtain ⟨v, hv⟩ := exists_le_all hi
    exact ⟨v, fun _ h => by simp at h, hv⟩
  | cons l ls ih =>
    obtain ⟨v, hv1, hv2⟩ := ih (fun x hx u hu => h x (List.mem_cons_of_mem _ hx) u hu)
    refine ⟨max v l, fun x hx => ?_, fun u hu => ?_⟩
    · rcases List.mem_cons.1 hx with rfl | hx
      · exact le_max_right _ _
      · exact le_trans (hv1 x hx) (le_max_left _ _)
    · exact max_le (hv2 u hu) (h l (List.mem_cons_self) u hu)

/-- lower bound of the new index `t` from `i`: `p_i - c_{t,i}` -/
def lowB (c : Mat) (p : Nat → Rat) (t i : Nat) : Option Rat :=
  match c t i with
  | fin u => some (p i - u)
  | pinf => none

/-- upper bound of the new index `t` from `i`: `p_i + c_{i,t}` -/
def uppB (c : Mat) (p : Nat → Rat) (t i : Nat) : Option Rat :=
  match c i t with
  | fin u => some (p i + u)
  | pinf => none

theorem extend {R : Nat} {c : Mat} (hc : Closed R c) (L : List Nat) (hL : ∀ i, i ∈ L → i < R)
    (p : Nat → Rat) (hp : Among L p c) (t : Nat) (ht : t < R) :
    ∃ p' : Nat → Rat, (∀ i, i ∈ L → p' i = p i) ∧ Among (t :: L) p' c := by
  by_cases htL : t ∈ L
  · refine ⟨p, fun _ _ => rfl, hp.mono ?_⟩
    intro i hi
    rcases List.mem_cons.1 hi with rfl | hi
    · exact htL
    · exact hi
  · obtain ⟨v, hv1, hv2⟩ := exists_between (L.filterMap (lowB c p t)) (L.filterMap (uppB c p t)) (by
      intro l hl u hu
      obtain ⟨i, hi, hli⟩ := List.mem_filterMap.1 hl
      obtain ⟨j, hj, huj⟩ := List.mem_filterMap.1 hu
      unfold lowB at hli
      unfold uppB at huj
      cases hti : c t i with
      | pinf => rw [hti] at hli; simp at hli
      | fin a =>
        cases hjt : c j t with
        | pinf => rw [hjt] at huj; simp at huj
        | fin b =>
          rw [hti] at hli; rw [hjt] at huj
          simp only [Option.some.injEq] at hli huj
          have h1 := hp j hj i hi
          have h2 := hc.tri j i t (hL j hj) (hL i hi) ht
          rw [hjt, hti] at h2
          have h3 := le_trans' h1 h2
          simp only [eadd, addUp, fin_le_fin] at h3
          linarith)
    obtain ⟨p', hpt, hpL⟩ : ∃ p' : Nat → Rat, p' t = v ∧ ∀ i, i ∈ L → p' i = p i := by
      refine ⟨fun i => if i = t then v else p i, by simp, fun i hi => ?_⟩
      have : i ≠ t := fun h => htL (h ▸ hi)
      simp [this]
    refine ⟨p', hpL, ?_⟩
    intro i hi j hj
    rcases List.mem_cons.1 hi with hit | hiL <;> rcases List.mem_cons.1 hj with hjt | hjL
    · rw [hit, hjt]
      simp [hc.diag t ht]
    · rw [hit, hpt, hpL j hjL]
      cases htj : c t j with
      | pinf => exact le_pinf _
      | fin u =>
        have := hv1 (p j - u) (List.mem_filterMap.2 ⟨j, hjL, by simp [lowB, htj]⟩)
        rw [fin_le_fin]; linarith
    · rw [hjt, hpt, hpL i hiL]
      cases hit : c i t with
      | pinf => exact le_pinf _
      | fin u =>
        have := hv2 (p i + u) (List.mem_filterMap.2 ⟨i, hiL, by simp [uppB, hit]⟩)
        rw [fin_le_fin]; linarith
    · rw [hpL i hiL, hpL j hjL]
      exact hp i hiL j hjL

theorem extend_all {R : Nat} {c : Mat} (hc : Closed R c) (L : List Nat) (hL : ∀ i, i ∈ L → i < R)
    (p : Nat → Rat) (hp : Among L p c) (k : Nat) (hk : k ≤ R) :
    ∃ p' : Nat → Rat, (∀ i, i ∈ L → p' i = p i) ∧ Among (List.range k ++ L) p' c := by
  induction k with
  | zero => exact ⟨p, fun _ _ => rfl, by simpa using hp⟩
  | succ k ih =>
    obtain ⟨p1, h1, h2⟩ := ih (by omega)
    obtain ⟨p2, h3, h4⟩ := extend hc (List.range k ++ L) (by
      intro i hi
      rcases List.mem_append.1 hi with hi | hi
      · have := List.mem_range.1 hi; omega
      · exact hL i hi) p1 h2 k (by omega)
    refine ⟨p2, fun i hi => ?_, h4.mono ?_⟩
    · rw [h3 i (List.mem_append_right _ hi), h1 i hi]
    · intro i hi
      rcases List.mem_append.1 hi with hi | hi
      · have := List.mem_range.1 hi
        by_cases hik : i = k
        · subst hik; exact List.mem_cons_self
        · exact List.mem_cons_of_mem _ (List.mem_append_left _ (List.mem_range.2 (by omega)))
      · exact List.mem_cons_of_mem _ (List.mem_append_right _ hi)

theorem holds_of_among {R : Nat} {c : Mat} {p : Nat → Rat} {L : List Nat}
    (h : Among (List.range R ++ L) p c) : Holds (SB R) p c :=
  fun a b hab => h a (List.mem_append_left _ (List.mem_range.2 hab.1)) b
    (List.mem_append_left _ (List.mem_range.2 hab.2))

/-- a closed matrix has a point -/
theorem Closed.nonempty {R : Nat} {c : Mat} (hc : Closed R c) : ∃ p : Nat → Rat, Holds (SB R) p c := by
  obtain ⟨p, _, h⟩ := extend_all hc [] (by simp) (fun _ => 0) (by intro i hi; simp at hi) R le_rfl
  exact ⟨p, holds_of_among h⟩

/-- every value `w` between `-c b a` and `c a b` is the difference `p b - p a` of a point -/
theorem Closed.attains {R : Nat} {c : Mat} (hc : Closed R c) {a b : Nat} (ha : a < R) (hb : b < R)
    (hab : a ≠ b) (w : Rat) (h1 : fin w ≤ c a b) (h2 : fin (-w) ≤ c b a) :
    ∃ p : Nat → Rat, Holds (SB R) p c ∧ p b - p a = w := by
  obtain ⟨p0, hp0a, hp0b⟩ : ∃ p0 : Nat → Rat, p0 a = 0 ∧ p0 b = w :=
    ⟨fun i => if i = b then w else 0, by simp [hab], by simp⟩
  have hp0 : Among [a, b] p0 c := by
    intro i hi j hj
    simp only [List.mem_cons, List.not_mem_nil, or_false] at hi hj
    rcases hi with hi | hi <;> rcases hj with hj | hj <;> rw [hi, hj]
    · simp [hc.diag _ ha]
    · rw [hp0a, hp0b, sub_zero]; exact h1
    · rw [hp0a, hp0b, zero_sub]; exact h2
    · simp [hc.diag _ hb]
  obtain ⟨p, hp, h⟩ := extend_all hc [a, b] (by
    intro i hi
    simp only [List.mem_cons, List.not_mem_nil, or_false] at hi
    rcases hi with rfl | rfl <;> assumption) p0 hp0 R le_rfl
  refine ⟨p, holds_of_among h, ?_⟩
  rw [hp a (by simp), hp b (by simp), hp0a, hp0b, sub_zero]

/-- a finite entry is attained -/
theorem Closed.tight_fin {R : Nat} {c : Mat} (hc : Closed R c) {a b : Nat} (ha : a < R) (hb : b < R)
    (hab : a ≠ b) {w : Rat} (hw : c a b = fin w) :
    ∃ p : Nat → Rat, Holds (SB R) p c ∧ p b - p a = w := by
  refine hc.attains ha hb hab w (by rw [hw]; exact le_rfl' _) ?_
  cases hba : c b a with
  | pinf => exact le_pinf _
  | fin u =>
    have := hc.tri a a b ha ha hb
    rw [hc.diag a ha, hw, hba] at this
    simp only [eadd, addUp, fin_le_fin] at this
    rw [fin_le_fin]; linarith

/-- an infinite entry is unbounded -/
theorem Closed.tight_inf {R : Nat} {c : Mat} (hc : Closed R c) {a b : Nat} (ha : a < R) (hb : b < R)
    (hab : a ≠ b) (hw : c a b = pinf) (B : Rat) :
    ∃ p : Nat → Rat, Holds (SB R) p c ∧ B ≤ p b - p a := by
  cases hba : c b a with
  | pinf =>
    obtain ⟨p, h1, h2⟩ := hc.attains ha hb hab B (by rw [hw]; exact le_pinf _) (by rw [hba]; exact le_pinf _)
    exact ⟨p, h1, by rw [h2]⟩
  | fin u =>
    obtain ⟨p, h1, h2⟩ := hc.attains ha hb hab (max B (-u)) (by rw [hw]; exact le_pinf _) (by
      rw [hba, fin_le_fin]
      have := le_max_right B (-u)
      linarith)
    exact ⟨p, h1, by rw [h2]; exact le_max_left _ _⟩

end PPLV.WR
