import PPLV.WR.ReduceOctProofsSpec
/-!
# `Octagonal_Shape::affine_dimension` counts the coherent pairs of non-singular classes (O5)
-/
namespace PPLV.WR
open ExtRat (fin pinf)

theorem loopUp_count (P : Nat → Bool) (k : Nat) :
    loopUp k (fun h (ad : Nat) => if P h then ad + 1 else ad) 0 = ((List.range k).filter P).length := by
  induction k with
  | zero => rfl
  | succ k ih =>
    simp only [loopUp]
    rw [ih, List.range_succ, List.filter_append, List.length_append]
    cases h : P k <;> simp [List.filter, h]

theorem octAffineDimension_eq (dim : Nat) (m : Mat) :
    octAffineDimension dim m = ((List.range dim).filter fun h =>
      octComputeLeaders (2 * dim) m (2 * h) == 2 * h && octComputeLeaders (2 * dim) m (2 * h + 1) == 2 * h + 1).length := by
  rw [← loopUp_count]
  unfold octAffineDimension
  congr 1

/-- O5 -/
theorem oct_affine_dimension_count {n : Nat} (c : OctM n) (_hc : c.IsStronglyClosed) :
    octAffineDimension n c.e = ((List.range n).filter fun h =>
      octComputeLeaders (2 * n) c.e (2 * h) == 2 * h && octComputeLeaders (2 * n) c.e (2 * h + 1) == 2 * h + 1).length :=
  octAffineDimension_eq n c.e

section closed
variable {n : Nat} (c : OctM n) (hc : c.IsStronglyClosed)
include hc

/-- the counted `h` are those whose `2h` is the least element of a non-singular class (then `2h+1` is the least
element of the coherent twin class) -/
theorem oct_affine_dimension_pair (h : Nat) (hh : h < n) :
    (octComputeLeaders (2 * n) c.e (2 * h) == 2 * h && octComputeLeaders (2 * n) c.e (2 * h + 1) == 2 * h + 1) = true
      ↔ NSL (2 * n) c.e (2 * h) := by
  have hl := octComputeLeaders_isOctLead c hc
  have e0 : cidx (2 * h) = 2 * h + 1 := cidx_even h
  rw [← nsl_iff c hl, Bool.and_eq_true, beq_iff_eq, beq_iff_eq]
  constructor
  · rintro ⟨h1, h2⟩
    refine ⟨by omega, (nslP_iff _ _ _).2 ⟨h1, fun hz => ?_⟩⟩
    rw [e0] at hz
    have := hl.least (2 * h + 1) (2 * h) (by omega) (by omega) hz
    omega
  · rintro ⟨h1, h2⟩
    have := (IsOctLead.pair c hl h).1 ⟨h1, h2⟩
    exact ⟨((nslP_iff _ _ _).1 h2).1, ((nslP_iff _ _ _).1 this.2).1⟩

/-- the vector of non-singular leaders has twice as many entries as `affine_dimension` counts: it is the number
of coherent pairs of non-singular classes -/
theorem oct_affine_dimension_leaders :
    (octComputeLeaders4 (2 * n) (octComputeSuccessors (2 * n) c.e)).no_sing_leaders.length
      = 2 * octAffineDimension n c.e := by
  have hl := octComputeLeaders_isOctLead c hc
  rw [(oct_leaders4_spec c hc).nsl, oct_affine_dimension_count c hc]
  have hpair : ∀ g, g < n → nslP c.e (octComputeLeaders (2 * n) c.e) (2 * g)
      = nslP c.e (octComputeLeaders (2 * n) c.e) (2 * g + 1) := by
    intro g hg
    have := IsOctLead.pair c hl g
    cases e1 : nslP c.e (octComputeLeaders (2 * n) c.e) (2 * g) <;>
      cases e2 : nslP c.e (octComputeLeaders (2 * n) c.e) (2 * g + 1) <;>
      first | rfl | (simp_all; done) | (simp_all; omega)
  suffices h : ∀ k, k ≤ n → fpos (nslP c.e (octComputeLeaders (2 * n) c.e)) (2 * k)
      = 2 * ((List.range k).filter fun h => octComputeLeaders (2 * n) c.e (2 * h) == 2 * h &&
          octComputeLeaders (2 * n) c.e (2 * h + 1) == 2 * h + 1).length from h n (Nat.le_refl _)
  intro k
  induction k with
  | zero => intro _; rfl
  | succ k ih =>
    intro hk
    have e : 2 * (k + 1) = 2 * k + 1 + 1 := by ring
    rw [e, fpos_succ, fpos_succ, ← hpair k (by omega), ih (by omega), List.range_succ, List.filter_append,
      List.length_append]
    have hiff := oct_affine_dimension_pair c hc k (by omega)
    rw [← nsl_iff c hl] at hiff
    cases e1 : nslP c.e (octComputeLeaders (2 * n) c.e) (2 * k)
    · have : (octComputeLeaders (2 * n) c.e (2 * k) == 2 * k &&
          octComputeLeaders (2 * n) c.e (2 * k + 1) == 2 * k + 1) = false := by
        cases e2 : (octComputeLeaders (2 * n) c.e (2 * k) == 2 * k &&
          octComputeLeaders (2 * n) c.e (2 * k + 1) == 2 * k + 1)
        · rfl
        · have := (hiff.1 e2).2; rw [e1] at this; cases this
      simp [List.filter, this]
    · have : (octComputeLeaders (2 * n) c.e (2 * k) == 2 * k &&
          octComputeLeaders (2 * n) c.e (2 * k + 1) == 2 * k + 1) = true := hiff.2 ⟨by omega, e1⟩
      simp [List.filter, this]
      omega

end closed

end PPLV.WR
