import PPLV.WR.TransOct2Lat
import PPLV.WR.TransOctProofsBase
import PPLV.WR.Trans2LatProofsLoops
/-!
# Lattice / dimension operations of `Octagonal_Shape<T>`: closure with the flag, loop nests,
intersection, upper bound (soundness), embed, project, remove_higher (soundness)
-/
set_option linter.unusedVariables false
namespace PPLV.WR
open ExtRat

/-- the class invariant of `Octagonal_Shape::OK()` on a raw matrix: `+∞` on the main diagonal -/
def octLatDiag (n : Nat) (m : Mat) : Prop := ∀ i, i < 2 * n → m i i = pinf

theorem octLatDiag_octm {n : Nat} (m : OctM n) : octLatDiag n m.e := m.diag

theorem latOval_add_even (z : Nat → Rat) (k t : Nat) :
    OctM.oval z (2 * k + t) = OctM.oval (fun i => z (k + i)) t := by
  unfold OctM.oval
  have e1 : (2 * k + t) % 2 = t % 2 := by omega
  have e2 : (2 * k + t) / 2 = k + t / 2 := by omega
  rw [e1, e2]

theorem latRowSize_add_even (k t : Nat) : rowSize (2 * k + t) = 2 * k + rowSize t := by
  unfold rowSize; omega

theorem latRowSize_gt (i : Nat) : i < rowSize i := by unfold rowSize; omega
theorem latRowSize_le (i : Nat) : rowSize i ≤ i + 2 := by unfold rowSize; omega

theorem latGammaO_congr {n : Nat} {m : Mat} {x y : Nat → Rat} (h : ∀ i, i < n → x i = y i)
    (hx : x ∈ γO n m) : y ∈ γO n m := by
  have hv : ∀ a, a < 2 * n → OctM.oval y a = OctM.oval x a := by
    intro a ha
    unfold OctM.oval
    rw [h (a / 2) (by omega)]
  intro a b hab
  have hb : b < 2 * n := by have := hab.2; have := rowSize_le hab.1; omega
  rw [hv a hab.1, hv b hb]
  exact hx a b hab

theorem latGammaO_restrict {n k : Nat} (hk : k ≤ n) {m : Mat} {x : Nat → Rat} (hx : x ∈ γO n m) :
    x ∈ γO k m := by
  intro a b hab
  exact hx a b ⟨by have := hab.1; omega, hab.2⟩

/-! ## the closure with the flag -/

theorem octLatClose_sound {up : Rat → ExtRat} (hup : ∀ q, fin q ≤ up q) (n : Nat) (c : Bool) (m : Mat)
    {x : Nat → Rat} (hx : x ∈ γO n m) :
    ∃ m' c', octLatClose up n c m = some (m', c') ∧ x ∈ γO n m' := by
  unfold octLatClose
  split
  · exact ⟨m, true, rfl, hx⟩
  · split
    · exact ⟨m, false, rfl, hx⟩
    · obtain ⟨m', h1, h2⟩ := octCloseFirst_sound hup false (OctM.ofMat n m) (sat_octOfMat hx)
      exact ⟨m', true, by rw [h1]; rfl, h2⟩

/-! ## `intersection_assign`, `upper_bound_assign` -/

theorem octLatIntersectionLoop_apply (n : Nat) (m1 m2 : Mat) (a b : Nat) :
    (octLatIntersectionLoop n m1 m2).1 a b
      = if a < 2 * n ∧ b < rowSize a then minA (m1 a b) (m2 a b) else m1 a b := by
  unfold octLatIntersectionLoop
  refine latLoop2Up_pointwise (fun st : Mat × Bool => st.1) (2 * n) rowSize
    (fun i j st => if st.1 i j ≤ m2 i j then st else (st.1.set i j (m2 i j), true))
    (fun i j v => minA v (m2 i j)) ?_ ?_ (m1, false) a b
  · intro i j s
    unfold minA
    split <;> simp
  · intro i j s a b hab
    split
    · rfl
    · simp only [Mat.set_apply, if_neg hab]

theorem octLatUpperBoundLoop_apply (n : Nat) (x y : Mat) (a b : Nat) :
    octLatUpperBoundLoop n x y a b
      = if a < 2 * n ∧ b < rowSize a then latMaxA (x a b) (y a b) else x a b := by
  unfold octLatUpperBoundLoop
  refine latLoop2Up_pointwise (fun m : Mat => m) (2 * n) rowSize
    (fun i j m => m.set i j (latMaxA (m i j) (y i j)))
    (fun i j v => latMaxA v (y i j)) ?_ ?_ x a b
  · intro i j s; simp
  · intro i j s a b hab
    simp only [Mat.set_apply, if_neg hab]

theorem octLatIntersection_sound (R : Rnd) (n : Nat) (c1 c2 : Bool) (m1 m2 : Mat) {x : Nat → Rat}
    (h1 : x ∈ γO n m1) (h2 : x ∈ γO n m2) :
    ∃ r, octLatIntersection R n c1 m1 c2 m2 = some r ∧ r.dim = n ∧ x ∈ γO n r.m := by
  unfold octLatIntersection
  split
  · exact ⟨_, rfl, rfl, h1⟩
  · refine ⟨_, rfl, rfl, ?_⟩
    intro a b hab
    show _ ≤ (octLatIntersectionLoop n m1 m2).1 a b
    rw [octLatIntersectionLoop_apply, if_pos ⟨hab.1, hab.2⟩]
    exact le_minA (h1 a b hab) (h2 a b hab)

/-- `intersection_assign` is exact for every bound type -/
theorem octLatIntersection_exact (R : Rnd) (n : Nat) (c1 c2 : Bool) (m1 m2 : Mat) :
    ∃ r, octLatIntersection R n c1 m1 c2 m2 = some r ∧ r.dim = n ∧
      ∀ x, x ∈ γO n r.m ↔ (x ∈ γO n m1 ∧ x ∈ γO n m2) := by
  unfold octLatIntersection
  split
  · rename_i hn
    subst hn
    refine ⟨_, rfl, rfl, fun x => ⟨fun h => ⟨h, ?_⟩, fun h => h.1⟩⟩
    intro a b hab
    have := hab.1; omega
  · refine ⟨_, rfl, rfl, fun x => ⟨fun h => ⟨?_, ?_⟩, fun h => ?_⟩⟩
    · intro a b hab
      have := h a b hab
      change _ ≤ (octLatIntersectionLoop n m1 m2).1 a b at this
      rw [octLatIntersectionLoop_apply, if_pos ⟨hab.1, hab.2⟩] at this
      exact le_trans' this (minA_le_left _ _)
    · intro a b hab
      have := h a b hab
      change _ ≤ (octLatIntersectionLoop n m1 m2).1 a b at this
      rw [octLatIntersectionLoop_apply, if_pos ⟨hab.1, hab.2⟩] at this
      exact le_trans' this (minA_le_right _ _)
    · intro a b hab
      show _ ≤ (octLatIntersectionLoop n m1 m2).1 a b
      rw [octLatIntersectionLoop_apply, if_pos ⟨hab.1, hab.2⟩]
      exact le_minA (h.1 a b hab) (h.2 a b hab)

theorem octLatUpperBoundLoop_left {n : Nat} {x y : Mat} {p : Nat → Rat} (h : p ∈ γO n x) :
    p ∈ γO n (octLatUpperBoundLoop n x y) := by
  intro a b hab
  rw [octLatUpperBoundLoop_apply, if_pos ⟨hab.1, hab.2⟩]
  exact le_trans' (h a b hab) (latMaxA_ge_left _ _)

theorem octLatUpperBoundLoop_right {n : Nat} {x y : Mat} {p : Nat → Rat} (h : p ∈ γO n y) :
    p ∈ γO n (octLatUpperBoundLoop n x y) := by
  intro a b hab
  rw [octLatUpperBoundLoop_apply, if_pos ⟨hab.1, hab.2⟩]
  exact le_trans' (h a b hab) (latMaxA_ge_right _ _)

theorem octLatUpperBound_sound {R : Rnd} (hR : R.Sound) (n : Nat) (c1 c2 : Bool) (m1 m2 : Mat)
    {x : Nat → Rat} (h : x ∈ γO n m1 ∨ x ∈ γO n m2) :
    ∃ r, octLatUpperBound R n c1 m1 c2 m2 = some r ∧ r.dim = n ∧ x ∈ γO n r.m := by
  unfold octLatUpperBound
  rcases h with h | h
  · obtain ⟨x', cx, e1, hx'⟩ := octLatClose_sound hR.up_le n c1 m1 h
    cases e2 : octLatClose R.up n c2 m2 with
    | none => exact ⟨_, rfl, rfl, h⟩
    | some yc =>
      obtain ⟨y, cy⟩ := yc
      simp only [e1]
      exact ⟨_, rfl, rfl, octLatUpperBoundLoop_left hx'⟩
  · obtain ⟨y, cy, e2, hy⟩ := octLatClose_sound hR.up_le n c2 m2 h
    simp only [e2]
    cases e1 : octLatClose R.up n c1 m1 with
    | none => exact ⟨_, rfl, rfl, hy⟩
    | some xc =>
      obtain ⟨x', cx⟩ := xc
      exact ⟨_, rfl, rfl, octLatUpperBoundLoop_right hy⟩

/-! ## `add_space_dimensions_and_embed`, `add_space_dimensions_and_project` -/

theorem octLatGrow_gamma (n k : Nat) (m : Mat) (z : Nat → Rat) :
    z ∈ γO (n + k) (octLatGrow (2 * n) m) ↔ z ∈ γO n m := by
  constructor
  · intro h a b hab
    have := h a b ⟨by have := hab.1; omega, hab.2⟩
    simp only [octLatGrow] at this
    rw [if_pos hab.1] at this
    exact this
  · intro h a b hab
    simp only [octLatGrow]
    split
    · rename_i hc; exact h a b ⟨hc, hab.2⟩
    · exact le_pinf _

/-- `add_space_dimensions_and_embed(k)`: the new coordinates are unconstrained (every bound type) -/
theorem octLatEmbed_spec (R : Rnd) (n : Nat) (c : Bool) (m : Mat) (k : Nat) :
    ∃ r, octLatEmbed R n c m k = some r ∧ r.dim = n + k ∧ ∀ z, z ∈ γO (n + k) r.m ↔ z ∈ γO n m := by
  unfold octLatEmbed
  split
  · rename_i hk; subst hk
    exact ⟨_, rfl, rfl, fun z => Iff.rfl⟩
  · exact ⟨_, rfl, rfl, fun z => octLatGrow_gamma n k m z⟩

theorem octLatProjectLoop_apply (n k : Nat) (m : Mat) (a b : Nat) :
    loopUp k (fun t m => (m.set (2 * n + 2 * t) (2 * n + 2 * t + 1) (fin 0)).set (2 * n + 2 * t + 1)
        (2 * n + 2 * t) (fin 0)) m a b
      = if 2 * n ≤ a ∧ a < 2 * n + 2 * k ∧ b = cidx a then fin 0 else m a b := by
  induction k with
  | zero => simp only [loopUp]; rw [if_neg (by omega)]
  | succ k ih =>
    simp only [loopUp, Mat.set_apply, ih]
    unfold cidx
    split_ifs <;> first | rfl | omega

/-- `add_space_dimensions_and_project(k)`: the new coordinates are `0` (every bound type) -/
theorem octLatProject_spec (R : Rnd) (n : Nat) (c : Bool) (m : Mat) (k : Nat) :
    ∃ r, octLatProject R n c m k = some r ∧ r.dim = n + k ∧
      ∀ z, z ∈ γO (n + k) r.m ↔ (z ∈ γO n m ∧ ∀ i, n ≤ i → i < n + k → z i = 0) := by
  unfold octLatProject octLatEmbed
  by_cases hk : k = 0
  · subst hk
    simp only [if_true]
    exact ⟨_, rfl, rfl, fun z => ⟨fun h => ⟨h, fun i h1 h2 => by omega⟩, fun h => h.1⟩⟩
  · simp only [if_neg hk]
    refine ⟨_, rfl, rfl, fun z => ?_⟩
    have key := octLatProjectLoop_apply n k (octLatGrow (2 * n) m)
    constructor
    · intro h
      constructor
      · intro a b hab
        have := h a b ⟨by have := hab.1; omega, hab.2⟩
        rw [key, if_neg (by have := hab.1; omega)] at this
        simp only [octLatGrow] at this
        rw [if_pos hab.1] at this
        exact this
      · intro i h1 h2
        have e1 := h (2 * i) (2 * i + 1) ⟨by omega, by rw [rowSize_even]; omega⟩
        have e2 := h (2 * i + 1) (2 * i) ⟨by omega, by rw [rowSize_odd]; omega⟩
        rw [key, if_pos ⟨by omega, by omega, by rw [cidx_even]⟩] at e1
        rw [key, if_pos ⟨by omega, by omega, by rw [cidx_odd]⟩] at e2
        rw [oval_even, oval_odd, fin_le_fin] at e1 e2
        linarith
    · intro h a b hab
      rw [key]
      split
      · rename_i hc
        obtain ⟨h1, h2, rfl⟩ := hc
        have hz : z (a / 2) = 0 := h.2 (a / 2) (by omega) (by omega)
        have e1 : OctM.oval z a = 0 := by unfold OctM.oval; rw [hz]; simp
        have e2 : OctM.oval z (cidx a) = 0 := by
          unfold OctM.oval
          have : cidx a / 2 = a / 2 := by unfold cidx; split <;> omega
          rw [this, hz]; simp
        rw [e1, e2]; simp
      · simp only [octLatGrow]
        split
        · rename_i hc; exact h.1 a b ⟨hc, hab.2⟩
        · exact le_pinf _

/-! ## `remove_higher_space_dimensions` (soundness) -/

theorem octLatRemoveHigher_sound {R : Rnd} (hR : R.Sound) (n : Nat) (c : Bool) (m : Mat) (newDim : Nat)
    (hnd : newDim ≤ n) {x : Nat → Rat} (hx : x ∈ γO n m) :
    ∃ r, octLatRemoveHigher R n c m newDim = some r ∧ r.dim = newDim ∧ x ∈ γO newDim r.m := by
  unfold octLatRemoveHigher
  split
  · rename_i h; subst h; exact ⟨_, rfl, rfl, hx⟩
  · obtain ⟨m', c', e, hx'⟩ := octLatClose_sound hR.up_le n c m hx
    simp only [e]
    exact ⟨_, rfl, rfl, latGammaO_restrict hnd hx'⟩

end PPLV.WR
