import PPLV.WR.BoxTransProofsBase
import Mathlib.Tactic.NormNum
/-!
# C03 stage 4 — `refine_with_constraint` is NOT sound for `Double_Box`; before /repo dee742e
`propagate_constraint` emptied the box on the tautology `0 == 0`

1. `propagate_constraint_no_check` stores every coefficient `a_i` in the temporary boundary type
   (`assign_r(t_a, a_i, ROUND_DOWN/UP)`) and goes on with the *rounded* coefficient.  The fixed
   direction of that rounding errs on the safe side only for one sign of the bound of `x_i` that the
   coefficient multiplies (for `a_k`: of the numerator it divides); nothing in the code looks at
   that sign.  With `A ∈ [0, +∞)`, `B ∈ [1, 1]` and the constraint `A − 9007199254740993·B ≥ 0`
   (the coefficient `−(2^53 + 1)` is not a `double`; `ROUND_DOWN` stores `−(2^53 + 2)`, the lower
   bound `1` of `B` is positive, so the product is too small and the lower bound of `A` too big) the
   real `Double_Box` answers `A ∈ (9007199254740994, +∞)`: the point `A = 9007199254740993`, `B = 1`
   satisfies the constraint, lies in the box, and is cut away.  The model computes the same interval
   (`fail_compute`, checked by the kernel).  This is why the soundness theorems of
   `BoxTransProofsPropagate.lean` carry the hypothesis `CoeffsExact`.
2. HISTORICAL (repaired by /repo dee742e; KF-C03-64 fixed): the trivial case of
   `propagate_constraint_no_check` called `set_empty()` when the inhomogeneous term is `0` and the type
   is not `NONSTRICT_INEQUALITY`: that includes the EQUALITY `0 == 0`, which every point satisfies.
   `propagateConstraintNoCheckBeforeFix` is the function as it was written.
-/
set_option linter.unusedVariables false
namespace PPLV.WR.BoxT
open PPLV.Interval
open PPLV.Interval.ExtRat (ninf fin pinf)

/-- `A ∈ [0, +∞)`, `B ∈ [1, 1]` as a `Double_Box` stores it -/
def failBox : Box :=
  ⟨[⟨⟨fin 0, false⟩, ⟨pinf, true⟩⟩, ⟨⟨fin 1, false⟩, ⟨fin 1, false⟩⟩], false, true⟩
/-- `A − 9007199254740993·B ≥ 0` -/
def failCon : Con := ⟨⟨[1, -9007199254740993], 0⟩, .ge⟩
/-- `A = 2^53 + 1`, `B = 1` -/
def failPt : Nat → Rat := fun k => if k = 0 then 9007199254740993 else 1
/-- what the model (and the real library) answers: `A ∈ (9007199254740994, +∞)`, `B ∈ [1, 1]` -/
def failRes : Box :=
  ⟨[⟨⟨fin 9007199254740994, true⟩, ⟨pinf, true⟩⟩, ⟨⟨fin 1, false⟩, ⟨fin 1, false⟩⟩], false, false⟩

theorem failBox_universe_hi : failBox.get 0 = ⟨⟨fin 0, false⟩, (Iv.universe Policy.floating).hi⟩ := by decide +kernel

theorem fail_compute : refineWithConstraint Cfg.dbl failBox failCon = failRes := by decide +kernel

theorem failPt_mem : failBox.mem Cfg.dbl.p failPt := by
  refine ⟨rfl, ?_⟩
  intro k hk
  have hk2 : k < 2 := hk
  rcases k with _ | _ | k
  · constructor
    · show lowerOkV (fin 0) false (9007199254740993 : Rat)
      norm_num
    · show upperOkV pinf true (9007199254740993 : Rat)
      simp
  · constructor
    · show lowerOkV (fin 1) false (1 : Rat)
      norm_num
    · show upperOkV (fin 1) false (1 : Rat)
      norm_num
  · omega

theorem failPt_holds : failCon.holds failPt := by
  show (0 : Rat) ≤ LinExpr.eval ⟨[1, -9007199254740993], 0⟩ failPt
  norm_num [LinExpr.eval, LinExpr.dot, failPt]

theorem failPt_not_mem : ¬ failRes.mem Cfg.dbl.p failPt := by
  intro h
  have h0 := (h.2 0 (by decide)).1
  have : lowerOkV (fin 9007199254740994) true (9007199254740993 : Rat) := h0
  norm_num at this

/-- soundness of `refine_with_constraint` fails for `Double_Box` -/
theorem refineWithConstraint_sound_fails :
    ¬ (∀ (b : Box) (c : Con) (x : Nat → Rat), c.e.WF b.dim → b.mem Cfg.dbl.p x → c.holds x →
      (refineWithConstraint Cfg.dbl b c).mem Cfg.dbl.p x) := by
  intro h
  have := h failBox failCon failPt (by simp [LinExpr.WF, failCon, failBox, Box.dim]) failPt_mem failPt_holds
  rw [fail_compute] at this
  exact failPt_not_mem this

theorem not_refineSound_dbl : ¬ RefineSound Cfg.dbl := refineWithConstraint_sound_fails

/-- the coefficient of the witness is indeed not a value of the temporary type -/
theorem failCon_not_coeffsExact : ¬ CoeffsExact Cfg.dbl.TR failCon.e := by
  intro h
  have := (h (-9007199254740993) (by decide)).1
  revert this
  decide +kernel

/-! ### the tautology `0 == 0` (as written before /repo dee742e, KF-C03-64) -/

/-- the old `propagate_constraint_no_check` on the equality `0 == 0` empties the box (all instantiations) -/
theorem propagateConstraintNoCheckBeforeFix_trivialEq (cfg : Cfg) (b : Box) :
    propagateConstraintNoCheckBeforeFix cfg b ⟨⟨[], 0⟩, .eq⟩ = b.setEmpty := rfl

/-- … the repaired one leaves it alone, and empties it on the inconsistent `5 == 0` (which the old one missed) -/
theorem propagateConstraintNoCheck_trivialEq (cfg : Cfg) (b : Box) :
    propagateConstraintNoCheck cfg b ⟨⟨[], 0⟩, .eq⟩ = b ∧ propagateConstraintNoCheck cfg b ⟨⟨[], 5⟩, .eq⟩ = b.setEmpty
      ∧ propagateConstraintNoCheckBeforeFix cfg b ⟨⟨[], 5⟩, .eq⟩ = b := ⟨rfl, rfl, rfl⟩

/-- the two differ on trivial constraints only -/
theorem propagateConstraintNoCheckBeforeFix_eq (cfg : Cfg) (b : Box) (c : Con) (h : c.e.terms ≠ []) :
    propagateConstraintNoCheckBeforeFix cfg b c = propagateConstraintNoCheck cfg b c := by
  unfold propagateConstraintNoCheckBeforeFix propagateConstraintNoCheck
  split
  · rename_i ht; exact absurd ht h
  · rfl

theorem propagateConstraintNoCheck_trivial_eq_before_fix_fails :
    ¬ (∀ (b : Box) (c : Con) (x : Nat → Rat), c.e.WF b.dim → CoeffsExact Cfg.mpq.TR c.e → b.mem Cfg.mpq.p x →
      c.holds x → (propagateConstraintNoCheckBeforeFix Cfg.mpq b c).mem Cfg.mpq.p x) := by
  intro h
  have hm : (Box.univ Policy.rational 1).mem Cfg.mpq.p (fun _ => 0) := by
    refine ⟨rfl, fun k hk => ?_⟩
    have hk1 : k < 1 := hk
    have : k = 0 := by omega
    subst this
    exact ⟨trivial, trivial⟩
  have := h (Box.univ Policy.rational 1) ⟨⟨[], 0⟩, .eq⟩ (fun _ => 0) (by simp [LinExpr.WF])
    (fun a ha => by simp at ha) hm
    (by show LinExpr.eval ⟨[], 0⟩ _ = 0; simp [LinExpr.eval, LinExpr.dot])
  exact absurd this.1 (by decide)

end PPLV.WR.BoxT
