import PPLV.WR.TransOct2ProofsImage
/-!
# `Octagonal_Shape<T>::refine(var, relsym, expr, denominator)` (private): soundness

Every point `x` of the (strongly closed) octagon with `x_var relsym expr(x)/den` stays in the refined octagon —
except in the branch of the open finding KF-C03-75/76 (`GREATER_OR_EQUAL`, general case, exactly one variable `u`
unbounded on the needed side, `expr.coefficient(u) == denominator`, `u > var`), where the code stores the cell of
`v + u <= sum` instead of `u - v <= sum` (`octRefineVar_sound_fails`).  `OctRefineOK` excludes it.
-/
set_option linter.unusedVariables false
set_option linter.unusedSimpArgs false
set_option linter.unusedTactic false
namespace PPLV.WR
open ExtRat

/-- the repaired cell is modelled (`fx`), or the relation is not `≥`, or no variable after `var` has the
coefficient `den`: the branch of KF-C03-75 is not taken -/
def OctRefineOK (fx : Bool) (vid : Nat) (rel : RelSym) (e : Nat → Int) (den : Int) : Prop :=
  fx = true ∨ rel ≠ .ge ∨ ∀ u, vid < u → e u ≠ den

theorem octExprT_le_two (e : Nat → Int) (w : Nat) : exprT e w ≤ 2 := by
  unfold exprT; split_ifs <;> omega

theorem octScExpr_zero {e : Nat → Int} {den : Int} {p : Nat} (h : e p = 0) : scExpr e den p = 0 := by
  unfold scExpr; split <;> simp [h]

theorem octUnaryEq_refl (v : Nat) (m : Mat) : OUnaryEq v m m := fun _ _ => ⟨rfl, rfl⟩

theorem octUnaryEq_addDbm {v : Nat} (m : Mat) {i j : Nat} (k : ExtRat)
    (hij : (i = 2 * v ∨ i = 2 * v + 1) ∧ (j = 2 * v ∨ j = 2 * v + 1)) : OUnaryEq v (addDbmConstraint m i j k) m := by
  intro u hu
  rw [addDbm_apply, addDbm_apply, if_neg (by omega), if_neg (by omega)]
  exact ⟨rfl, rfl⟩

/-! ## the general case, by relation symbol -/

def octRefGenEq (R : Rnd) (vid wid : Nat) (sc : Nat → Int) (scb mscb scd : Int) (m : Mat) : Mat × Bool :=
  let pn := loopUp (wid + 1) (fun i (pq : Acc × Acc) =>
      (octAccStep R m sc true i pq.1, octAccStep R m sc false i pq.2))
    (⟨R.up (scb : Rat), 0, 0⟩, ⟨R.up (mscb : Rat), 0, 0⟩)
  if pn.1.cnt > 1 ∧ pn.2.cnt > 1 then (m, true)
  else (octExploitLower R vid wid sc scd pn.2 (octExploitUpper R vid wid sc scd pn.1 m), false)

def octRefGenLe (R : Rnd) (vid wid : Nat) (e : Nat → Int) (den : Int) (sc : Nat → Int) (scb scd : Int) (m : Mat) :
    Mat × Bool :=
  let st := loopUp (wid + 1) (octAccStepG R m sc true) ⟨R.up (scb : Rat), 0, 0⟩
  let sum := if scd ≠ 1 then divRoundUpByPositive R st.sum scd else st.sum
  if st.cnt = 0 then
    let mf := octAddF (m, true) (2 * vid + 1) (2 * vid) (mulTwoUp R.up sum)
    (deduceVPmU R.up vid wid sc scd sum mf.1, mf.2)
  else if st.cnt = 1 then
    if e st.idx = den then
      if vid < st.idx then octAddF (m, true) (2 * st.idx) (2 * vid) sum
      else octAddF (m, true) (2 * vid + 1) (2 * st.idx + 1) sum
    else if e st.idx = - den then
      if vid < st.idx then octAddF (m, true) (2 * st.idx + 1) (2 * vid) sum
      else octAddF (m, true) (2 * vid + 1) (2 * st.idx) sum
    else (m, true)
  else (m, true)

def octRefGenGe (fx : Bool) (R : Rnd) (vid wid : Nat) (e : Nat → Int) (den : Int) (sc : Nat → Int) (mscb scd : Int)
    (m : Mat) : Mat × Bool :=
  let st := loopUp (wid + 1) (octAccStepG R m sc false) ⟨R.up (mscb : Rat), 0, 0⟩
  let sum := if scd ≠ 1 then divRoundUpByPositive R st.sum scd else st.sum
  if st.cnt = 0 then
    let mf := octAddF (m, true) (2 * vid) (2 * vid + 1) (mulTwoUp R.up sum)
    (deduceMinusVPmU R.up vid st.idx sc scd sum mf.1, mf.2)
  else if st.cnt = 1 then
    if e st.idx = den then
      if st.idx < vid then octAddF (m, true) (2 * vid) (2 * st.idx) sum
      else octAddF (m, true) (2 * st.idx + 1) (if fx then 2 * vid + 1 else 2 * vid) sum
    else if e st.idx = - den then
      if st.idx < vid then octAddF (m, true) (2 * vid) (2 * st.idx + 1) sum
      else octAddF (m, true) (2 * st.idx) (2 * vid + 1) sum
    else (m, true)
  else (m, true)

section
variable {R : Rnd} {n vid wid : Nat} {sc : Nat → Int} {scb mscb scd : Int} {m : Mat} {x : Nat → Rat}

theorem octRefGenEq_sound (hR : R.Sound) (hv : vid < n) (hw : wid < n) (hc : CoeffExact R sc)
    (hm : (mscb : Rat) = -(scb : Rat)) (hd : 0 < scd) (hh : HalfFiniteOn R.up m)
    (hx : Holds (SO n) (OctM.oval x) m)
    (hval : x vid = (linEval sc x (wid + 1) + (scb : Rat)) / (scd : Rat)) :
    Holds (SO n) (OctM.oval x) (octRefGenEq R vid wid sc scb mscb scd m).1 := by
  unfold octRefGenEq
  dsimp only
  rw [loopUp_prod, octAccStep_false]
  have hpos := octAccLoop_inv hR hc _ (OAccInv.init hR m (wid + 1) sc (rfl : (scb : Rat) = scb)) _ le_rfl
  have hneg := octAccLoop_inv hR hc.neg _ (OAccInv.init hR m (wid + 1) (fun i => - sc i) hm.symm) _ le_rfl
  have hxs : Holds (SO n) (OctM.oval (upd x vid (x vid))) m := by rw [oupd_self]; exact hx
  split
  · exact hx
  · dsimp only
    have h1 := octExploitUpper_holds hR hh hw hd hx (le_of_eq hval) hxs (octUnaryEq_refl vid m) hpos
    have h2 := octExploitLower_holds hR hh hw hd hx (le_of_eq hval.symm) h1 (by
      intro u hu
      rw [octExploitUpper_frame _ _ _ _ _ _ _ _ _ (by omega) (by omega),
        octExploitUpper_frame _ _ _ _ _ _ _ _ _ (by omega) (by omega)]
      exact ⟨rfl, rfl⟩) hneg
    rw [oupd_self] at h2
    exact h2

theorem octRefGenLe_sound (hR : R.Sound) (hv : vid < n) (hw : wid < n) {e : Nat → Int} {den : Int}
    (hc : CoeffExact R sc) (hd : 0 < scd)
    (hsc : ∀ i, (e i = den ↔ sc i = scd) ∧ (e i = - den ↔ sc i = - scd)) (hsv : sc vid = 0)
    (hh : HalfFiniteOn R.up m) (hx : Holds (SO n) (OctM.oval x) m)
    (hval : x vid ≤ (linEval sc x (wid + 1) + (scb : Rat)) / (scd : Rat)) :
    Holds (SO n) (OctM.oval x) (octRefGenLe R vid wid e den sc scb scd m).1 := by
  unfold octRefGenLe
  dsimp only
  have hst := octAccLoopG_inv hR hc _ (OAccInv.init hR m (wid + 1) sc (rfl : (scb : Rat) = scb)) _ le_rfl
  generalize loopUp (wid + 1) (octAccStepG R m sc true) ⟨R.up (scb : Rat), 0, 0⟩ = st at *
  have hxs : Holds (SO n) (OctM.oval (upd x vid (x vid))) m := by rw [oupd_self]; exact hx
  have hs : ∀ S' : Rat, fin S' ≤ st.sum →
      fin (S' / (scd : Rat)) ≤ (if scd ≠ 1 then divRoundUpByPositive R st.sum scd else st.sum) :=
    fun S' h => fin_le_quot hR hd h
  split
  · rename_i h0
    dsimp only
    rw [octAddF_fst]
    have := oupper_deduce (vid := vid) hR hh hw hd hx hval
      (m' := addDbmConstraint m (2 * vid + 1) (2 * vid)
        (mulTwoUp R.up (if scd ≠ 1 then divRoundUpByPositive R st.sum scd else st.sum))) ?_ ?_
      (hst.c0 h0) (hst.f0p h0) (hst.f0n h0) hs
    · rw [oupd_self] at this; exact this
    · refine holds_addDbm hxs (fun _ => ?_)
      rw [oupd_self, oval_even, oval_odd]
      have := hs _ (hst.c0 h0 x (obox_of_holds hR hx (by omega)))
      rw [add_comm] at this
      have h2 := fin_le_mulTwoUp hR.up_le (le_trans' (fin_le_fin.2 hval) this)
      have e : x vid - -x vid = 2 * x vid := by ring
      rw [e]; exact h2
    · exact octUnaryEq_addDbm m _ ⟨Or.inr rfl, Or.inl rfl⟩
  · rename_i h0
    split
    · rename_i h1
      obtain ⟨hi, hc1⟩ := hst.c1 h1
      have hn1 := hst.n1 h1
      have hpv : st.idx ≠ vid := by intro h; rw [h] at hn1; exact hn1 hsv
      have hb := hs _ (hc1 x (obox_of_holds hR hx (by omega)))
      split
      · rename_i hcond
        have hvb := le_trans' (fin_le_fin.2 (osingle_pos hd hval hi ((hsc _).1.1 hcond))) hb
        split <;> rw [octAddF_fst] <;> refine holds_addDbm hx (fun _ => ?_)
        · rw [oval_even, oval_even]; exact hvb
        · rw [oval_odd, oval_odd]
          have e : -x st.idx - -x vid = x vid - x st.idx := by ring
          rw [e]; exact hvb
      · split
        · rename_i hcond
          have hvb := le_trans' (fin_le_fin.2 (osingle_neg hd hval hi ((hsc _).2.1 hcond))) hb
          split <;> rw [octAddF_fst] <;> refine holds_addDbm hx (fun _ => ?_)
          · rw [oval_even, oval_odd]
            have e : x vid - -x st.idx = x vid + x st.idx := by ring
            rw [e]; exact hvb
          · rw [oval_odd, oval_even]
            have e : x st.idx - -x vid = x vid + x st.idx := by ring
            rw [e]; exact hvb
        · exact hx
    · exact hx

theorem octRefGenGe_sound (fx : Bool) (hR : R.Sound) (hv : vid < n) (hw : wid < n) {e : Nat → Int} {den : Int}
    (hc : CoeffExact R sc) (hm : (mscb : Rat) = -(scb : Rat)) (hd : 0 < scd)
    (hsc : ∀ i, (e i = den ↔ sc i = scd) ∧ (e i = - den ↔ sc i = - scd)) (hsv : sc vid = 0)
    (hok : fx = true ∨ ∀ u, vid < u → e u ≠ den)
    (hh : HalfFiniteOn R.up m) (hx : Holds (SO n) (OctM.oval x) m)
    (hval : (linEval sc x (wid + 1) + (scb : Rat)) / (scd : Rat) ≤ x vid) :
    Holds (SO n) (OctM.oval x) (octRefGenGe fx R vid wid e den sc mscb scd m).1 := by
  unfold octRefGenGe
  dsimp only
  rw [octAccStepG_false]
  have hst := octAccLoopG_inv hR hc.neg _ (OAccInv.init hR m (wid + 1) (fun i => - sc i) hm.symm) _ le_rfl
  have hidx := octAccLoopG_idx0 R m (fun i => - sc i) true (R.up (mscb : Rat)) (wid + 1)
  generalize loopUp (wid + 1) (octAccStepG R m (fun j => - sc j) true) ⟨R.up (mscb : Rat), 0, 0⟩ = st at *
  have hxs : Holds (SO n) (OctM.oval (upd x vid (x vid))) m := by rw [oupd_self]; exact hx
  have hs : ∀ S' : Rat, fin S' ≤ st.sum →
      fin (S' / (scd : Rat)) ≤ (if scd ≠ 1 then divRoundUpByPositive R st.sum scd else st.sum) :=
    fun S' h => fin_le_quot hR hd h
  split
  · rename_i h0
    dsimp only
    rw [octAddF_fst, hidx h0]
    have := octLower_deduce0 (vid := vid) hR hh hw hd hx hval
      (m' := addDbmConstraint m (2 * vid) (2 * vid + 1)
        (mulTwoUp R.up (if scd ≠ 1 then divRoundUpByPositive R st.sum scd else st.sum))) ?_ ?_
      (hst.c0 h0) (hst.f0p h0) (hst.f0n h0) hs
    · rw [oupd_self] at this; exact this
    · refine holds_addDbm hxs (fun _ => ?_)
      rw [oupd_self, oval_even, oval_odd]
      have := hs _ (hst.c0 h0 x (obox_of_holds hR hx (by omega)))
      rw [linEval_neg] at this
      have e1 : (-(scb : Rat) + -linEval sc x (wid + 1)) / (scd : Rat)
          = -((linEval sc x (wid + 1) + scb) / scd) := by ring
      rw [e1] at this
      have h2 := fin_le_mulTwoUp hR.up_le (le_trans' (fin_le_fin.2 (by linarith : -x vid ≤ _)) this)
      have e : -x vid - x vid = 2 * -x vid := by ring
      rw [e]; exact h2
    · exact octUnaryEq_addDbm m _ ⟨Or.inl rfl, Or.inr rfl⟩
  · rename_i h0
    split
    · rename_i h1
      obtain ⟨hi, hc1⟩ := hst.c1 h1
      have hn1 := hst.n1 h1
      have hpv : st.idx ≠ vid := by
        intro h; rw [h] at hn1; apply hn1; simp only [hsv, neg_zero]
      have hb := hs _ (hc1 x (obox_of_holds hR hx (by omega)))
      split
      · rename_i hcond
        have hvb := le_trans' (fin_le_fin.2 (osingle_low_pos hd hval hi ((hsc _).1.1 hcond))) hb
        split
        · rw [octAddF_fst]; refine holds_addDbm hx (fun _ => ?_)
          rw [oval_even, oval_even]; exact hvb
        · rename_i hlt
          have hfx : fx = true := by
            rcases hok with h | h
            · exact h
            · exact absurd hcond (h _ (by omega))
          rw [hfx]
          simp only [↓reduceIte]
          rw [octAddF_fst]; refine holds_addDbm hx (fun _ => ?_)
          rw [oval_odd, oval_odd]
          have e : -x vid - -x st.idx = x st.idx - x vid := by ring
          rw [e]; exact hvb
      · split
        · rename_i hcond
          have hvb := le_trans' (fin_le_fin.2 (osingle_low_neg hd hval hi ((hsc _).2.1 hcond))) hb
          split <;> rw [octAddF_fst] <;> refine holds_addDbm hx (fun _ => ?_)
          · rw [oval_even, oval_odd]; exact hvb
          · rw [oval_odd, oval_even]
            have e : -x vid - x st.idx = -x st.idx - x vid := by ring
            rw [e]; exact hvb
        · exact hx
    · exact hx

end

/-! ## `refine(var, relsym, expr, den)` -/

theorem octRefineVarV_sound (fx : Bool) {R : Rnd} (hR : R.Sound) {n vid : Nat} (hv : vid < n) {e : Nat → Int}
    (hc : CoeffExact R e) (hev : e vid = 0) {b den : Int} (hden : den ≠ 0) {m : Mat}
    (hh : HalfFiniteOn R.up m) {x : Nat → Rat} (hx : x ∈ γO n m) (rel : RelSym)
    (hok : OctRefineOK fx vid rel e den)
    (ht : rel.holds (x vid) ((linEval e x n + b) / den)) :
    x ∈ γO n (octRefineVarV fx R n vid rel e b den m).1 := by
  have hx' : Holds (SO n) (OctM.oval x) m := hx
  show Holds (SO n) (OctM.oval x) _
  have hdn := div_negden b den
  have ov0 : OctM.oval x (2 * vid) = x vid := oval_even x vid
  have ov1 : OctM.oval x (2 * vid + 1) = - x vid := oval_odd x vid
  unfold octRefineVarV
  dsimp only
  by_cases h0 : exprT e (lastNonzero e n) = 0
  · -- `t == 0`
    have hval := linEval_t0 x h0
    rw [hval, zero_add] at ht
    have hT : (if exprT e (lastNonzero e n) = 1 ∧ e (lastNonzero e n - 1) ≠ den ∧ e (lastNonzero e n - 1) ≠ - den
        then 2 else exprT e (lastNonzero e n)) = 0 := by rw [if_neg (by omega)]; exact h0
    rw [hT]
    simp only [↓reduceIte]
    cases rel with
    | eq =>
      have ht' : x vid = (b : Rat) / den := ht
      simp only [octAddQF_fst]
      refine holds_addDbmQ hR (holds_addDbmQ hR hx' ?_) ?_
      · rw [ov0, ov1, two_mul_div]; linarith
      · rw [ov0, ov1, two_mul_div_neg]; linarith
    | le =>
      have ht' : x vid ≤ (b : Rat) / den := ht
      simp only [octAddQF_fst]
      refine holds_addDbmQ hR hx' ?_
      rw [ov0, ov1, two_mul_div]; linarith
    | ge =>
      have ht' : (b : Rat) / den ≤ x vid := ht
      simp only [octAddQF_fst]
      refine holds_addDbmQ hR hx' ?_
      rw [ov0, ov1, two_mul_div_neg]; linarith
  · by_cases h1 : exprT e (lastNonzero e n) = 1 ∧
        (e (lastNonzero e n - 1) = den ∨ e (lastNonzero e n - 1) = - den)
    · -- `t == 1`, `expr == ±den*w + b`
      have hT : (if exprT e (lastNonzero e n) = 1 ∧ e (lastNonzero e n - 1) ≠ den ∧ e (lastNonzero e n - 1) ≠ - den
          then 2 else exprT e (lastNonzero e n)) = 1 := by
        rw [if_neg (by intro h; rcases h1.2 with g | g; exact h.2.1 g; exact h.2.2 g)]; exact h1.1
      rw [hT]
      simp only [↓reduceIte, show ¬ (1 : Nat) = 0 by omega]
      obtain ⟨hw0, hE⟩ := linEval_t1 x h1.1
      have hwn := lastNonzero_le e n
      rw [hE] at ht
      have ha := h1.2
      generalize lastNonzero e n = w at *
      obtain ⟨k, rfl⟩ : ∃ k, w = k + 1 := ⟨w - 1, by omega⟩
      simp only [Nat.add_sub_cancel] at *
      have hkv : k ≠ vid := by
        intro h; rw [h, hev] at ha; omega
      have ovk0 : OctM.oval x (2 * k) = x k := oval_even x k
      have ovk1 : OctM.oval x (2 * k + 1) = - x k := oval_odd x k
      by_cases ha1 : e k = den
      · rw [special_val_pos hden ha1] at ht
        cases rel with
        | eq =>
          have ht' : x vid = x k + (b : Rat) / den := ht
          simp only [if_pos ha1, octAddQF_fst]
          split <;> simp only [octAddQF_fst] <;> refine holds_addDbmQ hR (holds_addDbmQ hR hx' ?_) ?_
          · rw [ov0, ovk0]; linarith
          · rw [ov1, ovk1, hdn]; linarith
          · rw [ov1, ovk1]; linarith
          · rw [ov0, ovk0, hdn]; linarith
        | le =>
          have ht' : x vid ≤ x k + (b : Rat) / den := ht
          simp only [if_pos ha1]
          split <;> rw [octAddF_fst] <;> refine holds_addDbm hx' (fun _ => fin_le_divRoundUp hR ?_)
          · rw [ov0, ovk0]; linarith
          · rw [ov1, ovk1]; linarith
        | ge =>
          have ht' : x k + (b : Rat) / den ≤ x vid := ht
          simp only [if_pos ha1]
          split <;> rw [octAddF_fst] <;> refine holds_addDbm hx' (fun _ => fin_le_divRoundUp hR ?_)
          · rw [ov1, ovk1, hdn]; linarith
          · rw [ov0, ovk0, hdn]; linarith
      · have ha2 := ha.resolve_left ha1
        rw [special_val_neg hden ha2] at ht
        cases rel with
        | eq =>
          have ht' : x vid = - x k + (b : Rat) / den := ht
          simp only [if_neg ha1, octAddQF_fst]
          split <;> simp only [octAddQF_fst] <;> refine holds_addDbmQ hR (holds_addDbmQ hR hx' ?_) ?_
          · rw [ov0, ovk1]; linarith
          · rw [ov1, ovk0, hdn]; linarith
          · rw [ov1, ovk0]; linarith
          · rw [ov0, ovk1, hdn]; linarith
        | le =>
          have ht' : x vid ≤ - x k + (b : Rat) / den := ht
          simp only [if_neg ha1, if_pos ha2]
          split <;> rw [octAddF_fst] <;> refine holds_addDbm hx' (fun _ => fin_le_divRoundUp hR ?_)
          · rw [ov0, ovk1]; linarith
          · rw [ov1, ovk0]; linarith
        | ge =>
          have ht' : - x k + (b : Rat) / den ≤ x vid := ht
          simp only [if_neg ha1, if_pos ha2]
          split <;> rw [octAddF_fst] <;> refine holds_addDbm hx' (fun _ => fin_le_divRoundUp hR ?_)
          · rw [ov1, ovk0, hdn]; linarith
          · rw [ov0, ovk1, hdn]; linarith
    · -- general case
      have hT : (if exprT e (lastNonzero e n) = 1 ∧ e (lastNonzero e n - 1) ≠ den ∧ e (lastNonzero e n - 1) ≠ - den
          then 2 else exprT e (lastNonzero e n)) = 2 := by
        have := octExprT_le_two e (lastNonzero e n)
        by_cases h : exprT e (lastNonzero e n) = 1
        · rw [if_pos ⟨h, fun g => h1 ⟨h, Or.inl g⟩, fun g => h1 ⟨h, Or.inr g⟩⟩]
        · rw [if_neg (fun g => h g.1)]; omega
      rw [hT]
      simp only [show ¬ (2 : Nat) = 0 by omega, show ¬ (2 : Nat) = 1 by omega, ↓reduceIte]
      have hw0 : lastNonzero e n ≠ 0 := by
        intro h; apply h0; unfold exprT; rw [if_pos h]
      have hwn := lastNonzero_le e n
      have hval := sc_value e x n b den
      have hw1 : lastNonzero e n = (lastNonzero e n - 1) + 1 := by omega
      rw [hw1] at hval
      generalize lastNonzero e n - 1 = wid at *
      have hw : wid < n := by omega
      have hd := scDen_pos hden
      have hsc := octScTests (e := e) hden
      have hsv : scExpr e den vid = 0 := octScExpr_zero hev
      rw [hval] at ht
      cases rel with
      | eq =>
        exact octRefGenEq_sound hR hv hw (hc.sc den) (minus_scb_cast b den) hd hh hx' ht
      | le =>
        exact octRefGenLe_sound hR hv hw (hc.sc den) hd hsc hsv hh hx' ht
      | ge =>
        have hok' : fx = true ∨ ∀ u, vid < u → e u ≠ den := by
          rcases hok with h | h | h
          · exact Or.inl h
          · exact absurd rfl h
          · exact Or.inr h
        exact octRefGenGe_sound fx hR hv hw (hc.sc den) (minus_scb_cast b den) hd hsc hsv hok' hh hx' ht

end PPLV.WR
