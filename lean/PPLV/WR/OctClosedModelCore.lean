import PPLV.WR.OctClosedModelSweep
/-!
# The matrix of `strong_closure_assign` before the emptiness test is closed and coherent (full view)

Given `OctTwoClosed` (two passes of weak steps close a zero-diagonal matrix) and a silent emptiness test, the full view
of `octCore fin n m.e` is `Closed (2n)` and coherent.
-/
namespace PPLV.WR.OCM
open ExtRat

/-- the full view after "fill the diagonal with zeros" is `octFull` -/
theorem fv_diagUp_zero (n : Nat) (m : Mat) :
    EqOn (2 * n) (fv (Mat.diagUp (2 * n) (fin 0) m)) { f := octFull m } := by
  intro i j hi hj
  show (Mat.diagUp (2 * n) (fin 0) m).mAt i j = octFull m i j
  unfold octFull
  by_cases hs : j < rowSize i
  · rw [mAt_stored _ hs, Mat.diagUp_apply]
    by_cases hij : i = j
    · rw [if_pos ⟨hij, hi⟩, if_pos hij]
    · rw [if_neg (fun h => hij h.1), if_neg hij, mAt_stored _ hs]
  · have hij : i ≠ j := by
      intro h; subst h; exact hs (by unfold rowSize; omega)
    have hc : cidx j ≠ cidx i := fun h => hij (cidx_inj h).symm
    rw [mAt_unstored _ hs, Mat.diagUp_apply, if_neg (fun h => hc h.1), if_neg hij, mAt_unstored _ hs]

theorem cohM_octFull (N : Nat) (m : Mat) : CohM N { f := octFull m } :=
  fun i j _ _ => octFull_coh m i j

theorem isNeg_false_le {x : ExtRat} (h : x.isNeg = false) : fin 0 ≤ x := by
  cases x with
  | pinf => exact le_pinf _
  | fin q =>
    simp only [isNeg, decide_eq_false_iff_not, not_lt] at h
    exact fin_le_fin.2 h

/-- `octCore` on the full view is `octTwo` of `octFull` -/
theorem fv_octCore (n : Nat) (m : Mat) :
    EqOn (2 * n) (fv (octCore fin n m)) (octTwo n { f := octFull m }) ∧
      CohM (2 * n) (octTwo n { f := octFull m }) := by
  unfold octCore
  exact fv_octLoops (cohM_octFull _ m) (fv_diagUp_zero n m)

/-- exact arithmetic, test silent: the full view of the matrix before "restore `+∞`" is closed and coherent -/
theorem core_closed (hT : OctTwoClosed) {n : Nat} (m : OctM n) (hne : OctM.strongClosureEmpty upId m = false) :
    Closed (2 * n) (fv (octCore fin n m.e)) ∧ CohM (2 * n) (fv (octCore fin n m.e)) := by
  obtain ⟨he, hc⟩ := fv_octCore n m.e
  have hnd := (negDiag_false_iff (2 * n) _).1 hne
  have hcl := hT n { f := octFull m.e } (fun i _ => octFull_self m.e i) (by
    intro i hi
    rw [← he i i hi hi, fv_apply, mAt_stored _ (by unfold rowSize; omega)]
    exact isNeg_false_le (hnd i hi))
  exact ⟨closed_congr he hcl, hc.congr he⟩

end PPLV.WR.OCM
