import PPLV.WR.ReduceOctProofsLeaders
/-!
# Octagon reduction: the four-argument `compute_leaders` (O2 (c)): the non-singular leaders in increasing
order (coherent pairs), the singular class and its least element
-/
namespace PPLV.WR
open ExtRat (fin pinf)

section closed
variable {n : Nat} (c : OctM n) (hc : c.IsStronglyClosed)
variable {succ lead : Nat → Nat} (hs : IsOctSucc (2 * n) c.e succ) (hl : IsOctLead (2 * n) c.e lead)

include hc hs in
/-- an index with a class-mate below it is the successor of one of them -/
theorem IsOctSucc.exists_pred {i : Nat} (hi : i < 2 * n) :
    ∀ d j, i - j ≤ d → j < i → OZEq c.e j i → ∃ i', i' < i ∧ succ i' = i := by
  intro d
  induction d with
  | zero => intro j h1 h2; omega
  | succ d ih =>
    intro j h1 h2 hz
    have hge := hs.ge j
    have hne : succ j ≠ j := fun e => hs.self j i e h2 hi hz.symm
    have hle : succ j ≤ i := by
      by_cases h : i < succ j
      · exact absurd hz.symm (hs.between j i h2 h)
      · omega
    by_cases e : succ j = i
    · exact ⟨j, h2, e⟩
    · have hsj : succ j < 2 * n := by omega
      exact ih (succ j) (by omega) (by omega) (OZEq.trans c hc hsj (by omega) hi (hs.zeq j) hz)

include hc hs hl in
/-- `dealt_with[i]` is still clear when row `i` is visited iff `i` is a leader -/
theorem IsOctSucc.leader_iff {i : Nat} (hi : i < 2 * n) :
    (¬ ∃ i', i' < i ∧ succ i' = i) ↔ lead i = i := by
  constructor
  · intro h
    by_cases e : lead i = i
    · exact e
    · have := hl.le i hi
      exact absurd (hs.exists_pred c hc hi (i - lead i) (lead i) (Nat.le_refl _) (by omega) (hl.zeq i hi)) h
  · rintro e ⟨i', h1, h2⟩
    have hz : OZEq c.e i' i := by have := hs.zeq i'; rw [h2] at this; exact this.symm
    have := hl.least i i' hi (by omega) hz
    omega

include hs hl in
/-- the test `next_i == coherent_index(i)` on a leader -/
theorem IsOctSucc.sing_iff {i : Nat} (hi : i < 2 * n) (hli : lead i = i) :
    succ i = cidx i ↔ OZEq c.e i (cidx i) := by
  constructor
  · intro e; have := hs.zeq i; rw [e] at this; exact this.symm
  · intro hz
    have hci : cidx i < 2 * n := cidx_lt hi
    have h1 := hl.least i (cidx i) hi hci hz.symm
    rw [hli] at h1
    have hsp := cidx_spec i
    have hlt : i < cidx i := by omega
    have hne : succ i ≠ i := fun e => hs.self i (cidx i) e hlt hci hz.symm
    have hge := hs.ge i
    by_cases h : cidx i < succ i
    · exact absurd hz.symm (hs.between i (cidx i) hlt h)
    · omega

/-- the filter of the non-singular leaders -/
def nslP (m : Mat) (lead : Nat → Nat) (i : Nat) : Bool := lead i == i && !(decide (OZEq m i (cidx i)))

theorem nslP_iff (m : Mat) (lead : Nat → Nat) (i : Nat) :
    nslP m lead i = true ↔ lead i = i ∧ ¬ OZEq m i (cidx i) := by
  unfold nslP; simp

/-- invariant of the loop of the four-argument `compute_leaders` after `r` rows -/
structure L4Inv (m : Mat) (succ lead : Nat → Nat) (r : Nat) (st : OctLeaders × BVec) : Prop where
  dealt : ∀ k, st.2 k = true ↔ ∃ i, i < r ∧ succ i = k
  nsl : st.1.no_sing_leaders = (List.range r).filter (nslP m lead)
  ex : st.1.exist_sing_class = true ↔ ∃ i, i < r ∧ lead i = i ∧ OZEq m i (cidx i)
  sl : st.1.exist_sing_class = true →
    st.1.sing_leader < r ∧ lead st.1.sing_leader = st.1.sing_leader ∧ OZEq m st.1.sing_leader (cidx st.1.sing_leader)

def l4Step (successor : Nat → Nat) (i : Nat) (st : OctLeaders × BVec) : OctLeaders × BVec :=
  let next_i := successor i
  let out :=
    if !st.2 i then
      if next_i = cidx i then { st.1 with exist_sing_class := true, sing_leader := i }
      else { st.1 with no_sing_leaders := st.1.no_sing_leaders ++ [i] }
    else st.1
  (out, st.2.set next_i true)

theorem octComputeLeaders4_eq (rows : Nat) (successor : Vec) :
    octComputeLeaders4 rows successor = (loopUp rows (l4Step successor) ({}, BVec.const false)).1 := rfl

include hc hs hl in
theorem l4_inv (r : Nat) (hr : r ≤ 2 * n) :
    L4Inv c.e succ lead r (loopUp r (l4Step succ) ({}, BVec.const false)) := by
  induction r with
  | zero =>
    refine ⟨fun k => ?_, rfl, ?_, ?_⟩
    · simp [loopUp]
    · simp [loopUp]
    · simp [loopUp]
  | succ r ih =>
    have ih := ih (by omega)
    have hrn : r < 2 * n := by omega
    simp only [loopUp]
    generalize loopUp r (l4Step succ) ({}, BVec.const false) = st at ih ⊢
    obtain ⟨i1, i2, i3, i4⟩ := ih
    have hlead : st.2 r = false ↔ lead r = r := by
      rw [← hs.leader_iff c hc hl hrn, ← i1 r]; cases st.2 r <;> simp
    have hdealt : ∀ k, (l4Step succ r st).2 k = true ↔ ∃ i, i < r + 1 ∧ succ i = k := by
      intro k
      show (st.2.set (succ r) true) k = true ↔ _
      rw [BVec.set_apply]
      by_cases e : k = succ r
      · rw [if_pos e]; exact ⟨fun _ => ⟨r, Nat.lt_succ_self r, e.symm⟩, fun _ => rfl⟩
      · rw [if_neg e, i1 k]
        constructor
        · rintro ⟨i, h1, h2⟩; exact ⟨i, by omega, h2⟩
        · rintro ⟨i, h1, h2⟩
          by_cases e' : i = r
          · subst e'; exact absurd h2.symm e
          · exact ⟨i, by omega, h2⟩
    have hrange : ∀ b : Bool, nslP c.e lead r = b →
        (List.range (r + 1)).filter (nslP c.e lead)
          = (List.range r).filter (nslP c.e lead) ++ (if b then [r] else []) := by
      intro b hb
      rw [List.range_succ, List.filter_append]
      congr 1
      cases b <;> simp [List.filter, hb]
    cases hd : st.2 r
    · -- a leader
      have hlr : lead r = r := hlead.1 hd
      by_cases hsing : succ r = cidx r
      · have hz : OZEq c.e r (cidx r) := (hs.sing_iff c hl hrn hlr).1 hsing
        have hout : (l4Step succ r st).1 = { st.1 with exist_sing_class := true, sing_leader := r } := by
          simp [l4Step, hd, hsing]
        have hP : nslP c.e lead r = false := by
          cases e : nslP c.e lead r
          · rfl
          · exact absurd hz ((nslP_iff _ _ _).1 e).2
        refine ⟨hdealt, ?_, ?_, ?_⟩
        · rw [hout, hrange false hP]; simpa using i2
        · rw [hout]; exact ⟨fun _ => ⟨r, Nat.lt_succ_self r, hlr, hz⟩, fun _ => rfl⟩
        · rw [hout]; intro _; exact ⟨Nat.lt_succ_self r, hlr, hz⟩
      · have hz : ¬ OZEq c.e r (cidx r) := fun h => hsing ((hs.sing_iff c hl hrn hlr).2 h)
        have hout : (l4Step succ r st).1 = { st.1 with no_sing_leaders := st.1.no_sing_leaders ++ [r] } := by
          simp [l4Step, hd, hsing]
        have hP : nslP c.e lead r = true := (nslP_iff _ _ _).2 ⟨hlr, hz⟩
        refine ⟨hdealt, ?_, ?_, ?_⟩
        · rw [hout, hrange true hP]; simp [i2]
        · rw [hout]
          show st.1.exist_sing_class = true ↔ _
          rw [i3]
          constructor
          · rintro ⟨i, h1, h2⟩; exact ⟨i, by omega, h2⟩
          · rintro ⟨i, h1, h2, h3⟩
            by_cases e' : i = r
            · subst e'; exact absurd h3 hz
            · exact ⟨i, by omega, h2, h3⟩
        · rw [hout]
          intro h
          obtain ⟨a, b⟩ := i4 h
          exact ⟨by show st.1.sing_leader < r + 1; omega, b⟩
    · -- not a leader
      have hlr : lead r ≠ r := fun e => by rw [hlead.2 e] at hd; cases hd
      have hout : (l4Step succ r st).1 = st.1 := by simp [l4Step, hd]
      have hP : nslP c.e lead r = false := by
        cases e : nslP c.e lead r
        · rfl
        · exact absurd ((nslP_iff _ _ _).1 e).1 hlr
      refine ⟨hdealt, ?_, ?_, ?_⟩
      · rw [hout, hrange false hP]; simpa using i2
      · rw [hout, i3]
        constructor
        · rintro ⟨i, h1, h2⟩; exact ⟨i, by omega, h2⟩
        · rintro ⟨i, h1, h2, h3⟩
          by_cases e' : i = r
          · subst e'; exact absurd h2 hlr
          · exact ⟨i, by omega, h2, h3⟩
      · rw [hout]
        intro h
        obtain ⟨a, b⟩ := i4 h
        exact ⟨by omega, b⟩

/-- abstract description of the outputs of the four-argument `compute_leaders` -/
structure IsOctLeaders4 (N : Nat) (m : Mat) (lead : Nat → Nat) (L : OctLeaders) : Prop where
  nsl : L.no_sing_leaders = (List.range N).filter (nslP m lead)
  ex : L.exist_sing_class = true ↔ ∃ i, i < N ∧ OZEq m i (cidx i)
  sl_lt : L.exist_sing_class = true → L.sing_leader < N
  sl_sing : L.exist_sing_class = true → OZEq m L.sing_leader (cidx L.sing_leader)
  sl_least : L.exist_sing_class = true → ∀ i, i < N → OZEq m i (cidx i) → L.sing_leader ≤ i
  sl_even : L.exist_sing_class = true → L.sing_leader % 2 = 0

include hl in
/-- a leader of a non-singular class and its coherent twin -/
theorem IsOctLead.pair (h : Nat) :
    (2 * h < 2 * n ∧ nslP c.e lead (2 * h) = true) ↔ (2 * h + 1 < 2 * n ∧ nslP c.e lead (2 * h + 1) = true) := by
  have e0 : cidx (2 * h) = 2 * h + 1 := cidx_even h
  have e1 : cidx (2 * h + 1) = 2 * h := cidx_odd h
  rw [nslP_iff, nslP_iff, e0, e1]
  constructor
  · rintro ⟨h1, h2, h3⟩
    have h1' : 2 * h + 1 < 2 * n := by omega
    refine ⟨h1', ?_, fun hz => h3 hz.symm⟩
    have hle := hl.le _ h1'
    have hz := hl.zeq _ h1'
    -- the twin of the leader of `2h+1` is equivalent to `2h`
    have hz' : OZEq c.e (cidx (lead (2 * h + 1))) (2 * h) := by
      have := OZEq.cidx hz; rwa [e1] at this
    have hlt : lead (2 * h + 1) < 2 * n := by omega
    have := hl.least _ _ h1 (cidx_lt hlt) hz'
    rw [h2] at this
    have hsp := cidx_spec (lead (2 * h + 1))
    by_cases e : lead (2 * h + 1) = 2 * h
    · rw [e] at hz; exact absurd hz h3
    · omega
  · rintro ⟨h1, h2, h3⟩
    have h1' : 2 * h < 2 * n := by omega
    refine ⟨h1', ?_, fun hz => h3 hz.symm⟩
    have hle := hl.le _ h1'
    have hz := hl.zeq _ h1'
    have hz' : OZEq c.e (cidx (lead (2 * h))) (2 * h + 1) := by
      have := OZEq.cidx hz; rwa [e0] at this
    have hlt : lead (2 * h) < 2 * n := by omega
    have := hl.least _ _ h1 (cidx_lt hlt) hz'
    rw [h2] at this
    have hsp := cidx_spec (lead (2 * h))
    omega

include hc hs hl in
theorem octComputeLeaders4_spec' :
    IsOctLeaders4 (2 * n) c.e lead (loopUp (2 * n) (l4Step succ) ({}, BVec.const false)).1 := by
  obtain ⟨_, i2, i3, i4⟩ := l4_inv c hc hs hl (2 * n) (Nat.le_refl _)
  generalize (loopUp (2 * n) (l4Step succ) ({}, BVec.const false)) = st at i2 i3 i4 ⊢
  have hsl_least : st.1.exist_sing_class = true → ∀ i, i < 2 * n → OZEq c.e i (cidx i) → st.1.sing_leader ≤ i := by
    intro h i hi hz
    obtain ⟨a, b, d⟩ := i4 h
    have := hl.least _ i a hi (OZEq.sing_unique c hc hi a hz d)
    omega
  refine ⟨i2, ?_, fun h => (i4 h).1, fun h => (i4 h).2.2, hsl_least, ?_⟩
  · rw [i3]
    constructor
    · rintro ⟨i, h1, _, h3⟩; exact ⟨i, h1, h3⟩
    · rintro ⟨i, h1, h3⟩
      have hle := hl.le i h1
      have hlt : lead i < 2 * n := by omega
      have hz := hl.zeq i h1
      refine ⟨lead i, hlt, ?_, ?_⟩
      · have := hl.least i (lead (lead i)) h1 (by have := hl.le _ hlt; omega)
          (OZEq.trans c hc (by have := hl.le _ hlt; omega) hlt h1 (hl.zeq _ hlt) hz)
        have := hl.le _ hlt
        omega
      · have hci : cidx i < 2 * n := cidx_lt h1
        exact OZEq.trans c hc hlt hci (cidx_lt hlt)
          (OZEq.trans c hc hlt h1 hci hz h3) (OZEq.cidx hz.symm)
  · intro h
    obtain ⟨a, b, d⟩ := i4 h
    have := hsl_least h _ (cidx_lt a) (by rw [cidx_cidx]; exact d.symm)
    have hsp := cidx_spec st.1.sing_leader
    omega

end closed

section final
variable {n : Nat} (c : OctM n) (hc : c.IsStronglyClosed)
include hc

/-- O2 (c) -/
theorem oct_leaders4_spec :
    IsOctLeaders4 (2 * n) c.e (octComputeLeaders (2 * n) c.e)
      (octComputeLeaders4 (2 * n) (octComputeSuccessors (2 * n) c.e)) := by
  rw [octComputeLeaders4_eq]
  exact octComputeLeaders4_spec' c hc (octComputeSuccessors_isOctSucc (2 * n) c.e)
    (octComputeLeaders_isOctLead c hc)

/-- O2 (c), spelled out -/
theorem oct_leaders4_spec_full :
    let lead := octComputeLeaders (2 * n) c.e
    let L := octComputeLeaders4 (2 * n) (octComputeSuccessors (2 * n) c.e)
    L.no_sing_leaders
      = (List.range (2 * n)).filter (fun i => lead i == i && !(decide (OZEq c.e i (cidx i)))) ∧
    (L.exist_sing_class = true ↔ ∃ i, i < 2 * n ∧ OZEq c.e i (cidx i)) ∧
    (L.exist_sing_class = true → L.sing_leader < 2 * n ∧ OZEq c.e L.sing_leader (cidx L.sing_leader) ∧
      (∀ i, i < 2 * n → OZEq c.e i (cidx i) → L.sing_leader ≤ i) ∧ L.sing_leader % 2 = 0) ∧
    (∀ h, 2 * h ∈ L.no_sing_leaders ↔ 2 * h + 1 ∈ L.no_sing_leaders) := by
  intro lead L
  have h := oct_leaders4_spec c hc
  refine ⟨h.nsl, h.ex, fun e => ⟨h.sl_lt e, h.sl_sing e, h.sl_least e, h.sl_even e⟩, fun k => ?_⟩
  show 2 * k ∈ (octComputeLeaders4 (2 * n) (octComputeSuccessors (2 * n) c.e)).no_sing_leaders ↔
    2 * k + 1 ∈ (octComputeLeaders4 (2 * n) (octComputeSuccessors (2 * n) c.e)).no_sing_leaders
  rw [h.nsl, List.mem_filter, List.mem_filter, List.mem_range, List.mem_range]
  exact IsOctLead.pair c (octComputeLeaders_isOctLead c hc) k

end final

end PPLV.WR
