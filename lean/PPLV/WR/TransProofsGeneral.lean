import PPLV.WR.TransProofsBase
/-!
# General case of the `BD_Shape<T>` transformers: the accumulation loops (`pos_sum / neg_sum`,
`pinf_count`, `pinf_index`) and the "exploit the approximation" blocks

`AccInv m w g B k st`: after the iterations for the ids `< k` of a loop that approximates
`B + Σ g_i·y_i` from above over the box of the unary bounds of `m`:

* `pinf_count = 0`: `sum` dominates the whole expression on the box, and every variable met had a
  finite bound on the needed side;
* `pinf_count = 1`: `sum` dominates the expression without the term of `pinf_index`.
-/
set_option linter.unusedVariables false
set_option linter.unusedSimpArgs false
set_option linter.unusedSectionVars false
namespace PPLV.WR
open ExtRat

/-- the box of the unary bounds of `m` over the ids `< k` -/
def Box (m : Mat) (k : Nat) (y : Nat → Rat) : Prop :=
  ∀ i, i < k → fin (y i) ≤ m 0 (i+1) ∧ fin (-(y i)) ≤ m (i+1) 0

structure AccInv (m : Mat) (w : Nat) (g : Nat → Int) (B : Rat) (k : Nat) (st : Acc) : Prop where
  c0 : st.cnt = 0 → ∀ y, Box m w y → fin (B + linEval g y k) ≤ st.sum
  f0p : st.cnt = 0 → ∀ i, i < k → g i > 0 → m 0 (i+1) ≠ pinf
  f0n : st.cnt = 0 → ∀ i, i < k → g i < 0 → m (i+1) 0 ≠ pinf
  c1 : st.cnt = 1 → 1 ≤ st.idx ∧ st.idx ≤ k ∧
    ∀ y, Box m w y → fin (B + linEval (zeroAt g (st.idx - 1)) y k) ≤ st.sum
  n1 : st.cnt = 1 → g (st.idx - 1) ≠ 0

variable {R : Rnd} {m : Mat} {w : Nat} {g : Nat → Int} {B : Rat} {k : Nat} {st : Acc}

theorem AccInv.init (hR : R.Sound) (m : Mat) (w : Nat) (g : Nat → Int) (B : Rat) :
    AccInv m w g B 0 ⟨R.up B, 0, 0⟩ := by
  refine ⟨fun _ y _ => ?_, fun _ i hi => by omega, fun _ i hi => by omega, fun h => by simp at h,
    fun h => by simp at h⟩
  simp only [linEval, add_zero]
  exact hR.up_le B

theorem AccInv.skip (h : AccInv m w g B k st) (hg : g k = 0) : AccInv m w g B (k+1) st := by
  refine ⟨fun hc y hy => ?_, fun hc i hi hp => ?_, fun hc i hi hp => ?_, fun hc => ?_, h.n1⟩
  · simp only [linEval, hg]; simpa using h.c0 hc y hy
  · have : i ≠ k := by intro e; subst e; omega
    exact h.f0p hc i (by omega) hp
  · have : i ≠ k := by intro e; subst e; omega
    exact h.f0n hc i (by omega) hp
  · obtain ⟨h1, h2, h3⟩ := h.c1 hc
    refine ⟨h1, by omega, fun y hy => ?_⟩
    have : zeroAt g (st.idx - 1) k = 0 := by
      unfold zeroAt; split
      · rfl
      · exact hg
    simp only [linEval, this]; simpa using h3 y hy

theorem AccInv.dead (hc : st.cnt > 1) : AccInv m w g B k st :=
  ⟨fun h => by omega, fun h => by omega, fun h => by omega, fun h => by omega, fun h => by omega⟩

/-- the bound of the variable on the side needed for the sign of its coefficient -/
def approxOf (m : Mat) (g : Nat → Int) (i : Nat) : ExtRat := if g i > 0 then m 0 (i+1) else m (i+1) 0

theorem term_le {y : Nat → Rat} (hy : Box m w y) (hk : k < w) (hg : g k ≠ 0) {A : Rat}
    (hA : approxOf m g k = fin A) : (g k : Rat) * y k ≤ ((absI (g k) : Int) : Rat) * A := by
  unfold approxOf at hA
  have hb := hy k hk
  by_cases hp : g k > 0
  · rw [if_pos hp] at hA
    rw [absI_pos hp]
    have h1 : y k ≤ A := by have := hb.1; rw [hA] at this; exact fin_le_fin.1 this
    have h2 : (0 : Rat) < g k := by exact_mod_cast hp
    nlinarith
  · rw [if_neg hp] at hA
    have hn : g k < 0 := by omega
    rw [absI_neg' hn]
    have h1 : -(y k) ≤ A := by have := hb.2; rw [hA] at this; exact fin_le_fin.1 this
    have h2 : (g k : Rat) < 0 := by exact_mod_cast hn
    push_cast
    nlinarith

theorem AccInv.addMul (hR : R.Sound) (h : AccInv m w g B k st) (hk : k < w) (hg : g k ≠ 0)
    (hcoef : R.up ((absI (g k) : Int) : Rat) = fin ((absI (g k) : Int) : Rat)) {A : Rat}
    (hA : approxOf m g k = fin A) :
    AccInv m w g B (k+1)
      { st with sum := addMulUp R st.sum (R.up ((absI (g k) : Int) : Rat)) (fin A) } := by
  rw [hcoef]
  refine ⟨fun hc y hy => ?_, fun hc i hi hp => ?_, fun hc i hi hp => ?_, fun hc => ?_, fun hc => h.n1 hc⟩
  · simp only [linEval]
    rw [← add_assoc]
    exact fin_le_addMulUp hR (h.c0 hc y hy) (term_le hy hk hg hA)
  · by_cases hik : i = k
    · subst hik
      unfold approxOf at hA; rw [if_pos hp] at hA; rw [hA]; simp
    · exact h.f0p hc i (by omega) hp
  · by_cases hik : i = k
    · subst hik
      unfold approxOf at hA; rw [if_neg (by omega)] at hA; rw [hA]; simp
    · exact h.f0n hc i (by omega) hp
  · obtain ⟨h1, h2, h3⟩ := h.c1 hc
    dsimp only
    refine ⟨h1, by omega, fun y hy => ?_⟩
    have hz : zeroAt g (st.idx - 1) k = g k := by
      unfold zeroAt; rw [if_neg (by omega)]
    simp only [linEval, hz]
    rw [← add_assoc]
    exact fin_le_addMulUp hR (h3 y hy) (term_le hy hk hg hA)

theorem AccInv.pinf (h : AccInv m w g B k st) (hk : k < w) (hg : g k ≠ 0)
    (hA : approxOf m g k = pinf) (idx' : Nat) (hidx : st.cnt = 0 → idx' = k + 1) :
    AccInv m w g B (k+1) { st with cnt := st.cnt + 1, idx := idx' } := by
  refine ⟨fun hc => by simp at hc, fun hc => by simp at hc, fun hc => by simp at hc, fun hc => ?_, fun hc => ?_⟩
  rotate_left
  · have hc0 : st.cnt = 0 := by simpa using hc
    dsimp only
    rw [hidx hc0]
    simpa using hg
  have hc0 : st.cnt = 0 := by simpa using hc
  have hi := hidx hc0
  dsimp only
  refine ⟨by omega, by omega, fun y hy => ?_⟩
  rw [hi]
  simp only [Nat.add_sub_cancel, linEval]
  have : zeroAt g k k = 0 := by simp [zeroAt]
  rw [this, linEval_congr y (e := zeroAt g k) (e' := g) (fun i hi => by simp [zeroAt]; intro e; omega)]
  simpa using h.c0 hc0 y hy

/-- one iteration of the `affine_image`-style loop, approximating `B + g·y` -/
theorem accStepA_inv (hR : R.Sound) (hcoef : CoeffExact R g) (h : AccInv m w g B k st) (hk : k < w) :
    AccInv m w g B (k+1) (accStepA R m g true k st) := by
  unfold accStepA
  dsimp only
  split
  · rename_i h0; exact h.skip h0
  · rename_i h0
    split
    · have happ : (if decide (g k > 0) = true then m 0 (k+1) else m (k+1) 0) = approxOf m g k := by
        unfold approxOf; by_cases hp : g k > 0 <;> simp [hp]
      rw [happ]
      cases hA : approxOf m g k with
      | pinf =>
        simp only [isPinf, Bool.not_true, Bool.false_eq_true, if_false]
        exact h.pinf hk h0 hA _ (fun _ => rfl)
      | fin A =>
        simp only [isPinf, Bool.not_false, if_true]
        exact h.addMul hR hk h0 (hcoef k h0) hA
    · rename_i hc; exact AccInv.dead (by omega)

/-- one iteration of the `generalized_affine_image`-style loop (`break` / `continue`) -/
theorem accStepG_inv (hR : R.Sound) (hcoef : CoeffExact R g) (h : AccInv m w g B k st) (hk : k < w) :
    AccInv m w g B (k+1) (accStepG R m g true k st) := by
  unfold accStepG
  dsimp only
  split
  · rename_i hc; exact AccInv.dead hc
  · rename_i hc
    split
    · rename_i h0; exact h.skip h0
    · rename_i h0
      have happ : (if decide (g k > 0) = true then m 0 (k+1) else m (k+1) 0) = approxOf m g k := by
        unfold approxOf; by_cases hp : g k > 0 <;> simp [hp]
      rw [happ]
      cases hA : approxOf m g k with
      | pinf =>
        simp only [isPinf, if_true]
        split
        · exact AccInv.dead (by simp; omega)
        · exact h.pinf hk h0 hA _ (fun _ => rfl)
      | fin A =>
        simp only [isPinf, Bool.false_eq_true, if_false]
        exact h.addMul hR hk h0 (hcoef k h0) hA

theorem accLoopA_inv (hR : R.Sound) (hcoef : CoeffExact R g) (st0 : Acc) (h0 : AccInv m w g B 0 st0) :
    ∀ k, k ≤ w → AccInv m w g B k (loopUp k (accStepA R m g true) st0) := by
  intro k
  induction k with
  | zero => intro _; exact h0
  | succ k ih => intro hk; simp only [loopUp]; exact accStepA_inv hR hcoef (ih (by omega)) (by omega)

theorem accLoopG_inv (hR : R.Sound) (hcoef : CoeffExact R g) (st0 : Acc) (h0 : AccInv m w g B 0 st0) :
    ∀ k, k ≤ w → AccInv m w g B k (loopUp k (accStepG R m g true) st0) := by
  intro k
  induction k with
  | zero => intro _; exact h0
  | succ k ih => intro hk; simp only [loopUp]; exact accStepG_inv hR hcoef (ih (by omega)) (by omega)

/-- approximating `-sc_expr` is approximating the negated expression -/
theorem accStepA_false (R : Rnd) (m : Mat) (sc : Nat → Int) :
    accStepA R m sc false = accStepA R m (fun j => - sc j) true := by
  funext i st
  unfold accStepA
  dsimp only
  rcases lt_trichotomy (sc i) 0 with h | h | h
  · have h1 : ¬ sc i = 0 := by omega
    have h2 : ¬ - sc i = 0 := by omega
    have h3 : ¬ sc i > 0 := by omega
    have h4 : - sc i > 0 := by omega
    simp only [h1, h2, h3, h4, absI_neg, if_false, decide_false, decide_true, if_true]
  · simp [h]
  · have h1 : ¬ sc i = 0 := by omega
    have h2 : ¬ - sc i = 0 := by omega
    have h3 : sc i > 0 := by omega
    have h4 : ¬ - sc i > 0 := by omega
    simp only [h1, h2, h3, h4, absI_neg, if_false, decide_false, decide_true, if_true]
    simp

theorem accStepG_false (R : Rnd) (m : Mat) (sc : Nat → Int) :
    accStepG R m sc false = accStepG R m (fun j => - sc j) true := by
  funext i st
  unfold accStepG
  dsimp only
  rcases lt_trichotomy (sc i) 0 with h | h | h
  · have h1 : ¬ sc i = 0 := by omega
    have h2 : ¬ - sc i = 0 := by omega
    have h3 : ¬ sc i > 0 := by omega
    have h4 : - sc i > 0 := by omega
    simp only [h1, h2, h3, h4, absI_neg, if_false, decide_false, decide_true, if_true]
  · simp [h]
  · have h1 : ¬ sc i = 0 := by omega
    have h2 : ¬ - sc i = 0 := by omega
    have h3 : sc i > 0 := by omega
    have h4 : ¬ - sc i > 0 := by omega
    simp only [h1, h2, h3, h4, absI_neg, if_false, decide_false, decide_true, if_true]
    simp

theorem loopUp_prod {α β : Type} (f : Nat → α → α) (h : Nat → β → β) (a : α) (b : β) (k : Nat) :
    loopUp k (fun i (pq : α × β) => (f i pq.1, h i pq.2)) (a, b) = (loopUp k f a, loopUp k h b) := by
  induction k with
  | zero => rfl
  | succ k ih => simp only [loopUp, ih]

/-! ## the deduction helpers called with `ub_v = +∞` (an overflowed sum) -/

theorem addUp_pinf_left (up : Rat → ExtRat) (z : ExtRat) : addUp up pinf z = pinf := by cases z <;> rfl
theorem addUp_pinf_right (up : Rat → ExtRat) (z : ExtRat) : addUp up z pinf = pinf := by cases z <;> rfl

theorem deduceVMinusU_pinf_holds (up : Rat → ExtRat) {n : Nat} {m : Mat} {vid last : Nat} {e : Nat → Int} {d : Int}
    {x' : Nat → Rat} (hx' : Holds (SB (n+1)) (DBM.val x') m)
    (hfin : ∀ u, u < last → u ≠ vid → e u > 0 → m 0 (u+1) ≠ pinf) :
    Holds (SB (n+1)) (DBM.val x') (deduceVMinusU up (vid+1) last e d pinf m) := by
  suffices h : BInv n x' m (deduceVMinusU up (vid+1) last e d pinf m) from h.1
  unfold deduceVMinusU
  refine loopUp_rel (fun a b => BInv n x' m a → BInv n x' m b) (fun _ h => h)
    (fun _ _ _ h1 h2 h => h2 (h1 h)) last _ ?_ m ⟨hx', fun _ => ⟨rfl, rfl⟩⟩
  intro u hu m' hI
  unfold deduceVMinusUStep
  dsimp only
  split; exact hI
  split; exact hI
  split; exact hI
  rename_i h0 huv hneg
  have huv' : u ≠ vid := by omega
  have hepos : 0 < e u := by omega
  rw [(hI.2 (u+1)).1, (hI.2 (u+1)).2]
  split
  · apply hI.set (by omega) (by omega)
    cases hub : m 0 (u+1) with
    | pinf => exact absurd hub (hfin u hu huv' hepos)
    | fin U => exact le_pinf _
  · split
    · exact hI
    · apply hI.set (by omega) (by omega)
      rw [addUp_pinf_left]; exact le_pinf _

theorem deduceUMinusV_pinf_holds (up : Rat → ExtRat) {n : Nat} {m : Mat} {vid last : Nat} {e : Nat → Int} {d : Int}
    {x' : Nat → Rat} (hx' : Holds (SB (n+1)) (DBM.val x') m)
    (hfin : ∀ u, u < last → u ≠ vid → e u > 0 → m (u+1) 0 ≠ pinf) :
    Holds (SB (n+1)) (DBM.val x') (deduceUMinusV up (vid+1) last e d pinf m) := by
  suffices h : BInv n x' m (deduceUMinusV up (vid+1) last e d pinf m) from h.1
  unfold deduceUMinusV
  refine loopUp_rel (fun a b => BInv n x' m a → BInv n x' m b) (fun _ h => h)
    (fun _ _ _ h1 h2 h => h2 (h1 h)) last _ ?_ m ⟨hx', fun _ => ⟨rfl, rfl⟩⟩
  intro u hu m' hI
  unfold deduceUMinusVStep
  dsimp only
  split; exact hI
  split; exact hI
  split; exact hI
  rename_i h0 huv hneg
  have huv' : u ≠ vid := by omega
  have hepos : 0 < e u := by omega
  rw [(hI.2 (u+1)).1, (hI.2 (u+1)).2]
  split
  · apply hI.set (by omega) (by omega)
    cases hlb : m (u+1) 0 with
    | pinf => exact absurd hlb (hfin u hu huv' hepos)
    | fin L => exact le_pinf _
  · split
    · exact hI
    · apply hI.set (by omega) (by omega)
      rw [addUp_pinf_right]; exact le_pinf _

/-! ## frames of the deduction helpers -/

theorem deduceVMinusU_col (up : Rat → ExtRat) (v last : Nat) (e : Nat → Int) (d : Int) (ub : ExtRat) (m : Mat)
    (a c : Nat) (hc : c ≠ v) : deduceVMinusU up v last e d ub m a c = m a c := by
  unfold deduceVMinusU
  induction last with
  | zero => rfl
  | succ k ih =>
    simp only [loopUp]
    rw [← ih]
    generalize loopUp k (deduceVMinusUStep up v e d ub) m = m'
    unfold deduceVMinusUStep
    dsimp only
    split; rfl
    split; rfl
    split; rfl
    split
    · simp [Mat.set_apply, hc]
    · split
      · rfl
      · simp [Mat.set_apply, hc]

theorem deduceUMinusV_row (up : Rat → ExtRat) (v last : Nat) (e : Nat → Int) (d : Int) (lb : ExtRat) (m : Mat)
    (a c : Nat) (ha : a ≠ v) : deduceUMinusV up v last e d lb m a c = m a c := by
  unfold deduceUMinusV
  induction last with
  | zero => rfl
  | succ k ih =>
    simp only [loopUp]
    rw [← ih]
    generalize loopUp k (deduceUMinusVStep up v e d lb) m = m'
    unfold deduceUMinusVStep
    dsimp only
    split; rfl
    split; rfl
    split; rfl
    split
    · simp [Mat.set_apply, ha]
    · split
      · rfl
      · simp [Mat.set_apply, ha]

end PPLV.WR
