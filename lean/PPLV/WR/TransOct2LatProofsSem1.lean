import PPLV.WR.TransOct2LatProofsBase
import PPLV.WR.Trans2LatProofsSem3
/-!
# Lattice / dimension operations of `Octagonal_Shape<T>`: concatenate (sound, exact),
map_space_dimensions (soundness)
-/
set_option linter.unusedVariables false
namespace PPLV.WR
open ExtRat

/-! ## `concatenate_assign` -/

theorem octLatConcatInner_apply (i o t c : Nat) (y m : Mat) (a b : Nat) :
    loopUp c (fun s m => m.set i (o + s) (y t s)) m a b
      = if a = i ∧ o ≤ b ∧ b < o + c then y t (b - o) else m a b := by
  induction c with
  | zero => simp only [loopUp]; rw [if_neg (by omega)]
  | succ c ih =>
    simp only [loopUp, Mat.set_apply, ih]
    by_cases h1 : a = i ∧ b = o + c
    · rw [if_pos h1, if_pos (by omega)]
      have : b - o = c := by omega
      rw [this]
    · rw [if_neg h1]
      by_cases h2 : a = i ∧ o ≤ b ∧ b < o + c
      · rw [if_pos h2, if_pos (by omega)]
      · rw [if_neg h2, if_neg (by omega)]

theorem octLatConcatOuter_apply (n1 c : Nat) (m y : Mat) (a b : Nat) :
    loopUp c (fun t m =>
      loopUp (rowSize (2 * n1 + t) - 2 * n1) (fun s m => m.set (2 * n1 + t) (2 * n1 + s) (y t s)) m) m a b
      = if 2 * n1 ≤ a ∧ a < 2 * n1 + c ∧ 2 * n1 ≤ b ∧ b < rowSize a then y (a - 2 * n1) (b - 2 * n1)
        else m a b := by
  induction c with
  | zero => simp only [loopUp]; rw [if_neg (by omega)]
  | succ c ih =>
    simp only [loopUp]
    rw [octLatConcatInner_apply, ih]
    have hrs : 2 * n1 ≤ rowSize (2 * n1 + c) := by unfold rowSize; omega
    by_cases h1 : a = 2 * n1 + c
    · subst h1
      by_cases h2 : 2 * n1 ≤ b ∧ b < rowSize (2 * n1 + c)
      · rw [if_pos ⟨rfl, by omega, by omega⟩, if_pos ⟨by omega, by omega, h2.1, h2.2⟩]
        have : 2 * n1 + c - 2 * n1 = c := by omega
        rw [this]
      · rw [if_neg (by omega), if_neg (by omega), if_neg (by omega)]
    · rw [if_neg (by omega)]
      by_cases h3 : 2 * n1 ≤ a ∧ a < 2 * n1 + c ∧ 2 * n1 ≤ b ∧ b < rowSize a
      · rw [if_pos h3, if_pos (by omega)]
      · rw [if_neg h3, if_neg (by omega)]

theorem octLatConcatLoop_apply (n1 n2 : Nat) (m y : Mat) (a b : Nat) :
    octLatConcatLoop n1 n2 m y a b
      = if 2 * n1 ≤ a ∧ a < 2 * n1 + 2 * n2 ∧ 2 * n1 ≤ b ∧ b < rowSize a then y (a - 2 * n1) (b - 2 * n1)
        else m a b :=
  octLatConcatOuter_apply n1 (2 * n2) m y a b

theorem octLatConcatenate_eq (R : Rnd) (n1 : Nat) (c1 : Bool) (m1 : Mat) (n2 : Nat) (c2 : Bool) (m2 : Mat) :
    ∃ r, octLatConcatenate R n1 c1 m1 n2 c2 m2 = some r ∧ r.dim = n1 + n2 ∧
      ∀ a b, a < 2 * (n1 + n2) → b < rowSize a →
        r.m a b = if 2 * n1 ≤ a then (if 2 * n1 ≤ b then m2 (a - 2 * n1) (b - 2 * n1) else pinf)
          else m1 a b := by
  unfold octLatConcatenate octLatEmbed
  by_cases hk : n2 = 0
  · subst hk
    simp only [if_true]
    refine ⟨_, rfl, rfl, ?_⟩
    intro a b ha hb
    rw [if_neg (by omega)]
  · simp only [if_neg hk]
    refine ⟨_, rfl, rfl, ?_⟩
    intro a b ha hb
    rw [octLatConcatLoop_apply]
    simp only [octLatGrow]
    split_ifs <;> first | rfl | omega

theorem octLatConcatenate_sound (R : Rnd) (n1 : Nat) (c1 : Bool) (m1 : Mat) (n2 : Nat) (c2 : Bool) (m2 : Mat)
    {z : Nat → Rat} (h1 : z ∈ γO n1 m1) (h2 : (fun i => z (n1 + i)) ∈ γO n2 m2) :
    ∃ r, octLatConcatenate R n1 c1 m1 n2 c2 m2 = some r ∧ r.dim = n1 + n2 ∧ z ∈ γO (n1 + n2) r.m := by
  obtain ⟨r, e, hd, hm⟩ := octLatConcatenate_eq R n1 c1 m1 n2 c2 m2
  refine ⟨r, e, hd, ?_⟩
  intro a b hab
  rw [hm a b hab.1 hab.2]
  split
  · rename_i ha
    split
    · rename_i hb
      obtain ⟨t, rfl⟩ : ∃ t, a = 2 * n1 + t := ⟨a - 2 * n1, by omega⟩
      obtain ⟨s, rfl⟩ : ∃ s, b = 2 * n1 + s := ⟨b - 2 * n1, by omega⟩
      rw [latOval_add_even, latOval_add_even]
      have e1 : 2 * n1 + t - 2 * n1 = t := by omega
      have e2 : 2 * n1 + s - 2 * n1 = s := by omega
      rw [e1, e2]
      have := hab.2
      rw [latRowSize_add_even] at this
      exact h2 t s ⟨by have := hab.1; omega, by omega⟩
    · exact le_pinf _
  · exact h1 a b ⟨by omega, hab.2⟩

/-- `concatenate_assign` is exact for every bound type -/
theorem octLatConcatenate_exact (R : Rnd) (n1 : Nat) (c1 : Bool) (m1 : Mat) (n2 : Nat) (c2 : Bool) (m2 : Mat) :
    ∃ r, octLatConcatenate R n1 c1 m1 n2 c2 m2 = some r ∧ r.dim = n1 + n2 ∧
      ∀ z, z ∈ γO (n1 + n2) r.m ↔ (z ∈ γO n1 m1 ∧ (fun i => z (n1 + i)) ∈ γO n2 m2) := by
  obtain ⟨r, e, hd, hm⟩ := octLatConcatenate_eq R n1 c1 m1 n2 c2 m2
  refine ⟨r, e, hd, fun z => ⟨fun h => ⟨?_, ?_⟩, fun h => ?_⟩⟩
  · intro a b hab
    have := h a b ⟨by have := hab.1; omega, hab.2⟩
    rw [hm a b (by have := hab.1; omega) hab.2, if_neg (by have := hab.1; omega)] at this
    exact this
  · intro t s hts
    have hrs : 2 * n1 + s < rowSize (2 * n1 + t) := by rw [latRowSize_add_even]; have := hts.2; omega
    have := h (2 * n1 + t) (2 * n1 + s) ⟨by have := hts.1; omega, hrs⟩
    rw [hm _ _ (by have := hts.1; omega) hrs, if_pos (by omega), if_pos (by omega),
      latOval_add_even, latOval_add_even] at this
    have e1 : 2 * n1 + t - 2 * n1 = t := by omega
    have e2 : 2 * n1 + s - 2 * n1 = s := by omega
    rw [e1, e2] at this
    exact this
  · obtain ⟨r', e', _, h'⟩ := octLatConcatenate_sound R n1 c1 m1 n2 c2 m2 h.1 h.2
    rw [e] at e'
    simp only [Option.some.injEq] at e'
    rw [e']; exact h'

/-! ## `map_space_dimensions` -/

/-- image of a matrix index: `±x_i ↦ ±x_{pfunc(i)}` -/
def octLatPsi (pf : List (Option Nat)) (i : Nat) : Option Nat := (latMaps pf (i / 2)).map (fun a => 2 * a + i % 2)

/-- every cell of the new matrix is `+∞` or a stored cell `(I, J)` of the old one, placed at the image
of `(I, J)` or at its coherent twin -/
def octLatMapInv (n : Nat) (pf : List (Option Nat)) (mat x : Mat) : Prop :=
  ∀ A B, x A B = pinf ∨ ∃ I J, I < 2 * n ∧ J < rowSize I ∧ x A B = mat I J ∧
    ((octLatPsi pf I = some A ∧ octLatPsi pf J = some B) ∨
     (octLatPsi pf J = some (cidx A) ∧ octLatPsi pf I = some (cidx B)))

theorem octLatMapInv_set {n : Nat} {pf : List (Option Nat)} {mat x : Mat} (h : octLatMapInv n pf mat x)
    {I J A B : Nat} (hI : I < 2 * n) (hJ : J < rowSize I)
    (hAB : (octLatPsi pf I = some A ∧ octLatPsi pf J = some B) ∨
     (octLatPsi pf J = some (cidx A) ∧ octLatPsi pf I = some (cidx B))) :
    octLatMapInv n pf mat (x.set A B (mat I J)) := by
  intro A' B'
  simp only [Mat.set_apply]
  split
  · rename_i hc
    obtain ⟨rfl, rfl⟩ := hc
    exact Or.inr ⟨I, J, hI, hJ, rfl, hAB⟩
  · exact h A' B'

theorem octLatPsi_even {pf : List (Option Nat)} {i a : Nat} (h : latMaps pf i = some a) :
    octLatPsi pf (2 * i) = some (2 * a) := by
  unfold octLatPsi
  have e1 : 2 * i / 2 = i := by omega
  have e2 : 2 * i % 2 = 0 := by omega
  rw [e1, e2, h]; rfl

theorem octLatPsi_odd {pf : List (Option Nat)} {i a : Nat} (h : latMaps pf i = some a) :
    octLatPsi pf (2 * i + 1) = some (2 * a + 1) := by
  unfold octLatPsi
  have e1 : (2 * i + 1) / 2 = i := by omega
  have e2 : (2 * i + 1) % 2 = 1 := by omega
  rw [e1, e2, h]; rfl

theorem octLatMapLoops_inv (n : Nat) (pf : List (Option Nat)) (mat : Mat) :
    octLatMapInv n pf mat (octLatMapLoops n pf mat { f := fun _ _ => pinf }) := by
  unfold octLatMapLoops
  apply latLoopUp_inv (octLatMapInv n pf mat)
  · intro A B; exact Or.inl rfl
  · intro i x hi hx
    cases hm : latMaps pf i with
    | none => exact hx
    | some ni =>
      dsimp only
      apply latLoopUp_inv (octLatMapInv n pf mat) hx
      intro j x hj hx
      cases hm2 : latMaps pf j with
      | none => exact hx
      | some nj =>
        dsimp only
        have pie := octLatPsi_even hm
        have pio := octLatPsi_odd hm
        have pje := octLatPsi_even hm2
        have pjo := octLatPsi_odd hm2
        split
        · refine octLatMapInv_set (octLatMapInv_set (octLatMapInv_set (octLatMapInv_set hx ?_ ?_ ?_) ?_ ?_ ?_)
            ?_ ?_ ?_) ?_ ?_ ?_
          all_goals first | omega | (unfold rowSize; omega) | skip
          · exact Or.inl ⟨pie, pje⟩
          · exact Or.inl ⟨pio, pje⟩
          · exact Or.inl ⟨pio, pjo⟩
          · exact Or.inl ⟨pie, pjo⟩
        · refine octLatMapInv_set (octLatMapInv_set (octLatMapInv_set (octLatMapInv_set hx ?_ ?_ ?_) ?_ ?_ ?_)
            ?_ ?_ ?_) ?_ ?_ ?_
          all_goals first | omega | (unfold rowSize; omega) | skip
          · right; rw [cidx_odd, cidx_odd]; exact ⟨pje, pie⟩
          · right; rw [cidx_odd, cidx_even]; exact ⟨pje, pio⟩
          · right; rw [cidx_even, cidx_odd]; exact ⟨pjo, pie⟩
          · right; rw [cidx_even, cidx_even]; exact ⟨pjo, pio⟩

theorem latOval_cidx (y : Nat → Rat) (a : Nat) : OctM.oval y (cidx a) = - OctM.oval y a := by
  obtain ⟨k, rfl | rfl⟩ : ∃ k, a = 2 * k ∨ a = 2 * k + 1 := ⟨a / 2, by omega⟩
  · rw [cidx_even, oval_even, oval_odd]
  · rw [cidx_odd, oval_even, oval_odd]; simp

theorem octLatPsi_oval {n : Nat} {pf : List (Option Nat)} {p y : Nat → Rat}
    (hy : ∀ i, i < n → ∀ a, latMaps pf i = some a → y a = p i) {I A : Nat} (hI : I < 2 * n)
    (h : octLatPsi pf I = some A) : OctM.oval y A = OctM.oval p I := by
  unfold octLatPsi at h
  cases hm : latMaps pf (I / 2) with
  | none => rw [hm] at h; simp at h
  | some a =>
    rw [hm] at h
    simp only [Option.map_some, Option.some.injEq] at h
    subst h
    unfold OctM.oval
    have e1 : (2 * a + I % 2) % 2 = I % 2 := by omega
    have e2 : (2 * a + I % 2) / 2 = a := by omega
    rw [e1, e2, hy (I / 2) (by omega) a hm]

theorem octLatMapInv_holds {n : Nat} {pf : List (Option Nat)} {mat x : Mat} (h : octLatMapInv n pf mat x)
    {p y : Nat → Rat} (hp : p ∈ γO n mat) (hy : ∀ i, i < n → ∀ a, latMaps pf i = some a → y a = p i)
    (k : Nat) : y ∈ γO k x := by
  intro A B hAB
  rcases h A B with h | ⟨I, J, hI, hJ, e, hc⟩
  · rw [h]; exact le_pinf _
  · rw [e]
    have hJ' : J < 2 * n := by have := rowSize_le hI; omega
    rcases hc with ⟨h1, h2⟩ | ⟨h1, h2⟩
    · rw [octLatPsi_oval hy hI h1, octLatPsi_oval hy hJ' h2]
      exact hp I J ⟨hI, hJ⟩
    · have e1 := octLatPsi_oval hy hJ' h1
      have e2 := octLatPsi_oval hy hI h2
      rw [latOval_cidx] at e1 e2
      have : OctM.oval y B - OctM.oval y A = OctM.oval p J - OctM.oval p I := by linarith
      rw [this]
      exact hp I J ⟨hI, hJ⟩

theorem octLatMapDims_sound {R : Rnd} (hR : R.Sound) (n : Nat) (c : Bool) (m : Mat) (pf : List (Option Nat))
    {x y : Nat → Rat} (hx : x ∈ γO n m) (hy : ∀ i, i < n → ∀ a, latMaps pf i = some a → y a = x i) :
    ∃ r, octLatMapDims R n c m pf = some r ∧ r.dim = latMapNewDim pf n ∧ y ∈ γO r.dim r.m := by
  unfold octLatMapDims latMapNewDim
  split
  · rename_i hn; subst hn
    exact ⟨_, rfl, rfl, latGammaO_congr (n := 0) (fun i hi => absurd hi (Nat.not_lt_zero i)) hx⟩
  · split
    · obtain ⟨r, e, hd, hr⟩ := octLatRemoveHigher_sound hR n c m 0 (Nat.zero_le _) hx
      refine ⟨r, e, hd, ?_⟩
      rw [hd]
      exact latGammaO_congr (fun i hi => absurd hi (Nat.not_lt_zero i)) hr
    · dsimp only
      have hst : ∃ m' c', (if latMaxInCodomain pf n + 1 < n then octLatClose R.up n c m else some (m, c))
          = some (m', c') ∧ x ∈ γO n m' := by
        split
        · exact octLatClose_sound hR.up_le n c m hx
        · exact ⟨m, c, rfl, hx⟩
      obtain ⟨m', c', e, hx'⟩ := hst
      rw [e]
      exact ⟨_, rfl, rfl, octLatMapInv_holds (octLatMapLoops_inv n pf m') hx' hy _⟩

end PPLV.WR
