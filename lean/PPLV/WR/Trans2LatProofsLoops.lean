import PPLV.WR.Trans2LatProofsBase
/-!
# Lattice / dimension operations of `BD_Shape<T>`: what the loop nests compute
-/
set_option linter.unusedVariables false
namespace PPLV.WR
open ExtRat

/-- a loop nest (both descending) whose step `(i,j)` rewrites cell `(i,j)` as a function of its
current value and touches no other cell -/
theorem latLoop2Down_pointwise {α : Type} (get : α → Mat) (Rw C : Nat) (step : Nat → Nat → α → α)
    (h : Nat → Nat → ExtRat → ExtRat)
    (hhit : ∀ i j s, get (step i j s) i j = h i j (get s i j))
    (hmiss : ∀ i j s a b, ¬ (a = i ∧ b = j) → get (step i j s) a b = get s a b)
    (s0 : α) (a b : Nat) :
    get (loopDown Rw (fun i s => loopDown C (fun j s => step i j s) s) s0) a b
      = if a < Rw ∧ b < C then h a b (get s0 a b) else get s0 a b := by
  have inner_miss : ∀ i s, a ≠ i → get (loopDown C (fun j s => step i j s) s) a b = get s a b := by
    intro i s hai
    exact latLoopDown_frame (fun s => get s a b) (fun k s _ => hmiss i k s a b (by omega))
  split
  · rename_i hab
    refine latLoopDown_cell (fun s => get s a b) (fun s => get s a b = get s0 a b) rfl ?_ hab.1 ?_ ?_
    · intro k s _ hk hs; rw [inner_miss k s (by omega)]; exact hs
    · intro s hs
      refine latLoopDown_cell (fun s => get s a b) (fun s => get s a b = get s0 a b) hs ?_ hab.2 ?_ ?_
      · intro k s _ hk hs; rw [hmiss a k s a b (by omega)]; exact hs
      · intro s hs; show get (step a b s) a b = _; rw [hhit, hs]
      · intro k s _ hk; exact hmiss a k s a b (by omega)
    · intro k s _ hk; exact inner_miss k s (by omega)
  · rename_i hab
    refine latLoopDown_frame (fun s => get s a b) ?_
    intro i s hi
    by_cases hai : a = i
    · subst hai
      exact latLoopDown_frame (fun s => get s a b) (fun k s hk => hmiss a k s a b (by omega))
    · exact inner_miss i s hai

/-- the same for ascending loops with a row-dependent column count -/
theorem latLoop2Up_pointwise {α : Type} (get : α → Mat) (Rw : Nat) (C : Nat → Nat) (step : Nat → Nat → α → α)
    (h : Nat → Nat → ExtRat → ExtRat)
    (hhit : ∀ i j s, get (step i j s) i j = h i j (get s i j))
    (hmiss : ∀ i j s a b, ¬ (a = i ∧ b = j) → get (step i j s) a b = get s a b)
    (s0 : α) (a b : Nat) :
    get (loopUp Rw (fun i s => loopUp (C i) (fun j s => step i j s) s) s0) a b
      = if a < Rw ∧ b < C a then h a b (get s0 a b) else get s0 a b := by
  have inner_miss : ∀ i s, a ≠ i → get (loopUp (C i) (fun j s => step i j s) s) a b = get s a b := by
    intro i s hai
    exact latLoopUp_frame (fun s => get s a b) (fun k s _ => hmiss i k s a b (by omega))
  split
  · rename_i hab
    refine latLoopUp_cell (fun s => get s a b) (fun s => get s a b = get s0 a b) rfl ?_ hab.1 ?_ ?_
    · intro k s _ hk hs; rw [inner_miss k s (by omega)]; exact hs
    · intro s hs
      refine latLoopUp_cell (fun s => get s a b) (fun s => get s a b = get s0 a b) hs ?_ hab.2 ?_ ?_
      · intro k s _ hk hs; rw [hmiss a k s a b (by omega)]; exact hs
      · intro s hs; show get (step a b s) a b = _; rw [hhit, hs]
      · intro k s _ hk; exact hmiss a k s a b (by omega)
    · intro k s _ hk; exact inner_miss k s (by omega)
  · rename_i hab
    refine latLoopUp_frame (fun s => get s a b) ?_
    intro i s hi
    by_cases hai : a = i
    · subst hai
      exact latLoopUp_frame (fun s => get s a b) (fun k s hk => hmiss a k s a b (by omega))
    · exact inner_miss i s hai

/-! ## `intersection_assign`, `upper_bound_assign` -/

theorem bdsLatIntersectionLoop_apply (n : Nat) (m1 m2 : Mat) (a b : Nat) :
    (bdsLatIntersectionLoop n m1 m2).1 a b
      = if a < n + 1 ∧ b < n + 1 then minA (m1 a b) (m2 a b) else m1 a b := by
  unfold bdsLatIntersectionLoop
  refine latLoop2Down_pointwise (fun st : Mat × Bool => st.1) (n+1) (n+1)
    (fun i j st => if st.1 i j ≤ m2 i j then st else (st.1.set i j (m2 i j), true))
    (fun i j v => minA v (m2 i j)) ?_ ?_ (m1, false) a b
  · intro i j s
    unfold minA
    split <;> simp
  · intro i j s a b hab
    split
    · rfl
    · simp only [Mat.set_apply, if_neg hab]

theorem bdsLatUpperBoundLoop_apply (n : Nat) (x y : Mat) (a b : Nat) :
    bdsLatUpperBoundLoop n x y a b
      = if a < n + 1 ∧ b < n + 1 then latMaxA (x a b) (y a b) else x a b := by
  unfold bdsLatUpperBoundLoop
  refine latLoop2Down_pointwise (fun m : Mat => m) (n+1) (n+1)
    (fun i j m => if y i j ≤ m i j then m else m.set i j (y i j))
    (fun i j v => latMaxA v (y i j)) ?_ ?_ x a b
  · intro i j s
    unfold latMaxA
    split <;> simp
  · intro i j s a b hab
    split
    · rfl
    · simp only [Mat.set_apply, if_neg hab]

/-! ## `add_space_dimensions_and_project` -/

theorem bdsLatProjectLoop0_apply (k : Nat) (m : Mat) (a b : Nat) :
    loopDown (k + 1) (fun i m => loopDown (k + 1) (fun j m => if i ≠ j then m.set i j (fin 0) else m) m) m a b
      = if a < k + 1 ∧ b < k + 1 then (if a ≠ b then fin 0 else m a b) else m a b := by
  refine latLoop2Down_pointwise (fun m : Mat => m) (k+1) (k+1)
    (fun i j m => if i ≠ j then m.set i j (fin 0) else m)
    (fun i j v => if i ≠ j then fin 0 else v) ?_ ?_ m a b
  · intro i j s
    split <;> simp
  · intro i j s a b hab
    split
    · simp only [Mat.set_apply, if_neg hab]
    · rfl

theorem bdsLatProjectLoop_apply (n k : Nat) (m : Mat) (a b : Nat) :
    loopUp k (fun t m => (m.set (n + 1 + t) 0 (fin 0)).set 0 (n + 1 + t) (fin 0)) m a b
      = if (b = 0 ∧ n + 1 ≤ a ∧ a < n + 1 + k) ∨ (a = 0 ∧ n + 1 ≤ b ∧ b < n + 1 + k) then fin 0
        else m a b := by
  induction k with
  | zero => simp [loopUp]
  | succ k ih =>
    simp only [loopUp, Mat.set_apply, ih]
    by_cases h1 : a = 0 ∧ b = n + 1 + k
    · rw [if_pos h1, if_pos (by omega)]
    · rw [if_neg h1]
      by_cases h2 : a = n + 1 + k ∧ b = 0
      · rw [if_pos h2, if_pos (by omega)]
      · rw [if_neg h2]
        by_cases h3 : (b = 0 ∧ n + 1 ≤ a ∧ a < n + 1 + k) ∨ (a = 0 ∧ n + 1 ≤ b ∧ b < n + 1 + k)
        · rw [if_pos h3, if_pos (by omega)]
        · rw [if_neg h3, if_neg (by omega)]

/-! ## `concatenate_assign` -/

theorem bdsLatConcatInner_apply (n1 i c : Nat) (y m : Mat) (a b : Nat) :
    loopUp c (fun s m => m.set i (n1 + 1 + s) (y (i - n1) (n1 + 1 + s - n1))) m a b
      = if a = i ∧ n1 + 1 ≤ b ∧ b < n1 + 1 + c then y (i - n1) (b - n1) else m a b := by
  induction c with
  | zero => simp [loopUp]
  | succ c ih =>
    simp only [loopUp, Mat.set_apply, ih]
    by_cases h1 : a = i ∧ b = n1 + 1 + c
    · rw [if_pos h1, if_pos (by omega)]; rw [h1.2]
    · rw [if_neg h1]
      by_cases h2 : a = i ∧ n1 + 1 ≤ b ∧ b < n1 + 1 + c
      · rw [if_pos h2, if_pos (by omega)]
      · rw [if_neg h2, if_neg (by omega)]

theorem bdsLatConcatOuter_apply (n1 n2 c : Nat) (m y : Mat) (a b : Nat) :
    loopUp c (fun t m =>
      let i := n1 + 1 + t
      let m := m.set i 0 (y (i - n1) 0)
      let m := m.set 0 i (y 0 (i - n1))
      loopUp n2 (fun s m => let j := n1 + 1 + s; m.set i j (y (i - n1) (j - n1))) m) m a b
      = if n1 + 1 ≤ a ∧ a < n1 + 1 + c then
          (if b = 0 then y (a - n1) 0
           else if n1 + 1 ≤ b ∧ b < n1 + 1 + n2 then y (a - n1) (b - n1) else m a b)
        else if a = 0 ∧ n1 + 1 ≤ b ∧ b < n1 + 1 + c then y 0 (b - n1) else m a b := by
  induction c with
  | zero =>
    simp only [loopUp]
    rw [if_neg (by omega), if_neg (by omega)]
  | succ c ih =>
    simp only [loopUp]
    rw [bdsLatConcatInner_apply]
    simp only [Mat.set_apply, ih]
    split_ifs <;> first | rfl | omega | simp_all

theorem bdsLatConcatLoop_apply (n1 n2 : Nat) (m y : Mat) (a b : Nat) :
    bdsLatConcatLoop n1 n2 m y a b
      = if n1 + 1 ≤ a ∧ a < n1 + 1 + n2 then
          (if b = 0 then y (a - n1) 0
           else if n1 + 1 ≤ b ∧ b < n1 + 1 + n2 then y (a - n1) (b - n1) else m a b)
        else if a = 0 ∧ n1 + 1 ≤ b ∧ b < n1 + 1 + n2 then y 0 (b - n1) else m a b :=
  bdsLatConcatOuter_apply n1 n2 n2 m y a b

end PPLV.WR
