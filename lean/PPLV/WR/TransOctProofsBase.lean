import PPLV.WR.TransOct
import PPLV.WR.TransProofsGeneral
import PPLV.WR.ClosureProofsDeduceOct
/-!
# `Octagonal_Shape<T>::affine_image`: basic lemmas (points, `forget_all_octagonal_constraints`, the
incremental closure on a raw matrix)
-/
set_option linter.unusedVariables false
set_option linter.unusedSimpArgs false
namespace PPLV.WR
open ExtRat

theorem oval_upd (x : Nat → Rat) (vid : Nat) (t : Rat) (i : Nat) :
    OctM.oval (upd x vid t) i
      = if i = 2 * vid then t else if i = 2 * vid + 1 then - t else OctM.oval x i := by
  unfold OctM.oval upd
  by_cases h0 : i = 2 * vid
  · subst h0; simp
  · by_cases h1 : i = 2 * vid + 1
    · subst h1
      have : (2 * vid + 1) % 2 = 1 := by omega
      have h2 : (2 * vid + 1) / 2 = vid := by omega
      simp [this, h2]
    · rw [if_neg h0, if_neg h1]
      have : i / 2 ≠ vid := by omega
      simp [this]

theorem oval_upd_ne (x : Nat → Rat) {vid i : Nat} (t : Rat) (h0 : i ≠ 2 * vid) (h1 : i ≠ 2 * vid + 1) :
    OctM.oval (upd x vid t) i = OctM.oval x i := by rw [oval_upd, if_neg h0, if_neg h1]

theorem forgetLoop1_apply (r k : Nat) (m : Mat) (a c : Nat) :
    loopDown k (fun h m => (m.set r h pinf).set (r + 1) h pinf) m a c
      = if (a = r ∨ a = r + 1) ∧ c < k then pinf else m a c := by
  induction k generalizing m with
  | zero => simp [loopDown]
  | succ k ih =>
    simp only [loopDown]
    rw [ih]
    simp only [Mat.set_apply]
    by_cases h1 : (a = r ∨ a = r + 1) ∧ c < k
    · rw [if_pos h1, if_pos (by omega)]
    · rw [if_neg h1]
      by_cases h2 : a = r + 1 ∧ c = k
      · rw [if_pos h2, if_pos (by omega)]
      · rw [if_neg h2]
        by_cases h3 : a = r ∧ c = k
        · rw [if_pos h3, if_pos (by omega)]
        · rw [if_neg h3, if_neg (by omega)]

theorem forgetLoop2_apply (s q k : Nat) (m : Mat) (a c : Nat) :
    loopUp k (fun j m => (m.set (s + j) q pinf).set (s + j) (q + 1) pinf) m a c
      = if (s ≤ a ∧ a < s + k) ∧ (c = q ∨ c = q + 1) then pinf else m a c := by
  induction k with
  | zero => simp [loopUp]
  | succ k ih =>
    simp only [loopUp, Mat.set_apply]
    rw [ih]
    by_cases h2 : a = s + k ∧ c = q + 1
    · rw [if_pos h2, if_pos (by omega)]
    · rw [if_neg h2]
      by_cases h3 : a = s + k ∧ c = q
      · rw [if_pos h3, if_pos (by omega)]
      · rw [if_neg h3]
        by_cases h1 : (s ≤ a ∧ a < s + k) ∧ (c = q ∨ c = q + 1)
        · rw [if_pos h1, if_pos (by omega)]
        · rw [if_neg h1, if_neg (by omega)]

theorem octForgetAll_apply (n vid : Nat) (m : Mat) (a c : Nat) :
    octForgetAll n vid m a c
      = if ((a = 2 * vid ∨ a = 2 * vid + 1) ∧ c < 2 * vid + 2) ∨
           ((2 * vid + 2 ≤ a ∧ a < 2 * n) ∧ (c = 2 * vid ∨ c = 2 * vid + 1)) then pinf else m a c := by
  unfold octForgetAll
  dsimp only
  rw [forgetLoop2_apply, forgetLoop1_apply]
  by_cases h2 : (2 * vid + 2 ≤ a ∧ a < 2 * vid + 2 + (2 * n - (2 * vid + 2))) ∧ (c = 2 * vid ∨ c = 2 * vid + 1)
  · rw [if_pos h2, if_pos (by omega)]
  · rw [if_neg h2]
    by_cases h1 : (a = 2 * vid ∨ a = 2 * vid + 1) ∧ c < 2 * vid + 2
    · rw [if_pos h1, if_pos (Or.inl h1)]
    · rw [if_neg h1, if_neg (by omega)]

/-- after `forget_all_octagonal_constraints(vid)` the point with a new value for `Variable(vid)` satisfies
the matrix -/
theorem holds_octForgetAll {n vid : Nat} (hv : vid < n) {x : Nat → Rat} {m : Mat}
    (h : Holds (SO n) (OctM.oval x) m) (t : Rat) :
    Holds (SO n) (OctM.oval (upd x vid t)) (octForgetAll n vid m) := by
  intro a c hac
  rw [octForgetAll_apply]
  split
  · exact le_pinf _
  · rename_i hc
    obtain ⟨ha, hcc⟩ := hac
    unfold rowSize at hcc
    rw [oval_upd_ne x t (by omega) (by omega), oval_upd_ne x t (by omega) (by omega)]
    exact h a c ⟨ha, by unfold rowSize; exact hcc⟩

/-- a raw matrix as an `OctM`: same points -/
theorem sat_octOfMat {n : Nat} {m : Mat} {x : Nat → Rat} (hx : Holds (SO n) (OctM.oval x) m) :
    (OctM.ofMat n m).Sat x :=
  (OctM.sat_iff_holds _ x).2 (holds_diagUp_pinf hx)

/-- `incremental_strong_closure_assign(var)` keeps every point -/
theorem octIncClose_sound {R : Rnd} (hR : R.Sound) {n vid : Nat} (hv : vid < n) {m : Mat} {x : Nat → Rat}
    (hx : Holds (SO n) (OctM.oval x) m) :
    ∃ m', octIncClose R n vid m = some m' ∧ Holds (SO n) (OctM.oval x) m' := by
  unfold octIncClose
  dsimp only
  have hs := sat_octOfMat hx
  split
  · rename_i he
    exact absurd hs (OctM.incStrongClosureEmpty_sound hR.up_le hv _ he x)
  · exact ⟨_, rfl, (OctM.sat_iff_holds _ x).1 (OctM.incStrongClosure_sat hR.up_le hv _ x hs)⟩

theorem octCloseFirst_sound {n : Nat} {up : Rat → ExtRat} (hup : ∀ q, fin q ≤ up q) (closed : Bool) (m : OctM n)
    {x : Nat → Rat} (hx : x ∈ OctM.γ m) :
    ∃ m', octCloseFirst up closed m = some m' ∧ x ∈ γO n m' := by
  unfold octCloseFirst
  split
  · exact ⟨_, rfl, (OctM.sat_iff_holds m x).1 hx⟩
  · split
    · rename_i he
      exact absurd hx (OctM.strongClosureEmpty_sound hup m he x)
    · exact ⟨_, rfl, (OctM.sat_iff_holds _ x).1 (OctM.strongClosure_sat hup m x hx)⟩

/-- unary cells: `2·x_k ≤ m[2k+1][2k]`, `-2·x_k ≤ m[2k][2k+1]` -/
theorem oct_unary {n : Nat} {x : Nat → Rat} {m : Mat} (h : Holds (SO n) (OctM.oval x) m) {k : Nat} (hk : k < n) :
    fin (2 * x k) ≤ m (2 * k + 1) (2 * k) ∧ fin (-(2 * x k)) ≤ m (2 * k) (2 * k + 1) := by
  have h1 := h (2 * k + 1) (2 * k) ⟨by omega, by unfold rowSize; omega⟩
  have h2 := h (2 * k) (2 * k + 1) ⟨by omega, by unfold rowSize; omega⟩
  rw [oval_even, oval_odd] at h1 h2
  constructor
  · have e : x k - -x k = 2 * x k := by ring
    rw [e] at h1; exact h1
  · have e : -x k - x k = -(2 * x k) := by ring
    rw [e] at h2; exact h2

theorem fin_le_mulTwoUp {up : Rat → ExtRat} (hup : ∀ q, fin q ≤ up q) {a : Rat} {s : ExtRat} (h : fin a ≤ s) :
    fin (2 * a) ≤ mulTwoUp up s := by
  cases s with
  | pinf => exact le_pinf _
  | fin q => exact le_trans' (fin_le_fin.2 (by have := fin_le_fin.1 h; linarith)) (hup _)

end PPLV.WR
