import PPLV.WR.BoxTransProofsExpr
/-!
# C03 stage 4 — `Box<ITV>::refine_with_constraint` is exact on interval constraints

Where the C++ documents exactness: a constraint with one variable, exact (rational) boundaries.
`refine_with_constraint(c)` then computes exactly `box ∩ {x | c(x)}`.  For a strict constraint the
policy must store openness (`Rational_Box`); for the non-strict ones any policy with exact
rounding will do.
-/
set_option linter.unusedVariables false
set_option linter.unusedSimpArgs false
namespace PPLV.WR.BoxT
open PPLV.Interval
open PPLV.Interval.ExtRat (ninf fin pinf)

/-! ### the scalar against the bounds of the universe interval -/

theorem er_lt_A (p : Policy) (o : Bool) (q : Rat) :
    lt p .upper ⟨pinf, o⟩ Policy.scalar .upper ⟨fin q, false⟩ = false := by
  obtain ⟨ss, so, mci, ci, mbe⟩ := p
  cases ss <;> cases so <;> cases mci <;> cases o <;>
    simp [lt, isOpen, getOpen, isBoundaryInfinity, getSpecial, normalIsBoundaryInfinity, isMinusInfinity,
      isPlusInfinity, isReverseInfinity, Policy.scalar]

theorem er_lt_B (p : Policy) (o : Bool) (q : Rat) :
    lt Policy.scalar .upper ⟨fin q, false⟩ p .upper ⟨pinf, o⟩ = true := by
  obtain ⟨ss, so, mci, ci, mbe⟩ := p
  cases ss <;> cases so <;> cases mci <;> cases o <;>
    simp [lt, isOpen, getOpen, isBoundaryInfinity, getSpecial, normalIsBoundaryInfinity, isMinusInfinity,
      isPlusInfinity, isReverseInfinity, Policy.scalar]

theorem er_lt_C (p : Policy) (o : Bool) (q : Rat) :
    lt Policy.scalar .lower ⟨fin q, false⟩ p .lower ⟨ninf, o⟩ = false := by
  obtain ⟨ss, so, mci, ci, mbe⟩ := p
  cases ss <;> cases so <;> cases mci <;> cases o <;>
    simp [lt, isOpen, getOpen, isBoundaryInfinity, getSpecial, normalIsBoundaryInfinity, isMinusInfinity,
      isPlusInfinity, isReverseInfinity, Policy.scalar]

theorem er_lt_D (p : Policy) (o : Bool) (q : Rat) :
    lt p .lower ⟨ninf, o⟩ Policy.scalar .lower ⟨fin q, false⟩ = true := by
  obtain ⟨ss, so, mci, ci, mbe⟩ := p
  cases ss <;> cases so <;> cases mci <;> cases o <;>
    simp [lt, isOpen, getOpen, isBoundaryInfinity, getSpecial, normalIsBoundaryInfinity, isMinusInfinity,
      isPlusInfinity, isReverseInfinity, Policy.scalar]

/-- `assign` of the scalar with exact rounding stores the scalar -/
theorem er_bAssign_scalar (p : Policy) (t : BT) (q : Rat) (s : Bool) :
    bAssign p Rounding.id t Policy.scalar t ⟨fin q, false⟩ s = ⟨fin q, p.storeOpen && s⟩ := by
  cases t <;> simp [bAssign, getSpecial, Policy.scalar, adjust_id, normalIsOpen]

/-- `build(i_constraint(rel, q))` with exact rounding is exactly the half-line / the point -/
theorem er_buildC_id_iff {p : Policy} {rel : Rel} {q a : Rat} (hne : rel ≠ .ne)
    (hso : p.storeOpen = true ∨ (rel ≠ .lt ∧ rel ≠ .gt)) :
    (buildC p Rounding.id rel q).mem p a ↔ Rel.holds rel a q := by
  cases rel <;>
    simp only [buildC, refineExistentialScalar, Iv.universe, setUnbounded, infOf, gt, le, ge, bMax1, bMin1,
      er_lt_A, er_lt_B, er_lt_C, er_lt_D, er_bAssign_scalar, Bool.not_true, Bool.not_false, Bool.false_eq_true,
      if_false, if_true, Iv.mem, lowerOk, upperOk, getOpen_mk, Rel.holds, lowerOkV_ninf, upperOkV_pinf,
      true_and, and_true, Bool.and_true, Bool.and_false, Bool.and_self, lowerOkV_fin_closed, upperOkV_fin_closed]
  · exact ⟨fun h => le_antisymm h.2 h.1, fun h => ⟨h.ge, h.le⟩⟩
  · rcases hso with h | h
    · rw [h]; simp
    · exact absurd rfl h.1
  · rcases hso with h | h
    · rw [h]; simp
    · exact absurd rfl h.2
  · exact absurd rfl hne

/-- the relation symbol of `refine_interval_no_check` -/
def erRel (ty : CType) (denom : Int) : Rel :=
  match ty with
  | .eq => .eq
  | .ge => if denom > 0 then .ge else .le
  | .gt => if denom > 0 then .gt else .lt

theorem erRel_ne (ty : CType) (d : Int) : erRel ty d ≠ .ne := by
  cases ty <;> by_cases h : d > 0 <;> simp [erRel, h]

theorem erRel_strict {ty : CType} (d : Int) (h : ty ≠ .gt) : erRel ty d ≠ .lt ∧ erRel ty d ≠ .gt := by
  cases ty <;> by_cases h2 : d > 0 <;> simp [erRel, h2] at h ⊢

/-- the relation symbol and the bound of `refine_interval_no_check` say exactly what the
constraint `d * t + n ⋈ 0` says -/
theorem erRel_iff (ty : CType) {n d : Int} (t : Rat) (hd : d ≠ 0) :
    Rel.holds (erRel ty d) t (-((n : Rat) / (d : Rat))) ↔
      (match ty with
       | .eq => (d : Rat) * t + (n : Rat) = 0
       | .ge => 0 ≤ (d : Rat) * t + (n : Rat)
       | .gt => 0 < (d : Rat) * t + (n : Rat)) := by
  have hd' : (d : Rat) ≠ 0 := by exact_mod_cast hd
  have hq : (d : Rat) * (-((n : Rat) / (d : Rat))) = -(n : Rat) := by
    rw [mul_neg, mul_comm, div_mul_cancel₀ _ hd']
  generalize (-((n : Rat) / (d : Rat))) = q at hq
  have key : (d : Rat) * t + (n : Rat) = (d : Rat) * (t - q) := by rw [mul_sub, hq]; ring
  rcases lt_or_gt_of_ne hd with hneg | hpos
  · have hn : (d : Rat) < 0 := by exact_mod_cast hneg
    have hng : ¬ d > 0 := by omega
    cases ty <;> simp only [erRel, hng, if_false, Rel.holds] <;> rw [key]
    · constructor
      · intro h; rw [h]; simp
      · intro h
        rcases mul_eq_zero.1 h with h | h
        · exact absurd h hd'
        · linarith
    · constructor
      · intro h; nlinarith
      · intro h; by_contra hc; nlinarith
    · constructor
      · intro h; nlinarith
      · intro h; by_contra hc; nlinarith
  · have hp : (0 : Rat) < (d : Rat) := by exact_mod_cast hpos
    have hpg : d > 0 := hpos
    cases ty <;> simp only [erRel, hpg, if_true, Rel.holds] <;> rw [key]
    · constructor
      · intro h; rw [h]; simp
      · intro h
        rcases mul_eq_zero.1 h with h | h
        · exact absurd h hd'
        · linarith
    · constructor
      · intro h; nlinarith
      · intro h; by_contra hc; nlinarith
    · constructor
      · intro h; nlinarith
      · intro h; by_contra hc; nlinarith

theorem er_extract_some_some {c : Con} {v : Nat} (h : extractIntervalConstraint c = some (some v)) :
    ∃ a, c.e.terms = [(v, a)] := by
  unfold extractIntervalConstraint at h
  split at h
  · simp at h
  · rename_i w a hw
    simp only [Option.some.injEq] at h
    subst h
    exact ⟨a, hw⟩
  · simp at h

/-- membership in a box where one interval has been replaced -/
theorem er_mem_setIv_iff {p : Policy} {b : Box} {x : Nat → Rat} {v : Nat} {I : Iv} (hv : v < b.seq.length) :
    ((b.setIv v I).resetEmptyUpToDate).mem p x ↔
      I.mem p (x v) ∧ ∀ k, k < b.seq.length → k ≠ v → (b.get k).mem p (x k) := by
  have hg : ∀ k, (b.setIv v I).resetEmptyUpToDate.get k = (b.setIv v I).get k := fun k => rfl
  have hl : (b.setIv v I).resetEmptyUpToDate.seq.length = b.seq.length := by
    simp [Box.resetEmptyUpToDate]
  constructor
  · rintro ⟨_, h⟩
    refine ⟨?_, fun k hk hkv => ?_⟩
    · have := h v (by rw [hl]; exact hv)
      rwa [hg, Box.get_setIv_same b I hv] at this
    · have := h k (by rw [hl]; exact hk)
      rwa [hg, Box.get_setIv_other b I hkv] at this
  · rintro ⟨h1, h2⟩
    refine ⟨by simp [Box.resetEmptyUpToDate, Box.markedEmpty], fun k hk => ?_⟩
    rw [hl] at hk
    rw [hg]
    by_cases hkv : k = v
    · subst hkv; rw [Box.get_setIv_same b I hk]; exact h1
    · rw [Box.get_setIv_other b I hkv]; exact h2 k hk hkv

theorem er_mem_split {p : Policy} {b : Box} {x : Nat → Rat} {v : Nat} (hv : v < b.seq.length)
    (hm : b.markedEmpty = false) :
    b.mem p x ↔ (b.get v).mem p (x v) ∧ ∀ k, k < b.seq.length → k ≠ v → (b.get k).mem p (x k) := by
  constructor
  · rintro ⟨_, h⟩
    exact ⟨h v hv, fun k hk _ => h k hk⟩
  · rintro ⟨h1, h2⟩
    refine ⟨hm, fun k hk => ?_⟩
    by_cases hkv : k = v
    · subst hkv; exact h1
    · exact h2 k hk hkv

/-- `refine_with_constraint(c)` for an interval constraint, with exact boundaries, is exactly the
meet of the box with the solutions of `c` -/
theorem refine_interval_exact {cfg : Cfg} {b : Box} {c : Con} {v : Nat} (hR : cfg.R = Rounding.id)
    (hso : cfg.p.storeOpen = true ∨ c.ty ≠ .gt) (hiv : extractIntervalConstraint c = some (some v))
    (hv : v < b.dim) (hm : b.markedEmpty = false) (x : Nat → Rat) :
    (refineWithConstraint cfg b c).mem cfg.p x ↔ (b.mem cfg.p x ∧ c.holds x) := by
  obtain ⟨a, ht⟩ := er_extract_some_some hiv
  have hmem : (v, a) ∈ c.e.terms := by rw [ht]; simp
  obtain ⟨ha, hcv, _⟩ := LinExpr.mem_terms hmem
  have he := LinExpr.terms_singleton ht x
  unfold refineWithConstraint refineNoCheck
  rw [hm, hiv]
  simp only [Bool.false_eq_true, if_false]
  rw [hcv]
  have hunf : addIntervalConstraintNoCheck cfg b v c.ty c.e.inhom a =
      (b.setIv v (addConstraintIv cfg.p cfg.R (b.get v) (erRel c.ty a)
        (-((c.e.inhom : Rat) / (a : Rat))))).resetEmptyUpToDate := rfl
  rw [hunf, er_mem_setIv_iff hv, er_mem_split hv hm, hR]
  unfold addConstraintIv
  rw [intersectAssign_exact, er_buildC_id_iff (erRel_ne _ _)
    (by rcases hso with h | h
        · exact Or.inl h
        · exact Or.inr (erRel_strict a h)),
    erRel_iff c.ty (x v) ha]
  have hc : c.holds x ↔ (match c.ty with
       | .eq => (a : Rat) * x v + (c.e.inhom : Rat) = 0
       | .ge => 0 ≤ (a : Rat) * x v + (c.e.inhom : Rat)
       | .gt => 0 < (a : Rat) * x v + (c.e.inhom : Rat)) := by
    unfold Con.holds
    rw [he]
    cases c.ty <;> exact Iff.rfl
  rw [hc]
  tauto

/-! ## non-vacuity -/

/-- `2·x₁ − 3 > 0` on the universe of `Rational_Box` -/
example (x : Nat → Rat) :
    (refineWithConstraint Cfg.mpq (Box.univ Policy.rational 2) ⟨⟨[0, 2], -3⟩, .gt⟩).mem Policy.rational x ↔
      ((Box.univ Policy.rational 2).mem Policy.rational x ∧ (⟨⟨[0, 2], -3⟩, .gt⟩ : Con).holds x) :=
  refine_interval_exact (cfg := Cfg.mpq) (v := 1) rfl (Or.inl rfl) (by decide) (by decide) (by decide) x

/-- a non-strict constraint on `Z_Box`-shaped policy with exact boundaries -/
example (x : Nat → Rat) :
    (refineWithConstraint ⟨Policy.integer, Rounding.id, Rounding.id, false⟩ (Box.univ Policy.integer 1)
      ⟨⟨[-1], 4⟩, .ge⟩).mem Policy.integer x ↔
      ((Box.univ Policy.integer 1).mem Policy.integer x ∧ (⟨⟨[-1], 4⟩, .ge⟩ : Con).holds x) :=
  refine_interval_exact (cfg := ⟨Policy.integer, Rounding.id, Rounding.id, false⟩) (v := 0) rfl
    (Or.inr (by decide)) (by decide) (by decide) (by decide) x

end PPLV.WR.BoxT
