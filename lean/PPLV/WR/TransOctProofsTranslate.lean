import PPLV.WR.TransOctProofsBase
import PPLV.WR.TransProofsGenSpecial
import Mathlib.Tactic.Linarith
import Mathlib.Tactic.FieldSimp
import Mathlib.Tactic.Ring
import Mathlib.Tactic.NormNum
/-!
# `Octagonal_Shape<T>::affine_image`: the branch `expr == ±den * var + b`

Soundness of the branch `t = 1 ∧ w_id = vid ∧ w_coeff = ±den` of `octAffineImageCore` (the identity sub-case
and `octTranslate`).  The two values of `sign_symmetry` are treated together: `octTranslateP` is
`octTranslate` written with the two source rows/columns `p0`, `p1` (`(2v, 2v+1)` without sign symmetry,
`(2v+1, 2v)` with it); the new cell `(2v, ·)` is the old cell `(p0, ·)` minus `q`, the new cell `(2v+1, ·)` the
old cell `(p1, ·)` plus `q`, and symmetrically for the columns.
-/
set_option linter.unusedVariables false
set_option linter.unusedSimpArgs false
namespace PPLV.WR
open ExtRat

/-! ## closed forms of the two loops -/

/-- `for j < k: m[r][j] := m[p0][j] + u; m[r+1][j] := m[p1][j] + w` (both read before both are stored) -/
theorem transRows_apply (up : Rat → ExtRat) (r p0 p1 k : Nat) (u w : ExtRat) (m : Mat) (a c : Nat) :
    loopDown k (fun j m => (m.set r j (addUp up (m p0 j) u)).set (r + 1) j (addUp up (m p1 j) w)) m a c
      = if a = r ∧ c < k then addUp up (m p0 c) u
        else if a = r + 1 ∧ c < k then addUp up (m p1 c) w else m a c := by
  induction k generalizing m with
  | zero => simp [loopDown]
  | succ k ih =>
    simp only [loopDown]
    rw [ih]
    simp only [Mat.set_apply]
    rcases Nat.lt_trichotomy c k with hc | rfl | hc
    · by_cases h1 : a = r
      · simp (disch := omega) only [if_pos, if_neg, and_true, true_and]
      · by_cases h2 : a = r + 1
        · simp (disch := omega) only [if_pos, if_neg, and_true, true_and]
        · simp (disch := omega) only [if_pos, if_neg, and_true, true_and]
    · by_cases h1 : a = r
      · simp (disch := omega) only [if_pos, if_neg, and_true, true_and]
      · by_cases h2 : a = r + 1
        · simp (disch := omega) only [if_pos, if_neg, and_true, true_and]
        · simp (disch := omega) only [if_pos, if_neg, and_true, true_and]
    · simp (disch := omega) only [if_pos, if_neg, and_true, true_and]

/-- `for s ≤ i < s + k: m[i][r] := m[i][p0] + u; m[i][r+1] := m[i][p1] + w` -/
theorem transCols_apply (up : Rat → ExtRat) (s r p0 p1 k : Nat) (u w : ExtRat) (m : Mat) (a c : Nat) :
    loopUp k (fun j m => (m.set (s + j) r (addUp up (m (s + j) p0) u)).set (s + j) (r + 1)
        (addUp up (m (s + j) p1) w)) m a c
      = if (s ≤ a ∧ a < s + k) ∧ c = r then addUp up (m a p0) u
        else if (s ≤ a ∧ a < s + k) ∧ c = r + 1 then addUp up (m a p1) w else m a c := by
  induction k generalizing a c with
  | zero => simp only [loopUp]; rw [if_neg (by omega), if_neg (by omega)]
  | succ k ih =>
    simp only [loopUp, Mat.set_apply]
    simp only [ih]
    by_cases ha : a = s + k
    · subst ha
      by_cases h1 : c = r
      · simp (disch := omega) only [if_pos, if_neg, and_true, true_and]
      · by_cases h2 : c = r + 1
        · simp (disch := omega) only [if_pos, if_neg, and_true, true_and]
        · simp (disch := omega) only [if_pos, if_neg, and_true, true_and]
    · by_cases hlt : s ≤ a ∧ a < s + k
      · by_cases h1 : c = r
        · simp (disch := omega) only [if_pos, if_neg, and_true, true_and]
        · by_cases h2 : c = r + 1
          · simp (disch := omega) only [if_pos, if_neg, and_true, true_and]
          · simp (disch := omega) only [if_pos, if_neg, and_true, true_and]
      · simp (disch := omega) only [if_pos, if_neg, and_true, true_and]

/-! ## `octTranslate` with the source rows/columns as parameters -/

/-- `octTranslate` where row/column `2v` is computed from row/column `p0` and `2v+1` from `p1` -/
def octTranslateP (R : Rnd) (n vid p0 p1 : Nat) (b den : Int) (m : Mat) : Mat :=
  let m1 := loopDown (2 * vid) (fun j m =>
    (m.set (2 * vid) j (addUp R.up (m p0 j) (divRoundUp R b (- den)))).set (2 * vid + 1) j
      (addUp R.up (m p1 j) (divRoundUp R b den))) m
  let m2 := loopUp (2 * n - (2 * vid + 2)) (fun k m =>
    (m.set (2 * vid + 2 + k) (2 * vid) (addUp R.up (m (2 * vid + 2 + k) p0) (divRoundUp R b den))).set
      (2 * vid + 2 + k) (2 * vid + 1) (addUp R.up (m (2 * vid + 2 + k) p1) (divRoundUp R b (- den)))) m1
  (m2.set (2 * vid + 1) (2 * vid) (addUp R.up (m2 p1 p0) (mulTwoUp R.up (divRoundUp R b den)))).set
    (2 * vid) (2 * vid + 1) (addUp R.up (m2 p0 p1) (mulTwoUp R.up (divRoundUp R b (- den))))

theorem octTranslate_eq (R : Rnd) (n vid : Nat) (ss : Bool) (b den : Int) (m : Mat) :
    octTranslate R n vid ss b den m
      = octTranslateP R n vid (if ss then 2 * vid + 1 else 2 * vid) (if ss then 2 * vid else 2 * vid + 1)
          b den m := by
  cases ss <;> rfl

/-- the translated potential `y'` (`y' (2v) = y p0 + q`, `y' (2v+1) = y p1 - q`, the rest unchanged)
satisfies the translated matrix -/
theorem holds_octTranslateP {R : Rnd} (hR : R.Sound) {n vid : Nat} (hv : vid < n) {p0 p1 : Nat}
    (hp : (p0 = 2 * vid ∧ p1 = 2 * vid + 1) ∨ (p0 = 2 * vid + 1 ∧ p1 = 2 * vid))
    {b den : Int} {q : Rat} (hd : fin q ≤ divRoundUp R b den) (hmd : fin (-q) ≤ divRoundUp R b (- den))
    {y y' : Nat → Rat} {m : Mat} (h : Holds (SO n) y m)
    (hy0 : y' (2 * vid) = y p0 + q) (hy1 : y' (2 * vid + 1) = y p1 - q)
    (hyo : ∀ i, i ≠ 2 * vid → i ≠ 2 * vid + 1 → y' i = y i) :
    Holds (SO n) y' (octTranslateP R n vid p0 p1 b den m) := by
  have key : ∀ {s t z : Rat} {A B : ExtRat}, fin s ≤ A → fin t ≤ B → z = s + t →
      fin z ≤ addUp R.up A B := by
    intro s t z A B h1 h2 e; rw [e]; exact fin_le_addUp' hR h1 h2
  have hd2 := fin_le_mulTwoUp hR.up_le hd
  have hmd2 := fin_le_mulTwoUp hR.up_le hmd
  have hcell : ∀ a c, a < 2 * n → c < a + 2 - a % 2 → fin (y c - y a) ≤ m a c :=
    fun a c h1 h2 => h a c ⟨h1, by unfold rowSize; exact h2⟩
  intro a c hac
  obtain ⟨ha, hc⟩ := hac
  unfold rowSize at hc
  unfold octTranslateP
  simp only [Mat.set_apply, transCols_apply, transRows_apply]
  by_cases ha0 : a = 2 * vid
  · subst ha0
    by_cases hc1 : c = 2 * vid + 1
    · -- unary cell `(2v, 2v+1)`
      subst hc1
      simp (disch := omega) only [if_pos, if_neg, and_true, true_and]
      refine key (hcell p0 p1 (by omega) (by omega)) hmd2 ?_
      rw [hy0, hy1]; ring
    · by_cases hc0 : c = 2 * vid
      · -- diagonal cell
        subst hc0
        simp (disch := omega) only [if_pos, if_neg, and_true, true_and]
        have := hcell (2 * vid) (2 * vid) (by omega) (by omega)
        rw [sub_self] at this ⊢; exact this
      · simp (disch := omega) only [if_pos, if_neg, and_true, true_and]
        refine key (hcell p0 c (by omega) (by omega)) hmd ?_
        rw [hy0, hyo c hc0 hc1]; ring
  · by_cases ha1 : a = 2 * vid + 1
    · subst ha1
      by_cases hc0 : c = 2 * vid
      · -- unary cell `(2v+1, 2v)`
        subst hc0
        simp (disch := omega) only [if_pos, if_neg, and_true, true_and]
        refine key (hcell p1 p0 (by omega) (by omega)) hd2 ?_
        rw [hy0, hy1]; ring
      · by_cases hc1 : c = 2 * vid + 1
        · subst hc1
          simp (disch := omega) only [if_pos, if_neg, and_true, true_and]
          have := hcell (2 * vid + 1) (2 * vid + 1) (by omega) (by omega)
          rw [sub_self] at this ⊢; exact this
        · simp (disch := omega) only [if_pos, if_neg, and_true, true_and]
          refine key (hcell p1 c (by omega) (by omega)) hd ?_
          rw [hy1, hyo c hc0 hc1]; ring
    · by_cases hc0 : c = 2 * vid
      · subst hc0
        simp (disch := omega) only [if_pos, if_neg, and_true, true_and]
        refine key (hcell a p0 (by omega) (by omega)) hd ?_
        rw [hy0, hyo a ha0 ha1]; ring
      · by_cases hc1 : c = 2 * vid + 1
        · subst hc1
          simp (disch := omega) only [if_pos, if_neg, and_true, true_and]
          refine key (hcell a p1 (by omega) (by omega)) hmd ?_
          rw [hy1, hyo a ha0 ha1]; ring
        · simp (disch := omega) only [if_pos, if_neg, and_true, true_and]
          rw [hyo a ha0 ha1, hyo c hc0 hc1]
          exact hcell a c ha hc

/-! ## the branch of `octAffineImageCore` -/

theorem oupd_self (x : Nat → Rat) (v : Nat) : upd x v (x v) = x := by
  funext i; unfold upd; split
  · rename_i h; rw [h]
  · rfl

theorem octAffineImageCore_translate_sound {R : Rnd} (hR : R.Sound) {n vid : Nat} (hv : vid < n)
    {e : Nat → Int} {b den : Int} (hden : den ≠ 0) {m : Mat} {x : Nat → Rat} (hx : x ∈ γO n m)
    (h1 : exprT e (lastNonzero e n) = 1) (hwv : lastNonzero e n - 1 = vid)
    (ha : e (lastNonzero e n - 1) = den ∨ e (lastNonzero e n - 1) = - den) :
    ∃ m', octAffineImageCore R n vid e b den m = some m' ∧
      upd x vid ((linEval e x n + b) / den) ∈ γO n m' := by
  have hx' : Holds (SO n) (OctM.oval x) m := hx
  obtain ⟨hw0, hE⟩ := linEval_t1 x h1
  unfold octAffineImageCore
  simp only []
  rw [if_neg (by omega), if_pos ⟨h1, ha⟩, if_pos hwv, hE]
  rw [hwv] at ha ⊢
  have hdq := fin_le_divRoundUp hR (le_refl ((b : Rat) / (den : Rat)))
  have hmdq : fin (-((b : Rat) / den)) ≤ divRoundUp R b (- den) :=
    fin_le_divRoundUp hR (by rw [div_negden])
  by_cases had : e vid = den
  · -- no sign symmetry
    rw [special_val_pos hden had]
    have hss : decide (e vid ≠ den) = false := by simp [had]
    rw [hss]
    by_cases hb : b = 0
    · rw [if_pos ⟨rfl, hb⟩]
      refine ⟨_, rfl, ?_⟩
      rw [hb]
      simp only [Int.cast_zero, zero_div, add_zero]
      rw [oupd_self]; exact hx
    · rw [if_neg (fun hh => hb hh.2)]
      refine ⟨_, rfl, ?_⟩
      show Holds (SO n) (OctM.oval (upd x vid (x vid + (b : Rat) / den))) _
      rw [octTranslate_eq]
      refine holds_octTranslateP hR hv (Or.inl ⟨rfl, rfl⟩) hdq hmdq hx' ?_ ?_ ?_
      · rw [oval_upd, if_pos rfl, oval_even]
      · rw [oval_upd, if_neg (by omega), if_pos rfl, oval_odd]; ring
      · intro i hi0 hi1; exact oval_upd_ne x _ hi0 hi1
  · -- sign symmetry
    have had' : e vid = - den := ha.resolve_left had
    rw [special_val_neg hden had']
    have hss : decide (e vid ≠ den) = true := by simp [had]
    rw [hss]
    rw [if_neg (fun hh => by simp at hh)]
    refine ⟨_, rfl, ?_⟩
    show Holds (SO n) (OctM.oval (upd x vid (- x vid + (b : Rat) / den))) _
    rw [octTranslate_eq]
    refine holds_octTranslateP hR hv (Or.inr ⟨rfl, rfl⟩) hdq hmdq hx' ?_ ?_ ?_
    · rw [oval_upd, if_pos rfl, oval_odd]
    · rw [oval_upd, if_neg (by omega), if_pos rfl, oval_even]; ring
    · intro i hi0 hi1; exact oval_upd_ne x _ hi0 hi1

end PPLV.WR
