import PPLV.WR.ClosureProofsBase
/-!
# `BD_Shape` closure kernels: every step keeps every point and only lowers entries
-/
namespace PPLV.WR
open ExtRat

/-- index pairs of a square matrix with `rows` rows -/
def SB (rows : Nat) : Nat → Nat → Prop := fun a b => a < rows ∧ b < rows

variable {up : Rat → ExtRat} {P : (Nat → Rat) → Prop}

theorem pres_bdsRelax (hup : ∀ x, fin x ≤ up x) {rows k : Nat} (hk : k < rows) (i j : Nat) (m : Mat) :
    Pres (SB rows) P m (bdsRelax up m i k j) := by
  unfold bdsRelax
  apply Pres.set
  · exact minA_le_left _ _
  · intro p _ h hij
    apply le_minA (h i j hij)
    have := fin_le_addUp hup (h i k ⟨hij.1, hk⟩) (h k j ⟨hk, hij.2⟩)
    have e : p j - p i = (p k - p i) + (p j - p k) := by ring
    rw [e]; exact this

theorem pres_bdsLoops (hup : ∀ x, fin x ≤ up x) (rows : Nat) (m : Mat) :
    Pres (SB rows) P m (bdsLoops up rows m) := by
  unfold bdsLoops
  apply Pres.loopDown; intro k hk m
  apply Pres.loopDown; intro i _ m
  apply Pres.ite; exact Pres.refl _
  apply Pres.loopDown; intro j _ m
  apply Pres.ite; exact Pres.refl _
  exact pres_bdsRelax hup hk i j m

theorem pres_bdsIncStep1 (hup : ∀ x, fin x ≤ up x) (rows v : Nat) (m : Mat) :
    Pres (SB rows) P m (bdsIncStep1 up rows v m) := by
  unfold bdsIncStep1
  apply Pres.loopDown; intro k hk m
  apply Pres.ite
  · apply Pres.ite
    · apply Pres.loopDown; intro i _ m
      refine Pres.trans (b := if (m i k).isPinf = true then m else bdsRelax up m i k v) ?_ ?_
      · apply Pres.ite; exact Pres.refl _
        exact pres_bdsRelax hup hk i v m
      · apply Pres.ite; exact Pres.refl _
        exact pres_bdsRelax hup hk v i _
    · apply Pres.loopDown; intro i _ m
      apply Pres.ite; exact Pres.refl _
      exact pres_bdsRelax hup hk v i m
  · apply Pres.ite
    · apply Pres.loopDown; intro i _ m
      apply Pres.ite; exact Pres.refl _
      exact pres_bdsRelax hup hk i v m
    · exact Pres.refl _

theorem pres_bdsIncStep2 (hup : ∀ x, fin x ≤ up x) {rows v : Nat} (hv : v < rows) (m : Mat) :
    Pres (SB rows) P m (bdsIncStep2 up rows v m) := by
  unfold bdsIncStep2
  apply Pres.loopDown; intro i _ m
  apply Pres.ite; exact Pres.refl _
  apply Pres.loopDown; intro j _ m
  apply Pres.ite; exact Pres.refl _
  exact pres_bdsRelax hup hv i j m

/-! ## wrapping: fill the diagonal, run the kernel, test, restore -/

theorem holds_diagDown_zero {rows : Nat} {p : Nat → Rat} {m : Mat} (h : Holds (SB rows) p m) :
    Holds (SB rows) p (Mat.diagDown rows (fin 0) m) := by
  intro a b hab
  rw [Mat.diagDown_apply]
  split
  · rename_i hc
    obtain ⟨rfl, _⟩ := hc
    simp
  · exact h a b hab

theorem holds_diagDown_pinf {rows : Nat} {p : Nat → Rat} {m : Mat} (h : Holds (SB rows) p m) :
    Holds (SB rows) p (Mat.diagDown rows pinf m) := by
  intro a b hab
  rw [Mat.diagDown_apply]
  split
  · simp
  · exact h a b hab

namespace DBM
variable {n : Nat}

theorem sat_iff_holds (m : DBM n) (x : Nat → Rat) : m.Sat x ↔ Holds (SB (n+1)) (val x) m.e := by
  constructor
  · intro h a b hab
    exact h a b (Nat.lt_succ_iff.1 hab.1) (Nat.lt_succ_iff.1 hab.2)
  · intro h i j hi hj
    exact h i j ⟨Nat.lt_succ_of_le hi, Nat.lt_succ_of_le hj⟩

/-- a kernel `F` run between "fill the diagonal with zeros" and "restore `+∞`" -/
theorem wrap_core_holds (F : Mat → Mat) (hF : ∀ m, Pres (SB (n+1)) (fun _ => True) m (F m))
    (m : DBM n) (x : Nat → Rat) (hx : m.Sat x) :
    Holds (SB (n+1)) (val x) (F (Mat.diagDown (n+1) (fin 0) m.e)) :=
  (hF _).1 _ trivial (holds_diagDown_zero ((sat_iff_holds m x).1 hx))

theorem wrap_le (F : Mat → Mat) (hF : ∀ m, Pres (SB (n+1)) (fun _ => True) m (F m))
    (m : DBM n) (i j : Nat) (hi : i ≤ n) (hj : j ≤ n) :
    Mat.diagDown (n+1) pinf (F (Mat.diagDown (n+1) (fin 0) m.e)) i j ≤ m.e i j := by
  rw [Mat.diagDown_apply]
  split
  · rename_i hc
    obtain ⟨rfl, _⟩ := hc
    rw [m.diag i hi]; simp
  · rename_i hc
    have := (hF (Mat.diagDown (n+1) (fin 0) m.e)).2 i j
    rw [Mat.diagDown_apply, if_neg hc] at this
    exact this

theorem closure_sat (hup : ∀ x, fin x ≤ up x) (m : DBM n) (x : Nat → Rat) (hx : m.Sat x) :
    (closure up m).Sat x := by
  rw [sat_iff_holds]
  exact holds_diagDown_pinf (wrap_core_holds (bdsLoops up (n+1)) (pres_bdsLoops hup (n+1)) m x hx)

theorem closure_le (hup : ∀ x, fin x ≤ up x) (m : DBM n) : closure up m ≤ m :=
  fun i j hi hj => wrap_le (bdsLoops up (n+1)) (pres_bdsLoops hup (n+1)) m i j hi hj

theorem closureEmpty_sound (hup : ∀ x, fin x ≤ up x) (m : DBM n) (he : closureEmpty up m = true)
    (x : Nat → Rat) : ¬ m.Sat x := by
  intro hx
  have h := wrap_core_holds (bdsLoops up (n+1)) (pres_bdsLoops hup (n+1)) m x hx
  have := h.negDiag_false (k := n+1) (fun h hh => ⟨hh, hh⟩)
  unfold closureEmpty bdsCore at he
  rw [this] at he
  exact Bool.false_ne_true he

theorem pres_bdsInc (hup : ∀ x, fin x ≤ up x) {v : Nat} (hv : v ≤ n) (m : Mat) :
    Pres (SB (n+1)) (fun _ => True) m (bdsIncStep2 up (n+1) v (bdsIncStep1 up (n+1) v m)) :=
  (pres_bdsIncStep1 hup (n+1) v m).trans (pres_bdsIncStep2 hup (Nat.lt_succ_of_le hv) _)

theorem incClosure_sat (hup : ∀ x, fin x ≤ up x) {v : Nat} (hv : v ≤ n) (m : DBM n) (x : Nat → Rat)
    (hx : m.Sat x) : (incClosure up v m).Sat x := by
  rw [sat_iff_holds]
  exact holds_diagDown_pinf (wrap_core_holds _ (pres_bdsInc hup hv) m x hx)

theorem incClosure_le (hup : ∀ x, fin x ≤ up x) {v : Nat} (hv : v ≤ n) (m : DBM n) :
    incClosure up v m ≤ m :=
  fun i j hi hj => wrap_le _ (pres_bdsInc hup hv) m i j hi hj

theorem incClosureEmpty_sound (hup : ∀ x, fin x ≤ up x) {v : Nat} (hv : v ≤ n) (m : DBM n)
    (he : incClosureEmpty up v m = true) (x : Nat → Rat) : ¬ m.Sat x := by
  intro hx
  have h := wrap_core_holds _ (pres_bdsInc hup hv) m x hx
  have := h.negDiag_false (k := n+1) (fun h hh => ⟨hh, hh⟩)
  unfold incClosureEmpty bdsIncCore at he
  rw [this] at he
  exact Bool.false_ne_true he

/-- the set of points of a difference-bound matrix -/
def γ (m : DBM n) : Set (ℕ → ℚ) := {x | m.Sat x}

end DBM
end PPLV.WR
