import PPLV.WR.TransProofsBase
import Mathlib.Tactic.Linarith
import Mathlib.Tactic.FieldSimp
import Mathlib.Tactic.Ring
/-!
# `generalized_affine_image(var, ≤ / ≥, expr, den)` and `bounded_affine_image`: the special cases

Soundness of every branch of `genAffineImageCore` except the general case (`expr` constant, or
`expr = ±den * w + b`), and of the branches of `boundedAffineImageCore` that neither go through an
additional dimension nor are the general case.
-/
set_option linter.unusedVariables false
set_option linter.unusedSimpArgs false
namespace PPLV.WR
open ExtRat

/-! ## the value of the expression in the special cases -/

theorem special_val_pos {den : Int} (hden : den ≠ 0) {a : Int} (ha : a = den) (b : Int) (y : Rat) :
    ((a : Rat) * y + b) / den = y + (b : Rat) / den := by
  have hd : (den : Rat) ≠ 0 := by exact_mod_cast hden
  subst ha; field_simp

theorem special_val_neg {den : Int} (hden : den ≠ 0) {a : Int} (ha : a = - den) (b : Int) (y : Rat) :
    ((a : Rat) * y + b) / den = - y + (b : Rat) / den := by
  have hd : (den : Rat) ≠ 0 := by exact_mod_cast hden
  subst ha; push_cast; field_simp

theorem div_negden (b den : Int) : (b : Rat) / ((- den : Int) : Rat) = - ((b : Rat) / den) := by
  push_cast; rw [div_neg]

/-! ## one new constraint on the forgotten variable -/

theorem holds_upd_addCol {n var : Nat} {x : Nat → Rat} {m : Mat} {t : Rat}
    (h : Holds (SB (n+1)) (DBM.val (upd x var t)) m)
    {i : Nat} (hi : i ≠ var + 1) {k : ExtRat} (hk : fin (t - DBM.val x i) ≤ k) :
    Holds (SB (n+1)) (DBM.val (upd x var t)) (addDbmConstraint m i (var+1) k) := by
  refine holds_addDbm h (fun _ => ?_)
  rw [val_upd, val_upd, if_pos rfl, if_neg hi]; exact hk

theorem holds_upd_addRow {n var : Nat} {x : Nat → Rat} {m : Mat} {t : Rat}
    (h : Holds (SB (n+1)) (DBM.val (upd x var t)) m)
    {i : Nat} (hi : i ≠ var + 1) {k : ExtRat} (hk : fin (DBM.val x i - t) ≤ k) :
    Holds (SB (n+1)) (DBM.val (upd x var t)) (addDbmConstraint m (var+1) i k) := by
  refine holds_addDbm h (fun _ => ?_)
  rw [val_upd, val_upd, if_pos rfl, if_neg hi]; exact hk

theorem holds_upd_setCol {n var : Nat} {x : Nat → Rat} {m : Mat} {t : Rat}
    (h : Holds (SB (n+1)) (DBM.val (upd x var t)) m)
    {i : Nat} (hi : i ≠ var + 1) {k : ExtRat} (hk : fin (t - DBM.val x i) ≤ k) :
    Holds (SB (n+1)) (DBM.val (upd x var t)) (m.set i (var+1) k) := by
  refine holds_set h (fun _ => ?_)
  rw [val_upd, val_upd, if_pos rfl, if_neg hi]; exact hk

theorem holds_upd_setRow {n var : Nat} {x : Nat → Rat} {m : Mat} {t : Rat}
    (h : Holds (SB (n+1)) (DBM.val (upd x var t)) m)
    {i : Nat} (hi : i ≠ var + 1) {k : ExtRat} (hk : fin (DBM.val x i - t) ≤ k) :
    Holds (SB (n+1)) (DBM.val (upd x var t)) (m.set (var+1) i k) := by
  refine holds_set h (fun _ => ?_)
  rw [val_upd, val_upd, if_pos rfl, if_neg hi]; exact hk

/-! ## the two loops `var' ≤ var + b/den`, `var' ≥ var + b/den` in closed form -/

theorem loopShiftCol_apply (up : Rat → ExtRat) (v : Nat) (d : ExtRat) (k : Nat) (m : Mat) (a c : Nat) :
    loopDown k (fun i m => (m.set i v (addUp up (m i v) d)).set v i pinf) m a c
      = if a = v ∧ c < k then pinf else if c = v ∧ a < k then addUp up (m a v) d else m a c := by
  induction k generalizing m with
  | zero => simp [loopDown]
  | succ k ih =>
    simp only [loopDown]
    rw [ih]
    simp only [Mat.set_apply]
    split_ifs <;> first | rfl | (exfalso; omega) | simp_all

theorem loopShiftRow_apply (up : Rat → ExtRat) (v : Nat) (d : ExtRat) (k : Nat) (m : Mat) (a c : Nat) :
    loopDown k (fun i m => (m.set v i (addUp up (m v i) d)).set i v pinf) m a c
      = if c = v ∧ a < k then pinf else if a = v ∧ c < k then addUp up (m v c) d else m a c := by
  induction k generalizing m with
  | zero => simp [loopDown]
  | succ k ih =>
    simp only [loopDown]
    rw [ih]
    simp only [Mat.set_apply]
    split_ifs <;> first | rfl | (exfalso; omega) | simp_all

/-! ## the four branches with `w = v` -/

theorem holds_shiftCol {R : Rnd} (hR : R.Sound) {n var : Nat} {x : Nat → Rat} {m : Mat}
    (hx : Holds (SB (n+1)) (DBM.val x) m) {t q : Rat} {d : ExtRat} (ht : t ≤ x var + q) (hd : fin q ≤ d) :
    Holds (SB (n+1)) (DBM.val (upd x var t))
      (loopDown (n+1) (fun i m => (m.set i (var+1) (addUp R.up (m i (var+1)) d)).set (var+1) i pinf) m) := by
  intro a c hac
  rw [loopShiftCol_apply]
  split_ifs with h1 h2
  · exact le_pinf _
  · obtain ⟨rfl, ha⟩ := h2
    have hav : a ≠ var + 1 := fun h => h1 ⟨h, hac.2⟩
    rw [val_upd, val_upd, if_pos rfl, if_neg hav]
    refine le_trans' (fin_le_fin.2 ?_) (fin_le_addUp' hR (hx a (var+1) hac) hd)
    simp only [DBM.val]; linarith
  · have hav : a ≠ var + 1 := fun h => h1 ⟨h, hac.2⟩
    have hcv : c ≠ var + 1 := fun h => h2 ⟨h, hac.1⟩
    rw [val_upd, val_upd, if_neg hav, if_neg hcv]
    exact hx a c hac

theorem holds_shiftRow {R : Rnd} (hR : R.Sound) {n var : Nat} {x : Nat → Rat} {m : Mat}
    (hx : Holds (SB (n+1)) (DBM.val x) m) {t q : Rat} {d : ExtRat} (ht : x var + q ≤ t) (hd : fin (- q) ≤ d) :
    Holds (SB (n+1)) (DBM.val (upd x var t))
      (loopDown (n+1) (fun i m => (m.set (var+1) i (addUp R.up (m (var+1) i) d)).set i (var+1) pinf) m) := by
  intro a c hac
  rw [loopShiftRow_apply]
  split_ifs with h1 h2
  · exact le_pinf _
  · obtain ⟨rfl, hc⟩ := h2
    have hcv : c ≠ var + 1 := fun h => h1 ⟨h, hac.1⟩
    rw [val_upd, val_upd, if_pos rfl, if_neg hcv]
    refine le_trans' (fin_le_fin.2 ?_) (fin_le_addUp' hR (hx (var+1) c hac) hd)
    simp only [DBM.val]; linarith
  · have hcv : c ≠ var + 1 := fun h => h1 ⟨h, hac.1⟩
    have hav : a ≠ var + 1 := fun h => h2 ⟨h, hac.2⟩
    rw [val_upd, val_upd, if_neg hav, if_neg hcv]
    exact hx a c hac

theorem holds_negCol {R : Rnd} (hR : R.Sound) {n var : Nat} {x : Nat → Rat} {m : Mat}
    (hx : Holds (SB (n+1)) (DBM.val x) m) (hvar : var < n) {t q : Rat} {d : ExtRat}
    (ht : t ≤ - x var + q) (hd : fin q ≤ d) :
    Holds (SB (n+1)) (DBM.val (upd x var t))
      (forgetBinary (n+1) (var+1)
        ((m.set 0 (var+1) (addUp R.up (m (var+1) 0) d)).set (var+1) 0 pinf)) := by
  intro a c hac
  have hac' : a < n + 1 ∧ c < n + 1 := hac
  rw [forgetBinary_apply]
  simp only [Mat.set_apply]
  split_ifs with h1 h2 h3
  · exact le_pinf _
  · exact le_pinf _
  · obtain ⟨rfl, rfl⟩ := h3
    rw [val_upd, val_upd, if_pos rfl, if_neg (by omega)]
    refine le_trans' (fin_le_fin.2 ?_) (fin_le_addUp' hR (hx (var+1) 0 ⟨by omega, by omega⟩) hd)
    simp only [DBM.val]; linarith
  · have hav : a ≠ var + 1 := by omega
    have hcv : c ≠ var + 1 := by omega
    rw [val_upd, val_upd, if_neg hav, if_neg hcv]
    exact hx a c hac

theorem holds_negRow {R : Rnd} (hR : R.Sound) {n var : Nat} {x : Nat → Rat} {m : Mat}
    (hx : Holds (SB (n+1)) (DBM.val x) m) (hvar : var < n) {t q : Rat} {d : ExtRat}
    (ht : - x var + q ≤ t) (hd : fin (- q) ≤ d) :
    Holds (SB (n+1)) (DBM.val (upd x var t))
      (forgetBinary (n+1) (var+1)
        ((m.set (var+1) 0 (addUp R.up (m 0 (var+1)) d)).set 0 (var+1) pinf)) := by
  intro a c hac
  have hac' : a < n + 1 ∧ c < n + 1 := hac
  rw [forgetBinary_apply]
  simp only [Mat.set_apply]
  split_ifs with h1 h2 h3
  · exact le_pinf _
  · exact le_pinf _
  · obtain ⟨rfl, rfl⟩ := h3
    rw [val_upd, val_upd, if_pos rfl, if_neg (by omega)]
    refine le_trans' (fin_le_fin.2 ?_) (fin_le_addUp' hR (hx 0 (var+1) ⟨by omega, by omega⟩) hd)
    simp only [DBM.val]; linarith
  · have hav : a ≠ var + 1 := by omega
    have hcv : c ≠ var + 1 := by omega
    rw [val_upd, val_upd, if_neg hav, if_neg hcv]
    exact hx a c hac

/-! ## Task A: `generalized_affine_image`, every branch but the general one -/

theorem genAffineImageCore_special_sound {R : Rnd} (hR : R.Sound) {n var : Nat} (hvar : var < n)
    {e : Nat → Int} {b den : Int} (hden : den ≠ 0) {m : Mat} {x : Nat → Rat} (hx : x ∈ γB n m)
    (isLe : Bool) {t : Rat}
    (ht : if isLe then t ≤ (linEval e x n + b) / den else (linEval e x n + b) / den ≤ t)
    (hsp : exprT e (lastNonzero e n) = 0 ∨
      (exprT e (lastNonzero e n) = 1 ∧
        (e (lastNonzero e n - 1) = den ∨ e (lastNonzero e n - 1) = - den))) :
    upd x var t ∈ γB n (genAffineImageCore R n var isLe e b den m) := by
  have hx' : Holds (SB (n+1)) (DBM.val x) m := hx
  have hF := holds_forgetAll (var := var) hx' t
  show Holds (SB (n+1)) (DBM.val (upd x var t)) _
  have hd1 : fin ((b : Rat) / den) ≤ divRoundUp R b den := fin_le_divRoundUp hR (le_refl _)
  have hd2 : fin (- ((b : Rat) / den)) ≤ divRoundUp R b (- den) :=
    fin_le_divRoundUp hR (le_of_eq (div_negden b den).symm)
  have h0v : (0 : Nat) ≠ var + 1 := by omega
  unfold genAffineImageCore
  simp only []
  rcases hsp with h0 | ⟨h1, ha⟩
  · -- `expr == b`
    rw [if_pos h0]
    rw [linEval_t0 x h0, zero_add] at ht
    cases isLe with
    | true =>
      simp only [if_true] at ht ⊢
      exact holds_upd_addCol hF h0v (le_trans' (fin_le_fin.2 (by simpa [DBM.val] using ht)) hd1)
    | false =>
      simp only [Bool.false_eq_true, if_false] at ht ⊢
      exact holds_upd_addRow hF h0v
        (le_trans' (fin_le_fin.2 (by simp only [DBM.val]; linarith)) hd2)
  · obtain ⟨hw0, hE⟩ := linEval_t1 x h1
    have hwn := lastNonzero_le e n
    rw [if_neg (by omega), if_pos ⟨h1, ha⟩]
    rw [hE] at ht
    generalize lastNonzero e n = w at *
    obtain ⟨k, rfl⟩ : ∃ k, w = k + 1 := ⟨w - 1, by omega⟩
    simp only [Nat.add_sub_cancel] at *
    have hk1 : k + 1 < n + 1 := by omega
    cases isLe with
    | true =>
      simp only [if_true] at ht ⊢
      by_cases hw : k + 1 = var + 1
      · obtain rfl : k = var := by omega
        rw [if_pos rfl]
        by_cases ha1 : e k = den
        · rw [if_pos ha1]
          rw [special_val_pos hden ha1] at ht
          exact holds_shiftCol hR hx' ht hd1
        · rw [if_neg ha1]
          rw [special_val_neg hden (ha.resolve_left ha1)] at ht
          exact holds_negCol hR hx' hvar ht hd1
      · rw [if_neg hw]
        by_cases ha1 : e k = den
        · rw [if_pos ha1]
          rw [special_val_pos hden ha1] at ht
          exact holds_upd_addCol hF hw (le_trans' (fin_le_fin.2 (by simp only [DBM.val]; linarith)) hd1)
        · rw [if_neg ha1]
          rw [special_val_neg hden (ha.resolve_left ha1)] at ht
          split
          · have h2 := hF (k+1) 0 ⟨hk1, by omega⟩
            rw [val_upd, val_upd, if_neg h0v, if_neg hw] at h2
            refine holds_upd_setCol hF h0v (le_trans' (fin_le_fin.2 ?_) (fin_le_addUp' hR hd1 h2))
            simp only [DBM.val]; linarith
          · exact hF
    | false =>
      simp only [Bool.false_eq_true, if_false] at ht ⊢
      by_cases hw : k + 1 = var + 1
      · obtain rfl : k = var := by omega
        rw [if_pos rfl]
        by_cases ha1 : e k = den
        · rw [if_pos ha1]
          rw [special_val_pos hden ha1] at ht
          exact holds_shiftRow hR hx' ht hd2
        · rw [if_neg ha1]
          rw [special_val_neg hden (ha.resolve_left ha1)] at ht
          exact holds_negRow hR hx' hvar ht hd2
      · rw [if_neg hw]
        by_cases ha1 : e k = den
        · rw [if_pos ha1]
          rw [special_val_pos hden ha1] at ht
          exact holds_upd_addRow hF hw (le_trans' (fin_le_fin.2 (by simp only [DBM.val]; linarith)) hd2)
        · rw [if_neg ha1]
          rw [special_val_neg hden (ha.resolve_left ha1)] at ht
          split
          · have h2 := hF 0 (k+1) ⟨by omega, hk1⟩
            rw [val_upd, val_upd, if_neg h0v, if_neg hw] at h2
            refine holds_upd_setRow hF h0v (le_trans' (fin_le_fin.2 ?_) (fin_le_addUp' hR h2 hd2))
            simp only [DBM.val]; linarith
          · exact hF

/-! ## Task C: `bounded_affine_image`, the branches `ub_expr == b` and `ub_expr == ±den * w + b`, `w ≠ v` -/

theorem boundedAffineImageCore_special_sound {R : Rnd} (hR : R.Sound) {n var : Nat} (hvar : var < n)
    {el : Nat → Int} {bl : Int} {eu : Nat → Int} {bu den : Int} (hden : den ≠ 0) {m : Mat} {x : Nat → Rat}
    {t : Rat} (hub : t ≤ (linEval eu x n + bu) / den)
    (hgen : upd x var t ∈ γB n (genAffineImageCore R n var false el bl den m))
    (hsp : exprT eu (lastNonzero eu n) = 0 ∨
      (exprT eu (lastNonzero eu n) = 1 ∧ lastNonzero eu n ≠ var + 1 ∧
        (eu (lastNonzero eu n - 1) = den ∨ eu (lastNonzero eu n - 1) = - den))) :
    ∃ m', boundedAffineImageCore R n var el bl eu bu den m = some m' ∧ upd x var t ∈ γB n m' := by
  have hG : Holds (SB (n+1)) (DBM.val (upd x var t)) (genAffineImageCore R n var false el bl den m) := hgen
  have hd1 : fin ((bu : Rat) / den) ≤ divRoundUp R bu den := fin_le_divRoundUp hR (le_refl _)
  have h0v : (0 : Nat) ≠ var + 1 := by omega
  unfold boundedAffineImageCore
  simp only []
  generalize genAffineImageCore R n var false el bl den m = G at *
  rcases hsp with h0 | ⟨h1, hwv, ha⟩
  · rw [if_pos h0]
    rw [linEval_t0 x h0, zero_add] at hub
    exact ⟨_, rfl, holds_upd_addCol hG h0v (le_trans' (fin_le_fin.2 (by simpa [DBM.val] using hub)) hd1)⟩
  · obtain ⟨hw0, hE⟩ := linEval_t1 x h1
    have hwn := lastNonzero_le eu n
    rw [if_neg (by omega), if_pos ⟨h1, ha⟩, if_neg hwv]
    rw [hE] at hub
    generalize lastNonzero eu n = w at *
    obtain ⟨k, rfl⟩ : ∃ k, w = k + 1 := ⟨w - 1, by omega⟩
    simp only [Nat.add_sub_cancel] at *
    have hk1 : k + 1 < n + 1 := by omega
    by_cases ha1 : eu k = den
    · rw [if_pos ha1]
      rw [special_val_pos hden ha1] at hub
      exact ⟨_, rfl, holds_upd_addCol hG hwv (le_trans' (fin_le_fin.2 (by simp only [DBM.val]; linarith)) hd1)⟩
    · rw [if_neg ha1]
      rw [special_val_neg hden (ha.resolve_left ha1)] at hub
      split
      · have h2 := hG (k+1) 0 ⟨hk1, by omega⟩
        rw [val_upd, val_upd, if_neg h0v, if_neg hwv] at h2
        refine ⟨_, rfl, holds_upd_setCol hG h0v (le_trans' (fin_le_fin.2 ?_) (fin_le_addUp' hR hd1 h2))⟩
        simp only [DBM.val]; linarith
      · exact ⟨_, rfl, hG⟩

end PPLV.WR
